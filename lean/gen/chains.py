#!/usr/bin/env python3
"""chains.py <lean dir> [<out dir>]: regenerate the "who may log what" lemma chains (DESIGN.md 12.17) from the
hand-proved NC chain (EIO/Lemmas/Conn.lean, ConnStep.lean) and the handshake lemmas of MsgHist.lean, by renaming,
followed by the hand repairs (each a literal text replacement below). The generated files are committed Lean sources
checked by the kernel like every other; this script only records where they come from. With an out dir the files are
written there (to compare with the committed ones), otherwise in place."""
import sys, os
L = sys.argv[1]
OUT = sys.argv[2] if len(sys.argv) > 2 else L
rd = lambda p: open(os.path.join(L, p)).read()
def wr(p, s):
    q = os.path.join(OUT, p); os.makedirs(os.path.dirname(q), exist_ok=True); open(q, 'w').write(s)
conn = rd('EIO/Lemmas/Conn.lean')
cs = rd('EIO/Lemmas/ConnStep.lean').split('\n')
grab = lambda a, b: '\n'.join(cs[a-1:b])
mh = rd('EIO/Lemmas/MsgHist.lean')
HS = mh[mh.index("/-- the step appended no `message` entry to the session log -/"):mh.index("/-- the operations by which a client submits packets -/")]
NCBODY = conn[conn.index('structure NC'):conn.rindex('end EIO.Ses')]
STEPS = '\n' + grab(34, 49) + '\n' + grab(130, 202) + '\n'
def must(s, old, new, n=-1):
    assert old in s, old[:80]
    return s.replace(old, new) if n < 0 else s.replace(old, new, n)

# ---- PT.lean: no `close ping_timeout` entry --------------------------------------------------------------
body = (NCBODY + STEPS).replace('nc_', 'np_').replace('NC.', 'NP.').replace('NC ', 'NP ').replace('isConnection', 'isPT')
body = must(body, "(∀ w0 w sid r, NP w0 w → NP w0 (sockOnClose f w sid r)) := by", "(∀ w0 w sid r, r ≠ \"ping_timeout\" → NP w0 w → NP w0 (sockOnClose f w sid r)) := by")
body = must(body, "      · exact iSC _ _ _ _ h\n", "      · exact iSC _ _ _ _ (by decide) h\n")
body = must(body, "      · apply iSC; np_prim\n", "      · refine iSC _ _ _ _ (by decide) ?_; np_prim\n")
body = must(body, "    · intro w0 w sid r h\n      rw [sockOnClose]", "    · intro w0 w sid r hr h\n      rw [sockOnClose]")
body = must(body, "apply np_setSock; apply iCF; refine np_sev _ _ ?_ rfl\n        refine np_same", "apply np_setSock; apply iCF; refine np_sev _ _ ?_ (isPT_close_false _ hr)\n        refine np_same")
body = must(body, "theorem np_sockOnClose {w0 w : World} (f : Nat) (sid : Nat) (r : String) (h : NP w0 w) : NP w0 (sockOnClose f w sid r) :=",
            "theorem np_sockOnClose {w0 w : World} (f : Nat) (sid : Nat) (r : String) (hr : r ≠ \"ping_timeout\") (h : NP w0 w) : NP w0 (sockOnClose f w sid r) :=")
body = must(body, "  (np_close_all f).2.2.2.2.2.2.2.2.2 _ _ _ _ h\n", "  (np_close_all f).2.2.2.2.2.2.2.2.2 _ _ _ _ hr h\n")
body = must(body, "    · exact np_sockOnClose _ _ _ h1\n", "    · exact np_sockOnClose _ _ _ (by decide) h1\n")
body = must(body, "| with_reducible apply np_sockOnClose", "| (with_reducible refine np_sockOnClose _ _ _ (by decide) ?_)")
body = must(body, "theorem np_fireTimer {w0 w : World} (id : TimerId) (h : NP w0 w) : NP w0 (fireTimer w id) := by",
            "theorem np_fireTimer {w0 w : World} (id : TimerId) (hid : ∀ s, id ≠ .pingTimeout s) (h : NP w0 w) : NP w0 (fireTimer w id) := by")
body = must(body, "  | pingTimeout sid =>\n    simp only [fireTimer]\n    split <;> np_auto\n", "  | pingTimeout sid => exact absurd rfl (hid sid)\n")
body = body[:body.index("theorem np_advance")] + body[body.index("theorem np_foldl"):]
PTHDR = rd('EIO/Lemmas/PT.lean'); PTHDR = PTHDR[:PTHDR.index('structure NP')]
PT = PTHDR + body + '\nend EIO.Ses\n'
wr('EIO/Lemmas/PT.lean', PT)

# ---- Doc.lean: no `close` entry with an undocumented reason (from PT) ------------------------------------
body = PT[PT.index('structure NP'):PT.rindex('end EIO.Ses')]
body = body.replace('np_', 'nd_').replace('NP.', 'ND.').replace('NP ', 'ND ').replace('isPT', 'isUndoc').replace('r ≠ "ping_timeout"', 'r ∈ docReasons')
body = must(body, "theorem nd_fireTimer {w0 w : World} (id : TimerId) (hid : ∀ s, id ≠ .pingTimeout s) (h : ND w0 w) : ND w0 (fireTimer w id) := by", "theorem nd_fireTimer {w0 w : World} (id : TimerId) (h : ND w0 w) : ND w0 (fireTimer w id) := by")
body = must(body, "  | pingTimeout sid => exact absurd rfl (hid sid)\n", "  | pingTimeout sid =>\n    simp only [fireTimer]\n    split <;> nd_auto\n")
adv = conn[conn.index("theorem nc_advance"):conn.index("theorem nc_foldl")].replace('nc_', 'nd_').replace('NC.', 'ND.').replace('NC ', 'ND ')
body = must(body, "theorem nd_foldl", adv + "theorem nd_foldl", 1)
part = HS.replace('NMsg', 'NDm').replace('nmsg_', 'ndm_').replace('.nmsg', '.ndm').replace('nm_', 'nd_').replace('NM.', 'ND.').replace('NM ', 'ND ').replace('isMessage', 'isUndoc').replace('`message` entry', '`close` entry with an undocumented reason').replace("nothing is delivered to the application as a message", "no session is closed")
DOC = rd('EIO/Lemmas/Doc.lean')
DOCHDR = DOC[:DOC.index('structure ND')]
DOCSTEP = DOC[DOC.index("/-- every operation leaves the log without a `close` entry whose reason is not a documented one -/"):]
wr('EIO/Lemmas/Doc.lean', DOCHDR + body + '\n' + part + '\n' + DOCSTEP)

# ---- PC.lean: no `packetCreate` entry, up to `flush` ------------------------------------------------------
cl = conn.split('\n')
body = '\n'.join(cl[14:203]).replace('nc_', 'npc_').replace('NC.', 'NPC.').replace('NC ', 'NPC ').replace('isConnection', 'isPC')
PCH = rd('EIO/Lemmas/PC.lean'); PCH = PCH[:PCH.index('structure NPC')]
wr('EIO/Lemmas/PC.lean', PCH + body + '\n\nend EIO.Ses\n')

# ---- the chains with an extra field (OptsConst: `o`, Fault: `fault`) ---------------------------------------
def with_field(body, N, pre, fld):
    body = must(body, "structure %s (w w' : World) : Prop where\n  size :" % N, "structure %s (w w' : World) : Prop where\n  %s : w'.%s = w.%s\n  size :" % (N, fld, fld, fld))
    body = must(body, "theorem %s.refl (w : World) : %s w w := ⟨rfl, []," % (N, N), "theorem %s.refl (w : World) : %s w w := ⟨rfl, rfl, []," % (N, N))
    body = must(body, "refine ⟨h2.size.trans h1.size, x ++ y,", "refine ⟨h2.%s.trans h1.%s, h2.size.trans h1.size, x ++ y," % (fld, fld))
    body = must(body, "(hs : w'.socks = w.socks) (hl : w'.slog = w.slog) : %s w0 w' :=\n  h.trans ⟨by rw [hs]," % N, "(hs : w'.socks = w.socks) (hl : w'.slog = w.slog) (ho : w'.%s = w.%s := by rfl) : %s w0 w' :=\n  h.trans ⟨ho, by rw [hs]," % (fld, fld, N))
    body = must(body, "h.trans ⟨by simp, [(sid, e)],", "h.trans ⟨by unfold World.sev; dsimp only; split <;> rfl, by simp, [(sid, e)],")
    body = must(body, "h.trans ⟨by simp, [", "h.trans ⟨rfl, by simp, [")
    body = must(body, "(h1 : w'.socks = w.socks := by rfl) (h2 : w'.slog = w.slog := by rfl) : %s w0 w' :=\n  %ssame w' h h1 h2" % (N, pre), "(h1 : w'.socks = w.socks := by rfl) (h2 : w'.slog = w.slog := by rfl) (h3 : w'.%s = w.%s := by rfl) : %s w0 w' :=\n  %ssame w' h h1 h2 h3" % (fld, fld, N, pre))
    return body
body = '\n'.join(cl[14:210]).replace('nc_', 'no_').replace('NC.', 'NO.').replace('NC ', 'NO ').replace('isConnection', 'isNever')
body = with_field(body, 'NO', 'no_', 'o')
OH = rd('EIO/Lemmas/OptsConst.lean'); OH = OH[:OH.index('structure NO')]
wr('EIO/Lemmas/OptsConst.lean', OH + body + '\n\nend EIO.Ses\n')

part = HS.replace('NMsg', 'NFm').replace('nmsg_', 'nfm_').replace('.nmsg', '.nfm').replace('nm_', 'nc_').replace('NM.', 'NC.').replace('NM ', 'NC ').replace('isMessage', 'isConnection')
body = (NCBODY + STEPS + part).replace('nc_', 'nf_').replace('NC.', 'NF.').replace('NC ', 'NF ').replace('isConnection', 'isNever2')
body = with_field(body, 'NF', 'nf_', 'fault')
FA = rd('EIO/Lemmas/Fault.lean')
body = body[:body.index("theorem nf_pollOnData")] + FA[FA.index("theorem nf_pollOnData"):FA.index("theorem nf_postReq")] + body[body.index("theorem nf_postReq"):]
body = must(body, "theorem nf_postReq {w0 w : World} (sid : Nat) (binary declared : Bool) (body : Bytes) (vj : Bool) (h : NF w0 w) :", "theorem nf_postReq {w0 w : World} (sid : Nat) (binary declared : Bool) (body : Bytes) (vj : Bool) (hb : binary = false) (h : NF w0 w) :")
body = must(body, "| with_reducible apply nf_rejectReq | with_reducible apply nf_emitHeaders | with_reducible apply nf_pollOnData", "| with_reducible apply nf_rejectReq | with_reducible apply nf_emitHeaders | (with_reducible refine nf_pollOnData _ _ _ hb ?_)")
i = body.index("/-- the step appended no `message` entry to the session log -/"); j = body.index("theorem nfm_hsPolling")
body = body[:i] + FA[FA.index("/-- the step left `fault` as it was"):FA.index("theorem nfm_hsPolling")] + body[j:]
wr('EIO/Lemmas/Fault.lean', FA[:FA.index('structure NF')] + body + '\nend EIO.Ses\n')

# ---- Upg.lean: no `upgrade` entry -------------------------------------------------------------------------
def cut(b, name, nxt):
    return b[:b.index("theorem " + name)] + b[b.index("theorem " + nxt):]
body = cut(cut(NCBODY, "nc_doUpgrade", "nc_candOnPacket"), "nc_pollDeliver", "nc_wsDrop") + STEPS
part = HS.replace('NMsg', 'NUm').replace('nmsg_', 'num_').replace('.nmsg', '.num').replace('nm_', 'nc_').replace('NM.', 'NC.').replace('NM ', 'NC ').replace('isMessage', 'isConnection').replace('`message` entry', '`upgrade` entry').replace("nothing is delivered to the application as a message", "no session is upgraded")
body = (body + part).replace('nc_', 'nu_').replace('NC.', 'NU.').replace('NC ', 'NU ').replace('isConnection', 'isUpg')
body = must(body, "theorem nu_candOnPacket {w0 w : World} (sid : Nat) (pk : Pkt) (h : NU w0 w) : NU w0 (candOnPacket w sid pk) := by", "theorem nu_candOnPacket {w0 w : World} (sid : Nat) (pk : Pkt) (hp : pk.typ ≠ .upgrade) (h : NU w0 w) : NU w0 (candOnPacket w sid pk) := by")
body = must(body, "      · exact nu_doUpgrade _ _ h\n", "      · rename_i hc; exact absurd hc.1 hp\n")
body = must(body, "theorem nu_trEmitPacket {w0 w : World} (ti : Nat) (pk : Pkt) (h : NU w0 w) : NU w0 (trEmitPacket w ti pk) := by", "theorem nu_trEmitPacket {w0 w : World} (ti : Nat) (pk : Pkt) (hp : pk.typ ≠ .upgrade) (h : NU w0 w) : NU w0 (trEmitPacket w ti pk) := by")
body = must(body, "  · exact nu_candOnPacket _ _ h\n", "  · exact nu_candOnPacket _ _ hp h\n")
UH = rd('EIO/Lemmas/Upg.lean'); UH = UH[:UH.index('structure NU')]
wr('EIO/Lemmas/Upg.lean', UH + body + '\nend EIO.Ses\n')

# ---- Hb.lean chain (HbLog.lean): no `heartbeat` entry ------------------------------------------------------
body = cut(cut(NCBODY, "nc_sockOnPacket", "nc_emitHeaders"), "nc_pollDeliver", "nc_wsDrop") + STEPS
part = HS.replace('NMsg', 'NHm').replace('nmsg_', 'nhm_').replace('.nmsg', '.nhm').replace('nm_', 'nc_').replace('NM.', 'NC.').replace('NM ', 'NC ').replace('isMessage', 'isConnection').replace('`message` entry', '`heartbeat` entry').replace("nothing is delivered to the application as a message", "no heartbeat is accepted")
body = (body + part).replace('nc_', 'nh_').replace('NC.', 'NH.').replace('NC ', 'NH ').replace('isConnection', 'isHb')
HH = rd('EIO/Lemmas/HbLog.lean'); HH = HH[:HH.index('structure NH')]
wr('EIO/Lemmas/HbLog.lean', HH + body + '\nend EIO.Ses\n')
print("chains regenerated into", OUT)
