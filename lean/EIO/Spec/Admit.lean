import EIO.Model.Admit
/-
C05, admission half, written from the property text: the documented error
table and the fixed precedence of checks. Nothing here looks at the code.
-/
namespace EIO.Admit.Spec
open EIO EIO.Admit

/-- README, `connection_error`: code / message -/
def documented : ErrKind → CodeMessage
  | .unknownTransport => ⟨0, "Transport unknown"⟩
  | .unknownSid => ⟨1, "Session ID unknown"⟩
  | .badHandshakeMethod => ⟨2, "Bad handshake method"⟩
  | .badRequest => ⟨3, "Bad request"⟩
  | .forbidden => ⟨4, "Forbidden"⟩
  | .unsupportedProtocol => ⟨5, "Unsupported protocol version"⟩

/-- a header value is well formed when it has no control byte other than tab -/
def originWellFormed (v : Bytes) : Prop := ∀ b ∈ v, ¬ ((b.toNat < 32 ∨ b.toNat = 127) ∧ b.toNat ≠ 9)

instance (v : Bytes) : Decidable (originWellFormed v) := by
  unfold originWellFormed; exact inferInstance

/-- one check of the precedence list: when it applies, whether it fails, and
    the documented answer -/
structure Check where
  fails : Bool
  err : ErrKind
  text : Option String := none     -- the hook's own text for code 4

/-- the fixed precedence: transport known and enabled; Origin well-formed;
    session id known and bound to the same transport unless upgrading; GET for
    handshakes; no plain-HTTP handshake for WebSocket; the allow-request hook;
    then protocol revision allowed. A middleware failure precedes all of them. -/
def requestChecks (c : Cfg) (reg : Registry) (r : Request) : List Check :=
  let t := peek r.transport
  let sid := peek r.sid
  let hasSid := sid ≠ ""
  [ { fails := c.mwFails, err := .badRequest },
    { fails := ¬ (t ∈ c.transports) ∨ t = "webtransport", err := .unknownTransport },
    { fails := ¬ originWellFormed r.origin, err := .badRequest },
    { fails := hasSid ∧ reg sid = none, err := .unknownSid },
    { fails := hasSid ∧ ¬ r.upgrade ∧ (∃ cl, reg sid = some cl ∧ cl.transport ≠ t), err := .badRequest },
    { fails := ¬ hasSid ∧ r.method ≠ "GET", err := .badHandshakeMethod },
    { fails := ¬ hasSid ∧ t = "websocket" ∧ ¬ r.upgrade, err := .badRequest },
    { fails := ¬ hasSid ∧ c.hookRefuses.isSome, err := .forbidden, text := c.hookRefuses } ]

/-- the last check: protocol revision allowed (handshakes only) -/
def revisionCheck (c : Cfg) (r : Request) : Check :=
  { fails := ¬ (peek r.sid ≠ "") ∧ peek r.eio ≠ "4" ∧ ¬ c.allowEIO3, err := .unsupportedProtocol }

def checks (c : Cfg) (reg : Registry) (r : Request) : List Check :=
  requestChecks c reg r ++ [revisionCheck c r]

def firstFailing : List Check → Option Check
  | [] => none
  | ch :: rest => if ch.fails then some ch else firstFailing rest

/-- the documented answer to a refused request: status, code, message -/
def answer (ch : Check) : Nat × Nat × String :=
  (if ch.err = .forbidden then 403 else 400, (documented ch.err).code,
   ch.text.getD (documented ch.err).message)

end EIO.Admit.Spec
