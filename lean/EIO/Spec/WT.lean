import EIO.Base.Bytes
/-
The Engine.IO WebTransport frame format, written from the protocol text
(property C14), independently of conn.go:

  header byte: high bit set iff the message is binary; low seven bits hold the
  payload length when it is below 126, or 126 followed by a 16-bit big-endian
  length when it is below 65536, or 127 followed by a 64-bit big-endian length
  otherwise; then the payload and nothing else.
-/
namespace EIO.WT.Spec
open EIO

def kindBit : Kind → Nat
  | .text => 0
  | .binary => 128

inductive LenForm where
  | short | ext16 | ext64
  deriving DecidableEq, Repr

def headerWith (f : LenForm) (k : Kind) (n : Nat) : Bytes :=
  match f with
  | .short => [UInt8.ofNat (kindBit k + n)]
  | .ext16 => UInt8.ofNat (kindBit k + 126) :: be 2 n
  | .ext64 => UInt8.ofNat (kindBit k + 127) :: be 8 n

/-- which lengths a form can carry (a conformant peer may use a non-minimal form) -/
def LenForm.fits : LenForm → Nat → Prop
  | .short, n => n < 126
  | .ext16, n => n < 65536
  | .ext64, n => n < 2 ^ 63

instance (f : LenForm) (n : Nat) : Decidable (f.fits n) := by
  cases f <;> simp only [LenForm.fits] <;> exact inferInstance

def minimal (n : Nat) : LenForm :=
  if n < 126 then .short else if n < 65536 then .ext16 else .ext64

def header (k : Kind) (n : Nat) : Bytes := headerWith (minimal n) k n

/-- the one frame a message is encoded as -/
def encode (m : Msg) : Bytes := header m.kind m.data.length ++ m.data

def encodeWith (f : LenForm) (m : Msg) : Bytes :=
  headerWith f m.kind m.data.length ++ m.data

/-- a stream of frames, each with the length form its sender chose -/
def encodeAll (ms : List (LenForm × Msg)) : Bytes :=
  (ms.map fun fm => encodeWith fm.1 fm.2).flatten

theorem minimal_fits (n : Nat) (h : n < 2 ^ 63) : (minimal n).fits n := by
  unfold minimal
  split
  · simpa [LenForm.fits]
  · split
    · simpa [LenForm.fits]
    · simpa [LenForm.fits]

end EIO.WT.Spec
