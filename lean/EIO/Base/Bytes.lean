/-
Base vocabulary shared by all models: byte strings, message kinds, big-endian
integers. Core Lean only (the compiled driver links against this file).
-/

namespace EIO

abbrev Bytes := List UInt8

inductive Kind where
  | text | binary
  deriving DecidableEq, Repr, Inhabited

structure Msg where
  kind : Kind
  data : Bytes
  deriving DecidableEq, Repr, Inhabited

/-- `k` bytes, big endian, of `n mod 256^k` (Go: `binary.BigEndian.PutUintNN`). -/
def be : Nat → Nat → Bytes
  | 0, _ => []
  | k + 1, n => be k (n / 256) ++ [UInt8.ofNat (n % 256)]

/-- Big-endian value of a byte string (Go: `binary.BigEndian.UintNN`). -/
def unbe (bs : Bytes) : Nat :=
  bs.foldl (fun acc b => acc * 256 + b.toNat) 0

@[simp] theorem be_length (k n : Nat) : (be k n).length = k := by
  induction k generalizing n with
  | zero => simp [be]
  | succ k ih => simp [be, ih]

theorem unbe_append_single (bs : Bytes) (b : UInt8) :
    unbe (bs ++ [b]) = unbe bs * 256 + b.toNat := by
  simp [unbe, List.foldl_append]

theorem unbe_be (k n : Nat) : unbe (be k n) = n % 256 ^ k := by
  induction k generalizing n with
  | zero => simp [be, unbe, Nat.mod_one]
  | succ k ih =>
    rw [be, unbe_append_single, ih]
    have h256 : (UInt8.ofNat (n % 256)).toNat = n % 256 := by
      simp
    rw [h256, Nat.pow_succ]
    have := Nat.mod_mul_right_div_self n 256 (256 ^ k)
    -- n % (256^k * 256) = 256 * ((n/256) % 256^k) + n % 256
    rw [Nat.mul_comm (256 ^ k) 256, Nat.mod_mul]
    omega

theorem unbe_be_of_lt (k n : Nat) (h : n < 256 ^ k) : unbe (be k n) = n := by
  rw [unbe_be, Nat.mod_eq_of_lt h]

theorem snoc_induction {α : Type} {motive : List α → Prop} (nil : motive [])
    (snoc : ∀ l a, motive l → motive (l ++ [a])) : ∀ l, motive l := by
  intro l
  have : ∀ r : List α, motive r.reverse := by
    intro r
    induction r with
    | nil => simpa using nil
    | cons a r ih => simpa using snoc _ a ih
  simpa using this l.reverse

theorem unbe_lt (bs : Bytes) : unbe bs < 256 ^ bs.length := by
  induction bs using snoc_induction with
  | nil => simp [unbe]
  | snoc bs b ih =>
    rw [unbe_append_single]
    have hb : b.toNat < 256 := b.toNat_lt
    simp only [List.length_append, List.length_singleton, Nat.pow_succ]
    omega

/-- `be` is the inverse of `unbe` on strings of the right length. -/
theorem be_unbe (bs : Bytes) : be bs.length (unbe bs) = bs := by
  induction bs using snoc_induction with
  | nil => simp [be]
  | snoc bs b ih =>
    have hb : b.toNat < 256 := b.toNat_lt
    simp only [List.length_append, List.length_singleton]
    rw [be, unbe_append_single]
    have h1 : (unbe bs * 256 + b.toNat) / 256 = unbe bs := by omega
    have h2 : (unbe bs * 256 + b.toNat) % 256 = b.toNat := by omega
    rw [h1, h2, ih]
    simp

end EIO
