import EIO.Lemmas.SesClose
/-
Every function of the session model preserves the invariant and extends the
world (`Pres`), in post-composition form `Pres w0 w → Pres w0 (g w …)` so that a
function body is handled by applying the lemmas of the calls it makes,
outermost first.
-/
namespace EIO.Ses
open EIO EIO.Codec

theorem pr_sv {w0 w w' : World} (h : Pres w0 w) (v : SameView w w') : Pres w0 w' := h.trans v.pres

theorem pr_setTr {w0 w : World} (i : Nat) (f : Tr → Tr) (h : Pres w0 w) : Pres w0 (w.setTr i f) :=
  pr_sv h (sameView_setTr _ _ _)
theorem pr_setConn {w0 w : World} (i : Nat) (f : Conn → Conn) (h : Pres w0 w) : Pres w0 (w.setConn i f) :=
  pr_sv h (sameView_setConn _ _ _)
theorem pr_ev {w0 w : World} (s : String) (h : Pres w0 w) : Pres w0 (w.ev s) := pr_sv h (sameView_ev _ _)
theorem pr_trSend {w0 w : World} (ti : Nat) (b : List Pkt) (h : Pres w0 w) : Pres w0 (trSend w ti b) :=
  pr_sv h (sameView_trSend _ _ _)
theorem pr_answer {w0 w : World} (r : Nat) (resp : Resp) (h : Pres w0 w) : Pres w0 (w.answer r resp) :=
  pr_sv h (sameView_answer _ _ _)
theorem pr_abortData {w0 w : World} (d : Option Nat) (h : Pres w0 w) : Pres w0 (abortData w d) := by
  unfold abortData; split
  · exact pr_answer _ _ h
  · exact h
theorem pr_setSockSame {w0 w : World} (sid : Nat) (f : Sock → Sock) (hf : ∀ s, SockSame s (f s)) (h : Pres w0 w) :
    Pres w0 (w.setSock sid f) := pr_sv h (sameView_setSock _ _ _ (hf _))
/-- an update of a request that is not its response -/
theorem pr_setReqKeep {w0 w : World} (r : Nat) (f : Req → Req) (hf : ∀ q, (f q).resp = q.resp) (h : Pres w0 w) :
    Pres w0 (w.setReq r f) := pr_sv h (sameView_setReq _ _ _ (fun x hx => by rw [hf]; exact hx))
theorem pr_pushReq {w0 w : World} (q : Req) (h : Pres w0 w) : Pres w0 { w with reqs := w.reqs.push q } :=
  pr_sv h (sameView_pushReq _ _)
theorem pr_sev {w0 w : World} (sid : Nat) (e : SEv) (he : e.isClose = false) (hn : e.accNeutral = true)
    (hnc : ¬ closedW w sid) (h : Pres w0 w) : Pres w0 (w.sev sid e) :=
  h.trans (pres_sev w sid e (fun _ => hnc) he hn)
theorem pr_sev_nonfinal {w0 w : World} (sid : Nat) (e : SEv) (he : e.isClose = false) (hf : e.final = false)
    (hn : e.accNeutral = true) (h : Pres w0 w) : Pres w0 (w.sev sid e) :=
  h.trans (pres_sev w sid e (fun h => by rw [hf] at h; cases h) he hn)
theorem pr_setSock {w0 w : World} (sid : Nat) (f : Sock → Sock)
    (hrank : (w.sock sid).rs.rank ≤ (f (w.sock sid)).rs.rank)
    (hcl : (f (w.sock sid)).rs = .closed ↔ (w.sock sid).rs = .closed)
    (hann : (f (w.sock sid)).announced = (w.sock sid).announced)
    (hproto : (f (w.sock sid)).proto = (w.sock sid).proto)
    (hok : sid < w.socks.size → SockOK (w.sock sid) → SockOK (f (w.sock sid)))
    (hacc : sid < w.socks.size → AccS (w.sock sid) sid w.slog → AccS (f (w.sock sid)) sid w.slog)
    (h : Pres w0 w) : Pres w0 (w.setSock sid f) :=
  h.trans (pres_setSock w sid f hrank hcl hann hproto hok hacc)
/-- record updates of fields the invariant does not read (requests may be pushed) -/
theorem pr_fields {w0 w : World} (w' : World) (h : Pres w0 w) (h1 : w'.socks = w.socks := by rfl)
    (h2 : w'.slog = w.slog := by rfl) (h3 : w'.registry = w.registry := by rfl)
    (h4 : w'.reqs = w.reqs ∨ ∃ q, w'.reqs = w.reqs.push q := by first | exact Or.inl rfl | exact Or.inr ⟨_, rfl⟩) :
    Pres w0 w' := by
  rcases h4 with h4 | ⟨q, h4⟩
  · exact pr_sv h (sameView_fields w w' h1 h2 h3 h4)
  · have v := sameView_pushReq w q
    refine pr_sv (pr_sv h v) (sameView_fields _ w' h1 h2 h3 ?_)
    rw [h4]

theorem pr_sockOnClose {w0 w : World} (f : Nat) (sid : Nat) (reason : String) (h : Pres w0 w) :
    Pres w0 (sockOnClose f w sid reason) := h.trans (sockOnClose_pres f w sid reason)
theorem pr_candFail {w0 w : World} (f : Nat) (sid : Nat) (h : Pres w0 w) : Pres w0 (candFail f w sid) :=
  pr_sv h (candFail_sameView f w sid)
theorem pr_candCleanup {w0 w : World} (sid : Nat) (h : Pres w0 w) : Pres w0 (candCleanup w sid) :=
  pr_sv h (candCleanup_sameView w sid)
theorem pr_clearTransportF {w0 w : World} (f : Nat) (sid : Nat) (h : Pres w0 w) : Pres w0 (clearTransportF f w sid) :=
  pr_sv h (clearTransportF_sameView f w sid)

/-- chains of calls whose lemmas need no side condition -/
macro "pr_prim" : tactic => `(tactic| repeat (first
  | assumption | exact Pres.refl _
  | apply pr_setTr | apply pr_setConn | apply pr_ev | apply pr_trSend | apply pr_answer | apply pr_abortData
  | apply pr_sockOnClose | apply pr_candFail | apply pr_candCleanup | apply pr_clearTransportF
  | apply pr_pushReq
  | (refine pr_setSockSame _ _ ?hf ?h; case hf => (intro s; exact ⟨rfl, rfl, rfl, rfl, rfl, rfl, rfl, rfl, by first | exact id | (intro h; cases h)⟩))
  | (refine pr_setReqKeep _ _ ?hf ?h; case hf => (intro q; rfl))))

/-! ### the close paths -/

theorem pr_trEmitClose {w0 w : World} (f : Nat) (ti : Nat) (h : Pres w0 w) : Pres w0 (trEmitClose f w ti) := by
  cases f with
  | zero => simpa [trEmitClose] using h
  | succ f => rw [trEmitClose]; split <;> pr_prim

theorem pr_trOnErrorF {w0 w : World} (f : Nat) (ti : Nat) (h : Pres w0 w) : Pres w0 (trOnErrorF f w ti) := by
  cases f with
  | zero => simpa [trOnErrorF] using h
  | succ f => rw [trOnErrorF]; split <;> pr_prim

theorem pr_trOnCloseBaseF {w0 w : World} (f : Nat) (ti : Nat) (h : Pres w0 w) : Pres w0 (trOnCloseBaseF f w ti) := by
  cases f with
  | zero => simpa [trOnCloseBaseF] using h
  | succ f =>
    rw [trOnCloseBaseF]; split
    · exact h
    · apply pr_trEmitClose; pr_prim

theorem pr_pollOnCloseF {w0 w : World} (f : Nat) (ti : Nat) (h : Pres w0 w) : Pres w0 (pollOnCloseF f w ti) := by
  cases f with
  | zero => simpa [pollOnCloseF] using h
  | succ f =>
    rw [pollOnCloseF]
    apply pr_trOnCloseBaseF
    split <;> pr_prim

theorem pr_runCloseFnF {w0 w : World} (f : Nat) (ti : Nat) (h : Pres w0 w) : Pres w0 (runCloseFnF f w ti) := by
  cases f with
  | zero => simpa [runCloseFnF] using h
  | succ f =>
    rw [runCloseFnF]
    split <;> pr_prim

theorem pr_wsCloseNowF {w0 w : World} (f : Nat) (ti : Nat) (h : Pres w0 w) : Pres w0 (wsCloseNowF f w ti) := by
  cases f with
  | zero => simpa [wsCloseNowF] using h
  | succ f =>
    rw [wsCloseNowF]
    apply pr_trOnCloseBaseF
    apply pr_setConn
    apply pr_runCloseFnF
    pr_prim

theorem pr_trCloseF {w0 w : World} (f : Nat) (ti : Nat) (fn : Option Nat) (h : Pres w0 w) :
    Pres w0 (trCloseF f w ti fn) := by
  cases f with
  | zero => simpa [trCloseF] using h
  | succ f =>
    rw [trCloseF]
    try dsimp only
    split
    · exact h
    · split
      · split
        · apply pr_pollOnCloseF; apply pr_runCloseFnF; pr_prim
        · split
          · apply pr_pollOnCloseF; apply pr_runCloseFnF; pr_prim
          · pr_prim
      · split
        · apply pr_wsCloseNowF; pr_prim
        · pr_prim

theorem pr_trOnError {w0 w : World} (ti : Nat) (h : Pres w0 w) : Pres w0 (trOnError w ti) := pr_trOnErrorF _ _ h
theorem pr_trOnCloseBase {w0 w : World} (ti : Nat) (h : Pres w0 w) : Pres w0 (trOnCloseBase w ti) := pr_trOnCloseBaseF _ _ h
theorem pr_pollOnClose {w0 w : World} (ti : Nat) (h : Pres w0 w) : Pres w0 (pollOnClose w ti) := pr_pollOnCloseF _ _ h
theorem pr_runCloseFn {w0 w : World} (ti : Nat) (h : Pres w0 w) : Pres w0 (runCloseFn w ti) := pr_runCloseFnF _ _ h
theorem pr_wsCloseNow {w0 w : World} (ti : Nat) (h : Pres w0 w) : Pres w0 (wsCloseNow w ti) := pr_wsCloseNowF _ _ h
theorem pr_trClose {w0 w : World} (ti : Nat) (fn : Option Nat) (h : Pres w0 w) : Pres w0 (trClose w ti fn) := pr_trCloseF _ _ _ h
theorem pr_clearTransport {w0 w : World} (sid : Nat) (h : Pres w0 w) : Pres w0 (clearTransport w sid) := pr_clearTransportF _ _ h

theorem pr_closeTransportF {w0 w : World} (f : Nat) (sid : Nat) (d : Bool) (h : Pres w0 w) :
    Pres w0 (closeTransportF f w sid d) := by
  cases f with
  | zero => simpa [closeTransportF] using h
  | succ f =>
    rw [closeTransportF]
    try dsimp only
    repeat' split
    all_goals first
      | (apply pr_sockOnClose; pr_prim)
      | (apply pr_trClose; pr_prim)

end EIO.Ses
