import EIO.Lemmas.SesOps
/-
Who may close a session for `ping timeout`: the entry `close ping_timeout` of the session log is written by the
deadline timer (`fireTimer (.pingTimeout sid)`) and by nothing else. `NP w w'`: the step created no session record and
logged no `close ping_timeout` entry. Generated from the `NC` chain of Conn.lean / ConnStep.lean (same functions, same
proofs), then repaired where a close reason is involved.
-/
namespace EIO.Ses
open EIO EIO.Codec

def SEv.isPT : SEv → Bool
  | .close r _ => r == "ping_timeout"
  | _ => false

theorem isPT_close_false {r : String} (rs : RS) (h : r ≠ "ping_timeout") : (SEv.close r rs).isPT = false := by
  simp [SEv.isPT, h]

structure NP (w w' : World) : Prop where
  size : w'.socks.size = w.socks.size
  log : ∃ added, w'.slog = w.slog ++ added ∧ ∀ e ∈ added, e.2.isPT = false

theorem NP.refl (w : World) : NP w w := ⟨rfl, [], by simp, fun _ h => by cases h⟩
theorem NP.trans {a b c : World} (h1 : NP a b) (h2 : NP b c) : NP a c := by
  obtain ⟨x, hx, px⟩ := h1.log
  obtain ⟨y, hy, py⟩ := h2.log
  refine ⟨h2.size.trans h1.size, x ++ y, by rw [hy, hx, List.append_assoc], fun e he => ?_⟩
  rcases List.mem_append.mp he with h | h
  · exact px e h
  · exact py e h

theorem np_same {w0 w : World} (w' : World) (h : NP w0 w) (hs : w'.socks = w.socks) (hl : w'.slog = w.slog) : NP w0 w' :=
  h.trans ⟨by rw [hs], [], by simp [hl], fun _ h => by cases h⟩

theorem np_setTr {w0 w : World} (i : Nat) (f : Tr → Tr) (h : NP w0 w) : NP w0 (w.setTr i f) := np_same _ h rfl rfl
theorem np_setSock {w0 w : World} (i : Nat) (f : Sock → Sock) (h : NP w0 w) : NP w0 (w.setSock i f) :=
  h.trans ⟨by simp, [], by simp, fun _ h => by cases h⟩
theorem np_setConn {w0 w : World} (i : Nat) (f : Conn → Conn) (h : NP w0 w) : NP w0 (w.setConn i f) := np_same _ h rfl rfl
theorem np_setReq {w0 w : World} (i : Nat) (f : Req → Req) (h : NP w0 w) : NP w0 (w.setReq i f) := np_same _ h rfl rfl
theorem np_ev {w0 w : World} (s : String) (h : NP w0 w) : NP w0 (w.ev s) := np_same _ h rfl rfl
theorem np_sev {w0 w : World} (sid : Nat) (e : SEv) (h : NP w0 w) (he : e.isPT = false) : NP w0 (w.sev sid e) :=
  h.trans ⟨by simp, [(sid, e)], by simp, fun x hx => by simp at hx; subst hx; exact he⟩
theorem np_answer {w0 w : World} (r : Nat) (resp : Resp) (h : NP w0 w) : NP w0 (w.answer r resp) := by
  unfold World.answer; split
  · exact h
  · exact np_setReq _ _ (np_ev _ h)
theorem np_abortData {w0 w : World} (d : Option Nat) (h : NP w0 w) : NP w0 (abortData w d) := by
  unfold abortData; split
  · exact np_answer _ _ h
  · exact h
theorem np_trSend {w0 w : World} (ti : Nat) (b : List Pkt) (h : NP w0 w) : NP w0 (trSend w ti b) := np_same _ h rfl rfl
theorem np_fields {w0 w : World} (w' : World) (h : NP w0 w) (h1 : w'.socks = w.socks := by rfl) (h2 : w'.slog = w.slog := by rfl) : NP w0 w' :=
  np_same w' h h1 h2
theorem np_pushReq {w0 w : World} (q : Req) (h : NP w0 w) : NP w0 ({ w with reqs := w.reqs.push q } : World) := np_fields _ h

macro "np_prim" : tactic => `(tactic| repeat (first
  | with_reducible assumption
  | with_reducible apply np_ev | (with_reducible refine np_sev _ _ ?_ rfl) | with_reducible apply np_answer
  | with_reducible apply np_trSend | with_reducible apply np_setConn
  | with_reducible apply np_abortData | with_reducible apply np_setSock
  | with_reducible apply np_setReq | with_reducible apply np_setTr))

theorem np_candCleanup {w0 w : World} (sid : Nat) (h : NP w0 w) : NP w0 (candCleanup w sid) := by
  unfold candCleanup
  split
  · exact h
  · np_prim

theorem np_close_all (f : Nat) :
    (∀ w0 w ti, NP w0 w → NP w0 (trEmitClose f w ti)) ∧
    (∀ w0 w ti, NP w0 w → NP w0 (trOnErrorF f w ti)) ∧
    (∀ w0 w ti, NP w0 w → NP w0 (trOnCloseBaseF f w ti)) ∧
    (∀ w0 w ti, NP w0 w → NP w0 (pollOnCloseF f w ti)) ∧
    (∀ w0 w ti, NP w0 w → NP w0 (runCloseFnF f w ti)) ∧
    (∀ w0 w ti, NP w0 w → NP w0 (wsCloseNowF f w ti)) ∧
    (∀ w0 w ti fn, NP w0 w → NP w0 (trCloseF f w ti fn)) ∧
    (∀ w0 w sid, NP w0 w → NP w0 (clearTransportF f w sid)) ∧
    (∀ w0 w sid, NP w0 w → NP w0 (candFail f w sid)) ∧
    (∀ w0 w sid r, r ≠ "ping_timeout" → NP w0 w → NP w0 (sockOnClose f w sid r)) := by
  induction f with
  | zero =>
    refine ⟨?_, ?_, ?_, ?_, ?_, ?_, ?_, ?_, ?_, ?_⟩ <;> intros <;>
      first
      | (simp only [trEmitClose]; assumption) | (simp only [trOnErrorF]; assumption) | (simp only [trOnCloseBaseF]; assumption)
      | (simp only [pollOnCloseF]; assumption) | (simp only [runCloseFnF]; assumption) | (simp only [wsCloseNowF]; assumption)
      | (simp only [trCloseF]; assumption) | (simp only [clearTransportF]; assumption)
      | (simp only [candFail]; exact np_candCleanup _ (by assumption)) | (simp only [sockOnClose]; assumption)
  | succ f ih =>
    obtain ⟨iEC, iOE, iCB, iPC, iRF, iWN, iTC, iCT, iCF, iSC⟩ := ih
    refine ⟨?_, ?_, ?_, ?_, ?_, ?_, ?_, ?_, ?_, ?_⟩
    · intro w0 w ti h
      rw [trEmitClose]; split
      · exact iSC _ _ _ _ (by decide) h
      · exact iCF _ _ _ h
      · exact h
    · intro w0 w ti h
      rw [trOnErrorF]; split
      · exact iSC _ _ _ _ (by decide) h
      · exact iCF _ _ _ h
      · exact h
    · intro w0 w ti h
      rw [trOnCloseBaseF]; split
      · exact h
      · apply iEC; np_prim
    · intro w0 w ti h
      rw [pollOnCloseF]
      apply iCB
      split <;> np_prim
    · intro w0 w ti h
      rw [runCloseFnF]
      try dsimp only
      split
      · refine iSC _ _ _ _ (by decide) ?_; np_prim
      · np_prim
    · intro w0 w ti h
      rw [wsCloseNowF]
      try dsimp only
      apply iCB; apply np_setConn; apply iRF; np_prim
    · intro w0 w ti fn h
      rw [trCloseF]
      try dsimp only
      split
      · exact h
      · have h1 : NP w0 (w.setTr ti fun t => { t with rs := .closing, closeFn := fn }) := by np_prim
        split
        · have h2 := np_abortData (w.tr ti).dataReq h1
          split
          · apply iPC; apply iRF; np_prim
          · split
            · apply iPC; apply iRF; exact h2
            · np_prim
        · split
          · exact iWN _ _ _ h1
          · np_prim
    · intro w0 w sid h
      rw [clearTransportF]
      try dsimp only
      apply np_setSock; apply iTC; np_prim
    · intro w0 w sid h
      rw [candFail]
      split
      · exact h
      · apply iTC; exact np_candCleanup _ h
    · intro w0 w sid r hr h
      rw [sockOnClose]
      split
      · exact h
      · try dsimp only
        apply np_setSock; apply iCF; refine np_sev _ _ ?_ (isPT_close_false _ hr)
        refine np_same _ (iCT _ _ _ (np_setSock _ _ h)) rfl rfl


theorem np_trOnError {w0 w : World} (ti : Nat) (h : NP w0 w) : NP w0 (trOnError w ti) := (np_close_all closeFuel).2.1 _ _ _ h
theorem np_trOnCloseBase {w0 w : World} (ti : Nat) (h : NP w0 w) : NP w0 (trOnCloseBase w ti) := (np_close_all closeFuel).2.2.1 _ _ _ h
theorem np_pollOnClose {w0 w : World} (ti : Nat) (h : NP w0 w) : NP w0 (pollOnClose w ti) := (np_close_all closeFuel).2.2.2.1 _ _ _ h
theorem np_runCloseFn {w0 w : World} (ti : Nat) (h : NP w0 w) : NP w0 (runCloseFn w ti) := (np_close_all closeFuel).2.2.2.2.1 _ _ _ h
theorem np_wsCloseNow {w0 w : World} (ti : Nat) (h : NP w0 w) : NP w0 (wsCloseNow w ti) := (np_close_all closeFuel).2.2.2.2.2.1 _ _ _ h
theorem np_trClose {w0 w : World} (ti : Nat) (fn : Option Nat) (h : NP w0 w) : NP w0 (trClose w ti fn) :=
  (np_close_all closeFuel).2.2.2.2.2.2.1 _ _ _ _ h
theorem np_clearTransport {w0 w : World} (sid : Nat) (h : NP w0 w) : NP w0 (clearTransport w sid) :=
  (np_close_all closeFuel).2.2.2.2.2.2.2.1 _ _ _ h
theorem np_sockOnClose {w0 w : World} (f : Nat) (sid : Nat) (r : String) (hr : r ≠ "ping_timeout") (h : NP w0 w) : NP w0 (sockOnClose f w sid r) :=
  (np_close_all f).2.2.2.2.2.2.2.2.2 _ _ _ _ hr h

macro "np_auto" : tactic => `(tactic| repeat (first
  | with_reducible assumption
  | with_reducible apply np_ev | (with_reducible refine np_sev _ _ ?_ rfl) | with_reducible apply np_answer
  | with_reducible apply np_trSend | with_reducible apply np_setConn
  | with_reducible apply np_abortData | with_reducible apply np_setSock
  | with_reducible apply np_trOnError | with_reducible apply np_trOnCloseBase | with_reducible apply np_pollOnClose
  | with_reducible apply np_runCloseFn | with_reducible apply np_wsCloseNow | with_reducible apply np_trClose
  | with_reducible apply np_clearTransport | with_reducible apply np_candCleanup | (with_reducible refine np_sockOnClose _ _ _ (by decide) ?_)
  | with_reducible apply np_setReq | with_reducible apply np_setTr))

/-! ### everything else -/

theorem np_closeTransportF {w0 w : World} (f : Nat) (sid : Nat) (d : Bool) (h : NP w0 w) : NP w0 (closeTransportF f w sid d) := by
  cases f with
  | zero => simpa [closeTransportF] using h
  | succ f =>
    rw [closeTransportF]
    try dsimp only
    have h1 : NP w0 (if d = true then w.setTr (w.sock sid).tr fun t => { t with discarded := true } else w) := by
      split
      · np_auto
      · exact h
    generalize (if d = true then w.setTr (w.sock sid).tr fun t => { t with discarded := true } else w) = w1 at h1 ⊢
    split
    · exact np_sockOnClose _ _ _ (by decide) h1
    · exact np_trClose _ _ h1

theorem np_flushF {w0 w : World} (f : Nat) (sid : Nat) (h : NP w0 w) : NP w0 (flushF f w sid) := by
  cases f with
  | zero => simpa [flushF] using h
  | succ f =>
    rw [flushF]
    try dsimp only
    split
    · exact h
    · apply np_ev
      split
      · apply np_closeTransportF; np_auto
      · np_auto

theorem np_flush {w0 w : World} (sid : Nat) (h : NP w0 w) : NP w0 (flush w sid) := np_flushF _ sid h
theorem np_closeTransport {w0 w : World} (sid : Nat) (d : Bool) (h : NP w0 w) : NP w0 (closeTransport w sid d) := np_closeTransportF _ sid d h

theorem np_sendPacket {w0 w : World} (sid : Nat) (pk : Pkt) (cb : Option Nat) (h : NP w0 w) : NP w0 (sendPacket w sid pk cb) := by
  unfold sendPacket
  try dsimp only
  split
  · exact h
  · apply np_flush; np_auto

theorem np_cbs {w0 w : World} (sid : Nat) (cbs : List Nat) (h : NP w0 w) : NP w0 (cbs.foldl (fun w id => w.sev sid (.cb id)) w) := by
  induction cbs generalizing w with
  | nil => exact h
  | cons id rest ih => simp only [List.foldl_cons]; exact ih (np_sev _ _ h rfl)

theorem np_sockOnDrain {w0 w : World} (sid : Nat) (h : NP w0 w) : NP w0 (sockOnDrain w sid) := by
  unfold sockOnDrain
  split
  · exact h
  · apply np_cbs; np_auto

theorem np_trEmitDrain {w0 w : World} (ti : Nat) (h : NP w0 w) : NP w0 (trEmitDrain w ti) := by
  unfold trEmitDrain
  try dsimp only
  split
  · split
    · exact np_wsCloseNow _ (np_sockOnDrain _ h)
    · exact np_sockOnDrain _ h
  · split
    · exact np_wsCloseNow _ h
    · exact h

theorem np_trEmitReady {w0 w : World} (ti : Nat) (h : NP w0 w) : NP w0 (trEmitReady w ti) := by
  unfold trEmitReady
  split
  · exact np_flush _ h
  · exact h

theorem np_doUpgrade {w0 w : World} (sid newTr : Nat) (h : NP w0 w) : NP w0 (doUpgrade w sid newTr) := by
  unfold doUpgrade
  try dsimp only
  have h1 := np_candCleanup sid h
  generalize candCleanup w sid = wa at h1 ⊢
  have h2 : NP w0 (flush (((((clearTransport ((wa.setTr (wa.sock sid).tr fun t => { t with discarded := true }).setSock sid fun s => { s with upgraded := true }) sid).setSock sid
      fun s => { s with tr := newTr }).setTr newTr fun t => { t with role := .current sid })).sev sid .upgrade) sid) := by
    apply np_flush; np_auto
  split
  · exact np_trClose _ _ h2
  · exact h2

theorem np_candOnPacket {w0 w : World} (sid : Nat) (pk : Pkt) (h : NP w0 w) : NP w0 (candOnPacket w sid pk) := by
  unfold candOnPacket
  split
  · exact h
  · split
    · try dsimp only
      np_auto
    · split
      · exact np_doUpgrade _ _ h
      · np_auto

theorem np_sockOnPacket {w0 w : World} (sid : Nat) (pk : Pkt) (h : NP w0 w) : NP w0 (sockOnPacket w sid pk) := by
  unfold sockOnPacket
  try dsimp only
  split
  · exact h
  · split
    · split
      · np_auto
      · refine np_sev _ _ ?_ rfl; apply np_sendPacket; np_auto
    · split
      · np_auto
      · np_auto
    · np_auto
    · np_auto
    · np_auto

theorem np_trEmitPacket {w0 w : World} (ti : Nat) (pk : Pkt) (h : NP w0 w) : NP w0 (trEmitPacket w ti pk) := by
  unfold trEmitPacket
  split
  · exact np_sockOnPacket _ _ h
  · exact np_candOnPacket _ _ h
  · exact h

theorem np_emitHeaders {w0 w : World} (ti r : Nat) (h : NP w0 w) : NP w0 (emitHeaders w ti r) := by
  unfold emitHeaders
  try dsimp only
  repeat (first | with_reducible assumption | with_reducible apply np_ev | with_reducible apply np_setReq | split)

theorem np_rejectReq {w0 w : World} (r code : Nat) (msg : String) (h : NP w0 w) : NP w0 (rejectReq w r code msg) := by
  unfold rejectReq; np_auto

theorem np_wsSendLoop {w0 w : World} (ti : Nat) (batch : List Pkt) (h : NP w0 w) : NP w0 (wsSendLoop ti batch w) := by
  induction batch generalizing w with
  | nil => exact h
  | cons pk rest ih =>
    rw [wsSendLoop]
    try dsimp only
    split
    · apply ih; unfold wsPut; np_auto
    · apply ih; np_auto

theorem np_pollDeliver {w0 w : World} (ti : Nat) (pkts : List Pkt) (h : NP w0 w) : NP w0 (pollDeliver ti pkts w) := by
  induction pkts generalizing w with
  | nil => simpa [pollDeliver] using h
  | cons pk rest ih =>
    rw [pollDeliver]
    split
    · exact np_pollOnClose _ h
    · exact ih (np_trEmitPacket _ _ h)

theorem np_pollOnData {w0 w : World} (ti : Nat) (body : Bytes) (binary : Bool) (h : NP w0 w) : NP w0 (pollOnData w ti body binary).1 := by
  unfold pollOnData
  split
  · exact np_pollDeliver _ _ h
  · exact h
  · exact np_fields _ h

theorem np_postReq {w0 w : World} (sid : Nat) (binary declared : Bool) (body : Bytes) (vj : Bool) (h : NP w0 w) :
    NP w0 (postReq w sid binary declared body vj) := by
  unfold postReq; try dsimp only
  repeat (first
    | with_reducible assumption
    | with_reducible apply np_rejectReq | with_reducible apply np_emitHeaders | with_reducible apply np_pollOnData
    | with_reducible apply np_answer | with_reducible apply np_trOnError | with_reducible apply np_pushReq
    | with_reducible apply np_setReq
    | with_reducible apply np_setTr
    | dsimp only
    | split)

theorem np_wsFrame {w0 w : World} (c : Nat) (m : Msg) (h : NP w0 w) : NP w0 (wsFrame w c m).1 := by
  unfold wsFrame
  try dsimp only
  split
  · exact h
  · split
    · exact h
    · split
      · dsimp only; np_auto
      · dsimp only
        split <;> exact np_trEmitPacket _ _ h

theorem np_wsDrop {w0 w : World} (c : Nat) (h : NP w0 w) : NP w0 (wsDrop w c) := by
  unfold wsDrop
  try dsimp only
  split
  · np_auto
  · split <;> (try split) <;> np_auto

theorem np_appClose {w0 w : World} (sid : Nat) (discard : Bool) (h : NP w0 w) : NP w0 (appClose w sid discard) := by
  unfold appClose
  try dsimp only
  split
  · exact np_closeTransport _ _ h
  · split
    · exact h
    · split
      · np_auto
      · exact np_closeTransport _ _ (np_setSock _ _ h)

theorem np_shutdownFold {w0 w : World} (reg : List Nat) (h : NP w0 w) : NP w0 (reg.foldl (fun w sid => appClose w sid true) w) := by
  induction reg generalizing w with
  | nil => exact h
  | cons sid rest ih => simp only [List.foldl_cons]; exact ih (np_appClose _ _ h)

theorem np_appSend {w0 w : World} (sid : Nat) (m : Msg) (compress wantCb : Bool) (pre : Option Msg) (h : NP w0 w) :
    NP w0 (appSend w sid m compress wantCb pre) := by
  unfold appSend
  try dsimp only
  apply np_sendPacket
  split
  · exact np_fields _ h
  · exact h

theorem np_fireTimer {w0 w : World} (id : TimerId) (hid : ∀ s, id ≠ .pingTimeout s) (h : NP w0 w) : NP w0 (fireTimer w id) := by
  cases id with
  | pingInterval sid => simp only [fireTimer]; apply np_setSock; apply np_sendPacket; np_auto
  | pingTimeout sid => exact absurd rfl (hid sid)
  | closeTimer ti =>
    simp only [fireTimer]
    split <;> np_auto
  | upgradeTimeout sid =>
    simp only [fireTimer]
    split
    · split <;> np_auto
    · exact h
  | check sid =>
    simp only [fireTimer]
    split
    · split <;> np_auto
    · exact h

theorem np_foldl {w0 w : World} (is : List Nat) (g : World → Nat → World)
    (hg : ∀ w i, NP w0 w → NP w0 (g w i)) (h : NP w0 w) : NP w0 (is.foldl g w) := by
  induction is generalizing w with
  | nil => exact h
  | cons i rest ih => simp only [List.foldl_cons]; exact ih (hg _ _ h)

theorem np_observe {w0 w : World} (h : NP w0 w) : NP w0 (observe w) := by
  unfold observe
  try dsimp only
  apply np_foldl
  · intro w i h; exact np_setConn _ _ h
  · apply np_foldl
    · intro w i h
      split
      · exact np_setReq _ _ h
      · exact h
    · exact np_fields _ h



theorem np_onPollRequest {w0 w : World} (ti r : Nat) (h : NP w0 w) : NP w0 (onPollRequest w ti r) := by
  unfold onPollRequest
  try dsimp only
  split
  · np_auto
  · split
    · apply np_trSend; apply np_trEmitReady; np_auto
    · apply np_trEmitReady; np_auto

theorem np_openPackets {w0 w : World} (sid : Nat) (nm : String) (h : NP w0 w) : NP w0 (openPackets w sid nm) := by
  unfold openPackets
  try dsimp only
  split
  · exact np_sendPacket _ _ _ (np_sendPacket _ _ _ h)
  · exact np_sendPacket _ _ _ h

theorem np_pollReq {w0 w : World} (sid : Nat) (ae : Bytes) (h : NP w0 w) : NP w0 (pollReq w sid ae) := by
  unfold pollReq
  try dsimp only
  split
  · exact np_rejectReq _ _ _ (np_pushReq _ h)
  · split
    · exact np_rejectReq _ _ _ (np_pushReq _ h)
    · exact np_onPollRequest _ _ (np_pushReq _ h)

theorem np_abortReq {w0 w : World} (r : Nat) (h : NP w0 w) : NP w0 (abortReq w r) := by
  unfold abortReq
  try dsimp only
  split
  · exact h
  · split
    · split <;> np_auto
    · np_auto

theorem np_wsCandidate {w0 w : World} (sid proto : Nat) (b64 : Bool) (h : NP w0 w) : NP w0 (wsCandidate w sid proto b64) := by
  unfold wsCandidate
  try dsimp only
  have h0 : NP w0 ({ w with conns := w.conns.push {} } : World) := np_fields _ h
  split
  · np_auto
  · split
    · np_auto
    · split
      · np_auto
      · apply np_setSock
        exact np_fields (w := ({ w with conns := w.conns.push {} } : World)) _ h0

theorem np_wtCandidate {w0 w : World} (sid : Nat) (h : NP w0 w) : NP w0 (wtCandidate w sid) := by
  unfold wtCandidate
  try dsimp only
  have h0 : NP w0 ({ w with conns := w.conns.push { wt := true } } : World) := np_fields _ h
  split
  · np_auto
  · split
    · np_auto
    · apply np_setSock
      exact np_fields (w := ({ w with conns := w.conns.push { wt := true } } : World)) _ h0

theorem np_runPollSend {w0 w : World} (ti : Nat) (batch : List Pkt) (h : NP w0 w) : NP w0 (runPollSend w ti batch) := by
  unfold runPollSend
  try dsimp only
  have h1 : NP w0 (if (w.tr ti).shouldClose = true then
      pollOnClose (runCloseFn (w.setTr ti fun t => { t with shouldClose := false, closeTimerDue := none }) ti) ti else w) := by
    split
    · np_auto
    · exact h
  generalize (if (w.tr ti).shouldClose = true then
      pollOnClose (runCloseFn (w.setTr ti fun t => { t with shouldClose := false, closeTimerDue := none }) ti) ti else w) = w1 at h1 ⊢
  split
  · np_auto
  · apply np_trEmitDrain; apply np_answer; apply np_emitHeaders; np_auto

theorem np_runWsSend {w0 w : World} (ti : Nat) (batch : List Pkt) (h : NP w0 w) : NP w0 (runWsSend w ti batch) := by
  unfold runWsSend
  try dsimp only
  exact np_trEmitReady _ (np_setTr _ _ (np_trEmitDrain _ (np_wsSendLoop ti batch h)))

theorem np_settle {w0 w : World} (f : Nat) (h : NP w0 w) : NP w0 (settle f w) := by
  induction f generalizing w with
  | zero => exact h
  | succ f ih =>
    rw [settle]
    split
    · exact h
    · rename_i t rest _
      cases t with
      | pollSend ti b => exact ih (np_runPollSend ti b (np_fields _ h))
      | wsSend ti b => exact ih (np_runWsSend ti b (np_fields _ h))


end EIO.Ses
