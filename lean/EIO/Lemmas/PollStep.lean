import EIO.Lemmas.Poll
/-
PollX through flush, packets, writer tasks, handshakes, requests, frames, timers and every operation: `step_px`.
-/
namespace EIO.Ses
open EIO EIO.Codec

theorem px_trOnError {w : World} (ti : Nat) (p : PollX w) : PollX (trOnError w ti) := (px_close_all closeFuel).2.1 w ti p
theorem px_trOnCloseBase {w : World} (ti : Nat) (p : PollX w)
    (hpre : (w.tr ti).isPolling = true → (w.tr ti).req.isSome → (w.tr ti).writable = false) : PollX (trOnCloseBase w ti) :=
  (px_close_all closeFuel).2.2.1 w ti p hpre
theorem px_pollOnClose {w : World} (ti : Nat) (p : PollX w) : PollX (pollOnClose w ti) := (px_close_all closeFuel).2.2.2.1 w ti p
theorem px_runCloseFn {w : World} (ti : Nat) (p : PollX w) : PollX (runCloseFn w ti) := (px_close_all closeFuel).2.2.2.2.1 w ti p
theorem px_wsCloseNow {w : World} (ti : Nat) (p : PollX w) (h : (w.tr ti).isPolling = false) : PollX (wsCloseNow w ti) :=
  (px_close_all closeFuel).2.2.2.2.2.1 w ti p h
theorem px_trClose {w : World} (ti : Nat) (fn : Option Nat) (p : PollX w) : PollX (trClose w ti fn) :=
  (px_close_all closeFuel).2.2.2.2.2.2.1 w ti fn p
theorem px_clearTransport {w : World} (sid : Nat) (p : PollX w) : PollX (clearTransport w sid) :=
  (px_close_all closeFuel).2.2.2.2.2.2.2.1 w sid p
theorem px_sockOnClose {w : World} (f : Nat) (sid : Nat) (r : String) (p : PollX w) : PollX (sockOnClose f w sid r) :=
  (px_close_all f).2.2.2.2.2.2.2.2.2 w sid r p

theorem tm_trOnError {w0 w : World} (ti : Nat) (h : TrMono w0 w) : TrMono w0 (trOnError w ti) := (tm_close_all closeFuel).2.1 _ _ _ h
theorem tm_wsCloseNow {w0 w : World} (ti : Nat) (h : TrMono w0 w) : TrMono w0 (wsCloseNow w ti) :=
  (tm_close_all closeFuel).2.2.2.2.2.1 _ _ _ h

macro "px_auto" : tactic => `(tactic| repeat (first
  | with_reducible assumption
  | with_reducible apply px_ev | with_reducible apply px_sev | with_reducible apply px_answer
  | with_reducible apply px_setConn | with_reducible apply px_setReq
  | with_reducible apply px_abortData | with_reducible apply px_setSock
  | with_reducible apply px_trOnError | with_reducible apply px_pollOnClose | with_reducible apply px_runCloseFn
  | with_reducible apply px_trClose | with_reducible apply px_clearTransport | with_reducible apply px_candCleanup
  | with_reducible apply px_sockOnClose
  | px_keep))

/-! ### flush -/

theorem px_closeTransportF {w : World} (f : Nat) (sid : Nat) (d : Bool) (p : PollX w) : PollX (closeTransportF f w sid d) := by
  cases f with
  | zero => simpa [closeTransportF] using p
  | succ f =>
    rw [closeTransportF]
    try dsimp only
    have p1 : PollX (if d = true then w.setTr (w.sock sid).tr fun t => { t with discarded := true } else w) := by
      split
      · px_auto
      · exact p
    generalize (if d = true then w.setTr (w.sock sid).tr fun t => { t with discarded := true } else w) = w1 at p1 ⊢
    split
    · exact px_sockOnClose _ _ _ p1
    · exact px_trClose _ _ p1

theorem px_flushF {w : World} (f : Nat) (sid : Nat) (p : PollX w) : PollX (flushF f w sid) := by
  cases f with
  | zero => simpa [flushF] using p
  | succ f =>
    rw [flushF]
    try dsimp only
    split
    · exact p
    · rename_i hgo
      have hw : (w.tr (w.sock sid).tr).writable = true := by
        cases h : (w.tr (w.sock sid).tr).writable with
        | true => rfl
        | false => exact absurd (Or.inr (Or.inl (by simp [h]))) hgo
      have hin := writable_in_table w _ hw
      apply px_ev
      have p1 : PollX ((trSend (((w.setSock sid fun s => { s with wbuf := [], sentCb := s.sentCb ++ [s.packetsFn], packetsFn := [] }).sev sid
          (.flush (w.sock sid).wbuf (w.sock sid).packetsFn)).ev s!"srv:flush:s{sid}:{pktChars (w.sock sid).wbuf}") (w.sock sid).tr (w.sock sid).wbuf).sev sid .drain) := by
        apply px_sev
        refine px_trSend _ _ ?_ ?_
        · simpa using hin
        · px_auto
      split
      · apply px_closeTransportF; px_auto
      · exact p1

theorem px_flush {w : World} (sid : Nat) (p : PollX w) : PollX (flush w sid) := px_flushF _ sid p
theorem px_closeTransport {w : World} (sid : Nat) (d : Bool) (p : PollX w) : PollX (closeTransport w sid d) := px_closeTransportF _ sid d p

theorem px_sendPacket {w : World} (sid : Nat) (pk : Pkt) (cb : Option Nat) (p : PollX w) : PollX (sendPacket w sid pk cb) := by
  unfold sendPacket
  try dsimp only
  split
  · exact p
  · apply px_flush; px_auto

theorem px_cbs {w : World} (sid : Nat) (cbs : List Nat) (p : PollX w) : PollX (cbs.foldl (fun w id => w.sev sid (.cb id)) w) := by
  induction cbs generalizing w with
  | nil => exact p
  | cons id rest ih => simp only [List.foldl_cons]; exact ih (px_sev _ _ p)

theorem px_sockOnDrain {w : World} (sid : Nat) (p : PollX w) : PollX (sockOnDrain w sid) := by
  unfold sockOnDrain
  split
  · exact p
  · apply px_cbs; px_auto

theorem tm_cbs {w0 w : World} (sid : Nat) (cbs : List Nat) (h : TrMono w0 w) : TrMono w0 (cbs.foldl (fun w id => w.sev sid (.cb id)) w) := by
  induction cbs generalizing w with
  | nil => exact h
  | cons id rest ih => simp only [List.foldl_cons]; exact ih (tm_sev _ _ h)

theorem tm_sockOnDrain {w0 w : World} (sid : Nat) (h : TrMono w0 w) : TrMono w0 (sockOnDrain w sid) := by
  unfold sockOnDrain
  split
  · exact h
  · apply tm_cbs; tm_prim

theorem px_trEmitDrain {w : World} (ti : Nat) (p : PollX w) : PollX (trEmitDrain w ti) := by
  unfold trEmitDrain
  try dsimp only
  split
  · have p1 := px_sockOnDrain (w := w) (by assumption) p
    split
    · rename_i hcw
      exact px_wsCloseNow _ p1 ((p1.tr ti).p2 hcw)
    · exact p1
  · split
    · rename_i hcw
      exact px_wsCloseNow _ p ((p.tr ti).p2 hcw)
    · exact p

theorem tm_trEmitDrain {w0 w : World} (ti : Nat) (h : TrMono w0 w) : TrMono w0 (trEmitDrain w ti) := by
  unfold trEmitDrain
  try dsimp only
  split
  · split
    · exact tm_wsCloseNow _ (tm_sockOnDrain _ h)
    · exact tm_sockOnDrain _ h
  · split
    · exact tm_wsCloseNow _ h
    · exact h

theorem px_trEmitReady {w : World} (ti : Nat) (p : PollX w) : PollX (trEmitReady w ti) := by
  unfold trEmitReady
  split
  · exact px_flush _ p
  · exact p

/-! ### packets -/

theorem px_doUpgrade {w : World} (sid newTr : Nat) (p : PollX w) : PollX (doUpgrade w sid newTr) := by
  unfold doUpgrade
  try dsimp only
  have p1 := px_candCleanup sid p
  generalize candCleanup w sid = wa at p1 ⊢
  have p2 : PollX (flush (((((clearTransport ((wa.setTr (wa.sock sid).tr fun t => { t with discarded := true }).setSock sid fun s => { s with upgraded := true }) sid).setSock sid
      fun s => { s with tr := newTr }).setTr newTr fun t => { t with role := .current sid })).sev sid .upgrade) sid) := by
    apply px_flush; px_auto
  split
  · exact px_trClose _ _ p2
  · exact p2

theorem px_candOnPacket {w : World} (sid : Nat) (pk : Pkt) (l : Link w) (p : PollX w) : PollX (candOnPacket w sid pk) := by
  unfold candOnPacket
  split
  · exact p
  · rename_i c hc
    have hin : c.tr < w.trs.size := role_in_table w c.tr (by rw [l.l5 sid c hc]; simp)
    split
    · try dsimp only
      apply px_setSock; apply px_sev
      exact px_trSend _ _ hin p
    · split
      · exact px_doUpgrade _ _ p
      · px_auto

theorem px_sockOnPacket {w : World} (sid : Nat) (pk : Pkt) (p : PollX w) : PollX (sockOnPacket w sid pk) := by
  unfold sockOnPacket
  try dsimp only
  split
  · exact p
  · split
    · split
      · px_auto
      · apply px_sev; apply px_sendPacket; px_auto
    · split
      · px_auto
      · px_auto
    · px_auto
    · px_auto
    · px_auto

theorem px_trEmitPacket {w : World} (ti : Nat) (pk : Pkt) (l : Link w) (p : PollX w) : PollX (trEmitPacket w ti pk) := by
  unfold trEmitPacket
  split
  · exact px_sockOnPacket _ _ p
  · exact px_candOnPacket _ _ l p
  · exact p

/-! ### writer tasks -/

theorem px_emitHeaders {w : World} (ti r : Nat) (p : PollX w) : PollX (emitHeaders w ti r) := by
  unfold emitHeaders
  try dsimp only
  repeat (first | with_reducible assumption | with_reducible apply px_ev | with_reducible apply px_setReq | split)

theorem px_rejectReq {w : World} (r code : Nat) (msg : String) (p : PollX w) : PollX (rejectReq w r code msg) := by
  unfold rejectReq; px_auto

theorem px_runPollSend {w : World} (ti : Nat) (batch : List Pkt) (p : PollX w) : PollX (runPollSend w ti batch) := by
  unfold runPollSend
  try dsimp only
  have p1 : PollX (if (w.tr ti).shouldClose = true then
      pollOnClose (runCloseFn (w.setTr ti fun t => { t with shouldClose := false, closeTimerDue := none }) ti) ti else w) := by
    split
    · px_auto
    · exact p
  generalize (if (w.tr ti).shouldClose = true then
      pollOnClose (runCloseFn (w.setTr ti fun t => { t with shouldClose := false, closeTimerDue := none }) ti) ti else w) = w1 at p1 ⊢
  split
  · px_auto
  · apply px_trEmitDrain
    apply px_answer
    apply px_emitHeaders
    refine px_setTr ti _ (fun _ => rfl) (fun h => ⟨fun _ _ c => (by cases c), h.p2, fun c => (by cases c)⟩) p1

theorem px_wsSendLoop {w : World} (ti : Nat) (batch : List Pkt) (p : PollX w) : PollX (wsSendLoop ti batch w) := by
  induction batch generalizing w with
  | nil => exact p
  | cons pk rest ih =>
    rw [wsSendLoop]
    try dsimp only
    split
    · apply ih; unfold wsPut; px_auto
    · apply ih; px_auto

theorem tm_wsSendLoop {w0 w : World} (ti : Nat) (batch : List Pkt) (h : TrMono w0 w) : TrMono w0 (wsSendLoop ti batch w) := by
  induction batch generalizing w with
  | nil => exact h
  | cons pk rest ih =>
    rw [wsSendLoop]
    try dsimp only
    split
    · apply ih; unfold wsPut; tm_prim
    · apply ih; exact tm_trOnError _ h

theorem px_runWsSend {w : World} (ti : Nat) (batch : List Pkt) (hnp : (w.tr ti).isPolling = false) (p : PollX w) :
    PollX (runWsSend w ti batch) := by
  unfold runWsSend
  try dsimp only
  have p1 := px_trEmitDrain ti (px_wsSendLoop ti batch p)
  have m1 := tm_trEmitDrain ti (tm_wsSendLoop ti batch (TrMono.refl w))
  have hk : ((trEmitDrain (wsSendLoop ti batch w) ti).tr ti).isPolling = false := (m1.kind ti).trans hnp
  generalize trEmitDrain (wsSendLoop ti batch w) ti = w1 at p1 hk ⊢
  apply px_trEmitReady
  refine px_setTr ti _ (fun _ => rfl) (fun h => ⟨fun a _ _ => (by rw [hk] at a; cases a), h.p2, h.p3⟩) p1

theorem px_runTask {w : World} (t : Task) (hk : taskKindOK w t) (p : PollX w) : PollX (runTask w t) := by
  cases t with
  | pollSend ti b => exact px_runPollSend ti b p
  | wsSend ti b => exact px_runWsSend ti b hk.2 p

theorem px_settle {w : World} (f : Nat) (p : PollX w) : PollX (settle f w) := by
  induction f generalizing w with
  | zero => exact p
  | succ f ih =>
    rw [settle]
    split
    · exact p
    · rename_i t rest hq
      have p1 : PollX ({ w with tasks := rest } : World) := by
        refine ⟨p.tr, fun t' ht' => ?_⟩
        exact p.tk t' (by rw [hq]; exact List.mem_cons_of_mem _ ht')
      exact ih (px_runTask t (p.tk t (by rw [hq]; exact List.mem_cons_self)) p1)

/-! ### new sessions, requests -/

/-- record updates of fields the poll condition does not read -/
theorem px_fields {w : World} (w' : World) (p : PollX w) (h1 : w'.trs = w.trs := by rfl) (h2 : w'.tasks = w.tasks := by rfl) : PollX w' :=
  px_same w' p h1 h2

/-- a new transport that meets the condition on its own -/
theorem px_pushTr {w w' : World} (t : Tr) (ht : PollT t) (htrs : w'.trs = w.trs.push t) (hq : w'.tasks = w.tasks) (p : PollX w) : PollX w' := by
  have htr : ∀ j, w'.tr j = if j = w.trs.size then t else w.tr j := fun j => by
    unfold World.tr
    rw [htrs]
    simp only [Array.getD_eq_getD_getElem?, Array.getElem?_push]
    by_cases h : j = w.trs.size
    · simp [h]
    · simp [h]
  refine ⟨fun j => ?_, fun tk htk => ?_⟩
  · rw [htr]; split
    · exact ht
    · exact p.tr j
  · rw [hq] at htk
    have := p.tk tk htk
    cases tk with
    | wsSend ti b =>
      refine ⟨by rw [htrs, Array.size_push]; exact Nat.lt_succ_of_lt this.1, ?_⟩
      rw [htr, if_neg (Nat.ne_of_lt this.1)]; exact this.2
    | pollSend ti b =>
      show (w'.tr ti).isPolling = true
      have hin := polling_in_table w ti this
      rw [htr, if_neg (Nat.ne_of_lt hin)]; exact this

theorem PollT.fresh {t : Tr} (hr : t.rs ≠ .closed) (hc : t.closeWait = false) (hq : t.req = none) : PollT t :=
  ⟨fun _ c _ => absurd c hr, fun c => (by rw [hc] at c; cases c), fun c => (by rw [hq] at c; cases c)⟩

theorem px_registry {w : World} (r : List Nat) (p : PollX w) : PollX ({ w with registry := r } : World) := px_same _ p rfl rfl
theorem px_pushReq {w : World} (q : Req) (p : PollX w) : PollX ({ w with reqs := w.reqs.push q } : World) := px_same _ p rfl rfl
theorem px_pushConn {w : World} (c : Conn) (p : PollX w) : PollX ({ w with conns := w.conns.push c } : World) := px_same _ p rfl rfl
theorem px_pushSock {w : World} (s : Sock) (p : PollX w) : PollX ({ w with socks := w.socks.push s } : World) := px_same _ p rfl rfl
theorem px_now {w : World} (n : Nat) (p : PollX w) : PollX ({ w with now := n } : World) := px_same _ p rfl rfl
theorem px_cbSeq {w : World} (n : Nat) (p : PollX w) : PollX ({ w with cbSeq := n } : World) := px_same _ p rfl rfl
theorem px_fault {w : World} (n : Option String) (p : PollX w) : PollX ({ w with fault := n } : World) := px_same _ p rfl rfl
theorem px_evs {w : World} (n : List String) (p : PollX w) : PollX ({ w with evs := n } : World) := px_same _ p rfl rfl

theorem px_openPackets {w : World} (sid : Nat) (nm : String) (p : PollX w) : PollX (openPackets w sid nm) := by
  unfold openPackets
  try dsimp only
  split
  · exact px_sendPacket _ _ _ (px_sendPacket _ _ _ p)
  · exact px_sendPacket _ _ _ p

theorem px_openAnnounce {w : World} (sid : Nat) (nm : String) (proto : Nat) (p : PollX w) : PollX (openAnnounce w sid nm proto) := by
  unfold openAnnounce
  try dsimp only
  apply px_sev
  apply px_setSock
  refine px_registry _ ?_
  exact px_setSock sid _ p

theorem px_openSession {w : World} (ti proto : Nat) (p : PollX w) : PollX (openSession w ti proto) := by
  unfold openSession
  try dsimp only
  apply px_openAnnounce
  apply px_openPackets
  apply px_setSock
  px_keep
  exact px_pushSock _ p

theorem px_onPollRequest {w : World} (ti r : Nat) (hpol : (w.tr ti).isPolling = true) (hnc : (w.tr ti).rs ≠ .closed) (p : PollX w) :
    PollX (onPollRequest w ti r) := by
  unfold onPollRequest
  try dsimp only
  split
  · px_auto
  · have p1 : PollX (trEmitReady ((w.setTr ti fun t => { t with req := some r, writable := true }).setReq r fun q => { q with pollOf := some ti }) ti) := by
      apply px_trEmitReady
      apply px_setReq
      refine px_setTr ti _ (fun _ => rfl) (fun h => ⟨fun _ c _ => absurd c hnc, h.p2, fun _ => hpol⟩) p
    split
    · rename_i hw
      exact px_trSend _ _ (writable_in_table _ _ hw.1) p1
    · exact p1

theorem px_hsPolling {w : World} (proto : Nat) (b64 : Bool) (j : Option Bytes) (p : PollX w) : PollX (hsPolling w proto b64 j) := by
  unfold hsPolling
  try dsimp only
  split
  · exact px_rejectReq _ _ _ (px_pushReq _ p)
  · split
    · exact px_rejectReq _ _ _ (px_pushReq _ p)
    · have p1 : PollX ({ ({ w with reqs := w.reqs.push { hasSid := false } } : World) with
          trs := w.trs.push { isPolling := true, proto, b64, jsonp := j.map jsonpDigits } } : World) :=
        px_pushTr (w := w) _ (PollT.fresh (by simp) rfl rfl) rfl rfl p
      have ht := tr_pushed w ({ ({ w with reqs := w.reqs.push { hasSid := false } } : World) with
          trs := w.trs.push { isPolling := true, proto, b64, jsonp := j.map jsonpDigits } } : World) _ rfl
      generalize ({ ({ w with reqs := w.reqs.push { hasSid := false } } : World) with
          trs := w.trs.push { isPolling := true, proto, b64, jsonp := j.map jsonpDigits } } : World) = w1 at *
      apply px_openSession
      exact px_onPollRequest _ _ (by rw [ht]) (by rw [ht]; simp) p1

theorem px_hsWebsocket {w : World} (proto : Nat) (b64 : Bool) (p : PollX w) : PollX (hsWebsocket w proto b64) := by
  unfold hsWebsocket
  try dsimp only
  split
  · exact px_setConn _ _ (px_pushConn _ p)
  · split
    · exact px_setConn _ _ (px_ev _ (px_pushConn _ p))
    · apply px_openSession
      exact px_pushTr (w := w) _ (PollT.fresh (by simp) rfl rfl) rfl rfl p

theorem px_hsWt {w : World} (p : PollX w) : PollX (hsWt w) := by
  unfold hsWt
  try dsimp only
  apply px_openSession
  exact px_pushTr (w := w) _ (PollT.fresh (by simp) rfl rfl) rfl rfl p

theorem px_pollReq {w : World} (sid : Nat) (ae : Bytes) (i : Inv w) (l : Link w) (p : PollX w) : PollX (pollReq w sid ae) := by
  unfold pollReq
  try dsimp only
  split
  · exact px_rejectReq _ _ _ (px_pushReq _ p)
  · rename_i s hl
    obtain ⟨hs, hin⟩ := lookup_reg _ _ _ hl
    split
    · exact px_rejectReq _ _ _ (px_pushReq _ p)
    · rename_i hpol
      obtain ⟨hnc, hsz, _⟩ := i.regLive sid hin
      have hok := l.linkOK sid hsz hnc
      have hs' : s.tr = (w.sock sid).tr := by rw [hs]; rfl
      refine px_onPollRequest _ _ ?_ ?_ (px_pushReq _ p)
      · simpa using hpol
      · show (w.tr s.tr).rs ≠ .closed
        rw [hs']; exact hok.2

theorem px_pollDeliver {w : World} (ti : Nat) (pkts : List Pkt) (l : Link w) (p : PollX w) : PollX (pollDeliver ti pkts w) := by
  induction pkts generalizing w with
  | nil => simpa [pollDeliver] using p
  | cons pk rest ih =>
    rw [pollDeliver]
    split
    · exact px_pollOnClose _ p
    · exact ih (lk_trEmitPacket _ _ l) (px_trEmitPacket _ _ l p)

theorem px_pollOnData {w : World} (ti : Nat) (body : Bytes) (binary : Bool) (l : Link w) (p : PollX w) : PollX (pollOnData w ti body binary).1 := by
  unfold pollOnData
  split
  · exact px_pollDeliver _ _ l p
  · exact p
  · exact px_fault _ p

theorem px_postReq {w : World} (sid : Nat) (binary declared : Bool) (body : Bytes) (vj : Bool) (l : Link w) (p : PollX w) :
    PollX (postReq w sid binary declared body vj) := by
  unfold postReq; try dsimp only
  repeat (first
    | with_reducible assumption
    | with_reducible apply px_rejectReq | with_reducible apply px_emitHeaders | with_reducible apply px_pollOnData
    | with_reducible apply px_answer | with_reducible apply px_trOnError | with_reducible apply px_pushReq
    | with_reducible apply px_setReq
    | px_keep
    | with_reducible apply lk_pushReq | with_reducible apply lk_setReq
    | (with_reducible refine link_setTr _ _ ?_ ?_ ?_; (intro t; rfl); (intro t h; exact h))
    | dsimp only
    | split)

theorem px_abortReq {w : World} (r : Nat) (p : PollX w) : PollX (abortReq w r) := by
  unfold abortReq
  try dsimp only
  split
  · exact p
  · split
    · split
      · apply px_trOnError
        refine px_setTr _ _ (fun _ => rfl) (fun h => ⟨fun _ _ _ => rfl, h.p2, h.p3⟩) ?_
        px_auto
      · px_auto
    · px_auto

theorem px_setCand {w : World} (sid : Nat) (u : Bool) (c : Option Cand) (p : PollX w) :
    PollX (w.setSock sid fun s => { s with upgrading := u, cand := c }) := px_setSock _ _ p

theorem px_wsCandidate {w : World} (sid proto : Nat) (b64 : Bool) (p : PollX w) : PollX (wsCandidate w sid proto b64) := by
  unfold wsCandidate
  try dsimp only
  have p0 := px_pushConn {} p
  split
  · px_auto
  · split
    · px_auto
    · split
      · px_auto
      · apply px_setCand
        exact px_pushTr (w := ({ w with conns := w.conns.push {} } : World)) _ (PollT.fresh (by simp) rfl rfl) rfl rfl p0

theorem px_wtCandidate {w : World} (sid : Nat) (p : PollX w) : PollX (wtCandidate w sid) := by
  unfold wtCandidate
  try dsimp only
  have p0 := px_pushConn { wt := true } p
  split
  · px_auto
  · split
    · px_auto
    · apply px_setCand
      exact px_pushTr (w := ({ w with conns := w.conns.push { wt := true } } : World)) _ (PollT.fresh (by simp) rfl rfl) rfl rfl p0

theorem px_wsFrame {w : World} (c : Nat) (m : Msg) (l : Link w) (p : PollX w) : PollX (wsFrame w c m).1 := by
  unfold wsFrame
  try dsimp only
  split
  · exact p
  · split
    · exact p
    · split
      · dsimp only; px_auto
      · dsimp only
        split <;> exact px_trEmitPacket _ _ l p

theorem trOfConn_kind (w : World) (c ti : Nat) (h : trOfConn w c = some ti) : (w.tr ti).isPolling = false := by
  unfold trOfConn at h
  have := List.find?_some h
  have h2 : ¬ (w.tr ti).isPolling = true ∧ (w.tr ti).conn = c := by simpa using this
  simpa using h2.1

theorem px_wsDrop {w : World} (c : Nat) (p : PollX w) : PollX (wsDrop w c) := by
  unfold wsDrop
  try dsimp only
  split
  · px_auto
  · split
    · rename_i ti hti
      have hk := trOfConn_kind _ c ti hti
      split
      · apply px_trOnError; px_auto
      · refine px_trOnCloseBase _ ?_ (fun a => by rw [hk] at a; cases a)
        px_auto
    · px_auto

/-! ### the application, timers, operations -/

theorem px_appClose {w : World} (sid : Nat) (discard : Bool) (p : PollX w) : PollX (appClose w sid discard) := by
  unfold appClose
  try dsimp only
  split
  · exact px_closeTransport _ _ p
  · split
    · exact p
    · split
      · px_auto
      · exact px_closeTransport _ _ (px_setSock _ _ p)

theorem px_shutdownFold {w : World} (reg : List Nat) (p : PollX w) : PollX (reg.foldl (fun w sid => appClose w sid true) w) := by
  induction reg generalizing w with
  | nil => exact p
  | cons sid rest ih => simp only [List.foldl_cons]; exact ih (px_appClose _ _ p)

theorem px_shutdown {w : World} (p : PollX w) : PollX (shutdown w) := px_shutdownFold _ p

theorem px_appSend {w : World} (sid : Nat) (m : Msg) (compress wantCb : Bool) (pre : Option Msg) (p : PollX w) :
    PollX (appSend w sid m compress wantCb pre) := by
  unfold appSend
  try dsimp only
  apply px_sendPacket
  split
  · exact px_cbSeq _ p
  · exact p

theorem px_fireTimer {w : World} (id : TimerId) (p : PollX w) : PollX (fireTimer w id) := by
  cases id with
  | pingInterval sid => simp only [fireTimer]; apply px_setSock; apply px_sendPacket; px_auto
  | pingTimeout sid =>
    simp only [fireTimer]
    split <;> px_auto
  | closeTimer ti =>
    simp only [fireTimer]
    have p1 : PollX (w.setTr ti fun t => { t with closeTimerDue := none }) := by px_auto
    have hk : ((w.setTr ti fun t => { t with closeTimerDue := none }).tr ti).isPolling = (w.tr ti).isPolling := by
      rw [tr_setTr]; split <;> rfl
    split
    · px_auto
    · rename_i hnp
      exact px_wsCloseNow _ p1 (by simpa using hnp)
  | upgradeTimeout sid =>
    simp only [fireTimer]
    split
    · split <;> px_auto
    · exact p
  | check sid =>
    simp only [fireTimer]
    split
    · split
      · rename_i hw
        refine px_trSend _ _ ?_ (px_setSock _ _ p)
        have := writable_in_table _ _ hw.2
        simpa using this
      · px_auto
    · exact p

theorem px_foldl {w : World} (is : List Nat) (g : World → Nat → World)
    (hg : ∀ w i, PollX w → PollX (g w i)) (p : PollX w) : PollX (is.foldl g w) := by
  induction is generalizing w with
  | nil => exact p
  | cons i rest ih => simp only [List.foldl_cons]; exact ih (hg _ _ p)

theorem px_observe {w : World} (p : PollX w) : PollX (observe w) := by
  unfold observe
  try dsimp only
  apply px_foldl
  · intro w i p; exact px_setConn _ _ p
  · apply px_foldl
    · intro w i p
      split
      · exact px_setReq _ _ p
      · exact p
    · exact px_evs _ p

theorem px_advance {w : World} (f target : Nat) (p : PollX w) : PollX (advance f w target) := by
  induction f generalizing w with
  | zero => simp only [advance]; exact px_now _ p
  | succ f ih =>
    rw [advance]
    split
    · exact ih (px_fireTimer _ (px_now _ p))
    · exact px_now _ p

/-- every operation keeps the poll condition (with the invariant and the linkage of the same world) -/
theorem step_px (w : World) (op : Op) (i : Inv w) (l : Link w) (p : PollX w) : PollX (step w op) := by
  unfold step
  split
  · exact p
  · cases op with
    | hsPolling pr b j => exact px_hsPolling _ _ _ p
    | hsWebsocket pr b => exact px_hsWebsocket _ _ p
    | poll sid ae => exact px_pollReq _ _ i l p
    | post sid bin decl body vj => exact px_postReq _ _ _ _ _ l p
    | abort r => exact px_abortReq _ p
    | wsCandidate sid pr b => exact px_wsCandidate _ _ _ p
    | hsWt => exact px_hsWt p
    | wtCandidate sid => exact px_wtCandidate _ p
    | frame c m =>
      dsimp only
      repeat (first | exact p | exact px_wsFrame _ _ l p | split)
    | drop c => exact px_wsDrop _ p
    | closeFrame c code => exact px_wsDrop _ (px_setConn _ _ p)
    | send sid m c cb pre => exact px_appSend _ _ _ _ _ p
    | close sid d => exact px_appClose _ _ p
    | shutdown => exact px_shutdown p
    | adv d => exact px_advance _ _ p
    | settle => exact px_settle _ p
    | observe => exact px_observe p

theorem px_init (o : Opts) : PollX (init o) := by
  refine ⟨fun ti => ?_, fun t h => by cases h⟩
  have : (init o).tr ti = default := tr_oob _ _ (Nat.zero_le _)
  rw [this]
  exact PollT.fresh (by decide) rfl rfl

end EIO.Ses
