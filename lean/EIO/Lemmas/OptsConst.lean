import EIO.Lemmas.SesOps
/-
The configuration is constant: nothing in the cone of `sendPacket` (flush, the close paths, the drain callbacks)
changes `World.o`. `NO w w'`: the options are the same (and, as in the chain it is generated from, no session record was
created; the log condition is vacuous: `isNever` is constantly false).
-/
namespace EIO.Ses
open EIO EIO.Codec

def SEv.isNever : SEv → Bool := fun _ => false

structure NO (w w' : World) : Prop where
  o : w'.o = w.o
  size : w'.socks.size = w.socks.size
  log : ∃ added, w'.slog = w.slog ++ added ∧ ∀ e ∈ added, e.2.isNever = false

theorem NO.refl (w : World) : NO w w := ⟨rfl, rfl, [], by simp, fun _ h => by cases h⟩
theorem NO.trans {a b c : World} (h1 : NO a b) (h2 : NO b c) : NO a c := by
  obtain ⟨x, hx, px⟩ := h1.log
  obtain ⟨y, hy, py⟩ := h2.log
  refine ⟨h2.o.trans h1.o, h2.size.trans h1.size, x ++ y, by rw [hy, hx, List.append_assoc], fun e he => ?_⟩
  rcases List.mem_append.mp he with h | h
  · exact px e h
  · exact py e h

theorem no_same {w0 w : World} (w' : World) (h : NO w0 w) (hs : w'.socks = w.socks) (hl : w'.slog = w.slog) (ho : w'.o = w.o := by rfl) : NO w0 w' :=
  h.trans ⟨ho, by rw [hs], [], by simp [hl], fun _ h => by cases h⟩

theorem no_setTr {w0 w : World} (i : Nat) (f : Tr → Tr) (h : NO w0 w) : NO w0 (w.setTr i f) := no_same _ h rfl rfl
theorem no_setSock {w0 w : World} (i : Nat) (f : Sock → Sock) (h : NO w0 w) : NO w0 (w.setSock i f) :=
  h.trans ⟨rfl, by simp, [], by simp, fun _ h => by cases h⟩
theorem no_setConn {w0 w : World} (i : Nat) (f : Conn → Conn) (h : NO w0 w) : NO w0 (w.setConn i f) := no_same _ h rfl rfl
theorem no_setReq {w0 w : World} (i : Nat) (f : Req → Req) (h : NO w0 w) : NO w0 (w.setReq i f) := no_same _ h rfl rfl
theorem no_ev {w0 w : World} (s : String) (h : NO w0 w) : NO w0 (w.ev s) := no_same _ h rfl rfl
theorem no_sev {w0 w : World} (sid : Nat) (e : SEv) (h : NO w0 w) (he : e.isNever = false) : NO w0 (w.sev sid e) :=
  h.trans ⟨by unfold World.sev; dsimp only; split <;> rfl, by simp, [(sid, e)], by simp, fun x hx => by simp at hx; subst hx; exact he⟩
theorem no_answer {w0 w : World} (r : Nat) (resp : Resp) (h : NO w0 w) : NO w0 (w.answer r resp) := by
  unfold World.answer; split
  · exact h
  · exact no_setReq _ _ (no_ev _ h)
theorem no_abortData {w0 w : World} (d : Option Nat) (h : NO w0 w) : NO w0 (abortData w d) := by
  unfold abortData; split
  · exact no_answer _ _ h
  · exact h
theorem no_trSend {w0 w : World} (ti : Nat) (b : List Pkt) (h : NO w0 w) : NO w0 (trSend w ti b) := no_same _ h rfl rfl
theorem no_fields {w0 w : World} (w' : World) (h : NO w0 w) (h1 : w'.socks = w.socks := by rfl) (h2 : w'.slog = w.slog := by rfl) (h3 : w'.o = w.o := by rfl) : NO w0 w' :=
  no_same w' h h1 h2 h3
theorem no_pushReq {w0 w : World} (q : Req) (h : NO w0 w) : NO w0 ({ w with reqs := w.reqs.push q } : World) := no_fields _ h

macro "no_prim" : tactic => `(tactic| repeat (first
  | with_reducible assumption
  | with_reducible apply no_ev | (with_reducible refine no_sev _ _ ?_ rfl) | with_reducible apply no_answer
  | with_reducible apply no_trSend | with_reducible apply no_setConn
  | with_reducible apply no_abortData | with_reducible apply no_setSock
  | with_reducible apply no_setReq | with_reducible apply no_setTr))

theorem no_candCleanup {w0 w : World} (sid : Nat) (h : NO w0 w) : NO w0 (candCleanup w sid) := by
  unfold candCleanup
  split
  · exact h
  · no_prim

theorem no_close_all (f : Nat) :
    (∀ w0 w ti, NO w0 w → NO w0 (trEmitClose f w ti)) ∧
    (∀ w0 w ti, NO w0 w → NO w0 (trOnErrorF f w ti)) ∧
    (∀ w0 w ti, NO w0 w → NO w0 (trOnCloseBaseF f w ti)) ∧
    (∀ w0 w ti, NO w0 w → NO w0 (pollOnCloseF f w ti)) ∧
    (∀ w0 w ti, NO w0 w → NO w0 (runCloseFnF f w ti)) ∧
    (∀ w0 w ti, NO w0 w → NO w0 (wsCloseNowF f w ti)) ∧
    (∀ w0 w ti fn, NO w0 w → NO w0 (trCloseF f w ti fn)) ∧
    (∀ w0 w sid, NO w0 w → NO w0 (clearTransportF f w sid)) ∧
    (∀ w0 w sid, NO w0 w → NO w0 (candFail f w sid)) ∧
    (∀ w0 w sid r, NO w0 w → NO w0 (sockOnClose f w sid r)) := by
  induction f with
  | zero =>
    refine ⟨?_, ?_, ?_, ?_, ?_, ?_, ?_, ?_, ?_, ?_⟩ <;> intros <;>
      first
      | (simp only [trEmitClose]; assumption) | (simp only [trOnErrorF]; assumption) | (simp only [trOnCloseBaseF]; assumption)
      | (simp only [pollOnCloseF]; assumption) | (simp only [runCloseFnF]; assumption) | (simp only [wsCloseNowF]; assumption)
      | (simp only [trCloseF]; assumption) | (simp only [clearTransportF]; assumption)
      | (simp only [candFail]; exact no_candCleanup _ (by assumption)) | (simp only [sockOnClose]; assumption)
  | succ f ih =>
    obtain ⟨iEC, iOE, iCB, iPC, iRF, iWN, iTC, iCT, iCF, iSC⟩ := ih
    refine ⟨?_, ?_, ?_, ?_, ?_, ?_, ?_, ?_, ?_, ?_⟩
    · intro w0 w ti h
      rw [trEmitClose]; split
      · exact iSC _ _ _ _ h
      · exact iCF _ _ _ h
      · exact h
    · intro w0 w ti h
      rw [trOnErrorF]; split
      · exact iSC _ _ _ _ h
      · exact iCF _ _ _ h
      · exact h
    · intro w0 w ti h
      rw [trOnCloseBaseF]; split
      · exact h
      · apply iEC; no_prim
    · intro w0 w ti h
      rw [pollOnCloseF]
      apply iCB
      split <;> no_prim
    · intro w0 w ti h
      rw [runCloseFnF]
      try dsimp only
      split
      · apply iSC; no_prim
      · no_prim
    · intro w0 w ti h
      rw [wsCloseNowF]
      try dsimp only
      apply iCB; apply no_setConn; apply iRF; no_prim
    · intro w0 w ti fn h
      rw [trCloseF]
      try dsimp only
      split
      · exact h
      · have h1 : NO w0 (w.setTr ti fun t => { t with rs := .closing, closeFn := fn }) := by no_prim
        split
        · have h2 := no_abortData (w.tr ti).dataReq h1
          split
          · apply iPC; apply iRF; no_prim
          · split
            · apply iPC; apply iRF; exact h2
            · no_prim
        · split
          · exact iWN _ _ _ h1
          · no_prim
    · intro w0 w sid h
      rw [clearTransportF]
      try dsimp only
      apply no_setSock; apply iTC; no_prim
    · intro w0 w sid h
      rw [candFail]
      split
      · exact h
      · apply iTC; exact no_candCleanup _ h
    · intro w0 w sid r h
      rw [sockOnClose]
      split
      · exact h
      · try dsimp only
        apply no_setSock; apply iCF; refine no_sev _ _ ?_ rfl
        refine no_same _ (iCT _ _ _ (no_setSock _ _ h)) rfl rfl


theorem no_trOnError {w0 w : World} (ti : Nat) (h : NO w0 w) : NO w0 (trOnError w ti) := (no_close_all closeFuel).2.1 _ _ _ h
theorem no_trOnCloseBase {w0 w : World} (ti : Nat) (h : NO w0 w) : NO w0 (trOnCloseBase w ti) := (no_close_all closeFuel).2.2.1 _ _ _ h
theorem no_pollOnClose {w0 w : World} (ti : Nat) (h : NO w0 w) : NO w0 (pollOnClose w ti) := (no_close_all closeFuel).2.2.2.1 _ _ _ h
theorem no_runCloseFn {w0 w : World} (ti : Nat) (h : NO w0 w) : NO w0 (runCloseFn w ti) := (no_close_all closeFuel).2.2.2.2.1 _ _ _ h
theorem no_wsCloseNow {w0 w : World} (ti : Nat) (h : NO w0 w) : NO w0 (wsCloseNow w ti) := (no_close_all closeFuel).2.2.2.2.2.1 _ _ _ h
theorem no_trClose {w0 w : World} (ti : Nat) (fn : Option Nat) (h : NO w0 w) : NO w0 (trClose w ti fn) :=
  (no_close_all closeFuel).2.2.2.2.2.2.1 _ _ _ _ h
theorem no_clearTransport {w0 w : World} (sid : Nat) (h : NO w0 w) : NO w0 (clearTransport w sid) :=
  (no_close_all closeFuel).2.2.2.2.2.2.2.1 _ _ _ h
theorem no_sockOnClose {w0 w : World} (f : Nat) (sid : Nat) (r : String) (h : NO w0 w) : NO w0 (sockOnClose f w sid r) :=
  (no_close_all f).2.2.2.2.2.2.2.2.2 _ _ _ _ h

macro "no_auto" : tactic => `(tactic| repeat (first
  | with_reducible assumption
  | with_reducible apply no_ev | (with_reducible refine no_sev _ _ ?_ rfl) | with_reducible apply no_answer
  | with_reducible apply no_trSend | with_reducible apply no_setConn
  | with_reducible apply no_abortData | with_reducible apply no_setSock
  | with_reducible apply no_trOnError | with_reducible apply no_trOnCloseBase | with_reducible apply no_pollOnClose
  | with_reducible apply no_runCloseFn | with_reducible apply no_wsCloseNow | with_reducible apply no_trClose
  | with_reducible apply no_clearTransport | with_reducible apply no_candCleanup | with_reducible apply no_sockOnClose
  | with_reducible apply no_setReq | with_reducible apply no_setTr))

/-! ### everything else -/

theorem no_closeTransportF {w0 w : World} (f : Nat) (sid : Nat) (d : Bool) (h : NO w0 w) : NO w0 (closeTransportF f w sid d) := by
  cases f with
  | zero => simpa [closeTransportF] using h
  | succ f =>
    rw [closeTransportF]
    try dsimp only
    have h1 : NO w0 (if d = true then w.setTr (w.sock sid).tr fun t => { t with discarded := true } else w) := by
      split
      · no_auto
      · exact h
    generalize (if d = true then w.setTr (w.sock sid).tr fun t => { t with discarded := true } else w) = w1 at h1 ⊢
    split
    · exact no_sockOnClose _ _ _ h1
    · exact no_trClose _ _ h1

theorem no_flushF {w0 w : World} (f : Nat) (sid : Nat) (h : NO w0 w) : NO w0 (flushF f w sid) := by
  cases f with
  | zero => simpa [flushF] using h
  | succ f =>
    rw [flushF]
    try dsimp only
    split
    · exact h
    · apply no_ev
      split
      · apply no_closeTransportF; no_auto
      · no_auto

theorem no_flush {w0 w : World} (sid : Nat) (h : NO w0 w) : NO w0 (flush w sid) := no_flushF _ sid h
theorem no_closeTransport {w0 w : World} (sid : Nat) (d : Bool) (h : NO w0 w) : NO w0 (closeTransport w sid d) := no_closeTransportF _ sid d h

theorem no_sendPacket {w0 w : World} (sid : Nat) (pk : Pkt) (cb : Option Nat) (h : NO w0 w) : NO w0 (sendPacket w sid pk cb) := by
  unfold sendPacket
  try dsimp only
  split
  · exact h
  · apply no_flush; no_auto


end EIO.Ses
