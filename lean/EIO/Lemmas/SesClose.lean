import EIO.Lemmas.SesInv
/-
The close paths: a detached transport closes without touching any session;
`socket.OnClose` closes exactly its own session and logs exactly one event;
every function of the mutual block preserves the invariant.
-/
namespace EIO.Ses
open EIO EIO.Codec

theorem rank_le_three (r : RS) : r.rank ≤ 3 := by cases r <;> decide

/-! ### reading a transport through updates -/

theorem tr_setTr_role (w : World) (i j : Nat) (f : Tr → Tr) (hf : ∀ t, (f t).role = t.role) :
    ((w.setTr i f).tr j).role = (w.tr j).role := by
  rw [tr_setTr]; split
  · exact hf _
  · rfl

theorem tr_setTr_closeFn (w : World) (i j : Nat) (f : Tr → Tr) (hf : ∀ t, (f t).closeFn = t.closeFn) :
    ((w.setTr i f).tr j).closeFn = (w.tr j).closeFn := by
  rw [tr_setTr]; split
  · exact hf _
  · rfl

/-- after an update that clears the callback of transport `i`, it has none (an index
    beyond the table reads the default transport, which has none either) -/
theorem tr_setTr_closeFn_none (w : World) (i : Nat) (f : Tr → Tr) (hf : ∀ t, (f t).closeFn = none) :
    ((w.setTr i f).tr i).closeFn = none := by
  rw [tr_setTr]; split
  · exact hf _
  · rename_i h
    have : w.trs.size ≤ i := by
      apply Nat.le_of_not_lt; intro hlt; exact h ⟨rfl, hlt⟩
    rw [tr_oob w i this]; rfl

theorem tr_setTr_role_none (w : World) (i : Nat) (f : Tr → Tr) (hf : ∀ t, (f t).role = .none) :
    ((w.setTr i f).tr i).role = .none := by
  rw [tr_setTr]; split
  · exact hf _
  · rename_i h
    have : w.trs.size ≤ i := by
      apply Nat.le_of_not_lt; intro hlt; exact h ⟨rfl, hlt⟩
    rw [tr_oob w i this]; rfl

@[simp] theorem tr_trSend_role (w : World) (ti j : Nat) (b : List Pkt) : ((trSend w ti b).tr j).role = (w.tr j).role := by
  unfold trSend
  show ((w.setTr ti _).tr j).role = _
  exact tr_setTr_role w ti j _ (fun _ => rfl)

@[simp] theorem tr_trSend_closeFn (w : World) (ti j : Nat) (b : List Pkt) : ((trSend w ti b).tr j).closeFn = (w.tr j).closeFn := by
  unfold trSend
  show ((w.setTr ti _).tr j).closeFn = _
  exact tr_setTr_closeFn w ti j _ (fun _ => rfl)

@[simp] theorem tr_answer (w : World) (r : Nat) (resp : Resp) (j : Nat) : (w.answer r resp).tr j = w.tr j := by
  unfold World.answer; split <;> rfl

/-! ### post-composition forms: `SameView w0 w → SameView w0 (g w)` -/

theorem sv_setTr {w0 w : World} (i : Nat) (f : Tr → Tr) (h : SameView w0 w) : SameView w0 (w.setTr i f) :=
  h.trans (sameView_setTr _ _ _)
theorem sv_setConn {w0 w : World} (i : Nat) (f : Conn → Conn) (h : SameView w0 w) : SameView w0 (w.setConn i f) :=
  h.trans (sameView_setConn _ _ _)
theorem sv_ev {w0 w : World} (s : String) (h : SameView w0 w) : SameView w0 (w.ev s) :=
  h.trans (sameView_ev _ _)
theorem sv_trSend {w0 w : World} (ti : Nat) (b : List Pkt) (h : SameView w0 w) : SameView w0 (trSend w ti b) :=
  h.trans (sameView_trSend _ _ _)
theorem sv_answer {w0 w : World} (r : Nat) (resp : Resp) (h : SameView w0 w) : SameView w0 (w.answer r resp) :=
  h.trans (sameView_answer _ _ _)
theorem sv_setSock {w0 w : World} (sid : Nat) (f : Sock → Sock) (h : SameView w0 w)
    (hf : SockSame (w.sock sid) (f (w.sock sid))) : SameView w0 (w.setSock sid f) :=
  h.trans (sameView_setSock _ _ _ hf)

/-- chains of primitive updates -/
macro "sv_prim" : tactic => `(tactic| repeat (first
  | exact SameView.refl _ | assumption
  | apply sv_setTr | apply sv_setConn | apply sv_ev | apply sv_trSend | apply sv_answer))

/-! ### a detached transport -/

theorem trEmitClose_detached (f : Nat) (w : World) (ti : Nat) (h : (w.tr ti).role = .none) :
    trEmitClose f w ti = w := by
  cases f with
  | zero => simp [trEmitClose]
  | succ f => rw [trEmitClose]; simp [h]

theorem sv_trOnCloseBaseF_detached {w0 w : World} (f : Nat) (ti : Nat) (h : SameView w0 w)
    (hr : (w.tr ti).role = .none) : SameView w0 (trOnCloseBaseF f w ti) := by
  cases f with
  | zero => simpa [trOnCloseBaseF] using h
  | succ f =>
    rw [trOnCloseBaseF]
    split
    · exact h
    · rw [trEmitClose_detached]
      · sv_prim
      · refine (tr_setTr_role _ _ _ _ ?_).trans hr; intro _; rfl

theorem sv_pollOnCloseF_detached {w0 w : World} (f : Nat) (ti : Nat) (h : SameView w0 w)
    (hr : (w.tr ti).role = .none) : SameView w0 (pollOnCloseF f w ti) := by
  cases f with
  | zero => simpa [pollOnCloseF] using h
  | succ f =>
    rw [pollOnCloseF]
    apply sv_trOnCloseBaseF_detached
    · split <;> sv_prim
    · split
      · simp [hr]
      · exact hr

theorem role_runCloseFnF_nofn (f : Nat) (w : World) (ti : Nat) (h : (w.tr ti).closeFn = none) :
    ((runCloseFnF f w ti).tr ti).role = (w.tr ti).role := by
  cases f with
  | zero => simp [runCloseFnF]
  | succ f =>
    rw [runCloseFnF]
    simp only [h]
    refine tr_setTr_role _ _ _ _ ?_; intro _; rfl

theorem sv_runCloseFnF_nofn {w0 w : World} (f : Nat) (ti : Nat) (h : SameView w0 w)
    (hfn : (w.tr ti).closeFn = none) : SameView w0 (runCloseFnF f w ti) := by
  cases f with
  | zero => simpa [runCloseFnF] using h
  | succ f =>
    rw [runCloseFnF]
    simp only [hfn]
    sv_prim

theorem sv_wsCloseNowF_detached {w0 w : World} (f : Nat) (ti : Nat) (h : SameView w0 w)
    (hr : (w.tr ti).role = .none) (hfn : (w.tr ti).closeFn = none) : SameView w0 (wsCloseNowF f w ti) := by
  cases f with
  | zero => simpa [wsCloseNowF] using h
  | succ f =>
    rw [wsCloseNowF]
    have h1 : ((w.setTr ti fun t => { t with closeWait := false, closeTimerDue := none }).tr ti).closeFn = none := by
      refine (tr_setTr_closeFn _ _ _ _ ?_).trans hfn; intro _; rfl
    have h1r : ((w.setTr ti fun t => { t with closeWait := false, closeTimerDue := none }).tr ti).role = .none := by
      refine (tr_setTr_role _ _ _ _ ?_).trans hr; intro _; rfl
    apply sv_trOnCloseBaseF_detached
    · apply sv_setConn
      apply sv_runCloseFnF_nofn _ _ _ h1
      sv_prim
    · simp only [tr_setConn]
      rw [role_runCloseFnF_nofn _ _ _ h1]; exact h1r

/-- closing a transport nobody listens to, without a callback: no session is touched -/
theorem sv_trCloseF_detached {w0 w : World} (f : Nat) (ti : Nat) (h : SameView w0 w)
    (hr : (w.tr ti).role = .none) : SameView w0 (trCloseF f w ti none) := by
  cases f with
  | zero => simpa [trCloseF] using h
  | succ f =>
    rw [trCloseF]
    try dsimp only
    split
    · exact h
    · have hfn1 : ((w.setTr ti fun t => { t with rs := .closing, closeFn := none }).tr ti).closeFn = none := by
        refine tr_setTr_closeFn_none _ _ _ ?_; intro _; rfl
      have hr1 : ((w.setTr ti fun t => { t with rs := .closing, closeFn := none }).tr ti).role = .none := by
        refine (tr_setTr_role _ _ _ _ ?_).trans hr; intro _; rfl
      have v1 : SameView w0 (w.setTr ti fun t => { t with rs := .closing, closeFn := none }) := by sv_prim
      generalize (w.setTr ti fun t => { t with rs := .closing, closeFn := none }) = w1 at hfn1 hr1 v1 ⊢
      split
      · -- polling
        have v2 : SameView w0 (abortData w1 (w.tr ti).dataReq) := by
          unfold abortData; split <;> sv_prim
        have hfn2 : ((abortData w1 (w.tr ti).dataReq).tr ti).closeFn = none := by
          unfold abortData; split <;> simp [hfn1]
        have hr2 : ((abortData w1 (w.tr ti).dataReq).tr ti).role = .none := by
          unfold abortData; split <;> simp [hr1]
        generalize abortData w1 (w.tr ti).dataReq = w2 at v2 hfn2 hr2 ⊢
        split
        · have hfn3 : ((trSend w2 ti [{ typ := .close }]).tr ti).closeFn = none := by simp [hfn2]
          apply sv_pollOnCloseF_detached
          · apply sv_runCloseFnF_nofn _ _ _ hfn3
            sv_prim
          · rw [role_runCloseFnF_nofn _ _ _ hfn3]; simp [hr2]
        · split
          · apply sv_pollOnCloseF_detached
            · exact sv_runCloseFnF_nofn _ _ v2 hfn2
            · rw [role_runCloseFnF_nofn _ _ _ hfn2]; exact hr2
          · sv_prim
      · split
        · exact sv_wsCloseNowF_detached f ti v1 hr1 hfn1
        · sv_prim

theorem sv_clearTransportF {w0 w : World} (f : Nat) (sid : Nat) (h : SameView w0 w) :
    SameView w0 (clearTransportF f w sid) := by
  cases f with
  | zero => simpa [clearTransportF] using h
  | succ f =>
    rw [clearTransportF]
    apply sv_setSock _ _ _ ⟨rfl, rfl, rfl, rfl, rfl, rfl, rfl, rfl, by first | exact id | (intro h; cases h)⟩
    apply sv_trCloseF_detached
    · sv_prim
    · refine tr_setTr_role_none _ _ _ ?_; intro _; rfl

theorem sv_candCleanup {w0 w : World} (sid : Nat) (h : SameView w0 w) : SameView w0 (candCleanup w sid) := by
  unfold candCleanup
  split
  · exact h
  · apply sv_setTr
    exact sv_setSock _ _ h ⟨rfl, rfl, rfl, rfl, rfl, rfl, rfl, rfl, by first | exact id | (intro h; cases h)⟩

theorem sv_candFail {w0 w : World} (f : Nat) (sid : Nat) (h : SameView w0 w) : SameView w0 (candFail f w sid) := by
  cases f with
  | zero => simp only [candFail]; exact sv_candCleanup sid h
  | succ f =>
    rw [candFail]
    split
    · exact h
    · rename_i c hc
      apply sv_trCloseF_detached
      · exact sv_candCleanup sid h
      · unfold candCleanup
        simp only [hc]
        refine tr_setTr_role_none _ _ _ ?_; intro _; rfl

theorem clearTransportF_sameView (f : Nat) (w : World) (sid : Nat) : SameView w (clearTransportF f w sid) :=
  sv_clearTransportF f sid (SameView.refl w)
theorem candFail_sameView (f : Nat) (w : World) (sid : Nat) : SameView w (candFail f w sid) :=
  sv_candFail f sid (SameView.refl w)
theorem candCleanup_sameView (w : World) (sid : Nat) : SameView w (candCleanup w sid) :=
  sv_candCleanup sid (SameView.refl w)

/-! ### `socket.OnClose` -/

/-- what `socket.OnClose` amounts to for the invariant -/
theorem close_core (w w' : World) (sid : Nat) (reason : String) (x : RS) (i : Inv w)
    (hnc : ¬ closedW w sid) (hsz : sid < w.socks.size)
    (size : w'.socks.size = w.socks.size)
    (other : ∀ j, j ≠ sid → SockSame (w.sock j) (w'.sock j))
    (hrs : (w'.sock sid).rs = .closed) (hcb : (w'.sock sid).sentCb = [])
    (hann : (w'.sock sid).announced = (w.sock sid).announced) (hproto : (w'.sock sid).proto = (w.sock sid).proto)
    (hupg : (w'.sock sid).upgraded = (w.sock sid).upgraded) (hcandm : (w'.sock sid).cand.isSome → (w.sock sid).cand.isSome)
    (hlog : w'.slog = w.slog ++ [(sid, .close reason x)])
    (hreg : w'.registry = w.registry.filter (· ≠ sid))
    (hreqs : ReqsExt w w') : Inv w' ∧ Ext w w' := by
  have hcw : ∀ j, j ≠ sid → (closedW w' j ↔ closedW w j) := fun j hj => by
    unfold closedW; rw [(other j hj).rs]
  have hci : ∀ j, closeIn j w'.slog ↔ closeIn j w.slog ∨ j = sid := fun j => by
    rw [hlog, closeIn_append, closeIn_single]; simp [SEv.isClose, eq_comm]
  have hacc' : AccInv w' := by
    refine i.acc.snoc_neutral sid (.close reason x) rfl hlog (Nat.le_of_eq size.symm) (fun j h => ?_)
    by_cases hj : j = sid
    · subst hj
      obtain ⟨r1, e1, _⟩ := h.pk
      obtain ⟨r2, e2, _⟩ := h.cb
      obtain ⟨r3, e3, _⟩ := h.run
      exact ⟨⟨r1, e1, fun hn => absurd hrs hn⟩, ⟨r2, e2, fun hn => absurd hrs hn⟩, ⟨r3, e3, fun hn => absurd hrs hn⟩,
             by rw [hupg]; exact h.up⟩
    · exact h.same (other j hj)
  have hro : ∀ j ∈ w'.registry, (w'.sock j).rs ≠ .opening := by
    intro j hm
    rw [hreg] at hm
    have hm' := List.mem_filter.mp hm
    have hj : j ≠ sid := by simpa using hm'.2
    rw [(other j hj).rs]; exact i.regOpen j hm'.1
  refine ⟨⟨?_, ?_, ?_, ?_, ?_, ?_, ?_, hacc', hro⟩, ⟨?_, ⟨_, hlog⟩, hreqs, Nat.le_of_eq size.symm, ?_, ?_, ?_⟩⟩
  · rw [hlog]
    exact logOK_snoc _ _ i.logOK (fun _ hc => hnc (i.logClosed sid hc))
  · intro j hc
    rcases (hci j).mp hc with h | h
    · have hj : j ≠ sid := fun e => hnc (e ▸ i.logClosed j h)
      exact (hcw j hj).mpr (i.logClosed j h)
    · rw [h]; exact hrs
  · intro j hc
    by_cases hj : j = sid
    · exact (hci j).mpr (Or.inr hj)
    · exact (hci j).mpr (Or.inl (i.closedLog j ((hcw j hj).mp hc)))
  · intro j
    by_cases hj : j = sid
    · subst hj
      exact ⟨fun _ => hcb, fun _ => Or.inr hrs, fun hd => by rw [hupg]; exact (i.sockOK j).cu (hcandm hd)⟩
    · have s := other j hj
      have o := i.sockOK j
      exact ⟨fun hc => by rw [s.sentCb]; exact o.cb (by rw [← s.rs]; exact hc),
             fun hd => by rw [s.rs]; exact o.dc (by rw [← s.drainClose]; exact hd),
             fun hd => by rw [s.upgraded]; exact o.cu (s.candm hd)⟩
  · intro j hm
    rw [hreg] at hm
    have hm' := List.mem_filter.mp hm
    have hj : j ≠ sid := by simpa using hm'.2
    obtain ⟨a, b, c⟩ := i.regLive j hm'.1
    exact ⟨fun hc => a ((hcw j hj).mp hc), by rw [size]; exact b, by rw [(other j hj).announced]; exact c⟩
  · rw [hreg]; exact i.regNodup.filter _
  · intro j ha
    by_cases hj : j = sid
    · subst hj; exact Or.inr hrs
    · rw [(other j hj).announced] at ha
      rcases i.annReg j ha with r | r
      · exact Or.inl (by rw [hreg]; exact List.mem_filter.mpr ⟨r, by simpa using hj⟩)
      · exact Or.inr ((hcw j hj).mpr r)
  · intro j
    by_cases hj : j = sid
    · subst hj; rw [hrs]; exact rank_le_three _
    · rw [(other j hj).rs]; exact Nat.le_refl _
  · intro j _
    by_cases hj : j = sid
    · subst hj; exact hproto
    · exact (other j hj).proto
  · intro j ha
    by_cases hj : j = sid
    · subst hj; rw [hann]; exact ha
    · rw [(other j hj).announced]; exact ha
  · intro j hm
    rw [hreg] at hm
    exact Or.inl (List.mem_filter.mp hm).1

theorem sockOnClose_pres (f : Nat) (w : World) (sid : Nat) (reason : String) :
    Pres w (sockOnClose f w sid reason) := by
  cases f with
  | zero => simp [sockOnClose]; exact Pres.refl _
  | succ f =>
    rw [sockOnClose]
    split
    · exact Pres.refl _
    · rename_i hg
      have hnc : ¬ closedW w sid := fun h => hg (Or.inl h)
      have hsz : sid < w.socks.size := Nat.lt_of_not_le (fun h => hg (Or.inr h))
      intro i
      try dsimp only
      -- the five stages
      generalize hw1 : (w.setSock sid fun s =>
        { s with rs := .closed, pingIntervalDue := none, pingTimeoutDue := none, packetsFn := [], sentCb := [] }) = w1
      have v12 := clearTransportF_sameView f w1 sid
      generalize hw2 : clearTransportF f w1 sid = w2 at v12
      generalize hw3 : ({ w2 with registry := w2.registry.filter (· ≠ sid) } : World) = w3
      generalize hw4 : w3.sev sid (.close reason (w3.sock sid).rs) = w4
      have v45 := candFail_sameView f w4 sid
      generalize hw5 : candFail f w4 sid = w5 at v45
      generalize hw6 : (w5.setSock sid fun s => { s with wbuf := [] }) = w6
      -- the sessions of w1
      have s1 : ∀ j, j ≠ sid → w1.sock j = w.sock j := fun j hj => by
        rw [← hw1, sock_setSock]; simp [Ne.symm hj]
      have s1s : w1.sock sid = { (w.sock sid) with rs := .closed, pingIntervalDue := none, pingTimeoutDue := none, packetsFn := [], sentCb := [] } := by
        rw [← hw1, sock_setSock]; simp [hsz]
      have s34 : ∀ j, w4.sock j = w2.sock j := fun j => by rw [← hw4, sock_sev, ← hw3]; rfl
      have sock5 : ∀ j, SockSame (w1.sock j) (w5.sock j) := fun j => by
        have a := v12.sock j
        have b := v45.sock j
        rw [s34 j] at b
        exact a.trans b
      have z5 : w5.socks.size = w.socks.size := by
        rw [v45.size, ← hw4, socks_sev, ← hw3]
        show w2.socks.size = _
        rw [v12.size, ← hw1]; simp
      have s6 : ∀ j, j ≠ sid → w6.sock j = w5.sock j := fun j hj => by
        rw [← hw6, sock_setSock]; simp [Ne.symm hj]
      have s6s : w6.sock sid = { (w5.sock sid) with wbuf := [] } := by
        rw [← hw6, sock_setSock]; simp [z5, hsz]
      have v56 : SameView' w5 w6 := by
        rw [← hw6]; exact ⟨by simp, rfl, rfl, ReqsExt.refl _⟩
      apply close_core w w6 sid reason (w3.sock sid).rs i hnc hsz
      · rw [v56.size, z5]
      · intro j hj; have := sock5 j; rw [s1 j hj, ← s6 j hj] at this; exact this
      · rw [s6s]; show (w5.sock sid).rs = _; rw [(sock5 sid).rs, s1s]
      · rw [s6s]; show (w5.sock sid).sentCb = _; rw [(sock5 sid).sentCb, s1s]
      · rw [s6s]; show (w5.sock sid).announced = _; rw [(sock5 sid).announced, s1s]
      · rw [s6s]; show (w5.sock sid).proto = _; rw [(sock5 sid).proto, s1s]
      · rw [s6s]; show (w5.sock sid).upgraded = _; rw [(sock5 sid).upgraded, s1s]
      · rw [s6s]; intro hd
        have := (sock5 sid).candm hd
        rw [s1s] at this; exact this
      · rw [v56.slog, v45.slog, ← hw4, slog_sev, ← hw3]
        show w2.slog ++ _ = _
        rw [v12.slog, ← hw1]; rfl
      · rw [v56.registry, v45.registry, ← hw4, registry_sev, ← hw3]
        show w2.registry.filter _ = _
        rw [v12.registry, ← hw1]; rfl
      · have r12 : ReqsExt w w2 := by
          have := v12.reqs; rw [← hw1] at this; exact this
        have r24 : ReqsExt w2 w4 := by
          rw [← hw4, ← hw3]
          exact ⟨by simp, fun r x hx => by simpa using hx⟩
        exact r12.trans (r24.trans (v45.reqs.trans v56.reqs))

end EIO.Ses
