import EIO.Lemmas.Link
/-
Every operation of the session model preserves the linkage `Link`.
-/
namespace EIO.Ses
open EIO EIO.Codec

/-! ### frames -/

theorem lk_ev {x : Option Nat} {w : World} (s : String) (l : LinkX x w) : LinkX x (w.ev s) := (trOnly_ev w s).link l
theorem lk_sev {x : Option Nat} {w : World} (sid : Nat) (e : SEv) (l : LinkX x w) : LinkX x (w.sev sid e) := (trOnly_sev w sid e).link l
theorem lk_answer {x : Option Nat} {w : World} (r : Nat) (resp : Resp) (l : LinkX x w) : LinkX x (w.answer r resp) := (trOnly_answer w r resp).link l
theorem lk_trSend {x : Option Nat} {w : World} (ti : Nat) (b : List Pkt) (l : LinkX x w) : LinkX x (trSend w ti b) := (trOnly_trSend w ti b).link l
theorem lk_setConn {x : Option Nat} {w : World} (i : Nat) (f : Conn → Conn) (l : LinkX x w) : LinkX x (w.setConn i f) := (trOnly_setConn w i f).link l
theorem lk_setReq {x : Option Nat} {w : World} (i : Nat) (f : Req → Req) (l : LinkX x w) : LinkX x (w.setReq i f) := (trOnly_setReq w i f).link l
theorem lk_abortData {x : Option Nat} {w : World} (d : Option Nat) (l : LinkX x w) : LinkX x (abortData w d) := (trOnly_abortData w d).link l
/-- an update of one session that keeps closedness, the upgrading mark, the transport and the candidate -/
theorem lk_setSock {x : Option Nat} {w : World} (sid : Nat) (f : Sock → Sock)
    (hf : ∀ s, ((f s).rs = .closed ↔ s.rs = .closed) ∧ (f s).upgrading = s.upgrading ∧ (f s).tr = s.tr ∧ (f s).cand = s.cand)
    (l : LinkX x w) : LinkX x (w.setSock sid f) := (trOnly_setSock w sid f hf).link l
/-- a change of fields the linkage does not read -/
theorem lk_fields {x : Option Nat} {w : World} (w' : World) (l : LinkX x w) (h1 : w'.socks = w.socks := by rfl)
    (h2 : w'.trs = w.trs := by rfl) : LinkX x w' := (trOnly_fields w w' h1 h2).link l

macro "lk_frame" : tactic => `(tactic| repeat (first
  | assumption
  | apply lk_ev | apply lk_sev | apply lk_answer | apply lk_trSend | apply lk_setConn | apply lk_setReq | apply lk_abortData
  | (refine lk_setSock _ _ ?_ ?_; (intro s; exact ⟨Iff.rfl, rfl, rfl, rfl⟩))
  | (refine link_setTr _ _ ?_ ?_ ?_; (intro t; rfl); (intro t h; exact h))))

theorem lk_rejectReq {w : World} (r code : Nat) (msg : String) (l : Link w) : Link (rejectReq w r code msg) := by
  unfold rejectReq; lk_frame

theorem lk_emitHeaders {w : World} (ti r : Nat) (l : Link w) : Link (emitHeaders w ti r) := by
  unfold emitHeaders
  try dsimp only
  repeat (first | assumption | apply lk_ev | apply lk_setReq | split)

/-! ### closing a session -/

theorem lk_sockOnClose {w : World} (f : Nat) (sid : Nat) (reason : String) (l : Link w) (hf : 2 ≤ f) :
    Link (sockOnClose f w sid reason) := by
  obtain ⟨g, rfl⟩ : ∃ g, f = g + 2 := ⟨f - 2, by omega⟩
  by_cases hg : (w.sock sid).rs = .closed ∨ w.socks.size ≤ sid
  · rw [sockOnClose]; simp only [hg, if_true]; exact l
  · exact sockOnClose_link g w sid reason none l (Or.inl rfl) (fun h => hg (Or.inl h)) (Nat.lt_of_not_le (fun h => hg (Or.inr h)))

theorem lk_closeTransportF {w : World} (f : Nat) (sid : Nat) (d : Bool) (l : Link w) : Link (closeTransportF f w sid d) := by
  cases f with
  | zero => simpa [closeTransportF] using l
  | succ f =>
    rw [closeTransportF]
    try dsimp only
    have l1 : Link (if d = true then w.setTr (w.sock sid).tr fun t => { t with discarded := true } else w) := by
      split
      · exact link_setTr _ _ (fun _ => rfl) (fun _ h => h) l
      · exact l
    generalize (if d = true then w.setTr (w.sock sid).tr fun t => { t with discarded := true } else w) = w1 at l1 ⊢
    split
    · exact lk_sockOnClose _ sid _ l1 (by decide)
    · exact trClose_link _ _ _ l1

theorem lk_flushF {w : World} (f : Nat) (sid : Nat) (l : Link w) : Link (flushF f w sid) := by
  cases f with
  | zero => simpa [flushF] using l
  | succ f =>
    rw [flushF]
    try dsimp only
    split
    · exact l
    · apply lk_ev
      split
      · apply lk_closeTransportF
        lk_frame
      · lk_frame

theorem lk_flush {w : World} (sid : Nat) (l : Link w) : Link (flush w sid) := lk_flushF _ sid l
theorem lk_closeTransport {w : World} (sid : Nat) (d : Bool) (l : Link w) : Link (closeTransport w sid d) := lk_closeTransportF _ sid d l

theorem lk_sendPacket {w : World} (sid : Nat) (p : Pkt) (cb : Option Nat) (l : Link w) : Link (sendPacket w sid p cb) := by
  unfold sendPacket
  try dsimp only
  split
  · exact l
  · apply lk_flush
    lk_frame

theorem lk_cbs {w : World} (sid : Nat) (cbs : List Nat) (l : Link w) : Link (cbs.foldl (fun w id => w.sev sid (.cb id)) w) := by
  induction cbs generalizing w with
  | nil => exact l
  | cons id rest ih => simp only [List.foldl_cons]; exact ih (lk_sev _ _ l)

theorem lk_sockOnDrain {w : World} (sid : Nat) (l : Link w) : Link (sockOnDrain w sid) := by
  unfold sockOnDrain
  split
  · exact l
  · apply lk_cbs; lk_frame

theorem lk_trEmitDrain {w : World} (ti : Nat) (l : Link w) : Link (trEmitDrain w ti) := by
  unfold trEmitDrain
  try dsimp only
  split
  · split
    · exact wsCloseNow_link _ _ (lk_sockOnDrain _ l)
    · exact lk_sockOnDrain _ l
  · split
    · exact wsCloseNow_link _ _ l
    · exact l

theorem lk_trEmitReady {w : World} (ti : Nat) (l : Link w) : Link (trEmitReady w ti) := by
  unfold trEmitReady
  split
  · exact lk_flush _ l
  · exact l

/-! ### the upgrade -/

/-- a candidate's timers are re-armed: same candidate transport -/
theorem lk_setCandTimers {x : Option Nat} {w : World} (sid : Nat) (c c' : Cand) (hc : (w.sock sid).cand = some c)
    (htr : c'.tr = c.tr) (l : LinkX x w) : LinkX x (w.setSock sid fun s => { s with cand := some c' }) := by
  have hsz := sock_exists_of_cand w sid c hc
  have hs : ∀ j, ((w.setSock sid fun s => { s with cand := some c' }).sock j) = if sid = j then { (w.sock j) with cand := some c' } else w.sock j := fun j => by
    rw [sock_setSock]
    by_cases h : sid = j
    · subst h; simp [hsz]
    · simp [h]
  refine ⟨?_, l.l2, ?_, ?_, ?_, ?_⟩
  · intro j hj hnc
    have hj' : j < w.socks.size := by simpa using hj
    have hnc' : (w.sock j).rs ≠ .closed := by rw [hs] at hnc; split at hnc <;> exact hnc
    have := l.l1 j hj' hnc'
    rw [hs]; split <;> exact this
  · intro t j h
    obtain ⟨a, b, cc⟩ := l.l3 t j h
    rw [hs]; split <;> exact ⟨a, by simpa using b, cc⟩
  · intro t j h
    obtain ⟨c0, hc0, ht0⟩ := l.l4 t j h
    rw [hs]
    split
    · rename_i e; subst e
      rw [hc] at hc0; cases hc0
      exact ⟨c', rfl, htr.trans ht0⟩
    · exact ⟨c0, hc0, ht0⟩
  · intro j c1 h
    rw [hs] at h
    split at h
    · rename_i e; subst e
      have : c1 = c' := by simpa using h.symm
      subst this
      show (w.tr c1.tr).role = _
      rw [htr]; exact l.l5 _ c hc
    · exact l.l5 j c1 h
  · intro j h
    rw [hs] at h ⊢
    split
    · rename_i e; subst e; exact l.l6 _ (by rw [hc]; rfl)
    · rename_i e; simp only [e, if_false] at h; exact l.l6 j h

/-- the switch of a session from its current transport `old` to the transport `new` that has just stopped
    being its candidate: what the worlds before and after must have in common -/
theorem link_switch_core (w w' : World) (sid new : Nat) (l : Link w)
    (hsz : sid < w.socks.size) (hnc : (w.sock sid).rs ≠ .closed)
    (hnew : new < w.trs.size) (hrn : (w.tr new).role = .none) (hcn : (w.tr new).rs ≠ .closed)
    (ssize : w'.socks.size = w.socks.size) (tsize : w'.trs.size = w.trs.size)
    (srs : ∀ j, (w'.sock j).rs = .closed ↔ (w.sock j).rs = .closed)
    (sup : ∀ j, (w'.sock j).upgrading = (w.sock j).upgrading)
    (scand : ∀ j, (w'.sock j).cand = (w.sock j).cand)
    (str : ∀ j, j ≠ sid → (w'.sock j).tr = (w.sock j).tr) (strs : (w'.sock sid).tr = new)
    (role : ∀ t, (w'.tr t).role = if t = new then .current sid else if t = (w.sock sid).tr then .none else (w.tr t).role)
    (closed : ∀ t, (w'.tr t).rs = .closed → (w.tr t).rs = .closed ∨ t = (w.sock sid).tr) : Link w' := by
  obtain ⟨hold, hro⟩ := l.l1 sid hsz hnc
  generalize ho : (w.sock sid).tr = old at *
  have hne : old ≠ new := by intro e; rw [e, hrn] at hro; cases hro
  refine ⟨?_, ?_, ?_, ?_, ?_, fun j h => by rw [sup]; exact l.l6 j (by rw [← scand]; exact h)⟩
  · intro j hj hncj
    by_cases e : j = sid
    · subst e
      rw [strs]
      exact ⟨by rw [tsize]; exact hnew, by rw [role]; simp⟩
    · have hncj' : (w.sock j).rs ≠ .closed := fun h => hncj ((srs j).mpr h)
      obtain ⟨a, b⟩ := l.l1 j (by rw [← ssize]; exact hj) hncj'
      rw [str j e]
      refine ⟨by rw [tsize]; exact a, ?_⟩
      rw [role]
      have h1 : (w.sock j).tr ≠ new := by intro e2; rw [e2, hrn] at b; cases b
      have h2 : (w.sock j).tr ≠ old := by
        intro e2; rw [e2, hro] at b; cases b; exact e rfl
      simp [h1, h2]; exact b
  · intro t hc
    refine Or.inl ?_
    rw [role]
    rcases closed t hc with a | a
    · have hn : t ≠ new := by intro e; rw [e] at a; exact hcn a
      simp only [hn, if_false]
      split
      · rfl
      · rcases l.l2 t a with b | b
        · exact b
        · cases b
    · subst a
      rw [if_neg hne, if_pos rfl]
  · intro t j h
    rw [role] at h
    split at h
    · rename_i e
      cases h
      exact ⟨by rw [strs, e], by rw [ssize]; exact hsz, fun hc => hnc ((srs _).mp hc)⟩
    · split at h
      · cases h
      · rename_i e1 e2
        obtain ⟨a, b, c⟩ := l.l3 t j h
        have hj : j ≠ sid := by intro e; rw [e, ho] at a; exact e2 a.symm
        exact ⟨by rw [str j hj]; exact a, by rw [ssize]; exact b, fun hc => c ((srs j).mp hc)⟩
  · intro t j h
    rw [role] at h
    split at h
    · cases h
    · split at h
      · cases h
      · rw [scand]; exact l.l4 t j h
  · intro j c1 h
    rw [scand] at h
    have hr := l.l5 j c1 h
    rw [role]
    have h1 : c1.tr ≠ new := by intro e; rw [e, hrn] at hr; cases hr
    have h2 : c1.tr ≠ old := by intro e; rw [e, hro] at hr; cases hr
    simp [h1, h2]; exact hr


/-- the switch as `doUpgrade` performs it: the old transport is detached and closed, the session moved
    onto `new`, `new` made its current transport -/
theorem link_switch_apply (wc wB : World) (sid new : Nat) (l : Link wc)
    (hsz : sid < wc.socks.size) (hnc : (wc.sock sid).rs ≠ .closed)
    (hnew : new < wc.trs.size) (hrn : (wc.tr new).role = .none) (hcn : (wc.tr new).rs ≠ .closed)
    (tB : TrOnly (wc.setTr (wc.sock sid).tr fun t => { t with role := .none, silenced := true }) wB)
    (ttB : TrTouch (wc.sock sid).tr (wc.setTr (wc.sock sid).tr fun t => { t with role := .none, silenced := true }) wB) :
    Link (((wB.setSock sid fun s => { s with pingTimeoutDue := none }).setSock sid fun s => { s with tr := new }).setTr new
      fun t => { t with role := .current sid }) := by
  obtain ⟨hold, hro⟩ := l.l1 sid hsz hnc
  have hszB : sid < wB.socks.size := by rw [tB.ssize]; simpa using hsz
  have hnewB : new < wB.trs.size := by rw [tB.size]; simpa using hnew
  have hsock : ∀ j, ((((wB.setSock sid fun s => { s with pingTimeoutDue := none }).setSock sid fun s => { s with tr := new }).setTr new
      fun t => { t with role := .current sid }).sock j) =
      if sid = j then { (wB.sock j) with pingTimeoutDue := none, tr := new } else wB.sock j := fun j => by
    rw [sock_setTr, sock_setSock, sock_setSock]
    by_cases h : sid = j
    · subst h; simp [hszB]
    · simp [h]
  have htr : ∀ t, ((((wB.setSock sid fun s => { s with pingTimeoutDue := none }).setSock sid fun s => { s with tr := new }).setTr new
      fun t => { t with role := .current sid }).tr t) =
      if new = t then { (wB.tr t) with role := .current sid } else wB.tr t := fun t => by
    rw [tr_setTr]
    by_cases h : new = t
    · subst h; simp [hnewB]
    · simp [h]
  apply link_switch_core wc _ sid new l hsz hnc hnew hrn hcn
  · simp [tB.ssize]
  · simp [tB.size]
  · intro j; rw [hsock]
    have := tB.srs j
    simp only [sock_setTr] at this
    split <;> simpa using this
  · intro j; rw [hsock]
    have := tB.sup j
    simp only [sock_setTr] at this
    split <;> simpa using this
  · intro j; rw [hsock]
    have := tB.scand j
    simp only [sock_setTr] at this
    split <;> simpa using this
  · intro j hj; rw [hsock, if_neg (Ne.symm hj)]
    simpa using tB.str j
  · rw [hsock, if_pos rfl]
  · intro t; rw [htr]
    by_cases h : t = new
    · subst h; simp
    · rw [if_neg (Ne.symm h), if_neg h, tB.role, tr_setTr]
      by_cases h2 : t = (wc.sock sid).tr
      · subst h2; simp [hold]
      · simp [h2, Ne.symm h2]
  · intro t ht
    by_cases h2 : t = (wc.sock sid).tr
    · exact Or.inr h2
    · left
      rw [htr] at ht
      have e : wB.tr t = wc.tr t := by
        rw [ttB t h2, tr_setTr]; simp [Ne.symm h2]
      rw [← e]
      split at ht <;> simpa using ht

theorem lk_doUpgrade {w : World} (sid : Nat) (c : Cand) (hc : (w.sock sid).cand = some c)
    (hnc : (w.sock sid).rs ≠ .closed) (l : Link w) : Link (doUpgrade w sid c.tr) := by
  have hsz := sock_exists_of_cand w sid c hc
  have hcr := l.l5 sid c hc
  have hct : c.tr < w.trs.size := role_in_table w c.tr (by rw [hcr]; simp)
  have hcc : (w.tr c.tr).rs ≠ .closed := fun h => by
    rcases l.l2 _ h with h | h
    · rw [hcr] at h; cases h
    · cases h
  have la := link_candCleanup w none sid l
  have ha_sz : (candCleanup w sid).socks.size = w.socks.size := by simp [candCleanup, hc]
  have ha_tsz : (candCleanup w sid).trs.size = w.trs.size := by simp [candCleanup, hc]
  have ha_rs : ((candCleanup w sid).sock sid).rs = (w.sock sid).rs := by simp [candCleanup, hc, hsz]
  have ha_role : ((candCleanup w sid).tr c.tr).role = .none := by simp [candCleanup, hc, hct]
  have ha_crs : ((candCleanup w sid).tr c.tr).rs = (w.tr c.tr).rs := by simp [candCleanup, hc, hct]
  unfold doUpgrade
  generalize candCleanup w sid = wa at *
  try dsimp only
  have lc : Link ((wa.setTr (wa.sock sid).tr fun t => { t with discarded := true }).setSock sid fun s => { s with upgraded := true }) := by
    lk_frame
  have hc_sz : sid < ((wa.setTr (wa.sock sid).tr fun t => { t with discarded := true }).setSock sid fun s => { s with upgraded := true }).socks.size := by
    simp [ha_sz, hsz]
  have hc_rs : ((((wa.setTr (wa.sock sid).tr fun t => { t with discarded := true }).setSock sid fun s => { s with upgraded := true }).sock sid).rs) ≠ .closed := by
    simp [ha_sz, hsz, ha_rs, hnc]
  have hc_new : c.tr < ((wa.setTr (wa.sock sid).tr fun t => { t with discarded := true }).setSock sid fun s => { s with upgraded := true }).trs.size := by
    simp [ha_tsz, hct]
  have hc_role : ((((wa.setTr (wa.sock sid).tr fun t => { t with discarded := true }).setSock sid fun s => { s with upgraded := true }).tr c.tr).role) = .none := by
    rw [tr_setSock]; refine (tr_setTr_role _ _ _ _ ?_).trans ha_role; intro _; rfl
  have hc_crs : ((((wa.setTr (wa.sock sid).tr fun t => { t with discarded := true }).setSock sid fun s => { s with upgraded := true }).tr c.tr).rs) ≠ .closed := by
    rw [tr_setSock, tr_setTr]; split <;> (simp only [ha_crs]; exact hcc)
  generalize ((wa.setTr (wa.sock sid).tr fun t => { t with discarded := true }).setSock sid fun s => { s with upgraded := true }) = wc at *
  have hrA : ((wc.setTr (wc.sock sid).tr fun t => { t with role := .none, silenced := true }).tr (wc.sock sid).tr).role = .none :=
    tr_setTr_role_none _ _ _ (fun _ => rfl)
  have lf := link_switch_apply wc _ sid c.tr lc hc_sz hc_rs hc_new hc_role hc_crs
    (to_trCloseF_detached 11 (wc.sock sid).tr (TrOnly.refl _) hrA)
    (tt_trCloseF_detached 11 (wc.sock sid).tr (TrTouch.refl _ _) hrA)
  have e : clearTransport wc sid = (trCloseF 11 (wc.setTr (wc.sock sid).tr fun t => { t with role := .none, silenced := true }) (wc.sock sid).tr none).setSock sid
      fun s => { s with pingTimeoutDue := none } := by
    unfold clearTransport; rw [show closeFuel = 11 + 1 from rfl, clearTransportF]
  rw [e]
  have l2 := lk_flush sid (lk_sev sid .upgrade lf)
  split
  · exact trClose_link _ _ _ l2
  · exact l2

end EIO.Ses
