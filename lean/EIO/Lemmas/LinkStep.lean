import EIO.Lemmas.LinkOps
/-
The linkage through packets, writer tasks, handshakes, requests, frames, timers and
every operation: `step_link`.
-/
namespace EIO.Ses
open EIO EIO.Codec

macro "lk_auto" : tactic => `(tactic| repeat (first
  | with_reducible assumption
  | with_reducible apply lk_ev | with_reducible apply lk_sev | with_reducible apply lk_answer
  | with_reducible apply lk_trSend | with_reducible apply lk_setConn | with_reducible apply lk_setReq
  | with_reducible apply lk_abortData
  | with_reducible apply lk_flush | with_reducible apply lk_sendPacket | with_reducible apply lk_rejectReq
  | with_reducible apply lk_emitHeaders
  | with_reducible apply lk_trEmitDrain | with_reducible apply lk_trEmitReady | with_reducible apply lk_sockOnDrain
  | with_reducible apply lk_closeTransport
  | with_reducible apply trOnError_link | with_reducible apply trOnCloseBase_link | with_reducible apply pollOnClose_link
  | with_reducible apply runCloseFn_link
  | with_reducible apply wsCloseNow_link | with_reducible apply trClose_link | with_reducible apply link_candCleanup
  | (with_reducible refine lk_sockOnClose _ _ _ ?_ (by decide))
  | (with_reducible refine lk_setSock _ _ ?_ ?_; (intro s; exact ⟨Iff.rfl, rfl, rfl, rfl⟩))
  | (with_reducible refine link_setTr _ _ ?_ ?_ ?_; (intro t; rfl); (intro t h; exact h))))

/-! ### packets -/

theorem lk_candOnPacket {w : World} (sid : Nat) (p : Pkt) (l : Link w) : Link (candOnPacket w sid p) := by
  unfold candOnPacket
  split
  · exact l
  · rename_i c hc
    split
    · try dsimp only
      refine lk_setCandTimers sid c _ ?_ rfl ?_
      · rw [sock_sev, sock_trSend, hc]
      · lk_auto
    · split
      · rename_i hu
        exact lk_doUpgrade sid c hc hu.2 l
      · lk_auto

theorem lk_sockOnPacket {w : World} (sid : Nat) (p : Pkt) (l : Link w) : Link (sockOnPacket w sid p) := by
  unfold sockOnPacket
  try dsimp only
  split
  · exact l
  · split
    · split
      · lk_auto
      · lk_auto
    · split
      · lk_auto
      · lk_auto
    · lk_auto
    · lk_auto
    · lk_auto

theorem lk_trEmitPacket {w : World} (ti : Nat) (p : Pkt) (l : Link w) : Link (trEmitPacket w ti p) := by
  unfold trEmitPacket
  split
  · exact lk_sockOnPacket _ _ l
  · exact lk_candOnPacket _ _ l
  · exact l

/-! ### the writer tasks -/

theorem lk_runPollSend {w : World} (ti : Nat) (batch : List Pkt) (l : Link w) : Link (runPollSend w ti batch) := by
  unfold runPollSend
  try dsimp only
  have l1 : Link (if (w.tr ti).shouldClose = true then
      pollOnClose (runCloseFn (w.setTr ti fun t => { t with shouldClose := false, closeTimerDue := none }) ti) ti else w) := by
    split
    · lk_auto
    · exact l
  generalize (if (w.tr ti).shouldClose = true then
      pollOnClose (runCloseFn (w.setTr ti fun t => { t with shouldClose := false, closeTimerDue := none }) ti) ti else w) = w1 at l1 ⊢
  split
  · lk_auto
  · lk_auto

theorem lk_wsSendLoop {w : World} (ti : Nat) (batch : List Pkt) (l : Link w) : Link (wsSendLoop ti batch w) := by
  induction batch generalizing w with
  | nil => exact l
  | cons p rest ih =>
    rw [wsSendLoop]
    try dsimp only
    split
    · apply ih; unfold wsPut; lk_auto
    · apply ih; lk_auto

theorem lk_runWsSend {w : World} (ti : Nat) (batch : List Pkt) (l : Link w) : Link (runWsSend w ti batch) := by
  unfold runWsSend
  try dsimp only
  have := lk_wsSendLoop ti batch l
  lk_auto

theorem lk_runTask {w : World} (t : Task) (l : Link w) : Link (runTask w t) := by
  cases t with
  | pollSend ti b => exact lk_runPollSend ti b l
  | wsSend ti b => exact lk_runWsSend ti b l

theorem lk_settle {w : World} (f : Nat) (l : Link w) : Link (settle f w) := by
  induction f generalizing w with
  | zero => exact l
  | succ f ih =>
    rw [settle]
    split
    · exact l
    · exact ih (lk_runTask _ (lk_fields _ l))

/-! ### new sessions -/

/-- a new transport without listeners -/
theorem link_pushTr' {w w' : World} (t : Tr) (hsocks : w'.socks = w.socks) (htrs : w'.trs = w.trs.push t)
    (hr : t.role = .none) (l : Link w) : Link w' := by
  have hsk : ∀ j, w'.sock j = w.sock j := fun j => by unfold World.sock; rw [hsocks]
  have htr : ∀ j, w'.tr j = if j = w.trs.size then t else w.tr j := fun j => by
    unfold World.tr
    rw [htrs]
    simp only [Array.getD_eq_getD_getElem?, Array.getElem?_push]
    by_cases h : j = w.trs.size
    · simp [h]
    · simp [h]
  have hold : ∀ j, (w.tr j).role ≠ .none → w'.tr j = w.tr j := fun j h => by
    rw [htr, if_neg]; intro e; exact Nat.lt_irrefl _ (e ▸ role_in_table w j h)
  refine ⟨?_, ?_, ?_, ?_, ?_, ?_⟩
  · intro sid hsz hnc
    rw [hsk] at hnc ⊢
    obtain ⟨a, b⟩ := l.l1 sid (by rw [← hsocks]; exact hsz) hnc
    refine ⟨?_, ?_⟩
    · rw [htrs, Array.size_push]; exact Nat.lt_succ_of_lt a
    · rw [hold _ (by rw [b]; simp)]; exact b
  · intro ti hc
    rw [htr] at hc ⊢
    split
    · exact Or.inl hr
    · rename_i h; rw [if_neg h] at hc; exact l.l2 ti hc
  · intro ti sid h
    rw [htr] at h
    rw [hsk, hsocks]
    split at h
    · rw [hr] at h; cases h
    · exact l.l3 ti sid h
  · intro ti sid h
    rw [htr] at h
    rw [hsk]
    split at h
    · rw [hr] at h; cases h
    · exact l.l4 ti sid h
  · intro sid c h
    rw [hsk] at h
    have := l.l5 sid c h
    rw [hold _ (by rw [this]; simp)]; exact this
  · intro sid h
    rw [hsk] at h ⊢
    exact l.l6 sid h

theorem link_pushTr {w : World} (t : Tr) (hr : t.role = .none) (l : Link w) :
    Link ({ w with trs := w.trs.push t } : World) := link_pushTr' (w := w) t rfl rfl hr l

/-- a new session on a transport that has no listeners yet -/
theorem link_openCore' {w w1 : World} (ti proto : Nat) (l : Link w) (hti : ti < w.trs.size)
    (hr : (w.tr ti).role = .none) (hc : (w.tr ti).rs ≠ .closed)
    (hsocks : w1.socks = w.socks.push { proto, tr := ti }) (htrs : w1.trs = w.trs) :
    Link ((w1.setTr ti fun t => { t with role := .current w.socks.size, owner := w.socks.size }).setSock w.socks.size
      fun s => { s with rs := .open_ }) := by
  have h1t : ∀ j, w1.tr j = w.tr j := fun j => by unfold World.tr; rw [htrs]
  have h1s : ∀ j, w1.sock j = if j = w.socks.size then { proto, tr := ti } else w.sock j := fun j => by
    unfold World.sock
    rw [hsocks]
    simp only [Array.getD_eq_getD_getElem?, Array.getElem?_push]
    by_cases h : j = w.socks.size
    · simp [h]
    · simp [h]
  have h1sz : w1.socks.size = w.socks.size + 1 := by rw [hsocks, Array.size_push]
  have hs : ∀ j, ((w1.setTr ti fun t => { t with role := .current w.socks.size, owner := w.socks.size }).setSock w.socks.size
      fun s => { s with rs := .open_ }).sock j =
      if j = w.socks.size then { proto, tr := ti, rs := .open_ } else w.sock j := fun j => by
    rw [sock_setSock, sock_setTr, h1s]
    by_cases h : j = w.socks.size
    · subst h; simp [h1sz]
    · simp [h, Ne.symm h]
  have ht : ∀ j, ((w1.setTr ti fun t => { t with role := .current w.socks.size, owner := w.socks.size }).setSock w.socks.size
      fun s => { s with rs := .open_ }).tr j =
      if ti = j then { (w.tr j) with role := .current w.socks.size, owner := w.socks.size } else w.tr j := fun j => by
    rw [tr_setSock, tr_setTr, h1t]
    by_cases h : ti = j
    · subst h
      have : ti < w1.trs.size := by rw [htrs]; exact hti
      simp [this]
    · simp [h]
  have hsize : ((w1.setTr ti fun t => { t with role := .current w.socks.size, owner := w.socks.size }).setSock w.socks.size
      fun s => { s with rs := .open_ }).socks.size = w.socks.size + 1 := by simp [h1sz]
  have htsize : ((w1.setTr ti fun t => { t with role := .current w.socks.size, owner := w.socks.size }).setSock w.socks.size
      fun s => { s with rs := .open_ }).trs.size = w.trs.size := by simp [htrs]
  generalize ((w1.setTr ti fun t => { t with role := .current w.socks.size, owner := w.socks.size }).setSock w.socks.size
      fun s => { s with rs := .open_ }) = w' at *
  have hrole : ∀ j, j ≠ ti → (w'.tr j).role = (w.tr j).role := fun j h => by rw [ht, if_neg (Ne.symm h)]
  have hrs : ∀ j, (w'.tr j).rs = (w.tr j).rs := fun j => by rw [ht]; split <;> rfl
  have hlive : ∀ j, (w.tr j).role ≠ .none → j ≠ ti := fun j h e => h (e ▸ hr)
  refine ⟨?_, ?_, ?_, ?_, ?_, ?_⟩
  · intro j hj hnc
    rw [hs] at hnc ⊢
    by_cases e : j = w.socks.size
    · simp only [e, if_true]
      refine ⟨by rw [htsize]; exact hti, ?_⟩
      rw [ht, if_pos rfl]
    · simp only [e, if_false] at hnc ⊢
      obtain ⟨a, b⟩ := l.l1 j (by rw [hsize] at hj; omega) hnc
      refine ⟨by rw [htsize]; exact a, ?_⟩
      rw [hrole _ (hlive _ (by rw [b]; simp))]; exact b
  · intro t h
    rw [hrs] at h
    have hne : t ≠ ti := fun e => hc (e ▸ h)
    rw [hrole t hne]
    exact l.l2 t h
  · intro t j h
    by_cases e : t = ti
    · subst e
      rw [ht, if_pos rfl] at h
      have : j = w.socks.size := by simpa using h.symm
      subst this
      rw [hs, if_pos rfl]
      exact ⟨rfl, by rw [hsize]; exact Nat.lt_succ_self _, by simp⟩
    · rw [hrole t e] at h
      obtain ⟨a, b, c⟩ := l.l3 t j h
      rw [hs, if_neg (Nat.ne_of_lt b)]
      exact ⟨a, by rw [hsize]; exact Nat.lt_succ_of_lt b, c⟩
  · intro t j h
    by_cases e : t = ti
    · subst e
      rw [ht, if_pos rfl] at h; cases h
    · rw [hrole t e] at h
      obtain ⟨c, hc1, hc2⟩ := l.l4 t j h
      have := sock_exists_of_cand w j c hc1
      rw [hs, if_neg (Nat.ne_of_lt this)]
      exact ⟨c, hc1, hc2⟩
  · intro j c h
    rw [hs] at h
    by_cases e : j = w.socks.size
    · simp [e] at h
    · simp only [e, if_false] at h
      have := l.l5 j c h
      rw [hrole _ (hlive _ (by rw [this]; simp))]; exact this
  · intro j h
    rw [hs] at h ⊢
    by_cases e : j = w.socks.size
    · simp [e] at h
    · simp only [e, if_false] at h ⊢
      exact l.l6 j h

theorem link_openCore {w : World} (ti proto : Nat) (l : Link w) (hti : ti < w.trs.size)
    (hr : (w.tr ti).role = .none) (hc : (w.tr ti).rs ≠ .closed) :
    Link ((({ w with socks := w.socks.push { proto, tr := ti } } : World).setTr ti
        fun t => { t with role := .current w.socks.size, owner := w.socks.size }).setSock w.socks.size fun s => { s with rs := .open_ }) :=
  link_openCore' ti proto l hti hr hc rfl rfl

theorem lk_openPackets {w : World} (sid : Nat) (n : String) (l : Link w) : Link (openPackets w sid n) := by
  unfold openPackets
  try dsimp only
  split <;> lk_auto

theorem lk_registry {w : World} (r : List Nat) (l : Link w) : Link ({ w with registry := r } : World) := lk_fields _ l
theorem lk_tasks {w : World} (r : List Task) (l : Link w) : Link ({ w with tasks := r } : World) := lk_fields _ l
theorem lk_pushReq {w : World} (q : Req) (l : Link w) : Link ({ w with reqs := w.reqs.push q } : World) := lk_fields _ l
theorem lk_pushConn {w : World} (c : Conn) (l : Link w) : Link ({ w with conns := w.conns.push c } : World) := lk_fields _ l
theorem lk_now {w : World} (n : Nat) (l : Link w) : Link ({ w with now := n } : World) := lk_fields _ l
theorem lk_cbSeq {w : World} (n : Nat) (l : Link w) : Link ({ w with cbSeq := n } : World) := lk_fields _ l
theorem lk_fault {w : World} (n : Option String) (l : Link w) : Link ({ w with fault := n } : World) := lk_fields _ l
theorem lk_evs {w : World} (n : List String) (l : Link w) : Link ({ w with evs := n } : World) := lk_fields _ l

theorem lk_openAnnounce {w : World} (sid : Nat) (n : String) (proto : Nat) (l : Link w) : Link (openAnnounce w sid n proto) := by
  unfold openAnnounce
  try dsimp only
  apply lk_sev
  refine lk_setSock _ _ (fun s => ⟨Iff.rfl, rfl, rfl, rfl⟩) ?_
  refine lk_registry _ ?_
  refine lk_setSock _ _ (fun s => ?_) l
  split <;> exact ⟨Iff.rfl, rfl, rfl, rfl⟩

theorem lk_openSession {w : World} (ti proto : Nat) (l : Link w) (hti : ti < w.trs.size)
    (hr : (w.tr ti).role = .none) (hc : (w.tr ti).rs ≠ .closed) : Link (openSession w ti proto) := by
  unfold openSession
  try dsimp only
  exact lk_openAnnounce _ _ _ (lk_openPackets _ _ (link_openCore ti proto l hti hr hc))

theorem lk_onPollRequest {w : World} (ti r : Nat) (l : Link w) : Link (onPollRequest w ti r) := by
  unfold onPollRequest
  try dsimp only
  split
  · lk_auto
  · split <;> lk_auto

/-- the first poll of a handshake: the transport has no listeners yet -/
theorem onPollRequest_detached (w : World) (ti r : Nat) (hr : (w.tr ti).role = .none) (hq : (w.tr ti).req = none) :
    ((onPollRequest w ti r).tr ti).role = .none ∧ ((onPollRequest w ti r).tr ti).rs = (w.tr ti).rs ∧
    (onPollRequest w ti r).trs.size = w.trs.size := by
  unfold onPollRequest
  simp only [hq, Option.isSome_none, Bool.false_eq_true, if_false]
  have hr1 : ((((w.setTr ti fun t => { t with req := some r, writable := true }).setReq r fun q => { q with pollOf := some ti }).tr ti).role) = .none := by
    rw [tr_setReq]; refine (tr_setTr_role _ _ _ _ ?_).trans hr; intro _; rfl
  have hrs1 : ((((w.setTr ti fun t => { t with req := some r, writable := true }).setReq r fun q => { q with pollOf := some ti }).tr ti).rs) = (w.tr ti).rs := by
    rw [tr_setReq, tr_setTr]; split <;> rfl
  have hsz1 : (((w.setTr ti fun t => { t with req := some r, writable := true }).setReq r fun q => { q with pollOf := some ti }).trs.size) = w.trs.size := by
    simp
  generalize ((w.setTr ti fun t => { t with req := some r, writable := true }).setReq r fun q => { q with pollOf := some ti }) = w1 at *
  have e : trEmitReady w1 ti = w1 := by unfold trEmitReady; rw [hr1]
  rw [e]
  split
  · refine ⟨by simp [hr1], ?_, ?_⟩
    · unfold trSend
      show ((w1.setTr ti _).tr ti).rs = _
      rw [tr_setTr]; split <;> exact hrs1
    · unfold trSend
      show (w1.setTr ti _).trs.size = _
      simp [hsz1]
  · exact ⟨hr1, hrs1, hsz1⟩

theorem tr_pushed (w w' : World) (t : Tr) (htrs : w'.trs = w.trs.push t) : w'.tr w.trs.size = t := by
  unfold World.tr; rw [htrs]; simp

theorem lk_hsPolling {w : World} (proto : Nat) (b64 : Bool) (j : Option Bytes) (l : Link w) : Link (hsPolling w proto b64 j) := by
  unfold hsPolling
  try dsimp only
  split
  · exact lk_rejectReq _ _ _ (lk_pushReq _ l)
  · split
    · exact lk_rejectReq _ _ _ (lk_pushReq _ l)
    · have l1 : Link ({ ({ w with reqs := w.reqs.push { hasSid := false } } : World) with
          trs := w.trs.push { isPolling := true, proto, b64, jsonp := j.map jsonpDigits } } : World) :=
        link_pushTr' (w := ({ w with reqs := w.reqs.push { hasSid := false } } : World)) _ rfl rfl rfl (lk_pushReq _ l)
      have ht := tr_pushed w ({ ({ w with reqs := w.reqs.push { hasSid := false } } : World) with
          trs := w.trs.push { isPolling := true, proto, b64, jsonp := j.map jsonpDigits } } : World) _ rfl
      have hsz : ({ ({ w with reqs := w.reqs.push { hasSid := false } } : World) with
          trs := w.trs.push { isPolling := true, proto, b64, jsonp := j.map jsonpDigits } } : World).trs.size = w.trs.size + 1 := by
        show (w.trs.push _).size = _; simp
      generalize ({ ({ w with reqs := w.reqs.push { hasSid := false } } : World) with
          trs := w.trs.push { isPolling := true, proto, b64, jsonp := j.map jsonpDigits } } : World) = w1 at *
      obtain ⟨a, b, c⟩ := onPollRequest_detached w1 w.trs.size w.reqs.size (by rw [ht]) (by rw [ht])
      refine lk_openSession _ _ (lk_onPollRequest _ _ l1) (by rw [c, hsz]; exact Nat.lt_succ_self _) a ?_
      rw [b, ht]; simp

theorem lk_hsWebsocket {w : World} (proto : Nat) (b64 : Bool) (l : Link w) : Link (hsWebsocket w proto b64) := by
  unfold hsWebsocket
  try dsimp only
  split
  · exact lk_setConn _ _ (lk_pushConn _ l)
  · split
    · exact lk_setConn _ _ (lk_ev _ (lk_pushConn _ l))
    · have l1 : Link ({ ({ w with conns := w.conns.push {} } : World) with
          trs := w.trs.push { isPolling := false, proto, b64, conn := w.conns.size, writable := true } } : World) :=
        link_pushTr' (w := ({ w with conns := w.conns.push {} } : World)) _ rfl rfl rfl (lk_pushConn _ l)
      have ht := tr_pushed w ({ ({ w with conns := w.conns.push {} } : World) with
          trs := w.trs.push { isPolling := false, proto, b64, conn := w.conns.size, writable := true } } : World) _ rfl
      have hsz : ({ ({ w with conns := w.conns.push {} } : World) with
          trs := w.trs.push { isPolling := false, proto, b64, conn := w.conns.size, writable := true } } : World).trs.size = w.trs.size + 1 := by
        show (w.trs.push _).size = _; simp
      generalize ({ ({ w with conns := w.conns.push {} } : World) with
          trs := w.trs.push { isPolling := false, proto, b64, conn := w.conns.size, writable := true } } : World) = w1 at *
      refine lk_openSession _ _ l1 (by rw [hsz]; exact Nat.lt_succ_self _) (by rw [ht]) ?_
      rw [ht]; simp

theorem lk_hsWt {w : World} (l : Link w) : Link (hsWt w) := by
  unfold hsWt
  try dsimp only
  have l1 : Link ({ ({ w with conns := w.conns.push { wt := true } } : World) with
      trs := w.trs.push { isPolling := false, wt := true, proto := 4, b64 := false, conn := w.conns.size, writable := true } } : World) :=
    link_pushTr' (w := ({ w with conns := w.conns.push { wt := true } } : World)) _ rfl rfl rfl (lk_pushConn _ l)
  have ht := tr_pushed w ({ ({ w with conns := w.conns.push { wt := true } } : World) with
      trs := w.trs.push { isPolling := false, wt := true, proto := 4, b64 := false, conn := w.conns.size, writable := true } } : World) _ rfl
  have hsz : ({ ({ w with conns := w.conns.push { wt := true } } : World) with
      trs := w.trs.push { isPolling := false, wt := true, proto := 4, b64 := false, conn := w.conns.size, writable := true } } : World).trs.size = w.trs.size + 1 := by
    show (w.trs.push _).size = _; simp
  generalize ({ ({ w with conns := w.conns.push { wt := true } } : World) with
      trs := w.trs.push { isPolling := false, wt := true, proto := 4, b64 := false, conn := w.conns.size, writable := true } } : World) = w1 at *
  refine lk_openSession _ _ l1 (by rw [hsz]; exact Nat.lt_succ_self _) (by rw [ht]) ?_
  rw [ht]; simp

/-! ### requests of a session -/

theorem lk_pollReq {w : World} (sid : Nat) (ae : Bytes) (l : Link w) : Link (pollReq w sid ae) := by
  unfold pollReq
  try dsimp only
  split
  · exact lk_rejectReq _ _ _ (lk_pushReq _ l)
  · split
    · exact lk_rejectReq _ _ _ (lk_pushReq _ l)
    · exact lk_onPollRequest _ _ (lk_pushReq _ l)

theorem lk_pollDeliver {w : World} (ti : Nat) (pkts : List Pkt) (l : Link w) : Link (pollDeliver ti pkts w) := by
  induction pkts generalizing w with
  | nil => simpa [pollDeliver] using l
  | cons p rest ih =>
    rw [pollDeliver]
    split
    · exact pollOnClose_link _ _ l
    · exact ih (lk_trEmitPacket _ _ l)

theorem lk_pollOnData {w : World} (ti : Nat) (body : Bytes) (binary : Bool) (l : Link w) : Link (pollOnData w ti body binary).1 := by
  unfold pollOnData
  split
  · exact lk_pollDeliver _ _ l
  · exact l
  · exact lk_fault _ l

theorem lk_postReq {w : World} (sid : Nat) (binary declared : Bool) (body : Bytes) (vj : Bool) (l : Link w) :
    Link (postReq w sid binary declared body vj) := by
  unfold postReq; try dsimp only
  repeat (first
    | with_reducible assumption
    | with_reducible apply lk_rejectReq | with_reducible apply lk_emitHeaders | with_reducible apply lk_pollOnData
    | with_reducible apply lk_answer | with_reducible apply trOnError_link | with_reducible apply lk_pushReq
    | with_reducible apply lk_setReq
    | (with_reducible refine link_setTr _ _ ?_ ?_ ?_; (intro t; rfl); (intro t h; exact h))
    | dsimp only
    | split)

theorem lk_abortReq {w : World} (r : Nat) (l : Link w) : Link (abortReq w r) := by
  unfold abortReq
  try dsimp only
  split
  · exact l
  · split
    · split <;> lk_auto
    · lk_auto

/-! ### upgrade candidates -/

/-- a new transport becomes the candidate of a session that has none -/
theorem link_candCore {w w1 : World} (sid : Nat) (t : Tr) (c0 : Cand) (l : Link w) (hsz : sid < w.socks.size)
    (hup : (w.sock sid).upgrading = false)
    (hsocks : w1.socks = w.socks) (htrs : w1.trs = w.trs.push t)
    (hr : t.role = .candidate sid) (hc : t.rs ≠ .closed) (hc0 : c0.tr = w.trs.size) :
    Link (w1.setSock sid fun s => { s with upgrading := true, cand := some c0 }) := by
  have hcn : (w.sock sid).cand = none := by
    cases h : (w.sock sid).cand with
    | none => rfl
    | some c => have := l.l6 sid (by rw [h]; rfl); rw [hup] at this; cases this
  have h1s : ∀ j, w1.sock j = w.sock j := fun j => by unfold World.sock; rw [hsocks]
  have hs : ∀ j, (w1.setSock sid fun s => { s with upgrading := true, cand := some c0 }).sock j =
      if sid = j then { (w.sock j) with upgrading := true, cand := some c0 } else w.sock j := fun j => by
    rw [sock_setSock, h1s]
    by_cases h : sid = j
    · subst h; simp [hsocks, hsz]
    · simp [h]
  have ht : ∀ j, (w1.setSock sid fun s => { s with upgrading := true, cand := some c0 }).tr j =
      if j = w.trs.size then t else w.tr j := fun j => by
    rw [tr_setSock]
    unfold World.tr
    rw [htrs]
    simp only [Array.getD_eq_getD_getElem?, Array.getElem?_push]
    by_cases h : j = w.trs.size
    · simp [h]
    · simp [h]
  have hsize : (w1.setSock sid fun s => { s with upgrading := true, cand := some c0 }).socks.size = w.socks.size := by
    simp [hsocks]
  have htsize : (w1.setSock sid fun s => { s with upgrading := true, cand := some c0 }).trs.size = w.trs.size + 1 := by
    simp [htrs]
  generalize (w1.setSock sid fun s => { s with upgrading := true, cand := some c0 }) = w' at *
  have hold : ∀ j, j < w.trs.size → w'.tr j = w.tr j := fun j h => by rw [ht, if_neg (Nat.ne_of_lt h)]
  have hlive : ∀ j, (w.tr j).role ≠ .none → w'.tr j = w.tr j := fun j h => hold j (role_in_table w j h)
  refine ⟨?_, ?_, ?_, ?_, ?_, ?_⟩
  · intro j hj hnc
    have hnc' : (w.sock j).rs ≠ .closed := by rw [hs] at hnc; split at hnc <;> exact hnc
    obtain ⟨a, b⟩ := l.l1 j (by rw [← hsize]; exact hj) hnc'
    have e : (w'.sock j).tr = (w.sock j).tr := by rw [hs]; split <;> rfl
    rw [e]
    exact ⟨by rw [htsize]; exact Nat.lt_succ_of_lt a, by rw [hold _ a]; exact b⟩
  · intro t' h
    rw [ht] at h ⊢
    split
    · rename_i e; rw [if_pos e] at h; exact absurd h hc
    · rename_i e; rw [if_neg e] at h; exact l.l2 t' h
  · intro t' j h
    rw [ht] at h
    split at h
    · rw [hr] at h; cases h
    · obtain ⟨a, b, c⟩ := l.l3 t' j h
      rw [hs, hsize]
      split <;> exact ⟨a, b, c⟩
  · intro t' j h
    rw [ht] at h
    split at h
    · rename_i e
      rw [hr] at h
      have : sid = j := by simpa using h
      subst this
      exact ⟨c0, by rw [hs, if_pos rfl], by rw [hc0, e]⟩
    · obtain ⟨c, hc1, hc2⟩ := l.l4 t' j h
      have : sid ≠ j := by intro e; subst e; rw [hcn] at hc1; cases hc1
      exact ⟨c, by rw [hs, if_neg this]; exact hc1, hc2⟩
  · intro j c h
    rw [hs] at h
    split at h
    · rename_i e; subst e
      have : c = c0 := by simpa using h.symm
      subst this
      rw [hc0, ht, if_pos rfl]; exact hr
    · have := l.l5 j c h
      rw [hlive _ (by rw [this]; simp)]; exact this
  · intro j h
    rw [hs] at h ⊢
    split
    · rfl
    · rename_i e; rw [if_neg e] at h; exact l.l6 j h

theorem lookup_reg (w : World) (sid : Nat) (s : Sock) (h : lookup w sid = some s) : s = w.sock sid ∧ sid ∈ w.registry := by
  unfold lookup at h
  split at h
  · rename_i hc
    cases h
    exact ⟨rfl, by simpa using hc⟩
  · cases h

theorem lk_wsCandidate {w : World} (sid proto : Nat) (b64 : Bool) (hreg : ∀ s ∈ w.registry, s < w.socks.size)
    (l : Link w) : Link (wsCandidate w sid proto b64) := by
  unfold wsCandidate
  try dsimp only
  have l0 := lk_pushConn {} l
  split
  · lk_auto
  · split
    · lk_auto
    · split
      · lk_auto
      · rename_i s0 hl hg
        obtain ⟨hs0, hin⟩ := lookup_reg _ _ _ hl
        have hsz : sid < w.socks.size := hreg sid hin
        have hup : (w.sock sid).upgrading = false := by
          cases hu : (w.sock sid).upgrading with
          | false => rfl
          | true => exact absurd (Or.inl (by rw [hs0]; exact hu)) hg
        exact link_candCore (w := ({ w with conns := w.conns.push {} } : World)) sid _ _ l0 hsz hup rfl rfl rfl (by simp) rfl

theorem lk_wtCandidate {w : World} (sid : Nat) (hreg : ∀ s ∈ w.registry, s < w.socks.size)
    (l : Link w) : Link (wtCandidate w sid) := by
  unfold wtCandidate
  try dsimp only
  have l0 := lk_pushConn { wt := true } l
  split
  · lk_auto
  · split
    · lk_auto
    · rename_i s0 hl hg
      obtain ⟨hs0, hin⟩ := lookup_reg _ _ _ hl
      have hsz : sid < w.socks.size := hreg sid hin
      have hup : (w.sock sid).upgrading = false := by
        cases hu : (w.sock sid).upgrading with
        | false => rfl
        | true => exact absurd (Or.inl (by rw [hs0]; exact hu)) hg
      exact link_candCore (w := ({ w with conns := w.conns.push { wt := true } } : World)) sid _ _ l0 hsz hup rfl rfl rfl (by simp) rfl

/-! ### frames -/

theorem lk_wsFrame {w : World} (c : Nat) (m : Msg) (l : Link w) : Link (wsFrame w c m).1 := by
  unfold wsFrame
  try dsimp only
  split
  · exact l
  · split
    · exact l
    · split
      · dsimp only; lk_auto
      · dsimp only
        split <;> exact lk_trEmitPacket _ _ l

theorem lk_wsDrop {w : World} (c : Nat) (l : Link w) : Link (wsDrop w c) := by
  unfold wsDrop
  try dsimp only
  split
  · lk_auto
  · split <;> (try split) <;> lk_auto

/-! ### the application, timers, operations -/

/-- an update of one session, judged at that session only -/
theorem lk_setSockAt {x : Option Nat} {w : World} (sid : Nat) (f : Sock → Sock)
    (hf : ((f (w.sock sid)).rs = .closed ↔ (w.sock sid).rs = .closed) ∧ (f (w.sock sid)).upgrading = (w.sock sid).upgrading ∧
      (f (w.sock sid)).tr = (w.sock sid).tr ∧ (f (w.sock sid)).cand = (w.sock sid).cand)
    (l : LinkX x w) : LinkX x (w.setSock sid f) := by
  have t : TrOnly w (w.setSock sid f) := by
    refine ⟨by simp, fun j => ?_, fun j => ?_, fun j => ?_, fun j => ?_, rfl, fun _ => rfl, fun _ h => Or.inl h⟩ <;>
      (rw [sock_setSock]; split)
    · rename_i e; obtain ⟨e, _⟩ := e; subst e; exact hf.1
    · exact Iff.rfl
    · rename_i e; obtain ⟨e, _⟩ := e; subst e; exact hf.2.1
    · rfl
    · rename_i e; obtain ⟨e, _⟩ := e; subst e; exact hf.2.2.1
    · rfl
    · rename_i e; obtain ⟨e, _⟩ := e; subst e; exact hf.2.2.2
    · rfl
  exact t.link l

theorem lk_appClose {w : World} (sid : Nat) (discard : Bool) (l : Link w) : Link (appClose w sid discard) := by
  unfold appClose
  try dsimp only
  split
  · exact lk_closeTransport _ _ l
  · split
    · exact l
    · rename_i ho
      have ho : (w.sock sid).rs = .open_ := Decidable.not_not.mp ho
      have l1 : Link (w.setSock sid fun s => { s with rs := .closing }) :=
        lk_setSockAt sid _ ⟨by rw [ho]; constructor <;> (intro h; cases h), rfl, rfl, rfl⟩ l
      split
      · lk_auto
      · exact lk_closeTransport _ _ l1

theorem lk_shutdownFold {w : World} (reg : List Nat) (l : Link w) : Link (reg.foldl (fun w sid => appClose w sid true) w) := by
  induction reg generalizing w with
  | nil => exact l
  | cons sid rest ih => simp only [List.foldl_cons]; exact ih (lk_appClose _ _ l)

theorem lk_shutdown {w : World} (l : Link w) : Link (shutdown w) := lk_shutdownFold _ l

theorem lk_appSend {w : World} (sid : Nat) (m : Msg) (compress wantCb : Bool) (pre : Option Msg) (l : Link w) :
    Link (appSend w sid m compress wantCb pre) := by
  unfold appSend
  try dsimp only
  apply lk_sendPacket
  split
  · exact lk_cbSeq _ l
  · exact l

theorem lk_fireTimer {w : World} (id : TimerId) (l : Link w) : Link (fireTimer w id) := by
  cases id with
  | pingInterval sid => simp only [fireTimer]; lk_auto
  | pingTimeout sid =>
    simp only [fireTimer]
    split <;> lk_auto
  | closeTimer ti =>
    simp only [fireTimer]
    split <;> lk_auto
  | upgradeTimeout sid =>
    simp only [fireTimer]
    split
    · split <;> lk_auto
    · exact l
  | check sid =>
    simp only [fireTimer]
    split
    · rename_i c hc
      have l1 := lk_setCandTimers sid c { c with checkDue := some (w.now + checkPeriod) } hc rfl l
      split
      · exact lk_trSend _ _ l1
      · exact l1
    · exact l

theorem lk_advance {w : World} (f target : Nat) (l : Link w) : Link (advance f w target) := by
  induction f generalizing w with
  | zero => simp only [advance]; exact lk_now _ l
  | succ f ih =>
    rw [advance]
    split
    · exact ih (lk_fireTimer _ (lk_now _ l))
    · exact lk_now _ l

theorem lk_foldSetReq {w : World} (is : List Nat) (g : World → Nat → World)
    (hg : ∀ w i, Link w → Link (g w i)) (l : Link w) : Link (is.foldl g w) := by
  induction is generalizing w with
  | nil => exact l
  | cons i rest ih => simp only [List.foldl_cons]; exact ih (hg _ _ l)

theorem lk_observe {w : World} (l : Link w) : Link (observe w) := by
  unfold observe
  try dsimp only
  apply lk_foldSetReq
  · intro w i l; exact lk_setConn _ _ l
  · apply lk_foldSetReq
    · intro w i l
      split
      · exact lk_setReq _ _ l
      · exact l
    · exact lk_evs _ l

/-- every operation keeps the linkage; the registry must name existing sessions (part of `Inv`) -/
theorem step_link (w : World) (op : Op) (hreg : ∀ s ∈ w.registry, s < w.socks.size) (l : Link w) : Link (step w op) := by
  unfold step
  split
  · exact l
  · cases op with
    | hsPolling p b j => exact lk_hsPolling _ _ _ l
    | hsWebsocket p b => exact lk_hsWebsocket _ _ l
    | poll sid ae => exact lk_pollReq _ _ l
    | post sid bin decl body vj => exact lk_postReq _ _ _ _ _ l
    | abort r => exact lk_abortReq _ l
    | wsCandidate sid p b => exact lk_wsCandidate _ _ _ hreg l
    | hsWt => exact lk_hsWt l
    | wtCandidate sid => exact lk_wtCandidate _ hreg l
    | frame c m =>
      dsimp only
      repeat (first | exact l | exact lk_wsFrame _ _ l | split)
    | drop c => exact lk_wsDrop _ l
    | closeFrame c code => exact lk_wsDrop _ (lk_setConn _ _ l)
    | send sid m c cb pre => exact lk_appSend _ _ _ _ _ l
    | close sid d => exact lk_appClose _ _ l
    | shutdown => exact lk_shutdown l
    | adv d => exact lk_advance _ _ l
    | settle => exact lk_settle _ l
    | observe => exact lk_observe l

theorem link_init (o : Opts) : Link (init o) := by
  have hs : ∀ j, (init o).sock j = default := fun j => sock_oob _ _ (Nat.zero_le _)
  have ht : ∀ j, (init o).tr j = default := fun j => tr_oob _ _ (Nat.zero_le _)
  refine ⟨?_, ?_, ?_, ?_, ?_, ?_⟩
  · intro sid h; exact absurd h (Nat.not_lt_zero _)
  · intro ti _; left; rw [ht]; rfl
  · intro ti sid h; rw [ht] at h; cases h
  · intro ti sid h; rw [ht] at h; cases h
  · intro sid c h; rw [hs] at h; cases h
  · intro sid h; rw [hs] at h; cases h

end EIO.Ses
