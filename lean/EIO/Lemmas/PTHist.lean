import EIO.Lemmas.PT
/-
`close ping_timeout` over whole histories: which operations can append it (only `adv`), and inside `adv` which timer
(only a deadline timer `pingTimeout sid` that was due, fired with the clock at or after its due instant).
-/
namespace EIO.Ses
open EIO EIO.Codec

/-- the step appended no `close ping_timeout` entry to the session log -/
def NPm (w w' : World) : Prop := ∃ added, w'.slog = w.slog ++ added ∧ ∀ e ∈ added, e.2.isPT = false

theorem NP.npm {w w' : World} (h : NP w w') : NPm w w' := h.log
theorem NPm.refl (w : World) : NPm w w := ⟨[], by simp, fun _ h => by cases h⟩
theorem NPm.trans {a b c : World} (h1 : NPm a b) (h2 : NPm b c) : NPm a c := by
  obtain ⟨x, hx, px⟩ := h1
  obtain ⟨y, hy, py⟩ := h2
  refine ⟨x ++ y, by rw [hy, hx, List.append_assoc], fun e he => ?_⟩
  rcases List.mem_append.mp he with h | h
  · exact px e h
  · exact py e h

/-- a new session: the open packet (and a configured initial packet) are *sent*, the session is announced;
    no session is closed -/
theorem npm_openSession (w : World) (ti proto : Nat) : NPm w (openSession w ti proto) := by
  unfold openSession
  try dsimp only
  generalize hcore : ((({ w with socks := w.socks.push { proto, tr := ti } } : World).setTr ti
      fun t => { t with role := .current w.socks.size, owner := w.socks.size }).setSock w.socks.size fun s => { s with rs := .open_ }) = wc
  have hlg : wc.slog = w.slog := by rw [← hcore]; rfl
  have c := np_openPackets w.socks.size (w.tr ti).name (NP.refl wc)
  obtain ⟨pre, hpre, hn⟩ := c.log
  generalize openPackets wc w.socks.size (w.tr ti).name = wp at hpre ⊢
  unfold openAnnounce
  try dsimp only
  refine ⟨pre ++ [(w.socks.size, ?e)], ?hl, ?hn⟩
  case hl =>
    rw [slog_sev]
    show wp.slog ++ _ = _
    rw [hpre, hlg, List.append_assoc]
  case hn =>
    intro e he
    rcases List.mem_append.mp he with h | h
    · exact hn e h
    · simp at h; subst h; rfl

theorem npm_hsPolling (w : World) (proto : Nat) (b64 : Bool) (j : Option Bytes) : NPm w (hsPolling w proto b64 j) := by
  unfold hsPolling
  try dsimp only
  split
  · exact (np_rejectReq _ _ _ (np_pushReq _ (NP.refl w))).npm
  · split
    · exact (np_rejectReq _ _ _ (np_pushReq _ (NP.refl w))).npm
    · refine NPm.trans ?_ (npm_openSession _ _ _)
      exact (np_onPollRequest _ _ (np_fields (w := ({ w with reqs := w.reqs.push { hasSid := false } } : World)) _ (np_pushReq _ (NP.refl w)))).npm

theorem npm_hsWebsocket (w : World) (proto : Nat) (b64 : Bool) : NPm w (hsWebsocket w proto b64) := by
  unfold hsWebsocket
  try dsimp only
  split
  · exact (np_setConn _ _ (np_fields _ (NP.refl w))).npm
  · split
    · exact (np_setConn _ _ (np_ev _ (np_fields _ (NP.refl w)))).npm
    · refine NPm.trans ?_ (npm_openSession _ _ _)
      exact (np_fields (w := ({ w with conns := w.conns.push {} } : World)) _ (np_fields _ (NP.refl w))).npm

theorem npm_hsWt (w : World) : NPm w (hsWt w) := by
  unfold hsWt
  try dsimp only
  refine NPm.trans ?_ (npm_openSession _ _ _)
  exact (np_fields (w := ({ w with conns := w.conns.push { wt := true } } : World)) _ (np_fields _ (NP.refl w))).npm


/-- every operation but the clock leaves the log without a new `close ping_timeout` entry -/
theorem npm_step (w : World) (op : Op) (h : ∀ d, op ≠ .adv d) : NPm w (step w op) := by
  unfold step
  split
  · exact NPm.refl w
  · cases op with
    | hsPolling pr b j => exact npm_hsPolling _ _ _ _
    | hsWebsocket pr b => exact npm_hsWebsocket _ _ _
    | poll sid ae => exact (np_pollReq _ _ (NP.refl w)).npm
    | post sid bin decl body vj => exact (np_postReq _ _ _ _ _ (NP.refl w)).npm
    | abort r => exact (np_abortReq _ (NP.refl w)).npm
    | wsCandidate sid pr b => exact (np_wsCandidate _ _ _ (NP.refl w)).npm
    | hsWt => exact npm_hsWt _
    | wtCandidate sid => exact (np_wtCandidate _ (NP.refl w)).npm
    | frame c m =>
      dsimp only
      repeat (first | exact NPm.refl w | exact (np_wsFrame _ _ (NP.refl w)).npm | split)
    | drop c => exact (np_wsDrop _ (NP.refl w)).npm
    | closeFrame c code => exact (np_wsDrop _ (np_setConn _ _ (NP.refl w))).npm
    | send sid m c cb pre => exact (np_appSend _ _ _ _ _ (NP.refl w)).npm
    | close sid d => exact (np_appClose _ _ (NP.refl w)).npm
    | shutdown => exact (np_shutdownFold _ (NP.refl w)).npm
    | adv d => exact absurd rfl (h d)
    | settle => exact (np_settle _ (NP.refl w)).npm
    | observe => exact (np_observe (NP.refl w)).npm

/-! ### inside `adv` -/

/-- the timers `advance` fires, in order: due instant, timer, and the world each is fired in (its clock already moved) -/
def advFirings : Nat → World → Nat → List (Nat × TimerId × World)
  | 0, _, _ => []
  | fuel + 1, w, target =>
    match earliest (dueTimers w) target with
    | some (d, id) => (d, id, { w with now := max w.now d }) :: advFirings fuel (fireTimer { w with now := max w.now d } id) target
    | none => []

theorem earliest_spec (l : List (Nat × TimerId)) (target : Nat) (d : Nat) (id : TimerId)
    (h : earliest l target = some (d, id)) : (d, id) ∈ l ∧ d ≤ target := by
  unfold earliest at h
  have gen : ∀ (l : List (Nat × TimerId)) (best : Option (Nat × TimerId)),
      (∀ b, best = some b → b.1 ≤ target) →
      ∀ r, l.foldl (fun best x => if x.1 ≤ target then
        match best with
        | some b => if x.1 < b.1 then some x else best
        | none => some x
      else best) best = some r → (r ∈ l ∨ best = some r) ∧ r.1 ≤ target := by
    intro l
    induction l with
    | nil => intro best hb r hr; simp at hr; exact ⟨Or.inr hr, hb r hr⟩
    | cons x rest ih =>
      intro best hb r hr
      rw [List.foldl_cons] at hr
      by_cases hx : x.1 ≤ target
      · simp only [hx, if_true] at hr
        cases best with
        | none =>
          simp only at hr
          obtain ⟨h1, h2⟩ := ih (some x) (fun b hb' => by cases hb'; exact hx) r hr
          rcases h1 with h1 | h1
          · exact ⟨Or.inl (List.mem_cons_of_mem _ h1), h2⟩
          · cases h1; exact ⟨Or.inl List.mem_cons_self, h2⟩
        | some b =>
          simp only at hr
          by_cases hlt : x.1 < b.1
          · simp only [hlt, if_true] at hr
            obtain ⟨h1, h2⟩ := ih (some x) (fun b' hb' => by cases hb'; exact hx) r hr
            rcases h1 with h1 | h1
            · exact ⟨Or.inl (List.mem_cons_of_mem _ h1), h2⟩
            · cases h1; exact ⟨Or.inl List.mem_cons_self, h2⟩
          · simp only [hlt, if_false] at hr
            obtain ⟨h1, h2⟩ := ih (some b) hb r hr
            rcases h1 with h1 | h1
            · exact ⟨Or.inl (List.mem_cons_of_mem _ h1), h2⟩
            · exact ⟨Or.inr h1, h2⟩
      · simp only [hx, if_false] at hr
        obtain ⟨h1, h2⟩ := ih best hb r hr
        rcases h1 with h1 | h1
        · exact ⟨Or.inl (List.mem_cons_of_mem _ h1), h2⟩
        · exact ⟨Or.inr h1, h2⟩
  obtain ⟨h1, h2⟩ := gen l none (fun b hb => by cases hb) (d, id) h
  rcases h1 with h1 | h1
  · exact ⟨h1, h2⟩
  · cases h1

/-- every timer `advance` fires was pending and due by the target, and is fired with the clock at or after its
    due instant (exactly at it unless the clock had already passed it) -/
theorem advFirings_due (f : Nat) : ∀ (w : World) (target : Nat), ∀ x ∈ advFirings f w target,
    x.1 ≤ target ∧ x.1 ≤ x.2.2.now := by
  induction f with
  | zero => intro w target x hx; simp [advFirings] at hx
  | succ f ih =>
    intro w target x hx
    rw [advFirings] at hx
    cases he : earliest (dueTimers w) target with
    | none => rw [he] at hx; simp at hx
    | some r =>
      obtain ⟨d, id⟩ := r
      rw [he] at hx; simp only at hx
      rcases List.mem_cons.1 hx with h | h
      · subst h
        exact ⟨(earliest_spec _ _ _ _ he).2, Nat.le_max_right _ _⟩
      · exact ih _ _ x h

/-- the head of the firing list is a timer pending in the world `advance` started from -/
theorem advFirings_head_pending (f : Nat) (w : World) (target : Nat) (d : Nat) (id : TimerId) (w' : World)
    (rest : List (Nat × TimerId × World)) (h : advFirings f w target = (d, id, w') :: rest) :
    (d, id) ∈ dueTimers w ∧ w' = { w with now := max w.now d } := by
  cases f with
  | zero => simp [advFirings] at h
  | succ f =>
    rw [advFirings] at h
    cases he : earliest (dueTimers w) target with
    | none => rw [he] at h; simp at h
    | some r =>
      obtain ⟨d0, id0⟩ := r
      rw [he] at h; simp only [List.cons.injEq, Prod.mk.injEq] at h
      obtain ⟨⟨rfl, rfl, rfl⟩, _⟩ := h
      exact ⟨(earliest_spec _ _ _ _ he).1, rfl⟩

/-- if no deadline timer is among the timers `advance` fires, nobody is closed for ping timeout -/
theorem npm_advance (f : Nat) : ∀ (w0 w : World) (target : Nat), NP w0 w →
    (∀ x ∈ advFirings f w target, ∀ s, x.2.1 ≠ .pingTimeout s) → NP w0 (advance f w target) := by
  induction f with
  | zero => intro w0 w target h _; simp only [advance]; exact np_fields _ h
  | succ f ih =>
    intro w0 w target h hf
    rw [advance]
    rw [advFirings] at hf
    cases he : earliest (dueTimers w) target with
    | none => simp only; exact np_fields _ h
    | some r =>
      obtain ⟨d, id⟩ := r
      rw [he] at hf
      simp only at hf ⊢
      have hid : ∀ s, id ≠ .pingTimeout s := hf _ List.mem_cons_self
      apply ih
      · exact np_fireTimer id hid (np_fields _ h)
      · intro x hx; exact hf x (List.mem_cons_of_mem _ hx)

end EIO.Ses
