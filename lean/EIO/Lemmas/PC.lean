import EIO.Lemmas.SesOps
import EIO.Lemmas.Acc
/-
Who may log a `packetCreate` entry: `sendPacket`, and nothing in the cone of `flush` (the close paths, the drain
callbacks, the writer hand-off). `NPC w w'`: the step created no session record and logged no `packetCreate` entry.
Generated from the `NC` chain of Conn.lean (same functions, same proofs) up to `flush`.
-/
namespace EIO.Ses
open EIO EIO.Codec

def SEv.isPC : SEv → Bool
  | .packetCreate _ _ => true
  | _ => false

structure NPC (w w' : World) : Prop where
  size : w'.socks.size = w.socks.size
  log : ∃ added, w'.slog = w.slog ++ added ∧ ∀ e ∈ added, e.2.isPC = false

theorem NPC.refl (w : World) : NPC w w := ⟨rfl, [], by simp, fun _ h => by cases h⟩
theorem NPC.trans {a b c : World} (h1 : NPC a b) (h2 : NPC b c) : NPC a c := by
  obtain ⟨x, hx, px⟩ := h1.log
  obtain ⟨y, hy, py⟩ := h2.log
  refine ⟨h2.size.trans h1.size, x ++ y, by rw [hy, hx, List.append_assoc], fun e he => ?_⟩
  rcases List.mem_append.mp he with h | h
  · exact px e h
  · exact py e h

theorem npc_same {w0 w : World} (w' : World) (h : NPC w0 w) (hs : w'.socks = w.socks) (hl : w'.slog = w.slog) : NPC w0 w' :=
  h.trans ⟨by rw [hs], [], by simp [hl], fun _ h => by cases h⟩

theorem npc_setTr {w0 w : World} (i : Nat) (f : Tr → Tr) (h : NPC w0 w) : NPC w0 (w.setTr i f) := npc_same _ h rfl rfl
theorem npc_setSock {w0 w : World} (i : Nat) (f : Sock → Sock) (h : NPC w0 w) : NPC w0 (w.setSock i f) :=
  h.trans ⟨by simp, [], by simp, fun _ h => by cases h⟩
theorem npc_setConn {w0 w : World} (i : Nat) (f : Conn → Conn) (h : NPC w0 w) : NPC w0 (w.setConn i f) := npc_same _ h rfl rfl
theorem npc_setReq {w0 w : World} (i : Nat) (f : Req → Req) (h : NPC w0 w) : NPC w0 (w.setReq i f) := npc_same _ h rfl rfl
theorem npc_ev {w0 w : World} (s : String) (h : NPC w0 w) : NPC w0 (w.ev s) := npc_same _ h rfl rfl
theorem npc_sev {w0 w : World} (sid : Nat) (e : SEv) (h : NPC w0 w) (he : e.isPC = false) : NPC w0 (w.sev sid e) :=
  h.trans ⟨by simp, [(sid, e)], by simp, fun x hx => by simp at hx; subst hx; exact he⟩
theorem npc_answer {w0 w : World} (r : Nat) (resp : Resp) (h : NPC w0 w) : NPC w0 (w.answer r resp) := by
  unfold World.answer; split
  · exact h
  · exact npc_setReq _ _ (npc_ev _ h)
theorem npc_abortData {w0 w : World} (d : Option Nat) (h : NPC w0 w) : NPC w0 (abortData w d) := by
  unfold abortData; split
  · exact npc_answer _ _ h
  · exact h
theorem npc_trSend {w0 w : World} (ti : Nat) (b : List Pkt) (h : NPC w0 w) : NPC w0 (trSend w ti b) := npc_same _ h rfl rfl
theorem npc_fields {w0 w : World} (w' : World) (h : NPC w0 w) (h1 : w'.socks = w.socks := by rfl) (h2 : w'.slog = w.slog := by rfl) : NPC w0 w' :=
  npc_same w' h h1 h2
theorem npc_pushReq {w0 w : World} (q : Req) (h : NPC w0 w) : NPC w0 ({ w with reqs := w.reqs.push q } : World) := npc_fields _ h

macro "npc_prim" : tactic => `(tactic| repeat (first
  | with_reducible assumption
  | with_reducible apply npc_ev | (with_reducible refine npc_sev _ _ ?_ rfl) | with_reducible apply npc_answer
  | with_reducible apply npc_trSend | with_reducible apply npc_setConn
  | with_reducible apply npc_abortData | with_reducible apply npc_setSock
  | with_reducible apply npc_setReq | with_reducible apply npc_setTr))

theorem npc_candCleanup {w0 w : World} (sid : Nat) (h : NPC w0 w) : NPC w0 (candCleanup w sid) := by
  unfold candCleanup
  split
  · exact h
  · npc_prim

theorem npc_close_all (f : Nat) :
    (∀ w0 w ti, NPC w0 w → NPC w0 (trEmitClose f w ti)) ∧
    (∀ w0 w ti, NPC w0 w → NPC w0 (trOnErrorF f w ti)) ∧
    (∀ w0 w ti, NPC w0 w → NPC w0 (trOnCloseBaseF f w ti)) ∧
    (∀ w0 w ti, NPC w0 w → NPC w0 (pollOnCloseF f w ti)) ∧
    (∀ w0 w ti, NPC w0 w → NPC w0 (runCloseFnF f w ti)) ∧
    (∀ w0 w ti, NPC w0 w → NPC w0 (wsCloseNowF f w ti)) ∧
    (∀ w0 w ti fn, NPC w0 w → NPC w0 (trCloseF f w ti fn)) ∧
    (∀ w0 w sid, NPC w0 w → NPC w0 (clearTransportF f w sid)) ∧
    (∀ w0 w sid, NPC w0 w → NPC w0 (candFail f w sid)) ∧
    (∀ w0 w sid r, NPC w0 w → NPC w0 (sockOnClose f w sid r)) := by
  induction f with
  | zero =>
    refine ⟨?_, ?_, ?_, ?_, ?_, ?_, ?_, ?_, ?_, ?_⟩ <;> intros <;>
      first
      | (simp only [trEmitClose]; assumption) | (simp only [trOnErrorF]; assumption) | (simp only [trOnCloseBaseF]; assumption)
      | (simp only [pollOnCloseF]; assumption) | (simp only [runCloseFnF]; assumption) | (simp only [wsCloseNowF]; assumption)
      | (simp only [trCloseF]; assumption) | (simp only [clearTransportF]; assumption)
      | (simp only [candFail]; exact npc_candCleanup _ (by assumption)) | (simp only [sockOnClose]; assumption)
  | succ f ih =>
    obtain ⟨iEC, iOE, iCB, iPC, iRF, iWN, iTC, iCT, iCF, iSC⟩ := ih
    refine ⟨?_, ?_, ?_, ?_, ?_, ?_, ?_, ?_, ?_, ?_⟩
    · intro w0 w ti h
      rw [trEmitClose]; split
      · exact iSC _ _ _ _ h
      · exact iCF _ _ _ h
      · exact h
    · intro w0 w ti h
      rw [trOnErrorF]; split
      · exact iSC _ _ _ _ h
      · exact iCF _ _ _ h
      · exact h
    · intro w0 w ti h
      rw [trOnCloseBaseF]; split
      · exact h
      · apply iEC; npc_prim
    · intro w0 w ti h
      rw [pollOnCloseF]
      apply iCB
      split <;> npc_prim
    · intro w0 w ti h
      rw [runCloseFnF]
      try dsimp only
      split
      · apply iSC; npc_prim
      · npc_prim
    · intro w0 w ti h
      rw [wsCloseNowF]
      try dsimp only
      apply iCB; apply npc_setConn; apply iRF; npc_prim
    · intro w0 w ti fn h
      rw [trCloseF]
      try dsimp only
      split
      · exact h
      · have h1 : NPC w0 (w.setTr ti fun t => { t with rs := .closing, closeFn := fn }) := by npc_prim
        split
        · have h2 := npc_abortData (w.tr ti).dataReq h1
          split
          · apply iPC; apply iRF; npc_prim
          · split
            · apply iPC; apply iRF; exact h2
            · npc_prim
        · split
          · exact iWN _ _ _ h1
          · npc_prim
    · intro w0 w sid h
      rw [clearTransportF]
      try dsimp only
      apply npc_setSock; apply iTC; npc_prim
    · intro w0 w sid h
      rw [candFail]
      split
      · exact h
      · apply iTC; exact npc_candCleanup _ h
    · intro w0 w sid r h
      rw [sockOnClose]
      split
      · exact h
      · try dsimp only
        apply npc_setSock; apply iCF; refine npc_sev _ _ ?_ rfl
        refine npc_same _ (iCT _ _ _ (npc_setSock _ _ h)) rfl rfl


theorem npc_trOnError {w0 w : World} (ti : Nat) (h : NPC w0 w) : NPC w0 (trOnError w ti) := (npc_close_all closeFuel).2.1 _ _ _ h
theorem npc_trOnCloseBase {w0 w : World} (ti : Nat) (h : NPC w0 w) : NPC w0 (trOnCloseBase w ti) := (npc_close_all closeFuel).2.2.1 _ _ _ h
theorem npc_pollOnClose {w0 w : World} (ti : Nat) (h : NPC w0 w) : NPC w0 (pollOnClose w ti) := (npc_close_all closeFuel).2.2.2.1 _ _ _ h
theorem npc_runCloseFn {w0 w : World} (ti : Nat) (h : NPC w0 w) : NPC w0 (runCloseFn w ti) := (npc_close_all closeFuel).2.2.2.2.1 _ _ _ h
theorem npc_wsCloseNow {w0 w : World} (ti : Nat) (h : NPC w0 w) : NPC w0 (wsCloseNow w ti) := (npc_close_all closeFuel).2.2.2.2.2.1 _ _ _ h
theorem npc_trClose {w0 w : World} (ti : Nat) (fn : Option Nat) (h : NPC w0 w) : NPC w0 (trClose w ti fn) :=
  (npc_close_all closeFuel).2.2.2.2.2.2.1 _ _ _ _ h
theorem npc_clearTransport {w0 w : World} (sid : Nat) (h : NPC w0 w) : NPC w0 (clearTransport w sid) :=
  (npc_close_all closeFuel).2.2.2.2.2.2.2.1 _ _ _ h
theorem npc_sockOnClose {w0 w : World} (f : Nat) (sid : Nat) (r : String) (h : NPC w0 w) : NPC w0 (sockOnClose f w sid r) :=
  (npc_close_all f).2.2.2.2.2.2.2.2.2 _ _ _ _ h

macro "npc_auto" : tactic => `(tactic| repeat (first
  | with_reducible assumption
  | with_reducible apply npc_ev | (with_reducible refine npc_sev _ _ ?_ rfl) | with_reducible apply npc_answer
  | with_reducible apply npc_trSend | with_reducible apply npc_setConn
  | with_reducible apply npc_abortData | with_reducible apply npc_setSock
  | with_reducible apply npc_trOnError | with_reducible apply npc_trOnCloseBase | with_reducible apply npc_pollOnClose
  | with_reducible apply npc_runCloseFn | with_reducible apply npc_wsCloseNow | with_reducible apply npc_trClose
  | with_reducible apply npc_clearTransport | with_reducible apply npc_candCleanup | with_reducible apply npc_sockOnClose
  | with_reducible apply npc_setReq | with_reducible apply npc_setTr))

/-! ### everything else -/

theorem npc_closeTransportF {w0 w : World} (f : Nat) (sid : Nat) (d : Bool) (h : NPC w0 w) : NPC w0 (closeTransportF f w sid d) := by
  cases f with
  | zero => simpa [closeTransportF] using h
  | succ f =>
    rw [closeTransportF]
    try dsimp only
    have h1 : NPC w0 (if d = true then w.setTr (w.sock sid).tr fun t => { t with discarded := true } else w) := by
      split
      · npc_auto
      · exact h
    generalize (if d = true then w.setTr (w.sock sid).tr fun t => { t with discarded := true } else w) = w1 at h1 ⊢
    split
    · exact npc_sockOnClose _ _ _ h1
    · exact npc_trClose _ _ h1

theorem npc_flushF {w0 w : World} (f : Nat) (sid : Nat) (h : NPC w0 w) : NPC w0 (flushF f w sid) := by
  cases f with
  | zero => simpa [flushF] using h
  | succ f =>
    rw [flushF]
    try dsimp only
    split
    · exact h
    · apply npc_ev
      split
      · apply npc_closeTransportF; npc_auto
      · npc_auto

theorem npc_flush {w0 w : World} (sid : Nat) (h : NPC w0 w) : NPC w0 (flush w sid) := npc_flushF _ sid h
theorem npc_closeTransport {w0 w : World} (sid : Nat) (d : Bool) (h : NPC w0 w) : NPC w0 (closeTransport w sid d) := npc_closeTransportF _ sid d h


end EIO.Ses
