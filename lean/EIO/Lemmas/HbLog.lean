import EIO.Lemmas.SesOps
/-
Who may log a `heartbeat` entry: `sockOnPacket`, for a ping (revision 3) or a pong (revision 4) the client sent, and
nothing else. `NH w w'`: the step created no session record and logged no `heartbeat` entry. Generated from the `NC`
chain (Conn.lean, ConnStep.lean) and the handshake lemmas of MsgHist.lean, with `sockOnPacket`, `trEmitPacket` and the
functions that deliver client packets left out.
-/
namespace EIO.Ses
open EIO EIO.Codec

def SEv.isHb : SEv → Bool
  | .heartbeat => true
  | _ => false

structure NH (w w' : World) : Prop where
  size : w'.socks.size = w.socks.size
  log : ∃ added, w'.slog = w.slog ++ added ∧ ∀ e ∈ added, e.2.isHb = false

theorem NH.refl (w : World) : NH w w := ⟨rfl, [], by simp, fun _ h => by cases h⟩
theorem NH.trans {a b c : World} (h1 : NH a b) (h2 : NH b c) : NH a c := by
  obtain ⟨x, hx, px⟩ := h1.log
  obtain ⟨y, hy, py⟩ := h2.log
  refine ⟨h2.size.trans h1.size, x ++ y, by rw [hy, hx, List.append_assoc], fun e he => ?_⟩
  rcases List.mem_append.mp he with h | h
  · exact px e h
  · exact py e h

theorem nh_same {w0 w : World} (w' : World) (h : NH w0 w) (hs : w'.socks = w.socks) (hl : w'.slog = w.slog) : NH w0 w' :=
  h.trans ⟨by rw [hs], [], by simp [hl], fun _ h => by cases h⟩

theorem nh_setTr {w0 w : World} (i : Nat) (f : Tr → Tr) (h : NH w0 w) : NH w0 (w.setTr i f) := nh_same _ h rfl rfl
theorem nh_setSock {w0 w : World} (i : Nat) (f : Sock → Sock) (h : NH w0 w) : NH w0 (w.setSock i f) :=
  h.trans ⟨by simp, [], by simp, fun _ h => by cases h⟩
theorem nh_setConn {w0 w : World} (i : Nat) (f : Conn → Conn) (h : NH w0 w) : NH w0 (w.setConn i f) := nh_same _ h rfl rfl
theorem nh_setReq {w0 w : World} (i : Nat) (f : Req → Req) (h : NH w0 w) : NH w0 (w.setReq i f) := nh_same _ h rfl rfl
theorem nh_ev {w0 w : World} (s : String) (h : NH w0 w) : NH w0 (w.ev s) := nh_same _ h rfl rfl
theorem nh_sev {w0 w : World} (sid : Nat) (e : SEv) (h : NH w0 w) (he : e.isHb = false) : NH w0 (w.sev sid e) :=
  h.trans ⟨by simp, [(sid, e)], by simp, fun x hx => by simp at hx; subst hx; exact he⟩
theorem nh_answer {w0 w : World} (r : Nat) (resp : Resp) (h : NH w0 w) : NH w0 (w.answer r resp) := by
  unfold World.answer; split
  · exact h
  · exact nh_setReq _ _ (nh_ev _ h)
theorem nh_abortData {w0 w : World} (d : Option Nat) (h : NH w0 w) : NH w0 (abortData w d) := by
  unfold abortData; split
  · exact nh_answer _ _ h
  · exact h
theorem nh_trSend {w0 w : World} (ti : Nat) (b : List Pkt) (h : NH w0 w) : NH w0 (trSend w ti b) := nh_same _ h rfl rfl
theorem nh_fields {w0 w : World} (w' : World) (h : NH w0 w) (h1 : w'.socks = w.socks := by rfl) (h2 : w'.slog = w.slog := by rfl) : NH w0 w' :=
  nh_same w' h h1 h2
theorem nh_pushReq {w0 w : World} (q : Req) (h : NH w0 w) : NH w0 ({ w with reqs := w.reqs.push q } : World) := nh_fields _ h

macro "nh_prim" : tactic => `(tactic| repeat (first
  | with_reducible assumption
  | with_reducible apply nh_ev | (with_reducible refine nh_sev _ _ ?_ rfl) | with_reducible apply nh_answer
  | with_reducible apply nh_trSend | with_reducible apply nh_setConn
  | with_reducible apply nh_abortData | with_reducible apply nh_setSock
  | with_reducible apply nh_setReq | with_reducible apply nh_setTr))

theorem nh_candCleanup {w0 w : World} (sid : Nat) (h : NH w0 w) : NH w0 (candCleanup w sid) := by
  unfold candCleanup
  split
  · exact h
  · nh_prim

theorem nh_close_all (f : Nat) :
    (∀ w0 w ti, NH w0 w → NH w0 (trEmitClose f w ti)) ∧
    (∀ w0 w ti, NH w0 w → NH w0 (trOnErrorF f w ti)) ∧
    (∀ w0 w ti, NH w0 w → NH w0 (trOnCloseBaseF f w ti)) ∧
    (∀ w0 w ti, NH w0 w → NH w0 (pollOnCloseF f w ti)) ∧
    (∀ w0 w ti, NH w0 w → NH w0 (runCloseFnF f w ti)) ∧
    (∀ w0 w ti, NH w0 w → NH w0 (wsCloseNowF f w ti)) ∧
    (∀ w0 w ti fn, NH w0 w → NH w0 (trCloseF f w ti fn)) ∧
    (∀ w0 w sid, NH w0 w → NH w0 (clearTransportF f w sid)) ∧
    (∀ w0 w sid, NH w0 w → NH w0 (candFail f w sid)) ∧
    (∀ w0 w sid r, NH w0 w → NH w0 (sockOnClose f w sid r)) := by
  induction f with
  | zero =>
    refine ⟨?_, ?_, ?_, ?_, ?_, ?_, ?_, ?_, ?_, ?_⟩ <;> intros <;>
      first
      | (simp only [trEmitClose]; assumption) | (simp only [trOnErrorF]; assumption) | (simp only [trOnCloseBaseF]; assumption)
      | (simp only [pollOnCloseF]; assumption) | (simp only [runCloseFnF]; assumption) | (simp only [wsCloseNowF]; assumption)
      | (simp only [trCloseF]; assumption) | (simp only [clearTransportF]; assumption)
      | (simp only [candFail]; exact nh_candCleanup _ (by assumption)) | (simp only [sockOnClose]; assumption)
  | succ f ih =>
    obtain ⟨iEC, iOE, iCB, iPC, iRF, iWN, iTC, iCT, iCF, iSC⟩ := ih
    refine ⟨?_, ?_, ?_, ?_, ?_, ?_, ?_, ?_, ?_, ?_⟩
    · intro w0 w ti h
      rw [trEmitClose]; split
      · exact iSC _ _ _ _ h
      · exact iCF _ _ _ h
      · exact h
    · intro w0 w ti h
      rw [trOnErrorF]; split
      · exact iSC _ _ _ _ h
      · exact iCF _ _ _ h
      · exact h
    · intro w0 w ti h
      rw [trOnCloseBaseF]; split
      · exact h
      · apply iEC; nh_prim
    · intro w0 w ti h
      rw [pollOnCloseF]
      apply iCB
      split <;> nh_prim
    · intro w0 w ti h
      rw [runCloseFnF]
      try dsimp only
      split
      · apply iSC; nh_prim
      · nh_prim
    · intro w0 w ti h
      rw [wsCloseNowF]
      try dsimp only
      apply iCB; apply nh_setConn; apply iRF; nh_prim
    · intro w0 w ti fn h
      rw [trCloseF]
      try dsimp only
      split
      · exact h
      · have h1 : NH w0 (w.setTr ti fun t => { t with rs := .closing, closeFn := fn }) := by nh_prim
        split
        · have h2 := nh_abortData (w.tr ti).dataReq h1
          split
          · apply iPC; apply iRF; nh_prim
          · split
            · apply iPC; apply iRF; exact h2
            · nh_prim
        · split
          · exact iWN _ _ _ h1
          · nh_prim
    · intro w0 w sid h
      rw [clearTransportF]
      try dsimp only
      apply nh_setSock; apply iTC; nh_prim
    · intro w0 w sid h
      rw [candFail]
      split
      · exact h
      · apply iTC; exact nh_candCleanup _ h
    · intro w0 w sid r h
      rw [sockOnClose]
      split
      · exact h
      · try dsimp only
        apply nh_setSock; apply iCF; refine nh_sev _ _ ?_ rfl
        refine nh_same _ (iCT _ _ _ (nh_setSock _ _ h)) rfl rfl


theorem nh_trOnError {w0 w : World} (ti : Nat) (h : NH w0 w) : NH w0 (trOnError w ti) := (nh_close_all closeFuel).2.1 _ _ _ h
theorem nh_trOnCloseBase {w0 w : World} (ti : Nat) (h : NH w0 w) : NH w0 (trOnCloseBase w ti) := (nh_close_all closeFuel).2.2.1 _ _ _ h
theorem nh_pollOnClose {w0 w : World} (ti : Nat) (h : NH w0 w) : NH w0 (pollOnClose w ti) := (nh_close_all closeFuel).2.2.2.1 _ _ _ h
theorem nh_runCloseFn {w0 w : World} (ti : Nat) (h : NH w0 w) : NH w0 (runCloseFn w ti) := (nh_close_all closeFuel).2.2.2.2.1 _ _ _ h
theorem nh_wsCloseNow {w0 w : World} (ti : Nat) (h : NH w0 w) : NH w0 (wsCloseNow w ti) := (nh_close_all closeFuel).2.2.2.2.2.1 _ _ _ h
theorem nh_trClose {w0 w : World} (ti : Nat) (fn : Option Nat) (h : NH w0 w) : NH w0 (trClose w ti fn) :=
  (nh_close_all closeFuel).2.2.2.2.2.2.1 _ _ _ _ h
theorem nh_clearTransport {w0 w : World} (sid : Nat) (h : NH w0 w) : NH w0 (clearTransport w sid) :=
  (nh_close_all closeFuel).2.2.2.2.2.2.2.1 _ _ _ h
theorem nh_sockOnClose {w0 w : World} (f : Nat) (sid : Nat) (r : String) (h : NH w0 w) : NH w0 (sockOnClose f w sid r) :=
  (nh_close_all f).2.2.2.2.2.2.2.2.2 _ _ _ _ h

macro "nh_auto" : tactic => `(tactic| repeat (first
  | with_reducible assumption
  | with_reducible apply nh_ev | (with_reducible refine nh_sev _ _ ?_ rfl) | with_reducible apply nh_answer
  | with_reducible apply nh_trSend | with_reducible apply nh_setConn
  | with_reducible apply nh_abortData | with_reducible apply nh_setSock
  | with_reducible apply nh_trOnError | with_reducible apply nh_trOnCloseBase | with_reducible apply nh_pollOnClose
  | with_reducible apply nh_runCloseFn | with_reducible apply nh_wsCloseNow | with_reducible apply nh_trClose
  | with_reducible apply nh_clearTransport | with_reducible apply nh_candCleanup | with_reducible apply nh_sockOnClose
  | with_reducible apply nh_setReq | with_reducible apply nh_setTr))

/-! ### everything else -/

theorem nh_closeTransportF {w0 w : World} (f : Nat) (sid : Nat) (d : Bool) (h : NH w0 w) : NH w0 (closeTransportF f w sid d) := by
  cases f with
  | zero => simpa [closeTransportF] using h
  | succ f =>
    rw [closeTransportF]
    try dsimp only
    have h1 : NH w0 (if d = true then w.setTr (w.sock sid).tr fun t => { t with discarded := true } else w) := by
      split
      · nh_auto
      · exact h
    generalize (if d = true then w.setTr (w.sock sid).tr fun t => { t with discarded := true } else w) = w1 at h1 ⊢
    split
    · exact nh_sockOnClose _ _ _ h1
    · exact nh_trClose _ _ h1

theorem nh_flushF {w0 w : World} (f : Nat) (sid : Nat) (h : NH w0 w) : NH w0 (flushF f w sid) := by
  cases f with
  | zero => simpa [flushF] using h
  | succ f =>
    rw [flushF]
    try dsimp only
    split
    · exact h
    · apply nh_ev
      split
      · apply nh_closeTransportF; nh_auto
      · nh_auto

theorem nh_flush {w0 w : World} (sid : Nat) (h : NH w0 w) : NH w0 (flush w sid) := nh_flushF _ sid h
theorem nh_closeTransport {w0 w : World} (sid : Nat) (d : Bool) (h : NH w0 w) : NH w0 (closeTransport w sid d) := nh_closeTransportF _ sid d h

theorem nh_sendPacket {w0 w : World} (sid : Nat) (pk : Pkt) (cb : Option Nat) (h : NH w0 w) : NH w0 (sendPacket w sid pk cb) := by
  unfold sendPacket
  try dsimp only
  split
  · exact h
  · apply nh_flush; nh_auto

theorem nh_cbs {w0 w : World} (sid : Nat) (cbs : List Nat) (h : NH w0 w) : NH w0 (cbs.foldl (fun w id => w.sev sid (.cb id)) w) := by
  induction cbs generalizing w with
  | nil => exact h
  | cons id rest ih => simp only [List.foldl_cons]; exact ih (nh_sev _ _ h rfl)

theorem nh_sockOnDrain {w0 w : World} (sid : Nat) (h : NH w0 w) : NH w0 (sockOnDrain w sid) := by
  unfold sockOnDrain
  split
  · exact h
  · apply nh_cbs; nh_auto

theorem nh_trEmitDrain {w0 w : World} (ti : Nat) (h : NH w0 w) : NH w0 (trEmitDrain w ti) := by
  unfold trEmitDrain
  try dsimp only
  split
  · split
    · exact nh_wsCloseNow _ (nh_sockOnDrain _ h)
    · exact nh_sockOnDrain _ h
  · split
    · exact nh_wsCloseNow _ h
    · exact h

theorem nh_trEmitReady {w0 w : World} (ti : Nat) (h : NH w0 w) : NH w0 (trEmitReady w ti) := by
  unfold trEmitReady
  split
  · exact nh_flush _ h
  · exact h

theorem nh_doUpgrade {w0 w : World} (sid newTr : Nat) (h : NH w0 w) : NH w0 (doUpgrade w sid newTr) := by
  unfold doUpgrade
  try dsimp only
  have h1 := nh_candCleanup sid h
  generalize candCleanup w sid = wa at h1 ⊢
  have h2 : NH w0 (flush (((((clearTransport ((wa.setTr (wa.sock sid).tr fun t => { t with discarded := true }).setSock sid fun s => { s with upgraded := true }) sid).setSock sid
      fun s => { s with tr := newTr }).setTr newTr fun t => { t with role := .current sid })).sev sid .upgrade) sid) := by
    apply nh_flush; nh_auto
  split
  · exact nh_trClose _ _ h2
  · exact h2

theorem nh_candOnPacket {w0 w : World} (sid : Nat) (pk : Pkt) (h : NH w0 w) : NH w0 (candOnPacket w sid pk) := by
  unfold candOnPacket
  split
  · exact h
  · split
    · try dsimp only
      nh_auto
    · split
      · exact nh_doUpgrade _ _ h
      · nh_auto

theorem nh_emitHeaders {w0 w : World} (ti r : Nat) (h : NH w0 w) : NH w0 (emitHeaders w ti r) := by
  unfold emitHeaders
  try dsimp only
  repeat (first | with_reducible assumption | with_reducible apply nh_ev | with_reducible apply nh_setReq | split)

theorem nh_rejectReq {w0 w : World} (r code : Nat) (msg : String) (h : NH w0 w) : NH w0 (rejectReq w r code msg) := by
  unfold rejectReq; nh_auto

theorem nh_wsSendLoop {w0 w : World} (ti : Nat) (batch : List Pkt) (h : NH w0 w) : NH w0 (wsSendLoop ti batch w) := by
  induction batch generalizing w with
  | nil => exact h
  | cons pk rest ih =>
    rw [wsSendLoop]
    try dsimp only
    split
    · apply ih; unfold wsPut; nh_auto
    · apply ih; nh_auto

theorem nh_wsDrop {w0 w : World} (c : Nat) (h : NH w0 w) : NH w0 (wsDrop w c) := by
  unfold wsDrop
  try dsimp only
  split
  · nh_auto
  · split <;> (try split) <;> nh_auto

theorem nh_appClose {w0 w : World} (sid : Nat) (discard : Bool) (h : NH w0 w) : NH w0 (appClose w sid discard) := by
  unfold appClose
  try dsimp only
  split
  · exact nh_closeTransport _ _ h
  · split
    · exact h
    · split
      · nh_auto
      · exact nh_closeTransport _ _ (nh_setSock _ _ h)

theorem nh_shutdownFold {w0 w : World} (reg : List Nat) (h : NH w0 w) : NH w0 (reg.foldl (fun w sid => appClose w sid true) w) := by
  induction reg generalizing w with
  | nil => exact h
  | cons sid rest ih => simp only [List.foldl_cons]; exact ih (nh_appClose _ _ h)

theorem nh_appSend {w0 w : World} (sid : Nat) (m : Msg) (compress wantCb : Bool) (pre : Option Msg) (h : NH w0 w) :
    NH w0 (appSend w sid m compress wantCb pre) := by
  unfold appSend
  try dsimp only
  apply nh_sendPacket
  split
  · exact nh_fields _ h
  · exact h

theorem nh_fireTimer {w0 w : World} (id : TimerId) (h : NH w0 w) : NH w0 (fireTimer w id) := by
  cases id with
  | pingInterval sid => simp only [fireTimer]; apply nh_setSock; apply nh_sendPacket; nh_auto
  | pingTimeout sid =>
    simp only [fireTimer]
    split <;> nh_auto
  | closeTimer ti =>
    simp only [fireTimer]
    split <;> nh_auto
  | upgradeTimeout sid =>
    simp only [fireTimer]
    split
    · split <;> nh_auto
    · exact h
  | check sid =>
    simp only [fireTimer]
    split
    · split <;> nh_auto
    · exact h

theorem nh_advance {w0 w : World} (f target : Nat) (h : NH w0 w) : NH w0 (advance f w target) := by
  induction f generalizing w with
  | zero => simp only [advance]; exact nh_fields _ h
  | succ f ih =>
    rw [advance]
    split
    · exact ih (nh_fireTimer _ (nh_fields _ h))
    · exact nh_fields _ h

theorem nh_foldl {w0 w : World} (is : List Nat) (g : World → Nat → World)
    (hg : ∀ w i, NH w0 w → NH w0 (g w i)) (h : NH w0 w) : NH w0 (is.foldl g w) := by
  induction is generalizing w with
  | nil => exact h
  | cons i rest ih => simp only [List.foldl_cons]; exact ih (hg _ _ h)

theorem nh_observe {w0 w : World} (h : NH w0 w) : NH w0 (observe w) := by
  unfold observe
  try dsimp only
  apply nh_foldl
  · intro w i h; exact nh_setConn _ _ h
  · apply nh_foldl
    · intro w i h
      split
      · exact nh_setReq _ _ h
      · exact h
    · exact nh_fields _ h



theorem nh_onPollRequest {w0 w : World} (ti r : Nat) (h : NH w0 w) : NH w0 (onPollRequest w ti r) := by
  unfold onPollRequest
  try dsimp only
  split
  · nh_auto
  · split
    · apply nh_trSend; apply nh_trEmitReady; nh_auto
    · apply nh_trEmitReady; nh_auto

theorem nh_openPackets {w0 w : World} (sid : Nat) (nm : String) (h : NH w0 w) : NH w0 (openPackets w sid nm) := by
  unfold openPackets
  try dsimp only
  split
  · exact nh_sendPacket _ _ _ (nh_sendPacket _ _ _ h)
  · exact nh_sendPacket _ _ _ h

theorem nh_pollReq {w0 w : World} (sid : Nat) (ae : Bytes) (h : NH w0 w) : NH w0 (pollReq w sid ae) := by
  unfold pollReq
  try dsimp only
  split
  · exact nh_rejectReq _ _ _ (nh_pushReq _ h)
  · split
    · exact nh_rejectReq _ _ _ (nh_pushReq _ h)
    · exact nh_onPollRequest _ _ (nh_pushReq _ h)

theorem nh_abortReq {w0 w : World} (r : Nat) (h : NH w0 w) : NH w0 (abortReq w r) := by
  unfold abortReq
  try dsimp only
  split
  · exact h
  · split
    · split <;> nh_auto
    · nh_auto

theorem nh_wsCandidate {w0 w : World} (sid proto : Nat) (b64 : Bool) (h : NH w0 w) : NH w0 (wsCandidate w sid proto b64) := by
  unfold wsCandidate
  try dsimp only
  have h0 : NH w0 ({ w with conns := w.conns.push {} } : World) := nh_fields _ h
  split
  · nh_auto
  · split
    · nh_auto
    · split
      · nh_auto
      · apply nh_setSock
        exact nh_fields (w := ({ w with conns := w.conns.push {} } : World)) _ h0

theorem nh_wtCandidate {w0 w : World} (sid : Nat) (h : NH w0 w) : NH w0 (wtCandidate w sid) := by
  unfold wtCandidate
  try dsimp only
  have h0 : NH w0 ({ w with conns := w.conns.push { wt := true } } : World) := nh_fields _ h
  split
  · nh_auto
  · split
    · nh_auto
    · apply nh_setSock
      exact nh_fields (w := ({ w with conns := w.conns.push { wt := true } } : World)) _ h0

theorem nh_runPollSend {w0 w : World} (ti : Nat) (batch : List Pkt) (h : NH w0 w) : NH w0 (runPollSend w ti batch) := by
  unfold runPollSend
  try dsimp only
  have h1 : NH w0 (if (w.tr ti).shouldClose = true then
      pollOnClose (runCloseFn (w.setTr ti fun t => { t with shouldClose := false, closeTimerDue := none }) ti) ti else w) := by
    split
    · nh_auto
    · exact h
  generalize (if (w.tr ti).shouldClose = true then
      pollOnClose (runCloseFn (w.setTr ti fun t => { t with shouldClose := false, closeTimerDue := none }) ti) ti else w) = w1 at h1 ⊢
  split
  · nh_auto
  · apply nh_trEmitDrain; apply nh_answer; apply nh_emitHeaders; nh_auto

theorem nh_runWsSend {w0 w : World} (ti : Nat) (batch : List Pkt) (h : NH w0 w) : NH w0 (runWsSend w ti batch) := by
  unfold runWsSend
  try dsimp only
  exact nh_trEmitReady _ (nh_setTr _ _ (nh_trEmitDrain _ (nh_wsSendLoop ti batch h)))

theorem nh_settle {w0 w : World} (f : Nat) (h : NH w0 w) : NH w0 (settle f w) := by
  induction f generalizing w with
  | zero => exact h
  | succ f ih =>
    rw [settle]
    split
    · exact h
    · rename_i t rest _
      cases t with
      | pollSend ti b => exact ih (nh_runPollSend ti b (nh_fields _ h))
      | wsSend ti b => exact ih (nh_runWsSend ti b (nh_fields _ h))

/-- the step appended no `heartbeat` entry to the session log -/
def NHm (w w' : World) : Prop := ∃ added, w'.slog = w.slog ++ added ∧ ∀ e ∈ added, e.2.isHb = false

theorem NH.nhm {w w' : World} (h : NH w w') : NHm w w' := h.log
theorem NHm.refl (w : World) : NHm w w := ⟨[], by simp, fun _ h => by cases h⟩
theorem NHm.trans {a b c : World} (h1 : NHm a b) (h2 : NHm b c) : NHm a c := by
  obtain ⟨x, hx, px⟩ := h1
  obtain ⟨y, hy, py⟩ := h2
  refine ⟨x ++ y, by rw [hy, hx, List.append_assoc], fun e he => ?_⟩
  rcases List.mem_append.mp he with h | h
  · exact px e h
  · exact py e h

/-- a new session: the open packet (and a configured initial packet) are *sent*, the session is announced;
    no heartbeat is accepted -/
theorem nhm_openSession (w : World) (ti proto : Nat) : NHm w (openSession w ti proto) := by
  unfold openSession
  try dsimp only
  generalize hcore : ((({ w with socks := w.socks.push { proto, tr := ti } } : World).setTr ti
      fun t => { t with role := .current w.socks.size, owner := w.socks.size }).setSock w.socks.size fun s => { s with rs := .open_ }) = wc
  have hlg : wc.slog = w.slog := by rw [← hcore]; rfl
  have c := nh_openPackets w.socks.size (w.tr ti).name (NH.refl wc)
  obtain ⟨pre, hpre, hn⟩ := c.log
  generalize openPackets wc w.socks.size (w.tr ti).name = wp at hpre ⊢
  unfold openAnnounce
  try dsimp only
  refine ⟨pre ++ [(w.socks.size, ?e)], ?hl, ?hn⟩
  case hl =>
    rw [slog_sev]
    show wp.slog ++ _ = _
    rw [hpre, hlg, List.append_assoc]
  case hn =>
    intro e he
    rcases List.mem_append.mp he with h | h
    · exact hn e h
    · simp at h; subst h; rfl

theorem nhm_hsPolling (w : World) (proto : Nat) (b64 : Bool) (j : Option Bytes) : NHm w (hsPolling w proto b64 j) := by
  unfold hsPolling
  try dsimp only
  split
  · exact (nh_rejectReq _ _ _ (nh_pushReq _ (NH.refl w))).nhm
  · split
    · exact (nh_rejectReq _ _ _ (nh_pushReq _ (NH.refl w))).nhm
    · refine NHm.trans ?_ (nhm_openSession _ _ _)
      exact (nh_onPollRequest _ _ (nh_fields (w := ({ w with reqs := w.reqs.push { hasSid := false } } : World)) _ (nh_pushReq _ (NH.refl w)))).nhm

theorem nhm_hsWebsocket (w : World) (proto : Nat) (b64 : Bool) : NHm w (hsWebsocket w proto b64) := by
  unfold hsWebsocket
  try dsimp only
  split
  · exact (nh_setConn _ _ (nh_fields _ (NH.refl w))).nhm
  · split
    · exact (nh_setConn _ _ (nh_ev _ (nh_fields _ (NH.refl w)))).nhm
    · refine NHm.trans ?_ (nhm_openSession _ _ _)
      exact (nh_fields (w := ({ w with conns := w.conns.push {} } : World)) _ (nh_fields _ (NH.refl w))).nhm

theorem nhm_hsWt (w : World) : NHm w (hsWt w) := by
  unfold hsWt
  try dsimp only
  refine NHm.trans ?_ (nhm_openSession _ _ _)
  exact (nh_fields (w := ({ w with conns := w.conns.push { wt := true } } : World)) _ (nh_fields _ (NH.refl w))).nhm


end EIO.Ses
