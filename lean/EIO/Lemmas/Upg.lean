import EIO.Lemmas.SesOps
/-
Who may switch a session's transport: the `upgrade` entry of the session log is written by `doUpgrade`, which only
`candOnPacket` calls, for an upgrade packet. `NU w w'`: the step created no session record and logged no `upgrade`
entry. Generated from the `NC` chain (Conn.lean, ConnStep.lean) and the handshake lemmas of MsgHist.lean; `doUpgrade`
is left out and `candOnPacket` / `trEmitPacket` need "the packet is not an upgrade packet".
-/
namespace EIO.Ses
open EIO EIO.Codec

def SEv.isUpg : SEv → Bool
  | .upgrade => true
  | _ => false

structure NU (w w' : World) : Prop where
  size : w'.socks.size = w.socks.size
  log : ∃ added, w'.slog = w.slog ++ added ∧ ∀ e ∈ added, e.2.isUpg = false

theorem NU.refl (w : World) : NU w w := ⟨rfl, [], by simp, fun _ h => by cases h⟩
theorem NU.trans {a b c : World} (h1 : NU a b) (h2 : NU b c) : NU a c := by
  obtain ⟨x, hx, px⟩ := h1.log
  obtain ⟨y, hy, py⟩ := h2.log
  refine ⟨h2.size.trans h1.size, x ++ y, by rw [hy, hx, List.append_assoc], fun e he => ?_⟩
  rcases List.mem_append.mp he with h | h
  · exact px e h
  · exact py e h

theorem nu_same {w0 w : World} (w' : World) (h : NU w0 w) (hs : w'.socks = w.socks) (hl : w'.slog = w.slog) : NU w0 w' :=
  h.trans ⟨by rw [hs], [], by simp [hl], fun _ h => by cases h⟩

theorem nu_setTr {w0 w : World} (i : Nat) (f : Tr → Tr) (h : NU w0 w) : NU w0 (w.setTr i f) := nu_same _ h rfl rfl
theorem nu_setSock {w0 w : World} (i : Nat) (f : Sock → Sock) (h : NU w0 w) : NU w0 (w.setSock i f) :=
  h.trans ⟨by simp, [], by simp, fun _ h => by cases h⟩
theorem nu_setConn {w0 w : World} (i : Nat) (f : Conn → Conn) (h : NU w0 w) : NU w0 (w.setConn i f) := nu_same _ h rfl rfl
theorem nu_setReq {w0 w : World} (i : Nat) (f : Req → Req) (h : NU w0 w) : NU w0 (w.setReq i f) := nu_same _ h rfl rfl
theorem nu_ev {w0 w : World} (s : String) (h : NU w0 w) : NU w0 (w.ev s) := nu_same _ h rfl rfl
theorem nu_sev {w0 w : World} (sid : Nat) (e : SEv) (h : NU w0 w) (he : e.isUpg = false) : NU w0 (w.sev sid e) :=
  h.trans ⟨by simp, [(sid, e)], by simp, fun x hx => by simp at hx; subst hx; exact he⟩
theorem nu_answer {w0 w : World} (r : Nat) (resp : Resp) (h : NU w0 w) : NU w0 (w.answer r resp) := by
  unfold World.answer; split
  · exact h
  · exact nu_setReq _ _ (nu_ev _ h)
theorem nu_abortData {w0 w : World} (d : Option Nat) (h : NU w0 w) : NU w0 (abortData w d) := by
  unfold abortData; split
  · exact nu_answer _ _ h
  · exact h
theorem nu_trSend {w0 w : World} (ti : Nat) (b : List Pkt) (h : NU w0 w) : NU w0 (trSend w ti b) := nu_same _ h rfl rfl
theorem nu_fields {w0 w : World} (w' : World) (h : NU w0 w) (h1 : w'.socks = w.socks := by rfl) (h2 : w'.slog = w.slog := by rfl) : NU w0 w' :=
  nu_same w' h h1 h2
theorem nu_pushReq {w0 w : World} (q : Req) (h : NU w0 w) : NU w0 ({ w with reqs := w.reqs.push q } : World) := nu_fields _ h

macro "nu_prim" : tactic => `(tactic| repeat (first
  | with_reducible assumption
  | with_reducible apply nu_ev | (with_reducible refine nu_sev _ _ ?_ rfl) | with_reducible apply nu_answer
  | with_reducible apply nu_trSend | with_reducible apply nu_setConn
  | with_reducible apply nu_abortData | with_reducible apply nu_setSock
  | with_reducible apply nu_setReq | with_reducible apply nu_setTr))

theorem nu_candCleanup {w0 w : World} (sid : Nat) (h : NU w0 w) : NU w0 (candCleanup w sid) := by
  unfold candCleanup
  split
  · exact h
  · nu_prim

theorem nu_close_all (f : Nat) :
    (∀ w0 w ti, NU w0 w → NU w0 (trEmitClose f w ti)) ∧
    (∀ w0 w ti, NU w0 w → NU w0 (trOnErrorF f w ti)) ∧
    (∀ w0 w ti, NU w0 w → NU w0 (trOnCloseBaseF f w ti)) ∧
    (∀ w0 w ti, NU w0 w → NU w0 (pollOnCloseF f w ti)) ∧
    (∀ w0 w ti, NU w0 w → NU w0 (runCloseFnF f w ti)) ∧
    (∀ w0 w ti, NU w0 w → NU w0 (wsCloseNowF f w ti)) ∧
    (∀ w0 w ti fn, NU w0 w → NU w0 (trCloseF f w ti fn)) ∧
    (∀ w0 w sid, NU w0 w → NU w0 (clearTransportF f w sid)) ∧
    (∀ w0 w sid, NU w0 w → NU w0 (candFail f w sid)) ∧
    (∀ w0 w sid r, NU w0 w → NU w0 (sockOnClose f w sid r)) := by
  induction f with
  | zero =>
    refine ⟨?_, ?_, ?_, ?_, ?_, ?_, ?_, ?_, ?_, ?_⟩ <;> intros <;>
      first
      | (simp only [trEmitClose]; assumption) | (simp only [trOnErrorF]; assumption) | (simp only [trOnCloseBaseF]; assumption)
      | (simp only [pollOnCloseF]; assumption) | (simp only [runCloseFnF]; assumption) | (simp only [wsCloseNowF]; assumption)
      | (simp only [trCloseF]; assumption) | (simp only [clearTransportF]; assumption)
      | (simp only [candFail]; exact nu_candCleanup _ (by assumption)) | (simp only [sockOnClose]; assumption)
  | succ f ih =>
    obtain ⟨iEC, iOE, iCB, iPC, iRF, iWN, iTC, iCT, iCF, iSC⟩ := ih
    refine ⟨?_, ?_, ?_, ?_, ?_, ?_, ?_, ?_, ?_, ?_⟩
    · intro w0 w ti h
      rw [trEmitClose]; split
      · exact iSC _ _ _ _ h
      · exact iCF _ _ _ h
      · exact h
    · intro w0 w ti h
      rw [trOnErrorF]; split
      · exact iSC _ _ _ _ h
      · exact iCF _ _ _ h
      · exact h
    · intro w0 w ti h
      rw [trOnCloseBaseF]; split
      · exact h
      · apply iEC; nu_prim
    · intro w0 w ti h
      rw [pollOnCloseF]
      apply iCB
      split <;> nu_prim
    · intro w0 w ti h
      rw [runCloseFnF]
      try dsimp only
      split
      · apply iSC; nu_prim
      · nu_prim
    · intro w0 w ti h
      rw [wsCloseNowF]
      try dsimp only
      apply iCB; apply nu_setConn; apply iRF; nu_prim
    · intro w0 w ti fn h
      rw [trCloseF]
      try dsimp only
      split
      · exact h
      · have h1 : NU w0 (w.setTr ti fun t => { t with rs := .closing, closeFn := fn }) := by nu_prim
        split
        · have h2 := nu_abortData (w.tr ti).dataReq h1
          split
          · apply iPC; apply iRF; nu_prim
          · split
            · apply iPC; apply iRF; exact h2
            · nu_prim
        · split
          · exact iWN _ _ _ h1
          · nu_prim
    · intro w0 w sid h
      rw [clearTransportF]
      try dsimp only
      apply nu_setSock; apply iTC; nu_prim
    · intro w0 w sid h
      rw [candFail]
      split
      · exact h
      · apply iTC; exact nu_candCleanup _ h
    · intro w0 w sid r h
      rw [sockOnClose]
      split
      · exact h
      · try dsimp only
        apply nu_setSock; apply iCF; refine nu_sev _ _ ?_ rfl
        refine nu_same _ (iCT _ _ _ (nu_setSock _ _ h)) rfl rfl


theorem nu_trOnError {w0 w : World} (ti : Nat) (h : NU w0 w) : NU w0 (trOnError w ti) := (nu_close_all closeFuel).2.1 _ _ _ h
theorem nu_trOnCloseBase {w0 w : World} (ti : Nat) (h : NU w0 w) : NU w0 (trOnCloseBase w ti) := (nu_close_all closeFuel).2.2.1 _ _ _ h
theorem nu_pollOnClose {w0 w : World} (ti : Nat) (h : NU w0 w) : NU w0 (pollOnClose w ti) := (nu_close_all closeFuel).2.2.2.1 _ _ _ h
theorem nu_runCloseFn {w0 w : World} (ti : Nat) (h : NU w0 w) : NU w0 (runCloseFn w ti) := (nu_close_all closeFuel).2.2.2.2.1 _ _ _ h
theorem nu_wsCloseNow {w0 w : World} (ti : Nat) (h : NU w0 w) : NU w0 (wsCloseNow w ti) := (nu_close_all closeFuel).2.2.2.2.2.1 _ _ _ h
theorem nu_trClose {w0 w : World} (ti : Nat) (fn : Option Nat) (h : NU w0 w) : NU w0 (trClose w ti fn) :=
  (nu_close_all closeFuel).2.2.2.2.2.2.1 _ _ _ _ h
theorem nu_clearTransport {w0 w : World} (sid : Nat) (h : NU w0 w) : NU w0 (clearTransport w sid) :=
  (nu_close_all closeFuel).2.2.2.2.2.2.2.1 _ _ _ h
theorem nu_sockOnClose {w0 w : World} (f : Nat) (sid : Nat) (r : String) (h : NU w0 w) : NU w0 (sockOnClose f w sid r) :=
  (nu_close_all f).2.2.2.2.2.2.2.2.2 _ _ _ _ h

macro "nu_auto" : tactic => `(tactic| repeat (first
  | with_reducible assumption
  | with_reducible apply nu_ev | (with_reducible refine nu_sev _ _ ?_ rfl) | with_reducible apply nu_answer
  | with_reducible apply nu_trSend | with_reducible apply nu_setConn
  | with_reducible apply nu_abortData | with_reducible apply nu_setSock
  | with_reducible apply nu_trOnError | with_reducible apply nu_trOnCloseBase | with_reducible apply nu_pollOnClose
  | with_reducible apply nu_runCloseFn | with_reducible apply nu_wsCloseNow | with_reducible apply nu_trClose
  | with_reducible apply nu_clearTransport | with_reducible apply nu_candCleanup | with_reducible apply nu_sockOnClose
  | with_reducible apply nu_setReq | with_reducible apply nu_setTr))

/-! ### everything else -/

theorem nu_closeTransportF {w0 w : World} (f : Nat) (sid : Nat) (d : Bool) (h : NU w0 w) : NU w0 (closeTransportF f w sid d) := by
  cases f with
  | zero => simpa [closeTransportF] using h
  | succ f =>
    rw [closeTransportF]
    try dsimp only
    have h1 : NU w0 (if d = true then w.setTr (w.sock sid).tr fun t => { t with discarded := true } else w) := by
      split
      · nu_auto
      · exact h
    generalize (if d = true then w.setTr (w.sock sid).tr fun t => { t with discarded := true } else w) = w1 at h1 ⊢
    split
    · exact nu_sockOnClose _ _ _ h1
    · exact nu_trClose _ _ h1

theorem nu_flushF {w0 w : World} (f : Nat) (sid : Nat) (h : NU w0 w) : NU w0 (flushF f w sid) := by
  cases f with
  | zero => simpa [flushF] using h
  | succ f =>
    rw [flushF]
    try dsimp only
    split
    · exact h
    · apply nu_ev
      split
      · apply nu_closeTransportF; nu_auto
      · nu_auto

theorem nu_flush {w0 w : World} (sid : Nat) (h : NU w0 w) : NU w0 (flush w sid) := nu_flushF _ sid h
theorem nu_closeTransport {w0 w : World} (sid : Nat) (d : Bool) (h : NU w0 w) : NU w0 (closeTransport w sid d) := nu_closeTransportF _ sid d h

theorem nu_sendPacket {w0 w : World} (sid : Nat) (pk : Pkt) (cb : Option Nat) (h : NU w0 w) : NU w0 (sendPacket w sid pk cb) := by
  unfold sendPacket
  try dsimp only
  split
  · exact h
  · apply nu_flush; nu_auto

theorem nu_cbs {w0 w : World} (sid : Nat) (cbs : List Nat) (h : NU w0 w) : NU w0 (cbs.foldl (fun w id => w.sev sid (.cb id)) w) := by
  induction cbs generalizing w with
  | nil => exact h
  | cons id rest ih => simp only [List.foldl_cons]; exact ih (nu_sev _ _ h rfl)

theorem nu_sockOnDrain {w0 w : World} (sid : Nat) (h : NU w0 w) : NU w0 (sockOnDrain w sid) := by
  unfold sockOnDrain
  split
  · exact h
  · apply nu_cbs; nu_auto

theorem nu_trEmitDrain {w0 w : World} (ti : Nat) (h : NU w0 w) : NU w0 (trEmitDrain w ti) := by
  unfold trEmitDrain
  try dsimp only
  split
  · split
    · exact nu_wsCloseNow _ (nu_sockOnDrain _ h)
    · exact nu_sockOnDrain _ h
  · split
    · exact nu_wsCloseNow _ h
    · exact h

theorem nu_trEmitReady {w0 w : World} (ti : Nat) (h : NU w0 w) : NU w0 (trEmitReady w ti) := by
  unfold trEmitReady
  split
  · exact nu_flush _ h
  · exact h

theorem nu_candOnPacket {w0 w : World} (sid : Nat) (pk : Pkt) (hp : pk.typ ≠ .upgrade) (h : NU w0 w) : NU w0 (candOnPacket w sid pk) := by
  unfold candOnPacket
  split
  · exact h
  · split
    · try dsimp only
      nu_auto
    · split
      · rename_i hc; exact absurd hc.1 hp
      · nu_auto

theorem nu_sockOnPacket {w0 w : World} (sid : Nat) (pk : Pkt) (h : NU w0 w) : NU w0 (sockOnPacket w sid pk) := by
  unfold sockOnPacket
  try dsimp only
  split
  · exact h
  · split
    · split
      · nu_auto
      · refine nu_sev _ _ ?_ rfl; apply nu_sendPacket; nu_auto
    · split
      · nu_auto
      · nu_auto
    · nu_auto
    · nu_auto
    · nu_auto

theorem nu_trEmitPacket {w0 w : World} (ti : Nat) (pk : Pkt) (hp : pk.typ ≠ .upgrade) (h : NU w0 w) : NU w0 (trEmitPacket w ti pk) := by
  unfold trEmitPacket
  split
  · exact nu_sockOnPacket _ _ h
  · exact nu_candOnPacket _ _ hp h
  · exact h

theorem nu_emitHeaders {w0 w : World} (ti r : Nat) (h : NU w0 w) : NU w0 (emitHeaders w ti r) := by
  unfold emitHeaders
  try dsimp only
  repeat (first | with_reducible assumption | with_reducible apply nu_ev | with_reducible apply nu_setReq | split)

theorem nu_rejectReq {w0 w : World} (r code : Nat) (msg : String) (h : NU w0 w) : NU w0 (rejectReq w r code msg) := by
  unfold rejectReq; nu_auto

theorem nu_wsSendLoop {w0 w : World} (ti : Nat) (batch : List Pkt) (h : NU w0 w) : NU w0 (wsSendLoop ti batch w) := by
  induction batch generalizing w with
  | nil => exact h
  | cons pk rest ih =>
    rw [wsSendLoop]
    try dsimp only
    split
    · apply ih; unfold wsPut; nu_auto
    · apply ih; nu_auto

theorem nu_wsDrop {w0 w : World} (c : Nat) (h : NU w0 w) : NU w0 (wsDrop w c) := by
  unfold wsDrop
  try dsimp only
  split
  · nu_auto
  · split <;> (try split) <;> nu_auto

theorem nu_appClose {w0 w : World} (sid : Nat) (discard : Bool) (h : NU w0 w) : NU w0 (appClose w sid discard) := by
  unfold appClose
  try dsimp only
  split
  · exact nu_closeTransport _ _ h
  · split
    · exact h
    · split
      · nu_auto
      · exact nu_closeTransport _ _ (nu_setSock _ _ h)

theorem nu_shutdownFold {w0 w : World} (reg : List Nat) (h : NU w0 w) : NU w0 (reg.foldl (fun w sid => appClose w sid true) w) := by
  induction reg generalizing w with
  | nil => exact h
  | cons sid rest ih => simp only [List.foldl_cons]; exact ih (nu_appClose _ _ h)

theorem nu_appSend {w0 w : World} (sid : Nat) (m : Msg) (compress wantCb : Bool) (pre : Option Msg) (h : NU w0 w) :
    NU w0 (appSend w sid m compress wantCb pre) := by
  unfold appSend
  try dsimp only
  apply nu_sendPacket
  split
  · exact nu_fields _ h
  · exact h

theorem nu_fireTimer {w0 w : World} (id : TimerId) (h : NU w0 w) : NU w0 (fireTimer w id) := by
  cases id with
  | pingInterval sid => simp only [fireTimer]; apply nu_setSock; apply nu_sendPacket; nu_auto
  | pingTimeout sid =>
    simp only [fireTimer]
    split <;> nu_auto
  | closeTimer ti =>
    simp only [fireTimer]
    split <;> nu_auto
  | upgradeTimeout sid =>
    simp only [fireTimer]
    split
    · split <;> nu_auto
    · exact h
  | check sid =>
    simp only [fireTimer]
    split
    · split <;> nu_auto
    · exact h

theorem nu_advance {w0 w : World} (f target : Nat) (h : NU w0 w) : NU w0 (advance f w target) := by
  induction f generalizing w with
  | zero => simp only [advance]; exact nu_fields _ h
  | succ f ih =>
    rw [advance]
    split
    · exact ih (nu_fireTimer _ (nu_fields _ h))
    · exact nu_fields _ h

theorem nu_foldl {w0 w : World} (is : List Nat) (g : World → Nat → World)
    (hg : ∀ w i, NU w0 w → NU w0 (g w i)) (h : NU w0 w) : NU w0 (is.foldl g w) := by
  induction is generalizing w with
  | nil => exact h
  | cons i rest ih => simp only [List.foldl_cons]; exact ih (hg _ _ h)

theorem nu_observe {w0 w : World} (h : NU w0 w) : NU w0 (observe w) := by
  unfold observe
  try dsimp only
  apply nu_foldl
  · intro w i h; exact nu_setConn _ _ h
  · apply nu_foldl
    · intro w i h
      split
      · exact nu_setReq _ _ h
      · exact h
    · exact nu_fields _ h



theorem nu_onPollRequest {w0 w : World} (ti r : Nat) (h : NU w0 w) : NU w0 (onPollRequest w ti r) := by
  unfold onPollRequest
  try dsimp only
  split
  · nu_auto
  · split
    · apply nu_trSend; apply nu_trEmitReady; nu_auto
    · apply nu_trEmitReady; nu_auto

theorem nu_openPackets {w0 w : World} (sid : Nat) (nm : String) (h : NU w0 w) : NU w0 (openPackets w sid nm) := by
  unfold openPackets
  try dsimp only
  split
  · exact nu_sendPacket _ _ _ (nu_sendPacket _ _ _ h)
  · exact nu_sendPacket _ _ _ h

theorem nu_pollReq {w0 w : World} (sid : Nat) (ae : Bytes) (h : NU w0 w) : NU w0 (pollReq w sid ae) := by
  unfold pollReq
  try dsimp only
  split
  · exact nu_rejectReq _ _ _ (nu_pushReq _ h)
  · split
    · exact nu_rejectReq _ _ _ (nu_pushReq _ h)
    · exact nu_onPollRequest _ _ (nu_pushReq _ h)

theorem nu_abortReq {w0 w : World} (r : Nat) (h : NU w0 w) : NU w0 (abortReq w r) := by
  unfold abortReq
  try dsimp only
  split
  · exact h
  · split
    · split <;> nu_auto
    · nu_auto

theorem nu_wsCandidate {w0 w : World} (sid proto : Nat) (b64 : Bool) (h : NU w0 w) : NU w0 (wsCandidate w sid proto b64) := by
  unfold wsCandidate
  try dsimp only
  have h0 : NU w0 ({ w with conns := w.conns.push {} } : World) := nu_fields _ h
  split
  · nu_auto
  · split
    · nu_auto
    · split
      · nu_auto
      · apply nu_setSock
        exact nu_fields (w := ({ w with conns := w.conns.push {} } : World)) _ h0

theorem nu_wtCandidate {w0 w : World} (sid : Nat) (h : NU w0 w) : NU w0 (wtCandidate w sid) := by
  unfold wtCandidate
  try dsimp only
  have h0 : NU w0 ({ w with conns := w.conns.push { wt := true } } : World) := nu_fields _ h
  split
  · nu_auto
  · split
    · nu_auto
    · apply nu_setSock
      exact nu_fields (w := ({ w with conns := w.conns.push { wt := true } } : World)) _ h0

theorem nu_runPollSend {w0 w : World} (ti : Nat) (batch : List Pkt) (h : NU w0 w) : NU w0 (runPollSend w ti batch) := by
  unfold runPollSend
  try dsimp only
  have h1 : NU w0 (if (w.tr ti).shouldClose = true then
      pollOnClose (runCloseFn (w.setTr ti fun t => { t with shouldClose := false, closeTimerDue := none }) ti) ti else w) := by
    split
    · nu_auto
    · exact h
  generalize (if (w.tr ti).shouldClose = true then
      pollOnClose (runCloseFn (w.setTr ti fun t => { t with shouldClose := false, closeTimerDue := none }) ti) ti else w) = w1 at h1 ⊢
  split
  · nu_auto
  · apply nu_trEmitDrain; apply nu_answer; apply nu_emitHeaders; nu_auto

theorem nu_runWsSend {w0 w : World} (ti : Nat) (batch : List Pkt) (h : NU w0 w) : NU w0 (runWsSend w ti batch) := by
  unfold runWsSend
  try dsimp only
  exact nu_trEmitReady _ (nu_setTr _ _ (nu_trEmitDrain _ (nu_wsSendLoop ti batch h)))

theorem nu_settle {w0 w : World} (f : Nat) (h : NU w0 w) : NU w0 (settle f w) := by
  induction f generalizing w with
  | zero => exact h
  | succ f ih =>
    rw [settle]
    split
    · exact h
    · rename_i t rest _
      cases t with
      | pollSend ti b => exact ih (nu_runPollSend ti b (nu_fields _ h))
      | wsSend ti b => exact ih (nu_runWsSend ti b (nu_fields _ h))

/-- the step appended no `upgrade` entry to the session log -/
def NUm (w w' : World) : Prop := ∃ added, w'.slog = w.slog ++ added ∧ ∀ e ∈ added, e.2.isUpg = false

theorem NU.num {w w' : World} (h : NU w w') : NUm w w' := h.log
theorem NUm.refl (w : World) : NUm w w := ⟨[], by simp, fun _ h => by cases h⟩
theorem NUm.trans {a b c : World} (h1 : NUm a b) (h2 : NUm b c) : NUm a c := by
  obtain ⟨x, hx, px⟩ := h1
  obtain ⟨y, hy, py⟩ := h2
  refine ⟨x ++ y, by rw [hy, hx, List.append_assoc], fun e he => ?_⟩
  rcases List.mem_append.mp he with h | h
  · exact px e h
  · exact py e h

/-- a new session: the open packet (and a configured initial packet) are *sent*, the session is announced;
    no session is upgraded -/
theorem num_openSession (w : World) (ti proto : Nat) : NUm w (openSession w ti proto) := by
  unfold openSession
  try dsimp only
  generalize hcore : ((({ w with socks := w.socks.push { proto, tr := ti } } : World).setTr ti
      fun t => { t with role := .current w.socks.size, owner := w.socks.size }).setSock w.socks.size fun s => { s with rs := .open_ }) = wc
  have hlg : wc.slog = w.slog := by rw [← hcore]; rfl
  have c := nu_openPackets w.socks.size (w.tr ti).name (NU.refl wc)
  obtain ⟨pre, hpre, hn⟩ := c.log
  generalize openPackets wc w.socks.size (w.tr ti).name = wp at hpre ⊢
  unfold openAnnounce
  try dsimp only
  refine ⟨pre ++ [(w.socks.size, ?e)], ?hl, ?hn⟩
  case hl =>
    rw [slog_sev]
    show wp.slog ++ _ = _
    rw [hpre, hlg, List.append_assoc]
  case hn =>
    intro e he
    rcases List.mem_append.mp he with h | h
    · exact hn e h
    · simp at h; subst h; rfl

theorem num_hsPolling (w : World) (proto : Nat) (b64 : Bool) (j : Option Bytes) : NUm w (hsPolling w proto b64 j) := by
  unfold hsPolling
  try dsimp only
  split
  · exact (nu_rejectReq _ _ _ (nu_pushReq _ (NU.refl w))).num
  · split
    · exact (nu_rejectReq _ _ _ (nu_pushReq _ (NU.refl w))).num
    · refine NUm.trans ?_ (num_openSession _ _ _)
      exact (nu_onPollRequest _ _ (nu_fields (w := ({ w with reqs := w.reqs.push { hasSid := false } } : World)) _ (nu_pushReq _ (NU.refl w)))).num

theorem num_hsWebsocket (w : World) (proto : Nat) (b64 : Bool) : NUm w (hsWebsocket w proto b64) := by
  unfold hsWebsocket
  try dsimp only
  split
  · exact (nu_setConn _ _ (nu_fields _ (NU.refl w))).num
  · split
    · exact (nu_setConn _ _ (nu_ev _ (nu_fields _ (NU.refl w)))).num
    · refine NUm.trans ?_ (num_openSession _ _ _)
      exact (nu_fields (w := ({ w with conns := w.conns.push {} } : World)) _ (nu_fields _ (NU.refl w))).num

theorem num_hsWt (w : World) : NUm w (hsWt w) := by
  unfold hsWt
  try dsimp only
  refine NUm.trans ?_ (num_openSession _ _ _)
  exact (nu_fields (w := ({ w with conns := w.conns.push { wt := true } } : World)) _ (nu_fields _ (NU.refl w))).num


end EIO.Ses
