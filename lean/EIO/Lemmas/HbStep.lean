import EIO.Lemmas.Hb
import EIO.Props.C12Close
/-
The heartbeat condition through packets, writer tasks, handshakes, requests,
frames, timers and every operation: `step_hb`.
-/
namespace EIO.Ses
open EIO EIO.Codec

variable {x : Option Nat} {n : Nat}

theorem HBS.relax {lax lax' : Prop} {o : Opts} {now : Nat} {s : Sock} (h : HBS lax o now s) (imp : lax → lax') : HBS lax' o now s :=
  ⟨h.closed, fun hl => h.pending (fun l => hl (imp l)), h.pingBound, h.deadBound⟩

theorem HB.toX {w : World} (h : HB w) : HBX w.now x w := ⟨rfl, fun sid => (h sid).relax (fun f => f.elim)⟩
theorem HBX.toHB {w : World} (h : HBX n none w) : HB w := fun sid => (h.2 sid).relax (fun e => by cases e)
theorem HBX.weaken {w : World} (h : HBX n none w) : HBX n x w := ⟨h.1, fun sid => (h.2 sid).relax (fun e => by cases e)⟩

/-- the exception is over once the session's timers are consistent again -/
theorem HBX.settle {w : World} {sid : Nat} (h : HBX n (some sid) w)
    (hp : (w.sock sid).announced = true → (w.sock sid).rs ≠ .closed → (w.sock sid).upgraded = false →
      (w.sock sid).pingIntervalDue.isSome ∨ (w.sock sid).pingTimeoutDue.isSome) : HBX n none w := by
  refine ⟨h.1, fun j => ?_⟩
  by_cases e : j = sid
  · subst e
    exact ⟨(h.2 j).closed, fun _ => hp, (h.2 j).pingBound, (h.2 j).deadBound⟩
  · exact (h.2 j).relax (fun e2 => by simp at e2; exact absurd e2.symm e)

macro "hb_auto" : tactic => `(tactic| repeat (first
  | with_reducible assumption
  | with_reducible apply hb_ev | with_reducible apply hb_sev | with_reducible apply hb_answer
  | with_reducible apply hb_trSend | with_reducible apply hb_setConn | with_reducible apply hb_setReq
  | with_reducible apply hb_abortData | with_reducible apply hb_setTr
  | with_reducible apply hb_flush | with_reducible apply hb_sendPacket | with_reducible apply hb_closeTransport
  | with_reducible apply hb_trOnError | with_reducible apply hb_trOnCloseBase | with_reducible apply hb_pollOnClose
  | with_reducible apply hb_runCloseFn | with_reducible apply hb_wsCloseNow | with_reducible apply hb_trClose
  | with_reducible apply hb_candCleanup
  | (with_reducible refine hb_sockOnClose _ _ _ ?_)
  | (with_reducible refine hb_setSockSame _ _ ?_ ?_; (intro s; exact ⟨Iff.rfl, rfl, rfl, rfl, rfl⟩))))

/-! ### drain, ready, packets -/

theorem hb_cbs {w : World} (sid : Nat) (cbs : List Nat) (h : HBX n x w) : HBX n x (cbs.foldl (fun w id => w.sev sid (.cb id)) w) := by
  induction cbs generalizing w with
  | nil => exact h
  | cons id rest ih => simp only [List.foldl_cons]; exact ih (hb_sev _ _ h)

theorem hb_sockOnDrain {w : World} (sid : Nat) (h : HBX n x w) : HBX n x (sockOnDrain w sid) := by
  unfold sockOnDrain
  split
  · exact h
  · apply hb_cbs; hb_auto

theorem hb_trEmitDrain {w : World} (ti : Nat) (h : HBX n x w) : HBX n x (trEmitDrain w ti) := by
  unfold trEmitDrain
  try dsimp only
  split
  · split
    · exact hb_wsCloseNow _ (hb_sockOnDrain _ h)
    · exact hb_sockOnDrain _ h
  · split
    · exact hb_wsCloseNow _ h
    · exact h

theorem hb_trEmitReady {w : World} (ti : Nat) (h : HBX n x w) : HBX n x (trEmitReady w ti) := by
  unfold trEmitReady
  split
  · exact hb_flush _ h
  · exact h

theorem hb_clearTransport {w : World} (sid : Nat) (h : HBX n x w)
    (hx : (w.sock sid).rs = .closed ∨ (w.sock sid).upgraded = true ∨ w.socks.size ≤ sid) : HBX n x (clearTransport w sid) :=
  hb_clearTransportF _ sid h hx

theorem hb_doUpgrade {w : World} (sid newTr : Nat) (h : HBX n x w) : HBX n x (doUpgrade w sid newTr) := by
  unfold doUpgrade
  try dsimp only
  have h1 := hb_candCleanup sid h
  generalize candCleanup w sid = wa at h1 ⊢
  have h2 : HBX n x ((wa.setTr (wa.sock sid).tr fun t => { t with discarded := true }).setSock sid fun s => { s with upgraded := true }) := by
    refine hb_setSock sid _ (fun _ hs => ?_) (hb_setTr _ _ h1)
    exact ⟨hs.closed, fun _ _ _ c => (by cases c), hs.pingBound, hs.deadBound⟩
  have hx : (((wa.setTr (wa.sock sid).tr fun t => { t with discarded := true }).setSock sid fun s => { s with upgraded := true }).sock sid).rs = .closed ∨
      (((wa.setTr (wa.sock sid).tr fun t => { t with discarded := true }).setSock sid fun s => { s with upgraded := true }).sock sid).upgraded = true ∨
      ((wa.setTr (wa.sock sid).tr fun t => { t with discarded := true }).setSock sid fun s => { s with upgraded := true }).socks.size ≤ sid := by
    by_cases hlt : sid < wa.socks.size
    · right; left; rw [sock_setSock]; simp [hlt]
    · right; right; simpa using Nat.le_of_not_lt hlt
  generalize ((wa.setTr (wa.sock sid).tr fun t => { t with discarded := true }).setSock sid fun s => { s with upgraded := true }) = wc at h2 hx ⊢
  have h3 := hb_clearTransport sid h2 hx
  generalize clearTransport wc sid = wd at h3 ⊢
  have h4 : HBX n x (flush (((wd.setSock sid fun s => { s with tr := newTr }).setTr newTr fun t => { t with role := .current sid }).sev sid .upgrade) sid) := by
    hb_auto
  split
  · exact hb_trClose _ _ h4
  · exact h4

theorem hb_candOnPacket {w : World} (sid : Nat) (p : Pkt) (h : HBX n x w) : HBX n x (candOnPacket w sid p) := by
  unfold candOnPacket
  split
  · exact h
  · split
    · try dsimp only
      hb_auto
    · split
      · exact hb_doUpgrade _ _ h
      · hb_auto

theorem hb_sockOnPacket {w : World} (sid : Nat) (p : Pkt) (h : HBX n x w) : HBX n x (sockOnPacket w sid p) := by
  unfold sockOnPacket
  try dsimp only
  split
  · exact h
  · rename_i ho
    have ho : (w.sock sid).rs = .open_ := Decidable.not_not.mp ho
    have hn : w.now = n := h.1
    split
    · split
      · hb_auto
      · apply hb_sev
        apply hb_sendPacket
        refine hb_setSock sid _ (fun _ hs => ?_) (hb_sev _ _ h)
        rw [sock_sev] at hs ⊢
        refine ⟨fun hc => ?_, fun _ _ _ _ => Or.inr rfl, hs.pingBound, fun d hd => ?_⟩
        · rw [ho] at hc; cases hc
        · have : d = (w.sev sid (.packet p.typ)).now + (w.sev sid (.packet p.typ)).o.I + (w.sev sid (.packet p.typ)).o.T := by
            simpa using hd.symm
          rw [this]; exact Nat.le_refl _
    · split
      · hb_auto
      · apply hb_sev
        refine hb_setSock sid _ (fun _ hs => ?_) (hb_sev _ _ h)
        rw [sock_sev] at hs ⊢
        refine ⟨fun hc => ?_, fun _ _ _ _ => Or.inl rfl, fun d hd => ?_, fun d hd => (by cases hd)⟩
        · rw [ho] at hc; cases hc
        · have : d = (w.sev sid (.packet p.typ)).now + (w.sev sid (.packet p.typ)).o.I := by simpa using hd.symm
          rw [this]; exact Nat.le_refl _
    · hb_auto
    · hb_auto
    · hb_auto

theorem hb_trEmitPacket {w : World} (ti : Nat) (p : Pkt) (h : HBX n x w) : HBX n x (trEmitPacket w ti p) := by
  unfold trEmitPacket
  split
  · exact hb_sockOnPacket _ _ h
  · exact hb_candOnPacket _ _ h
  · exact h

/-! ### writer tasks -/

theorem hb_emitHeaders {w : World} (ti r : Nat) (h : HBX n x w) : HBX n x (emitHeaders w ti r) := by
  unfold emitHeaders
  try dsimp only
  repeat (first | with_reducible assumption | with_reducible apply hb_ev | with_reducible apply hb_setReq | split)

theorem hb_rejectReq {w : World} (r code : Nat) (msg : String) (h : HBX n x w) : HBX n x (rejectReq w r code msg) := by
  unfold rejectReq; hb_auto

theorem hb_runPollSend {w : World} (ti : Nat) (batch : List Pkt) (h : HBX n x w) : HBX n x (runPollSend w ti batch) := by
  unfold runPollSend
  try dsimp only
  have h1 : HBX n x (if (w.tr ti).shouldClose = true then
      pollOnClose (runCloseFn (w.setTr ti fun t => { t with shouldClose := false, closeTimerDue := none }) ti) ti else w) := by
    split
    · hb_auto
    · exact h
  generalize (if (w.tr ti).shouldClose = true then
      pollOnClose (runCloseFn (w.setTr ti fun t => { t with shouldClose := false, closeTimerDue := none }) ti) ti else w) = w1 at h1 ⊢
  split
  · hb_auto
  · apply hb_trEmitDrain
    apply hb_answer
    apply hb_emitHeaders
    hb_auto

theorem hb_wsSendLoop {w : World} (ti : Nat) (batch : List Pkt) (h : HBX n x w) : HBX n x (wsSendLoop ti batch w) := by
  induction batch generalizing w with
  | nil => exact h
  | cons p rest ih =>
    rw [wsSendLoop]
    try dsimp only
    split
    · apply ih; unfold wsPut; hb_auto
    · apply ih; hb_auto

theorem hb_runWsSend {w : World} (ti : Nat) (batch : List Pkt) (h : HBX n x w) : HBX n x (runWsSend w ti batch) := by
  unfold runWsSend
  try dsimp only
  exact hb_trEmitReady _ (hb_setTr _ _ (hb_trEmitDrain _ (hb_wsSendLoop ti batch h)))

theorem hb_runTask {w : World} (t : Task) (h : HBX n x w) : HBX n x (runTask w t) := by
  cases t with
  | pollSend ti b => exact hb_runPollSend ti b h
  | wsSend ti b => exact hb_runWsSend ti b h

theorem hb_tasks {w : World} (r : List Task) (h : HBX n x w) : HBX n x ({ w with tasks := r } : World) := hb_fields _ h
theorem hb_registry {w : World} (r : List Nat) (h : HBX n x w) : HBX n x ({ w with registry := r } : World) := hb_fields _ h
theorem hb_pushReq {w : World} (q : Req) (h : HBX n x w) : HBX n x ({ w with reqs := w.reqs.push q } : World) := hb_fields _ h
theorem hb_pushConn {w : World} (c : Conn) (h : HBX n x w) : HBX n x ({ w with conns := w.conns.push c } : World) := hb_fields _ h
theorem hb_pushTr {w : World} (t : Tr) (h : HBX n x w) : HBX n x ({ w with trs := w.trs.push t } : World) := hb_fields _ h
theorem hb_cbSeq {w : World} (k : Nat) (h : HBX n x w) : HBX n x ({ w with cbSeq := k } : World) := hb_fields _ h
theorem hb_fault {w : World} (k : Option String) (h : HBX n x w) : HBX n x ({ w with fault := k } : World) := hb_fields _ h
theorem hb_evs {w : World} (k : List String) (h : HBX n x w) : HBX n x ({ w with evs := k } : World) := hb_fields _ h

theorem hb_settle {w : World} (f : Nat) (h : HBX n x w) : HBX n x (settle f w) := by
  induction f generalizing w with
  | zero => exact h
  | succ f ih =>
    rw [settle]
    split
    · exact h
    · exact ih (hb_runTask _ (hb_tasks _ h))

/-! ### new sessions -/

/-- sending on a session that is not waiting for a drain closes nobody and arms no drain listener -/
theorem flushF_keeps (f : Nat) (w : World) (sid : Nat) (hdc : (w.sock sid).drainClose = none) (j : Nat) :
    ((flushF f w sid).sock j).rs = (w.sock j).rs ∧ ((flushF f w sid).sock j).drainClose = (w.sock j).drainClose := by
  cases f with
  | zero => simp [flushF]
  | succ f =>
    rw [flushF]
    try dsimp only
    split
    · exact ⟨rfl, rfl⟩
    · split
      · rename_i d hd
        simp [hdc] at hd
      · constructor <;> (simp <;> try (split <;> simp))

theorem sendPacket_keeps (w : World) (sid : Nat) (p : Pkt) (cb : Option Nat) (hdc : (w.sock sid).drainClose = none) (j : Nat) :
    ((sendPacket w sid p cb).sock j).rs = (w.sock j).rs ∧ ((sendPacket w sid p cb).sock j).drainClose = (w.sock j).drainClose := by
  unfold sendPacket
  try dsimp only
  split
  · exact ⟨rfl, rfl⟩
  · have h := flushF_keeps 4 ((w.sev sid (.packetCreate p cb)).setSock sid fun s =>
        { s with wbuf := s.wbuf ++ [p], packetsFn := match cb with | some id => s.packetsFn ++ [id] | none => s.packetsFn })
        sid (by rw [sock_setSock]; split <;> simp [hdc]) j
    unfold flush
    refine ⟨h.1.trans ?_, h.2.trans ?_⟩ <;> (rw [sock_setSock]; split <;> simp)

theorem openPackets_keeps (w : World) (sid : Nat) (nm : String) (hdc : (w.sock sid).drainClose = none) (j : Nat) :
    ((openPackets w sid nm).sock j).rs = (w.sock j).rs := by
  unfold openPackets
  try dsimp only
  split
  · rename_i d _
    have a := sendPacket_keeps w sid { typ := .open, data := some ⟨.text, jsonOpen w sid nm⟩, compress := true } none hdc
    have b := sendPacket_keeps (sendPacket w sid { typ := .open, data := some ⟨.text, jsonOpen w sid nm⟩, compress := true } none) sid
      { typ := .message, data := some ⟨.text, d⟩, compress := true } none ((a sid).2.trans hdc) j
    exact b.1.trans (a j).1
  · exact (sendPacket_keeps w sid _ none hdc j).1

theorem hb_openPackets {w : World} (sid : Nat) (nm : String) (h : HBX n x w) : HBX n x (openPackets w sid nm) := by
  unfold openPackets
  try dsimp only
  split <;> hb_auto

theorem hb_openAnnounce {w : World} (sid : Nat) (nm : String) (proto : Nat) (h : HBX n x w)
    (hnc : (w.sock sid).rs ≠ .closed) : HBX n x (openAnnounce w sid nm proto) := by
  unfold openAnnounce
  try dsimp only
  apply hb_sev
  have h1 : HBX n x (w.setSock sid fun s =>
      if proto = 3 then { s with pingTimeoutDue := some (w.now + w.o.I + w.o.T) }
      else { s with pingIntervalDue := some (w.now + w.o.I) }) := by
    refine hb_setSock sid _ (fun _ hs => ?_) h
    split
    · refine ⟨fun hc => absurd hc hnc, fun _ _ _ _ => Or.inr rfl, hs.pingBound, fun d hd => ?_⟩
      have : d = w.now + w.o.I + w.o.T := by simpa using hd.symm
      rw [this]; exact Nat.le_refl _
    · refine ⟨fun hc => absurd hc hnc, fun _ _ _ _ => Or.inl rfl, fun d hd => ?_, hs.deadBound⟩
      have : d = w.now + w.o.I := by simpa using hd.symm
      rw [this]; exact Nat.le_refl _
  have hF : sid < (w.setSock sid fun s =>
      if proto = 3 then { s with pingTimeoutDue := some (w.now + w.o.I + w.o.T) }
      else { s with pingIntervalDue := some (w.now + w.o.I) }).socks.size → (((w.setSock sid fun s =>
      if proto = 3 then { s with pingTimeoutDue := some (w.now + w.o.I + w.o.T) }
      else { s with pingIntervalDue := some (w.now + w.o.I) }).sock sid).pingIntervalDue.isSome ∨
      ((w.setSock sid fun s =>
      if proto = 3 then { s with pingTimeoutDue := some (w.now + w.o.I + w.o.T) }
      else { s with pingIntervalDue := some (w.now + w.o.I) }).sock sid).pingTimeoutDue.isSome) := by
    intro hlt
    have hlt : sid < w.socks.size := by simpa using hlt
    rw [sock_setSock]
    simp only [hlt, and_self, if_true]
    split
    · exact Or.inr rfl
    · exact Or.inl rfl
  generalize (w.setSock sid fun s =>
      if proto = 3 then { s with pingTimeoutDue := some (w.now + w.o.I + w.o.T) }
      else { s with pingIntervalDue := some (w.now + w.o.I) }) = w1 at h1 hF ⊢
  refine hb_setSock sid _ (fun hlt hs => ?_) (hb_registry _ h1)
  exact ⟨hs.closed, fun _ _ _ _ => hF hlt, hs.pingBound, hs.deadBound⟩

/-- a new session record: not announced, no timers -/
theorem hb_openCore {w w1 : World} (ti proto : Nat) (h : HBX n x w)
    (hsocks : w1.socks = w.socks.push { proto, tr := ti }) (hnow : w1.now = w.now) (ho : w1.o = w.o) :
    HBX n x ((w1.setTr ti fun t => { t with role := .current w.socks.size, owner := w.socks.size }).setSock w.socks.size
      fun s => { s with rs := .open_ }) ∧
    ((((w1.setTr ti fun t => { t with role := .current w.socks.size, owner := w.socks.size }).setSock w.socks.size
      fun s => { s with rs := .open_ }).sock w.socks.size).rs = .open_ ∧
     (((w1.setTr ti fun t => { t with role := .current w.socks.size, owner := w.socks.size }).setSock w.socks.size
      fun s => { s with rs := .open_ }).sock w.socks.size).drainClose = none) := by
  have h1s : ∀ j, w1.sock j = if j = w.socks.size then { proto, tr := ti } else w.sock j := fun j => by
    unfold World.sock
    rw [hsocks]
    simp only [Array.getD_eq_getD_getElem?, Array.getElem?_push]
    by_cases hj : j = w.socks.size
    · simp [hj]
    · simp [hj]
  have h1sz : w1.socks.size = w.socks.size + 1 := by rw [hsocks, Array.size_push]
  have hs : ∀ j, ((w1.setTr ti fun t => { t with role := .current w.socks.size, owner := w.socks.size }).setSock w.socks.size
      fun s => { s with rs := .open_ }).sock j =
      if j = w.socks.size then { proto, tr := ti, rs := .open_ } else w.sock j := fun j => by
    rw [sock_setSock, sock_setTr, h1s]
    by_cases hj : j = w.socks.size
    · subst hj; simp [h1sz]
    · simp [hj, Ne.symm hj]
  refine ⟨⟨hnow.trans h.1, fun j => ?_⟩, by rw [hs, if_pos rfl], by rw [hs, if_pos rfl]⟩
  show HBS _ w1.o w1.now _
  rw [hs, hnow, ho]
  split
  · exact ⟨fun hc => (by cases hc), fun _ a => (by cases a), fun d hd => (by cases hd), fun d hd => (by cases hd)⟩
  · exact h.2 j

theorem hb_openSession {w : World} (ti proto : Nat) (h : HBX n x w) : HBX n x (openSession w ti proto) := by
  unfold openSession
  try dsimp only
  obtain ⟨h1, ho, hdc⟩ := hb_openCore (w1 := ({ w with socks := w.socks.push { proto, tr := ti } } : World)) ti proto h rfl rfl rfl
  generalize ((({ w with socks := w.socks.push { proto, tr := ti } } : World).setTr ti
    fun t => { t with role := .current w.socks.size, owner := w.socks.size }).setSock w.socks.size fun s => { s with rs := .open_ }) = w2 at h1 ho hdc ⊢
  refine hb_openAnnounce _ _ _ (hb_openPackets _ _ h1) ?_
  rw [openPackets_keeps w2 _ _ hdc, ho]; simp

theorem hb_onPollRequest {w : World} (ti r : Nat) (h : HBX n x w) : HBX n x (onPollRequest w ti r) := by
  unfold onPollRequest
  try dsimp only
  split
  · hb_auto
  · split
    · apply hb_trSend; apply hb_trEmitReady; hb_auto
    · apply hb_trEmitReady; hb_auto

theorem hb_hsPolling {w : World} (proto : Nat) (b64 : Bool) (j : Option Bytes) (h : HBX n x w) : HBX n x (hsPolling w proto b64 j) := by
  unfold hsPolling
  try dsimp only
  split
  · exact hb_rejectReq _ _ _ (hb_pushReq _ h)
  · split
    · exact hb_rejectReq _ _ _ (hb_pushReq _ h)
    · apply hb_openSession
      apply hb_onPollRequest
      exact hb_pushTr (w := ({ w with reqs := w.reqs.push { hasSid := false } } : World)) _ (hb_pushReq _ h)

theorem hb_hsWebsocket {w : World} (proto : Nat) (b64 : Bool) (h : HBX n x w) : HBX n x (hsWebsocket w proto b64) := by
  unfold hsWebsocket
  try dsimp only
  split
  · exact hb_setConn _ _ (hb_pushConn _ h)
  · split
    · exact hb_setConn _ _ (hb_ev _ (hb_pushConn _ h))
    · apply hb_openSession
      exact hb_pushTr (w := ({ w with conns := w.conns.push {} } : World)) _ (hb_pushConn _ h)

theorem hb_hsWt {w : World} (h : HBX n x w) : HBX n x (hsWt w) := by
  unfold hsWt
  try dsimp only
  apply hb_openSession
  exact hb_pushTr (w := ({ w with conns := w.conns.push { wt := true } } : World)) _ (hb_pushConn _ h)

/-! ### requests, candidates, frames -/

theorem hb_pollReq {w : World} (sid : Nat) (ae : Bytes) (h : HBX n x w) : HBX n x (pollReq w sid ae) := by
  unfold pollReq
  try dsimp only
  split
  · exact hb_rejectReq _ _ _ (hb_pushReq _ h)
  · split
    · exact hb_rejectReq _ _ _ (hb_pushReq _ h)
    · exact hb_onPollRequest _ _ (hb_pushReq _ h)

theorem hb_pollDeliver {w : World} (ti : Nat) (pkts : List Pkt) (h : HBX n x w) : HBX n x (pollDeliver ti pkts w) := by
  induction pkts generalizing w with
  | nil => simpa [pollDeliver] using h
  | cons p rest ih =>
    rw [pollDeliver]
    split
    · exact hb_pollOnClose _ h
    · exact ih (hb_trEmitPacket _ _ h)

theorem hb_pollOnData {w : World} (ti : Nat) (body : Bytes) (binary : Bool) (h : HBX n x w) : HBX n x (pollOnData w ti body binary).1 := by
  unfold pollOnData
  split
  · exact hb_pollDeliver _ _ h
  · exact h
  · exact hb_fault _ h

theorem hb_postReq {w : World} (sid : Nat) (binary declared : Bool) (body : Bytes) (vj : Bool) (h : HBX n x w) :
    HBX n x (postReq w sid binary declared body vj) := by
  unfold postReq; try dsimp only
  repeat (first
    | with_reducible assumption
    | with_reducible apply hb_rejectReq | with_reducible apply hb_emitHeaders | with_reducible apply hb_pollOnData
    | with_reducible apply hb_answer | with_reducible apply hb_trOnError | with_reducible apply hb_pushReq
    | with_reducible apply hb_setReq | with_reducible apply hb_setTr
    | dsimp only
    | split)

theorem hb_abortReq {w : World} (r : Nat) (h : HBX n x w) : HBX n x (abortReq w r) := by
  unfold abortReq
  try dsimp only
  split
  · exact h
  · split
    · split <;> hb_auto
    · hb_auto

/-- marking a session as upgrading / giving it a candidate: nothing the heartbeat reads -/
theorem hb_setCand {w : World} (sid : Nat) (u : Bool) (c : Option Cand) (h : HBX n x w) :
    HBX n x (w.setSock sid fun s => { s with upgrading := u, cand := c }) :=
  hb_setSockSame _ _ (fun _ => ⟨Iff.rfl, rfl, rfl, rfl, rfl⟩) h

theorem hb_wsCandidate {w : World} (sid proto : Nat) (b64 : Bool) (h : HBX n x w) : HBX n x (wsCandidate w sid proto b64) := by
  unfold wsCandidate
  try dsimp only
  have h0 := hb_pushConn {} h
  split
  · hb_auto
  · split
    · hb_auto
    · split
      · hb_auto
      · apply hb_setCand
        exact hb_pushTr (w := ({ w with conns := w.conns.push {} } : World)) _ h0

theorem hb_wtCandidate {w : World} (sid : Nat) (h : HBX n x w) : HBX n x (wtCandidate w sid) := by
  unfold wtCandidate
  try dsimp only
  have h0 := hb_pushConn { wt := true } h
  split
  · hb_auto
  · split
    · hb_auto
    · apply hb_setCand
      exact hb_pushTr (w := ({ w with conns := w.conns.push { wt := true } } : World)) _ h0

theorem hb_wsFrame {w : World} (c : Nat) (m : Msg) (h : HBX n x w) : HBX n x (wsFrame w c m).1 := by
  unfold wsFrame
  try dsimp only
  split
  · exact h
  · split
    · exact h
    · split
      · dsimp only; hb_auto
      · dsimp only
        split <;> exact hb_trEmitPacket _ _ h

theorem hb_wsDrop {w : World} (c : Nat) (h : HBX n x w) : HBX n x (wsDrop w c) := by
  unfold wsDrop
  try dsimp only
  split
  · hb_auto
  · split <;> (try split) <;> hb_auto

/-! ### the application -/

theorem hb_appClose {w : World} (sid : Nat) (discard : Bool) (h : HBX n x w) : HBX n x (appClose w sid discard) := by
  unfold appClose
  try dsimp only
  split
  · exact hb_closeTransport _ _ h
  · split
    · exact h
    · rename_i ho
      have ho : (w.sock sid).rs = .open_ := Decidable.not_not.mp ho
      have h1 : HBX n x (w.setSock sid fun s => { s with rs := .closing }) := by
        refine hb_setSock sid _ (fun _ hs => ?_) h
        exact ⟨fun hc => (by cases hc), fun hl a _ c => hs.pending hl a (by rw [ho]; simp) c, hs.pingBound, hs.deadBound⟩
      split
      · hb_auto
      · exact hb_closeTransport _ _ h1

theorem hb_shutdownFold {w : World} (reg : List Nat) (h : HBX n x w) : HBX n x (reg.foldl (fun w sid => appClose w sid true) w) := by
  induction reg generalizing w with
  | nil => exact h
  | cons sid rest ih => simp only [List.foldl_cons]; exact ih (hb_appClose _ _ h)

theorem hb_shutdown {w : World} (h : HBX n x w) : HBX n x (shutdown w) := hb_shutdownFold _ h

theorem hb_appSend {w : World} (sid : Nat) (m : Msg) (compress wantCb : Bool) (pre : Option Msg) (h : HBX n x w) :
    HBX n x (appSend w sid m compress wantCb pre) := by
  unfold appSend
  try dsimp only
  apply hb_sendPacket
  split
  · exact hb_cbSeq _ h
  · exact h

theorem hb_foldl {w : World} (is : List Nat) (g : World → Nat → World)
    (hg : ∀ w i, HBX n x w → HBX n x (g w i)) (h : HBX n x w) : HBX n x (is.foldl g w) := by
  induction is generalizing w with
  | nil => exact h
  | cons i rest ih => simp only [List.foldl_cons]; exact ih (hg _ _ h)

theorem hb_observe {w : World} (h : HBX n x w) : HBX n x (observe w) := by
  unfold observe
  try dsimp only
  apply hb_foldl
  · intro w i h; exact hb_setConn _ _ h
  · apply hb_foldl
    · intro w i h
      split
      · exact hb_setReq _ _ h
      · exact h
    · exact hb_evs _ h

/-! ### timers -/

theorem earliest_some (l : List (Nat × TimerId)) (t : Nat) (r : Nat × TimerId) (h : earliest l t = some r) : r ∈ l ∧ r.1 ≤ t := by
  unfold earliest at h
  have gen : ∀ (l : List (Nat × TimerId)) (best : Option (Nat × TimerId)) (r : Nat × TimerId),
      l.foldl (fun best x => if x.1 ≤ t then
        match best with
        | some b => if x.1 < b.1 then some x else best
        | none => some x
      else best) best = some r → (r ∈ l ∧ r.1 ≤ t) ∨ best = some r := by
    intro l
    induction l with
    | nil => intro best r h; exact Or.inr h
    | cons a rest ih =>
      intro best r h
      simp only [List.foldl_cons] at h
      rcases ih _ _ h with h1 | h1
      · exact Or.inl ⟨List.mem_cons_of_mem _ h1.1, h1.2⟩
      · split at h1
        · rename_i hle
          split at h1
          · split at h1
            · cases h1; exact Or.inl ⟨List.mem_cons_self, hle⟩
            · exact Or.inr h1
          · cases h1; exact Or.inl ⟨List.mem_cons_self, hle⟩
        · exact Or.inr h1
  rcases gen l none r h with h1 | h1
  · exact h1
  · cases h1

theorem mem_dueTimers_pingInterval (w : World) (d sid : Nat) (h : (d, TimerId.pingInterval sid) ∈ dueTimers w) :
    (w.sock sid).pingIntervalDue = some d := by
  unfold dueTimers at h
  simp only [List.mem_append, List.mem_flatMap, List.mem_range] at h
  rcases h with ⟨i, hi, h⟩ | ⟨i, hi, h⟩
  · rcases h with (h | h) | h
    · split at h
      · rename_i d' hd
        simp at h
        obtain ⟨rfl, rfl⟩ := h
        exact hd
      · cases h
    · split at h <;> simp at h
    · split at h
      · rcases List.mem_append.mp h with h | h <;> (split at h <;> simp at h)
      · cases h
  · split at h <;> simp at h

theorem sendPacket_rs (w : World) (sid : Nat) (p : Pkt) (cb : Option Nat)
    (hdc : (w.sock sid).drainClose.isSome → (w.sock sid).rs = .closing ∨ (w.sock sid).rs = .closed) :
    ((sendPacket w sid p cb).sock sid).rs = (w.sock sid).rs := by
  cases hd : (w.sock sid).drainClose with
  | none => exact (sendPacket_keeps w sid p cb hd sid).1
  | some d =>
    have := hdc (by rw [hd]; rfl)
    unfold sendPacket
    try dsimp only
    rw [if_pos]
    rcases this with h | h
    · exact Or.inl h
    · exact Or.inr (Or.inl h)

/-- the clock moves forward: every bound still holds -/
theorem hb_now {w : World} (m : Nat) (h : HBX n x w) (hle : w.now ≤ m) : HBX m x ({ w with now := m } : World) := by
  refine ⟨rfl, fun sid => ?_⟩
  have hs := h.2 sid
  refine ⟨hs.closed, hs.pending, fun d hd => ?_, fun d hd => ?_⟩
  · have := hs.pingBound d hd
    show d ≤ m + w.o.I
    omega
  · have := hs.deadBound d hd
    show d ≤ m + w.o.I + w.o.T
    omega

theorem hb_firePingInterval {w : World} (sid : Nat) (h : HBX n none w)
    (hpi : (w.sock sid).pingIntervalDue.isSome)
    (hdc : (w.sock sid).drainClose.isSome → (w.sock sid).rs = .closing ∨ (w.sock sid).rs = .closed) :
    HBX n none (fireTimer w (.pingInterval sid)) := by
  simp only [fireTimer]
  have hnc : (w.sock sid).rs ≠ .closed := fun hc => by
    have := ((h.2 sid).closed hc).1
    rw [this] at hpi; cases hpi
  have h1 : HBX n (some sid) (w.setSock sid fun s => { s with pingIntervalDue := none }) := by
    refine hb_setSock sid _ (fun _ hs => ?_) h.weaken
    exact ⟨fun hc => ⟨rfl, (hs.closed hc).2⟩, fun hl => absurd rfl hl, fun d hd => (by cases hd), hs.deadBound⟩
  have hrs1 : ((w.setSock sid fun s => { s with pingIntervalDue := none }).sock sid).rs = (w.sock sid).rs := by
    rw [sock_setSock]; split <;> rfl
  have hdc1 : ((w.setSock sid fun s => { s with pingIntervalDue := none }).sock sid).drainClose.isSome →
      ((w.setSock sid fun s => { s with pingIntervalDue := none }).sock sid).rs = .closing ∨
      ((w.setSock sid fun s => { s with pingIntervalDue := none }).sock sid).rs = .closed := by
    rw [hrs1]
    intro hd
    apply hdc
    rw [sock_setSock] at hd; split at hd <;> exact hd
  generalize (w.setSock sid fun s => { s with pingIntervalDue := none }) = w1 at h1 hrs1 hdc1 ⊢
  have h2 := hb_sendPacket sid { typ := .ping, compress := true } none h1
  have hrs2 := (sendPacket_rs w1 sid { typ := .ping, compress := true } none hdc1).trans hrs1
  generalize sendPacket w1 sid { typ := .ping, compress := true } none = w2 at h2 hrs2 ⊢
  have h3 : HBX n (some sid) (w2.setSock sid fun s =>
      { s with pingTimeoutDue := some (w2.now + (if s.proto = 3 then w2.o.I + w2.o.T else w2.o.T)) }) := by
    refine hb_setSock sid _ (fun _ hs => ?_) h2
    refine ⟨fun hc => absurd (hrs2 ▸ hc) hnc, fun hl => absurd rfl hl, hs.pingBound, fun d hd => ?_⟩
    have : d = w2.now + (if (w2.sock sid).proto = 3 then w2.o.I + w2.o.T else w2.o.T) := by simpa using hd.symm
    rw [this]
    split <;> omega
  refine h3.settle (fun a _ _ => ?_)
  by_cases hlt : sid < w2.socks.size
  · right
    rw [sock_setSock]; simp [hlt]
  · exfalso
    rw [sock_setSock, if_neg (fun hh => hlt hh.2), sock_oob w2 sid (Nat.le_of_not_lt hlt)] at a
    cases a

theorem hb_firePingTimeout {w : World} (sid : Nat) (h : HBX n none w) : HBX n none (fireTimer w (.pingTimeout sid)) := by
  simp only [fireTimer]
  have h1 : HBX n (some sid) (w.setSock sid fun s => { s with pingTimeoutDue := none }) := by
    refine hb_setSock sid _ (fun _ hs => ?_) h.weaken
    exact ⟨fun hc => ⟨(hs.closed hc).1, rfl⟩, fun hl => absurd rfl hl, hs.pingBound, fun d hd => (by cases hd)⟩
  generalize (w.setSock sid fun s => { s with pingTimeoutDue := none }) = w1 at h1 ⊢
  split
  · rename_i hc
    exact h1.settle (fun _ b _ => absurd hc b)
  · rename_i hnc
    by_cases hlt : sid < w1.socks.size
    · have hc := sockOnClose_closed 11 w1 sid "ping_timeout" hnc hlt
      have h2 := hb_sockOnClose 12 sid "ping_timeout" h1
      exact h2.settle (fun _ b _ => absurd hc b)
    · have e : sockOnClose closeFuel w1 sid "ping_timeout" = w1 := by
        rw [show closeFuel = 11 + 1 from rfl, sockOnClose, if_pos (Or.inr (Nat.le_of_not_lt hlt))]
      rw [e]
      refine h1.settle (fun a _ _ => ?_)
      rw [sock_oob w1 sid (Nat.le_of_not_lt hlt)] at a; cases a

theorem hb_fireTimer {w : World} (id : TimerId) (h : HBX n none w)
    (hpi : ∀ sid, id = .pingInterval sid → (w.sock sid).pingIntervalDue.isSome)
    (hdc : ∀ sid, (w.sock sid).drainClose.isSome → (w.sock sid).rs = .closing ∨ (w.sock sid).rs = .closed) :
    HBX n none (fireTimer w id) := by
  cases id with
  | pingInterval sid => exact hb_firePingInterval sid h (hpi sid rfl) (hdc sid)
  | pingTimeout sid => exact hb_firePingTimeout sid h
  | closeTimer ti =>
    simp only [fireTimer]
    split <;> hb_auto
  | upgradeTimeout sid =>
    simp only [fireTimer]
    split
    · split <;> hb_auto
    · exact h
  | check sid =>
    simp only [fireTimer]
    split
    · have h1 := hb_setSockSame (x := none) (n := n) sid (fun s => { s with cand := some { (‹Cand›) with checkDue := some (w.now + checkPeriod) } })
        (fun _ => ⟨Iff.rfl, rfl, rfl, rfl, rfl⟩) h
      split
      · exact hb_trSend _ _ h1
      · exact h1
    · exact h

theorem hb_advance {w : World} (f target : Nat) (i : Inv w) (h : HBX n none w) (hle : w.now ≤ target) :
    HBX target none (advance f w target) := by
  induction f generalizing w n with
  | zero => simp only [advance]; exact hb_now target h hle
  | succ f ih =>
    rw [advance]
    split
    · rename_i d id he
      obtain ⟨hm, hd⟩ := earliest_some _ _ _ he
      have hd : d ≤ target := hd
      have i1 : Inv ({ w with now := max w.now d } : World) := ((pr_fields _ (Pres.refl w)) i).1
      have h1 : HBX (max w.now d) none ({ w with now := max w.now d } : World) := hb_now _ h (Nat.le_max_left _ _)
      have hpi : ∀ sid, id = .pingInterval sid → (({ w with now := max w.now d } : World).sock sid).pingIntervalDue.isSome := by
        intro sid e
        subst e
        have := mem_dueTimers_pingInterval w d sid hm
        show (w.sock sid).pingIntervalDue.isSome
        rw [this]; rfl
      have h2 := hb_fireTimer id h1 hpi (fun sid => (i1.sockOK sid).dc)
      have i2 : Inv (fireTimer ({ w with now := max w.now d } : World) id) := ((pr_fireTimer id (Pres.refl _)) i1).1
      exact ih i2 h2 (by rw [h2.1]; exact Nat.max_le.mpr ⟨hle, hd⟩)
    · exact hb_now target h hle

/-- every operation keeps the heartbeat condition -/
theorem step_hb (w : World) (op : Op) (i : Inv w) (h : HB w) : HB (step w op) := by
  have hx : HBX w.now none w := h.toX
  unfold step
  split
  · exact h
  · cases op with
    | hsPolling p b j => exact (hb_hsPolling _ _ _ hx).toHB
    | hsWebsocket p b => exact (hb_hsWebsocket _ _ hx).toHB
    | poll sid ae => exact (hb_pollReq _ _ hx).toHB
    | post sid bin decl body vj => exact (hb_postReq _ _ _ _ _ hx).toHB
    | abort r => exact (hb_abortReq _ hx).toHB
    | wsCandidate sid p b => exact (hb_wsCandidate _ _ _ hx).toHB
    | hsWt => exact (hb_hsWt hx).toHB
    | wtCandidate sid => exact (hb_wtCandidate _ hx).toHB
    | frame c m =>
      dsimp only
      repeat (first | exact h | exact (hb_wsFrame _ _ hx).toHB | split)
    | drop c => exact (hb_wsDrop _ hx).toHB
    | closeFrame c code => exact (hb_wsDrop _ (hb_setConn _ _ hx)).toHB
    | send sid m c cb pre => exact (hb_appSend _ _ _ _ _ hx).toHB
    | close sid d => exact (hb_appClose _ _ hx).toHB
    | shutdown => exact (hb_shutdown hx).toHB
    | adv d => exact (hb_advance _ _ i hx (Nat.le_add_right _ _)).toHB
    | settle => exact (hb_settle _ hx).toHB
    | observe => exact (hb_observe hx).toHB

theorem hb_init (o : Opts) : HB (init o) := by
  intro sid
  have hs : (init o).sock sid = default := sock_oob _ _ (Nat.zero_le _)
  rw [hs]
  exact ⟨fun hc => (by cases hc), fun _ a => (by cases a), fun d hd => (by cases hd), fun d hd => (by cases hd)⟩

end EIO.Ses
