import EIO.Model.Session
import EIO.Lemmas.World
import EIO.Lemmas.Acc
/-
The invariant of the session model and the step relation every function of the
model satisfies, with the lemmas for the primitive updates.

`Inv w`   what holds of every reachable world (at the boundaries of the model's functions)
`Ext w w'` how a later world relates to an earlier one
`Pres w w' := Inv w → Inv w' ∧ Ext w w'`
-/
namespace EIO.Ses
open EIO EIO.Codec

def closedW (w : World) (sid : Nat) : Prop := (w.sock sid).rs = .closed

/-- the log holds a close event of session `sid` -/
def closeIn (sid : Nat) (l : List (Nat × SEv)) : Prop := ∃ e ∈ l, e.1 = sid ∧ e.2.isClose = true

/-- the events the property lists as impossible after the close event (everything but the
    `upgrading` notification, which the property does not mention) -/
def SEv.final : SEv → Bool
  | .upgrading => false
  | _ => true

/-- once a session's close event is in the log, no later entry of that session follows -/
def LogOK (l : List (Nat × SEv)) : Prop :=
  ∀ pre e post, l = pre ++ e :: post → e.2.final = true → ¬ closeIn e.1 pre

structure SockOK (s : Sock) : Prop where
  cb : s.rs = .closed → s.sentCb = []
  dc : s.drainClose.isSome → s.rs = .closing ∨ s.rs = .closed
  cu : s.cand.isSome → s.upgraded = false

/-- the accounts of one session: everything accepted is handed over or still buffered (unless the
    session closed, which drops the rest), callbacks likewise, one `upgrade` entry iff upgraded -/
structure AccS (s : Sock) (sid : Nat) (l : List (Nat × SEv)) : Prop where
  pk : ∃ rest, createdPkts sid l = flushedPkts sid l ++ rest ∧ (s.rs ≠ .closed → rest = s.wbuf)
  cb : ∃ rest, createdCbs sid l = flushedCbs sid l ++ rest ∧ (s.rs ≠ .closed → rest = s.packetsFn)
  run : ∃ rest, flushedCbs sid l = ranCbs sid l ++ rest ∧ (s.rs ≠ .closed → rest = s.sentCb.flatten)
  up : upgradeCount sid l = (if s.upgraded then 1 else 0)

structure AccInv (w : World) : Prop where
  ses : ∀ sid, AccS (w.sock sid) sid w.slog
  fresh : ∀ e ∈ w.slog, e.2.accNeutral = false → e.1 < w.socks.size
  hist : LogHist w.slog
  tight : FlushTight w.slog

structure Inv (w : World) : Prop where
  logOK : LogOK w.slog
  logClosed : ∀ sid, closeIn sid w.slog → closedW w sid
  closedLog : ∀ sid, closedW w sid → closeIn sid w.slog
  sockOK : ∀ sid, SockOK (w.sock sid)
  regLive : ∀ sid ∈ w.registry, ¬ closedW w sid ∧ sid < w.socks.size ∧ (w.sock sid).announced = true
  regNodup : w.registry.Nodup
  annReg : ∀ sid, (w.sock sid).announced = true → sid ∈ w.registry ∨ closedW w sid
  acc : AccInv w
  regOpen : ∀ sid ∈ w.registry, (w.sock sid).rs ≠ .opening

def ReqsExt (w w' : World) : Prop :=
  w.reqs.size ≤ w'.reqs.size ∧
  ∀ r x, (w.reqs.getD r default).resp = some x → (w'.reqs.getD r default).resp = some x

structure Ext (w w' : World) : Prop where
  rank : ∀ sid, (w.sock sid).rs.rank ≤ (w'.sock sid).rs.rank
  log : ∃ added, w'.slog = w.slog ++ added
  reqs : ReqsExt w w'
  size : w.socks.size ≤ w'.socks.size
  proto : ∀ sid, sid < w.socks.size → (w'.sock sid).proto = (w.sock sid).proto
  ann : ∀ sid, (w.sock sid).announced = true → (w'.sock sid).announced = true
  reg : ∀ sid ∈ w'.registry, sid ∈ w.registry ∨ (w.sock sid).announced = false

def Pres (w w' : World) : Prop := Inv w → Inv w' ∧ Ext w w'

/-! ### lists -/

theorem closeIn_append (sid : Nat) (a b : List (Nat × SEv)) : closeIn sid (a ++ b) ↔ closeIn sid a ∨ closeIn sid b := by
  unfold closeIn
  constructor
  · rintro ⟨e, he, h⟩
    rcases List.mem_append.mp he with h1 | h1
    · exact Or.inl ⟨e, h1, h⟩
    · exact Or.inr ⟨e, h1, h⟩
  · rintro (⟨e, he, h⟩ | ⟨e, he, h⟩)
    · exact ⟨e, List.mem_append.mpr (Or.inl he), h⟩
    · exact ⟨e, List.mem_append.mpr (Or.inr he), h⟩

theorem closeIn_single (sid sid' : Nat) (e : SEv) : closeIn sid [(sid', e)] ↔ sid' = sid ∧ e.isClose = true := by
  unfold closeIn; simp

theorem closeIn_nil (sid : Nat) : ¬ closeIn sid [] := by
  unfold closeIn; simp

theorem closeIn_prefix (sid : Nat) (pre e post) (h : closeIn sid pre) : closeIn sid (pre ++ e :: post) :=
  (closeIn_append sid pre (e :: post)).mpr (Or.inl h)

theorem logOK_nil : LogOK [] := by
  intro pre e post h
  cases pre <;> simp at h

theorem logOK_snoc (l : List (Nat × SEv)) (x : Nat × SEv) (h : LogOK l) (hx : x.2.final = true → ¬ closeIn x.1 l) :
    LogOK (l ++ [x]) := by
  intro pre e post heq hfin
  -- either `e` is the new last element or the split lies inside `l`
  rcases List.eq_nil_or_concat post with hp | ⟨post', y, hp⟩
  · subst hp
    have : l = pre ∧ x = e := by
      have := List.append_inj' heq (by simp)
      simpa using this
    obtain ⟨h1, h2⟩ := this
    subst h1; subst h2
    exact hx hfin
  · subst hp
    have heq' : l ++ [x] = (pre ++ e :: post') ++ [y] := by simpa using heq
    have := List.append_inj' heq' (by simp)
    exact h pre e post' this.1 hfin

theorem logOK_prefix (a b : List (Nat × SEv)) (h : LogOK (a ++ b)) : LogOK a := by
  intro pre e post heq hfin
  exact h pre e (post ++ b) (by simp [heq]) hfin

/-! ### the relations -/

theorem ReqsExt.refl (w : World) : ReqsExt w w := ⟨Nat.le_refl _, fun _ _ h => h⟩
theorem ReqsExt.trans {a b c : World} (h1 : ReqsExt a b) (h2 : ReqsExt b c) : ReqsExt a c :=
  ⟨Nat.le_trans h1.1 h2.1, fun r x h => h2.2 r x (h1.2 r x h)⟩

theorem Ext.refl (w : World) : Ext w w :=
  ⟨fun _ => Nat.le_refl _, ⟨[], by simp⟩, ReqsExt.refl w, Nat.le_refl _, fun _ _ => rfl, fun _ h => h, fun _ h => Or.inl h⟩

theorem Ext.trans {a b c : World} (h1 : Ext a b) (h2 : Ext b c) : Ext a c := by
  refine ⟨fun sid => Nat.le_trans (h1.rank sid) (h2.rank sid), ?_, h1.reqs.trans h2.reqs, Nat.le_trans h1.size h2.size, ?_,
    fun sid h => h2.ann sid (h1.ann sid h), ?_⟩
  · obtain ⟨x, hx⟩ := h1.log
    obtain ⟨y, hy⟩ := h2.log
    exact ⟨x ++ y, by rw [hy, hx, List.append_assoc]⟩
  · intro sid hs
    rw [h2.proto sid (Nat.lt_of_lt_of_le hs h1.size), h1.proto sid hs]
  · intro sid hs
    rcases h2.reg sid hs with h | h
    · exact h1.reg sid h
    · refine Or.inr ?_
      cases ha : (a.sock sid).announced with
      | false => rfl
      | true => rw [h1.ann sid ha] at h; cases h

theorem Pres.refl (w : World) : Pres w w := fun h => ⟨h, Ext.refl w⟩
theorem Pres.trans {a b c : World} (h1 : Pres a b) (h2 : Pres b c) : Pres a c := fun h =>
  let ⟨i1, e1⟩ := h1 h
  let ⟨i2, e2⟩ := h2 i1
  ⟨i2, e1.trans e2⟩

/-- with the invariant at both ends, nothing of a session is logged after its close event -/
theorem Inv.silent_after_close {w w' : World} (_ : Inv w) (h' : Inv w') (e : Ext w w') (sid : Nat)
    (hc : closedW w sid) : ∀ added, w'.slog = w.slog ++ added → ∀ x ∈ added, x.2.final = true → x.1 ≠ sid := by
  intro added hadd x hx hfin hsid
  have _ := e
  have hin : closeIn sid w.slog := ‹Inv w›.closedLog sid hc
  obtain ⟨a, b, hab⟩ := List.append_of_mem hx
  have := h'.logOK (w.slog ++ a) x b (by rw [hadd, hab]; simp) hfin
  exact this (by rw [hsid]; exact (closeIn_append sid w.slog a).mpr (Or.inl hin))

/-! ### primitive updates -/

/-- the part of a session the invariant looks at -/
structure SockSame (s s' : Sock) : Prop where
  rs : s'.rs = s.rs
  sentCb : s'.sentCb = s.sentCb
  drainClose : s'.drainClose = s.drainClose
  announced : s'.announced = s.announced
  proto : s'.proto = s.proto
  wbuf : s'.wbuf = s.wbuf
  packetsFn : s'.packetsFn = s.packetsFn
  upgraded : s'.upgraded = s.upgraded
  candm : s'.cand.isSome → s.cand.isSome

theorem SockSame.refl (s : Sock) : SockSame s s := ⟨rfl, rfl, rfl, rfl, rfl, rfl, rfl, rfl, id⟩
theorem SockSame.trans {a b c : Sock} (h1 : SockSame a b) (h2 : SockSame b c) : SockSame a c :=
  ⟨h2.rs.trans h1.rs, h2.sentCb.trans h1.sentCb, h2.drainClose.trans h1.drainClose,
   h2.announced.trans h1.announced, h2.proto.trans h1.proto, h2.wbuf.trans h1.wbuf,
   h2.packetsFn.trans h1.packetsFn, h2.upgraded.trans h1.upgraded, fun h => h1.candm (h2.candm h)⟩

/-- the accounts of a session only read its closedness and four fields -/
theorem AccS.congr {s s' : Sock} {sid : Nat} {l : List (Nat × SEv)} (h : AccS s sid l)
    (hrs : s'.rs = .closed ↔ s.rs = .closed) (hw : s'.wbuf = s.wbuf) (hp : s'.packetsFn = s.packetsFn)
    (hc : s'.sentCb = s.sentCb) (hu : s'.upgraded = s.upgraded) : AccS s' sid l := by
  obtain ⟨r1, e1, i1⟩ := h.pk
  obtain ⟨r2, e2, i2⟩ := h.cb
  obtain ⟨r3, e3, i3⟩ := h.run
  exact ⟨⟨r1, e1, fun hn => by rw [hw]; exact i1 (fun x => hn (hrs.mpr x))⟩,
         ⟨r2, e2, fun hn => by rw [hp]; exact i2 (fun x => hn (hrs.mpr x))⟩,
         ⟨r3, e3, fun hn => by rw [hc]; exact i3 (fun x => hn (hrs.mpr x))⟩,
         by rw [hu]; exact h.up⟩

theorem AccS.same {s s' : Sock} {sid : Nat} {l : List (Nat × SEv)} (h : AccS s sid l) (v : SockSame s s') :
    AccS s' sid l :=
  h.congr (by rw [v.rs]) v.wbuf v.packetsFn v.sentCb v.upgraded

/-- an entry that does not enter the accounts -/
theorem AccS.snoc_neutral {s : Sock} {sid : Nat} {l : List (Nat × SEv)} (h : AccS s sid l) (x : Nat) (e : SEv)
    (hn : e.accNeutral = true) : AccS s sid (l ++ [(x, e)]) := by
  obtain ⟨a, b, c, d, e', f⟩ := proj_snoc_neutral sid x e l hn
  obtain ⟨r1, e1, i1⟩ := h.pk
  obtain ⟨r2, e2, i2⟩ := h.cb
  obtain ⟨r3, e3, i3⟩ := h.run
  exact ⟨⟨r1, by rw [a, c]; exact e1, i1⟩, ⟨r2, by rw [b, d]; exact e2, i2⟩, ⟨r3, by rw [d, e']; exact e3, i3⟩,
         by rw [f]; exact h.up⟩

/-- the accounts say what `HistAt` asks for -/
theorem AccS.histAt {s : Sock} {sid : Nat} {l : List (Nat × SEv)} (h : AccS s sid l) : HistAt sid l := by
  obtain ⟨r1, e1, _⟩ := h.pk
  obtain ⟨r2, e2, _⟩ := h.cb
  obtain ⟨r3, e3, _⟩ := h.run
  refine ⟨⟨r1, e1.symm⟩, ⟨r2, e2.symm⟩, ⟨r3, e3.symm⟩, ?_⟩
  rw [h.up]; split <;> omega

theorem AccInv.of_view {w w' : World} (a : AccInv w) (hlog : w'.slog = w.slog) (hsz : w'.socks.size = w.socks.size)
    (hs : ∀ j, SockSame (w.sock j) (w'.sock j)) : AccInv w' :=
  ⟨fun j => by rw [hlog]; exact (a.ses j).same (hs j),
   fun e he hn => by rw [hlog] at he; rw [hsz]; exact a.fresh e he hn,
   by rw [hlog]; exact a.hist, by rw [hlog]; exact a.tight⟩

/-- a step that appends one neutral entry and keeps every session's accounts -/
theorem AccInv.snoc_neutral {w w' : World} (a : AccInv w) (x : Nat) (e : SEv) (hn : e.accNeutral = true)
    (hlog : w'.slog = w.slog ++ [(x, e)]) (hsz : w.socks.size ≤ w'.socks.size)
    (hs : ∀ j, AccS (w.sock j) j w.slog → AccS (w'.sock j) j w.slog) : AccInv w' := by
  refine ⟨fun j => ?_, fun y hy hf => ?_, ?_, ?_⟩
  · rw [hlog]; exact (hs j (a.ses j)).snoc_neutral x e hn
  · rw [hlog] at hy
    rcases List.mem_append.mp hy with h | h
    · exact Nat.lt_of_lt_of_le (a.fresh y h hf) hsz
    · have : y = (x, e) := by simpa using h
      subst this; rw [hn] at hf; cases hf
  · rw [hlog]
    exact logHist_snoc _ _ a.hist (fun j => histAt_snoc_neutral j x e _ hn (a.hist _ (List.prefix_refl _) j))
  · rw [hlog]
    refine flushTight_snoc _ _ a.tight (fun j b c hx => ?_)
    have : e = SEv.flush b c := by
      have := congrArg Prod.snd hx; simpa using this
    subst this; cases hn

theorem AccInv.sev_neutral {w : World} (a : AccInv w) (sid : Nat) (e : SEv) (hn : e.accNeutral = true) :
    AccInv (w.sev sid e) :=
  a.snoc_neutral sid e hn (slog_sev w sid e) (by simp) (fun j h => by rw [sock_sev]; exact h)

/-- nothing the invariant looks at has changed, requests may have been added or answered -/
structure SameView (w w' : World) : Prop where
  size : w'.socks.size = w.socks.size
  sock : ∀ j, SockSame (w.sock j) (w'.sock j)
  slog : w'.slog = w.slog
  registry : w'.registry = w.registry
  reqs : ReqsExt w w'

/-- the world-level part of `SameView` alone (sessions may differ) -/
structure SameView' (w w' : World) : Prop where
  size : w'.socks.size = w.socks.size
  slog : w'.slog = w.slog
  registry : w'.registry = w.registry
  reqs : ReqsExt w w'

theorem SameView.refl (w : World) : SameView w w := ⟨rfl, fun _ => SockSame.refl _, rfl, rfl, ReqsExt.refl w⟩
theorem SameView.trans {a b c : World} (h1 : SameView a b) (h2 : SameView b c) : SameView a c :=
  ⟨h2.size.trans h1.size, fun j => (h1.sock j).trans (h2.sock j), h2.slog.trans h1.slog,
   h2.registry.trans h1.registry, h1.reqs.trans h2.reqs⟩

theorem SameView.closedW {w w' : World} (h : SameView w w') (sid : Nat) : closedW w' sid ↔ closedW w sid := by
  unfold EIO.Ses.closedW; rw [(h.sock sid).rs]

theorem SameView.pres {w w' : World} (h : SameView w w') : Pres w w' := by
  intro i
  refine ⟨⟨?_, ?_, ?_, ?_, ?_, ?_, ?_, i.acc.of_view h.slog h.size h.sock,
    fun sid hm => by rw [(h.sock sid).rs]; exact i.regOpen sid (by rw [← h.registry]; exact hm)⟩, ⟨?_, ?_, h.reqs, Nat.le_of_eq h.size.symm, ?_, ?_, ?_⟩⟩
  · rw [h.slog]; exact i.logOK
  · intro sid hc; rw [h.slog] at hc; exact (h.closedW sid).mpr (i.logClosed sid hc)
  · intro sid hc; rw [h.slog]; exact i.closedLog sid ((h.closedW sid).mp hc)
  · intro sid
    have s := h.sock sid
    have o := i.sockOK sid
    exact ⟨fun hc => by rw [s.sentCb]; exact o.cb (by rw [← s.rs]; exact hc),
           fun hd => by rw [s.rs]; exact o.dc (by rw [← s.drainClose]; exact hd),
           fun hd => by rw [s.upgraded]; exact o.cu (s.candm hd)⟩
  · intro sid hm
    rw [h.registry] at hm
    obtain ⟨a, b, c⟩ := i.regLive sid hm
    exact ⟨fun hc => a ((h.closedW sid).mp hc), by rw [h.size]; exact b, by rw [(h.sock sid).announced]; exact c⟩
  · rw [h.registry]; exact i.regNodup
  · intro sid ha
    rw [(h.sock sid).announced] at ha
    rcases i.annReg sid ha with r | r
    · exact Or.inl (by rw [h.registry]; exact r)
    · exact Or.inr ((h.closedW sid).mpr r)
  · intro sid; rw [(h.sock sid).rs]; exact Nat.le_refl _
  · exact ⟨[], by rw [h.slog]; simp⟩
  · intro sid _; exact (h.sock sid).proto
  · intro sid ha; rw [(h.sock sid).announced]; exact ha
  · intro sid hm; rw [h.registry] at hm; exact Or.inl hm

/-- an update of one session that keeps what the invariant looks at -/
theorem sameView_setSock (w : World) (sid : Nat) (f : Sock → Sock) (hf : SockSame (w.sock sid) (f (w.sock sid))) :
    SameView w (w.setSock sid f) := by
  refine ⟨by simp, ?_, rfl, rfl, ReqsExt.refl _⟩
  intro j
  rw [sock_setSock]
  split
  · rename_i hc; rw [← hc.1]; exact hf
  · exact SockSame.refl _

theorem sameView_setTr (w : World) (i : Nat) (f : Tr → Tr) : SameView w (w.setTr i f) :=
  ⟨rfl, fun _ => SockSame.refl _, rfl, rfl, ReqsExt.refl _⟩
theorem sameView_setConn (w : World) (i : Nat) (f : Conn → Conn) : SameView w (w.setConn i f) :=
  ⟨rfl, fun _ => SockSame.refl _, rfl, rfl, ReqsExt.refl _⟩
theorem sameView_ev (w : World) (s : String) : SameView w (w.ev s) :=
  ⟨rfl, fun _ => SockSame.refl _, rfl, rfl, ReqsExt.refl _⟩

/-- an update of one request that leaves a recorded response alone -/
theorem sameView_setReq (w : World) (r : Nat) (f : Req → Req)
    (hf : ∀ x, (w.reqs.getD r default).resp = some x → (f (w.reqs.getD r default)).resp = some x) :
    SameView w (w.setReq r f) := by
  refine ⟨rfl, fun _ => SockSame.refl _, rfl, rfl, ⟨by unfold World.setReq; simp, ?_⟩⟩
  intro r' x hx
  rw [req_setReq]
  split
  · rename_i hc; rw [← hc.1] at hx ⊢; exact hf x hx
  · exact hx

theorem sameView_pushReq (w : World) (q : Req) : SameView w { w with reqs := w.reqs.push q } := by
  refine ⟨rfl, fun _ => SockSame.refl _, rfl, rfl, ⟨by simp, ?_⟩⟩
  intro r x hx
  have hr : r < w.reqs.size := by
    by_cases h : r < w.reqs.size
    · exact h
    · rw [getD_oob _ _ _ (Nat.le_of_not_lt h)] at hx
      exact absurd hx (by simp [default, instInhabitedReq.default])
  show ((w.reqs.push q).getD r default).resp = some x
  rw [getD_push_lt _ _ _ _ hr]; exact hx

theorem sameView_answer (w : World) (r : Nat) (resp : Resp) : SameView w (w.answer r resp) := by
  unfold World.answer
  split
  · exact SameView.refl _
  · rename_i hn
    refine (sameView_ev w _).trans (sameView_setReq _ r _ ?_)
    intro x hx
    have : (w.reqs.getD r default).resp = some x := hx
    rw [this] at hn; simp at hn

theorem sameView_trSend (w : World) (ti : Nat) (batch : List Pkt) : SameView w (trSend w ti batch) := by
  unfold trSend
  exact ⟨rfl, fun _ => SockSame.refl _, rfl, rfl, ReqsExt.refl _⟩

/-- an event of a session that is not closed -/
theorem pres_sev (w : World) (sid : Nat) (e : SEv) (hnc : e.final = true → ¬ closedW w sid) (he : e.isClose = false)
    (hn : e.accNeutral = true) : Pres w (w.sev sid e) := by
  intro i
  have hcw : ∀ j, closedW (w.sev sid e) j ↔ closedW w j := fun j => by unfold closedW; simp
  have hci : ∀ j, closeIn j (w.slog ++ [(sid, e)]) ↔ closeIn j w.slog := fun j => by
    rw [closeIn_append, closeIn_single]; simp [he]
  refine ⟨⟨?_, ?_, ?_, ?_, ?_, ?_, ?_, i.acc.sev_neutral sid e hn,
    fun j hm => by rw [sock_sev]; exact i.regOpen j (by simpa using hm)⟩, ⟨?_, ?_, ?_, ?_, ?_, ?_, ?_⟩⟩
  · rw [slog_sev]
    exact logOK_snoc _ _ i.logOK (fun hf hc => hnc hf (i.logClosed sid hc))
  · intro j hc; rw [slog_sev, hci] at hc; exact (hcw j).mpr (i.logClosed j hc)
  · intro j hc; rw [slog_sev, hci]; exact i.closedLog j ((hcw j).mp hc)
  · intro j; simp; exact i.sockOK j
  · intro j hm
    simp at hm ⊢
    obtain ⟨a, b, c⟩ := i.regLive j hm
    exact ⟨fun hc => a ((hcw j).mp hc), b, c⟩
  · simp; exact i.regNodup
  · intro j ha
    simp at ha ⊢
    rcases i.annReg j ha with r | r
    · exact Or.inl r
    · exact Or.inr ((hcw j).mpr r)
  · intro j; simp
  · exact ⟨[(sid, e)], by simp⟩
  · exact ⟨by simp, fun r x hx => by simpa using hx⟩
  · simp
  · intro j _; simp
  · intro j ha; simpa using ha
  · intro j hm; simp at hm; exact Or.inl hm

/-- a field update that changes nothing the invariant reads -/
theorem sameView_fields (w w' : World) (h1 : w'.socks = w.socks) (h2 : w'.slog = w.slog)
    (h3 : w'.registry = w.registry) (h4 : w'.reqs = w.reqs) : SameView w w' := by
  refine ⟨by rw [h1], fun j => ?_, h2, h3, ⟨by rw [h4]; exact Nat.le_refl _, fun r x hx => by rw [h4]; exact hx⟩⟩
  have : w'.sock j = w.sock j := by unfold World.sock; rw [h1]
  rw [this]; exact SockSame.refl _

/-- an update of one session that may move its state forward (not to closed) -/
theorem pres_setSock (w : World) (sid : Nat) (f : Sock → Sock)
    (hrank : (w.sock sid).rs.rank ≤ (f (w.sock sid)).rs.rank)
    (hcl : (f (w.sock sid)).rs = .closed ↔ (w.sock sid).rs = .closed)
    (hann : (f (w.sock sid)).announced = (w.sock sid).announced)
    (hproto : (f (w.sock sid)).proto = (w.sock sid).proto)
    (hok : sid < w.socks.size → SockOK (w.sock sid) → SockOK (f (w.sock sid)))
    (hacc : sid < w.socks.size → AccS (w.sock sid) sid w.slog → AccS (f (w.sock sid)) sid w.slog) :
    Pres w (w.setSock sid f) := by
  intro i
  have hs : ∀ j, (w.setSock sid f).sock j = w.sock j ∨
      (j = sid ∧ sid < w.socks.size ∧ (w.setSock sid f).sock j = f (w.sock sid)) := fun j => by
    rw [sock_setSock]; split
    · rename_i hc; exact Or.inr ⟨hc.1.symm, hc.2, by rw [← hc.1]⟩
    · exact Or.inl rfl
  have hcw : ∀ j, closedW (w.setSock sid f) j ↔ closedW w j := fun j => by
    unfold closedW
    rcases hs j with h | ⟨hj, hz, h⟩
    · rw [h]
    · rw [h, hj]; exact hcl
  have hacc' : AccInv (w.setSock sid f) := by
    refine ⟨fun j => ?_, fun e he hn => by simpa using i.acc.fresh e he hn, i.acc.hist, i.acc.tight⟩
    rcases hs j with h | ⟨hj, hz, h⟩
    · rw [h]; exact i.acc.ses j
    · rw [h, hj]; exact hacc hz (i.acc.ses sid)
  have hro : ∀ j ∈ (w.setSock sid f).registry, ((w.setSock sid f).sock j).rs ≠ .opening := by
    intro j hm
    have hm' : j ∈ w.registry := by simpa using hm
    have ho := i.regOpen j hm'
    rcases hs j with h | ⟨hj, hz, h⟩
    · rw [h]; exact ho
    · rw [h]
      intro hop
      rw [hj] at ho
      have := hrank
      rw [hop] at this
      cases hr : (w.sock sid).rs <;> simp [hr, RS.rank] at this ho
  refine ⟨⟨i.logOK, ?_, ?_, ?_, ?_, i.regNodup, ?_, hacc', hro⟩, ⟨?_, ⟨[], by simp⟩, ReqsExt.refl _, by simp, ?_, ?_, fun j hm => Or.inl hm⟩⟩
  · intro j hc; exact (hcw j).mpr (i.logClosed j hc)
  · intro j hc; exact i.closedLog j ((hcw j).mp hc)
  · intro j
    rcases hs j with h | ⟨hj, hz, h⟩
    · rw [h]; exact i.sockOK j
    · rw [h]; exact hok hz (i.sockOK sid)
  · intro j hm
    obtain ⟨a, b, c⟩ := i.regLive j hm
    refine ⟨fun hc => a ((hcw j).mp hc), by simpa using b, ?_⟩
    rcases hs j with h | ⟨hj, hz, h⟩
    · rw [h]; exact c
    · rw [h, hann, ← hj]; exact c
  · intro j ha
    have ha' : (w.sock j).announced = true := by
      rcases hs j with h | ⟨hj, hz, h⟩
      · rw [h] at ha; exact ha
      · rw [h, hann, ← hj] at ha; exact ha
    rcases i.annReg j ha' with r | r
    · exact Or.inl r
    · exact Or.inr ((hcw j).mpr r)
  · intro j
    rcases hs j with h | ⟨hj, hz, h⟩
    · rw [h]; exact Nat.le_refl _
    · rw [h, hj]; exact hrank
  · intro j _
    rcases hs j with h | ⟨hj, hz, h⟩
    · rw [h]
    · rw [h, hj]; exact hproto
  · intro j ha
    rcases hs j with h | ⟨hj, hz, h⟩
    · rw [h]; exact ha
    · rw [h, hann, ← hj]; exact ha

/-- a new session record: not announced, not registered, opening -/
theorem pres_pushSock (w : World) (s0 : Sock) (hrs : s0.rs = .opening) (hann : s0.announced = false)
    (hdc : s0.drainClose = none) (hwb : s0.wbuf = []) (hpf : s0.packetsFn = []) (hsc : s0.sentCb = [])
    (hup : s0.upgraded = false) (hcand : s0.cand = none) : Pres w { w with socks := w.socks.push s0 } := by
  intro i
  have hs : ∀ j, ({ w with socks := w.socks.push s0 } : World).sock j = w.sock j ∨
      (j = w.socks.size ∧ w.sock j = default ∧ ({ w with socks := w.socks.push s0 } : World).sock j = s0) := fun j => by
    unfold World.sock
    by_cases h : j < w.socks.size
    · exact Or.inl (getD_push_lt _ _ _ _ h)
    · by_cases h2 : j = w.socks.size
      · subst h2; exact Or.inr ⟨rfl, getD_oob _ _ _ (Nat.le_refl _), getD_push_eq _ _ _⟩
      · refine Or.inl ?_
        rw [getD_oob _ _ _ (by simp; omega), getD_oob _ _ _ (by omega)]
  have hcw : ∀ j, closedW ({ w with socks := w.socks.push s0 } : World) j ↔ closedW w j := fun j => by
    unfold closedW
    rcases hs j with h | ⟨_, hd, h⟩
    · rw [h]
    · rw [h, hd, hrs]; simp [default, instInhabitedSock.default]
  have hacc' : AccInv ({ w with socks := w.socks.push s0 } : World) := by
    refine ⟨fun j => ?_, fun e he hn => ?_, i.acc.hist, i.acc.tight⟩
    · rcases hs j with h | ⟨hj, _, h⟩
      · rw [h]; exact i.acc.ses j
      · rw [h]
        -- nothing of the new index has entered the accounts
        have hfr : ∀ e ∈ w.slog, e.2.accNeutral = false → e.1 ≠ j := fun e he hn => by
          have := i.acc.fresh e he hn; omega
        have e1 : createdPkts j w.slog = [] := proj_empty_of_fresh _ _ _ (fun e h => (neutral_created e h).1) hfr
        have e2 : createdCbs j w.slog = [] := proj_empty_of_fresh _ _ _ (fun e h => (neutral_created e h).2) hfr
        have e3 : flushedPkts j w.slog = [] := proj_empty_of_fresh _ _ _ (fun e h => (neutral_flushed e h).1) hfr
        have e4 : flushedCbs j w.slog = [] := proj_empty_of_fresh _ _ _ (fun e h => (neutral_flushed e h).2) hfr
        have e5 : ranCbs j w.slog = [] := proj_empty_of_fresh _ _ _ (fun e h => (neutral_ran e h).1) hfr
        have e6 : proj fUpgrade j w.slog = [] := proj_empty_of_fresh _ _ _ (fun e h => (neutral_ran e h).2) hfr
        refine ⟨⟨[], ?_, fun _ => hwb.symm⟩, ⟨[], ?_, fun _ => hpf.symm⟩, ⟨[], ?_, fun _ => by rw [hsc]; rfl⟩, ?_⟩
        · show createdPkts j w.slog = flushedPkts j w.slog ++ []
          rw [e1, e3]; rfl
        · show createdCbs j w.slog = flushedCbs j w.slog ++ []
          rw [e2, e4]; rfl
        · show flushedCbs j w.slog = ranCbs j w.slog ++ []
          rw [e4, e5]; rfl
        · show upgradeCount j w.slog = _
          unfold upgradeCount; rw [e6, hup]; rfl
    · have := i.acc.fresh e he hn
      show e.1 < (w.socks.push s0).size
      simp; omega
  have hro : ∀ j ∈ w.registry, (({ w with socks := w.socks.push s0 } : World).sock j).rs ≠ .opening := by
    intro j hm
    rcases hs j with h | ⟨hj, _, _⟩
    · rw [h]; exact i.regOpen j hm
    · have := (i.regLive j hm).2.1; omega
  refine ⟨⟨i.logOK, ?_, ?_, ?_, ?_, i.regNodup, ?_, hacc', hro⟩, ⟨?_, ⟨[], by simp⟩, ReqsExt.refl _, by simp, ?_, ?_, fun j hm => Or.inl hm⟩⟩
  · intro j hc; exact (hcw j).mpr (i.logClosed j hc)
  · intro j hc; exact i.closedLog j ((hcw j).mp hc)
  · intro j
    rcases hs j with h | ⟨_, _, h⟩
    · rw [h]; exact i.sockOK j
    · rw [h]
      refine ⟨fun hc => ?_, fun hd => ?_, fun hd => ?_⟩
      · rw [hrs] at hc; cases hc
      · rw [hdc] at hd; cases hd
      · rw [hcand] at hd; cases hd
  · intro j hm
    obtain ⟨a, b, c⟩ := i.regLive j hm
    refine ⟨fun hc => a ((hcw j).mp hc), by simp; omega, ?_⟩
    rcases hs j with h | ⟨hj, _, _⟩
    · rw [h]; exact c
    · omega
  · intro j ha
    rcases hs j with h | ⟨_, _, h⟩
    · rw [h] at ha
      rcases i.annReg j ha with r | r
      · exact Or.inl r
      · exact Or.inr ((hcw j).mpr r)
    · rw [h, hann] at ha; cases ha
  · intro j
    rcases hs j with h | ⟨_, hd, h⟩
    · rw [h]; exact Nat.le_refl _
    · rw [h, hd, hrs]; exact Nat.le_refl _
  · intro j hj
    rcases hs j with h | ⟨hj', _, _⟩
    · rw [h]
    · omega
  · intro j ha
    rcases hs j with h | ⟨_, hd, _⟩
    · rw [h]; exact ha
    · rw [hd] at ha; simp [default, instInhabitedSock.default] at ha

/-- the last steps of a handshake: the registry entry, then the announcement -/
theorem pres_register (w : World) (sid : Nat) (hsz : sid < w.socks.size) (hnew : sid ∉ w.registry)
    (hnc : ¬ closedW w sid) (hno : (w.sock sid).rs ≠ .opening) :
    Pres w (({ w with registry := w.registry ++ [sid] } : World).setSock sid fun s => { s with announced := true }) := by
  intro i
  generalize hw' : (({ w with registry := w.registry ++ [sid] } : World).setSock sid fun s => { s with announced := true }) = w'
  have hs : ∀ j, SockSame (w.sock j) { (w'.sock j) with announced := (w.sock j).announced } ∧
      (w'.sock j).announced = ((w.sock j).announced || (j == sid)) := fun j => by
    rw [← hw', sock_setSock]
    show SockSame (w.sock j) _ ∧ _
    by_cases hj : sid = j
    · subst hj
      have : (({ w with registry := w.registry ++ [sid] } : World).socks.size) = w.socks.size := rfl
      simp only [this, hsz, and_self, if_true]
      exact ⟨⟨rfl, rfl, rfl, rfl, rfl, rfl, rfl, rfl, id⟩, by simp⟩
    · simp only [hj, false_and, if_false]
      refine ⟨⟨rfl, rfl, rfl, rfl, rfl, rfl, rfl, rfl, id⟩, ?_⟩
      have : (j == sid) = false := by simp; exact fun h => hj h.symm
      rw [this]; simp
      rfl
  have hrs : ∀ j, (w'.sock j).rs = (w.sock j).rs := fun j => (hs j).1.rs
  have hcw : ∀ j, closedW w' j ↔ closedW w j := fun j => by unfold closedW; rw [hrs]
  have hlog : w'.slog = w.slog := by rw [← hw']; rfl
  have hreg : w'.registry = w.registry ++ [sid] := by rw [← hw']; rfl
  have hsize : w'.socks.size = w.socks.size := by rw [← hw']; simp
  have hacc' : AccInv w' := by
    refine ⟨fun j => ?_, fun e he hn => by rw [hlog] at he; rw [hsize]; exact i.acc.fresh e he hn,
      by rw [hlog]; exact i.acc.hist, by rw [hlog]; exact i.acc.tight⟩
    rw [hlog]
    have s := (hs j).1
    have h1 := s.wbuf; have h2 := s.packetsFn; have h3 := s.sentCb; have h4 := s.upgraded
    simp only at h1 h2 h3 h4
    exact (i.acc.ses j).congr (by rw [hrs]) h1 h2 h3 h4
  have hro : ∀ j ∈ w'.registry, (w'.sock j).rs ≠ .opening := by
    intro j hm
    rw [hreg] at hm
    rw [hrs]
    rcases List.mem_append.mp hm with h | h
    · exact i.regOpen j h
    · have hj : j = sid := by simpa using h
      rw [hj]; exact hno
  refine ⟨⟨by rw [hlog]; exact i.logOK, ?_, ?_, ?_, ?_, ?_, ?_, hacc', hro⟩, ⟨?_, ⟨[], by simp [hlog]⟩, ?_, Nat.le_of_eq hsize.symm, ?_, ?_, ?_⟩⟩
  · intro j hc; rw [hlog] at hc; exact (hcw j).mpr (i.logClosed j hc)
  · intro j hc; rw [hlog]; exact i.closedLog j ((hcw j).mp hc)
  · intro j
    have o := i.sockOK j
    have s := (hs j).1
    exact ⟨fun hc => by
             have := s.sentCb; simp only at this; rw [this]; exact o.cb (by rw [← hrs]; exact hc),
           fun hd => by
             have h1 := s.drainClose; simp only at h1
             rw [hrs]; exact o.dc (by rw [← h1]; exact hd),
           fun hd => by
             have h1 := s.upgraded; have h2 := s.candm; simp only at h1 h2
             rw [h1]; exact o.cu (h2 hd)⟩
  · intro j hm
    rw [hreg] at hm
    rcases List.mem_append.mp hm with h | h
    · obtain ⟨a, b, c⟩ := i.regLive j h
      exact ⟨fun hc => a ((hcw j).mp hc), by rw [hsize]; exact b, by rw [(hs j).2, c]; simp⟩
    · have hj : j = sid := by simpa using h
      subst hj
      exact ⟨fun hc => hnc ((hcw j).mp hc), by rw [hsize]; exact hsz, by rw [(hs j).2]; simp⟩
  · rw [hreg]
    exact List.nodup_append.mpr ⟨i.regNodup, by simp, by
      intro a ha b hb
      have : b = sid := by simpa using hb
      subst this
      intro hab; subst hab; exact hnew ha⟩
  · intro j ha
    rw [(hs j).2] at ha
    rw [hreg]
    by_cases hj : j = sid
    · exact Or.inl (List.mem_append.mpr (Or.inr (by simp [hj])))
    · have : (j == sid) = false := by simpa using hj
      rw [this] at ha
      simp at ha
      rcases i.annReg j ha with r | r
      · exact Or.inl (List.mem_append.mpr (Or.inl r))
      · exact Or.inr ((hcw j).mpr r)
  · intro j; rw [hrs]; exact Nat.le_refl _
  · rw [← hw']; exact ⟨Nat.le_refl _, fun r x hx => hx⟩
  · intro j _; have := (hs j).1.proto; simp only at this; exact this
  · intro j ha; rw [(hs j).2, ha]; simp
  · intro j hm
    rw [hreg] at hm
    rcases List.mem_append.mp hm with h | h
    · exact Or.inl h
    · have hj : j = sid := by simpa using h
      subst hj
      cases ha : (w.sock j).announced with
      | false => exact Or.inr rfl
      | true =>
        rcases i.annReg j ha with r | r
        · exact Or.inl r
        · exact absurd r hnc

end EIO.Ses
