import EIO.Lemmas.SyncMapAL
/-! The invariant of the model of types/map.go and the lemmas about its internal steps -/
namespace EIO.SMap

/-- the entry a reader reaches for a key -/
def St.ent (s : St) (k : Int) : Option Nat :=
  match lk s.read k with
  | some e => some e
  | none => if s.amended then lk s.dl k else none

theorem abs_eq (s : St) (k : Int) : s.abs k = (s.ent k).bind s.eload := by
  unfold St.abs St.ent; split
  · simp_all
  · split <;> simp_all

/-- what the comments of `Map` and `entry` say, as one predicate -/
structure WF (s : St) : Prop where
  nofault : s.fault = false
  rnd : ND s.read
  dnd : ND s.dl
  bound : ∀ k e, (lk s.read k = some e ∨ lk s.dl k = some e) → e < s.next
  inj : ∀ k k' e, (lk s.read k = some e ∨ lk s.dl k = some e) →
    (lk s.read k' = some e ∨ lk s.dl k' = some e) → k = k'
  /-- `p == expunged` implies `m.dirty != nil`; `amended` implies `m.dirty != nil` -/
  nilDirty : s.dirty = none → s.amended = false ∧ ∀ k e, lk s.read k = some e → s.slot e ≠ .expunged
  /-- with a dirty map: a read entry is expunged iff its key is missing from the dirty map,
      and otherwise the dirty map holds the very same entry -/
  link : s.dirty ≠ none → ∀ k e, lk s.read k = some e →
    (s.slot e = .expunged ↔ lk s.dl k = none) ∧ (∀ e', lk s.dl k = some e' → e' = e)
  /-- not amended: the dirty map has no key the read map lacks -/
  sub : s.amended = false → ∀ k, lk s.read k = none → lk s.dl k = none
  /-- expunged entries are not stored in the dirty map -/
  dlive : ∀ k e, lk s.dl k = some e → s.slot e ≠ .expunged

theorem wf_init : WF {} := by
  constructor <;> simp [St.dl, ND, St.slot]

theorem WF.ent_inj {s : St} (h : WF s) {k k' : Int} {e : Nat}
    (h1 : s.ent k = some e) (h2 : s.ent k' = some e) : k = k' := by
  apply h.inj k k' e
  · unfold St.ent at h1; split at h1
    · left; simp_all
    · split at h1 <;> simp_all
  · unfold St.ent at h2; split at h2
    · left; simp_all
    · split at h2 <;> simp_all

theorem WF.ent_live {s : St} (h : WF s) {k : Int} {e : Nat} (h1 : s.ent k = some e)
    (hr : lk s.read k = none) : s.slot e ≠ .expunged := by
  unfold St.ent at h1; rw [hr] at h1; simp at h1
  exact h.dlive k e h1.2

theorem WF.dirty_of_amended {s : St} (h : WF s) (ha : s.amended = true) : s.dirty ≠ none := by
  intro hd; have := (h.nilDirty hd).1; simp_all

theorem WF.dirty_of_expunged {s : St} (h : WF s) {k : Int} {e : Nat} (hr : lk s.read k = some e)
    (he : s.slot e = .expunged) : s.dirty ≠ none := by
  intro hd; exact (h.nilDirty hd).2 k e hr he

/-- a state that differs only in slots, and not in which of them are expunged -/
theorem wf_of_same {s s' : St} (h : WF s) (hr : s'.read = s.read) (hd : s'.dirty = s.dirty)
    (ha : s'.amended = s.amended) (hn : s'.next = s.next) (hf : s'.fault = s.fault)
    (hx : ∀ i, s'.slot i = .expunged ↔ s.slot i = .expunged) : WF s' := by
  have hdl : s'.dl = s.dl := by simp [St.dl, hd]
  constructor
  · rw [hf]; exact h.nofault
  · rw [hr]; exact h.rnd
  · rw [hdl]; exact h.dnd
  · rw [hr, hdl, hn]; exact h.bound
  · rw [hr, hdl]; exact h.inj
  · rw [hr, hd, ha]; intro hh; refine ⟨(h.nilDirty hh).1, ?_⟩
    intro k e hk hs; exact (h.nilDirty hh).2 k e hk ((hx e).1 hs)
  · rw [hr, hd, hdl]; intro hh k e hk
    have := h.link hh k e hk
    exact ⟨by rw [hx e]; exact this.1, this.2⟩
  · rw [hr, hdl, ha]; exact h.sub
  · rw [hdl]; intro k e hk hs; exact h.dlive k e hk ((hx e).1 hs)

theorem slot_setSlot (s : St) (e : Nat) (x : Slot) (i : Nat) :
    (s.setSlot e x).slot i = if i = e then x else s.slot i := rfl

theorem wf_setSlot {s : St} (h : WF s) {e : Nat} {x : Slot} (h1 : s.slot e ≠ .expunged)
    (h2 : x ≠ .expunged) : WF (s.setSlot e x) := by
  apply wf_of_same (s' := s.setSlot e x) h rfl rfl rfl rfl rfl
  intro i; rw [slot_setSlot]; split
  · rename_i hi; subst hi; simp [h1, h2]
  · rfl

@[simp] theorem ent_setSlot (s : St) (e : Nat) (x : Slot) (k : Int) : (s.setSlot e x).ent k = s.ent k := rfl

theorem eload_setSlot (s : St) (e : Nat) (x : Slot) (i : Nat) :
    (s.setSlot e x).eload i = if i = e then x.load else s.eload i := by
  unfold St.eload; rw [slot_setSlot]; by_cases hi : i = e <;> simp [hi]

/-- writing through the entry of key `k` changes what `k` holds and nothing else -/
theorem abs_setSlot {s : St} (h : WF s) {k : Int} {e : Nat} (hk : s.ent k = some e) (x : Slot) (k' : Int) :
    (s.setSlot e x).abs k' =
      if k' = k then x.load else s.abs k' := by
  rw [abs_eq, abs_eq, ent_setSlot]
  by_cases hkk : k' = k
  · subst hkk; simp [hk, eload_setSlot]
  · simp only [hkk, if_false]
    cases he : s.ent k' with
    | none => rfl
    | some e' =>
      have : e' ≠ e := by intro hh; subst hh; exact hkk (h.ent_inj he hk)
      simp [eload_setSlot, this]

/-- writing to an entry no key reaches changes nothing -/
theorem abs_setSlot_orphan {s : St} {e : Nat} (ho : ∀ k, s.ent k ≠ some e) (x : Slot) (k' : Int) :
    (s.setSlot e x).abs k' = s.abs k' := by
  rw [abs_eq, abs_eq, ent_setSlot]
  cases he : s.ent k' with
  | none => rfl
  | some e' =>
    have : e' ≠ e := by intro hh; subst hh; exact ho k' he
    simp [eload_setSlot, this]

end EIO.SMap
