import EIO.Model.WT
import EIO.Spec.WT
/- helper lemmas about the frame reader model -/
namespace EIO.WT
open EIO

theorem kindBit_lt (k : Kind) : Spec.kindBit k = 0 ∨ Spec.kindBit k = 128 := by
  cases k <;> simp [Spec.kindBit]

theorem header_byte (k : Kind) (n : Nat) (h : n < 128) :
    kindOfByte (UInt8.ofNat (Spec.kindBit k + n)) = k ∧
    (UInt8.ofNat (Spec.kindBit k + n)).toNat % 128 = n := by
  cases k
  · have : (UInt8.ofNat (Spec.kindBit .text + n)).toNat = n := by
      simp [Spec.kindBit]; omega
    simp only [kindOfByte, this]
    constructor
    · have : ¬ n / 128 % 2 = 1 := by omega
      rw [if_neg this]
    · omega
  · have : (UInt8.ofNat (Spec.kindBit .binary + n)).toNat = 128 + n := by
      simp [Spec.kindBit]; omega
    simp only [kindOfByte, this]
    constructor
    · have : (128 + n) / 128 % 2 = 1 := by omega
      rw [if_pos this]
    · omega

/-- `read n` succeeds when `n` bytes are there -/
theorem RConn.read_ok (c : RConn) (p rest : Bytes) (h : c.input = p ++ rest) :
    c.read p.length = .ok (p, { c with input := rest }) := by
  unfold RConn.read
  simp [h]

/-- fields no step of `advanceFrame` ever changes -/
structure RConn.SameCfg (c c' : RConn) : Prop where
  tail : c'.tail = c.tail
  limit : c'.limit = c.limit
  err : c'.err = c.err
  errCount : c'.errCount = c.errCount
  cur : c'.cur = c.cur
  closeFails : c'.closeFails = c.closeFails

theorem RConn.SameCfg.refl (c : RConn) : c.SameCfg c := ⟨rfl, rfl, rfl, rfl, rfl, rfl⟩

theorem RConn.SameCfg.trans {a b c : RConn} (h1 : a.SameCfg b) (h2 : b.SameCfg c) : a.SameCfg c :=
  ⟨h2.tail.trans h1.tail, h2.limit.trans h1.limit, h2.err.trans h1.err,
   h2.errCount.trans h1.errCount, h2.cur.trans h1.cur, h2.closeFails.trans h1.closeFails⟩

theorem RConn.skip_cfg (c : RConn) :
    (∀ c', c.skip = .ok c' → c.SameCfg c' ∧ c'.rlen = c.rlen ∧ c'.closes = c.closes) ∧
    (∀ e c', c.skip = .error (e, c') → c.SameCfg c' ∧ c'.closes = c.closes) := by
  unfold RConn.skip
  constructor
  · intro c' h
    split at h
    · split at h
      · simp at h
      · simp at h; subst h; exact ⟨⟨rfl, rfl, rfl, rfl, rfl, rfl⟩, rfl, rfl⟩
    · simp at h; subst h; exact ⟨RConn.SameCfg.refl c, rfl, rfl⟩
  · intro e c' h
    split at h
    · split at h
      · simp at h; obtain ⟨_, rfl⟩ := h; exact ⟨⟨rfl, rfl, rfl, rfl, rfl, rfl⟩, rfl⟩
      · simp at h
    · simp at h

theorem RConn.read_cfg (c : RConn) (n : Nat) (p : Bytes) (c' : RConn) (h : c.read n = .ok (p, c')) :
    c.SameCfg c' ∧ c'.rlen = c.rlen ∧ c'.closes = c.closes ∧ c'.rem = c.rem := by
  unfold RConn.read at h
  split at h
  · simp at h; obtain ⟨_, rfl⟩ := h; exact ⟨⟨rfl, rfl, rfl, rfl, rfl, rfl⟩, rfl, rfl, rfl⟩
  · simp at h

theorem RConn.header_cfg (c : RConn) :
    (∀ k c', c.header = .ok (k, c') → c.SameCfg c' ∧ c'.rlen = c.rlen ∧ c'.closes = c.closes) ∧
    (∀ e c', c.header = .error (e, c') → c.SameCfg c' ∧ c'.closes = c.closes) := by
  unfold RConn.header RConn.readFailState
  constructor
  · intro k c' h
    split at h
    · simp at h
    · rename_i p c1 h1
      obtain ⟨s1, r1, cl1, _⟩ := RConn.read_cfg c 1 p c1 h1
      simp only at h
      split at h
      · split at h
        · simp at h
        · rename_i p2 c2 h2
          obtain ⟨s2, r2, cl2, _⟩ := RConn.read_cfg _ 2 p2 c2 h2
          simp at h; obtain ⟨_, rfl⟩ := h
          refine ⟨⟨?_, ?_, ?_, ?_, ?_, ?_⟩, ?_, ?_⟩ <;> simp_all [s1.tail, s2.tail, s1.limit, s2.limit,
            s1.err, s2.err, s1.errCount, s2.errCount, s1.cur, s2.cur, s1.closeFails, s2.closeFails]
      · split at h
        · split at h
          · simp at h
          · rename_i p2 c2 h2
            obtain ⟨s2, r2, cl2, _⟩ := RConn.read_cfg _ 8 p2 c2 h2
            split at h
            · simp at h
            · simp at h; obtain ⟨_, rfl⟩ := h
              refine ⟨⟨?_, ?_, ?_, ?_, ?_, ?_⟩, ?_, ?_⟩ <;> simp_all [s1.tail, s2.tail, s1.limit, s2.limit,
                s1.err, s2.err, s1.errCount, s2.errCount, s1.cur, s2.cur, s1.closeFails, s2.closeFails]
        · simp at h; obtain ⟨_, rfl⟩ := h
          exact ⟨⟨s1.tail, s1.limit, s1.err, s1.errCount, s1.cur, s1.closeFails⟩, r1, cl1⟩
  · intro e c' h
    split at h
    · simp at h; obtain ⟨_, rfl⟩ := h; exact ⟨⟨rfl, rfl, rfl, rfl, rfl, rfl⟩, rfl⟩
    · rename_i p c1 h1
      obtain ⟨s1, r1, cl1, _⟩ := RConn.read_cfg c 1 p c1 h1
      simp only at h
      split at h
      · split at h
        · simp at h; obtain ⟨_, rfl⟩ := h
          exact ⟨⟨s1.tail, s1.limit, s1.err, s1.errCount, s1.cur, s1.closeFails⟩, cl1⟩
        · simp at h
      · split at h
        · split at h
          · simp at h; obtain ⟨_, rfl⟩ := h
            exact ⟨⟨s1.tail, s1.limit, s1.err, s1.errCount, s1.cur, s1.closeFails⟩, cl1⟩
          · rename_i p2 c2 h2
            obtain ⟨s2, r2, cl2, _⟩ := RConn.read_cfg _ 8 p2 c2 h2
            split at h
            · simp at h; obtain ⟨_, rfl⟩ := h
              refine ⟨⟨?_, ?_, ?_, ?_, ?_, ?_⟩, ?_⟩ <;> simp_all [s1.tail, s2.tail, s1.limit, s2.limit,
                s1.err, s2.err, s1.errCount, s2.errCount, s1.cur, s2.cur, s1.closeFails, s2.closeFails]
            · simp at h
        · simp at h

theorem RConn.checkLimit_cfg (c : RConn) (k : Kind) :
    (∀ k' c', c.checkLimit k = .frame k' c' →
        c.SameCfg c' ∧ c'.closes = c.closes ∧ c'.rem = c.rem ∧ c'.rlen = c.rlen + c.rem ∧
        (c.limit > 0 → c'.rlen ≤ c.limit)) ∧
    (∀ e c', c.checkLimit k = .fail e c' → c.SameCfg c' ∧ c'.closes = c.closes ++ [1009] ∧
        e = (if c.closeFails then .closeFailed else .readLimit)) := by
  unfold RConn.checkLimit
  constructor
  · intro k' c' h
    simp only at h
    split at h
    · split at h <;> simp at h
    · rename_i hn
      simp at h; obtain ⟨_, rfl⟩ := h
      refine ⟨⟨rfl, rfl, rfl, rfl, rfl, rfl⟩, rfl, rfl, rfl, ?_⟩
      intro hl; simp only at hn ⊢; omega
  · intro e c' h
    simp only at h
    split at h
    · split at h
      · rename_i hcf; simp at h; obtain ⟨rfl, rfl⟩ := h
        exact ⟨⟨rfl, rfl, rfl, rfl, rfl, rfl⟩, rfl, by simp_all⟩
      · rename_i hcf; simp at h; obtain ⟨rfl, rfl⟩ := h
        exact ⟨⟨rfl, rfl, rfl, rfl, rfl, rfl⟩, rfl, by simp_all⟩
    · simp at h

/-- `advanceFrame` never touches tail, limit, err, errCount, cur, closeFails;
    it closes the session (code 1009) only when it reports the limit error of
    step 4, and a frame it hands out is within a positive limit -/
theorem RConn.advanceFrame_cfg (c : RConn) :
    (∀ k c', c.advanceFrame = .frame k c' →
        c.SameCfg c' ∧ c'.closes = c.closes ∧ (c.limit > 0 → c'.rlen ≤ c.limit) ∧
        c'.rlen = c.rlen + c'.rem) ∧
    (∀ e c', c.advanceFrame = .fail e c' → c.SameCfg c' ∧
        (c'.closes = c.closes ∨ c'.closes = c.closes ++ [1009])) := by
  unfold RConn.advanceFrame
  constructor
  · intro k c' h
    split at h
    · simp at h
    · rename_i c1 h1
      obtain ⟨s1, r1, cl1⟩ := (RConn.skip_cfg c).1 c1 h1
      split at h
      · simp at h
      · rename_i k2 c2 h2
        obtain ⟨s2, r2, cl2⟩ := (RConn.header_cfg c1).1 k2 c2 h2
        obtain ⟨s3, cl3, rm3, rl3, lim3⟩ := (RConn.checkLimit_cfg c2 k2).1 k c' h
        refine ⟨s1.trans (s2.trans s3), by rw [cl3, cl2, cl1], ?_, by rw [rl3, rm3, r2, r1]⟩
        intro hl
        have := lim3 (by rw [s2.limit, s1.limit]; exact hl)
        rw [s2.limit, s1.limit] at this; exact this
  · intro e c' h
    split at h
    · rename_i e1 c1 h1
      simp at h; obtain ⟨rfl, rfl⟩ := h
      obtain ⟨s1, cl1⟩ := (RConn.skip_cfg c).2 _ _ h1
      exact ⟨s1, Or.inl cl1⟩
    · rename_i c1 h1
      obtain ⟨s1, r1, cl1⟩ := (RConn.skip_cfg c).1 c1 h1
      split at h
      · rename_i e2 c2 h2
        simp at h; obtain ⟨rfl, rfl⟩ := h
        obtain ⟨s2, cl2⟩ := (RConn.header_cfg c1).2 _ _ h2
        exact ⟨s1.trans s2, Or.inl (by rw [cl2, cl1])⟩
      · rename_i k2 c2 h2
        obtain ⟨s2, r2, cl2⟩ := (RConn.header_cfg c1).1 k2 c2 h2
        obtain ⟨s3, cl3, _⟩ := (RConn.checkLimit_cfg c2 k2).2 e c' h
        exact ⟨s1.trans (s2.trans s3), Or.inr (by rw [cl3, cl2, cl1])⟩

/-- parsing one well-formed header (any length form) -/
theorem RConn.header_ok (c : RConn) (f : Spec.LenForm) (k : Kind) (n : Nat) (rest : Bytes)
    (hin : c.input = Spec.headerWith f k n ++ rest) (hfit : f.fits n) :
    c.header = .ok (k, { c with input := rest, rem := n }) := by
  unfold RConn.header
  cases f with
  | short =>
    simp only [Spec.LenForm.fits] at hfit
    simp only [Spec.headerWith] at hin
    have hr := RConn.read_ok c [UInt8.ofNat (Spec.kindBit k + n)] rest (by simpa using hin)
    simp only [List.length_singleton] at hr
    rw [hr]
    obtain ⟨hk, hb⟩ := header_byte k n (by omega)
    simp only [List.headD_cons, hk, hb]
    have h126 : ¬ n = 126 := by omega
    have h127 : ¬ n = 127 := by omega
    simp only [h126, h127, if_false]
  | ext16 =>
    simp only [Spec.LenForm.fits] at hfit
    simp only [Spec.headerWith] at hin
    have hr := RConn.read_ok c [UInt8.ofNat (Spec.kindBit k + 126)] (be 2 n ++ rest) (by simpa using hin)
    simp only [List.length_singleton] at hr
    rw [hr]
    obtain ⟨hk, hb⟩ := header_byte k 126 (by omega)
    simp only [List.headD_cons, hk, hb, if_true]
    have hr2 := RConn.read_ok { c with input := be 2 n ++ rest, rem := 126 } (be 2 n) rest rfl
    simp only [be_length] at hr2
    rw [hr2]
    have hu : unbe (be 2 n) = n := unbe_be_of_lt 2 n (by omega)
    simp only [hu]
  | ext64 =>
    simp only [Spec.LenForm.fits] at hfit
    simp only [Spec.headerWith] at hin
    have hr := RConn.read_ok c [UInt8.ofNat (Spec.kindBit k + 127)] (be 8 n ++ rest) (by simpa using hin)
    simp only [List.length_singleton] at hr
    rw [hr]
    obtain ⟨hk, hb⟩ := header_byte k 127 (by omega)
    have h126 : ¬ (127 : Nat) = 126 := by omega
    simp only [List.headD_cons, hk, hb, h126, if_true, if_false]
    have hr2 := RConn.read_ok { c with input := be 8 n ++ rest, rem := 127 } (be 8 n) rest rfl
    simp only [be_length] at hr2
    rw [hr2]
    have hu : unbe (be 8 n) = n := unbe_be_of_lt 8 n (by
      have : (2:Nat) ^ 63 < 256 ^ 8 := by decide
      omega)
    have hm : ¬ n ≥ 2 ^ 63 := by omega
    simp only [hu, hm, if_false]

theorem RConn.skip_none (c : RConn) (hrem : c.rem = 0) : c.skip = .ok c := by
  unfold RConn.skip; simp [hrem]

/-- parsing one well-formed header (any length form), within the limit -/
theorem RConn.advanceFrame_ok (c : RConn) (f : Spec.LenForm) (k : Kind) (n : Nat) (rest : Bytes)
    (hrem : c.rem = 0) (hlen : c.rlen = 0) (hin : c.input = Spec.headerWith f k n ++ rest)
    (hfit : f.fits n) (hlim : c.limit = 0 ∨ n ≤ c.limit) :
    c.advanceFrame = .frame k { c with input := rest, rem := n, rlen := n } := by
  unfold RConn.advanceFrame
  rw [RConn.skip_none c hrem]
  simp only
  rw [RConn.header_ok c f k n rest hin hfit]
  simp only
  unfold RConn.checkLimit
  have hl : ¬ (c.limit > 0 ∧ n > c.limit) := by omega
  simp only [hlen, Nat.zero_add, hl, if_false]

/-- an oversized well-formed header: limit error (or the close error) and the
    session is closed with code 1009 -/
theorem RConn.advanceFrame_over (c : RConn) (f : Spec.LenForm) (k : Kind) (n : Nat) (rest : Bytes)
    (hrem : c.rem = 0) (hlen : c.rlen = 0) (hin : c.input = Spec.headerWith f k n ++ rest)
    (hfit : f.fits n) (hl : c.limit > 0) (hover : n > c.limit) :
    c.advanceFrame = .fail (if c.closeFails then .closeFailed else .readLimit)
      { c with input := rest, rem := n, rlen := n, closes := c.closes ++ [1009] } := by
  unfold RConn.advanceFrame
  rw [RConn.skip_none c hrem]
  simp only
  rw [RConn.header_ok c f k n rest hin hfit]
  simp only
  unfold RConn.checkLimit
  have hb : (c.limit > 0 ∧ n > c.limit) := by omega
  simp only [hlen, Nat.zero_add, hb, and_self, if_true]
  cases hcf : c.closeFails <;> simp

end EIO.WT

namespace EIO.WT
open EIO

/-- reading a whole payload that is present on the stream -/
theorem RConn.readAllLoop_ok (chunk : Nat) (hchunk : 0 < chunk) (fuel : Nat) :
    ∀ (c : RConn) (d rest acc : Bytes), d.length < fuel → c.cur = true → c.err = none →
      c.input = d ++ rest → c.rem = d.length →
      RConn.readAllLoop fuel c chunk acc =
        (acc ++ d, none, { c with input := rest, rem := 0, cur := false }) := by
  induction fuel with
  | zero => intro c d rest acc h; omega
  | succ fuel ih =>
    intro c d rest acc hf hcur herr hin hrem
    unfold RConn.readAllLoop RConn.readMsg
    simp only [hcur, herr, and_true, not_true, if_false, Bool.true_and]
    by_cases hz : c.rem > 0
    · have hne : c.input.isEmpty = false := by
        cases hd : d with
        | nil => simp [hd] at hrem; omega
        | cons a t => simp [hin, hd]
      simp only [hz, if_true, hne, Bool.false_eq_true, if_false]
      -- one Read call hands out the first `min chunk rem` bytes
      have hk : min chunk c.rem ≤ d.length := by omega
      have htake : c.input.take (min chunk c.rem) = d.take (min chunk c.rem) := by
        rw [hin, List.take_append_of_le_length hk]
      have hdrop : c.input.drop (min chunk c.rem) = d.drop (min chunk c.rem) ++ rest := by
        rw [hin, List.drop_append_of_le_length hk]
      have hlen : (d.take (min chunk c.rem)).length = min chunk c.rem := by simp; omega
      rw [htake, hdrop, hlen]
      have := ih { c with input := d.drop (min chunk c.rem) ++ rest, rem := c.rem - min chunk c.rem }
        (d.drop (min chunk c.rem)) rest (acc ++ d.take (min chunk c.rem))
        (by simp; omega) hcur herr rfl (by simp; omega)
      simp only [hcur, herr] at this
      rw [this]
      simp [List.append_assoc]
    · have hd : d = [] := by
        have : d.length = 0 := by omega
        exact List.eq_nil_of_length_eq_zero this
      have hr0 : c.rem = 0 := by omega
      subst hd
      simp only [hz, if_false]
      simp [hin, hr0]

theorem RConn.readAll_ok (c : RConn) (d rest : Bytes) (hcur : c.cur = true) (herr : c.err = none)
    (hin : c.input = d ++ rest) (hrem : c.rem = d.length) :
    c.readAll = (d, none, { c with input := rest, rem := 0, cur := false }) := by
  unfold RConn.readAll
  have := RConn.readAllLoop_ok 512 (by omega) (c.rem + 2) c d rest [] (by omega) hcur herr hin hrem
  simpa using this

/-- one whole frame, any length form, becomes exactly its message -/
theorem RConn.readMessage_ok (c : RConn) (f : Spec.LenForm) (m : Msg) (rest : Bytes)
    (herr : c.err = none) (hrem : c.rem = 0)
    (hin : c.input = Spec.encodeWith f m ++ rest) (hfit : f.fits m.data.length)
    (hlim : c.limit = 0 ∨ m.data.length ≤ c.limit) :
    c.readMessage = .msg m { c with input := rest, rem := 0, rlen := m.data.length, cur := false } := by
  obtain ⟨input, tail, rem, rlen, limit, err, errCount, cur, closes, closeFails⟩ := c
  simp only at herr hrem hin hlim
  subst herr hrem hin
  unfold RConn.readMessage RConn.nextReader
  simp only
  have hadv := RConn.advanceFrame_ok
    { input := Spec.encodeWith f m ++ rest, tail, rem := 0, rlen := 0, limit, err := none, errCount,
      cur := false, closes, closeFails } f m.kind m.data.length
    (m.data ++ rest) rfl rfl (by simp [Spec.encodeWith]) hfit hlim
  rw [hadv]
  simp only
  have hra := RConn.readAll_ok
    { input := m.data ++ rest, tail, rem := m.data.length, rlen := m.data.length, limit, err := none,
      errCount, cur := true, closes, closeFails }
    m.data rest rfl rfl rfl rfl
  rw [hra]

/-- a clean end of stream between frames is reported as an unexpected end -/
theorem RConn.readMessage_end (c : RConn) (herr : c.err = none) (hrem : c.rem = 0)
    (hin : c.input = []) (hg : c.errCount + 1 < errGuard) :
    c.readMessage = .error c.tail.peekErr
      { c with cur := false, rlen := 0, err := some c.tail.peekErr, errCount := c.errCount + 1 } := by
  unfold RConn.readMessage RConn.nextReader RConn.advanceFrame RConn.skip RConn.header RConn.read RConn.readFailState
  have : ¬ (c.errCount + 1 ≥ errGuard) := by omega
  simp [herr, hrem, hin, this]

/-- the transport's read loop over a stream of well-formed frames -/
theorem RConn.readMessages_ok (fms : List (Spec.LenForm × Msg)) :
    ∀ (fuel : Nat) (c : RConn) (acc : List Msg), fms.length < fuel →
      c.err = none → c.rem = 0 → c.errCount + 1 < errGuard →
      c.input = Spec.encodeAll fms →
      (∀ fm ∈ fms, fm.1.fits fm.2.data.length ∧ (c.limit = 0 ∨ fm.2.data.length ≤ c.limit)) →
      (RConn.readMessages fuel c acc).1 = acc ++ fms.map (·.2) ∧
      (RConn.readMessages fuel c acc).2.1 = some c.tail.peekErr := by
  induction fms with
  | nil =>
    intro fuel c acc hf herr hrem hg hin _
    cases fuel with
    | zero => omega
    | succ fuel =>
      unfold RConn.readMessages
      rw [RConn.readMessage_end c herr hrem (by simpa [Spec.encodeAll] using hin) hg]
      simp
  | cons fm rest ih =>
    intro fuel c acc hf herr hrem hg hin hall
    cases fuel with
    | zero => simp at hf
    | succ fuel =>
      unfold RConn.readMessages
      have hfm := hall fm (by simp)
      have hin' : c.input = Spec.encodeWith fm.1 fm.2 ++ Spec.encodeAll rest := by
        simpa [Spec.encodeAll] using hin
      rw [RConn.readMessage_ok c fm.1 fm.2 _ herr hrem hin' hfm.1 hfm.2]
      simp only
      have := ih fuel { c with input := Spec.encodeAll rest, rem := 0, rlen := fm.2.data.length, cur := false }
        (acc ++ [fm.2]) (by simp at hf; omega) herr rfl hg rfl
        (fun x hx => hall x (by simp [hx]))
      simpa [List.append_assoc] using this

theorem encodeAll_length_ge (fms : List (Spec.LenForm × Msg)) :
    fms.length ≤ (Spec.encodeAll fms).length := by
  induction fms with
  | nil => simp [Spec.encodeAll]
  | cons fm rest ih =>
    have h1 : 1 ≤ (Spec.encodeWith fm.1 fm.2).length := by
      unfold Spec.encodeWith Spec.headerWith
      cases fm.1 <;> simp <;> omega
    simp only [Spec.encodeAll, List.map_cons, List.flatten_cons, List.length_append, List.length_cons] at *
    omega

end EIO.WT

namespace EIO.WT
open EIO

/-- one `Read` call: at most the bytes asked for, at most the bytes the frame
    still has, taken in order from the stream; `rem` shrinks by that count;
    a set `err` never changes -/
theorem RConn.readMsg_bounded (c : RConn) (n : Nat) (mine : Bool) :
    (c.readMsg n mine).data.length ≤ n ∧ (c.readMsg n mine).data.length ≤ c.rem ∧
    (c.readMsg n mine).data = c.input.take (c.readMsg n mine).data.length ∧
    (c.readMsg n mine).c.input = c.input.drop (c.readMsg n mine).data.length ∧
    (c.readMsg n mine).c.rem = c.rem - (c.readMsg n mine).data.length ∧
    (c.readMsg n mine).c.limit = c.limit ∧
    (∀ e, c.err = some e → (c.readMsg n mine).c.err = some e) := by
  unfold RConn.readMsg
  by_cases h1 : (mine = true ∧ c.cur = true)
  · simp only [h1, and_self, not_true, if_false]
    cases he : c.err with
    | some e => simp [he]
    | none =>
      simp only
      by_cases hz : c.rem > 0
      · simp only [hz, if_true]
        by_cases hemp : c.input.isEmpty
        · simp [hemp]
        · simp only [hemp, Bool.false_eq_true, if_false]
          simp [List.take_take]
          omega
      · simp [hz]
  · simp [h1]

theorem RConn.readAllLoop_bounded (chunk fuel : Nat) : ∀ (c : RConn) (acc : Bytes),
    (RConn.readAllLoop fuel c chunk acc).1.length ≤ acc.length + c.rem ∧
    (RConn.readAllLoop fuel c chunk acc).2.2.limit = c.limit := by
  induction fuel with
  | zero => intro c acc; simp [RConn.readAllLoop]
  | succ fuel ih =>
    intro c acc
    unfold RConn.readAllLoop
    obtain ⟨h1, h2, _, _, h5, h6, _⟩ := RConn.readMsg_bounded c chunk true
    simp only
    split
    · simp only [List.length_append]; exact ⟨by omega, h6⟩
    · simp only [List.length_append]; exact ⟨by omega, h6⟩
    · have := ih (c.readMsg chunk).c (acc ++ (c.readMsg chunk).data)
      simp only [List.length_append] at this
      exact ⟨by omega, by rw [this.2, h6]⟩

/-- `ReadAll` never returns more than the frame header declared -/
theorem RConn.readAll_bounded (c : RConn) :
    c.readAll.1.length ≤ c.rem ∧ c.readAll.2.2.limit = c.limit := by
  have := RConn.readAllLoop_bounded 512 (c.rem + 2) c []
  simpa [RConn.readAll] using this

/-- the frame ends before its declared length: `ReadAll` reports the stream's
    end condition (unexpected EOF for a clean end), never a complete message -/
theorem RConn.readAllLoop_short (chunk : Nat) (hchunk : 0 < chunk) (fuel : Nat) :
    ∀ (c : RConn) (acc : Bytes), c.input.length < fuel → c.cur = true → c.err = none →
      c.input.length < c.rem →
      (RConn.readAllLoop fuel c chunk acc).1 = acc ++ c.input ∧
      (RConn.readAllLoop fuel c chunk acc).2.1 =
        some (if c.tail.rawErr = .eof then .unexpectedEOF else c.tail.rawErr) := by
  induction fuel with
  | zero => intro c acc h; omega
  | succ fuel ih =>
    intro c acc hf hcur herr hshort
    unfold RConn.readAllLoop RConn.readMsg
    have hz : c.rem > 0 := by omega
    simp only [hcur, herr, and_true, not_true, if_false, hz, if_true]
    by_cases hemp : c.input.isEmpty
    · have : c.input = [] := by simpa using hemp
      simp only [hemp, if_true]
      cases ht : c.tail <;> simp [StreamEnd.rawErr, this]
    · simp only [hemp, Bool.false_eq_true, if_false]
      have hpos : 0 < c.input.length := by
        cases hc : c.input with
        | nil => simp [hc] at hemp
        | cons a t => simp
      have hlen : (c.input.take (min chunk c.rem)).length = min chunk c.input.length := by
        simp; omega
      have := ih { c with input := c.input.drop (min chunk c.rem),
                          rem := c.rem - (c.input.take (min chunk c.rem)).length }
        (acc ++ c.input.take (min chunk c.rem)) (by simp; omega) hcur herr (by simp; omega)
      simp only [hcur, herr] at this
      constructor
      · rw [this.1, List.append_assoc, List.take_append_drop]
      · rw [this.2]

theorem RConn.readAll_short (c : RConn) (hcur : c.cur = true) (herr : c.err = none)
    (hshort : c.input.length < c.rem) :
    c.readAll.1 = c.input ∧
    c.readAll.2.1 = some (if c.tail.rawErr = .eof then .unexpectedEOF else c.tail.rawErr) := by
  have := RConn.readAllLoop_short 512 (by omega) (c.rem + 2) c [] (by omega) hcur herr hshort
  simpa [RConn.readAll] using this

end EIO.WT
