import EIO.Model.WT
import EIO.Spec.WT
/- helper lemmas about the frame reader model -/
namespace EIO.WT
open EIO

theorem kindBit_lt (k : Kind) : Spec.kindBit k = 0 ∨ Spec.kindBit k = 128 := by
  cases k <;> simp [Spec.kindBit]

theorem header_byte (k : Kind) (n : Nat) (h : n < 128) :
    kindOfByte (UInt8.ofNat (Spec.kindBit k + n)) = k ∧
    (UInt8.ofNat (Spec.kindBit k + n)).toNat % 128 = n := by
  cases k
  · have : (UInt8.ofNat (Spec.kindBit .text + n)).toNat = n := by
      simp [Spec.kindBit]; omega
    simp only [kindOfByte, this]
    constructor
    · have : ¬ n / 128 % 2 = 1 := by omega
      rw [if_neg this]
    · omega
  · have : (UInt8.ofNat (Spec.kindBit .binary + n)).toNat = 128 + n := by
      simp [Spec.kindBit]; omega
    simp only [kindOfByte, this]
    constructor
    · have : (128 + n) / 128 % 2 = 1 := by omega
      rw [if_pos this]
    · omega

/-- `read n` succeeds when `n` bytes are there -/
theorem RConn.read_ok (c : RConn) (p rest : Bytes) (h : c.input = p ++ rest) :
    c.read p.length = .ok (p, { c with input := rest }) := by
  unfold RConn.read
  simp [h]

/-- parsing one well-formed header (any length form), within the limit -/
theorem RConn.advanceFrame_ok (c : RConn) (f : Spec.LenForm) (k : Kind) (n : Nat) (rest : Bytes)
    (hrem : c.rem = 0) (hlen : c.rlen = 0) (hin : c.input = Spec.headerWith f k n ++ rest)
    (hfit : f.fits n) (hlim : c.limit = 0 ∨ n ≤ c.limit) :
    c.advanceFrame = .frame k { c with input := rest, rem := n, rlen := n } := by
  unfold RConn.advanceFrame
  have h0 : ¬ (c.rem > 0 ∧ c.input.length < c.rem) := by omega
  have h0' : ¬ c.rem > 0 := by omega
  simp only [h0, h0', if_false]
  cases f with
  | short =>
    simp only [Spec.LenForm.fits] at hfit
    simp only [Spec.headerWith] at hin
    have hr := RConn.read_ok c [UInt8.ofNat (Spec.kindBit k + n)] rest (by simpa using hin)
    simp only [List.length_singleton] at hr
    rw [hr]
    obtain ⟨hk, hb⟩ := header_byte k n (by omega)
    simp only [List.headD_cons, hk, hb]
    have h126 : ¬ n = 126 := by omega
    have h127 : ¬ n = 127 := by omega
    simp only [h126, h127, if_false, hlen, Nat.zero_add]
    have hl : ¬ (c.limit > 0 ∧ n > c.limit) := by omega
    simp [hl, hrem]
  | ext16 =>
    simp only [Spec.LenForm.fits] at hfit
    simp only [Spec.headerWith] at hin
    have hr := RConn.read_ok c [UInt8.ofNat (Spec.kindBit k + 126)] (be 2 n ++ rest) (by simpa using hin)
    simp only [List.length_singleton] at hr
    rw [hr]
    obtain ⟨hk, hb⟩ := header_byte k 126 (by omega)
    simp only [List.headD_cons, hk, hb, if_true]
    have hr2 := RConn.read_ok { c with input := be 2 n ++ rest, rem := 126 } (be 2 n) rest rfl
    simp only [be_length] at hr2
    rw [hr2]
    have hu : unbe (be 2 n) = n := unbe_be_of_lt 2 n (by omega)
    simp only [hu, hlen, Nat.zero_add]
    have hl : ¬ (c.limit > 0 ∧ n > c.limit) := by omega
    simp [hl, hrem]
  | ext64 =>
    simp only [Spec.LenForm.fits] at hfit
    simp only [Spec.headerWith] at hin
    have hr := RConn.read_ok c [UInt8.ofNat (Spec.kindBit k + 127)] (be 8 n ++ rest) (by simpa using hin)
    simp only [List.length_singleton] at hr
    rw [hr]
    obtain ⟨hk, hb⟩ := header_byte k 127 (by omega)
    have h126 : ¬ (127 : Nat) = 126 := by omega
    simp only [List.headD_cons, hk, hb, h126, if_true, if_false]
    have hr2 := RConn.read_ok { c with input := be 8 n ++ rest, rem := 127 } (be 8 n) rest rfl
    simp only [be_length] at hr2
    rw [hr2]
    have hu : unbe (be 8 n) = n := unbe_be_of_lt 8 n (by
      have : (2:Nat) ^ 63 < 256 ^ 8 := by decide
      omega)
    have hm : ¬ n ≥ 2 ^ 63 := by omega
    simp only [hu, hm, if_false, hlen, Nat.zero_add]
    have hl : ¬ (c.limit > 0 ∧ n > c.limit) := by omega
    simp [hl, hrem]

end EIO.WT

namespace EIO.WT
open EIO

/-- reading a whole payload that is present on the stream -/
theorem RConn.readAllLoop_ok (chunk : Nat) (hchunk : 0 < chunk) (fuel : Nat) :
    ∀ (c : RConn) (d rest acc : Bytes), d.length < fuel → c.cur = true → c.err = none →
      c.input = d ++ rest → c.rem = d.length →
      RConn.readAllLoop fuel c chunk acc =
        (acc ++ d, none, { c with input := rest, rem := 0, cur := false }) := by
  induction fuel with
  | zero => intro c d rest acc h; omega
  | succ fuel ih =>
    intro c d rest acc hf hcur herr hin hrem
    unfold RConn.readAllLoop RConn.readMsg
    simp only [hcur, herr, and_true, not_true, if_false, Bool.true_and]
    by_cases hz : c.rem > 0
    · have hne : c.input.isEmpty = false := by
        cases hd : d with
        | nil => simp [hd] at hrem; omega
        | cons a t => simp [hin, hd]
      simp only [hz, if_true, hne, Bool.false_eq_true, if_false]
      -- one Read call hands out the first `min chunk rem` bytes
      have hk : min chunk c.rem ≤ d.length := by omega
      have htake : c.input.take (min chunk c.rem) = d.take (min chunk c.rem) := by
        rw [hin, List.take_append_of_le_length hk]
      have hdrop : c.input.drop (min chunk c.rem) = d.drop (min chunk c.rem) ++ rest := by
        rw [hin, List.drop_append_of_le_length hk]
      have hlen : (d.take (min chunk c.rem)).length = min chunk c.rem := by simp; omega
      rw [htake, hdrop, hlen]
      have := ih { c with input := d.drop (min chunk c.rem) ++ rest, rem := c.rem - min chunk c.rem }
        (d.drop (min chunk c.rem)) rest (acc ++ d.take (min chunk c.rem))
        (by simp; omega) hcur herr rfl (by simp; omega)
      simp only [hcur, herr] at this
      rw [this]
      simp [List.append_assoc]
    · have hd : d = [] := by
        have : d.length = 0 := by omega
        exact List.eq_nil_of_length_eq_zero this
      have hr0 : c.rem = 0 := by omega
      subst hd
      simp only [hz, if_false]
      simp [hin, hr0]

theorem RConn.readAll_ok (c : RConn) (d rest : Bytes) (hcur : c.cur = true) (herr : c.err = none)
    (hin : c.input = d ++ rest) (hrem : c.rem = d.length) :
    c.readAll = (d, none, { c with input := rest, rem := 0, cur := false }) := by
  unfold RConn.readAll
  have := RConn.readAllLoop_ok 512 (by omega) (c.rem + 2) c d rest [] (by omega) hcur herr hin hrem
  simpa using this

/-- one whole frame, any length form, becomes exactly its message -/
theorem RConn.readMessage_ok (c : RConn) (f : Spec.LenForm) (m : Msg) (rest : Bytes)
    (herr : c.err = none) (hrem : c.rem = 0)
    (hin : c.input = Spec.encodeWith f m ++ rest) (hfit : f.fits m.data.length)
    (hlim : c.limit = 0 ∨ m.data.length ≤ c.limit) :
    c.readMessage = .msg m { c with input := rest, rem := 0, rlen := m.data.length, cur := false } := by
  obtain ⟨input, tail, rem, rlen, limit, err, errCount, cur, closes, closeFails⟩ := c
  simp only at herr hrem hin hlim
  subst herr hrem hin
  unfold RConn.readMessage RConn.nextReader
  simp only
  have hadv := RConn.advanceFrame_ok
    { input := Spec.encodeWith f m ++ rest, tail, rem := 0, rlen := 0, limit, err := none, errCount,
      cur := false, closes, closeFails } f m.kind m.data.length
    (m.data ++ rest) rfl rfl (by simp [Spec.encodeWith]) hfit hlim
  rw [hadv]
  simp only
  have hra := RConn.readAll_ok
    { input := m.data ++ rest, tail, rem := m.data.length, rlen := m.data.length, limit, err := none,
      errCount, cur := true, closes, closeFails }
    m.data rest rfl rfl rfl rfl
  rw [hra]

/-- a clean end of stream between frames is reported as an unexpected end -/
theorem RConn.readMessage_end (c : RConn) (herr : c.err = none) (hrem : c.rem = 0)
    (hin : c.input = []) (hg : c.errCount + 1 < errGuard) :
    c.readMessage = .error c.tail.peekErr
      { c with cur := false, rlen := 0, err := some c.tail.peekErr, errCount := c.errCount + 1 } := by
  unfold RConn.readMessage RConn.nextReader RConn.advanceFrame RConn.read RConn.readFailState
  have : ¬ (c.errCount + 1 ≥ errGuard) := by omega
  simp [herr, hrem, hin, this]

/-- the transport's read loop over a stream of well-formed frames -/
theorem RConn.readMessages_ok (fms : List (Spec.LenForm × Msg)) :
    ∀ (fuel : Nat) (c : RConn) (acc : List Msg), fms.length < fuel →
      c.err = none → c.rem = 0 → c.errCount + 1 < errGuard →
      c.input = Spec.encodeAll fms →
      (∀ fm ∈ fms, fm.1.fits fm.2.data.length ∧ (c.limit = 0 ∨ fm.2.data.length ≤ c.limit)) →
      (RConn.readMessages fuel c acc).1 = acc ++ fms.map (·.2) ∧
      (RConn.readMessages fuel c acc).2.1 = some c.tail.peekErr := by
  induction fms with
  | nil =>
    intro fuel c acc hf herr hrem hg hin _
    cases fuel with
    | zero => omega
    | succ fuel =>
      unfold RConn.readMessages
      rw [RConn.readMessage_end c herr hrem (by simpa [Spec.encodeAll] using hin) hg]
      simp
  | cons fm rest ih =>
    intro fuel c acc hf herr hrem hg hin hall
    cases fuel with
    | zero => simp at hf
    | succ fuel =>
      unfold RConn.readMessages
      have hfm := hall fm (by simp)
      have hin' : c.input = Spec.encodeWith fm.1 fm.2 ++ Spec.encodeAll rest := by
        simpa [Spec.encodeAll] using hin
      rw [RConn.readMessage_ok c fm.1 fm.2 _ herr hrem hin' hfm.1 hfm.2]
      simp only
      have := ih fuel { c with input := Spec.encodeAll rest, rem := 0, rlen := fm.2.data.length, cur := false }
        (acc ++ [fm.2]) (by simp at hf; omega) herr rfl hg rfl
        (fun x hx => hall x (by simp [hx]))
      simpa [List.append_assoc] using this

theorem encodeAll_length_ge (fms : List (Spec.LenForm × Msg)) :
    fms.length ≤ (Spec.encodeAll fms).length := by
  induction fms with
  | nil => simp [Spec.encodeAll]
  | cons fm rest ih =>
    have h1 : 1 ≤ (Spec.encodeWith fm.1 fm.2).length := by
      unfold Spec.encodeWith Spec.headerWith
      cases fm.1 <;> simp <;> omega
    simp only [Spec.encodeAll, List.map_cons, List.flatten_cons, List.length_append, List.length_cons] at *
    omega

end EIO.WT
