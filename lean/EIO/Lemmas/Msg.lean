import EIO.Lemmas.SesOps
/-
Who may deliver a message: the `message` entry of the session log is written by `sockOnPacket` for a message packet
and by nothing else.

`NM w w'`: the step logged no `message` entry (and created no session record).
-/
namespace EIO.Ses
open EIO EIO.Codec

def SEv.isMessage : SEv → Bool
  | .message _ => true
  | _ => false

structure NM (w w' : World) : Prop where
  size : w'.socks.size = w.socks.size
  log : ∃ added, w'.slog = w.slog ++ added ∧ ∀ e ∈ added, e.2.isMessage = false

theorem NM.refl (w : World) : NM w w := ⟨rfl, [], by simp, fun _ h => by cases h⟩
theorem NM.trans {a b c : World} (h1 : NM a b) (h2 : NM b c) : NM a c := by
  obtain ⟨x, hx, px⟩ := h1.log
  obtain ⟨y, hy, py⟩ := h2.log
  refine ⟨h2.size.trans h1.size, x ++ y, by rw [hy, hx, List.append_assoc], fun e he => ?_⟩
  rcases List.mem_append.mp he with h | h
  · exact px e h
  · exact py e h

theorem nm_same {w0 w : World} (w' : World) (h : NM w0 w) (hs : w'.socks = w.socks) (hl : w'.slog = w.slog) : NM w0 w' :=
  h.trans ⟨by rw [hs], [], by simp [hl], fun _ h => by cases h⟩

theorem nm_setTr {w0 w : World} (i : Nat) (f : Tr → Tr) (h : NM w0 w) : NM w0 (w.setTr i f) := nm_same _ h rfl rfl
theorem nm_setSock {w0 w : World} (i : Nat) (f : Sock → Sock) (h : NM w0 w) : NM w0 (w.setSock i f) :=
  h.trans ⟨by simp, [], by simp, fun _ h => by cases h⟩
theorem nm_setConn {w0 w : World} (i : Nat) (f : Conn → Conn) (h : NM w0 w) : NM w0 (w.setConn i f) := nm_same _ h rfl rfl
theorem nm_setReq {w0 w : World} (i : Nat) (f : Req → Req) (h : NM w0 w) : NM w0 (w.setReq i f) := nm_same _ h rfl rfl
theorem nm_ev {w0 w : World} (s : String) (h : NM w0 w) : NM w0 (w.ev s) := nm_same _ h rfl rfl
theorem nm_sev {w0 w : World} (sid : Nat) (e : SEv) (h : NM w0 w) (he : e.isMessage = false) : NM w0 (w.sev sid e) :=
  h.trans ⟨by simp, [(sid, e)], by simp, fun x hx => by simp at hx; subst hx; exact he⟩
theorem nm_answer {w0 w : World} (r : Nat) (resp : Resp) (h : NM w0 w) : NM w0 (w.answer r resp) := by
  unfold World.answer; split
  · exact h
  · exact nm_setReq _ _ (nm_ev _ h)
theorem nm_abortData {w0 w : World} (d : Option Nat) (h : NM w0 w) : NM w0 (abortData w d) := by
  unfold abortData; split
  · exact nm_answer _ _ h
  · exact h
theorem nm_trSend {w0 w : World} (ti : Nat) (b : List Pkt) (h : NM w0 w) : NM w0 (trSend w ti b) := nm_same _ h rfl rfl
theorem nm_fields {w0 w : World} (w' : World) (h : NM w0 w) (h1 : w'.socks = w.socks := by rfl) (h2 : w'.slog = w.slog := by rfl) : NM w0 w' :=
  nm_same w' h h1 h2
theorem nm_pushReq {w0 w : World} (q : Req) (h : NM w0 w) : NM w0 ({ w with reqs := w.reqs.push q } : World) := nm_fields _ h

macro "nm_prim" : tactic => `(tactic| repeat (first
  | with_reducible assumption
  | with_reducible apply nm_ev | (with_reducible refine nm_sev _ _ ?_ rfl) | with_reducible apply nm_answer
  | with_reducible apply nm_trSend | with_reducible apply nm_setConn
  | with_reducible apply nm_abortData | with_reducible apply nm_setSock
  | with_reducible apply nm_setReq | with_reducible apply nm_setTr))

theorem nm_candCleanup {w0 w : World} (sid : Nat) (h : NM w0 w) : NM w0 (candCleanup w sid) := by
  unfold candCleanup
  split
  · exact h
  · nm_prim

theorem nm_close_all (f : Nat) :
    (∀ w0 w ti, NM w0 w → NM w0 (trEmitClose f w ti)) ∧
    (∀ w0 w ti, NM w0 w → NM w0 (trOnErrorF f w ti)) ∧
    (∀ w0 w ti, NM w0 w → NM w0 (trOnCloseBaseF f w ti)) ∧
    (∀ w0 w ti, NM w0 w → NM w0 (pollOnCloseF f w ti)) ∧
    (∀ w0 w ti, NM w0 w → NM w0 (runCloseFnF f w ti)) ∧
    (∀ w0 w ti, NM w0 w → NM w0 (wsCloseNowF f w ti)) ∧
    (∀ w0 w ti fn, NM w0 w → NM w0 (trCloseF f w ti fn)) ∧
    (∀ w0 w sid, NM w0 w → NM w0 (clearTransportF f w sid)) ∧
    (∀ w0 w sid, NM w0 w → NM w0 (candFail f w sid)) ∧
    (∀ w0 w sid r, NM w0 w → NM w0 (sockOnClose f w sid r)) := by
  induction f with
  | zero =>
    refine ⟨?_, ?_, ?_, ?_, ?_, ?_, ?_, ?_, ?_, ?_⟩ <;> intros <;>
      first
      | (simp only [trEmitClose]; assumption) | (simp only [trOnErrorF]; assumption) | (simp only [trOnCloseBaseF]; assumption)
      | (simp only [pollOnCloseF]; assumption) | (simp only [runCloseFnF]; assumption) | (simp only [wsCloseNowF]; assumption)
      | (simp only [trCloseF]; assumption) | (simp only [clearTransportF]; assumption)
      | (simp only [candFail]; exact nm_candCleanup _ (by assumption)) | (simp only [sockOnClose]; assumption)
  | succ f ih =>
    obtain ⟨iEC, iOE, iCB, iPC, iRF, iWN, iTC, iCT, iCF, iSC⟩ := ih
    refine ⟨?_, ?_, ?_, ?_, ?_, ?_, ?_, ?_, ?_, ?_⟩
    · intro w0 w ti h
      rw [trEmitClose]; split
      · exact iSC _ _ _ _ h
      · exact iCF _ _ _ h
      · exact h
    · intro w0 w ti h
      rw [trOnErrorF]; split
      · exact iSC _ _ _ _ h
      · exact iCF _ _ _ h
      · exact h
    · intro w0 w ti h
      rw [trOnCloseBaseF]; split
      · exact h
      · apply iEC; nm_prim
    · intro w0 w ti h
      rw [pollOnCloseF]
      apply iCB
      split <;> nm_prim
    · intro w0 w ti h
      rw [runCloseFnF]
      try dsimp only
      split
      · apply iSC; nm_prim
      · nm_prim
    · intro w0 w ti h
      rw [wsCloseNowF]
      try dsimp only
      apply iCB; apply nm_setConn; apply iRF; nm_prim
    · intro w0 w ti fn h
      rw [trCloseF]
      try dsimp only
      split
      · exact h
      · have h1 : NM w0 (w.setTr ti fun t => { t with rs := .closing, closeFn := fn }) := by nm_prim
        split
        · have h2 := nm_abortData (w.tr ti).dataReq h1
          split
          · apply iPC; apply iRF; nm_prim
          · split
            · apply iPC; apply iRF; exact h2
            · nm_prim
        · split
          · exact iWN _ _ _ h1
          · nm_prim
    · intro w0 w sid h
      rw [clearTransportF]
      try dsimp only
      apply nm_setSock; apply iTC; nm_prim
    · intro w0 w sid h
      rw [candFail]
      split
      · exact h
      · apply iTC; exact nm_candCleanup _ h
    · intro w0 w sid r h
      rw [sockOnClose]
      split
      · exact h
      · try dsimp only
        apply nm_setSock; apply iCF; refine nm_sev _ _ ?_ rfl
        refine nm_same _ (iCT _ _ _ (nm_setSock _ _ h)) rfl rfl


theorem nm_trOnError {w0 w : World} (ti : Nat) (h : NM w0 w) : NM w0 (trOnError w ti) := (nm_close_all closeFuel).2.1 _ _ _ h
theorem nm_trOnCloseBase {w0 w : World} (ti : Nat) (h : NM w0 w) : NM w0 (trOnCloseBase w ti) := (nm_close_all closeFuel).2.2.1 _ _ _ h
theorem nm_pollOnClose {w0 w : World} (ti : Nat) (h : NM w0 w) : NM w0 (pollOnClose w ti) := (nm_close_all closeFuel).2.2.2.1 _ _ _ h
theorem nm_runCloseFn {w0 w : World} (ti : Nat) (h : NM w0 w) : NM w0 (runCloseFn w ti) := (nm_close_all closeFuel).2.2.2.2.1 _ _ _ h
theorem nm_wsCloseNow {w0 w : World} (ti : Nat) (h : NM w0 w) : NM w0 (wsCloseNow w ti) := (nm_close_all closeFuel).2.2.2.2.2.1 _ _ _ h
theorem nm_trClose {w0 w : World} (ti : Nat) (fn : Option Nat) (h : NM w0 w) : NM w0 (trClose w ti fn) :=
  (nm_close_all closeFuel).2.2.2.2.2.2.1 _ _ _ _ h
theorem nm_clearTransport {w0 w : World} (sid : Nat) (h : NM w0 w) : NM w0 (clearTransport w sid) :=
  (nm_close_all closeFuel).2.2.2.2.2.2.2.1 _ _ _ h
theorem nm_sockOnClose {w0 w : World} (f : Nat) (sid : Nat) (r : String) (h : NM w0 w) : NM w0 (sockOnClose f w sid r) :=
  (nm_close_all f).2.2.2.2.2.2.2.2.2 _ _ _ _ h

macro "nm_auto" : tactic => `(tactic| repeat (first
  | with_reducible assumption
  | with_reducible apply nm_ev | (with_reducible refine nm_sev _ _ ?_ rfl) | with_reducible apply nm_answer
  | with_reducible apply nm_trSend | with_reducible apply nm_setConn
  | with_reducible apply nm_abortData | with_reducible apply nm_setSock
  | with_reducible apply nm_trOnError | with_reducible apply nm_trOnCloseBase | with_reducible apply nm_pollOnClose
  | with_reducible apply nm_runCloseFn | with_reducible apply nm_wsCloseNow | with_reducible apply nm_trClose
  | with_reducible apply nm_clearTransport | with_reducible apply nm_candCleanup | with_reducible apply nm_sockOnClose
  | with_reducible apply nm_setReq | with_reducible apply nm_setTr))

/-! ### everything else -/

theorem nm_closeTransportF {w0 w : World} (f : Nat) (sid : Nat) (d : Bool) (h : NM w0 w) : NM w0 (closeTransportF f w sid d) := by
  cases f with
  | zero => simpa [closeTransportF] using h
  | succ f =>
    rw [closeTransportF]
    try dsimp only
    have h1 : NM w0 (if d = true then w.setTr (w.sock sid).tr fun t => { t with discarded := true } else w) := by
      split
      · nm_auto
      · exact h
    generalize (if d = true then w.setTr (w.sock sid).tr fun t => { t with discarded := true } else w) = w1 at h1 ⊢
    split
    · exact nm_sockOnClose _ _ _ h1
    · exact nm_trClose _ _ h1

theorem nm_flushF {w0 w : World} (f : Nat) (sid : Nat) (h : NM w0 w) : NM w0 (flushF f w sid) := by
  cases f with
  | zero => simpa [flushF] using h
  | succ f =>
    rw [flushF]
    try dsimp only
    split
    · exact h
    · apply nm_ev
      split
      · apply nm_closeTransportF; nm_auto
      · nm_auto

theorem nm_flush {w0 w : World} (sid : Nat) (h : NM w0 w) : NM w0 (flush w sid) := nm_flushF _ sid h
theorem nm_closeTransport {w0 w : World} (sid : Nat) (d : Bool) (h : NM w0 w) : NM w0 (closeTransport w sid d) := nm_closeTransportF _ sid d h

theorem nm_sendPacket {w0 w : World} (sid : Nat) (pk : Pkt) (cb : Option Nat) (h : NM w0 w) : NM w0 (sendPacket w sid pk cb) := by
  unfold sendPacket
  try dsimp only
  split
  · exact h
  · apply nm_flush; nm_auto

theorem nm_cbs {w0 w : World} (sid : Nat) (cbs : List Nat) (h : NM w0 w) : NM w0 (cbs.foldl (fun w id => w.sev sid (.cb id)) w) := by
  induction cbs generalizing w with
  | nil => exact h
  | cons id rest ih => simp only [List.foldl_cons]; exact ih (nm_sev _ _ h rfl)

theorem nm_sockOnDrain {w0 w : World} (sid : Nat) (h : NM w0 w) : NM w0 (sockOnDrain w sid) := by
  unfold sockOnDrain
  split
  · exact h
  · apply nm_cbs; nm_auto

theorem nm_trEmitDrain {w0 w : World} (ti : Nat) (h : NM w0 w) : NM w0 (trEmitDrain w ti) := by
  unfold trEmitDrain
  try dsimp only
  split
  · split
    · exact nm_wsCloseNow _ (nm_sockOnDrain _ h)
    · exact nm_sockOnDrain _ h
  · split
    · exact nm_wsCloseNow _ h
    · exact h

theorem nm_trEmitReady {w0 w : World} (ti : Nat) (h : NM w0 w) : NM w0 (trEmitReady w ti) := by
  unfold trEmitReady
  split
  · exact nm_flush _ h
  · exact h

theorem nm_doUpgrade {w0 w : World} (sid newTr : Nat) (h : NM w0 w) : NM w0 (doUpgrade w sid newTr) := by
  unfold doUpgrade
  try dsimp only
  have h1 := nm_candCleanup sid h
  generalize candCleanup w sid = wa at h1 ⊢
  have h2 : NM w0 (flush (((((clearTransport ((wa.setTr (wa.sock sid).tr fun t => { t with discarded := true }).setSock sid fun s => { s with upgraded := true }) sid).setSock sid
      fun s => { s with tr := newTr }).setTr newTr fun t => { t with role := .current sid })).sev sid .upgrade) sid) := by
    apply nm_flush; nm_auto
  split
  · exact nm_trClose _ _ h2
  · exact h2

theorem nm_candOnPacket {w0 w : World} (sid : Nat) (pk : Pkt) (h : NM w0 w) : NM w0 (candOnPacket w sid pk) := by
  unfold candOnPacket
  split
  · exact h
  · split
    · try dsimp only
      nm_auto
    · split
      · exact nm_doUpgrade _ _ h
      · nm_auto

theorem nm_emitHeaders {w0 w : World} (ti r : Nat) (h : NM w0 w) : NM w0 (emitHeaders w ti r) := by
  unfold emitHeaders
  try dsimp only
  repeat (first | with_reducible assumption | with_reducible apply nm_ev | with_reducible apply nm_setReq | split)

theorem nm_rejectReq {w0 w : World} (r code : Nat) (msg : String) (h : NM w0 w) : NM w0 (rejectReq w r code msg) := by
  unfold rejectReq; nm_auto

theorem nm_wsSendLoop {w0 w : World} (ti : Nat) (batch : List Pkt) (h : NM w0 w) : NM w0 (wsSendLoop ti batch w) := by
  induction batch generalizing w with
  | nil => exact h
  | cons pk rest ih =>
    rw [wsSendLoop]
    try dsimp only
    split
    · apply ih; unfold wsPut; nm_auto
    · apply ih; nm_auto

theorem nm_wsDrop {w0 w : World} (c : Nat) (h : NM w0 w) : NM w0 (wsDrop w c) := by
  unfold wsDrop
  try dsimp only
  split
  · nm_auto
  · split <;> (try split) <;> nm_auto

theorem nm_appClose {w0 w : World} (sid : Nat) (discard : Bool) (h : NM w0 w) : NM w0 (appClose w sid discard) := by
  unfold appClose
  try dsimp only
  split
  · exact nm_closeTransport _ _ h
  · split
    · exact h
    · split
      · nm_auto
      · exact nm_closeTransport _ _ (nm_setSock _ _ h)

theorem nm_shutdownFold {w0 w : World} (reg : List Nat) (h : NM w0 w) : NM w0 (reg.foldl (fun w sid => appClose w sid true) w) := by
  induction reg generalizing w with
  | nil => exact h
  | cons sid rest ih => simp only [List.foldl_cons]; exact ih (nm_appClose _ _ h)

theorem nm_appSend {w0 w : World} (sid : Nat) (m : Msg) (compress wantCb : Bool) (pre : Option Msg) (h : NM w0 w) :
    NM w0 (appSend w sid m compress wantCb pre) := by
  unfold appSend
  try dsimp only
  apply nm_sendPacket
  split
  · exact nm_fields _ h
  · exact h

theorem nm_fireTimer {w0 w : World} (id : TimerId) (h : NM w0 w) : NM w0 (fireTimer w id) := by
  cases id with
  | pingInterval sid => simp only [fireTimer]; apply nm_setSock; apply nm_sendPacket; nm_auto
  | pingTimeout sid =>
    simp only [fireTimer]
    split <;> nm_auto
  | closeTimer ti =>
    simp only [fireTimer]
    split <;> nm_auto
  | upgradeTimeout sid =>
    simp only [fireTimer]
    split
    · split <;> nm_auto
    · exact h
  | check sid =>
    simp only [fireTimer]
    split
    · split <;> nm_auto
    · exact h

theorem nm_advance {w0 w : World} (f target : Nat) (h : NM w0 w) : NM w0 (advance f w target) := by
  induction f generalizing w with
  | zero => simp only [advance]; exact nm_fields _ h
  | succ f ih =>
    rw [advance]
    split
    · exact ih (nm_fireTimer _ (nm_fields _ h))
    · exact nm_fields _ h

theorem nm_foldl {w0 w : World} (is : List Nat) (g : World → Nat → World)
    (hg : ∀ w i, NM w0 w → NM w0 (g w i)) (h : NM w0 w) : NM w0 (is.foldl g w) := by
  induction is generalizing w with
  | nil => exact h
  | cons i rest ih => simp only [List.foldl_cons]; exact ih (hg _ _ h)

theorem nm_observe {w0 w : World} (h : NM w0 w) : NM w0 (observe w) := by
  unfold observe
  try dsimp only
  apply nm_foldl
  · intro w i h; exact nm_setConn _ _ h
  · apply nm_foldl
    · intro w i h
      split
      · exact nm_setReq _ _ h
      · exact h
    · exact nm_fields _ h


end EIO.Ses
