import EIO.Lemmas.SesOps
/-
The close paths register nobody: the client table after any of them is a sublist (as a set) of the table before.
-/
namespace EIO.Ses
open EIO EIO.Codec

/-- every registered session of `w'` was registered in `w` -/
def RegSub (w w' : World) : Prop := ∀ sid ∈ w'.registry, sid ∈ w.registry

theorem RegSub.refl (w : World) : RegSub w w := fun _ h => h
theorem RegSub.trans {a b c : World} (h1 : RegSub a b) (h2 : RegSub b c) : RegSub a c := fun s h => h1 s (h2 s h)
theorem RegSub.of_eq {w w' : World} (h : w'.registry = w.registry) : RegSub w w' := fun s hs => h ▸ hs

theorem registry_answer (w : World) (r : Nat) (resp : Resp) : (w.answer r resp).registry = w.registry := by
  unfold World.answer; split <;> rfl
theorem registry_abortData (w : World) (d : Option Nat) : (abortData w d).registry = w.registry := by
  unfold abortData; split
  · exact registry_answer _ _ _
  · rfl

theorem rs_sockOnClose (f : Nat) (w : World) (sid : Nat) (reason : String) : RegSub w (sockOnClose f w sid reason) := by
  cases f with
  | zero => simp only [sockOnClose]; exact RegSub.refl _
  | succ f =>
    rw [sockOnClose]
    split
    · exact RegSub.refl _
    · try dsimp only
      intro s hs
      rw [registry_setSock, (candFail_sameView f _ sid).registry, registry_sev] at hs
      have hs : s ∈ (clearTransportF f (w.setSock sid fun s =>
        { s with rs := .closed, pingIntervalDue := none, pingTimeoutDue := none, packetsFn := [], sentCb := [] }) sid).registry.filter (· ≠ sid) := hs
      rw [(clearTransportF_sameView f _ sid).registry] at hs
      exact (List.mem_filter.mp hs).1

theorem rs_trEmitClose (f : Nat) (w : World) (ti : Nat) : RegSub w (trEmitClose f w ti) := by
  cases f with
  | zero => simp only [trEmitClose]; exact RegSub.refl _
  | succ f =>
    rw [trEmitClose]
    split
    · exact rs_sockOnClose _ _ _ _
    · exact RegSub.of_eq (candFail_sameView f _ _).registry
    · exact RegSub.refl _

theorem rs_trOnErrorF (f : Nat) (w : World) (ti : Nat) : RegSub w (trOnErrorF f w ti) := by
  cases f with
  | zero => simp only [trOnErrorF]; exact RegSub.refl _
  | succ f =>
    rw [trOnErrorF]
    split
    · exact rs_sockOnClose _ _ _ _
    · exact RegSub.of_eq (candFail_sameView f _ _).registry
    · exact RegSub.refl _

theorem rs_trOnCloseBaseF (f : Nat) (w : World) (ti : Nat) : RegSub w (trOnCloseBaseF f w ti) := by
  cases f with
  | zero => simp only [trOnCloseBaseF]; exact RegSub.refl _
  | succ f =>
    rw [trOnCloseBaseF]
    split
    · exact RegSub.refl _
    · exact (RegSub.of_eq (registry_setTr _ _ _)).trans (rs_trEmitClose _ _ _)

theorem rs_pollOnCloseF (f : Nat) (w : World) (ti : Nat) : RegSub w (pollOnCloseF f w ti) := by
  cases f with
  | zero => simp only [pollOnCloseF]; exact RegSub.refl _
  | succ f =>
    rw [pollOnCloseF]
    refine RegSub.trans ?_ (rs_trOnCloseBaseF _ _ _)
    split
    · exact RegSub.of_eq rfl
    · exact RegSub.refl _

theorem rs_runCloseFnF (f : Nat) (w : World) (ti : Nat) : RegSub w (runCloseFnF f w ti) := by
  cases f with
  | zero => simp only [runCloseFnF]; exact RegSub.refl _
  | succ f =>
    rw [runCloseFnF]
    try dsimp only
    split
    · exact (RegSub.of_eq (registry_setTr _ _ _)).trans (rs_sockOnClose _ _ _ _)
    · exact RegSub.of_eq rfl

theorem rs_wsCloseNowF (f : Nat) (w : World) (ti : Nat) : RegSub w (wsCloseNowF f w ti) := by
  cases f with
  | zero => simp only [wsCloseNowF]; exact RegSub.refl _
  | succ f =>
    rw [wsCloseNowF]
    try dsimp only
    refine RegSub.trans ?_ (rs_trOnCloseBaseF _ _ _)
    refine RegSub.trans ?_ (RegSub.of_eq (registry_setConn _ _ _))
    exact (RegSub.of_eq (registry_setTr _ _ _)).trans (rs_runCloseFnF _ _ _)

theorem rs_trCloseF (f : Nat) (w : World) (ti : Nat) (fn : Option Nat) : RegSub w (trCloseF f w ti fn) := by
  cases f with
  | zero => simp only [trCloseF]; exact RegSub.refl _
  | succ f =>
    rw [trCloseF]
    try dsimp only
    split
    · exact RegSub.refl _
    · have h1 : RegSub w (w.setTr ti fun t => { t with rs := .closing, closeFn := fn }) := RegSub.of_eq rfl
      split
      · have h2 : RegSub w (abortData (w.setTr ti fun t => { t with rs := .closing, closeFn := fn }) (w.tr ti).dataReq) :=
          h1.trans (RegSub.of_eq (registry_abortData _ _))
        generalize abortData (w.setTr ti fun t => { t with rs := .closing, closeFn := fn }) (w.tr ti).dataReq = wa at h2 ⊢
        split
        · have h3 : RegSub w (trSend wa ti [{ typ := .close }]) := h2.trans (RegSub.of_eq rfl)
          exact h3.trans ((rs_runCloseFnF _ _ _).trans (rs_pollOnCloseF _ _ _))
        · split
          · exact h2.trans ((rs_runCloseFnF _ _ _).trans (rs_pollOnCloseF _ _ _))
          · exact h2.trans (RegSub.of_eq rfl)
      · split
        · exact h1.trans (rs_wsCloseNowF _ _ _)
        · exact h1.trans (RegSub.of_eq rfl)

theorem rs_closeTransportF (f : Nat) (w : World) (sid : Nat) (d : Bool) : RegSub w (closeTransportF f w sid d) := by
  cases f with
  | zero => simp only [closeTransportF]; exact RegSub.refl _
  | succ f =>
    rw [closeTransportF]
    try dsimp only
    have h1 : RegSub w (if d = true then w.setTr (w.sock sid).tr fun t => { t with discarded := true } else w) := by
      split
      · exact RegSub.of_eq rfl
      · exact RegSub.refl _
    generalize (if d = true then w.setTr (w.sock sid).tr fun t => { t with discarded := true } else w) = w1 at h1 ⊢
    split
    · exact h1.trans (rs_sockOnClose _ _ _ _)
    · unfold trClose; exact h1.trans (rs_trCloseF _ _ _ _)

theorem rs_appClose (w : World) (sid : Nat) (d : Bool) : RegSub w (appClose w sid d) := by
  unfold appClose
  try dsimp only
  split
  · exact rs_closeTransportF _ _ _ _
  · split
    · exact RegSub.refl _
    · split
      · exact RegSub.of_eq rfl
      · exact (RegSub.of_eq (registry_setSock _ _ _)).trans (rs_closeTransportF _ _ _ _)

end EIO.Ses
