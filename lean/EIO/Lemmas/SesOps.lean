import EIO.Lemmas.SesFlush
/-
Responses, writer tasks, entry points, timers: every operation of the model
preserves the invariant (`step_pres`).
-/
namespace EIO.Ses
open EIO EIO.Codec

/-- calls whose lemmas need no side condition, and case splits -/
macro "pr_auto" : tactic => `(tactic| repeat (first
  | with_reducible assumption | with_reducible exact Pres.refl _
  | with_reducible apply pr_setTr | with_reducible apply pr_setConn | with_reducible apply pr_ev
  | with_reducible apply pr_trSend | with_reducible apply pr_answer | with_reducible apply pr_abortData
  | with_reducible apply pr_sockOnClose | with_reducible apply pr_candFail | with_reducible apply pr_candCleanup
  | with_reducible apply pr_clearTransportF | with_reducible apply pr_pushReq
  | with_reducible apply pr_trOnError | with_reducible apply pr_trOnCloseBase | with_reducible apply pr_pollOnClose
  | with_reducible apply pr_runCloseFn | with_reducible apply pr_wsCloseNow
  | with_reducible apply pr_trClose | with_reducible apply pr_clearTransport | with_reducible apply pr_closeTransport
  | with_reducible apply pr_flush | with_reducible apply pr_sendPacket | with_reducible apply pr_sockOnDrain
  | with_reducible apply pr_trEmitDrain | with_reducible apply pr_trEmitReady
  | with_reducible apply pr_candOnPacket | with_reducible apply pr_sockOnPacket | with_reducible apply pr_trEmitPacket
  | (with_reducible refine pr_setSockSame _ _ ?_ ?_; (intro s; exact ⟨rfl, rfl, rfl, rfl, rfl, rfl, rfl, rfl, by first | exact id | (intro h; cases h)⟩))
  | (with_reducible refine pr_setReqKeep _ _ ?_ ?_; (intro q; rfl))
  | split))

/-! ### responses and writer tasks -/

theorem pr_emitHeaders {w0 w : World} (ti r : Nat) (h : Pres w0 w) : Pres w0 (emitHeaders w ti r) := by
  unfold emitHeaders
  try dsimp only
  pr_auto

theorem pr_runPollSend {w0 w : World} (ti : Nat) (batch : List Pkt) (h : Pres w0 w) : Pres w0 (runPollSend w ti batch) := by
  unfold runPollSend
  try dsimp only
  split
  · pr_auto
  · apply pr_trEmitDrain
    apply pr_answer
    apply pr_emitHeaders
    pr_auto

theorem pr_wsPut {w0 w : World} (ti : Nat) (m : Msg) (h : Pres w0 w) : Pres w0 (wsPut w ti m) := by
  unfold wsPut; pr_auto

theorem pr_wsSendLoop {w0 w : World} (ti : Nat) (batch : List Pkt) (h : Pres w0 w) : Pres w0 (wsSendLoop ti batch w) := by
  induction batch generalizing w with
  | nil => simpa [wsSendLoop] using h
  | cons p rest ih =>
    rw [wsSendLoop]
    try dsimp only
    split
    · exact ih (pr_wsPut _ _ h)
    · exact ih (pr_trOnError _ h)

theorem pr_runWsSend {w0 w : World} (ti : Nat) (batch : List Pkt) (h : Pres w0 w) : Pres w0 (runWsSend w ti batch) := by
  unfold runWsSend
  try dsimp only
  apply pr_trEmitReady
  apply pr_setTr
  apply pr_trEmitDrain
  exact pr_wsSendLoop _ _ h

theorem pr_runTask {w0 w : World} (t : Task) (h : Pres w0 w) : Pres w0 (runTask w t) := by
  cases t with
  | pollSend ti b => exact pr_runPollSend _ _ h
  | wsSend ti b => exact pr_runWsSend _ _ h

theorem pr_settle {w0 w : World} (fuel : Nat) (h : Pres w0 w) : Pres w0 (settle fuel w) := by
  induction fuel generalizing w with
  | zero => simpa [settle] using h
  | succ n ih =>
    rw [settle]
    split
    · exact h
    · apply ih
      apply pr_runTask
      exact pr_fields _ h

/-! ### handshakes -/

theorem openPackets_quiet (w : World) (sid : Nat) (trName : String) (hdc : (w.sock sid).drainClose = none) :
    Quiet w (openPackets w sid trName) := by
  unfold openPackets
  try dsimp only
  have q1 := sendPacket_quiet w sid { typ := .open, data := some ⟨.text, jsonOpen w sid trName⟩, compress := true } none hdc
  split
  · exact q1.trans (sendPacket_quiet _ _ _ _ (by rw [q1.drainClose]; exact hdc))
  · exact q1

theorem pr_openPackets {w0 w : World} (sid : Nat) (trName : String) (h : Pres w0 w) : Pres w0 (openPackets w sid trName) := by
  unfold openPackets
  try dsimp only
  pr_auto

theorem pr_openAnnounce {w0 w : World} (sid : Nat) (trName : String) (proto : Nat)
    (hsz : sid < w.socks.size) (hnew : sid ∉ w.registry) (hopen : (w.sock sid).rs = .open_) (h : Pres w0 w) :
    Pres w0 (openAnnounce w sid trName proto) := by
  unfold openAnnounce
  try dsimp only
  have v : SameView w (w.setSock sid fun s =>
      if proto = 3 then { s with pingTimeoutDue := some (w.now + w.o.I + w.o.T) }
      else { s with pingIntervalDue := some (w.now + w.o.I) }) := by
    apply sameView_setSock
    split <;> exact ⟨rfl, rfl, rfl, rfl, rfl, rfl, rfl, rfl, by first | exact id | (intro h; cases h)⟩
  generalize (w.setSock sid fun s =>
      if proto = 3 then { s with pingTimeoutDue := some (w.now + w.o.I + w.o.T) }
      else { s with pingIntervalDue := some (w.now + w.o.I) }) = w1 at v ⊢
  have hsz1 : sid < w1.socks.size := by rw [v.size]; exact hsz
  have hnew1 : sid ∉ w1.registry := by rw [v.registry]; exact hnew
  have hopen1 : (w1.sock sid).rs = .open_ := by rw [(v.sock sid).rs]; exact hopen
  have hnc1 : ¬ closedW w1 sid := by unfold closedW; rw [hopen1]; simp
  apply pr_sev _ _ rfl rfl
  · have : ({ w1 with registry := w1.registry ++ [sid] } : World).sock sid = w1.sock sid := rfl
    simp [closedW, this, hopen1]
  · exact (pr_sv h v).trans (pres_register w1 sid hsz1 hnew1 hnc1 (by rw [hopen1]; simp))

theorem pr_openSession {w0 w : World} (ti proto : Nat) (h : Pres w0 w) : Pres w0 (openSession w ti proto) := by
  refine h.trans (fun i => ?_)
  have p : Pres w (openSession w ti proto) := by
    unfold openSession
    try dsimp only
    -- the new record, its transport's listeners, `onOpen` sets it open
    have sB : ((({ w with socks := w.socks.push { proto, tr := ti } } : World).setTr ti fun t =>
        { t with role := .current w.socks.size, owner := w.socks.size }).sock w.socks.size) = { proto, tr := ti } := by
      simp [World.sock, getD_push_eq]
    have pB : Pres w (({ w with socks := w.socks.push { proto, tr := ti } } : World).setTr ti fun t =>
        { t with role := .current w.socks.size, owner := w.socks.size }) := by
      apply pr_setTr
      exact pres_pushSock w { proto, tr := ti } rfl rfl rfl rfl rfl rfl rfl rfl
    have zB : (({ w with socks := w.socks.push { proto, tr := ti } } : World).setTr ti fun t =>
        { t with role := .current w.socks.size, owner := w.socks.size }).socks.size = w.socks.size + 1 := by simp
    have rB : (({ w with socks := w.socks.push { proto, tr := ti } } : World).setTr ti fun t =>
        { t with role := .current w.socks.size, owner := w.socks.size }).registry = w.registry := rfl
    generalize (({ w with socks := w.socks.push { proto, tr := ti } } : World).setTr ti fun t =>
        { t with role := .current w.socks.size, owner := w.socks.size }) = wB at sB pB zB rB ⊢
    have pC : Pres w (wB.setSock w.socks.size fun s => { s with rs := .open_ }) := by
      apply pr_setSock _ _ _ _ rfl rfl _ _ pB
      · rw [sB]; simp [RS.rank]
      · rw [sB]; simp
      · intro _ _; rw [sB]
        refine ⟨fun hc => ?_, fun hd => ?_, fun hd => ?_⟩
        · cases hc
        · cases hd
        · cases hd
      · intro _ a
        refine a.congr ?_ rfl rfl rfl rfl
        rw [sB]; simp
    have sC : ((wB.setSock w.socks.size fun s => { s with rs := .open_ }).sock w.socks.size) =
        { proto, tr := ti, rs := .open_ } := by
      rw [sock_setSock]; simp [zB, sB]
    have zC : (wB.setSock w.socks.size fun s => { s with rs := .open_ }).socks.size = w.socks.size + 1 := by simp [zB]
    have rC : (wB.setSock w.socks.size fun s => { s with rs := .open_ }).registry = w.registry := rB
    generalize (wB.setSock w.socks.size fun s => { s with rs := .open_ }) = wC at pC sC zC rC ⊢
    have q := openPackets_quiet wC w.socks.size (w.tr ti).name
      (by rw [sC])
    apply pr_openAnnounce
    · rw [q.size, zC]; omega
    · rw [q.registry, rC]
      intro hm
      have := (i.regLive _ hm).2.1
      omega
    · rw [q.rs, sC]
    · exact pr_openPackets _ _ pC
  exact p i

theorem pr_rejectReq {w0 w : World} (r code : Nat) (msg : String) (h : Pres w0 w) : Pres w0 (rejectReq w r code msg) := by
  unfold rejectReq; try dsimp only
  pr_auto

theorem pr_onPollRequest {w0 w : World} (ti r : Nat) (h : Pres w0 w) : Pres w0 (onPollRequest w ti r) := by
  unfold onPollRequest; try dsimp only
  pr_auto

theorem pr_hsPolling {w0 w : World} (proto : Nat) (b64 : Bool) (j : Option Bytes) (h : Pres w0 w) :
    Pres w0 (hsPolling w proto b64 j) := by
  unfold hsPolling; try dsimp only
  split
  · apply pr_rejectReq; pr_auto
  · split
    · apply pr_rejectReq; pr_auto
    · apply pr_openSession
      apply pr_onPollRequest
      exact pr_fields _ h

theorem pr_hsWebsocket {w0 w : World} (proto : Nat) (b64 : Bool) (h : Pres w0 w) : Pres w0 (hsWebsocket w proto b64) := by
  unfold hsWebsocket; try dsimp only
  split
  · apply pr_setConn; exact pr_fields _ h
  · split
    · apply pr_setConn; apply pr_ev; exact pr_fields _ h
    · apply pr_openSession
      exact pr_fields _ h

theorem pr_hsWt {w0 w : World} (h : Pres w0 w) : Pres w0 (hsWt w) := by
  unfold hsWt; try dsimp only
  apply pr_openSession
  exact pr_fields _ (pr_fields _ h)

/-! ### requests of a session -/

theorem pr_pollReq {w0 w : World} (sid : Nat) (ae : Bytes) (h : Pres w0 w) : Pres w0 (pollReq w sid ae) := by
  unfold pollReq; try dsimp only
  split
  · apply pr_rejectReq; pr_auto
  · split
    · apply pr_rejectReq; pr_auto
    · apply pr_onPollRequest; pr_auto

theorem pr_pollDeliver {w0 w : World} (ti : Nat) (pkts : List Pkt) (h : Pres w0 w) : Pres w0 (pollDeliver ti pkts w) := by
  induction pkts generalizing w with
  | nil => simpa [pollDeliver] using h
  | cons p rest ih =>
    rw [pollDeliver]
    split
    · exact pr_pollOnClose _ h
    · exact ih (pr_trEmitPacket _ _ h)

theorem pr_pollOnData {w0 w : World} (ti : Nat) (body : Bytes) (binary : Bool) (h : Pres w0 w) :
    Pres w0 (pollOnData w ti body binary).1 := by
  unfold pollOnData
  split
  · exact pr_pollDeliver _ _ h
  · exact h
  · exact pr_fields _ h

theorem pr_postReq {w0 w : World} (sid : Nat) (binary declared : Bool) (body : Bytes) (viaJsonp : Bool) (h : Pres w0 w) :
    Pres w0 (postReq w sid binary declared body viaJsonp) := by
  unfold postReq; try dsimp only
  repeat (first
    | with_reducible assumption
    | with_reducible apply pr_rejectReq | with_reducible apply pr_emitHeaders | with_reducible apply pr_pollOnData
    | with_reducible apply pr_setTr | with_reducible apply pr_answer | with_reducible apply pr_trOnError
    | with_reducible apply pr_pushReq
    | (with_reducible refine pr_setReqKeep _ _ ?_ ?_; (intro q; rfl))
    | dsimp only
    | split)

theorem pr_abortReq {w0 w : World} (r : Nat) (h : Pres w0 w) : Pres w0 (abortReq w r) := by
  unfold abortReq; try dsimp only
  pr_auto

theorem lookup_some (w : World) (sid : Nat) (s : Sock) (h : lookup w sid = some s) : s = w.sock sid := by
  unfold lookup at h
  split at h
  · cases h; rfl
  · cases h

theorem pr_wsCandidate {w0 w : World} (sid proto : Nat) (b64 : Bool) (h : Pres w0 w) : Pres w0 (wsCandidate w sid proto b64) := by
  unfold wsCandidate; try dsimp only
  have h1 : Pres w0 { w with conns := w.conns.push {} } := pr_fields _ h
  split
  · pr_auto
  · split
    · pr_auto
    · split
      · pr_auto
      · rename_i s0 hl hg
        have hs0 := lookup_some _ _ _ hl
        have hupf : s0.upgraded = false := by
          cases hu : s0.upgraded with
          | false => rfl
          | true => exact absurd (Or.inr hu) hg
        apply pr_setSock _ _ (Nat.le_refl _) Iff.rfl rfl rfl _ _ (pr_fields _ h1)
        · intro _ o
          refine ⟨o.cb, o.dc, fun _ => ?_⟩
          show (World.sock _ sid).upgraded = false
          rw [← hupf, hs0]; rfl
        · intro _ a; exact a.congr Iff.rfl rfl rfl rfl rfl

theorem pr_wtCandidate {w0 w : World} (sid : Nat) (h : Pres w0 w) : Pres w0 (wtCandidate w sid) := by
  unfold wtCandidate; try dsimp only
  have h1 : Pres w0 { w with conns := w.conns.push { wt := true } } := pr_fields _ h
  split
  · pr_auto
  · split
    · pr_auto
    · rename_i s0 hl hg
      have hs0 := lookup_some _ _ _ hl
      have hupf : s0.upgraded = false := by
        cases hu : s0.upgraded with
        | false => rfl
        | true => exact absurd (Or.inr hu) hg
      apply pr_setSock _ _ (Nat.le_refl _) Iff.rfl rfl rfl _ _ (pr_fields _ h1)
      · intro _ o
        refine ⟨o.cb, o.dc, fun _ => ?_⟩
        show (World.sock _ sid).upgraded = false
        rw [← hupf, hs0]; rfl
      · intro _ a; exact a.congr Iff.rfl rfl rfl rfl rfl

theorem pr_wsFrame {w0 w : World} (c : Nat) (m : Msg) (h : Pres w0 w) : Pres w0 (wsFrame w c m).1 := by
  unfold wsFrame; try dsimp only
  split
  · exact h
  · split
    · exact h
    · split
      · dsimp only; pr_auto
      · split <;> (dsimp only; pr_auto)

theorem pr_wsDrop {w0 w : World} (c : Nat) (h : Pres w0 w) : Pres w0 (wsDrop w c) := by
  unfold wsDrop; try dsimp only
  pr_auto

/-! ### the application -/

theorem pr_appClose {w0 w : World} (sid : Nat) (d : Bool) (h : Pres w0 w) : Pres w0 (appClose w sid d) := by
  unfold appClose; try dsimp only
  split
  · exact pr_closeTransport _ _ h
  · split
    · exact h
    · rename_i hopen
      have hopen : (w.sock sid).rs = .open_ := Classical.not_not.mp hopen
      have p1 : Pres w0 (w.setSock sid fun s => { s with rs := .closing }) := by
        apply pr_setSock _ _ _ _ rfl rfl _ _ h
        · rw [hopen]; simp [RS.rank]
        · simp [hopen]
        · intro _ o
          refine ⟨fun hc => ?_, fun _ => Or.inl rfl, o.cu⟩
          cases hc
        · intro _ a
          refine a.congr ?_ rfl rfl rfl rfl
          simp [hopen]
      split
      · apply pr_setSock _ _ (Nat.le_refl _) Iff.rfl rfl rfl _ _ p1
        · intro hz o
          refine ⟨o.cb, fun _ => Or.inl ?_, o.cu⟩
          rw [sock_setSock]; simp at hz; simp [hz]
        · intro _ a; exact a.congr Iff.rfl rfl rfl rfl rfl
      · exact pr_closeTransport _ _ p1

theorem pr_shutdown {w0 w : World} (h : Pres w0 w) : Pres w0 (shutdown w) := by
  unfold shutdown
  generalize w.registry = l
  induction l generalizing w with
  | nil => exact h
  | cons sid rest ih =>
    simp only [List.foldl_cons]
    exact ih (pr_appClose _ _ h)

theorem pr_appSend {w0 w : World} (sid : Nat) (m : Msg) (compress wantCb : Bool) (pre : Option Msg) (h : Pres w0 w) :
    Pres w0 (appSend w sid m compress wantCb pre) := by
  unfold appSend; try dsimp only
  apply pr_sendPacket
  split
  · exact pr_fields _ h
  · exact h

/-! ### time -/

theorem pr_fireTimer {w0 w : World} (id : TimerId) (h : Pres w0 w) : Pres w0 (fireTimer w id) := by
  cases id with
  | pingInterval sid =>
    simp only [fireTimer]
    refine pr_setSockSame _ _ ?_ ?_
    · intro s; exact ⟨rfl, rfl, rfl, rfl, rfl, rfl, rfl, rfl, by first | exact id | (intro h; cases h)⟩
    pr_auto
  | pingTimeout sid => simp only [fireTimer]; pr_auto
  | closeTimer ti => simp only [fireTimer]; pr_auto
  | upgradeTimeout sid => simp only [fireTimer]; pr_auto
  | check sid =>
    simp only [fireTimer]
    split
    · rename_i c hc
      try dsimp only
      have p1 : Pres w0 (w.setSock sid fun s => { s with cand := some { c with checkDue := some (w.now + checkPeriod) } }) :=
        pr_sv h (sameView_setSock _ _ _ ⟨rfl, rfl, rfl, rfl, rfl, rfl, rfl, rfl, fun _ => by rw [hc]; rfl⟩)
      split
      · exact pr_trSend _ _ p1
      · exact p1
    · exact h

theorem pr_advance {w0 w : World} (fuel target : Nat) (h : Pres w0 w) : Pres w0 (advance fuel w target) := by
  induction fuel generalizing w with
  | zero => simp only [advance]; exact pr_fields _ h
  | succ n ih =>
    rw [advance]
    split
    · apply ih
      apply pr_fireTimer
      exact pr_fields _ h
    · exact pr_fields _ h

/-! ### observation -/

theorem pr_observe {w0 w : World} (h : Pres w0 w) : Pres w0 (observe w) := by
  unfold observe; try dsimp only
  have h1 : Pres w0 { w with evs := [] } := pr_fields _ h
  generalize ({ w with evs := [] } : World) = w1 at h1 ⊢
  have l1 : ∀ (l : List Nat) (wx : World), Pres w0 wx → Pres w0 (l.foldl (fun (w : World) i =>
      let q := w.reqs.getD i default
      if (q.panicked ∧ !q.reported) ∨ q.resp.isSome then w.setReq i fun q => { q with reported := true } else w) wx) := by
    intro l
    induction l with
    | nil => intro wx hx; exact hx
    | cons a rest ih =>
      intro wx hx
      simp only [List.foldl_cons]
      apply ih
      split
      · refine pr_setReqKeep _ _ ?_ hx
        intro q; rfl
      · exact hx
  have l2 : ∀ (l : List Nat) (wx : World), Pres w0 wx → Pres w0 (l.foldl (fun (w : World) i =>
      w.setConn i fun c => { c with frames := [], endReported := c.ended.isSome }) wx) := by
    intro l
    induction l with
    | nil => intro wx hx; exact hx
    | cons a rest ih =>
      intro wx hx
      simp only [List.foldl_cons]
      exact ih _ (pr_setConn _ _ hx)
  apply l2
  apply l1
  exact h1

/-! ### one operation -/

theorem step_pres (w : World) (op : Op) : Pres w (step w op) := by
  unfold step
  split
  · exact Pres.refl _
  · cases op with
    | hsPolling p b j => exact pr_hsPolling _ _ _ (Pres.refl _)
    | hsWebsocket p b => exact pr_hsWebsocket _ _ (Pres.refl _)
    | poll sid ae => exact pr_pollReq _ _ (Pres.refl _)
    | post sid b d body v => exact pr_postReq _ _ _ _ _ (Pres.refl _)
    | abort r => exact pr_abortReq _ (Pres.refl _)
    | wsCandidate sid p b => exact pr_wsCandidate _ _ _ (Pres.refl _)
    | hsWt => exact pr_hsWt (Pres.refl _)
    | wtCandidate sid => exact pr_wtCandidate _ (Pres.refl _)
    | frame c m =>
      dsimp only
      repeat' split
      all_goals first | exact Pres.refl _ | exact pr_wsFrame _ _ (Pres.refl _)
    | drop c => exact pr_wsDrop _ (Pres.refl _)
    | closeFrame c code => exact pr_wsDrop _ (pr_setConn _ _ (Pres.refl _))
    | send sid m c cb pre => exact pr_appSend _ _ _ _ _ (Pres.refl _)
    | close sid d => exact pr_appClose _ _ (Pres.refl _)
    | shutdown => exact pr_shutdown (Pres.refl _)
    | adv d => exact pr_advance _ _ (Pres.refl _)
    | settle => exact pr_settle _ (Pres.refl _)
    | observe => exact pr_observe (Pres.refl _)

end EIO.Ses
