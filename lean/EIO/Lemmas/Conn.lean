import EIO.Lemmas.SesOps
/-
Who may announce a session: the `connection` entry of the session log is written by `openSession` and by nothing
else, and nothing but `openSession` creates a session record.

`NC w w'`: the step created no session record and logged no `connection` entry.
-/
namespace EIO.Ses
open EIO EIO.Codec

def SEv.isConnection : SEv → Bool
  | .connection _ _ _ => true
  | _ => false

structure NC (w w' : World) : Prop where
  size : w'.socks.size = w.socks.size
  log : ∃ added, w'.slog = w.slog ++ added ∧ ∀ e ∈ added, e.2.isConnection = false

theorem NC.refl (w : World) : NC w w := ⟨rfl, [], by simp, fun _ h => by cases h⟩
theorem NC.trans {a b c : World} (h1 : NC a b) (h2 : NC b c) : NC a c := by
  obtain ⟨x, hx, px⟩ := h1.log
  obtain ⟨y, hy, py⟩ := h2.log
  refine ⟨h2.size.trans h1.size, x ++ y, by rw [hy, hx, List.append_assoc], fun e he => ?_⟩
  rcases List.mem_append.mp he with h | h
  · exact px e h
  · exact py e h

theorem nc_same {w0 w : World} (w' : World) (h : NC w0 w) (hs : w'.socks = w.socks) (hl : w'.slog = w.slog) : NC w0 w' :=
  h.trans ⟨by rw [hs], [], by simp [hl], fun _ h => by cases h⟩

theorem nc_setTr {w0 w : World} (i : Nat) (f : Tr → Tr) (h : NC w0 w) : NC w0 (w.setTr i f) := nc_same _ h rfl rfl
theorem nc_setSock {w0 w : World} (i : Nat) (f : Sock → Sock) (h : NC w0 w) : NC w0 (w.setSock i f) :=
  h.trans ⟨by simp, [], by simp, fun _ h => by cases h⟩
theorem nc_setConn {w0 w : World} (i : Nat) (f : Conn → Conn) (h : NC w0 w) : NC w0 (w.setConn i f) := nc_same _ h rfl rfl
theorem nc_setReq {w0 w : World} (i : Nat) (f : Req → Req) (h : NC w0 w) : NC w0 (w.setReq i f) := nc_same _ h rfl rfl
theorem nc_ev {w0 w : World} (s : String) (h : NC w0 w) : NC w0 (w.ev s) := nc_same _ h rfl rfl
theorem nc_sev {w0 w : World} (sid : Nat) (e : SEv) (h : NC w0 w) (he : e.isConnection = false) : NC w0 (w.sev sid e) :=
  h.trans ⟨by simp, [(sid, e)], by simp, fun x hx => by simp at hx; subst hx; exact he⟩
theorem nc_answer {w0 w : World} (r : Nat) (resp : Resp) (h : NC w0 w) : NC w0 (w.answer r resp) := by
  unfold World.answer; split
  · exact h
  · exact nc_setReq _ _ (nc_ev _ h)
theorem nc_abortData {w0 w : World} (d : Option Nat) (h : NC w0 w) : NC w0 (abortData w d) := by
  unfold abortData; split
  · exact nc_answer _ _ h
  · exact h
theorem nc_trSend {w0 w : World} (ti : Nat) (b : List Pkt) (h : NC w0 w) : NC w0 (trSend w ti b) := nc_same _ h rfl rfl
theorem nc_fields {w0 w : World} (w' : World) (h : NC w0 w) (h1 : w'.socks = w.socks := by rfl) (h2 : w'.slog = w.slog := by rfl) : NC w0 w' :=
  nc_same w' h h1 h2
theorem nc_pushReq {w0 w : World} (q : Req) (h : NC w0 w) : NC w0 ({ w with reqs := w.reqs.push q } : World) := nc_fields _ h

macro "nc_prim" : tactic => `(tactic| repeat (first
  | with_reducible assumption
  | with_reducible apply nc_ev | (with_reducible refine nc_sev _ _ ?_ rfl) | with_reducible apply nc_answer
  | with_reducible apply nc_trSend | with_reducible apply nc_setConn
  | with_reducible apply nc_abortData | with_reducible apply nc_setSock
  | with_reducible apply nc_setReq | with_reducible apply nc_setTr))

theorem nc_candCleanup {w0 w : World} (sid : Nat) (h : NC w0 w) : NC w0 (candCleanup w sid) := by
  unfold candCleanup
  split
  · exact h
  · nc_prim

theorem nc_close_all (f : Nat) :
    (∀ w0 w ti, NC w0 w → NC w0 (trEmitClose f w ti)) ∧
    (∀ w0 w ti, NC w0 w → NC w0 (trOnErrorF f w ti)) ∧
    (∀ w0 w ti, NC w0 w → NC w0 (trOnCloseBaseF f w ti)) ∧
    (∀ w0 w ti, NC w0 w → NC w0 (pollOnCloseF f w ti)) ∧
    (∀ w0 w ti, NC w0 w → NC w0 (runCloseFnF f w ti)) ∧
    (∀ w0 w ti, NC w0 w → NC w0 (wsCloseNowF f w ti)) ∧
    (∀ w0 w ti fn, NC w0 w → NC w0 (trCloseF f w ti fn)) ∧
    (∀ w0 w sid, NC w0 w → NC w0 (clearTransportF f w sid)) ∧
    (∀ w0 w sid, NC w0 w → NC w0 (candFail f w sid)) ∧
    (∀ w0 w sid r, NC w0 w → NC w0 (sockOnClose f w sid r)) := by
  induction f with
  | zero =>
    refine ⟨?_, ?_, ?_, ?_, ?_, ?_, ?_, ?_, ?_, ?_⟩ <;> intros <;>
      first
      | (simp only [trEmitClose]; assumption) | (simp only [trOnErrorF]; assumption) | (simp only [trOnCloseBaseF]; assumption)
      | (simp only [pollOnCloseF]; assumption) | (simp only [runCloseFnF]; assumption) | (simp only [wsCloseNowF]; assumption)
      | (simp only [trCloseF]; assumption) | (simp only [clearTransportF]; assumption)
      | (simp only [candFail]; exact nc_candCleanup _ (by assumption)) | (simp only [sockOnClose]; assumption)
  | succ f ih =>
    obtain ⟨iEC, iOE, iCB, iPC, iRF, iWN, iTC, iCT, iCF, iSC⟩ := ih
    refine ⟨?_, ?_, ?_, ?_, ?_, ?_, ?_, ?_, ?_, ?_⟩
    · intro w0 w ti h
      rw [trEmitClose]; split
      · exact iSC _ _ _ _ h
      · exact iCF _ _ _ h
      · exact h
    · intro w0 w ti h
      rw [trOnErrorF]; split
      · exact iSC _ _ _ _ h
      · exact iCF _ _ _ h
      · exact h
    · intro w0 w ti h
      rw [trOnCloseBaseF]; split
      · exact h
      · apply iEC; nc_prim
    · intro w0 w ti h
      rw [pollOnCloseF]
      apply iCB
      split <;> nc_prim
    · intro w0 w ti h
      rw [runCloseFnF]
      try dsimp only
      split
      · apply iSC; nc_prim
      · nc_prim
    · intro w0 w ti h
      rw [wsCloseNowF]
      try dsimp only
      apply iCB; apply nc_setConn; apply iRF; nc_prim
    · intro w0 w ti fn h
      rw [trCloseF]
      try dsimp only
      split
      · exact h
      · have h1 : NC w0 (w.setTr ti fun t => { t with rs := .closing, closeFn := fn }) := by nc_prim
        split
        · have h2 := nc_abortData (w.tr ti).dataReq h1
          split
          · apply iPC; apply iRF; nc_prim
          · split
            · apply iPC; apply iRF; exact h2
            · nc_prim
        · split
          · exact iWN _ _ _ h1
          · nc_prim
    · intro w0 w sid h
      rw [clearTransportF]
      try dsimp only
      apply nc_setSock; apply iTC; nc_prim
    · intro w0 w sid h
      rw [candFail]
      split
      · exact h
      · apply iTC; exact nc_candCleanup _ h
    · intro w0 w sid r h
      rw [sockOnClose]
      split
      · exact h
      · try dsimp only
        apply nc_setSock; apply iCF; refine nc_sev _ _ ?_ rfl
        refine nc_same _ (iCT _ _ _ (nc_setSock _ _ h)) rfl rfl


theorem nc_trOnError {w0 w : World} (ti : Nat) (h : NC w0 w) : NC w0 (trOnError w ti) := (nc_close_all closeFuel).2.1 _ _ _ h
theorem nc_trOnCloseBase {w0 w : World} (ti : Nat) (h : NC w0 w) : NC w0 (trOnCloseBase w ti) := (nc_close_all closeFuel).2.2.1 _ _ _ h
theorem nc_pollOnClose {w0 w : World} (ti : Nat) (h : NC w0 w) : NC w0 (pollOnClose w ti) := (nc_close_all closeFuel).2.2.2.1 _ _ _ h
theorem nc_runCloseFn {w0 w : World} (ti : Nat) (h : NC w0 w) : NC w0 (runCloseFn w ti) := (nc_close_all closeFuel).2.2.2.2.1 _ _ _ h
theorem nc_wsCloseNow {w0 w : World} (ti : Nat) (h : NC w0 w) : NC w0 (wsCloseNow w ti) := (nc_close_all closeFuel).2.2.2.2.2.1 _ _ _ h
theorem nc_trClose {w0 w : World} (ti : Nat) (fn : Option Nat) (h : NC w0 w) : NC w0 (trClose w ti fn) :=
  (nc_close_all closeFuel).2.2.2.2.2.2.1 _ _ _ _ h
theorem nc_clearTransport {w0 w : World} (sid : Nat) (h : NC w0 w) : NC w0 (clearTransport w sid) :=
  (nc_close_all closeFuel).2.2.2.2.2.2.2.1 _ _ _ h
theorem nc_sockOnClose {w0 w : World} (f : Nat) (sid : Nat) (r : String) (h : NC w0 w) : NC w0 (sockOnClose f w sid r) :=
  (nc_close_all f).2.2.2.2.2.2.2.2.2 _ _ _ _ h

macro "nc_auto" : tactic => `(tactic| repeat (first
  | with_reducible assumption
  | with_reducible apply nc_ev | (with_reducible refine nc_sev _ _ ?_ rfl) | with_reducible apply nc_answer
  | with_reducible apply nc_trSend | with_reducible apply nc_setConn
  | with_reducible apply nc_abortData | with_reducible apply nc_setSock
  | with_reducible apply nc_trOnError | with_reducible apply nc_trOnCloseBase | with_reducible apply nc_pollOnClose
  | with_reducible apply nc_runCloseFn | with_reducible apply nc_wsCloseNow | with_reducible apply nc_trClose
  | with_reducible apply nc_clearTransport | with_reducible apply nc_candCleanup | with_reducible apply nc_sockOnClose
  | with_reducible apply nc_setReq | with_reducible apply nc_setTr))

/-! ### everything else -/

theorem nc_closeTransportF {w0 w : World} (f : Nat) (sid : Nat) (d : Bool) (h : NC w0 w) : NC w0 (closeTransportF f w sid d) := by
  cases f with
  | zero => simpa [closeTransportF] using h
  | succ f =>
    rw [closeTransportF]
    try dsimp only
    have h1 : NC w0 (if d = true then w.setTr (w.sock sid).tr fun t => { t with discarded := true } else w) := by
      split
      · nc_auto
      · exact h
    generalize (if d = true then w.setTr (w.sock sid).tr fun t => { t with discarded := true } else w) = w1 at h1 ⊢
    split
    · exact nc_sockOnClose _ _ _ h1
    · exact nc_trClose _ _ h1

theorem nc_flushF {w0 w : World} (f : Nat) (sid : Nat) (h : NC w0 w) : NC w0 (flushF f w sid) := by
  cases f with
  | zero => simpa [flushF] using h
  | succ f =>
    rw [flushF]
    try dsimp only
    split
    · exact h
    · apply nc_ev
      split
      · apply nc_closeTransportF; nc_auto
      · nc_auto

theorem nc_flush {w0 w : World} (sid : Nat) (h : NC w0 w) : NC w0 (flush w sid) := nc_flushF _ sid h
theorem nc_closeTransport {w0 w : World} (sid : Nat) (d : Bool) (h : NC w0 w) : NC w0 (closeTransport w sid d) := nc_closeTransportF _ sid d h

theorem nc_sendPacket {w0 w : World} (sid : Nat) (pk : Pkt) (cb : Option Nat) (h : NC w0 w) : NC w0 (sendPacket w sid pk cb) := by
  unfold sendPacket
  try dsimp only
  split
  · exact h
  · apply nc_flush; nc_auto

theorem nc_cbs {w0 w : World} (sid : Nat) (cbs : List Nat) (h : NC w0 w) : NC w0 (cbs.foldl (fun w id => w.sev sid (.cb id)) w) := by
  induction cbs generalizing w with
  | nil => exact h
  | cons id rest ih => simp only [List.foldl_cons]; exact ih (nc_sev _ _ h rfl)

theorem nc_sockOnDrain {w0 w : World} (sid : Nat) (h : NC w0 w) : NC w0 (sockOnDrain w sid) := by
  unfold sockOnDrain
  split
  · exact h
  · apply nc_cbs; nc_auto

theorem nc_trEmitDrain {w0 w : World} (ti : Nat) (h : NC w0 w) : NC w0 (trEmitDrain w ti) := by
  unfold trEmitDrain
  try dsimp only
  split
  · split
    · exact nc_wsCloseNow _ (nc_sockOnDrain _ h)
    · exact nc_sockOnDrain _ h
  · split
    · exact nc_wsCloseNow _ h
    · exact h

theorem nc_trEmitReady {w0 w : World} (ti : Nat) (h : NC w0 w) : NC w0 (trEmitReady w ti) := by
  unfold trEmitReady
  split
  · exact nc_flush _ h
  · exact h

theorem nc_doUpgrade {w0 w : World} (sid newTr : Nat) (h : NC w0 w) : NC w0 (doUpgrade w sid newTr) := by
  unfold doUpgrade
  try dsimp only
  have h1 := nc_candCleanup sid h
  generalize candCleanup w sid = wa at h1 ⊢
  have h2 : NC w0 (flush (((((clearTransport ((wa.setTr (wa.sock sid).tr fun t => { t with discarded := true }).setSock sid fun s => { s with upgraded := true }) sid).setSock sid
      fun s => { s with tr := newTr }).setTr newTr fun t => { t with role := .current sid })).sev sid .upgrade) sid) := by
    apply nc_flush; nc_auto
  split
  · exact nc_trClose _ _ h2
  · exact h2

theorem nc_candOnPacket {w0 w : World} (sid : Nat) (pk : Pkt) (h : NC w0 w) : NC w0 (candOnPacket w sid pk) := by
  unfold candOnPacket
  split
  · exact h
  · split
    · try dsimp only
      nc_auto
    · split
      · exact nc_doUpgrade _ _ h
      · nc_auto

theorem nc_sockOnPacket {w0 w : World} (sid : Nat) (pk : Pkt) (h : NC w0 w) : NC w0 (sockOnPacket w sid pk) := by
  unfold sockOnPacket
  try dsimp only
  split
  · exact h
  · split
    · split
      · nc_auto
      · refine nc_sev _ _ ?_ rfl; apply nc_sendPacket; nc_auto
    · split
      · nc_auto
      · nc_auto
    · nc_auto
    · nc_auto
    · nc_auto

theorem nc_trEmitPacket {w0 w : World} (ti : Nat) (pk : Pkt) (h : NC w0 w) : NC w0 (trEmitPacket w ti pk) := by
  unfold trEmitPacket
  split
  · exact nc_sockOnPacket _ _ h
  · exact nc_candOnPacket _ _ h
  · exact h

theorem nc_emitHeaders {w0 w : World} (ti r : Nat) (h : NC w0 w) : NC w0 (emitHeaders w ti r) := by
  unfold emitHeaders
  try dsimp only
  repeat (first | with_reducible assumption | with_reducible apply nc_ev | with_reducible apply nc_setReq | split)

theorem nc_rejectReq {w0 w : World} (r code : Nat) (msg : String) (h : NC w0 w) : NC w0 (rejectReq w r code msg) := by
  unfold rejectReq; nc_auto

theorem nc_wsSendLoop {w0 w : World} (ti : Nat) (batch : List Pkt) (h : NC w0 w) : NC w0 (wsSendLoop ti batch w) := by
  induction batch generalizing w with
  | nil => exact h
  | cons pk rest ih =>
    rw [wsSendLoop]
    try dsimp only
    split
    · apply ih; unfold wsPut; nc_auto
    · apply ih; nc_auto

theorem nc_pollDeliver {w0 w : World} (ti : Nat) (pkts : List Pkt) (h : NC w0 w) : NC w0 (pollDeliver ti pkts w) := by
  induction pkts generalizing w with
  | nil => simpa [pollDeliver] using h
  | cons pk rest ih =>
    rw [pollDeliver]
    split
    · exact nc_pollOnClose _ h
    · exact ih (nc_trEmitPacket _ _ h)

theorem nc_pollOnData {w0 w : World} (ti : Nat) (body : Bytes) (binary : Bool) (h : NC w0 w) : NC w0 (pollOnData w ti body binary).1 := by
  unfold pollOnData
  split
  · exact nc_pollDeliver _ _ h
  · exact h
  · exact nc_fields _ h

theorem nc_postReq {w0 w : World} (sid : Nat) (binary declared : Bool) (body : Bytes) (vj : Bool) (h : NC w0 w) :
    NC w0 (postReq w sid binary declared body vj) := by
  unfold postReq; try dsimp only
  repeat (first
    | with_reducible assumption
    | with_reducible apply nc_rejectReq | with_reducible apply nc_emitHeaders | with_reducible apply nc_pollOnData
    | with_reducible apply nc_answer | with_reducible apply nc_trOnError | with_reducible apply nc_pushReq
    | with_reducible apply nc_setReq
    | with_reducible apply nc_setTr
    | dsimp only
    | split)

theorem nc_wsFrame {w0 w : World} (c : Nat) (m : Msg) (h : NC w0 w) : NC w0 (wsFrame w c m).1 := by
  unfold wsFrame
  try dsimp only
  split
  · exact h
  · split
    · exact h
    · split
      · dsimp only; nc_auto
      · dsimp only
        split <;> exact nc_trEmitPacket _ _ h

theorem nc_wsDrop {w0 w : World} (c : Nat) (h : NC w0 w) : NC w0 (wsDrop w c) := by
  unfold wsDrop
  try dsimp only
  split
  · nc_auto
  · split <;> (try split) <;> nc_auto

theorem nc_appClose {w0 w : World} (sid : Nat) (discard : Bool) (h : NC w0 w) : NC w0 (appClose w sid discard) := by
  unfold appClose
  try dsimp only
  split
  · exact nc_closeTransport _ _ h
  · split
    · exact h
    · split
      · nc_auto
      · exact nc_closeTransport _ _ (nc_setSock _ _ h)

theorem nc_shutdownFold {w0 w : World} (reg : List Nat) (h : NC w0 w) : NC w0 (reg.foldl (fun w sid => appClose w sid true) w) := by
  induction reg generalizing w with
  | nil => exact h
  | cons sid rest ih => simp only [List.foldl_cons]; exact ih (nc_appClose _ _ h)

theorem nc_appSend {w0 w : World} (sid : Nat) (m : Msg) (compress wantCb : Bool) (pre : Option Msg) (h : NC w0 w) :
    NC w0 (appSend w sid m compress wantCb pre) := by
  unfold appSend
  try dsimp only
  apply nc_sendPacket
  split
  · exact nc_fields _ h
  · exact h

theorem nc_fireTimer {w0 w : World} (id : TimerId) (h : NC w0 w) : NC w0 (fireTimer w id) := by
  cases id with
  | pingInterval sid => simp only [fireTimer]; apply nc_setSock; apply nc_sendPacket; nc_auto
  | pingTimeout sid =>
    simp only [fireTimer]
    split <;> nc_auto
  | closeTimer ti =>
    simp only [fireTimer]
    split <;> nc_auto
  | upgradeTimeout sid =>
    simp only [fireTimer]
    split
    · split <;> nc_auto
    · exact h
  | check sid =>
    simp only [fireTimer]
    split
    · split <;> nc_auto
    · exact h

theorem nc_advance {w0 w : World} (f target : Nat) (h : NC w0 w) : NC w0 (advance f w target) := by
  induction f generalizing w with
  | zero => simp only [advance]; exact nc_fields _ h
  | succ f ih =>
    rw [advance]
    split
    · exact ih (nc_fireTimer _ (nc_fields _ h))
    · exact nc_fields _ h

theorem nc_foldl {w0 w : World} (is : List Nat) (g : World → Nat → World)
    (hg : ∀ w i, NC w0 w → NC w0 (g w i)) (h : NC w0 w) : NC w0 (is.foldl g w) := by
  induction is generalizing w with
  | nil => exact h
  | cons i rest ih => simp only [List.foldl_cons]; exact ih (hg _ _ h)

theorem nc_observe {w0 w : World} (h : NC w0 w) : NC w0 (observe w) := by
  unfold observe
  try dsimp only
  apply nc_foldl
  · intro w i h; exact nc_setConn _ _ h
  · apply nc_foldl
    · intro w i h
      split
      · exact nc_setReq _ _ h
      · exact h
    · exact nc_fields _ h


end EIO.Ses
