import EIO.Lemmas.SesAcc
/-
flush / send / drain / packets / upgrade: the functions whose events need a guard.
-/
namespace EIO.Ses
open EIO EIO.Codec

/-! ### reading a session through updates -/

@[simp] theorem sock_trSend (w : World) (ti : Nat) (b : List Pkt) (j : Nat) : (trSend w ti b).sock j = w.sock j := rfl
@[simp] theorem sock_answer (w : World) (r : Nat) (resp : Resp) (j : Nat) : (w.answer r resp).sock j = w.sock j := by
  unfold World.answer; split <;> rfl
@[simp] theorem socks_trSend (w : World) (ti : Nat) (b : List Pkt) : (trSend w ti b).socks = w.socks := rfl
@[simp] theorem registry_trSend (w : World) (ti : Nat) (b : List Pkt) : (trSend w ti b).registry = w.registry := rfl

@[simp] theorem rs_ite (c : Prop) [Decidable c] (a b : Sock) : (if c then a else b).rs = if c then a.rs else b.rs := by
  split <;> rfl
@[simp] theorem drainClose_ite (c : Prop) [Decidable c] (a b : Sock) :
    (if c then a else b).drainClose = if c then a.drainClose else b.drainClose := by split <;> rfl
@[simp] theorem announced_ite (c : Prop) [Decidable c] (a b : Sock) :
    (if c then a else b).announced = if c then a.announced else b.announced := by split <;> rfl
@[simp] theorem sentCb_ite (c : Prop) [Decidable c] (a b : Sock) :
    (if c then a else b).sentCb = if c then a.sentCb else b.sentCb := by split <;> rfl
@[simp] theorem proto_ite (c : Prop) [Decidable c] (a b : Sock) :
    (if c then a else b).proto = if c then a.proto else b.proto := by split <;> rfl
@[simp] theorem tr_ite (c : Prop) [Decidable c] (a b : Sock) :
    (if c then a else b).tr = if c then a.tr else b.tr := by split <;> rfl

/-! ### flush -/

theorem pr_flushF {w0 w : World} (f : Nat) (sid : Nat) (h : Pres w0 w) : Pres w0 (flushF f w sid) := by
  cases f with
  | zero => simpa [flushF] using h
  | succ f =>
    rw [flushF]
    try dsimp only
    split
    · exact h
    · rename_i hg
      have hnc : (w.sock sid).rs ≠ .closed := fun hc => hg (Or.inl hc)
      apply pr_ev
      have hsz : sid < w.socks.size := by
        apply Nat.lt_of_not_le; intro hle
        apply hg; right; right
        rw [sock_oob w sid hle]; rfl
      have core : Pres w0 ((trSend (((w.setSock sid fun s =>
          { s with wbuf := [], sentCb := s.sentCb ++ [s.packetsFn], packetsFn := [] }).sev sid
            (.flush (w.sock sid).wbuf (w.sock sid).packetsFn)).ev s!"srv:flush:s{sid}:{pktChars (w.sock sid).wbuf}")
            (w.sock sid).tr (w.sock sid).wbuf).sev sid .drain) := by
        apply pr_sev _ _ rfl rfl
        · simp [closedW, hnc]
        apply pr_trSend
        apply pr_ev
        refine pr_accStep1 sid _ _ rfl (by simp [closedW, hnc]) hsz rfl rfl rfl ?_ ?_ ?_ h
        · intro o
          exact ⟨fun hc => absurd hc hnc, o.dc, o.cu⟩
        · intro a
          obtain ⟨r1, e1, i1⟩ := a.pk
          obtain ⟨r2, e2, i2⟩ := a.cb
          obtain ⟨r3, e3, i3⟩ := a.run
          have h1 := i1 hnc; have h2 := i2 hnc; have h3 := i3 hnc
          subst h1; subst h2; subst h3
          refine ⟨⟨[], ?_, fun _ => rfl⟩, ⟨[], ?_, fun _ => rfl⟩, ⟨_, ?_, fun _ => rfl⟩, ?_⟩
          · rw [proj_snoc_self, proj_snoc_self, e1]; simp [fCreatedPkt, fFlushedPkt]
          · rw [proj_snoc_self, proj_snoc_self, e2]; simp [fCreatedCb, fFlushedCb]
          · rw [proj_snoc_self, proj_snoc_self, e3]; simp [fFlushedCb, fRanCb]
          · unfold upgradeCount; rw [proj_snoc_self]; simpa [fUpgrade, upgradeCount] using a.up
        · intro a b c _
          obtain ⟨r1, e1, i1⟩ := a.pk
          obtain ⟨r2, e2, i2⟩ := a.cb
          have h1 := i1 hnc; have h2 := i2 hnc
          subst h1; subst h2
          unfold TightAt
          constructor
          · rw [proj_snoc_self, proj_snoc_self, e1]; simp [fCreatedPkt, fFlushedPkt]
          · rw [proj_snoc_self, proj_snoc_self, e2]; simp [fCreatedCb, fFlushedCb]
      split
      · apply pr_closeTransportF
        apply pr_setSock _ _ (Nat.le_refl _) (Iff.rfl) rfl rfl
        · intro _ o
          exact ⟨o.cb, fun hd => (by cases hd), o.cu⟩
        · intro _ a; exact a.congr Iff.rfl rfl rfl rfl rfl
        · exact core
      · exact core

theorem pr_flush {w0 w : World} (sid : Nat) (h : Pres w0 w) : Pres w0 (flush w sid) := pr_flushF _ _ h
theorem pr_closeTransport {w0 w : World} (sid : Nat) (d : Bool) (h : Pres w0 w) : Pres w0 (closeTransport w sid d) :=
  pr_closeTransportF _ _ _ h

theorem pr_sendPacket {w0 w : World} (sid : Nat) (p : Pkt) (cb : Option Nat) (h : Pres w0 w) :
    Pres w0 (sendPacket w sid p cb) := by
  unfold sendPacket
  try dsimp only
  split
  · exact h
  · rename_i hg
    have hnc : (w.sock sid).rs ≠ .closed := fun hc => hg (Or.inr (Or.inl hc))
    have hsz : sid < w.socks.size := Nat.lt_of_not_le (fun hle => hg (Or.inr (Or.inr hle)))
    apply pr_flush
    refine pr_sv ?_ (sameView_sev_setSock w sid (.packetCreate p cb) _)
    refine pr_accStep1 sid _ _ rfl (by simp [closedW, hnc]) hsz rfl rfl rfl ?_ ?_ ?_ h
    · intro o; exact ⟨o.cb, o.dc, o.cu⟩
    · intro a
      obtain ⟨r1, e1, i1⟩ := a.pk
      obtain ⟨r2, e2, i2⟩ := a.cb
      obtain ⟨r3, e3, i3⟩ := a.run
      have h1 := i1 hnc; have h2 := i2 hnc
      subst h1; subst h2
      refine ⟨⟨_, ?_, fun _ => rfl⟩, ⟨_, ?_, fun _ => rfl⟩, ⟨r3, ?_, i3⟩, ?_⟩
      · rw [proj_snoc_self, proj_snoc_self, e1]; simp [fCreatedPkt, fFlushedPkt]
      · rw [proj_snoc_self, proj_snoc_self, e2]
        cases cb <;> simp [fCreatedCb, fFlushedCb]
      · rw [proj_snoc_self, proj_snoc_self, e3]; simp [fFlushedCb, fRanCb]
      · unfold upgradeCount; rw [proj_snoc_self]; simpa [fUpgrade, upgradeCount] using a.up
    · intro _ b c hb; cases hb

/-- what does not change when a packet is sent on a session that is not waiting for a drain to close -/
structure Quiet (w w' : World) : Prop where
  size : w'.socks.size = w.socks.size
  registry : w'.registry = w.registry
  rs : ∀ j, (w'.sock j).rs = (w.sock j).rs
  announced : ∀ j, (w'.sock j).announced = (w.sock j).announced
  drainClose : ∀ j, (w'.sock j).drainClose = (w.sock j).drainClose

theorem Quiet.refl (w : World) : Quiet w w := ⟨rfl, rfl, fun _ => rfl, fun _ => rfl, fun _ => rfl⟩
theorem Quiet.trans {a b c : World} (h1 : Quiet a b) (h2 : Quiet b c) : Quiet a c :=
  ⟨h2.size.trans h1.size, h2.registry.trans h1.registry, fun j => (h2.rs j).trans (h1.rs j),
   fun j => (h2.announced j).trans (h1.announced j), fun j => (h2.drainClose j).trans (h1.drainClose j)⟩
theorem SameView.quiet {w w' : World} (v : SameView w w') : Quiet w w' :=
  ⟨v.size, v.registry, fun j => (v.sock j).rs, fun j => (v.sock j).announced, fun j => (v.sock j).drainClose⟩

theorem flushF_quiet (f : Nat) (w : World) (sid : Nat) (hdc : (w.sock sid).drainClose = none) :
    Quiet w (flushF f w sid) := by
  cases f with
  | zero => simp [flushF]; exact Quiet.refl _
  | succ f =>
    rw [flushF]
    try dsimp only
    split
    · exact Quiet.refl _
    · split
      · rename_i d hd
        simp [hdc] at hd
      · exact ⟨by simp, by simp, fun j => by simp, fun j => by simp, fun j => by simp⟩

theorem sendPacket_quiet (w : World) (sid : Nat) (p : Pkt) (cb : Option Nat) (hdc : (w.sock sid).drainClose = none) :
    Quiet w (sendPacket w sid p cb) := by
  unfold sendPacket
  try dsimp only
  split
  · exact Quiet.refl _
  · refine Quiet.trans ?_ (flushF_quiet _ _ _ (by simp [hdc]))
    exact ⟨by simp, by simp, fun j => by simp, fun j => by simp, fun j => by simp⟩

/-! ### drain, ready -/

theorem pr_sockOnDrain {w0 w : World} (sid : Nat) (h : Pres w0 w) : Pres w0 (sockOnDrain w sid) := by
  refine h.trans (fun i => ?_)
  have p : Pres w (sockOnDrain w sid) := by
    unfold sockOnDrain
    split
    · exact Pres.refl _
    · rename_i cbs rest hs
      have hnc : (w.sock sid).rs ≠ .closed := fun hc => by
        have := (i.sockOK sid).cb hc
        rw [hs] at this; cases this
      have hsz : sid < w.socks.size := by
        apply Nat.lt_of_not_le; intro hle
        rw [sock_oob w sid hle] at hs; cases hs
      have hfold : cbs.foldl (fun w id => w.sev sid (.cb id)) (w.setSock sid fun s => { s with sentCb := rest }) =
          (cbs.map SEv.cb).foldl (fun w e => w.sev sid e) (w.setSock sid fun s => { s with sentCb := rest }) := by
        rw [List.foldl_map]
      rw [hfold]
      have hflat : ∀ {α} (f : SEv → List α), (∀ id, f (.cb id) = []) → (cbs.map SEv.cb).flatMap f = [] := by
        intro α f hf
        apply List.flatMap_eq_nil_iff.mpr
        intro x hx
        obtain ⟨id, _, rfl⟩ := List.mem_map.mp hx
        exact hf id
      have hran : ∀ k, ((cbs.map SEv.cb).take k).flatMap fRanCb = cbs.take k := by
        intro k
        rw [← List.map_take]
        induction (cbs.take k) with
        | nil => rfl
        | cons a t ih => simp [List.flatMap_cons, fRanCb, ih]
      have hflatk : ∀ {α} (f : SEv → List α) (k : Nat), (∀ id, f (.cb id) = []) → ((cbs.map SEv.cb).take k).flatMap f = [] := by
        intro α f k hf
        apply List.flatMap_eq_nil_iff.mpr
        intro x hx
        obtain ⟨id, _, rfl⟩ := List.mem_map.mp (List.mem_of_mem_take hx)
        exact hf id
      refine pres_accSteps w sid (cbs.map SEv.cb) _ ?_ (by simp [closedW, hnc]) hsz rfl rfl rfl ?_ ?_ ?_ ?_
      · intro e he; obtain ⟨id, _, rfl⟩ := List.mem_map.mp he; rfl
      · intro o; exact ⟨fun hc => absurd hc hnc, o.dc, o.cu⟩
      · intro a
        obtain ⟨r1, e1, i1⟩ := a.pk
        obtain ⟨r2, e2, i2⟩ := a.cb
        obtain ⟨r3, e3, i3⟩ := a.run
        have h3 := i3 hnc
        rw [hs] at h3
        refine ⟨⟨r1, ?_, i1⟩, ⟨r2, ?_, i2⟩, ⟨rest.flatten, ?_, fun _ => rfl⟩, ?_⟩
        · rw [proj_append_entries, proj_append_entries, hflat _ (fun _ => rfl), hflat _ (fun _ => rfl)]; simpa using e1
        · rw [proj_append_entries, proj_append_entries, hflat _ (fun _ => rfl), hflat _ (fun _ => rfl)]; simpa using e2
        · rw [proj_append_entries, proj_append_entries, hflat _ (fun _ => rfl)]
          have := hran cbs.length
          rw [List.take_of_length_le (by simp), List.take_of_length_le (Nat.le_refl _)] at this
          rw [this, e3, h3]; simp [List.append_assoc]
        · unfold upgradeCount; rw [proj_append_entries, hflat _ (fun _ => rfl)]; simpa [upgradeCount] using a.up
      · intro a k
        obtain ⟨hp, hc, hr, hu⟩ := a.histAt
        obtain ⟨r3, e3, i3⟩ := a.run
        have h3 := i3 hnc
        rw [hs] at h3
        unfold HistAt
        refine ⟨?_, ?_, ?_, ?_⟩
        · rw [proj_append_entries, proj_append_entries, hflatk _ k (fun _ => rfl), hflatk _ k (fun _ => rfl)]; simpa using hp
        · rw [proj_append_entries, proj_append_entries, hflatk _ k (fun _ => rfl), hflatk _ k (fun _ => rfl)]; simpa using hc
        · rw [proj_append_entries, proj_append_entries, hflatk fFlushedCb k (fun _ => rfl), hran k, List.append_nil, e3, h3]
          simp only [List.flatten_cons]
          exact (List.prefix_append_right_inj _).mpr ((List.take_prefix k cbs).trans (List.prefix_append _ _))
        · unfold upgradeCount; rw [proj_append_entries, hflatk _ k (fun _ => rfl)]; simpa [upgradeCount] using hu
      · intro _ k b c hk
        rw [List.getElem?_map] at hk
        cases hc : cbs[k]? <;> simp [hc] at hk
  exact p i

theorem pr_trEmitDrain {w0 w : World} (ti : Nat) (h : Pres w0 w) : Pres w0 (trEmitDrain w ti) := by
  unfold trEmitDrain
  try dsimp only
  split
  · split
    · exact pr_wsCloseNow _ (pr_sockOnDrain _ h)
    · exact pr_sockOnDrain _ h
  · split
    · exact pr_wsCloseNow _ h
    · exact h

theorem pr_trEmitReady {w0 w : World} (ti : Nat) (h : Pres w0 w) : Pres w0 (trEmitReady w ti) := by
  unfold trEmitReady
  split
  · exact pr_flush _ h
  · exact h

/-! ### upgrade -/

theorem candCleanup_sock (w : World) (sid : Nat) (c : Cand) (hc : (w.sock sid).cand = some c) (hsz : sid < w.socks.size) :
    (candCleanup w sid).sock sid = { (w.sock sid) with upgrading := false, cand := none } := by
  unfold candCleanup
  simp only [hc]
  rw [sock_setTr, sock_setSock]; simp [hsz]

theorem pr_doUpgrade {w0 w : World} (sid : Nat) (newTr : Nat) (hnc : ¬ closedW w sid) (c : Cand)
    (hc : (w.sock sid).cand = some c) (h : Pres w0 w) : Pres w0 (doUpgrade w sid newTr) := by
  refine h.trans (fun i => ?_)
  have hup : (w.sock sid).upgraded = false := (i.sockOK sid).cu (by rw [hc]; rfl)
  have hsz : sid < w.socks.size := by
    apply Nat.lt_of_not_le; intro hle
    rw [sock_oob w sid hle] at hc; cases hc
  have p : Pres w (doUpgrade w sid newTr) := by
    unfold doUpgrade
    try dsimp only
    -- up to the switch of the flag
    have va : SameView w ((candCleanup w sid).setTr (candCleanup w sid |>.sock sid).tr fun t => { t with discarded := true }) := by
      apply sv_setTr
      exact candCleanup_sameView w sid
    have sa : ((candCleanup w sid).setTr (candCleanup w sid |>.sock sid).tr fun t => { t with discarded := true }).sock sid =
        { (w.sock sid) with upgrading := false, cand := none } := by
      rw [sock_setTr]; exact candCleanup_sock w sid c hc hsz
    have za : ((candCleanup w sid).setTr (candCleanup w sid |>.sock sid).tr fun t => { t with discarded := true }).socks.size = w.socks.size := va.size
    have la : ((candCleanup w sid).setTr (candCleanup w sid |>.sock sid).tr fun t => { t with discarded := true }).slog = w.slog := va.slog
    generalize ((candCleanup w sid).setTr (candCleanup w sid |>.sock sid).tr fun t => { t with discarded := true }) = wa at va sa za la ⊢
    have pa : Pres w wa := pr_sv (Pres.refl w) va
    have hnca : ¬ closedW wa sid := fun hcl => hnc ((va.closedW sid).mp hcl)
    -- the flag and the entry
    have pb : Pres w ((wa.setSock sid fun s => { s with upgraded := true }).sev sid .upgrade) := by
      refine pr_accStep1 sid _ _ rfl hnca (by rw [za]; exact hsz) rfl rfl rfl ?_ ?_ ?_ pa
      · intro o
        exact ⟨o.cb, o.dc, fun hd => by rw [sa] at hd; cases hd⟩
      · intro a
        obtain ⟨r1, e1, i1⟩ := a.pk
        obtain ⟨r2, e2, i2⟩ := a.cb
        obtain ⟨r3, e3, i3⟩ := a.run
        refine ⟨⟨r1, ?_, i1⟩, ⟨r2, ?_, i2⟩, ⟨r3, ?_, i3⟩, ?_⟩
        · rw [proj_snoc_self, proj_snoc_self, e1]; simp [fCreatedPkt, fFlushedPkt]
        · rw [proj_snoc_self, proj_snoc_self, e2]; simp [fCreatedCb, fFlushedCb]
        · rw [proj_snoc_self, proj_snoc_self, e3]; simp [fFlushedCb, fRanCb]
        · have hu := a.up
          rw [sa] at hu
          simp only [hup] at hu
          unfold upgradeCount at hu ⊢
          rw [proj_snoc_self]; simp [fUpgrade]
          simpa using hu
      · intro _ b c' hb; cases hb
    -- the rest of the switch touches nothing the invariant reads
    have v : SameView (wa.setSock sid fun s => { s with upgraded := true })
        (((clearTransport (wa.setSock sid fun s => { s with upgraded := true }) sid).setSock sid fun s =>
          { s with tr := newTr }).setTr newTr fun t => { t with role := .current sid }) := by
      apply sv_setTr
      apply sv_setSock _ _ _ ⟨rfl, rfl, rfl, rfl, rfl, rfl, rfl, rfl, id⟩
      exact clearTransportF_sameView _ _ sid
    have core : Pres w (flush (((((clearTransport (wa.setSock sid fun s => { s with upgraded := true }) sid).setSock sid fun s =>
        { s with tr := newTr })).setTr newTr fun t => { t with role := .current sid }).sev sid .upgrade) sid) := by
      apply pr_flush
      exact pr_sv pb (sameView_sev_congr v sid .upgrade)
    split
    · exact pr_trClose _ _ core
    · exact core
  exact p i

theorem pr_candOnPacket {w0 w : World} (sid : Nat) (p : Pkt) (h : Pres w0 w) : Pres w0 (candOnPacket w sid p) := by
  unfold candOnPacket
  split
  · exact h
  · rename_i c hc
    try dsimp only
    split
    · refine pr_sv ?_ (sameView_setSock _ _ _ ⟨rfl, rfl, rfl, rfl, rfl, rfl, rfl, rfl, fun _ => ?_⟩)
      · apply pr_sev_nonfinal _ _ rfl rfl rfl
        exact pr_trSend _ _ h
      · rw [sock_sev, sock_trSend, hc]; rfl
    · split
      · rename_i hu
        exact pr_doUpgrade _ _ hu.2 c hc h
      · apply pr_trClose
        exact pr_candCleanup _ h

/-! ### packets -/

theorem pr_sockOnPacket {w0 w : World} (sid : Nat) (p : Pkt) (h : Pres w0 w) : Pres w0 (sockOnPacket w sid p) := by
  refine h.trans (fun i => ?_)
  have q : Pres w (sockOnPacket w sid p) := by
    unfold sockOnPacket
    try dsimp only
    split
    · exact Pres.refl _
    · rename_i hopen
      have hopen : (w.sock sid).rs = .open_ := Classical.not_not.mp hopen
      have hnc : ¬ closedW w sid := by unfold closedW; rw [hopen]; simp
      have hdc : (w.sock sid).drainClose = none := by
        cases hd : (w.sock sid).drainClose with
        | none => rfl
        | some d =>
          have := (i.sockOK sid).dc (by rw [hd]; rfl)
          rw [hopen] at this; rcases this with x | x <;> cases x
      have p1 : Pres w (w.sev sid (.packet p.typ)) := pr_sev _ _ rfl rfl hnc (Pres.refl _)
      split
      · -- ping
        split
        · exact pr_sockOnClose _ _ _ p1
        · have q := sendPacket_quiet ((w.sev sid (.packet p.typ)).setSock sid fun s =>
              { s with pingTimeoutDue := some ((w.sev sid (.packet p.typ)).now + (w.sev sid (.packet p.typ)).o.I + (w.sev sid (.packet p.typ)).o.T) })
              sid { typ := .pong, compress := true } none (by simp [hdc])
          apply pr_sev _ _ rfl rfl
          · unfold closedW; rw [q.rs]; simp [hopen]
          · apply pr_sendPacket
            refine pr_setSockSame _ _ ?_ p1
            intro s; exact ⟨rfl, rfl, rfl, rfl, rfl, rfl, rfl, rfl, by first | exact id | (intro h; cases h)⟩
      · -- pong
        split
        · exact pr_sockOnClose _ _ _ p1
        · apply pr_sev _ _ rfl rfl
          · simp [closedW, hopen]
          · refine pr_setSockSame _ _ ?_ p1
            intro s; exact ⟨rfl, rfl, rfl, rfl, rfl, rfl, rfl, rfl, by first | exact id | (intro h; cases h)⟩
      · exact pr_sockOnClose _ _ _ p1
      · apply pr_sev _ _ rfl rfl
        · simpa [closedW] using hnc
        · exact p1
      · exact p1
  exact q i

theorem pr_trEmitPacket {w0 w : World} (ti : Nat) (p : Pkt) (h : Pres w0 w) : Pres w0 (trEmitPacket w ti p) := by
  unfold trEmitPacket
  split
  · exact pr_sockOnPacket _ _ h
  · exact pr_candOnPacket _ _ h
  · exact h

end EIO.Ses
