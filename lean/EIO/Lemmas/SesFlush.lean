import EIO.Lemmas.SesStep
/-
flush / send / drain / packets / upgrade: the functions whose events need a guard.
-/
namespace EIO.Ses
open EIO EIO.Codec

/-! ### reading a session through updates -/

@[simp] theorem sock_trSend (w : World) (ti : Nat) (b : List Pkt) (j : Nat) : (trSend w ti b).sock j = w.sock j := rfl
@[simp] theorem sock_answer (w : World) (r : Nat) (resp : Resp) (j : Nat) : (w.answer r resp).sock j = w.sock j := by
  unfold World.answer; split <;> rfl
@[simp] theorem socks_trSend (w : World) (ti : Nat) (b : List Pkt) : (trSend w ti b).socks = w.socks := rfl
@[simp] theorem registry_trSend (w : World) (ti : Nat) (b : List Pkt) : (trSend w ti b).registry = w.registry := rfl

@[simp] theorem rs_ite (c : Prop) [Decidable c] (a b : Sock) : (if c then a else b).rs = if c then a.rs else b.rs := by
  split <;> rfl
@[simp] theorem drainClose_ite (c : Prop) [Decidable c] (a b : Sock) :
    (if c then a else b).drainClose = if c then a.drainClose else b.drainClose := by split <;> rfl
@[simp] theorem announced_ite (c : Prop) [Decidable c] (a b : Sock) :
    (if c then a else b).announced = if c then a.announced else b.announced := by split <;> rfl
@[simp] theorem sentCb_ite (c : Prop) [Decidable c] (a b : Sock) :
    (if c then a else b).sentCb = if c then a.sentCb else b.sentCb := by split <;> rfl
@[simp] theorem proto_ite (c : Prop) [Decidable c] (a b : Sock) :
    (if c then a else b).proto = if c then a.proto else b.proto := by split <;> rfl
@[simp] theorem tr_ite (c : Prop) [Decidable c] (a b : Sock) :
    (if c then a else b).tr = if c then a.tr else b.tr := by split <;> rfl

/-! ### flush -/

theorem pr_flushF {w0 w : World} (f : Nat) (sid : Nat) (h : Pres w0 w) : Pres w0 (flushF f w sid) := by
  cases f with
  | zero => simpa [flushF] using h
  | succ f =>
    rw [flushF]
    try dsimp only
    split
    · exact h
    · rename_i hg
      have hnc : (w.sock sid).rs ≠ .closed := fun hc => hg (Or.inl hc)
      apply pr_ev
      have core : Pres w0 ((trSend (((w.setSock sid fun s =>
          { s with wbuf := [], sentCb := s.sentCb ++ [s.packetsFn], packetsFn := [] }).sev sid
            (.flush (w.sock sid).wbuf)).ev s!"srv:flush:s{sid}:{pktChars (w.sock sid).wbuf}")
            (w.sock sid).tr (w.sock sid).wbuf).sev sid .drain) := by
        apply pr_sev _ _ rfl
        · simp [closedW, hnc]
        apply pr_trSend
        apply pr_ev
        apply pr_sev _ _ rfl
        · simp [closedW, hnc]
        apply pr_setSock _ _ (by simp) (by simp) rfl rfl
        · intro _ o
          exact ⟨fun hc => absurd hc hnc, o.dc⟩
        · exact h
      split
      · apply pr_closeTransportF
        apply pr_setSock _ _ (Nat.le_refl _) (Iff.rfl) rfl rfl
        · intro _ o
          exact ⟨o.cb, fun hd => by cases hd⟩
        · exact core
      · exact core

theorem pr_flush {w0 w : World} (sid : Nat) (h : Pres w0 w) : Pres w0 (flush w sid) := pr_flushF _ _ h
theorem pr_closeTransport {w0 w : World} (sid : Nat) (d : Bool) (h : Pres w0 w) : Pres w0 (closeTransport w sid d) :=
  pr_closeTransportF _ _ _ h

theorem pr_sendPacket {w0 w : World} (sid : Nat) (p : Pkt) (cb : Option Nat) (h : Pres w0 w) :
    Pres w0 (sendPacket w sid p cb) := by
  unfold sendPacket
  try dsimp only
  split
  · exact h
  · rename_i hg
    have hnc : (w.sock sid).rs ≠ .closed := fun hc => hg (Or.inr hc)
    apply pr_flush
    refine pr_setSockSame _ _ ?hf ?h
    case hf => intro s; exact ⟨rfl, rfl, rfl, rfl, rfl⟩
    apply pr_sev _ _ rfl
    · simp [closedW, hnc]
    · exact h

/-- what does not change when a packet is sent on a session that is not waiting for a drain to close -/
structure Quiet (w w' : World) : Prop where
  size : w'.socks.size = w.socks.size
  registry : w'.registry = w.registry
  rs : ∀ j, (w'.sock j).rs = (w.sock j).rs
  announced : ∀ j, (w'.sock j).announced = (w.sock j).announced
  drainClose : ∀ j, (w'.sock j).drainClose = (w.sock j).drainClose

theorem Quiet.refl (w : World) : Quiet w w := ⟨rfl, rfl, fun _ => rfl, fun _ => rfl, fun _ => rfl⟩
theorem Quiet.trans {a b c : World} (h1 : Quiet a b) (h2 : Quiet b c) : Quiet a c :=
  ⟨h2.size.trans h1.size, h2.registry.trans h1.registry, fun j => (h2.rs j).trans (h1.rs j),
   fun j => (h2.announced j).trans (h1.announced j), fun j => (h2.drainClose j).trans (h1.drainClose j)⟩
theorem SameView.quiet {w w' : World} (v : SameView w w') : Quiet w w' :=
  ⟨v.size, v.registry, fun j => (v.sock j).rs, fun j => (v.sock j).announced, fun j => (v.sock j).drainClose⟩

theorem flushF_quiet (f : Nat) (w : World) (sid : Nat) (hdc : (w.sock sid).drainClose = none) :
    Quiet w (flushF f w sid) := by
  cases f with
  | zero => simp [flushF]; exact Quiet.refl _
  | succ f =>
    rw [flushF]
    try dsimp only
    split
    · exact Quiet.refl _
    · split
      · rename_i d hd
        simp [hdc] at hd
      · exact ⟨by simp, by simp, fun j => by simp, fun j => by simp, fun j => by simp⟩

theorem sendPacket_quiet (w : World) (sid : Nat) (p : Pkt) (cb : Option Nat) (hdc : (w.sock sid).drainClose = none) :
    Quiet w (sendPacket w sid p cb) := by
  unfold sendPacket
  try dsimp only
  split
  · exact Quiet.refl _
  · refine Quiet.trans ?_ (flushF_quiet _ _ _ (by simp [hdc]))
    exact ⟨by simp, by simp, fun j => by simp, fun j => by simp, fun j => by simp⟩

/-! ### drain, ready -/

theorem pr_cbs {w0 w : World} (sid : Nat) (cbs : List Nat) (hnc : ¬ closedW w sid) (h : Pres w0 w) :
    Pres w0 (cbs.foldl (fun w id => w.sev sid (.cb id)) w) := by
  induction cbs generalizing w with
  | nil => exact h
  | cons id rest ih =>
    simp only [List.foldl_cons]
    apply ih
    · simpa [closedW] using hnc
    · exact pr_sev _ _ rfl hnc h

theorem pr_sockOnDrain {w0 w : World} (sid : Nat) (h : Pres w0 w) : Pres w0 (sockOnDrain w sid) := by
  refine h.trans (fun i => ?_)
  have p : Pres w (sockOnDrain w sid) := by
    unfold sockOnDrain
    split
    · exact Pres.refl _
    · rename_i cbs rest hs
      have hnc : (w.sock sid).rs ≠ .closed := fun hc => by
        have := (i.sockOK sid).cb hc
        rw [hs] at this; cases this
      apply pr_cbs
      · simp [closedW, hnc]
      · apply pr_setSock _ _ (Nat.le_refl _) Iff.rfl rfl rfl
        · intro _ o; exact ⟨fun hc => absurd hc hnc, o.dc⟩
        · exact Pres.refl _
  exact p i

theorem pr_trEmitDrain {w0 w : World} (ti : Nat) (h : Pres w0 w) : Pres w0 (trEmitDrain w ti) := by
  unfold trEmitDrain
  try dsimp only
  split
  · split
    · exact pr_wsCloseNow _ (pr_sockOnDrain _ h)
    · exact pr_sockOnDrain _ h
  · split
    · exact pr_wsCloseNow _ h
    · exact h

theorem pr_trEmitReady {w0 w : World} (ti : Nat) (h : Pres w0 w) : Pres w0 (trEmitReady w ti) := by
  unfold trEmitReady
  split
  · exact pr_flush _ h
  · exact h

/-! ### upgrade -/

theorem pr_doUpgrade {w0 w : World} (sid : Nat) (newTr : Nat) (hnc : ¬ closedW w sid) (h : Pres w0 w) :
    Pres w0 (doUpgrade w sid newTr) := by
  unfold doUpgrade
  try dsimp only
  have v : SameView w (((((clearTransport (((candCleanup w sid).setTr (candCleanup w sid |>.sock sid).tr fun t =>
      { t with discarded := true }).setSock sid fun s => { s with upgraded := true }) sid).setSock sid fun s =>
      { s with tr := newTr })).setTr newTr fun t => { t with role := .current sid })) := by
    apply sv_setTr
    apply sv_setSock _ _ _ ⟨rfl, rfl, rfl, rfl, rfl⟩
    apply sv_clearTransportF
    apply sv_setSock _ _ _ ⟨rfl, rfl, rfl, rfl, rfl⟩
    apply sv_setTr
    exact candCleanup_sameView w sid
  have core : Pres w0 (flush ((((((clearTransport (((candCleanup w sid).setTr (candCleanup w sid |>.sock sid).tr fun t =>
      { t with discarded := true }).setSock sid fun s => { s with upgraded := true }) sid).setSock sid fun s =>
      { s with tr := newTr })).setTr newTr fun t => { t with role := .current sid })).sev sid .upgrade) sid) := by
    apply pr_flush
    apply pr_sev _ _ rfl
    · exact fun hc => hnc ((v.closedW sid).mp hc)
    · exact pr_sv h v
  split
  · exact pr_trClose _ _ core
  · exact core

theorem pr_candOnPacket {w0 w : World} (sid : Nat) (p : Pkt) (h : Pres w0 w) : Pres w0 (candOnPacket w sid p) := by
  unfold candOnPacket
  split
  · exact h
  · try dsimp only
    split
    · refine pr_setSockSame _ _ ?_ ?_
      · intro s; exact ⟨rfl, rfl, rfl, rfl, rfl⟩
      apply pr_sev_nonfinal _ _ rfl rfl
      exact pr_trSend _ _ h
    · split
      · rename_i hu
        exact pr_doUpgrade _ _ hu.2 h
      · apply pr_trClose
        exact pr_candCleanup _ h

/-! ### packets -/

theorem pr_sockOnPacket {w0 w : World} (sid : Nat) (p : Pkt) (h : Pres w0 w) : Pres w0 (sockOnPacket w sid p) := by
  refine h.trans (fun i => ?_)
  have q : Pres w (sockOnPacket w sid p) := by
    unfold sockOnPacket
    try dsimp only
    split
    · exact Pres.refl _
    · rename_i hopen
      have hopen : (w.sock sid).rs = .open_ := Classical.not_not.mp hopen
      have hnc : ¬ closedW w sid := by unfold closedW; rw [hopen]; simp
      have hdc : (w.sock sid).drainClose = none := by
        cases hd : (w.sock sid).drainClose with
        | none => rfl
        | some d =>
          have := (i.sockOK sid).dc (by rw [hd]; rfl)
          rw [hopen] at this; rcases this with x | x <;> cases x
      have p1 : Pres w (w.sev sid (.packet p.typ)) := pr_sev _ _ rfl hnc (Pres.refl _)
      split
      · -- ping
        split
        · exact pr_sockOnClose _ _ _ p1
        · have q := sendPacket_quiet ((w.sev sid (.packet p.typ)).setSock sid fun s =>
              { s with pingTimeoutDue := some ((w.sev sid (.packet p.typ)).now + (w.sev sid (.packet p.typ)).o.I + (w.sev sid (.packet p.typ)).o.T) })
              sid { typ := .pong, compress := true } none (by simp [hdc])
          apply pr_sev _ _ rfl
          · unfold closedW; rw [q.rs]; simp [hopen]
          · apply pr_sendPacket
            refine pr_setSockSame _ _ ?_ p1
            intro s; exact ⟨rfl, rfl, rfl, rfl, rfl⟩
      · -- pong
        split
        · exact pr_sockOnClose _ _ _ p1
        · apply pr_sev _ _ rfl
          · simp [closedW, hopen]
          · refine pr_setSockSame _ _ ?_ p1
            intro s; exact ⟨rfl, rfl, rfl, rfl, rfl⟩
      · exact pr_sockOnClose _ _ _ p1
      · apply pr_sev _ _ rfl
        · simpa [closedW] using hnc
        · exact p1
      · exact p1
  exact q i

theorem pr_trEmitPacket {w0 w : World} (ti : Nat) (p : Pkt) (h : Pres w0 w) : Pres w0 (trEmitPacket w ti p) := by
  unfold trEmitPacket
  split
  · exact pr_sockOnPacket _ _ h
  · exact pr_candOnPacket _ _ h
  · exact h

end EIO.Ses
