import EIO.Lemmas.Pend
/-
`PendX` through every operation: `step_pd`.
-/
namespace EIO.Ses
open EIO EIO.Codec

variable {x : Option Nat}

theorem cn_registry {w0 w : World} (r : List Nat) (h : Cone w0 w) : Cone w0 ({ w with registry := r } : World) := cn_fields _ h

theorem cn_openPackets {w0 w : World} (sid : Nat) (nm : String) (h : Cone w0 w) : Cone w0 (openPackets w sid nm) := by
  unfold openPackets
  try dsimp only
  split
  · exact cn_sendPacket _ _ _ (cn_sendPacket _ _ _ h)
  · exact cn_sendPacket _ _ _ h

theorem cn_openAnnounce {w0 w : World} (sid : Nat) (nm : String) (proto : Nat) (h : Cone w0 w) : Cone w0 (openAnnounce w sid nm proto) := by
  unfold openAnnounce
  try dsimp only
  apply cn_sev
  apply cn_setSock
  refine cn_registry _ ?_
  exact cn_setSock sid _ h

theorem cn_openSession {w0 w : World} (ti proto : Nat) (h : Cone w0 w) : Cone w0 (openSession w ti proto) := by
  unfold openSession
  try dsimp only
  apply cn_openAnnounce
  apply cn_openPackets
  apply cn_setSock
  refine cn_setTr _ _ ?_ (fun t => ⟨rfl, rfl, rfl⟩)
  exact cn_fields _ h

/-- a transport gets a poll (or has its flags changed) in a way that leaves nothing owed -/
theorem pd_setTr_quiet {w : World} (i : Nat) (f : Tr → Tr) (hf : (f (w.tr i)).writable = true ∨ (f (w.tr i)).req = none ∨ (f (w.tr i)).isPolling = false)
    (p : PendX x w) : PendX x (w.setTr i f) := by
  refine ⟨fun ti r hx hp hq hw => ?_⟩
  rw [tr_setTr] at hp hq hw
  split at hp
  · rename_i e
    obtain ⟨e1, e2⟩ := e; subst e1
    rw [if_pos ⟨rfl, e2⟩] at hq hw
    rcases hf with h | h | h
    · rw [h] at hw; cases hw
    · rw [h] at hq; cases hq
    · rw [h] at hp; cases hp
  · rename_i e
    rw [if_neg e] at hq hw
    exact p.p4 ti r hx hp hq hw

theorem pd_pushTr {w w' : World} (t : Tr) (ht : t.req = none) (htrs : w'.trs = w.trs.push t) (hq : w'.tasks = w.tasks)
    (hr : w'.reqs = w.reqs) (p : PendX x w) : PendX x w' := by
  have htr : ∀ j, w'.tr j = if j = w.trs.size then t else w.tr j := fun j => by
    unfold World.tr
    rw [htrs]
    simp only [Array.getD_eq_getD_getElem?, Array.getElem?_push]
    by_cases h : j = w.trs.size
    · simp [h]
    · simp [h]
  refine ⟨fun ti r hx hp hqq hw => ?_⟩
  rw [htr] at hp hqq hw
  split at hqq
  · rw [ht] at hqq; cases hqq
  · rename_i hne
    rw [if_neg hne] at hp hw
    rcases p.p4 ti r hx hp hqq hw with ⟨b, hb⟩ | hd
    · exact Or.inl ⟨b, by rw [hq]; exact hb⟩
    · exact Or.inr (by unfold reqDone at hd ⊢; rw [hr]; exact hd)

theorem pd_onPollRequest {w : World} (ti r : Nat) (p : PendX x w) : PendX x (onPollRequest w ti r) := by
  unfold onPollRequest
  try dsimp only
  split
  · exact (cn_answer _ _ (cn_trOnError _ (Cone.refl w))).pend p
  · have p1 : PendX x (w.setTr ti fun t => { t with req := some r, writable := true }) :=
      pd_setTr_quiet ti _ (Or.inl rfl) p
    generalize (w.setTr ti fun t => { t with req := some r, writable := true }) = w1 at p1 ⊢
    have c : Cone w1 (trEmitReady (w1.setReq r fun q => { q with pollOf := some ti }) ti) :=
      cn_trEmitReady _ (cn_setReq _ _ (Cone.refl w1) (fun q hq => hq))
    split
    · exact (cn_trSend _ _ c).pend p1
    · exact c.pend p1

theorem pd_hsPolling {w : World} (proto : Nat) (b64 : Bool) (j : Option Bytes) (p : PendX x w) : PendX x (hsPolling w proto b64 j) := by
  unfold hsPolling
  try dsimp only
  have p0 : PendX x ({ w with reqs := w.reqs.push { hasSid := false } } : World) := (cn_pushReq _ (Cone.refl w)).pend p
  split
  · exact (cn_rejectReq _ _ _ (Cone.refl _)).pend p0
  · split
    · exact (cn_rejectReq _ _ _ (Cone.refl _)).pend p0
    · refine (cn_openSession _ _ (Cone.refl _)).pend ?_
      apply pd_onPollRequest
      exact pd_pushTr (w := ({ w with reqs := w.reqs.push { hasSid := false } } : World)) _ rfl rfl rfl rfl p0

theorem pd_hsWebsocket {w : World} (proto : Nat) (b64 : Bool) (p : PendX x w) : PendX x (hsWebsocket w proto b64) := by
  unfold hsWebsocket
  try dsimp only
  have p0 : PendX x ({ w with conns := w.conns.push {} } : World) := (cn_fields _ (Cone.refl w)).pend p
  split
  · exact (cn_setConn _ _ (Cone.refl _)).pend p0
  · split
    · exact (cn_setConn _ _ (cn_ev _ (Cone.refl _))).pend p0
    · refine (cn_openSession _ _ (Cone.refl _)).pend ?_
      exact pd_pushTr (w := ({ w with conns := w.conns.push {} } : World)) _ rfl rfl rfl rfl p0

theorem pd_hsWt {w : World} (p : PendX x w) : PendX x (hsWt w) := by
  unfold hsWt
  try dsimp only
  have p0 : PendX x ({ w with conns := w.conns.push { wt := true } } : World) := (cn_fields _ (Cone.refl w)).pend p
  refine (cn_openSession _ _ (Cone.refl _)).pend ?_
  exact pd_pushTr (w := ({ w with conns := w.conns.push { wt := true } } : World)) _ rfl rfl rfl rfl p0

theorem pd_pollReq {w : World} (sid : Nat) (ae : Bytes) (p : PendX x w) : PendX x (pollReq w sid ae) := by
  unfold pollReq
  try dsimp only
  have p0 : PendX x ({ w with reqs := w.reqs.push { ae } } : World) := (cn_pushReq _ (Cone.refl w)).pend p
  split
  · exact (cn_rejectReq _ _ _ (Cone.refl _)).pend p0
  · split
    · exact (cn_rejectReq _ _ _ (Cone.refl _)).pend p0
    · exact pd_onPollRequest _ _ p0

theorem pd_wsCandidate {w : World} (sid proto : Nat) (b64 : Bool) (p : PendX x w) : PendX x (wsCandidate w sid proto b64) := by
  unfold wsCandidate
  try dsimp only
  have p0 : PendX x ({ w with conns := w.conns.push {} } : World) := (cn_fields _ (Cone.refl w)).pend p
  split
  · exact (cn_setConn _ _ (cn_setConn _ _ (Cone.refl _))).pend p0
  · split
    · exact (cn_setConn _ _ (cn_setConn _ _ (cn_ev _ (Cone.refl _)))).pend p0
    · split
      · exact (cn_setConn _ _ (Cone.refl _)).pend p0
      · refine (cn_setSock _ _ (Cone.refl _)).pend ?_
        exact pd_pushTr (w := ({ w with conns := w.conns.push {} } : World)) _ rfl rfl rfl rfl p0

theorem pd_wtCandidate {w : World} (sid : Nat) (p : PendX x w) : PendX x (wtCandidate w sid) := by
  unfold wtCandidate
  try dsimp only
  have p0 : PendX x ({ w with conns := w.conns.push { wt := true } } : World) := (cn_fields _ (Cone.refl w)).pend p
  split
  · exact (cn_setConn _ _ (Cone.refl _)).pend p0
  · split
    · exact (cn_setConn _ _ (Cone.refl _)).pend p0
    · refine (cn_setSock _ _ (Cone.refl _)).pend ?_
      exact pd_pushTr (w := ({ w with conns := w.conns.push { wt := true } } : World)) _ rfl rfl rfl rfl p0

theorem pollOf_in_table (w : World) (r ti : Nat) (h : (w.reqs.getD r default).pollOf = some ti) : r < w.reqs.size := by
  apply Nat.lt_of_not_le; intro hle
  rw [Array.getD_eq_getD_getElem?, Array.getElem?_eq_none hle] at h
  cases h

theorem pd_abortReq {w : World} (r : Nat) (p : PendX x w) : PendX x (abortReq w r) := by
  unfold abortReq
  try dsimp only
  split
  · exact p
  · have c1 : Cone w (w.setReq r fun q => { q with done := true }) := cn_setReq _ _ (Cone.refl w) (fun _ _ => rfl)
    split
    · rename_i ti hpo
      have hr := pollOf_in_table w r ti hpo
      split
      · rename_i hreq
        refine (cn_trOnError _ (Cone.refl _)).pend ?_
        -- the transport's poll is the request that has just been marked finished
        refine ⟨fun tj rj hx hp hq hw => ?_⟩
        rw [tr_setTr] at hp hq hw
        split at hp
        · rename_i e
          obtain ⟨e1, e2⟩ := e; subst e1
          rw [if_pos ⟨rfl, e2⟩] at hq
          have : rj = r := by
            have h2 : ((w.setReq r fun q => { q with done := true }).tr ti).req = some rj := hq
            rw [hreq] at h2
            simpa using h2.symm
          subst this
          right
          unfold reqDone
          show ((w.setReq rj fun q => { q with done := true }).reqs.getD rj default).done = true
          rw [req_setReq]; simp [hr]
        · rename_i e
          rw [if_neg e] at hq hw
          exact (c1.pend p).p4 tj rj hx hp hq hw
      · exact c1.pend p
    · exact c1.pend p

/-! ### writer tasks -/

theorem pd_runPollSend {w : World} (ti : Nat) (batch : List Pkt) (p : PendX (some ti) w) : PendX none (runPollSend w ti batch) := by
  unfold runPollSend
  try dsimp only
  have c1 : Cone w (if (w.tr ti).shouldClose = true then
      pollOnClose (runCloseFn (w.setTr ti fun t => { t with shouldClose := false, closeTimerDue := none }) ti) ti else w) := by
    split
    · exact cn_pollOnClose _ (cn_runCloseFn _ (cn_setTr _ _ (Cone.refl w) (fun _ => ⟨rfl, rfl, rfl⟩)))
    · exact Cone.refl w
  have p1 := c1.pend p
  generalize (if (w.tr ti).shouldClose = true then
      pollOnClose (runCloseFn (w.setTr ti fun t => { t with shouldClose := false, closeTimerDue := none }) ti) ti else w) = w1 at p1 ⊢
  split
  · rename_i hnone
    -- no poll registered: nothing is owed on this transport
    have c2 := cn_trOnError ti (Cone.refl w1)
    have p2 := c2.pend p1
    refine ⟨fun tj r _ hp hq hw => ?_⟩
    by_cases e : tj = ti
    · subst e
      rw [c2.req, hnone] at hq; cases hq
    · exact p2.p4 tj r (fun h => e (by simpa using h.symm)) hp hq hw
  · rename_i r hr
    have p2 : PendX none (w1.setTr ti fun t => { t with req := none }) := by
      refine ⟨fun tj rj _ hp hq hw => ?_⟩
      rw [tr_setTr] at hp hq hw
      split at hp
      · rename_i e
        rw [if_pos e] at hq; cases hq
      · rename_i e
        rw [if_neg e] at hq hw
        by_cases e2 : tj = ti
        · subst e2
          -- the transport does not exist: it holds no poll
          exfalso
          have hoob : w1.trs.size ≤ tj := Nat.le_of_not_lt (fun hh => e ⟨rfl, hh⟩)
          rw [tr_oob w1 tj hoob] at hq; cases hq
        · exact p1.p4 tj rj (fun h => e2 (by simpa using h.symm)) hp hq hw
    refine (cn_trEmitDrain _ (cn_answer _ _ (cn_emitHeaders _ _ (Cone.refl _)))).pend p2

theorem pd_runWsSend {w : World} (ti : Nat) (batch : List Pkt) (p : PendX none w) : PendX none (runWsSend w ti batch) := by
  unfold runWsSend
  try dsimp only
  have p1 := (cn_trEmitDrain ti (cn_wsSendLoop ti batch (Cone.refl w))).pend p
  generalize trEmitDrain (wsSendLoop ti batch w) ti = w1 at p1 ⊢
  exact (cn_trEmitReady _ (Cone.refl _)).pend (pd_setTr_quiet ti _ (Or.inl rfl) p1)

theorem pd_settle {w : World} (f : Nat) (p : PendX none w) : PendX none (settle f w) := by
  induction f generalizing w with
  | zero => exact p
  | succ f ih =>
    rw [settle]
    split
    · exact p
    · rename_i t rest hq
      cases t with
      | pollSend ti b =>
        apply ih
        refine pd_runPollSend ti b ⟨fun tj r hx hp hqq hw => ?_⟩
        rcases p.p4 tj r (by simp) hp hqq hw with ⟨b', hb'⟩ | hd
        · left
          rw [hq] at hb'
          rcases List.mem_cons.mp hb' with e | e
          · exfalso; apply hx; cases e; rfl
          · exact ⟨b', e⟩
        · exact Or.inr hd
      | wsSend ti b =>
        apply ih
        refine pd_runWsSend ti b ⟨fun tj r hx hp hqq hw => ?_⟩
        rcases p.p4 tj r hx hp hqq hw with ⟨b', hb'⟩ | hd
        · left
          rw [hq] at hb'
          rcases List.mem_cons.mp hb' with e | e
          · cases e
          · exact ⟨b', e⟩
        · exact Or.inr hd

/-- every operation keeps it -/
theorem step_pd (w : World) (op : Op) (p : PendX none w) : PendX none (step w op) := by
  unfold step
  split
  · exact p
  · cases op with
    | hsPolling pr b j => exact pd_hsPolling _ _ _ p
    | hsWebsocket pr b => exact pd_hsWebsocket _ _ p
    | poll sid ae => exact pd_pollReq _ _ p
    | post sid bin decl body vj => exact (cn_postReq _ _ _ _ _ (Cone.refl w)).pend p
    | abort r => exact pd_abortReq _ p
    | wsCandidate sid pr b => exact pd_wsCandidate _ _ _ p
    | hsWt => exact pd_hsWt p
    | wtCandidate sid => exact pd_wtCandidate _ p
    | frame c m =>
      dsimp only
      repeat (first | exact p | exact (cn_wsFrame _ _ (Cone.refl w)).pend p | split)
    | drop c => exact (cn_wsDrop _ (Cone.refl w)).pend p
    | closeFrame c code => exact (cn_wsDrop _ (cn_setConn _ _ (Cone.refl w))).pend p
    | send sid m c cb pre => exact (cn_appSend _ _ _ _ _ (Cone.refl w)).pend p
    | close sid d => exact (cn_appClose _ _ (Cone.refl w)).pend p
    | shutdown => exact (cn_shutdownFold _ (Cone.refl w)).pend p
    | adv d => exact (cn_advance _ _ (Cone.refl w)).pend p
    | settle => exact pd_settle _ p
    | observe => exact (cn_observe (Cone.refl w)).pend p

theorem pd_init (o : Opts) : PendX none (init o) := by
  refine ⟨fun ti r _ hp _ _ => ?_⟩
  have : (init o).tr ti = default := tr_oob _ _ (Nat.zero_le _)
  rw [this] at hp; cases hp

end EIO.Ses
