import EIO.Lemmas.SesOps
/-
The linkage between sessions and transports:

  L1  a session that is not closed listens on its current transport, which exists
  L2  a closed transport has no listeners (it is detached)
  L3  the listeners of a transport that serves a session as current transport point back to that session, which is not closed
  L4  a candidate transport is the candidate of the session it names
  L5  a session's candidate transport carries that session's candidate listeners
  L6  a session that entertains a candidate is marked as upgrading

`LinkX x` allows one exception to L2: transport `x` may be closed while it still
has its listeners — the state in the middle of `transport.OnClose`, between the
store of "closed" and the "close" event.
-/
namespace EIO.Ses
open EIO EIO.Codec

structure LinkX (x : Option Nat) (w : World) : Prop where
  l1 : ∀ sid, sid < w.socks.size → (w.sock sid).rs ≠ .closed →
        (w.sock sid).tr < w.trs.size ∧ (w.tr (w.sock sid).tr).role = .current sid
  l2 : ∀ ti, (w.tr ti).rs = .closed → (w.tr ti).role = .none ∨ x = some ti
  l3 : ∀ ti sid, (w.tr ti).role = .current sid → (w.sock sid).tr = ti ∧ sid < w.socks.size ∧ (w.sock sid).rs ≠ .closed
  l4 : ∀ ti sid, (w.tr ti).role = .candidate sid → ∃ c, (w.sock sid).cand = some c ∧ c.tr = ti
  l5 : ∀ sid c, (w.sock sid).cand = some c → (w.tr c.tr).role = .candidate sid
  l6 : ∀ sid, (w.sock sid).cand.isSome → (w.sock sid).upgrading = true

abbrev Link (w : World) : Prop := LinkX none w

/-- the conclusion C12 needs: the current transport of a live session exists and is not closed -/
theorem Link.linkOK {w : World} (l : Link w) (sid : Nat) (hsz : sid < w.socks.size) (hnc : (w.sock sid).rs ≠ .closed) :
    (w.sock sid).tr < w.trs.size ∧ (w.tr (w.sock sid).tr).rs ≠ .closed := by
  obtain ⟨h1, h2⟩ := l.l1 sid hsz hnc
  refine ⟨h1, fun hc => ?_⟩
  rcases l.l2 _ hc with h | h
  · rw [h2] at h; cases h
  · cases h

/-- a role other than `none` is only read from a transport inside the table -/
theorem role_in_table (w : World) (ti : Nat) (h : (w.tr ti).role ≠ .none) : ti < w.trs.size := by
  apply Nat.lt_of_not_le; intro hle
  rw [tr_oob w ti hle] at h
  exact h rfl

/-! ### steps that touch transports only, and never the roles -/

/-- `w'` differs from `w` in transports only: no role changed, and a transport that became closed had no listeners -/
structure TrOnly (w w' : World) : Prop where
  ssize : w'.socks.size = w.socks.size
  srs : ∀ j, (w'.sock j).rs = .closed ↔ (w.sock j).rs = .closed
  sup : ∀ j, (w'.sock j).upgrading = (w.sock j).upgrading
  str : ∀ j, (w'.sock j).tr = (w.sock j).tr
  scand : ∀ j, (w'.sock j).cand = (w.sock j).cand
  size : w'.trs.size = w.trs.size
  role : ∀ j, (w'.tr j).role = (w.tr j).role
  closed : ∀ j, (w'.tr j).rs = .closed → (w.tr j).rs = .closed ∨ (w.tr j).role = .none

theorem TrOnly.refl (w : World) : TrOnly w w := ⟨rfl, fun _ => Iff.rfl, fun _ => rfl, fun _ => rfl, fun _ => rfl, rfl, fun _ => rfl, fun _ h => Or.inl h⟩
theorem TrOnly.trans {a b c : World} (h1 : TrOnly a b) (h2 : TrOnly b c) : TrOnly a c :=
  ⟨h2.ssize.trans h1.ssize, fun j => (h2.srs j).trans (h1.srs j), fun j => (h2.sup j).trans (h1.sup j), fun j => (h2.str j).trans (h1.str j),
   fun j => (h2.scand j).trans (h1.scand j), h2.size.trans h1.size, fun j => (h2.role j).trans (h1.role j),
   fun j h => by
     rcases h2.closed j h with x | x
     · exact h1.closed j x
     · exact Or.inr (by rw [← h1.role j]; exact x)⟩

theorem TrOnly.link {w w' : World} {x : Option Nat} (t : TrOnly w w') (l : LinkX x w) : LinkX x w' := by
  refine ⟨?_, ?_, ?_, ?_, ?_, fun sid h => by rw [t.sup]; exact l.l6 sid (by rw [← t.scand]; exact h)⟩
  · intro sid hsz hnc
    have hnc : (w.sock sid).rs ≠ .closed := fun h => hnc ((t.srs sid).mpr h)
    rw [t.ssize] at hsz
    obtain ⟨a, b⟩ := l.l1 sid hsz hnc
    rw [t.str]
    exact ⟨by rw [t.size]; exact a, by rw [t.role]; exact b⟩
  · intro ti hc
    rw [t.role]
    rcases t.closed ti hc with h | h
    · exact l.l2 ti h
    · exact Or.inl h
  · intro ti sid h
    rw [t.role] at h
    obtain ⟨a, b, c⟩ := l.l3 ti sid h
    exact ⟨by rw [t.str]; exact a, by rw [t.ssize]; exact b, fun hc => c ((t.srs sid).mp hc)⟩
  · intro ti sid h
    rw [t.role] at h
    rw [t.scand]; exact l.l4 ti sid h
  · intro sid c h
    rw [t.scand] at h
    rw [t.role]; exact l.l5 sid c h

/-- an update of one transport that keeps its role, and closes it only if it has no listeners -/
theorem trOnly_setTr (w : World) (i : Nat) (f : Tr → Tr) (hr : ∀ t, (f t).role = t.role)
    (hc : (f (w.tr i)).rs = .closed → (w.tr i).rs = .closed ∨ (w.tr i).role = .none) : TrOnly w (w.setTr i f) := by
  refine ⟨rfl, fun _ => Iff.rfl, fun _ => rfl, fun _ => rfl, fun _ => rfl, by simp, fun j => ?_, fun j h => ?_⟩
  · rw [tr_setTr]; split
    · exact hr _
    · rfl
  · rw [tr_setTr] at h
    split at h
    · rename_i hij; rw [← hij.1]; exact hc (by rw [hij.1]; exact h)
    · exact Or.inl h

theorem trOnly_fields (w w' : World) (h1 : w'.socks = w.socks) (h2 : w'.trs = w.trs) : TrOnly w w' := by
  have hs : ∀ j, w'.sock j = w.sock j := fun j => by unfold World.sock; rw [h1]
  have ht : ∀ j, w'.tr j = w.tr j := fun j => by unfold World.tr; rw [h2]
  exact ⟨by rw [h1], fun j => by rw [hs], fun j => by rw [hs], fun j => by rw [hs], fun j => by rw [hs], by rw [h2],
    fun j => by rw [ht], fun j h => Or.inl (by rw [← ht]; exact h)⟩
theorem trOnly_setConn (w : World) (i : Nat) (f : Conn → Conn) : TrOnly w (w.setConn i f) := trOnly_fields _ _ rfl rfl
theorem trOnly_ev (w : World) (s : String) : TrOnly w (w.ev s) := trOnly_fields _ _ rfl rfl
theorem trOnly_setReq (w : World) (i : Nat) (f : Req → Req) : TrOnly w (w.setReq i f) := trOnly_fields _ _ rfl rfl
theorem trOnly_sev (w : World) (sid : Nat) (e : SEv) : TrOnly w (w.sev sid e) :=
  trOnly_fields _ _ (socks_sev w sid e) (trs_sev w sid e)
/-- an update of one session that keeps its state, transport and candidate -/
theorem trOnly_setSock (w : World) (sid : Nat) (f : Sock → Sock)
    (hf : ∀ s, ((f s).rs = .closed ↔ s.rs = .closed) ∧ (f s).upgrading = s.upgrading ∧ (f s).tr = s.tr ∧ (f s).cand = s.cand) :
    TrOnly w (w.setSock sid f) := by
  refine ⟨by simp, fun j => ?_, fun j => ?_, fun j => ?_, fun j => ?_, rfl, fun _ => rfl, fun _ h => Or.inl h⟩ <;>
    (rw [sock_setSock]; split)
  · exact (hf _).1
  · exact Iff.rfl
  · exact (hf _).2.1
  · rfl
  · exact (hf _).2.2.1
  · rfl
  · exact (hf _).2.2.2
  · rfl
theorem trOnly_answer (w : World) (r : Nat) (resp : Resp) : TrOnly w (w.answer r resp) := by
  unfold World.answer; split
  · exact TrOnly.refl _
  · exact (trOnly_ev w _).trans (trOnly_setReq _ _ _)
theorem trOnly_trSend (w : World) (ti : Nat) (b : List Pkt) : TrOnly w (trSend w ti b) := by
  unfold trSend
  have h := trOnly_setTr w ti (fun t => { t with writable := false }) (fun _ => rfl) (fun h => Or.inl h)
  exact h.trans (trOnly_fields _ _ rfl rfl)
theorem trOnly_abortData (w : World) (d : Option Nat) : TrOnly w (abortData w d) := by
  unfold abortData; split
  · exact trOnly_answer _ _ _
  · exact TrOnly.refl _

/-! ### closing a transport nobody listens to -/

theorem to_setTr {w0 w : World} (i : Nat) (f : Tr → Tr) (h : TrOnly w0 w) (hr : ∀ t, (f t).role = t.role)
    (hc : (f (w.tr i)).rs = .closed → (w.tr i).rs = .closed ∨ (w.tr i).role = .none) : TrOnly w0 (w.setTr i f) :=
  h.trans (trOnly_setTr w i f hr hc)
theorem to_setConn {w0 w : World} (i : Nat) (f : Conn → Conn) (h : TrOnly w0 w) : TrOnly w0 (w.setConn i f) :=
  h.trans (trOnly_setConn _ _ _)
theorem to_trSend {w0 w : World} (ti : Nat) (b : List Pkt) (h : TrOnly w0 w) : TrOnly w0 (trSend w ti b) :=
  h.trans (trOnly_trSend _ _ _)
theorem to_abortData {w0 w : World} (d : Option Nat) (h : TrOnly w0 w) : TrOnly w0 (abortData w d) :=
  h.trans (trOnly_abortData _ _)

theorem to_trOnCloseBaseF_detached {w0 w : World} (f : Nat) (ti : Nat) (h : TrOnly w0 w)
    (hr : (w.tr ti).role = .none) : TrOnly w0 (trOnCloseBaseF f w ti) := by
  cases f with
  | zero => simpa [trOnCloseBaseF] using h
  | succ f =>
    rw [trOnCloseBaseF]
    split
    · exact h
    · rw [trEmitClose_detached]
      · exact to_setTr _ _ h (fun _ => rfl) (fun _ => Or.inr hr)
      · refine (tr_setTr_role _ _ _ _ ?_).trans hr; intro _; rfl

theorem to_pollOnCloseF_detached {w0 w : World} (f : Nat) (ti : Nat) (h : TrOnly w0 w)
    (hr : (w.tr ti).role = .none) : TrOnly w0 (pollOnCloseF f w ti) := by
  cases f with
  | zero => simpa [pollOnCloseF] using h
  | succ f =>
    rw [pollOnCloseF]
    apply to_trOnCloseBaseF_detached
    · split
      · exact to_trSend _ _ h
      · exact h
    · split
      · simp [hr]
      · exact hr

theorem to_runCloseFnF_nofn {w0 w : World} (f : Nat) (ti : Nat) (h : TrOnly w0 w)
    (hfn : (w.tr ti).closeFn = none) : TrOnly w0 (runCloseFnF f w ti) := by
  cases f with
  | zero => simpa [runCloseFnF] using h
  | succ f =>
    rw [runCloseFnF]
    simp only [hfn]
    exact to_setTr _ _ h (fun _ => rfl) (fun hc => Or.inl hc)

theorem to_wsCloseNowF_detached {w0 w : World} (f : Nat) (ti : Nat) (h : TrOnly w0 w)
    (hr : (w.tr ti).role = .none) (hfn : (w.tr ti).closeFn = none) : TrOnly w0 (wsCloseNowF f w ti) := by
  cases f with
  | zero => simpa [wsCloseNowF] using h
  | succ f =>
    rw [wsCloseNowF]
    have h1 : ((w.setTr ti fun t => { t with closeWait := false, closeTimerDue := none }).tr ti).closeFn = none := by
      refine (tr_setTr_closeFn _ _ _ _ ?_).trans hfn; intro _; rfl
    have h1r : ((w.setTr ti fun t => { t with closeWait := false, closeTimerDue := none }).tr ti).role = .none := by
      refine (tr_setTr_role _ _ _ _ ?_).trans hr; intro _; rfl
    apply to_trOnCloseBaseF_detached
    · apply to_setConn
      apply to_runCloseFnF_nofn _ _ _ h1
      exact to_setTr _ _ h (fun _ => rfl) (fun hc => Or.inl hc)
    · simp only [tr_setConn]
      rw [role_runCloseFnF_nofn _ _ _ h1]; exact h1r

/-- closing a transport nobody listens to, without a callback: only transports change, no role does -/
theorem to_trCloseF_detached {w0 w : World} (f : Nat) (ti : Nat) (h : TrOnly w0 w)
    (hr : (w.tr ti).role = .none) : TrOnly w0 (trCloseF f w ti none) := by
  cases f with
  | zero => simpa [trCloseF] using h
  | succ f =>
    rw [trCloseF]
    try dsimp only
    split
    · exact h
    · have hfn1 : ((w.setTr ti fun t => { t with rs := .closing, closeFn := none }).tr ti).closeFn = none := by
        refine tr_setTr_closeFn_none _ _ _ ?_; intro _; rfl
      have hr1 : ((w.setTr ti fun t => { t with rs := .closing, closeFn := none }).tr ti).role = .none := by
        refine (tr_setTr_role _ _ _ _ ?_).trans hr; intro _; rfl
      have v1 : TrOnly w0 (w.setTr ti fun t => { t with rs := .closing, closeFn := none }) :=
        to_setTr _ _ h (fun _ => rfl) (fun hc => by cases hc)
      generalize (w.setTr ti fun t => { t with rs := .closing, closeFn := none }) = w1 at hfn1 hr1 v1 ⊢
      split
      · -- polling
        have v2 : TrOnly w0 (abortData w1 (w.tr ti).dataReq) := to_abortData _ v1
        have hfn2 : ((abortData w1 (w.tr ti).dataReq).tr ti).closeFn = none := by
          unfold abortData; split <;> simp [hfn1]
        have hr2 : ((abortData w1 (w.tr ti).dataReq).tr ti).role = .none := by
          unfold abortData; split <;> simp [hr1]
        generalize abortData w1 (w.tr ti).dataReq = w2 at v2 hfn2 hr2 ⊢
        split
        · have hfn3 : ((trSend w2 ti [{ typ := .close }]).tr ti).closeFn = none := by simp [hfn2]
          apply to_pollOnCloseF_detached
          · apply to_runCloseFnF_nofn _ _ _ hfn3
            exact to_trSend _ _ v2
          · rw [role_runCloseFnF_nofn _ _ _ hfn3]; simp [hr2]
        · split
          · apply to_pollOnCloseF_detached
            · exact to_runCloseFnF_nofn _ _ v2 hfn2
            · rw [role_runCloseFnF_nofn _ _ _ hfn2]; exact hr2
          · exact to_setTr _ _ v2 (fun _ => rfl) (fun hc => Or.inl hc)
      · split
        · exact to_wsCloseNowF_detached f ti v1 hr1 hfn1
        · exact to_setTr _ _ v1 (fun _ => rfl) (fun hc => Or.inl hc)

/-! ### the two updates that take listeners away -/

theorem LinkX.weaken {w : World} (l : LinkX none w) (x : Option Nat) : LinkX x w := by
  refine ⟨l.l1, fun ti h => ?_, l.l3, l.l4, l.l5, l.l6⟩
  rcases l.l2 ti h with a | a
  · exact Or.inl a
  · cases a

/-- the exception is over once the transport has lost its listeners -/
theorem LinkX.settle {w : World} {t : Nat} (l : LinkX (some t) w) (h : (w.tr t).role = .none) : LinkX none w := by
  refine ⟨l.l1, fun ti hc => ?_, l.l3, l.l4, l.l5, l.l6⟩
  rcases l.l2 ti hc with a | a
  · exact Or.inl a
  · have : t = ti := by simpa using a
    subst this; exact Or.inl h

theorem sock_exists_of_cand (w : World) (sid : Nat) (c : Cand) (h : (w.sock sid).cand = some c) : sid < w.socks.size := by
  apply Nat.lt_of_not_le; intro hle
  rw [sock_oob w sid hle] at h; cases h

/-- `socket.OnClose`, the part that matters here: the session becomes closed and its transport loses the
    session's listeners. If a transport is closed with listeners still on it, it is this one. -/
theorem link_close_core (w : World) (x : Option Nat) (sid : Nat) (fs : Sock → Sock) (ft : Tr → Tr)
    (l : LinkX x w) (hsz : sid < w.socks.size) (hnc : (w.sock sid).rs ≠ .closed)
    (hx : x = none ∨ x = some (w.sock sid).tr)
    (hfs : ∀ s, (fs s).rs = .closed ∧ (fs s).tr = s.tr ∧ (fs s).cand = s.cand ∧ (fs s).upgrading = s.upgrading)
    (hft : ∀ t, (ft t).role = .none ∧ (ft t).rs = t.rs) :
    LinkX none ((w.setSock sid fs).setTr (w.sock sid).tr ft) := by
  obtain ⟨hti, hrole⟩ := l.l1 sid hsz hnc
  generalize hti0 : (w.sock sid).tr = ti0 at *
  have hs : ∀ j, (((w.setSock sid fs).setTr ti0 ft).sock j) = if sid = j then fs (w.sock j) else w.sock j := fun j => by
    rw [sock_setTr, sock_setSock]
    by_cases h : sid = j
    · subst h; simp [hsz]
    · simp [h]
  have ht : ∀ t, (((w.setSock sid fs).setTr ti0 ft).tr t) = if ti0 = t then ft (w.tr t) else w.tr t := fun t => by
    rw [tr_setTr]
    by_cases h : ti0 = t
    · subst h
      simp [hti]
    · simp [h]
  have hcs : ∀ j, (w.tr ti0).role = .current j → j = sid := fun j hj => by
    rw [hrole] at hj; cases hj; rfl
  refine ⟨?_, ?_, ?_, ?_, ?_, ?_⟩
  rotate_left 5
  · intro j h
    rw [hs] at h ⊢
    split
    · rename_i e; subst e
      simp only [if_true] at h
      rw [(hfs _).2.2.2]; exact l.l6 _ (by rw [← (hfs _).2.2.1]; exact h)
    · rename_i e
      simp only [e, if_false] at h
      exact l.l6 j h
  · intro j hj hncj
    have hjs : sid ≠ j := by
      intro e; subst e
      rw [hs] at hncj; simp at hncj; exact hncj (hfs _).1
    rw [hs] at hncj ⊢
    simp only [hjs, if_false] at hncj ⊢
    have hj' : j < w.socks.size := by simpa using hj
    obtain ⟨a, b⟩ := l.l1 j hj' hncj
    refine ⟨by simpa using a, ?_⟩
    rw [ht]
    by_cases e : ti0 = (w.sock j).tr
    · rw [← e] at b; exact absurd (hcs j b).symm hjs
    · simp [e]; exact b
  · intro t hc
    rw [ht] at hc ⊢
    by_cases e : ti0 = t
    · simp [e, (hft _).1]
    · simp only [e, if_false] at hc ⊢
      rcases l.l2 t hc with a | a
      · exact Or.inl a
      · rcases hx with b | b
        · rw [b] at a; cases a
        · rw [b] at a
          have : ti0 = t := by simpa using a
          exact absurd this e
  · intro t j h
    rw [ht] at h
    by_cases e : ti0 = t
    · simp [e, (hft _).1] at h
    · simp only [e, if_false] at h
      obtain ⟨a, b, c⟩ := l.l3 t j h
      have hjs : sid ≠ j := by
        intro e2; subst e2; exact e (hti0 ▸ a) |>.elim
      rw [hs]; simp only [hjs, if_false]
      exact ⟨a, by simpa using b, c⟩
  · intro t j h
    rw [ht] at h
    by_cases e : ti0 = t
    · simp [e, (hft _).1] at h
    · simp only [e, if_false] at h
      obtain ⟨c, hc, hct⟩ := l.l4 t j h
      refine ⟨c, ?_, hct⟩
      rw [hs]; split
      · rename_i e2; subst e2; rw [(hfs _).2.2.1]; exact hc
      · exact hc
  · intro j c h
    rw [hs] at h
    have hc : (w.sock j).cand = some c := by
      split at h
      · rw [(hfs _).2.2.1] at h; exact h
      · exact h
    have hr := l.l5 j c hc
    rw [ht]
    by_cases e : ti0 = c.tr
    · rw [← e, hrole] at hr; cases hr
    · simp [e]; exact hr

/-- `MaybeUpgrade`'s cleanup: the candidate transport loses the candidate listeners, the session forgets it -/
theorem link_candCleanup (w : World) (x : Option Nat) (sid : Nat) (l : LinkX x w) : LinkX x (candCleanup w sid) := by
  unfold candCleanup
  split
  · exact l
  · rename_i c hc
    have hsz := sock_exists_of_cand w sid c hc
    have hcr := l.l5 sid c hc
    have hct : c.tr < w.trs.size := role_in_table w c.tr (by rw [hcr]; simp)
    have hs : ∀ j, (((w.setSock sid fun s => { s with upgrading := false, cand := none }).setTr c.tr fun t => { t with role := .none }).sock j) =
        if sid = j then { (w.sock j) with upgrading := false, cand := none } else w.sock j := fun j => by
      rw [sock_setTr, sock_setSock]
      by_cases h : sid = j
      · subst h; simp [hsz]
      · simp [h]
    have ht : ∀ t, (((w.setSock sid fun s => { s with upgrading := false, cand := none }).setTr c.tr fun t => { t with role := .none }).tr t) =
        if c.tr = t then { (w.tr t) with role := .none } else w.tr t := fun t => by
      rw [tr_setTr]
      by_cases h : c.tr = t
      · subst h
        simp [hct]
      · simp [h]
    refine ⟨?_, ?_, ?_, ?_, ?_, ?_⟩
    rotate_left 5
    · intro j h
      rw [hs] at h ⊢
      split
      · rename_i e; subst e; simp at h
      · rename_i e
        simp only [e, if_false] at h
        exact l.l6 j h
    · intro j hj hncj
      have hj' : j < w.socks.size := by simpa using hj
      have hnc' : (w.sock j).rs ≠ .closed := by rw [hs] at hncj; split at hncj <;> simpa using hncj
      obtain ⟨a, b⟩ := l.l1 j hj' hnc'
      have htr : (((w.setSock sid fun s => { s with upgrading := false, cand := none }).setTr c.tr fun t => { t with role := .none }).sock j).tr = (w.sock j).tr := by
        rw [hs]; split <;> rfl
      rw [htr]
      refine ⟨by simpa using a, ?_⟩
      rw [ht]
      by_cases e : c.tr = (w.sock j).tr
      · rw [← e, hcr] at b; cases b
      · simp [e]; exact b
    · intro t hcl
      rw [ht] at hcl ⊢
      by_cases e : c.tr = t
      · simp [e]
      · simp only [e, if_false] at hcl ⊢; exact l.l2 t hcl
    · intro t j h
      rw [ht] at h
      by_cases e : c.tr = t
      · simp [e] at h
      · simp only [e, if_false] at h
        obtain ⟨a, b, cc⟩ := l.l3 t j h
        rw [hs]
        split
        · exact ⟨a, by simpa using b, cc⟩
        · exact ⟨a, by simpa using b, cc⟩
    · intro t j h
      rw [ht] at h
      by_cases e : c.tr = t
      · simp [e] at h
      · simp only [e, if_false] at h
        obtain ⟨c', hc', hct'⟩ := l.l4 t j h
        have hjs : sid ≠ j := by
          intro e2; subst e2
          rw [hc] at hc'; cases hc'; exact e hct'
        refine ⟨c', ?_, hct'⟩
        rw [hs]; simp [hjs]; exact hc'
    · intro j c' h
      rw [hs] at h
      have hjs : sid ≠ j := by
        intro e2; subst e2; simp at h
      simp only [hjs, if_false] at h
      have hr := l.l5 j c' h
      rw [ht]
      by_cases e : c.tr = c'.tr
      · rw [← e, hcr] at hr; cases hr; exact absurd rfl hjs
      · simp [e]; exact hr

theorem candFail_link (f : Nat) (w : World) (sid : Nat) (x : Option Nat) (l : LinkX x w) : LinkX x (candFail f w sid) := by
  cases f with
  | zero => simp only [candFail]; exact link_candCleanup w x sid l
  | succ f =>
    rw [candFail]
    split
    · exact l
    · rename_i c hc
      have hsz := sock_exists_of_cand w sid c hc
      have hct : c.tr < w.trs.size := role_in_table w c.tr (by rw [l.l5 sid c hc]; simp)
      refine (to_trCloseF_detached f c.tr (TrOnly.refl _) ?_).link (link_candCleanup w x sid l)
      unfold candCleanup
      simp only [hc]
      refine tr_setTr_role_none _ _ _ ?_; intro _; rfl

/-- `socket.OnClose` of a live session: afterwards nothing listens for it any more. If a transport was
    closed with listeners still on it (the caller is that transport's own close event), it was this session's. -/
theorem sockOnClose_link (f : Nat) (w : World) (sid : Nat) (reason : String) (x : Option Nat)
    (l : LinkX x w) (hx : x = none ∨ x = some (w.sock sid).tr)
    (hnc : (w.sock sid).rs ≠ .closed) (hsz : sid < w.socks.size) :
    LinkX none (sockOnClose (f + 2) w sid reason) := by
  rw [sockOnClose]
  have hg : ¬ ((w.sock sid).rs = .closed ∨ w.socks.size ≤ sid) := by
    intro h; rcases h with h | h
    · exact hnc h
    · omega
  simp only [hg, if_false]
  rw [clearTransportF]
  have htr1 : ((w.setSock sid fun s =>
      { s with rs := .closed, pingIntervalDue := none, pingTimeoutDue := none, packetsFn := [], sentCb := [] }).sock sid).tr = (w.sock sid).tr := by
    rw [sock_setSock]; split <;> rfl
  simp only [htr1]
  have lA := link_close_core w x sid
    (fun s => { s with rs := .closed, pingIntervalDue := none, pingTimeoutDue := none, packetsFn := [], sentCb := [] })
    (fun t => { t with role := .none, silenced := true }) l hsz hnc hx (fun _ => ⟨rfl, rfl, rfl, rfl⟩) (fun _ => ⟨rfl, rfl⟩)
  have hrA : (((w.setSock sid fun s =>
      { s with rs := .closed, pingIntervalDue := none, pingTimeoutDue := none, packetsFn := [], sentCb := [] }).setTr (w.sock sid).tr
        fun t => { t with role := .none, silenced := true }).tr (w.sock sid).tr).role = .none := by
    refine tr_setTr_role_none _ _ _ ?_; intro _; rfl
  generalize ((w.setSock sid fun s =>
      { s with rs := .closed, pingIntervalDue := none, pingTimeoutDue := none, packetsFn := [], sentCb := [] }).setTr (w.sock sid).tr
        fun t => { t with role := .none, silenced := true }) = wA at lA hrA ⊢
  refine TrOnly.link (trOnly_setSock _ sid _ (fun _ => ⟨Iff.rfl, rfl, rfl, rfl⟩)) ?_
  apply candFail_link
  refine TrOnly.link (trOnly_sev _ sid _) ?_
  have key : ∀ (W : World), LinkX none W → LinkX none ({ W with registry := W.registry.filter (· ≠ sid) } : World) :=
    fun W lW => (trOnly_fields W ({ W with registry := W.registry.filter (· ≠ sid) } : World) rfl rfl).link lW
  apply key
  refine TrOnly.link (trOnly_setSock _ sid _ (fun _ => ⟨Iff.rfl, rfl, rfl, rfl⟩)) ?_
  exact (to_trCloseF_detached f _ (TrOnly.refl _) hrA).link lA

/-! ### … and it touches no other transport -/

/-- every transport but `ti` is what it was -/
def TrTouch (ti : Nat) (w w' : World) : Prop := ∀ j, j ≠ ti → w'.tr j = w.tr j

theorem TrTouch.refl (ti : Nat) (w : World) : TrTouch ti w w := fun _ _ => rfl
theorem TrTouch.trans {ti : Nat} {a b c : World} (h1 : TrTouch ti a b) (h2 : TrTouch ti b c) : TrTouch ti a c :=
  fun j hj => (h2 j hj).trans (h1 j hj)
theorem tt_setTr {ti : Nat} {w0 w : World} (f : Tr → Tr) (h : TrTouch ti w0 w) : TrTouch ti w0 (w.setTr ti f) :=
  fun j hj => by rw [tr_setTr]; simp [Ne.symm hj]; exact h j hj
theorem tt_same {ti : Nat} {w0 w : World} (w' : World) (h : TrTouch ti w0 w) (ht : ∀ j, w'.tr j = w.tr j) : TrTouch ti w0 w' :=
  fun j hj => (ht j).trans (h j hj)
theorem tt_trSend {ti : Nat} {w0 w : World} (b : List Pkt) (h : TrTouch ti w0 w) : TrTouch ti w0 (trSend w ti b) := by
  intro j hj
  unfold trSend
  show ((w.setTr ti _).tr j) = _
  rw [tr_setTr]; simp [Ne.symm hj]; exact h j hj
theorem tt_abortData {ti : Nat} {w0 w : World} (d : Option Nat) (h : TrTouch ti w0 w) : TrTouch ti w0 (abortData w d) := by
  unfold abortData; split
  · exact tt_same _ h (fun j => tr_answer _ _ _ j)
  · exact h

theorem tt_trOnCloseBaseF_detached {w0 w : World} (f : Nat) (ti : Nat) (h : TrTouch ti w0 w)
    (hr : (w.tr ti).role = .none) : TrTouch ti w0 (trOnCloseBaseF f w ti) := by
  cases f with
  | zero => simpa [trOnCloseBaseF] using h
  | succ f =>
    rw [trOnCloseBaseF]
    split
    · exact h
    · rw [trEmitClose_detached]
      · exact tt_setTr _ h
      · refine (tr_setTr_role _ _ _ _ ?_).trans hr; intro _; rfl

theorem tt_pollOnCloseF_detached {w0 w : World} (f : Nat) (ti : Nat) (h : TrTouch ti w0 w)
    (hr : (w.tr ti).role = .none) : TrTouch ti w0 (pollOnCloseF f w ti) := by
  cases f with
  | zero => simpa [pollOnCloseF] using h
  | succ f =>
    rw [pollOnCloseF]
    apply tt_trOnCloseBaseF_detached
    · split
      · exact tt_trSend _ h
      · exact h
    · split
      · simp [hr]
      · exact hr

theorem tt_runCloseFnF_nofn {w0 w : World} (f : Nat) (ti : Nat) (h : TrTouch ti w0 w)
    (hfn : (w.tr ti).closeFn = none) : TrTouch ti w0 (runCloseFnF f w ti) := by
  cases f with
  | zero => simpa [runCloseFnF] using h
  | succ f =>
    rw [runCloseFnF]
    simp only [hfn]
    exact tt_setTr _ h

theorem tt_wsCloseNowF_detached {w0 w : World} (f : Nat) (ti : Nat) (h : TrTouch ti w0 w)
    (hr : (w.tr ti).role = .none) (hfn : (w.tr ti).closeFn = none) : TrTouch ti w0 (wsCloseNowF f w ti) := by
  cases f with
  | zero => simpa [wsCloseNowF] using h
  | succ f =>
    rw [wsCloseNowF]
    have h1 : ((w.setTr ti fun t => { t with closeWait := false, closeTimerDue := none }).tr ti).closeFn = none := by
      refine (tr_setTr_closeFn _ _ _ _ ?_).trans hfn; intro _; rfl
    have h1r : ((w.setTr ti fun t => { t with closeWait := false, closeTimerDue := none }).tr ti).role = .none := by
      refine (tr_setTr_role _ _ _ _ ?_).trans hr; intro _; rfl
    apply tt_trOnCloseBaseF_detached
    · refine tt_same _ (tt_runCloseFnF_nofn _ _ (tt_setTr _ h) h1) (fun j => rfl)
    · simp only [tr_setConn]
      rw [role_runCloseFnF_nofn _ _ _ h1]; exact h1r

theorem tt_trCloseF_detached {w0 w : World} (f : Nat) (ti : Nat) (h : TrTouch ti w0 w)
    (hr : (w.tr ti).role = .none) : TrTouch ti w0 (trCloseF f w ti none) := by
  cases f with
  | zero => simpa [trCloseF] using h
  | succ f =>
    rw [trCloseF]
    try dsimp only
    split
    · exact h
    · have hfn1 : ((w.setTr ti fun t => { t with rs := .closing, closeFn := none }).tr ti).closeFn = none := by
        refine tr_setTr_closeFn_none _ _ _ ?_; intro _; rfl
      have hr1 : ((w.setTr ti fun t => { t with rs := .closing, closeFn := none }).tr ti).role = .none := by
        refine (tr_setTr_role _ _ _ _ ?_).trans hr; intro _; rfl
      have v1 : TrTouch ti w0 (w.setTr ti fun t => { t with rs := .closing, closeFn := none }) := tt_setTr _ h
      generalize (w.setTr ti fun t => { t with rs := .closing, closeFn := none }) = w1 at hfn1 hr1 v1 ⊢
      split
      · have v2 : TrTouch ti w0 (abortData w1 (w.tr ti).dataReq) := tt_abortData _ v1
        have hfn2 : ((abortData w1 (w.tr ti).dataReq).tr ti).closeFn = none := by
          unfold abortData; split <;> simp [hfn1]
        have hr2 : ((abortData w1 (w.tr ti).dataReq).tr ti).role = .none := by
          unfold abortData; split <;> simp [hr1]
        generalize abortData w1 (w.tr ti).dataReq = w2 at v2 hfn2 hr2 ⊢
        split
        · have hfn3 : ((trSend w2 ti [{ typ := .close }]).tr ti).closeFn = none := by simp [hfn2]
          apply tt_pollOnCloseF_detached
          · exact tt_runCloseFnF_nofn _ _ (tt_trSend _ v2) hfn3
          · rw [role_runCloseFnF_nofn _ _ _ hfn3]; simp [hr2]
        · split
          · apply tt_pollOnCloseF_detached
            · exact tt_runCloseFnF_nofn _ _ v2 hfn2
            · rw [role_runCloseFnF_nofn _ _ _ hfn2]; exact hr2
          · exact tt_setTr _ v2
      · split
        · exact tt_wsCloseNowF_detached f ti v1 hr1 hfn1
        · exact tt_setTr _ v1

/-- an update of one transport that keeps its role and does not close it -/
theorem link_setTr {x : Option Nat} {w : World} (i : Nat) (f : Tr → Tr) (hr : ∀ t, (f t).role = t.role)
    (hc : ∀ t, (f t).rs = .closed → t.rs = .closed) (l : LinkX x w) : LinkX x (w.setTr i f) :=
  (trOnly_setTr w i f hr (fun h => Or.inl (hc _ h))).link l

/-! ### the close paths of a transport that still has its listeners -/

/-- marking a transport closed: the one moment at which a closed transport still has listeners -/
theorem link_mark_closed (w : World) (ti : Nat) (l : LinkX none w) :
    LinkX (some ti) (w.setTr ti fun t => { t with rs := .closed }) := by
  have ht : ∀ t, ((w.setTr ti fun t => { t with rs := .closed }).tr t).role = (w.tr t).role := fun t =>
    tr_setTr_role w ti t _ (fun _ => rfl)
  refine ⟨?_, ?_, ?_, ?_, ?_, l.l6⟩
  · intro sid hsz hnc
    obtain ⟨a, b⟩ := l.l1 sid hsz hnc
    exact ⟨by simpa using a, by rw [ht]; exact b⟩
  · intro t hc
    by_cases e : ti = t
    · exact Or.inr (by rw [e])
    · rw [tr_setTr] at hc
      simp only [e, false_and, if_false] at hc
      rcases l.l2 t hc with a | a
      · exact Or.inl (by rw [ht]; exact a)
      · cases a
  · intro t sid h; rw [ht] at h; exact l.l3 t sid h
  · intro t sid h; rw [ht] at h; exact l.l4 t sid h
  · intro sid c h; rw [ht]; exact l.l5 sid c h

theorem candFail_role (f : Nat) (w : World) (sid ti : Nat) (c : Cand) (hc : (w.sock sid).cand = some c) (hct : c.tr = ti) :
    ((candFail f w sid).tr ti).role = .none := by
  have h0 : ((candCleanup w sid).tr ti).role = .none := by
    unfold candCleanup
    simp only [hc]
    rw [hct]
    refine tr_setTr_role_none _ _ _ ?_; intro _; rfl
  cases f with
  | zero => simp only [candFail]; exact h0
  | succ f =>
    rw [candFail]
    simp only [hc]
    have t := to_trCloseF_detached f c.tr (TrOnly.refl (candCleanup w sid)) (by rw [hct]; exact h0)
    rw [t.role]; exact h0

/-- the listeners of a transport's "close" event -/
theorem trEmitClose_link (f : Nat) (w : World) (ti : Nat) (l : LinkX (some ti) w) (hf : 3 ≤ f) :
    LinkX none (trEmitClose f w ti) := by
  obtain ⟨f, rfl⟩ : ∃ g, f = g + 1 := ⟨f - 1, by omega⟩
  rw [trEmitClose]
  split
  · rename_i sid hr
    obtain ⟨a, b, c⟩ := l.l3 ti sid hr
    obtain ⟨g, rfl⟩ : ∃ g, f = g + 2 := ⟨f - 2, by omega⟩
    exact sockOnClose_link g w sid _ (some ti) l (Or.inr (by rw [a])) c b
  · rename_i sid hr
    obtain ⟨c, hc, hct⟩ := l.l4 ti sid hr
    exact (candFail_link f w sid (some ti) l).settle (candFail_role f w sid ti c hc hct)
  · rename_i hr
    exact l.settle hr

/-- `transport.OnError` -/
theorem trOnErrorF_link (f : Nat) (w : World) (ti : Nat) (l : LinkX none w) (hf : 3 ≤ f) :
    LinkX none (trOnErrorF f w ti) := by
  obtain ⟨f, rfl⟩ : ∃ g, f = g + 1 := ⟨f - 1, by omega⟩
  rw [trOnErrorF]
  split
  · rename_i sid hr
    obtain ⟨a, b, c⟩ := l.l3 ti sid hr
    obtain ⟨g, rfl⟩ : ∃ g, f = g + 2 := ⟨f - 2, by omega⟩
    exact sockOnClose_link g w sid _ none l (Or.inl rfl) c b
  · exact candFail_link f w _ none l
  · exact l

/-- `transport.OnClose` -/
theorem trOnCloseBaseF_link (f : Nat) (w : World) (ti : Nat) (l : LinkX none w) (hf : 4 ≤ f) :
    LinkX none (trOnCloseBaseF f w ti) := by
  obtain ⟨f, rfl⟩ : ∃ g, f = g + 1 := ⟨f - 1, by omega⟩
  rw [trOnCloseBaseF]
  split
  · exact l
  · exact trEmitClose_link f _ ti (link_mark_closed w ti l) (by omega)

theorem pollOnCloseF_link (f : Nat) (w : World) (ti : Nat) (l : LinkX none w) (hf : 5 ≤ f) :
    LinkX none (pollOnCloseF f w ti) := by
  obtain ⟨f, rfl⟩ : ∃ g, f = g + 1 := ⟨f - 1, by omega⟩
  rw [pollOnCloseF]
  apply trOnCloseBaseF_link _ _ _ _ (by omega)
  split
  · exact (trOnly_trSend _ _ _).link l
  · exact l

/-- the callback handed to `transport.Close` -/
theorem runCloseFnF_link (f : Nat) (w : World) (ti : Nat) (l : LinkX none w) (hf : 3 ≤ f) :
    LinkX none (runCloseFnF f w ti) := by
  obtain ⟨f, rfl⟩ : ∃ g, f = g + 1 := ⟨f - 1, by omega⟩
  rw [runCloseFnF]
  have l1 : LinkX none (w.setTr ti fun t => { t with closeFn := none }) :=
    link_setTr _ _ (fun _ => rfl) (fun _ h => h) l
  split
  · rename_i sid _
    obtain ⟨g, rfl⟩ : ∃ g, f = g + 2 := ⟨f - 2, by omega⟩
    by_cases hg : ((w.setTr ti fun t => { t with closeFn := none }).sock sid).rs = .closed ∨
        (w.setTr ti fun t => { t with closeFn := none }).socks.size ≤ sid
    · rw [sockOnClose]; simp only [hg, if_true]; exact l1
    · exact sockOnClose_link g _ sid _ none l1 (Or.inl rfl) (fun h => hg (Or.inl h)) (Nat.lt_of_not_le (fun h => hg (Or.inr h)))
  · exact l1

theorem wsCloseNowF_link (f : Nat) (w : World) (ti : Nat) (l : LinkX none w) (hf : 5 ≤ f) :
    LinkX none (wsCloseNowF f w ti) := by
  obtain ⟨f, rfl⟩ : ∃ g, f = g + 1 := ⟨f - 1, by omega⟩
  rw [wsCloseNowF]
  apply trOnCloseBaseF_link _ _ _ _ (by omega)
  refine (trOnly_setConn _ _ _).link ?_
  apply runCloseFnF_link _ _ _ _ (by omega)
  exact link_setTr _ _ (fun _ => rfl) (fun _ h => h) l

/-- `transport.Close(fn)` -/
theorem trCloseF_link (f : Nat) (w : World) (ti : Nat) (fn : Option Nat) (l : LinkX none w) (hf : 6 ≤ f) :
    LinkX none (trCloseF f w ti fn) := by
  obtain ⟨f, rfl⟩ : ∃ g, f = g + 1 := ⟨f - 1, by omega⟩
  rw [trCloseF]
  try dsimp only
  split
  · exact l
  · have l1 : LinkX none (w.setTr ti fun t => { t with rs := .closing, closeFn := fn }) :=
      link_setTr _ _ (fun _ => rfl) (fun _ h => by cases h) l
    generalize (w.setTr ti fun t => { t with rs := .closing, closeFn := fn }) = w1 at l1 ⊢
    split
    · have l2 : LinkX none (abortData w1 (w.tr ti).dataReq) := (trOnly_abortData _ _).link l1
      generalize abortData w1 (w.tr ti).dataReq = w2 at l2 ⊢
      split
      · apply pollOnCloseF_link _ _ _ _ (by omega)
        apply runCloseFnF_link _ _ _ _ (by omega)
        exact (trOnly_trSend _ _ _).link l2
      · split
        · apply pollOnCloseF_link _ _ _ _ (by omega)
          exact runCloseFnF_link _ _ _ l2 (by omega)
        · exact link_setTr _ _ (fun _ => rfl) (fun _ h => h) l2
    · split
      · exact wsCloseNowF_link f w1 ti l1 (by omega)
      · exact link_setTr _ _ (fun _ => rfl) (fun _ h => h) l1

theorem trOnError_link (w : World) (ti : Nat) (l : Link w) : Link (trOnError w ti) := trOnErrorF_link _ w ti l (by decide)
theorem trOnCloseBase_link (w : World) (ti : Nat) (l : Link w) : Link (trOnCloseBase w ti) := trOnCloseBaseF_link _ w ti l (by decide)
theorem pollOnClose_link (w : World) (ti : Nat) (l : Link w) : Link (pollOnClose w ti) := pollOnCloseF_link _ w ti l (by decide)
theorem runCloseFn_link (w : World) (ti : Nat) (l : Link w) : Link (runCloseFn w ti) := runCloseFnF_link _ w ti l (by decide)
theorem wsCloseNow_link (w : World) (ti : Nat) (l : Link w) : Link (wsCloseNow w ti) := wsCloseNowF_link _ w ti l (by decide)
theorem trClose_link (w : World) (ti : Nat) (fn : Option Nat) (l : Link w) : Link (trClose w ti fn) := trCloseF_link _ w ti fn l (by decide)

end EIO.Ses
