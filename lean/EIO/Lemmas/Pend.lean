import EIO.Lemmas.PollStep
/-
A pending poll is never forgotten: for a polling transport that holds a poll and is not writable, either a writer
task for it is queued (it will answer the poll) or the client had already given the request up.

`Cone w w'`: what almost every function of the model may do, as far as this is concerned — never change a transport's
kind or its registered poll, never drop a queued task or un-finish a request, and switch `writable` off only by
starting a writer.
-/
namespace EIO.Ses
open EIO EIO.Codec

def reqDone (w : World) (r : Nat) : Prop := (w.reqs.getD r default).done = true

/-- `x`: the transport whose writer task has been taken off the queue and is running right now -/
structure PendX (x : Option Nat) (w : World) : Prop where
  p4 : ∀ ti r, x ≠ some ti → (w.tr ti).isPolling = true → (w.tr ti).req = some r → (w.tr ti).writable = false →
    (∃ b, Task.pollSend ti b ∈ w.tasks) ∨ reqDone w r

structure Cone (w w' : World) : Prop where
  size : w'.trs.size = w.trs.size
  kind : ∀ j, (w'.tr j).isPolling = (w.tr j).isPolling
  req : ∀ j, (w'.tr j).req = (w.tr j).req
  tasks : ∀ t ∈ w.tasks, t ∈ w'.tasks
  done : ∀ r, reqDone w r → reqDone w' r
  flip : ∀ j, (w'.tr j).writable = false → (w.tr j).writable = true → (w.tr j).isPolling = true → ∃ b, Task.pollSend j b ∈ w'.tasks

theorem Cone.refl (w : World) : Cone w w :=
  ⟨rfl, fun _ => rfl, fun _ => rfl, fun _ h => h, fun _ h => h, fun j a b _ => by rw [b] at a; cases a⟩

theorem Cone.trans {a b c : World} (h1 : Cone a b) (h2 : Cone b c) : Cone a c := by
  refine ⟨h2.size.trans h1.size, fun j => (h2.kind j).trans (h1.kind j), fun j => (h2.req j).trans (h1.req j),
    fun t h => h2.tasks t (h1.tasks t h), fun r h => h2.done r (h1.done r h), fun j hc ha hp => ?_⟩
  cases hb : (b.tr j).writable with
  | false =>
    obtain ⟨bb, hbb⟩ := h1.flip j hb ha hp
    exact ⟨bb, h2.tasks _ hbb⟩
  | true => exact h2.flip j hc hb ((h1.kind j).trans hp)

theorem Cone.pend {x : Option Nat} {w w' : World} (c : Cone w w') (p : PendX x w) : PendX x w' := by
  refine ⟨fun ti r hx hp hq hw => ?_⟩
  have hp0 : (w.tr ti).isPolling = true := (c.kind ti) ▸ hp
  have hq0 : (w.tr ti).req = some r := (c.req ti) ▸ hq
  cases h0 : (w.tr ti).writable with
  | false =>
    rcases p.p4 ti r hx hp0 hq0 h0 with ⟨b, hb⟩ | hd
    · exact Or.inl ⟨b, c.tasks _ hb⟩
    · exact Or.inr (c.done r hd)
  | true => exact Or.inl (c.flip ti hw h0 hp0)

theorem cn_setTr {w0 w : World} (i : Nat) (f : Tr → Tr) (h : Cone w0 w)
    (hf : ∀ t, (f t).isPolling = t.isPolling ∧ (f t).req = t.req ∧ (f t).writable = t.writable) : Cone w0 (w.setTr i f) := by
  refine h.trans ⟨by simp, fun j => ?_, fun j => ?_, fun _ ht => ht, fun _ hd => hd, fun j hw ha _ => ?_⟩
  · rw [tr_setTr]; split
    · exact (hf _).1
    · rfl
  · rw [tr_setTr]; split
    · exact (hf _).2.1
    · rfl
  · exfalso
    rw [tr_setTr] at hw; split at hw
    · rw [(hf _).2.2, ha] at hw; cases hw
    · rw [ha] at hw; cases hw

/-- transports and tasks as they were, requests only more finished -/
theorem cn_same {w0 w : World} (w' : World) (h : Cone w0 w) (ht : w'.trs = w.trs) (hq : w'.tasks = w.tasks)
    (hd : ∀ r, reqDone w r → reqDone w' r) : Cone w0 w' := by
  have e : ∀ j, w'.tr j = w.tr j := fun j => by unfold World.tr; rw [ht]
  refine h.trans ⟨by rw [ht], fun j => by rw [e], fun j => by rw [e], fun t h => by rw [hq]; exact h, hd, fun j hw ha _ => ?_⟩
  rw [e, ha] at hw; cases hw

theorem cn_setSock {w0 w : World} (i : Nat) (f : Sock → Sock) (h : Cone w0 w) : Cone w0 (w.setSock i f) := cn_same _ h rfl rfl (fun _ x => x)
theorem cn_setConn {w0 w : World} (i : Nat) (f : Conn → Conn) (h : Cone w0 w) : Cone w0 (w.setConn i f) := cn_same _ h rfl rfl (fun _ x => x)
theorem cn_ev {w0 w : World} (s : String) (h : Cone w0 w) : Cone w0 (w.ev s) := cn_same _ h rfl rfl (fun _ x => x)
theorem cn_sev {w0 w : World} (sid : Nat) (e : SEv) (h : Cone w0 w) : Cone w0 (w.sev sid e) := by
  rcases sev_eq w sid e with e1 | e1 <;> rw [e1] <;> exact cn_same _ h rfl rfl (fun _ x => x)
/-- an update of a request that does not un-finish it -/
theorem cn_setReq {w0 w : World} (i : Nat) (f : Req → Req) (h : Cone w0 w) (hf : ∀ q, q.done = true → (f q).done = true) :
    Cone w0 (w.setReq i f) := by
  refine cn_same _ h rfl rfl (fun r hd => ?_)
  unfold reqDone at hd ⊢
  rw [req_setReq]; split
  · exact hf _ hd
  · exact hd
theorem cn_answer {w0 w : World} (r : Nat) (resp : Resp) (h : Cone w0 w) : Cone w0 (w.answer r resp) := by
  unfold World.answer; split
  · exact h
  · exact cn_setReq _ _ (cn_ev _ h) (fun _ _ => rfl)
theorem cn_abortData {w0 w : World} (d : Option Nat) (h : Cone w0 w) : Cone w0 (abortData w d) := by
  unfold abortData; split
  · exact cn_answer _ _ h
  · exact h

theorem cn_trSend {w0 w : World} (ti : Nat) (b : List Pkt) (h : Cone w0 w) : Cone w0 (trSend w ti b) := by
  refine h.trans ?_
  unfold trSend
  have hk : ∀ j, ((w.setTr ti fun t => { t with writable := false }).tr j).isPolling = (w.tr j).isPolling := fun j => by
    rw [tr_setTr]; split <;> rfl
  have hq : ∀ j, ((w.setTr ti fun t => { t with writable := false }).tr j).req = (w.tr j).req := fun j => by
    rw [tr_setTr]; split <;> rfl
  have hwr : ∀ j, j ≠ ti → ((w.setTr ti fun t => { t with writable := false }).tr j).writable = (w.tr j).writable := fun j hj => by
    rw [tr_setTr]; simp [Ne.symm hj]
  have hsz : (w.setTr ti fun t => { t with writable := false }).trs.size = w.trs.size := by simp
  have htk : (w.setTr ti fun t => { t with writable := false }).tasks = w.tasks := rfl
  have hrq : (w.setTr ti fun t => { t with writable := false }).reqs = w.reqs := rfl
  generalize (w.setTr ti fun t => { t with writable := false }) = w1 at hk hq hwr hsz htk hrq ⊢
  have e : ∀ j, ({ w1 with tasks := w1.tasks ++ [if (w1.tr ti).isPolling = true then Task.pollSend ti b else Task.wsSend ti b] } : World).tr j = w1.tr j :=
    fun _ => rfl
  refine ⟨hsz, fun j => by rw [e]; exact hk j, fun j => by rw [e]; exact hq j, fun t ht => ?_,
    fun r hd => (by unfold reqDone at hd ⊢; show (w1.reqs.getD r default).done = true; rw [hrq]; exact hd), fun j hw ha hp => ?_⟩
  · show t ∈ w1.tasks ++ _
    rw [htk]; exact List.mem_append.mpr (Or.inl ht)
  · rw [e] at hw
    by_cases ej : j = ti
    · subst ej
      refine ⟨b, ?_⟩
      show Task.pollSend j b ∈ w1.tasks ++ [if (w1.tr j).isPolling = true then Task.pollSend j b else Task.wsSend j b]
      rw [if_pos ((hk j).trans hp)]
      exact List.mem_append.mpr (Or.inr (List.mem_singleton.mpr rfl))
    · exfalso
      rw [hwr j ej, ha] at hw; cases hw

macro "cn_prim" : tactic => `(tactic| repeat (first
  | with_reducible assumption
  | with_reducible apply cn_ev | with_reducible apply cn_sev | with_reducible apply cn_answer
  | with_reducible apply cn_trSend | with_reducible apply cn_setConn
  | with_reducible apply cn_abortData | with_reducible apply cn_setSock
  | (with_reducible refine cn_setReq _ _ ?_ (fun q hq => hq))
  | (with_reducible refine cn_setTr _ _ ?_ (fun t => ⟨rfl, rfl, rfl⟩))))

/-! ### the close paths -/

theorem cn_candCleanup {w0 w : World} (sid : Nat) (h : Cone w0 w) : Cone w0 (candCleanup w sid) := by
  unfold candCleanup
  split
  · exact h
  · cn_prim

theorem cn_close_all (f : Nat) :
    (∀ w0 w ti, Cone w0 w → Cone w0 (trEmitClose f w ti)) ∧
    (∀ w0 w ti, Cone w0 w → Cone w0 (trOnErrorF f w ti)) ∧
    (∀ w0 w ti, Cone w0 w → Cone w0 (trOnCloseBaseF f w ti)) ∧
    (∀ w0 w ti, Cone w0 w → Cone w0 (pollOnCloseF f w ti)) ∧
    (∀ w0 w ti, Cone w0 w → Cone w0 (runCloseFnF f w ti)) ∧
    (∀ w0 w ti, Cone w0 w → Cone w0 (wsCloseNowF f w ti)) ∧
    (∀ w0 w ti fn, Cone w0 w → Cone w0 (trCloseF f w ti fn)) ∧
    (∀ w0 w sid, Cone w0 w → Cone w0 (clearTransportF f w sid)) ∧
    (∀ w0 w sid, Cone w0 w → Cone w0 (candFail f w sid)) ∧
    (∀ w0 w sid r, Cone w0 w → Cone w0 (sockOnClose f w sid r)) := by
  induction f with
  | zero =>
    refine ⟨?_, ?_, ?_, ?_, ?_, ?_, ?_, ?_, ?_, ?_⟩ <;> intros <;>
      first
      | (simp only [trEmitClose]; assumption) | (simp only [trOnErrorF]; assumption) | (simp only [trOnCloseBaseF]; assumption)
      | (simp only [pollOnCloseF]; assumption) | (simp only [runCloseFnF]; assumption) | (simp only [wsCloseNowF]; assumption)
      | (simp only [trCloseF]; assumption) | (simp only [clearTransportF]; assumption)
      | (simp only [candFail]; exact cn_candCleanup _ (by assumption)) | (simp only [sockOnClose]; assumption)
  | succ f ih =>
    obtain ⟨iEC, iOE, iCB, iPC, iRF, iWN, iTC, iCT, iCF, iSC⟩ := ih
    refine ⟨?_, ?_, ?_, ?_, ?_, ?_, ?_, ?_, ?_, ?_⟩
    · intro w0 w ti h
      rw [trEmitClose]; split
      · exact iSC _ _ _ _ h
      · exact iCF _ _ _ h
      · exact h
    · intro w0 w ti h
      rw [trOnErrorF]; split
      · exact iSC _ _ _ _ h
      · exact iCF _ _ _ h
      · exact h
    · intro w0 w ti h
      rw [trOnCloseBaseF]; split
      · exact h
      · apply iEC; cn_prim
    · intro w0 w ti h
      rw [pollOnCloseF]
      apply iCB
      split <;> cn_prim
    · intro w0 w ti h
      rw [runCloseFnF]
      try dsimp only
      split
      · apply iSC; cn_prim
      · cn_prim
    · intro w0 w ti h
      rw [wsCloseNowF]
      try dsimp only
      apply iCB; apply cn_setConn; apply iRF; cn_prim
    · intro w0 w ti fn h
      rw [trCloseF]
      try dsimp only
      split
      · exact h
      · have h1 : Cone w0 (w.setTr ti fun t => { t with rs := .closing, closeFn := fn }) := by cn_prim
        split
        · have h2 := cn_abortData (w.tr ti).dataReq h1
          split
          · apply iPC; apply iRF; cn_prim
          · split
            · apply iPC; apply iRF; exact h2
            · cn_prim
        · split
          · exact iWN _ _ _ h1
          · cn_prim
    · intro w0 w sid h
      rw [clearTransportF]
      try dsimp only
      apply cn_setSock; apply iTC; cn_prim
    · intro w0 w sid h
      rw [candFail]
      split
      · exact h
      · apply iTC; exact cn_candCleanup _ h
    · intro w0 w sid r h
      rw [sockOnClose]
      split
      · exact h
      · try dsimp only
        apply cn_setSock; apply iCF; apply cn_sev
        refine cn_same _ (iCT _ _ _ (cn_setSock _ _ h)) rfl rfl (fun _ x => x)


theorem cn_trOnError {w0 w : World} (ti : Nat) (h : Cone w0 w) : Cone w0 (trOnError w ti) := (cn_close_all closeFuel).2.1 _ _ _ h
theorem cn_trOnCloseBase {w0 w : World} (ti : Nat) (h : Cone w0 w) : Cone w0 (trOnCloseBase w ti) := (cn_close_all closeFuel).2.2.1 _ _ _ h
theorem cn_pollOnClose {w0 w : World} (ti : Nat) (h : Cone w0 w) : Cone w0 (pollOnClose w ti) := (cn_close_all closeFuel).2.2.2.1 _ _ _ h
theorem cn_runCloseFn {w0 w : World} (ti : Nat) (h : Cone w0 w) : Cone w0 (runCloseFn w ti) := (cn_close_all closeFuel).2.2.2.2.1 _ _ _ h
theorem cn_wsCloseNow {w0 w : World} (ti : Nat) (h : Cone w0 w) : Cone w0 (wsCloseNow w ti) := (cn_close_all closeFuel).2.2.2.2.2.1 _ _ _ h
theorem cn_trClose {w0 w : World} (ti : Nat) (fn : Option Nat) (h : Cone w0 w) : Cone w0 (trClose w ti fn) :=
  (cn_close_all closeFuel).2.2.2.2.2.2.1 _ _ _ _ h
theorem cn_clearTransport {w0 w : World} (sid : Nat) (h : Cone w0 w) : Cone w0 (clearTransport w sid) :=
  (cn_close_all closeFuel).2.2.2.2.2.2.2.1 _ _ _ h
theorem cn_sockOnClose {w0 w : World} (f : Nat) (sid : Nat) (r : String) (h : Cone w0 w) : Cone w0 (sockOnClose f w sid r) :=
  (cn_close_all f).2.2.2.2.2.2.2.2.2 _ _ _ _ h

macro "cn_auto" : tactic => `(tactic| repeat (first
  | with_reducible assumption
  | with_reducible apply cn_ev | with_reducible apply cn_sev | with_reducible apply cn_answer
  | with_reducible apply cn_trSend | with_reducible apply cn_setConn
  | with_reducible apply cn_abortData | with_reducible apply cn_setSock
  | with_reducible apply cn_trOnError | with_reducible apply cn_trOnCloseBase | with_reducible apply cn_pollOnClose
  | with_reducible apply cn_runCloseFn | with_reducible apply cn_wsCloseNow | with_reducible apply cn_trClose
  | with_reducible apply cn_clearTransport | with_reducible apply cn_candCleanup | with_reducible apply cn_sockOnClose
  | (with_reducible refine cn_setReq _ _ ?_ (fun q hq => hq))
  | (with_reducible refine cn_setTr _ _ ?_ (fun t => ⟨rfl, rfl, rfl⟩))))

/-! ### everything else that only starts writers -/

theorem cn_closeTransportF {w0 w : World} (f : Nat) (sid : Nat) (d : Bool) (h : Cone w0 w) : Cone w0 (closeTransportF f w sid d) := by
  cases f with
  | zero => simpa [closeTransportF] using h
  | succ f =>
    rw [closeTransportF]
    try dsimp only
    have h1 : Cone w0 (if d = true then w.setTr (w.sock sid).tr fun t => { t with discarded := true } else w) := by
      split
      · cn_auto
      · exact h
    generalize (if d = true then w.setTr (w.sock sid).tr fun t => { t with discarded := true } else w) = w1 at h1 ⊢
    split
    · exact cn_sockOnClose _ _ _ h1
    · exact cn_trClose _ _ h1

theorem cn_flushF {w0 w : World} (f : Nat) (sid : Nat) (h : Cone w0 w) : Cone w0 (flushF f w sid) := by
  cases f with
  | zero => simpa [flushF] using h
  | succ f =>
    rw [flushF]
    try dsimp only
    split
    · exact h
    · apply cn_ev
      split
      · apply cn_closeTransportF; cn_auto
      · cn_auto

theorem cn_flush {w0 w : World} (sid : Nat) (h : Cone w0 w) : Cone w0 (flush w sid) := cn_flushF _ sid h
theorem cn_closeTransport {w0 w : World} (sid : Nat) (d : Bool) (h : Cone w0 w) : Cone w0 (closeTransport w sid d) := cn_closeTransportF _ sid d h

theorem cn_sendPacket {w0 w : World} (sid : Nat) (pk : Pkt) (cb : Option Nat) (h : Cone w0 w) : Cone w0 (sendPacket w sid pk cb) := by
  unfold sendPacket
  try dsimp only
  split
  · exact h
  · apply cn_flush; cn_auto

theorem cn_cbs {w0 w : World} (sid : Nat) (cbs : List Nat) (h : Cone w0 w) : Cone w0 (cbs.foldl (fun w id => w.sev sid (.cb id)) w) := by
  induction cbs generalizing w with
  | nil => exact h
  | cons id rest ih => simp only [List.foldl_cons]; exact ih (cn_sev _ _ h)

theorem cn_sockOnDrain {w0 w : World} (sid : Nat) (h : Cone w0 w) : Cone w0 (sockOnDrain w sid) := by
  unfold sockOnDrain
  split
  · exact h
  · apply cn_cbs; cn_auto

theorem cn_trEmitDrain {w0 w : World} (ti : Nat) (h : Cone w0 w) : Cone w0 (trEmitDrain w ti) := by
  unfold trEmitDrain
  try dsimp only
  split
  · split
    · exact cn_wsCloseNow _ (cn_sockOnDrain _ h)
    · exact cn_sockOnDrain _ h
  · split
    · exact cn_wsCloseNow _ h
    · exact h

theorem cn_trEmitReady {w0 w : World} (ti : Nat) (h : Cone w0 w) : Cone w0 (trEmitReady w ti) := by
  unfold trEmitReady
  split
  · exact cn_flush _ h
  · exact h

theorem cn_doUpgrade {w0 w : World} (sid newTr : Nat) (h : Cone w0 w) : Cone w0 (doUpgrade w sid newTr) := by
  unfold doUpgrade
  try dsimp only
  have h1 := cn_candCleanup sid h
  generalize candCleanup w sid = wa at h1 ⊢
  have h2 : Cone w0 (flush (((((clearTransport ((wa.setTr (wa.sock sid).tr fun t => { t with discarded := true }).setSock sid fun s => { s with upgraded := true }) sid).setSock sid
      fun s => { s with tr := newTr }).setTr newTr fun t => { t with role := .current sid })).sev sid .upgrade) sid) := by
    apply cn_flush; cn_auto
  split
  · exact cn_trClose _ _ h2
  · exact h2

theorem cn_candOnPacket {w0 w : World} (sid : Nat) (pk : Pkt) (h : Cone w0 w) : Cone w0 (candOnPacket w sid pk) := by
  unfold candOnPacket
  split
  · exact h
  · split
    · try dsimp only
      cn_auto
    · split
      · exact cn_doUpgrade _ _ h
      · cn_auto

theorem cn_sockOnPacket {w0 w : World} (sid : Nat) (pk : Pkt) (h : Cone w0 w) : Cone w0 (sockOnPacket w sid pk) := by
  unfold sockOnPacket
  try dsimp only
  split
  · exact h
  · split
    · split
      · cn_auto
      · apply cn_sev; apply cn_sendPacket; cn_auto
    · split
      · cn_auto
      · cn_auto
    · cn_auto
    · cn_auto
    · cn_auto

theorem cn_trEmitPacket {w0 w : World} (ti : Nat) (pk : Pkt) (h : Cone w0 w) : Cone w0 (trEmitPacket w ti pk) := by
  unfold trEmitPacket
  split
  · exact cn_sockOnPacket _ _ h
  · exact cn_candOnPacket _ _ h
  · exact h

theorem cn_emitHeaders {w0 w : World} (ti r : Nat) (h : Cone w0 w) : Cone w0 (emitHeaders w ti r) := by
  unfold emitHeaders
  try dsimp only
  repeat (first | with_reducible assumption | with_reducible apply cn_ev | (with_reducible refine cn_setReq _ _ ?_ (fun q hq => hq)) | split)

theorem cn_rejectReq {w0 w : World} (r code : Nat) (msg : String) (h : Cone w0 w) : Cone w0 (rejectReq w r code msg) := by
  unfold rejectReq; cn_auto

theorem cn_wsSendLoop {w0 w : World} (ti : Nat) (batch : List Pkt) (h : Cone w0 w) : Cone w0 (wsSendLoop ti batch w) := by
  induction batch generalizing w with
  | nil => exact h
  | cons pk rest ih =>
    rw [wsSendLoop]
    try dsimp only
    split
    · apply ih; unfold wsPut; cn_auto
    · apply ih; cn_auto

theorem cn_pollDeliver {w0 w : World} (ti : Nat) (pkts : List Pkt) (h : Cone w0 w) : Cone w0 (pollDeliver ti pkts w) := by
  induction pkts generalizing w with
  | nil => simpa [pollDeliver] using h
  | cons pk rest ih =>
    rw [pollDeliver]
    split
    · exact cn_pollOnClose _ h
    · exact ih (cn_trEmitPacket _ _ h)

/-- pushing a request keeps every earlier request as it is -/
theorem cn_pushReq {w0 w : World} (q : Req) (h : Cone w0 w) : Cone w0 ({ w with reqs := w.reqs.push q } : World) := by
  refine cn_same _ h rfl rfl (fun r hd => ?_)
  unfold reqDone at hd ⊢
  show ((w.reqs.push q).getD r default).done = true
  by_cases hr : r < w.reqs.size
  · rw [Array.getD_eq_getD_getElem?, Array.getElem?_push] ; simp [Nat.ne_of_lt hr]
    rw [Array.getD_eq_getD_getElem?] at hd; simpa using hd
  · exfalso
    rw [Array.getD_eq_getD_getElem?, Array.getElem?_eq_none (Nat.le_of_not_lt hr)] at hd
    cases hd

theorem cn_fields {w0 w : World} (w' : World) (h : Cone w0 w) (h1 : w'.trs = w.trs := by rfl) (h2 : w'.tasks = w.tasks := by rfl)
    (h3 : w'.reqs = w.reqs := by rfl) : Cone w0 w' :=
  cn_same w' h h1 h2 (fun r hd => by unfold reqDone at hd ⊢; rw [h3]; exact hd)

theorem cn_pollOnData {w0 w : World} (ti : Nat) (body : Bytes) (binary : Bool) (h : Cone w0 w) : Cone w0 (pollOnData w ti body binary).1 := by
  unfold pollOnData
  split
  · exact cn_pollDeliver _ _ h
  · exact h
  · exact cn_fields _ h

theorem cn_postReq {w0 w : World} (sid : Nat) (binary declared : Bool) (body : Bytes) (vj : Bool) (h : Cone w0 w) :
    Cone w0 (postReq w sid binary declared body vj) := by
  unfold postReq; try dsimp only
  repeat (first
    | with_reducible assumption
    | with_reducible apply cn_rejectReq | with_reducible apply cn_emitHeaders | with_reducible apply cn_pollOnData
    | with_reducible apply cn_answer | with_reducible apply cn_trOnError | with_reducible apply cn_pushReq
    | (with_reducible refine cn_setReq _ _ ?_ (fun q hq => (by first | exact hq | rfl)))
    | (with_reducible refine cn_setTr _ _ ?_ (fun t => ⟨rfl, rfl, rfl⟩))
    | dsimp only
    | split)

theorem cn_wsFrame {w0 w : World} (c : Nat) (m : Msg) (h : Cone w0 w) : Cone w0 (wsFrame w c m).1 := by
  unfold wsFrame
  try dsimp only
  split
  · exact h
  · split
    · exact h
    · split
      · dsimp only; cn_auto
      · dsimp only
        split <;> exact cn_trEmitPacket _ _ h

theorem cn_wsDrop {w0 w : World} (c : Nat) (h : Cone w0 w) : Cone w0 (wsDrop w c) := by
  unfold wsDrop
  try dsimp only
  split
  · cn_auto
  · split <;> (try split) <;> cn_auto

theorem cn_appClose {w0 w : World} (sid : Nat) (discard : Bool) (h : Cone w0 w) : Cone w0 (appClose w sid discard) := by
  unfold appClose
  try dsimp only
  split
  · exact cn_closeTransport _ _ h
  · split
    · exact h
    · split
      · cn_auto
      · exact cn_closeTransport _ _ (cn_setSock _ _ h)

theorem cn_shutdownFold {w0 w : World} (reg : List Nat) (h : Cone w0 w) : Cone w0 (reg.foldl (fun w sid => appClose w sid true) w) := by
  induction reg generalizing w with
  | nil => exact h
  | cons sid rest ih => simp only [List.foldl_cons]; exact ih (cn_appClose _ _ h)

theorem cn_appSend {w0 w : World} (sid : Nat) (m : Msg) (compress wantCb : Bool) (pre : Option Msg) (h : Cone w0 w) :
    Cone w0 (appSend w sid m compress wantCb pre) := by
  unfold appSend
  try dsimp only
  apply cn_sendPacket
  split
  · exact cn_fields _ h
  · exact h

theorem cn_fireTimer {w0 w : World} (id : TimerId) (h : Cone w0 w) : Cone w0 (fireTimer w id) := by
  cases id with
  | pingInterval sid => simp only [fireTimer]; apply cn_setSock; apply cn_sendPacket; cn_auto
  | pingTimeout sid =>
    simp only [fireTimer]
    split <;> cn_auto
  | closeTimer ti =>
    simp only [fireTimer]
    split <;> cn_auto
  | upgradeTimeout sid =>
    simp only [fireTimer]
    split
    · split <;> cn_auto
    · exact h
  | check sid =>
    simp only [fireTimer]
    split
    · split <;> cn_auto
    · exact h

theorem cn_advance {w0 w : World} (f target : Nat) (h : Cone w0 w) : Cone w0 (advance f w target) := by
  induction f generalizing w with
  | zero => simp only [advance]; exact cn_fields _ h
  | succ f ih =>
    rw [advance]
    split
    · exact ih (cn_fireTimer _ (cn_fields _ h))
    · exact cn_fields _ h

theorem cn_foldl {w0 w : World} (is : List Nat) (g : World → Nat → World)
    (hg : ∀ w i, Cone w0 w → Cone w0 (g w i)) (h : Cone w0 w) : Cone w0 (is.foldl g w) := by
  induction is generalizing w with
  | nil => exact h
  | cons i rest ih => simp only [List.foldl_cons]; exact ih (hg _ _ h)

theorem cn_observe {w0 w : World} (h : Cone w0 w) : Cone w0 (observe w) := by
  unfold observe
  try dsimp only
  apply cn_foldl
  · intro w i h; exact cn_setConn _ _ h
  · apply cn_foldl
    · intro w i h
      split
      · exact cn_setReq _ _ h (fun q hq => hq)
      · exact h
    · exact cn_fields _ h

end EIO.Ses
