import EIO.Model.Session
/-
Accounting over the session log: what the log says was accepted (packetCreate),
handed to a transport (flush), run (send callbacks) and switched (upgrade), as
plain list projections, with the list facts the invariant needs.
-/
namespace EIO.Ses
open EIO EIO.Codec

/-- the entries of session `sid`, mapped through `f` -/
def proj {α} (f : SEv → List α) (sid : Nat) (l : List (Nat × SEv)) : List α :=
  l.flatMap fun e => if e.1 = sid then f e.2 else []

def fCreatedPkt : SEv → List Pkt | .packetCreate p _ => [p] | _ => []
def fCreatedCb : SEv → List Nat | .packetCreate _ (some id) => [id] | _ => []
def fFlushedPkt : SEv → List Pkt | .flush b _ => b | _ => []
def fFlushedCb : SEv → List Nat | .flush _ c => c | _ => []
def fRanCb : SEv → List Nat | .cb id => [id] | _ => []
def fUpgrade : SEv → List Unit | .upgrade => [()] | _ => []

-- packets accepted by `sendPacket`, in order
notation "createdPkts" => proj fCreatedPkt
-- the callbacks handed to `Send`, in order
notation "createdCbs" => proj fCreatedCb
-- packets handed to a transport by `flush`, in order
notation "flushedPkts" => proj fFlushedPkt
-- the callbacks that travelled with the flushed batches
notation "flushedCbs" => proj fFlushedCb
-- the callbacks that have run
notation "ranCbs" => proj fRanCb
def upgradeCount (sid : Nat) (l : List (Nat × SEv)) : Nat := (proj fUpgrade sid l).length

/-- the events that do not enter the accounts -/
def SEv.accNeutral : SEv → Bool
  | .packetCreate _ _ => false
  | .flush _ _ => false
  | .cb _ => false
  | .upgrade => false
  | _ => true

theorem proj_nil {α} (f : SEv → List α) (sid : Nat) : proj f sid [] = [] := rfl

theorem proj_append {α} (f : SEv → List α) (sid : Nat) (a b : List (Nat × SEv)) :
    proj f sid (a ++ b) = proj f sid a ++ proj f sid b := by
  unfold proj; simp [List.flatMap_append]

theorem proj_single {α} (f : SEv → List α) (sid s : Nat) (e : SEv) :
    proj f sid [(s, e)] = if s = sid then f e else [] := by
  unfold proj; simp

theorem proj_snoc {α} (f : SEv → List α) (sid s : Nat) (e : SEv) (l : List (Nat × SEv)) :
    proj f sid (l ++ [(s, e)]) = proj f sid l ++ (if s = sid then f e else []) := by
  rw [proj_append, proj_single]

theorem proj_snoc_other {α} (f : SEv → List α) (sid s : Nat) (e : SEv) (l : List (Nat × SEv)) (h : s ≠ sid) :
    proj f sid (l ++ [(s, e)]) = proj f sid l := by
  rw [proj_snoc]; simp [h]

theorem neutral_created (e : SEv) (h : e.accNeutral = true) : fCreatedPkt e = [] ∧ fCreatedCb e = [] := by
  cases e <;> simp_all [SEv.accNeutral, fCreatedPkt, fCreatedCb]
theorem neutral_flushed (e : SEv) (h : e.accNeutral = true) : fFlushedPkt e = [] ∧ fFlushedCb e = [] := by
  cases e <;> simp_all [SEv.accNeutral, fFlushedPkt, fFlushedCb]
theorem neutral_ran (e : SEv) (h : e.accNeutral = true) : fRanCb e = [] ∧ fUpgrade e = [] := by
  cases e <;> simp_all [SEv.accNeutral, fRanCb, fUpgrade]

/-- a neutral event changes none of the accounts -/
theorem proj_snoc_neutral (sid s : Nat) (e : SEv) (l : List (Nat × SEv)) (h : e.accNeutral = true) :
    createdPkts sid (l ++ [(s, e)]) = createdPkts sid l ∧ createdCbs sid (l ++ [(s, e)]) = createdCbs sid l ∧
    flushedPkts sid (l ++ [(s, e)]) = flushedPkts sid l ∧ flushedCbs sid (l ++ [(s, e)]) = flushedCbs sid l ∧
    ranCbs sid (l ++ [(s, e)]) = ranCbs sid l ∧ upgradeCount sid (l ++ [(s, e)]) = upgradeCount sid l := by
  unfold upgradeCount
  simp only [proj_snoc, (neutral_created e h).1, (neutral_created e h).2, (neutral_flushed e h).1,
    (neutral_flushed e h).2, (neutral_ran e h).1, (neutral_ran e h).2]
  simp

/-- no entry of `sid` that enters the accounts: every account is empty -/
theorem proj_empty_of_fresh {α} (f : SEv → List α) (sid : Nat) (l : List (Nat × SEv))
    (hf : ∀ e, e.accNeutral = true → f e = [])
    (h : ∀ e ∈ l, e.2.accNeutral = false → e.1 ≠ sid) : proj f sid l = [] := by
  unfold proj
  apply List.flatMap_eq_nil_iff.mpr
  intro e he
  by_cases hs : e.1 = sid
  · simp only [hs, if_true]
    cases hn : e.2.accNeutral with
    | true => exact hf _ hn
    | false => exact absurd hs (h e he hn)
  · simp [hs]

/-! ### what holds of the accounts at every point of the log -/

/-- handed over ⊑ accepted, run ⊑ handed over, at most one switch -/
def HistAt (sid : Nat) (l : List (Nat × SEv)) : Prop :=
  flushedPkts sid l <+: createdPkts sid l ∧ flushedCbs sid l <+: createdCbs sid l ∧
  ranCbs sid l <+: flushedCbs sid l ∧ upgradeCount sid l ≤ 1

/-- … at every prefix of the log, i.e. at every moment of the history -/
def LogHist (l : List (Nat × SEv)) : Prop := ∀ pre, pre <+: l → ∀ sid, HistAt sid pre

/-- a flush hands over everything accepted so far: right after a flush entry, both queues are empty -/
def FlushTight (l : List (Nat × SEv)) : Prop :=
  ∀ pre sid b c, pre ++ [(sid, SEv.flush b c)] <+: l →
    createdPkts sid (pre ++ [(sid, SEv.flush b c)]) = flushedPkts sid (pre ++ [(sid, SEv.flush b c)]) ∧
    createdCbs sid (pre ++ [(sid, SEv.flush b c)]) = flushedCbs sid (pre ++ [(sid, SEv.flush b c)])

theorem histAt_nil (sid : Nat) : HistAt sid [] := by
  unfold HistAt upgradeCount; simp [proj_nil]

theorem logHist_nil : LogHist [] := by
  intro pre hp sid
  have : pre = [] := List.prefix_nil.mp hp
  subst this; exact histAt_nil sid

theorem flushTight_nil : FlushTight [] := by
  intro pre sid b c h
  have := List.prefix_nil.mp h
  simp at this

theorem prefix_snoc {α} (p l : List α) (x : α) : p <+: l ++ [x] ↔ p <+: l ∨ p = l ++ [x] := by
  constructor
  · intro h
    obtain ⟨t, ht⟩ := h
    rcases List.eq_nil_or_concat t with h0 | ⟨t', y, hy⟩
    · subst h0; right; simpa using ht
    · subst hy
      left
      have : (p ++ t') ++ [y] = l ++ [x] := by simpa using ht
      have := List.append_inj' this (by simp)
      exact ⟨t', this.1⟩
  · rintro (h | h)
    · exact h.trans (List.prefix_append _ _)
    · rw [h]; exact List.prefix_refl _

theorem logHist_snoc (l : List (Nat × SEv)) (x : Nat × SEv) (h : LogHist l) (hx : ∀ sid, HistAt sid (l ++ [x])) :
    LogHist (l ++ [x]) := by
  intro pre hp sid
  rcases (prefix_snoc pre l x).mp hp with h1 | h1
  · exact h pre h1 sid
  · rw [h1]; exact hx sid

theorem logHist_prefix (a b : List (Nat × SEv)) (h : LogHist (a ++ b)) : LogHist a :=
  fun pre hp sid => h pre (hp.trans (List.prefix_append _ _)) sid

theorem flushTight_snoc (l : List (Nat × SEv)) (x : Nat × SEv) (h : FlushTight l)
    (hx : ∀ sid b c, x = (sid, SEv.flush b c) →
      createdPkts sid (l ++ [x]) = flushedPkts sid (l ++ [x]) ∧ createdCbs sid (l ++ [x]) = flushedCbs sid (l ++ [x])) :
    FlushTight (l ++ [x]) := by
  intro pre sid b c hp
  rcases (prefix_snoc _ l x).mp hp with h1 | h1
  · exact h pre sid b c h1
  · have := List.append_inj' h1 (by simp)
    obtain ⟨e1, e2⟩ := this
    have e2' : (sid, SEv.flush b c) = x := by simpa using e2
    subst e1
    rw [e2']
    exact hx sid b c e2'.symm

/-- a neutral entry keeps `HistAt` -/
theorem histAt_snoc_neutral (sid s : Nat) (e : SEv) (l : List (Nat × SEv)) (hn : e.accNeutral = true)
    (h : HistAt sid l) : HistAt sid (l ++ [(s, e)]) := by
  obtain ⟨a, b, c, d, e', f⟩ := proj_snoc_neutral sid s e l hn
  unfold HistAt
  rw [a, b, c, d, e', f]; exact h

end EIO.Ses
