import EIO.Lemmas.SesOps
/-
Which reasons a close event can carry: only the documented ones. `ND w w'`: the step created no session record and
logged no `close` entry with a reason outside `docReasons`. Generated from the `NP` chain of PT.lean (itself from the
`NC` chain), the side condition of `sockOnClose` being "the reason is documented" instead of "is not ping timeout".
-/
namespace EIO.Ses
open EIO EIO.Codec

/-- the causes the protocol documents: the peer closed the transport, a transport error, the heartbeat deadline, an
    undecodable packet, a close by the application or the server -/
def docReasons : List String := ["transport_close", "transport_error", "ping_timeout", "parse_error", "forced_close"]

def SEv.isUndoc : SEv → Bool
  | .close r _ => !(docReasons.contains r)
  | _ => false

theorem isUndoc_close_false {r : String} (rs : RS) (h : r ∈ docReasons) : (SEv.close r rs).isUndoc = false := by
  simp [SEv.isUndoc, h]

structure ND (w w' : World) : Prop where
  size : w'.socks.size = w.socks.size
  log : ∃ added, w'.slog = w.slog ++ added ∧ ∀ e ∈ added, e.2.isUndoc = false

theorem ND.refl (w : World) : ND w w := ⟨rfl, [], by simp, fun _ h => by cases h⟩
theorem ND.trans {a b c : World} (h1 : ND a b) (h2 : ND b c) : ND a c := by
  obtain ⟨x, hx, px⟩ := h1.log
  obtain ⟨y, hy, py⟩ := h2.log
  refine ⟨h2.size.trans h1.size, x ++ y, by rw [hy, hx, List.append_assoc], fun e he => ?_⟩
  rcases List.mem_append.mp he with h | h
  · exact px e h
  · exact py e h

theorem nd_same {w0 w : World} (w' : World) (h : ND w0 w) (hs : w'.socks = w.socks) (hl : w'.slog = w.slog) : ND w0 w' :=
  h.trans ⟨by rw [hs], [], by simp [hl], fun _ h => by cases h⟩

theorem nd_setTr {w0 w : World} (i : Nat) (f : Tr → Tr) (h : ND w0 w) : ND w0 (w.setTr i f) := nd_same _ h rfl rfl
theorem nd_setSock {w0 w : World} (i : Nat) (f : Sock → Sock) (h : ND w0 w) : ND w0 (w.setSock i f) :=
  h.trans ⟨by simp, [], by simp, fun _ h => by cases h⟩
theorem nd_setConn {w0 w : World} (i : Nat) (f : Conn → Conn) (h : ND w0 w) : ND w0 (w.setConn i f) := nd_same _ h rfl rfl
theorem nd_setReq {w0 w : World} (i : Nat) (f : Req → Req) (h : ND w0 w) : ND w0 (w.setReq i f) := nd_same _ h rfl rfl
theorem nd_ev {w0 w : World} (s : String) (h : ND w0 w) : ND w0 (w.ev s) := nd_same _ h rfl rfl
theorem nd_sev {w0 w : World} (sid : Nat) (e : SEv) (h : ND w0 w) (he : e.isUndoc = false) : ND w0 (w.sev sid e) :=
  h.trans ⟨by simp, [(sid, e)], by simp, fun x hx => by simp at hx; subst hx; exact he⟩
theorem nd_answer {w0 w : World} (r : Nat) (resp : Resp) (h : ND w0 w) : ND w0 (w.answer r resp) := by
  unfold World.answer; split
  · exact h
  · exact nd_setReq _ _ (nd_ev _ h)
theorem nd_abortData {w0 w : World} (d : Option Nat) (h : ND w0 w) : ND w0 (abortData w d) := by
  unfold abortData; split
  · exact nd_answer _ _ h
  · exact h
theorem nd_trSend {w0 w : World} (ti : Nat) (b : List Pkt) (h : ND w0 w) : ND w0 (trSend w ti b) := nd_same _ h rfl rfl
theorem nd_fields {w0 w : World} (w' : World) (h : ND w0 w) (h1 : w'.socks = w.socks := by rfl) (h2 : w'.slog = w.slog := by rfl) : ND w0 w' :=
  nd_same w' h h1 h2
theorem nd_pushReq {w0 w : World} (q : Req) (h : ND w0 w) : ND w0 ({ w with reqs := w.reqs.push q } : World) := nd_fields _ h

macro "nd_prim" : tactic => `(tactic| repeat (first
  | with_reducible assumption
  | with_reducible apply nd_ev | (with_reducible refine nd_sev _ _ ?_ rfl) | with_reducible apply nd_answer
  | with_reducible apply nd_trSend | with_reducible apply nd_setConn
  | with_reducible apply nd_abortData | with_reducible apply nd_setSock
  | with_reducible apply nd_setReq | with_reducible apply nd_setTr))

theorem nd_candCleanup {w0 w : World} (sid : Nat) (h : ND w0 w) : ND w0 (candCleanup w sid) := by
  unfold candCleanup
  split
  · exact h
  · nd_prim

theorem nd_close_all (f : Nat) :
    (∀ w0 w ti, ND w0 w → ND w0 (trEmitClose f w ti)) ∧
    (∀ w0 w ti, ND w0 w → ND w0 (trOnErrorF f w ti)) ∧
    (∀ w0 w ti, ND w0 w → ND w0 (trOnCloseBaseF f w ti)) ∧
    (∀ w0 w ti, ND w0 w → ND w0 (pollOnCloseF f w ti)) ∧
    (∀ w0 w ti, ND w0 w → ND w0 (runCloseFnF f w ti)) ∧
    (∀ w0 w ti, ND w0 w → ND w0 (wsCloseNowF f w ti)) ∧
    (∀ w0 w ti fn, ND w0 w → ND w0 (trCloseF f w ti fn)) ∧
    (∀ w0 w sid, ND w0 w → ND w0 (clearTransportF f w sid)) ∧
    (∀ w0 w sid, ND w0 w → ND w0 (candFail f w sid)) ∧
    (∀ w0 w sid r, r ∈ docReasons → ND w0 w → ND w0 (sockOnClose f w sid r)) := by
  induction f with
  | zero =>
    refine ⟨?_, ?_, ?_, ?_, ?_, ?_, ?_, ?_, ?_, ?_⟩ <;> intros <;>
      first
      | (simp only [trEmitClose]; assumption) | (simp only [trOnErrorF]; assumption) | (simp only [trOnCloseBaseF]; assumption)
      | (simp only [pollOnCloseF]; assumption) | (simp only [runCloseFnF]; assumption) | (simp only [wsCloseNowF]; assumption)
      | (simp only [trCloseF]; assumption) | (simp only [clearTransportF]; assumption)
      | (simp only [candFail]; exact nd_candCleanup _ (by assumption)) | (simp only [sockOnClose]; assumption)
  | succ f ih =>
    obtain ⟨iEC, iOE, iCB, iPC, iRF, iWN, iTC, iCT, iCF, iSC⟩ := ih
    refine ⟨?_, ?_, ?_, ?_, ?_, ?_, ?_, ?_, ?_, ?_⟩
    · intro w0 w ti h
      rw [trEmitClose]; split
      · exact iSC _ _ _ _ (by decide) h
      · exact iCF _ _ _ h
      · exact h
    · intro w0 w ti h
      rw [trOnErrorF]; split
      · exact iSC _ _ _ _ (by decide) h
      · exact iCF _ _ _ h
      · exact h
    · intro w0 w ti h
      rw [trOnCloseBaseF]; split
      · exact h
      · apply iEC; nd_prim
    · intro w0 w ti h
      rw [pollOnCloseF]
      apply iCB
      split <;> nd_prim
    · intro w0 w ti h
      rw [runCloseFnF]
      try dsimp only
      split
      · refine iSC _ _ _ _ (by decide) ?_; nd_prim
      · nd_prim
    · intro w0 w ti h
      rw [wsCloseNowF]
      try dsimp only
      apply iCB; apply nd_setConn; apply iRF; nd_prim
    · intro w0 w ti fn h
      rw [trCloseF]
      try dsimp only
      split
      · exact h
      · have h1 : ND w0 (w.setTr ti fun t => { t with rs := .closing, closeFn := fn }) := by nd_prim
        split
        · have h2 := nd_abortData (w.tr ti).dataReq h1
          split
          · apply iPC; apply iRF; nd_prim
          · split
            · apply iPC; apply iRF; exact h2
            · nd_prim
        · split
          · exact iWN _ _ _ h1
          · nd_prim
    · intro w0 w sid h
      rw [clearTransportF]
      try dsimp only
      apply nd_setSock; apply iTC; nd_prim
    · intro w0 w sid h
      rw [candFail]
      split
      · exact h
      · apply iTC; exact nd_candCleanup _ h
    · intro w0 w sid r hr h
      rw [sockOnClose]
      split
      · exact h
      · try dsimp only
        apply nd_setSock; apply iCF; refine nd_sev _ _ ?_ (isUndoc_close_false _ hr)
        refine nd_same _ (iCT _ _ _ (nd_setSock _ _ h)) rfl rfl


theorem nd_trOnError {w0 w : World} (ti : Nat) (h : ND w0 w) : ND w0 (trOnError w ti) := (nd_close_all closeFuel).2.1 _ _ _ h
theorem nd_trOnCloseBase {w0 w : World} (ti : Nat) (h : ND w0 w) : ND w0 (trOnCloseBase w ti) := (nd_close_all closeFuel).2.2.1 _ _ _ h
theorem nd_pollOnClose {w0 w : World} (ti : Nat) (h : ND w0 w) : ND w0 (pollOnClose w ti) := (nd_close_all closeFuel).2.2.2.1 _ _ _ h
theorem nd_runCloseFn {w0 w : World} (ti : Nat) (h : ND w0 w) : ND w0 (runCloseFn w ti) := (nd_close_all closeFuel).2.2.2.2.1 _ _ _ h
theorem nd_wsCloseNow {w0 w : World} (ti : Nat) (h : ND w0 w) : ND w0 (wsCloseNow w ti) := (nd_close_all closeFuel).2.2.2.2.2.1 _ _ _ h
theorem nd_trClose {w0 w : World} (ti : Nat) (fn : Option Nat) (h : ND w0 w) : ND w0 (trClose w ti fn) :=
  (nd_close_all closeFuel).2.2.2.2.2.2.1 _ _ _ _ h
theorem nd_clearTransport {w0 w : World} (sid : Nat) (h : ND w0 w) : ND w0 (clearTransport w sid) :=
  (nd_close_all closeFuel).2.2.2.2.2.2.2.1 _ _ _ h
theorem nd_sockOnClose {w0 w : World} (f : Nat) (sid : Nat) (r : String) (hr : r ∈ docReasons) (h : ND w0 w) : ND w0 (sockOnClose f w sid r) :=
  (nd_close_all f).2.2.2.2.2.2.2.2.2 _ _ _ _ hr h

macro "nd_auto" : tactic => `(tactic| repeat (first
  | with_reducible assumption
  | with_reducible apply nd_ev | (with_reducible refine nd_sev _ _ ?_ rfl) | with_reducible apply nd_answer
  | with_reducible apply nd_trSend | with_reducible apply nd_setConn
  | with_reducible apply nd_abortData | with_reducible apply nd_setSock
  | with_reducible apply nd_trOnError | with_reducible apply nd_trOnCloseBase | with_reducible apply nd_pollOnClose
  | with_reducible apply nd_runCloseFn | with_reducible apply nd_wsCloseNow | with_reducible apply nd_trClose
  | with_reducible apply nd_clearTransport | with_reducible apply nd_candCleanup | (with_reducible refine nd_sockOnClose _ _ _ (by decide) ?_)
  | with_reducible apply nd_setReq | with_reducible apply nd_setTr))

/-! ### everything else -/

theorem nd_closeTransportF {w0 w : World} (f : Nat) (sid : Nat) (d : Bool) (h : ND w0 w) : ND w0 (closeTransportF f w sid d) := by
  cases f with
  | zero => simpa [closeTransportF] using h
  | succ f =>
    rw [closeTransportF]
    try dsimp only
    have h1 : ND w0 (if d = true then w.setTr (w.sock sid).tr fun t => { t with discarded := true } else w) := by
      split
      · nd_auto
      · exact h
    generalize (if d = true then w.setTr (w.sock sid).tr fun t => { t with discarded := true } else w) = w1 at h1 ⊢
    split
    · exact nd_sockOnClose _ _ _ (by decide) h1
    · exact nd_trClose _ _ h1

theorem nd_flushF {w0 w : World} (f : Nat) (sid : Nat) (h : ND w0 w) : ND w0 (flushF f w sid) := by
  cases f with
  | zero => simpa [flushF] using h
  | succ f =>
    rw [flushF]
    try dsimp only
    split
    · exact h
    · apply nd_ev
      split
      · apply nd_closeTransportF; nd_auto
      · nd_auto

theorem nd_flush {w0 w : World} (sid : Nat) (h : ND w0 w) : ND w0 (flush w sid) := nd_flushF _ sid h
theorem nd_closeTransport {w0 w : World} (sid : Nat) (d : Bool) (h : ND w0 w) : ND w0 (closeTransport w sid d) := nd_closeTransportF _ sid d h

theorem nd_sendPacket {w0 w : World} (sid : Nat) (pk : Pkt) (cb : Option Nat) (h : ND w0 w) : ND w0 (sendPacket w sid pk cb) := by
  unfold sendPacket
  try dsimp only
  split
  · exact h
  · apply nd_flush; nd_auto

theorem nd_cbs {w0 w : World} (sid : Nat) (cbs : List Nat) (h : ND w0 w) : ND w0 (cbs.foldl (fun w id => w.sev sid (.cb id)) w) := by
  induction cbs generalizing w with
  | nil => exact h
  | cons id rest ih => simp only [List.foldl_cons]; exact ih (nd_sev _ _ h rfl)

theorem nd_sockOnDrain {w0 w : World} (sid : Nat) (h : ND w0 w) : ND w0 (sockOnDrain w sid) := by
  unfold sockOnDrain
  split
  · exact h
  · apply nd_cbs; nd_auto

theorem nd_trEmitDrain {w0 w : World} (ti : Nat) (h : ND w0 w) : ND w0 (trEmitDrain w ti) := by
  unfold trEmitDrain
  try dsimp only
  split
  · split
    · exact nd_wsCloseNow _ (nd_sockOnDrain _ h)
    · exact nd_sockOnDrain _ h
  · split
    · exact nd_wsCloseNow _ h
    · exact h

theorem nd_trEmitReady {w0 w : World} (ti : Nat) (h : ND w0 w) : ND w0 (trEmitReady w ti) := by
  unfold trEmitReady
  split
  · exact nd_flush _ h
  · exact h

theorem nd_doUpgrade {w0 w : World} (sid newTr : Nat) (h : ND w0 w) : ND w0 (doUpgrade w sid newTr) := by
  unfold doUpgrade
  try dsimp only
  have h1 := nd_candCleanup sid h
  generalize candCleanup w sid = wa at h1 ⊢
  have h2 : ND w0 (flush (((((clearTransport ((wa.setTr (wa.sock sid).tr fun t => { t with discarded := true }).setSock sid fun s => { s with upgraded := true }) sid).setSock sid
      fun s => { s with tr := newTr }).setTr newTr fun t => { t with role := .current sid })).sev sid .upgrade) sid) := by
    apply nd_flush; nd_auto
  split
  · exact nd_trClose _ _ h2
  · exact h2

theorem nd_candOnPacket {w0 w : World} (sid : Nat) (pk : Pkt) (h : ND w0 w) : ND w0 (candOnPacket w sid pk) := by
  unfold candOnPacket
  split
  · exact h
  · split
    · try dsimp only
      nd_auto
    · split
      · exact nd_doUpgrade _ _ h
      · nd_auto

theorem nd_sockOnPacket {w0 w : World} (sid : Nat) (pk : Pkt) (h : ND w0 w) : ND w0 (sockOnPacket w sid pk) := by
  unfold sockOnPacket
  try dsimp only
  split
  · exact h
  · split
    · split
      · nd_auto
      · refine nd_sev _ _ ?_ rfl; apply nd_sendPacket; nd_auto
    · split
      · nd_auto
      · nd_auto
    · nd_auto
    · nd_auto
    · nd_auto

theorem nd_trEmitPacket {w0 w : World} (ti : Nat) (pk : Pkt) (h : ND w0 w) : ND w0 (trEmitPacket w ti pk) := by
  unfold trEmitPacket
  split
  · exact nd_sockOnPacket _ _ h
  · exact nd_candOnPacket _ _ h
  · exact h

theorem nd_emitHeaders {w0 w : World} (ti r : Nat) (h : ND w0 w) : ND w0 (emitHeaders w ti r) := by
  unfold emitHeaders
  try dsimp only
  repeat (first | with_reducible assumption | with_reducible apply nd_ev | with_reducible apply nd_setReq | split)

theorem nd_rejectReq {w0 w : World} (r code : Nat) (msg : String) (h : ND w0 w) : ND w0 (rejectReq w r code msg) := by
  unfold rejectReq; nd_auto

theorem nd_wsSendLoop {w0 w : World} (ti : Nat) (batch : List Pkt) (h : ND w0 w) : ND w0 (wsSendLoop ti batch w) := by
  induction batch generalizing w with
  | nil => exact h
  | cons pk rest ih =>
    rw [wsSendLoop]
    try dsimp only
    split
    · apply ih; unfold wsPut; nd_auto
    · apply ih; nd_auto

theorem nd_pollDeliver {w0 w : World} (ti : Nat) (pkts : List Pkt) (h : ND w0 w) : ND w0 (pollDeliver ti pkts w) := by
  induction pkts generalizing w with
  | nil => simpa [pollDeliver] using h
  | cons pk rest ih =>
    rw [pollDeliver]
    split
    · exact nd_pollOnClose _ h
    · exact ih (nd_trEmitPacket _ _ h)

theorem nd_pollOnData {w0 w : World} (ti : Nat) (body : Bytes) (binary : Bool) (h : ND w0 w) : ND w0 (pollOnData w ti body binary).1 := by
  unfold pollOnData
  split
  · exact nd_pollDeliver _ _ h
  · exact h
  · exact nd_fields _ h

theorem nd_postReq {w0 w : World} (sid : Nat) (binary declared : Bool) (body : Bytes) (vj : Bool) (h : ND w0 w) :
    ND w0 (postReq w sid binary declared body vj) := by
  unfold postReq; try dsimp only
  repeat (first
    | with_reducible assumption
    | with_reducible apply nd_rejectReq | with_reducible apply nd_emitHeaders | with_reducible apply nd_pollOnData
    | with_reducible apply nd_answer | with_reducible apply nd_trOnError | with_reducible apply nd_pushReq
    | with_reducible apply nd_setReq
    | with_reducible apply nd_setTr
    | dsimp only
    | split)

theorem nd_wsFrame {w0 w : World} (c : Nat) (m : Msg) (h : ND w0 w) : ND w0 (wsFrame w c m).1 := by
  unfold wsFrame
  try dsimp only
  split
  · exact h
  · split
    · exact h
    · split
      · dsimp only; nd_auto
      · dsimp only
        split <;> exact nd_trEmitPacket _ _ h

theorem nd_wsDrop {w0 w : World} (c : Nat) (h : ND w0 w) : ND w0 (wsDrop w c) := by
  unfold wsDrop
  try dsimp only
  split
  · nd_auto
  · split <;> (try split) <;> nd_auto

theorem nd_appClose {w0 w : World} (sid : Nat) (discard : Bool) (h : ND w0 w) : ND w0 (appClose w sid discard) := by
  unfold appClose
  try dsimp only
  split
  · exact nd_closeTransport _ _ h
  · split
    · exact h
    · split
      · nd_auto
      · exact nd_closeTransport _ _ (nd_setSock _ _ h)

theorem nd_shutdownFold {w0 w : World} (reg : List Nat) (h : ND w0 w) : ND w0 (reg.foldl (fun w sid => appClose w sid true) w) := by
  induction reg generalizing w with
  | nil => exact h
  | cons sid rest ih => simp only [List.foldl_cons]; exact ih (nd_appClose _ _ h)

theorem nd_appSend {w0 w : World} (sid : Nat) (m : Msg) (compress wantCb : Bool) (pre : Option Msg) (h : ND w0 w) :
    ND w0 (appSend w sid m compress wantCb pre) := by
  unfold appSend
  try dsimp only
  apply nd_sendPacket
  split
  · exact nd_fields _ h
  · exact h

theorem nd_fireTimer {w0 w : World} (id : TimerId) (h : ND w0 w) : ND w0 (fireTimer w id) := by
  cases id with
  | pingInterval sid => simp only [fireTimer]; apply nd_setSock; apply nd_sendPacket; nd_auto
  | pingTimeout sid =>
    simp only [fireTimer]
    split <;> nd_auto
  | closeTimer ti =>
    simp only [fireTimer]
    split <;> nd_auto
  | upgradeTimeout sid =>
    simp only [fireTimer]
    split
    · split <;> nd_auto
    · exact h
  | check sid =>
    simp only [fireTimer]
    split
    · split <;> nd_auto
    · exact h

theorem nd_advance {w0 w : World} (f target : Nat) (h : ND w0 w) : ND w0 (advance f w target) := by
  induction f generalizing w with
  | zero => simp only [advance]; exact nd_fields _ h
  | succ f ih =>
    rw [advance]
    split
    · exact ih (nd_fireTimer _ (nd_fields _ h))
    · exact nd_fields _ h

theorem nd_foldl {w0 w : World} (is : List Nat) (g : World → Nat → World)
    (hg : ∀ w i, ND w0 w → ND w0 (g w i)) (h : ND w0 w) : ND w0 (is.foldl g w) := by
  induction is generalizing w with
  | nil => exact h
  | cons i rest ih => simp only [List.foldl_cons]; exact ih (hg _ _ h)

theorem nd_observe {w0 w : World} (h : ND w0 w) : ND w0 (observe w) := by
  unfold observe
  try dsimp only
  apply nd_foldl
  · intro w i h; exact nd_setConn _ _ h
  · apply nd_foldl
    · intro w i h
      split
      · exact nd_setReq _ _ h
      · exact h
    · exact nd_fields _ h



theorem nd_onPollRequest {w0 w : World} (ti r : Nat) (h : ND w0 w) : ND w0 (onPollRequest w ti r) := by
  unfold onPollRequest
  try dsimp only
  split
  · nd_auto
  · split
    · apply nd_trSend; apply nd_trEmitReady; nd_auto
    · apply nd_trEmitReady; nd_auto

theorem nd_openPackets {w0 w : World} (sid : Nat) (nm : String) (h : ND w0 w) : ND w0 (openPackets w sid nm) := by
  unfold openPackets
  try dsimp only
  split
  · exact nd_sendPacket _ _ _ (nd_sendPacket _ _ _ h)
  · exact nd_sendPacket _ _ _ h

theorem nd_pollReq {w0 w : World} (sid : Nat) (ae : Bytes) (h : ND w0 w) : ND w0 (pollReq w sid ae) := by
  unfold pollReq
  try dsimp only
  split
  · exact nd_rejectReq _ _ _ (nd_pushReq _ h)
  · split
    · exact nd_rejectReq _ _ _ (nd_pushReq _ h)
    · exact nd_onPollRequest _ _ (nd_pushReq _ h)

theorem nd_abortReq {w0 w : World} (r : Nat) (h : ND w0 w) : ND w0 (abortReq w r) := by
  unfold abortReq
  try dsimp only
  split
  · exact h
  · split
    · split <;> nd_auto
    · nd_auto

theorem nd_wsCandidate {w0 w : World} (sid proto : Nat) (b64 : Bool) (h : ND w0 w) : ND w0 (wsCandidate w sid proto b64) := by
  unfold wsCandidate
  try dsimp only
  have h0 : ND w0 ({ w with conns := w.conns.push {} } : World) := nd_fields _ h
  split
  · nd_auto
  · split
    · nd_auto
    · split
      · nd_auto
      · apply nd_setSock
        exact nd_fields (w := ({ w with conns := w.conns.push {} } : World)) _ h0

theorem nd_wtCandidate {w0 w : World} (sid : Nat) (h : ND w0 w) : ND w0 (wtCandidate w sid) := by
  unfold wtCandidate
  try dsimp only
  have h0 : ND w0 ({ w with conns := w.conns.push { wt := true } } : World) := nd_fields _ h
  split
  · nd_auto
  · split
    · nd_auto
    · apply nd_setSock
      exact nd_fields (w := ({ w with conns := w.conns.push { wt := true } } : World)) _ h0

theorem nd_runPollSend {w0 w : World} (ti : Nat) (batch : List Pkt) (h : ND w0 w) : ND w0 (runPollSend w ti batch) := by
  unfold runPollSend
  try dsimp only
  have h1 : ND w0 (if (w.tr ti).shouldClose = true then
      pollOnClose (runCloseFn (w.setTr ti fun t => { t with shouldClose := false, closeTimerDue := none }) ti) ti else w) := by
    split
    · nd_auto
    · exact h
  generalize (if (w.tr ti).shouldClose = true then
      pollOnClose (runCloseFn (w.setTr ti fun t => { t with shouldClose := false, closeTimerDue := none }) ti) ti else w) = w1 at h1 ⊢
  split
  · nd_auto
  · apply nd_trEmitDrain; apply nd_answer; apply nd_emitHeaders; nd_auto

theorem nd_runWsSend {w0 w : World} (ti : Nat) (batch : List Pkt) (h : ND w0 w) : ND w0 (runWsSend w ti batch) := by
  unfold runWsSend
  try dsimp only
  exact nd_trEmitReady _ (nd_setTr _ _ (nd_trEmitDrain _ (nd_wsSendLoop ti batch h)))

theorem nd_settle {w0 w : World} (f : Nat) (h : ND w0 w) : ND w0 (settle f w) := by
  induction f generalizing w with
  | zero => exact h
  | succ f ih =>
    rw [settle]
    split
    · exact h
    · rename_i t rest _
      cases t with
      | pollSend ti b => exact ih (nd_runPollSend ti b (nd_fields _ h))
      | wsSend ti b => exact ih (nd_runWsSend ti b (nd_fields _ h))



/-- the step appended no `close` entry with an undocumented reason to the session log -/
def NDm (w w' : World) : Prop := ∃ added, w'.slog = w.slog ++ added ∧ ∀ e ∈ added, e.2.isUndoc = false

theorem ND.ndm {w w' : World} (h : ND w w') : NDm w w' := h.log
theorem NDm.refl (w : World) : NDm w w := ⟨[], by simp, fun _ h => by cases h⟩
theorem NDm.trans {a b c : World} (h1 : NDm a b) (h2 : NDm b c) : NDm a c := by
  obtain ⟨x, hx, px⟩ := h1
  obtain ⟨y, hy, py⟩ := h2
  refine ⟨x ++ y, by rw [hy, hx, List.append_assoc], fun e he => ?_⟩
  rcases List.mem_append.mp he with h | h
  · exact px e h
  · exact py e h

/-- a new session: the open packet (and a configured initial packet) are *sent*, the session is announced;
    no session is closed -/
theorem ndm_openSession (w : World) (ti proto : Nat) : NDm w (openSession w ti proto) := by
  unfold openSession
  try dsimp only
  generalize hcore : ((({ w with socks := w.socks.push { proto, tr := ti } } : World).setTr ti
      fun t => { t with role := .current w.socks.size, owner := w.socks.size }).setSock w.socks.size fun s => { s with rs := .open_ }) = wc
  have hlg : wc.slog = w.slog := by rw [← hcore]; rfl
  have c := nd_openPackets w.socks.size (w.tr ti).name (ND.refl wc)
  obtain ⟨pre, hpre, hn⟩ := c.log
  generalize openPackets wc w.socks.size (w.tr ti).name = wp at hpre ⊢
  unfold openAnnounce
  try dsimp only
  refine ⟨pre ++ [(w.socks.size, ?e)], ?hl, ?hn⟩
  case hl =>
    rw [slog_sev]
    show wp.slog ++ _ = _
    rw [hpre, hlg, List.append_assoc]
  case hn =>
    intro e he
    rcases List.mem_append.mp he with h | h
    · exact hn e h
    · simp at h; subst h; rfl

theorem ndm_hsPolling (w : World) (proto : Nat) (b64 : Bool) (j : Option Bytes) : NDm w (hsPolling w proto b64 j) := by
  unfold hsPolling
  try dsimp only
  split
  · exact (nd_rejectReq _ _ _ (nd_pushReq _ (ND.refl w))).ndm
  · split
    · exact (nd_rejectReq _ _ _ (nd_pushReq _ (ND.refl w))).ndm
    · refine NDm.trans ?_ (ndm_openSession _ _ _)
      exact (nd_onPollRequest _ _ (nd_fields (w := ({ w with reqs := w.reqs.push { hasSid := false } } : World)) _ (nd_pushReq _ (ND.refl w)))).ndm

theorem ndm_hsWebsocket (w : World) (proto : Nat) (b64 : Bool) : NDm w (hsWebsocket w proto b64) := by
  unfold hsWebsocket
  try dsimp only
  split
  · exact (nd_setConn _ _ (nd_fields _ (ND.refl w))).ndm
  · split
    · exact (nd_setConn _ _ (nd_ev _ (nd_fields _ (ND.refl w)))).ndm
    · refine NDm.trans ?_ (ndm_openSession _ _ _)
      exact (nd_fields (w := ({ w with conns := w.conns.push {} } : World)) _ (nd_fields _ (ND.refl w))).ndm

theorem ndm_hsWt (w : World) : NDm w (hsWt w) := by
  unfold hsWt
  try dsimp only
  refine NDm.trans ?_ (ndm_openSession _ _ _)
  exact (nd_fields (w := ({ w with conns := w.conns.push { wt := true } } : World)) _ (nd_fields _ (ND.refl w))).ndm


/-- every operation leaves the log without a `close` entry whose reason is not a documented one -/
theorem ndm_step (w : World) (op : Op) : NDm w (step w op) := by
  unfold step
  split
  · exact NDm.refl w
  · cases op with
    | hsPolling pr b j => exact ndm_hsPolling _ _ _ _
    | hsWebsocket pr b => exact ndm_hsWebsocket _ _ _
    | poll sid ae => exact (nd_pollReq _ _ (ND.refl w)).ndm
    | post sid bin decl body vj => exact (nd_postReq _ _ _ _ _ (ND.refl w)).ndm
    | abort r => exact (nd_abortReq _ (ND.refl w)).ndm
    | wsCandidate sid pr b => exact (nd_wsCandidate _ _ _ (ND.refl w)).ndm
    | hsWt => exact ndm_hsWt _
    | wtCandidate sid => exact (nd_wtCandidate _ (ND.refl w)).ndm
    | frame c m =>
      dsimp only
      repeat (first | exact NDm.refl w | exact (nd_wsFrame _ _ (ND.refl w)).ndm | split)
    | drop c => exact (nd_wsDrop _ (ND.refl w)).ndm
    | closeFrame c code => exact (nd_wsDrop _ (nd_setConn _ _ (ND.refl w))).ndm
    | send sid m c cb pre => exact (nd_appSend _ _ _ _ _ (ND.refl w)).ndm
    | close sid d => exact (nd_appClose _ _ (ND.refl w)).ndm
    | shutdown => exact (nd_shutdownFold _ (ND.refl w)).ndm
    | adv d => exact (nd_advance _ _ (ND.refl w)).ndm
    | settle => exact (nd_settle _ (ND.refl w)).ndm
    | observe => exact (nd_observe (ND.refl w)).ndm

end EIO.Ses
