import EIO.Lemmas.SesStep
/-
Steps that enter the accounts: a run of entries of one session (none of them a
close event) appended to the log together with one update of that session.
`acc_core` says what such a step must show to preserve the invariant; the
instances are packetCreate (sendPacket), flush (flush), the callbacks of a
drained batch (onDrain) and upgrade (MaybeUpgrade).
-/
namespace EIO.Ses
open EIO EIO.Codec

def entries (sid : Nat) (es : List SEv) : List (Nat × SEv) := es.map fun e => (sid, e)

@[simp] theorem entries_nil (sid : Nat) : entries sid [] = [] := rfl
@[simp] theorem entries_cons (sid : Nat) (e : SEv) (es : List SEv) : entries sid (e :: es) = (sid, e) :: entries sid es := rfl

theorem closeIn_append_noclose (j sid : Nat) (l : List (Nat × SEv)) (es : List SEv) (hes : ∀ e ∈ es, e.isClose = false) :
    closeIn j (l ++ entries sid es) ↔ closeIn j l := by
  rw [closeIn_append]
  constructor
  · rintro (h | ⟨x, hx, _, hc⟩)
    · exact h
    · unfold entries at hx
      obtain ⟨e, he, rfl⟩ := List.mem_map.mp hx
      rw [hes e he] at hc; cases hc
  · exact Or.inl

theorem logOK_append_ses (sid : Nat) (es : List SEv) (hes : ∀ e ∈ es, e.isClose = false) :
    ∀ l, LogOK l → ¬ closeIn sid l → LogOK (l ++ entries sid es) := by
  induction es with
  | nil => intro l h _; simpa using h
  | cons e es ih =>
    intro l h hn
    have he : e.isClose = false := hes e (List.mem_cons_self ..)
    have h1 : LogOK (l ++ [(sid, e)]) := logOK_snoc _ _ h (fun _ => hn)
    have hn1 : ¬ closeIn sid (l ++ [(sid, e)]) := by
      rw [closeIn_append, closeIn_single]; simp [hn, he]
    have := ih (fun x hx => hes x (List.mem_cons_of_mem _ hx)) _ h1 hn1
    simpa [List.append_assoc] using this

theorem histAt_snoc_other (j sid : Nat) (e : SEv) (l : List (Nat × SEv)) (hj : sid ≠ j) (h : HistAt j l) :
    HistAt j (l ++ [(sid, e)]) := by
  unfold HistAt upgradeCount at *
  simp only [proj_snoc_other _ j sid e l hj]
  exact h

theorem logHist_append_ses (sid : Nat) (es : List SEv) :
    ∀ l, LogHist l → (∀ k, HistAt sid (l ++ entries sid (es.take k))) → LogHist (l ++ entries sid es) := by
  induction es with
  | nil => intro l h _; simpa using h
  | cons e es ih =>
    intro l h hh
    have h1 : LogHist (l ++ [(sid, e)]) := by
      refine logHist_snoc _ _ h (fun j => ?_)
      by_cases hj : sid = j
      · subst hj; have := hh 1; simpa using this
      · exact histAt_snoc_other j sid e l hj (h l (List.prefix_refl _) j)
    have := ih _ h1 (fun k => by have := hh (k + 1); simpa [List.append_assoc] using this)
    simpa [List.append_assoc] using this

/-- right after a flush entry of `sid`, both queues are empty -/
def TightAt (sid : Nat) (l : List (Nat × SEv)) : Prop :=
  createdPkts sid l = flushedPkts sid l ∧ createdCbs sid l = flushedCbs sid l

theorem flushTight_snoc' (l : List (Nat × SEv)) (sid : Nat) (e : SEv) (h : FlushTight l)
    (hx : ∀ b c, e = SEv.flush b c → TightAt sid (l ++ [(sid, e)])) : FlushTight (l ++ [(sid, e)]) := by
  refine flushTight_snoc _ _ h (fun j b c hx' => ?_)
  have h1 : sid = j := by have := congrArg Prod.fst hx'; simpa using this
  have h2 : e = SEv.flush b c := by have := congrArg Prod.snd hx'; simpa using this
  subst h1
  exact hx b c h2

theorem flushTight_append_ses (sid : Nat) (es : List SEv) :
    ∀ l, FlushTight l → (∀ k b c, es[k]? = some (SEv.flush b c) → TightAt sid (l ++ entries sid (es.take (k + 1)))) →
      FlushTight (l ++ entries sid es) := by
  induction es with
  | nil => intro l h _; simpa using h
  | cons e es ih =>
    intro l h hh
    have h1 : FlushTight (l ++ [(sid, e)]) := by
      refine flushTight_snoc' _ _ _ h (fun b c he => ?_)
      have := hh 0 b c (by simp [he]); simpa using this
    have := ih _ h1 (fun k b c hk => by
      have := hh (k + 1) b c (by simpa using hk); simpa [List.append_assoc] using this)
    simpa [List.append_assoc] using this

theorem proj_append_other {α} (f : SEv → List α) (j sid : Nat) (es : List SEv) (hj : sid ≠ j) :
    ∀ l, proj f j (l ++ entries sid es) = proj f j l := by
  induction es with
  | nil => intro l; simp
  | cons e es ih =>
    intro l
    have h2 : l ++ entries sid (e :: es) = (l ++ [(sid, e)]) ++ entries sid es := by simp
    rw [h2, ih, proj_snoc_other _ _ _ _ _ hj]

theorem AccS.append_other {s : Sock} {j : Nat} {l : List (Nat × SEv)} (h : AccS s j l) (sid : Nat) (es : List SEv)
    (hj : sid ≠ j) : AccS s j (l ++ entries sid es) := by
  have key : ∀ {α} (f : SEv → List α), proj f j (l ++ entries sid es) = proj f j l :=
    fun f => proj_append_other f j sid es hj l
  obtain ⟨r1, e1, i1⟩ := h.pk
  obtain ⟨r2, e2, i2⟩ := h.cb
  obtain ⟨r3, e3, i3⟩ := h.run
  refine ⟨⟨r1, ?_, i1⟩, ⟨r2, ?_, i2⟩, ⟨r3, ?_, i3⟩, ?_⟩
  · show proj fCreatedPkt j _ = proj fFlushedPkt j _ ++ _; rw [key, key]; exact e1
  · show proj fCreatedCb j _ = proj fFlushedCb j _ ++ _; rw [key, key]; exact e2
  · show proj fFlushedCb j _ = proj fRanCb j _ ++ _; rw [key, key]; exact e3
  · unfold upgradeCount; rw [key]; exact h.up

/-- what a run of entries of session `sid` together with an update of that session must show -/
theorem acc_core (w w' : World) (sid : Nat) (es : List SEv) (i : Inv w)
    (hes : ∀ e ∈ es, e.isClose = false) (hnc : ¬ closedW w sid) (hsz : sid < w.socks.size)
    (size : w'.socks.size = w.socks.size)
    (other : ∀ j, j ≠ sid → w'.sock j = w.sock j)
    (hrs : (w'.sock sid).rs = (w.sock sid).rs)
    (hann : (w'.sock sid).announced = (w.sock sid).announced) (hproto : (w'.sock sid).proto = (w.sock sid).proto)
    (hok : SockOK (w'.sock sid))
    (hlog : w'.slog = w.slog ++ entries sid es)
    (hreg : w'.registry = w.registry) (hreqs : ReqsExt w w')
    (hacc : AccS (w'.sock sid) sid w'.slog)
    (hhist : ∀ k, HistAt sid (w.slog ++ entries sid (es.take k)))
    (htight : ∀ k b c, es[k]? = some (SEv.flush b c) → TightAt sid (w.slog ++ entries sid (es.take (k + 1)))) :
    Inv w' ∧ Ext w w' := by
  have hcw : ∀ j, closedW w' j ↔ closedW w j := fun j => by
    unfold closedW
    by_cases hj : j = sid
    · subst hj; rw [hrs]
    · rw [other j hj]
  have hci : ∀ j, closeIn j w'.slog ↔ closeIn j w.slog := fun j => by
    rw [hlog]; exact closeIn_append_noclose j sid _ es hes
  have hacc' : AccInv w' := by
    refine ⟨fun j => ?_, fun x hx hf => ?_, ?_, ?_⟩
    · by_cases hj : j = sid
      · subst hj; exact hacc
      · rw [other j hj, hlog]; exact (i.acc.ses j).append_other sid es (Ne.symm hj)
    · rw [hlog] at hx
      rw [size]
      rcases List.mem_append.mp hx with h | h
      · exact i.acc.fresh x h hf
      · unfold entries at h
        obtain ⟨e, _, rfl⟩ := List.mem_map.mp h
        exact hsz
    · rw [hlog]; exact logHist_append_ses sid es _ i.acc.hist hhist
    · rw [hlog]; exact flushTight_append_ses sid es _ i.acc.tight htight
  have hro : ∀ j ∈ w'.registry, (w'.sock j).rs ≠ .opening := by
    intro j hm
    rw [hreg] at hm
    by_cases hj : j = sid
    · subst hj; rw [hrs]; exact i.regOpen j hm
    · rw [other j hj]; exact i.regOpen j hm
  refine ⟨⟨?_, ?_, ?_, ?_, ?_, ?_, ?_, hacc', hro⟩, ⟨?_, ⟨_, hlog⟩, hreqs, Nat.le_of_eq size.symm, ?_, ?_, ?_⟩⟩
  · rw [hlog]
    exact logOK_append_ses sid es hes _ i.logOK (fun hc => hnc (i.logClosed sid hc))
  · intro j hc; exact (hcw j).mpr (i.logClosed j ((hci j).mp hc))
  · intro j hc; exact (hci j).mpr (i.closedLog j ((hcw j).mp hc))
  · intro j
    by_cases hj : j = sid
    · subst hj; exact hok
    · rw [other j hj]; exact i.sockOK j
  · intro j hm
    rw [hreg] at hm
    obtain ⟨a, b, c⟩ := i.regLive j hm
    refine ⟨fun hc => a ((hcw j).mp hc), by rw [size]; exact b, ?_⟩
    by_cases hj : j = sid
    · subst hj; rw [hann]; exact c
    · rw [other j hj]; exact c
  · rw [hreg]; exact i.regNodup
  · intro j ha
    have ha' : (w.sock j).announced = true := by
      by_cases hj : j = sid
      · subst hj; rw [hann] at ha; exact ha
      · rw [other j hj] at ha; exact ha
    rcases i.annReg j ha' with r | r
    · exact Or.inl (by rw [hreg]; exact r)
    · exact Or.inr ((hcw j).mpr r)
  · intro j
    by_cases hj : j = sid
    · subst hj; rw [hrs]; exact Nat.le_refl _
    · rw [other j hj]; exact Nat.le_refl _
  · intro j _
    by_cases hj : j = sid
    · subst hj; exact hproto
    · rw [other j hj]
  · intro j ha
    by_cases hj : j = sid
    · subst hj; rw [hann]; exact ha
    · rw [other j hj]; exact ha
  · intro j hm; rw [hreg] at hm; exact Or.inl hm

/-! ### a run of entries after one update of the session -/

theorem foldl_sev_slog (sid : Nat) (es : List SEv) : ∀ w : World,
    (es.foldl (fun w e => w.sev sid e) w).slog = w.slog ++ entries sid es := by
  induction es with
  | nil => intro w; simp
  | cons e es ih => intro w; simp [List.foldl_cons, ih, slog_sev, List.append_assoc]

theorem foldl_sev_socks (sid : Nat) (es : List SEv) : ∀ w : World, (es.foldl (fun w e => w.sev sid e) w).socks = w.socks := by
  induction es with
  | nil => intro w; rfl
  | cons e es ih => intro w; simp [List.foldl_cons, ih]

theorem foldl_sev_registry (sid : Nat) (es : List SEv) : ∀ w : World, (es.foldl (fun w e => w.sev sid e) w).registry = w.registry := by
  induction es with
  | nil => intro w; rfl
  | cons e es ih => intro w; simp [List.foldl_cons, ih]

theorem foldl_sev_reqs (sid : Nat) (es : List SEv) : ∀ w : World, (es.foldl (fun w e => w.sev sid e) w).reqs = w.reqs := by
  induction es with
  | nil => intro w; rfl
  | cons e es ih => intro w; simp [List.foldl_cons, ih]

theorem foldl_sev_sock (sid : Nat) (es : List SEv) (w : World) (j : Nat) : (es.foldl (fun w e => w.sev sid e) w).sock j = w.sock j := by
  unfold World.sock; rw [foldl_sev_socks]

/-- `setSock sid f` followed by the entries `es` of `sid` -/
theorem pres_accSteps (w : World) (sid : Nat) (es : List SEv) (f : Sock → Sock)
    (hes : ∀ e ∈ es, e.isClose = false) (hnc : ¬ closedW w sid) (hsz : sid < w.socks.size)
    (hrs : (f (w.sock sid)).rs = (w.sock sid).rs)
    (hann : (f (w.sock sid)).announced = (w.sock sid).announced) (hproto : (f (w.sock sid)).proto = (w.sock sid).proto)
    (hok : SockOK (w.sock sid) → SockOK (f (w.sock sid)))
    (hacc : AccS (w.sock sid) sid w.slog → AccS (f (w.sock sid)) sid (w.slog ++ entries sid es))
    (hhist : AccS (w.sock sid) sid w.slog → ∀ k, HistAt sid (w.slog ++ entries sid (es.take k)))
    (htight : AccS (w.sock sid) sid w.slog → ∀ k b c, es[k]? = some (SEv.flush b c) →
      TightAt sid (w.slog ++ entries sid (es.take (k + 1)))) :
    Pres w (es.foldl (fun w e => w.sev sid e) (w.setSock sid f)) := by
  intro i
  have hs : (es.foldl (fun w e => w.sev sid e) (w.setSock sid f)).sock sid = f (w.sock sid) := by
    rw [foldl_sev_sock, sock_setSock]; simp [hsz]
  have hl : (es.foldl (fun w e => w.sev sid e) (w.setSock sid f)).slog = w.slog ++ entries sid es := by
    rw [foldl_sev_slog]; rfl
  apply acc_core w _ sid es i hes hnc hsz
  · rw [foldl_sev_socks]; simp
  · intro j hj; rw [foldl_sev_sock, sock_setSock]; simp [Ne.symm hj]
  · rw [hs]; exact hrs
  · rw [hs]; exact hann
  · rw [hs]; exact hproto
  · rw [hs]; exact hok (i.sockOK sid)
  · exact hl
  · rw [foldl_sev_registry]; rfl
  · unfold ReqsExt; rw [foldl_sev_reqs]; exact ⟨Nat.le_refl _, fun _ _ h => h⟩
  · rw [hs, hl]; exact hacc (i.acc.ses sid)
  · exact hhist (i.acc.ses sid)
  · exact htight (i.acc.ses sid)

theorem pr_accSteps {w0 w : World} (sid : Nat) (es : List SEv) (f : Sock → Sock)
    (hes : ∀ e ∈ es, e.isClose = false) (hnc : ¬ closedW w sid) (hsz : sid < w.socks.size)
    (hrs : (f (w.sock sid)).rs = (w.sock sid).rs)
    (hann : (f (w.sock sid)).announced = (w.sock sid).announced) (hproto : (f (w.sock sid)).proto = (w.sock sid).proto)
    (hok : SockOK (w.sock sid) → SockOK (f (w.sock sid)))
    (hacc : AccS (w.sock sid) sid w.slog → AccS (f (w.sock sid)) sid (w.slog ++ entries sid es))
    (hhist : AccS (w.sock sid) sid w.slog → ∀ k, HistAt sid (w.slog ++ entries sid (es.take k)))
    (htight : AccS (w.sock sid) sid w.slog → ∀ k b c, es[k]? = some (SEv.flush b c) →
      TightAt sid (w.slog ++ entries sid (es.take (k + 1))))
    (h : Pres w0 w) : Pres w0 (es.foldl (fun w e => w.sev sid e) (w.setSock sid f)) :=
  h.trans (pres_accSteps w sid es f hes hnc hsz hrs hann hproto hok hacc hhist htight)

/-! ### reading the accounts after a run of entries -/

theorem proj_append_entries {α} (f : SEv → List α) (sid : Nat) (es : List SEv) :
    ∀ l, proj f sid (l ++ entries sid es) = proj f sid l ++ es.flatMap f := by
  induction es with
  | nil => intro l; simp
  | cons e es ih =>
    intro l
    have h2 : l ++ entries sid (e :: es) = (l ++ [(sid, e)]) ++ entries sid es := by simp
    rw [h2, ih, proj_snoc]; simp [List.append_assoc]

theorem proj_snoc_self {α} (f : SEv → List α) (sid : Nat) (e : SEv) (l : List (Nat × SEv)) :
    proj f sid (l ++ [(sid, e)]) = proj f sid l ++ f e := by
  rw [proj_snoc]; simp

/-- one entry: `HistAt` before and after is all `hhist` asks for -/
theorem hist_single (sid : Nat) (e : SEv) (l : List (Nat × SEv)) (h0 : HistAt sid l) (h1 : HistAt sid (l ++ [(sid, e)])) :
    ∀ k, HistAt sid (l ++ entries sid ([e].take k)) := by
  intro k
  cases k with
  | zero => simpa using h0
  | succ k => simpa using h1

/-- `setSock sid f` followed by one entry `e` of `sid` -/
theorem pr_accStep1 {w0 w : World} (sid : Nat) (e : SEv) (f : Sock → Sock)
    (he : e.isClose = false) (hnc : ¬ closedW w sid) (hsz : sid < w.socks.size)
    (hrs : (f (w.sock sid)).rs = (w.sock sid).rs)
    (hann : (f (w.sock sid)).announced = (w.sock sid).announced) (hproto : (f (w.sock sid)).proto = (w.sock sid).proto)
    (hok : SockOK (w.sock sid) → SockOK (f (w.sock sid)))
    (hacc : AccS (w.sock sid) sid w.slog → AccS (f (w.sock sid)) sid (w.slog ++ [(sid, e)]))
    (htight : AccS (w.sock sid) sid w.slog → ∀ b c, e = SEv.flush b c → TightAt sid (w.slog ++ [(sid, e)]))
    (h : Pres w0 w) : Pres w0 ((w.setSock sid f).sev sid e) := by
  have := pr_accSteps sid [e] f (by intro x hx; have : x = e := by simpa using hx
                                    subst this; exact he) hnc hsz hrs hann hproto hok
    (by intro a; simpa using hacc a)
    (fun a => hist_single sid e _ a.histAt (hacc a).histAt)
    (fun a k b c hk => by
      cases k with
      | zero => have : e = SEv.flush b c := by simpa using hk
                simpa using htight a b c this
      | succ k => simp at hk) h
  simpa using this

/-- the same step with the entry first, the update second -/
theorem sameView_sev_setSock (w : World) (sid : Nat) (e : SEv) (f : Sock → Sock) :
    SameView ((w.setSock sid f).sev sid e) ((w.sev sid e).setSock sid f) := by
  apply sameView_fields
  · show ((w.sev sid e).socks.modify sid f) = ((w.setSock sid f).sev sid e).socks
    rw [socks_sev, socks_sev]; rfl
  · rw [slog_setSock, slog_sev, slog_sev, slog_setSock]
  · rw [registry_setSock, registry_sev, registry_sev, registry_setSock]
  · rw [reqs_setSock, reqs_sev, reqs_sev, reqs_setSock]

theorem sameView_sev_congr {a b : World} (v : SameView a b) (sid : Nat) (e : SEv) : SameView (a.sev sid e) (b.sev sid e) := by
  refine ⟨by rw [socks_sev, socks_sev]; exact v.size, fun j => by rw [sock_sev, sock_sev]; exact v.sock j,
    by rw [slog_sev, slog_sev, v.slog], by rw [registry_sev, registry_sev]; exact v.registry, ?_⟩
  unfold ReqsExt; rw [reqs_sev, reqs_sev]; exact v.reqs

end EIO.Ses
