import EIO.Lemmas.Conn
/-
One `connection` entry per session, for every history: `step_conn`.
-/
namespace EIO.Ses
open EIO EIO.Codec

/-- the `connection` entries of session `sid` -/
def connEntries (sid : Nat) (l : List (Nat × SEv)) : List (Nat × SEv) := l.filter fun e => e.1 == sid && e.2.isConnection

structure ConnInv (w : World) : Prop where
  named : ∀ e ∈ w.slog, e.2.isConnection = true → e.1 < w.socks.size
  once : ∀ sid, (connEntries sid w.slog).length ≤ 1

theorem connEntries_append (sid : Nat) (a b : List (Nat × SEv)) : connEntries sid (a ++ b) = connEntries sid a ++ connEntries sid b := by
  unfold connEntries; rw [List.filter_append]

theorem connEntries_none (sid : Nat) (l : List (Nat × SEv)) (h : ∀ e ∈ l, e.2.isConnection = false) : connEntries sid l = [] := by
  unfold connEntries
  apply List.filter_eq_nil_iff.mpr
  intro e he hc
  have := h e he
  simp [this] at hc

theorem NC.conn {w w' : World} (c : NC w w') (i : ConnInv w) : ConnInv w' := by
  obtain ⟨added, hl, hn⟩ := c.log
  refine ⟨fun e he hc => ?_, fun sid => ?_⟩
  · rw [hl] at he
    rcases List.mem_append.mp he with h | h
    · rw [c.size]; exact i.named e h hc
    · rw [hn e h] at hc; cases hc
  · rw [hl, connEntries_append, connEntries_none sid added hn]; simpa using i.once sid

theorem nc_onPollRequest {w0 w : World} (ti r : Nat) (h : NC w0 w) : NC w0 (onPollRequest w ti r) := by
  unfold onPollRequest
  try dsimp only
  split
  · nc_auto
  · split
    · apply nc_trSend; apply nc_trEmitReady; nc_auto
    · apply nc_trEmitReady; nc_auto

theorem nc_openPackets {w0 w : World} (sid : Nat) (nm : String) (h : NC w0 w) : NC w0 (openPackets w sid nm) := by
  unfold openPackets
  try dsimp only
  split
  · exact nc_sendPacket _ _ _ (nc_sendPacket _ _ _ h)
  · exact nc_sendPacket _ _ _ h

/-- what `openSession` does to the log and the session table: one new record, whatever the open packets log (no
    `connection` entry), then the `connection` entry of the new session -/
theorem openSession_log (w : World) (ti proto : Nat) :
    (openSession w ti proto).socks.size = w.socks.size + 1 ∧
    ∃ pre e, (openSession w ti proto).slog = w.slog ++ pre ++ [(w.socks.size, e)] ∧ e.isConnection = true ∧
      ∀ x ∈ pre, x.2.isConnection = false := by
  unfold openSession
  try dsimp only
  generalize hcore : ((({ w with socks := w.socks.push { proto, tr := ti } } : World).setTr ti
      fun t => { t with role := .current w.socks.size, owner := w.socks.size }).setSock w.socks.size fun s => { s with rs := .open_ }) = wc
  have hsz : wc.socks.size = w.socks.size + 1 := by rw [← hcore]; simp
  have hlg : wc.slog = w.slog := by rw [← hcore]; rfl
  have c := nc_openPackets w.socks.size (w.tr ti).name (NC.refl wc)
  obtain ⟨pre, hpre, hn⟩ := c.log
  have hsz2 := c.size
  generalize openPackets wc w.socks.size (w.tr ti).name = wp at hpre hsz2 ⊢
  unfold openAnnounce
  try dsimp only
  refine ⟨?hs, pre, ?e, ?hl, ?he, hn⟩
  case hs => simp [hsz2, hsz]
  case hl =>
    rw [slog_sev]
    show wp.slog ++ _ = _
    rw [hpre, hlg]
  case he => rfl

theorem conn_openSession {w : World} (ti proto : Nat) (i : ConnInv w) : ConnInv (openSession w ti proto) := by
  obtain ⟨hsz, pre, e, hl, he, hn⟩ := openSession_log w ti proto
  refine ⟨fun x hx hc => ?_, fun sid => ?_⟩
  · rw [hl] at hx
    rw [hsz]
    rcases List.mem_append.mp hx with h | h
    · rcases List.mem_append.mp h with h | h
      · exact Nat.lt_succ_of_lt (i.named x h hc)
      · rw [hn x h] at hc; cases hc
    · have : x = (w.socks.size, e) := by simpa using h
      subst this; exact Nat.lt_succ_self _
  · rw [hl, connEntries_append, connEntries_append, connEntries_none sid pre hn]
    by_cases hs : sid = w.socks.size
    · subst hs
      have : connEntries w.socks.size w.slog = [] := by
        unfold connEntries
        apply List.filter_eq_nil_iff.mpr
        intro x hx hc
        have hc' : x.1 = w.socks.size ∧ x.2.isConnection = true := by simpa using hc
        have := i.named x hx hc'.2
        omega
      rw [this]
      simp [connEntries, he]
    · have : connEntries sid [(w.socks.size, e)] = [] := by
        unfold connEntries
        simp [Ne.symm hs]
      rw [this]; simpa using i.once sid

theorem conn_hsPolling {w : World} (proto : Nat) (b64 : Bool) (j : Option Bytes) (i : ConnInv w) : ConnInv (hsPolling w proto b64 j) := by
  unfold hsPolling
  try dsimp only
  split
  · exact (nc_rejectReq _ _ _ (nc_pushReq _ (NC.refl w))).conn i
  · split
    · exact (nc_rejectReq _ _ _ (nc_pushReq _ (NC.refl w))).conn i
    · apply conn_openSession
      refine (nc_onPollRequest _ _ (nc_fields (w := ({ w with reqs := w.reqs.push { hasSid := false } } : World)) _ (nc_pushReq _ (NC.refl w)))).conn i

theorem conn_hsWebsocket {w : World} (proto : Nat) (b64 : Bool) (i : ConnInv w) : ConnInv (hsWebsocket w proto b64) := by
  unfold hsWebsocket
  try dsimp only
  split
  · exact (nc_setConn _ _ (nc_fields _ (NC.refl w))).conn i
  · split
    · exact (nc_setConn _ _ (nc_ev _ (nc_fields _ (NC.refl w)))).conn i
    · apply conn_openSession
      exact (nc_fields (w := ({ w with conns := w.conns.push {} } : World)) _ (nc_fields _ (NC.refl w))).conn i

theorem conn_hsWt {w : World} (i : ConnInv w) : ConnInv (hsWt w) := by
  unfold hsWt
  try dsimp only
  apply conn_openSession
  exact (nc_fields (w := ({ w with conns := w.conns.push { wt := true } } : World)) _ (nc_fields _ (NC.refl w))).conn i

theorem nc_pollReq {w0 w : World} (sid : Nat) (ae : Bytes) (h : NC w0 w) : NC w0 (pollReq w sid ae) := by
  unfold pollReq
  try dsimp only
  split
  · exact nc_rejectReq _ _ _ (nc_pushReq _ h)
  · split
    · exact nc_rejectReq _ _ _ (nc_pushReq _ h)
    · exact nc_onPollRequest _ _ (nc_pushReq _ h)

theorem nc_abortReq {w0 w : World} (r : Nat) (h : NC w0 w) : NC w0 (abortReq w r) := by
  unfold abortReq
  try dsimp only
  split
  · exact h
  · split
    · split <;> nc_auto
    · nc_auto

theorem nc_wsCandidate {w0 w : World} (sid proto : Nat) (b64 : Bool) (h : NC w0 w) : NC w0 (wsCandidate w sid proto b64) := by
  unfold wsCandidate
  try dsimp only
  have h0 : NC w0 ({ w with conns := w.conns.push {} } : World) := nc_fields _ h
  split
  · nc_auto
  · split
    · nc_auto
    · split
      · nc_auto
      · apply nc_setSock
        exact nc_fields (w := ({ w with conns := w.conns.push {} } : World)) _ h0

theorem nc_wtCandidate {w0 w : World} (sid : Nat) (h : NC w0 w) : NC w0 (wtCandidate w sid) := by
  unfold wtCandidate
  try dsimp only
  have h0 : NC w0 ({ w with conns := w.conns.push { wt := true } } : World) := nc_fields _ h
  split
  · nc_auto
  · split
    · nc_auto
    · apply nc_setSock
      exact nc_fields (w := ({ w with conns := w.conns.push { wt := true } } : World)) _ h0

theorem nc_runPollSend {w0 w : World} (ti : Nat) (batch : List Pkt) (h : NC w0 w) : NC w0 (runPollSend w ti batch) := by
  unfold runPollSend
  try dsimp only
  have h1 : NC w0 (if (w.tr ti).shouldClose = true then
      pollOnClose (runCloseFn (w.setTr ti fun t => { t with shouldClose := false, closeTimerDue := none }) ti) ti else w) := by
    split
    · nc_auto
    · exact h
  generalize (if (w.tr ti).shouldClose = true then
      pollOnClose (runCloseFn (w.setTr ti fun t => { t with shouldClose := false, closeTimerDue := none }) ti) ti else w) = w1 at h1 ⊢
  split
  · nc_auto
  · apply nc_trEmitDrain; apply nc_answer; apply nc_emitHeaders; nc_auto

theorem nc_runWsSend {w0 w : World} (ti : Nat) (batch : List Pkt) (h : NC w0 w) : NC w0 (runWsSend w ti batch) := by
  unfold runWsSend
  try dsimp only
  exact nc_trEmitReady _ (nc_setTr _ _ (nc_trEmitDrain _ (nc_wsSendLoop ti batch h)))

theorem nc_settle {w0 w : World} (f : Nat) (h : NC w0 w) : NC w0 (settle f w) := by
  induction f generalizing w with
  | zero => exact h
  | succ f ih =>
    rw [settle]
    split
    · exact h
    · rename_i t rest _
      cases t with
      | pollSend ti b => exact ih (nc_runPollSend ti b (nc_fields _ h))
      | wsSend ti b => exact ih (nc_runWsSend ti b (nc_fields _ h))

/-- every operation keeps it -/
theorem step_conn (w : World) (op : Op) (i : ConnInv w) : ConnInv (step w op) := by
  unfold step
  split
  · exact i
  · cases op with
    | hsPolling pr b j => exact conn_hsPolling _ _ _ i
    | hsWebsocket pr b => exact conn_hsWebsocket _ _ i
    | poll sid ae => exact (nc_pollReq _ _ (NC.refl w)).conn i
    | post sid bin decl body vj => exact (nc_postReq _ _ _ _ _ (NC.refl w)).conn i
    | abort r => exact (nc_abortReq _ (NC.refl w)).conn i
    | wsCandidate sid pr b => exact (nc_wsCandidate _ _ _ (NC.refl w)).conn i
    | hsWt => exact conn_hsWt i
    | wtCandidate sid => exact (nc_wtCandidate _ (NC.refl w)).conn i
    | frame c m =>
      dsimp only
      repeat (first | exact i | exact (nc_wsFrame _ _ (NC.refl w)).conn i | split)
    | drop c => exact (nc_wsDrop _ (NC.refl w)).conn i
    | closeFrame c code => exact (nc_wsDrop _ (nc_setConn _ _ (NC.refl w))).conn i
    | send sid m c cb pre => exact (nc_appSend _ _ _ _ _ (NC.refl w)).conn i
    | close sid d => exact (nc_appClose _ _ (NC.refl w)).conn i
    | shutdown => exact (nc_shutdownFold _ (NC.refl w)).conn i
    | adv d => exact (nc_advance _ _ (NC.refl w)).conn i
    | settle => exact (nc_settle _ (NC.refl w)).conn i
    | observe => exact (nc_observe (NC.refl w)).conn i

theorem conn_init (o : Opts) : ConnInv (init o) := ⟨fun _ h => (by cases h), fun _ => (by simp [connEntries, init])⟩

end EIO.Ses
