import EIO.Lemmas.SesOps
/-
When the model records a hang of the process (`World.fault`): only in `pollOnData`, when the revision-3 *binary* payload
decoder spins (the known finding in the parser dependency). `NF w w'`: the step left `fault` as it was. Generated from
the `NC` chain (Conn.lean, ConnStep.lean) and the handshake lemmas of MsgHist.lean; the one repaired place is
`pollOnData`, which needs "the content is not binary".
-/
namespace EIO.Ses
open EIO EIO.Codec

def SEv.isNever2 : SEv → Bool := fun _ => false

structure NF (w w' : World) : Prop where
  fault : w'.fault = w.fault
  size : w'.socks.size = w.socks.size
  log : ∃ added, w'.slog = w.slog ++ added ∧ ∀ e ∈ added, e.2.isNever2 = false

theorem NF.refl (w : World) : NF w w := ⟨rfl, rfl, [], by simp, fun _ h => by cases h⟩
theorem NF.trans {a b c : World} (h1 : NF a b) (h2 : NF b c) : NF a c := by
  obtain ⟨x, hx, px⟩ := h1.log
  obtain ⟨y, hy, py⟩ := h2.log
  refine ⟨h2.fault.trans h1.fault, h2.size.trans h1.size, x ++ y, by rw [hy, hx, List.append_assoc], fun e he => ?_⟩
  rcases List.mem_append.mp he with h | h
  · exact px e h
  · exact py e h

theorem nf_same {w0 w : World} (w' : World) (h : NF w0 w) (hs : w'.socks = w.socks) (hl : w'.slog = w.slog) (ho : w'.fault = w.fault := by rfl) : NF w0 w' :=
  h.trans ⟨ho, by rw [hs], [], by simp [hl], fun _ h => by cases h⟩

theorem nf_setTr {w0 w : World} (i : Nat) (f : Tr → Tr) (h : NF w0 w) : NF w0 (w.setTr i f) := nf_same _ h rfl rfl
theorem nf_setSock {w0 w : World} (i : Nat) (f : Sock → Sock) (h : NF w0 w) : NF w0 (w.setSock i f) :=
  h.trans ⟨rfl, by simp, [], by simp, fun _ h => by cases h⟩
theorem nf_setConn {w0 w : World} (i : Nat) (f : Conn → Conn) (h : NF w0 w) : NF w0 (w.setConn i f) := nf_same _ h rfl rfl
theorem nf_setReq {w0 w : World} (i : Nat) (f : Req → Req) (h : NF w0 w) : NF w0 (w.setReq i f) := nf_same _ h rfl rfl
theorem nf_ev {w0 w : World} (s : String) (h : NF w0 w) : NF w0 (w.ev s) := nf_same _ h rfl rfl
theorem nf_sev {w0 w : World} (sid : Nat) (e : SEv) (h : NF w0 w) (he : e.isNever2 = false) : NF w0 (w.sev sid e) :=
  h.trans ⟨by unfold World.sev; dsimp only; split <;> rfl, by simp, [(sid, e)], by simp, fun x hx => by simp at hx; subst hx; exact he⟩
theorem nf_answer {w0 w : World} (r : Nat) (resp : Resp) (h : NF w0 w) : NF w0 (w.answer r resp) := by
  unfold World.answer; split
  · exact h
  · exact nf_setReq _ _ (nf_ev _ h)
theorem nf_abortData {w0 w : World} (d : Option Nat) (h : NF w0 w) : NF w0 (abortData w d) := by
  unfold abortData; split
  · exact nf_answer _ _ h
  · exact h
theorem nf_trSend {w0 w : World} (ti : Nat) (b : List Pkt) (h : NF w0 w) : NF w0 (trSend w ti b) := nf_same _ h rfl rfl
theorem nf_fields {w0 w : World} (w' : World) (h : NF w0 w) (h1 : w'.socks = w.socks := by rfl) (h2 : w'.slog = w.slog := by rfl) (h3 : w'.fault = w.fault := by rfl) : NF w0 w' :=
  nf_same w' h h1 h2 h3
theorem nf_pushReq {w0 w : World} (q : Req) (h : NF w0 w) : NF w0 ({ w with reqs := w.reqs.push q } : World) := nf_fields _ h

macro "nf_prim" : tactic => `(tactic| repeat (first
  | with_reducible assumption
  | with_reducible apply nf_ev | (with_reducible refine nf_sev _ _ ?_ rfl) | with_reducible apply nf_answer
  | with_reducible apply nf_trSend | with_reducible apply nf_setConn
  | with_reducible apply nf_abortData | with_reducible apply nf_setSock
  | with_reducible apply nf_setReq | with_reducible apply nf_setTr))

theorem nf_candCleanup {w0 w : World} (sid : Nat) (h : NF w0 w) : NF w0 (candCleanup w sid) := by
  unfold candCleanup
  split
  · exact h
  · nf_prim

theorem nf_close_all (f : Nat) :
    (∀ w0 w ti, NF w0 w → NF w0 (trEmitClose f w ti)) ∧
    (∀ w0 w ti, NF w0 w → NF w0 (trOnErrorF f w ti)) ∧
    (∀ w0 w ti, NF w0 w → NF w0 (trOnCloseBaseF f w ti)) ∧
    (∀ w0 w ti, NF w0 w → NF w0 (pollOnCloseF f w ti)) ∧
    (∀ w0 w ti, NF w0 w → NF w0 (runCloseFnF f w ti)) ∧
    (∀ w0 w ti, NF w0 w → NF w0 (wsCloseNowF f w ti)) ∧
    (∀ w0 w ti fn, NF w0 w → NF w0 (trCloseF f w ti fn)) ∧
    (∀ w0 w sid, NF w0 w → NF w0 (clearTransportF f w sid)) ∧
    (∀ w0 w sid, NF w0 w → NF w0 (candFail f w sid)) ∧
    (∀ w0 w sid r, NF w0 w → NF w0 (sockOnClose f w sid r)) := by
  induction f with
  | zero =>
    refine ⟨?_, ?_, ?_, ?_, ?_, ?_, ?_, ?_, ?_, ?_⟩ <;> intros <;>
      first
      | (simp only [trEmitClose]; assumption) | (simp only [trOnErrorF]; assumption) | (simp only [trOnCloseBaseF]; assumption)
      | (simp only [pollOnCloseF]; assumption) | (simp only [runCloseFnF]; assumption) | (simp only [wsCloseNowF]; assumption)
      | (simp only [trCloseF]; assumption) | (simp only [clearTransportF]; assumption)
      | (simp only [candFail]; exact nf_candCleanup _ (by assumption)) | (simp only [sockOnClose]; assumption)
  | succ f ih =>
    obtain ⟨iEC, iOE, iCB, iPC, iRF, iWN, iTC, iCT, iCF, iSC⟩ := ih
    refine ⟨?_, ?_, ?_, ?_, ?_, ?_, ?_, ?_, ?_, ?_⟩
    · intro w0 w ti h
      rw [trEmitClose]; split
      · exact iSC _ _ _ _ h
      · exact iCF _ _ _ h
      · exact h
    · intro w0 w ti h
      rw [trOnErrorF]; split
      · exact iSC _ _ _ _ h
      · exact iCF _ _ _ h
      · exact h
    · intro w0 w ti h
      rw [trOnCloseBaseF]; split
      · exact h
      · apply iEC; nf_prim
    · intro w0 w ti h
      rw [pollOnCloseF]
      apply iCB
      split <;> nf_prim
    · intro w0 w ti h
      rw [runCloseFnF]
      try dsimp only
      split
      · apply iSC; nf_prim
      · nf_prim
    · intro w0 w ti h
      rw [wsCloseNowF]
      try dsimp only
      apply iCB; apply nf_setConn; apply iRF; nf_prim
    · intro w0 w ti fn h
      rw [trCloseF]
      try dsimp only
      split
      · exact h
      · have h1 : NF w0 (w.setTr ti fun t => { t with rs := .closing, closeFn := fn }) := by nf_prim
        split
        · have h2 := nf_abortData (w.tr ti).dataReq h1
          split
          · apply iPC; apply iRF; nf_prim
          · split
            · apply iPC; apply iRF; exact h2
            · nf_prim
        · split
          · exact iWN _ _ _ h1
          · nf_prim
    · intro w0 w sid h
      rw [clearTransportF]
      try dsimp only
      apply nf_setSock; apply iTC; nf_prim
    · intro w0 w sid h
      rw [candFail]
      split
      · exact h
      · apply iTC; exact nf_candCleanup _ h
    · intro w0 w sid r h
      rw [sockOnClose]
      split
      · exact h
      · try dsimp only
        apply nf_setSock; apply iCF; refine nf_sev _ _ ?_ rfl
        refine nf_same _ (iCT _ _ _ (nf_setSock _ _ h)) rfl rfl


theorem nf_trOnError {w0 w : World} (ti : Nat) (h : NF w0 w) : NF w0 (trOnError w ti) := (nf_close_all closeFuel).2.1 _ _ _ h
theorem nf_trOnCloseBase {w0 w : World} (ti : Nat) (h : NF w0 w) : NF w0 (trOnCloseBase w ti) := (nf_close_all closeFuel).2.2.1 _ _ _ h
theorem nf_pollOnClose {w0 w : World} (ti : Nat) (h : NF w0 w) : NF w0 (pollOnClose w ti) := (nf_close_all closeFuel).2.2.2.1 _ _ _ h
theorem nf_runCloseFn {w0 w : World} (ti : Nat) (h : NF w0 w) : NF w0 (runCloseFn w ti) := (nf_close_all closeFuel).2.2.2.2.1 _ _ _ h
theorem nf_wsCloseNow {w0 w : World} (ti : Nat) (h : NF w0 w) : NF w0 (wsCloseNow w ti) := (nf_close_all closeFuel).2.2.2.2.2.1 _ _ _ h
theorem nf_trClose {w0 w : World} (ti : Nat) (fn : Option Nat) (h : NF w0 w) : NF w0 (trClose w ti fn) :=
  (nf_close_all closeFuel).2.2.2.2.2.2.1 _ _ _ _ h
theorem nf_clearTransport {w0 w : World} (sid : Nat) (h : NF w0 w) : NF w0 (clearTransport w sid) :=
  (nf_close_all closeFuel).2.2.2.2.2.2.2.1 _ _ _ h
theorem nf_sockOnClose {w0 w : World} (f : Nat) (sid : Nat) (r : String) (h : NF w0 w) : NF w0 (sockOnClose f w sid r) :=
  (nf_close_all f).2.2.2.2.2.2.2.2.2 _ _ _ _ h

macro "nf_auto" : tactic => `(tactic| repeat (first
  | with_reducible assumption
  | with_reducible apply nf_ev | (with_reducible refine nf_sev _ _ ?_ rfl) | with_reducible apply nf_answer
  | with_reducible apply nf_trSend | with_reducible apply nf_setConn
  | with_reducible apply nf_abortData | with_reducible apply nf_setSock
  | with_reducible apply nf_trOnError | with_reducible apply nf_trOnCloseBase | with_reducible apply nf_pollOnClose
  | with_reducible apply nf_runCloseFn | with_reducible apply nf_wsCloseNow | with_reducible apply nf_trClose
  | with_reducible apply nf_clearTransport | with_reducible apply nf_candCleanup | with_reducible apply nf_sockOnClose
  | with_reducible apply nf_setReq | with_reducible apply nf_setTr))

/-! ### everything else -/

theorem nf_closeTransportF {w0 w : World} (f : Nat) (sid : Nat) (d : Bool) (h : NF w0 w) : NF w0 (closeTransportF f w sid d) := by
  cases f with
  | zero => simpa [closeTransportF] using h
  | succ f =>
    rw [closeTransportF]
    try dsimp only
    have h1 : NF w0 (if d = true then w.setTr (w.sock sid).tr fun t => { t with discarded := true } else w) := by
      split
      · nf_auto
      · exact h
    generalize (if d = true then w.setTr (w.sock sid).tr fun t => { t with discarded := true } else w) = w1 at h1 ⊢
    split
    · exact nf_sockOnClose _ _ _ h1
    · exact nf_trClose _ _ h1

theorem nf_flushF {w0 w : World} (f : Nat) (sid : Nat) (h : NF w0 w) : NF w0 (flushF f w sid) := by
  cases f with
  | zero => simpa [flushF] using h
  | succ f =>
    rw [flushF]
    try dsimp only
    split
    · exact h
    · apply nf_ev
      split
      · apply nf_closeTransportF; nf_auto
      · nf_auto

theorem nf_flush {w0 w : World} (sid : Nat) (h : NF w0 w) : NF w0 (flush w sid) := nf_flushF _ sid h
theorem nf_closeTransport {w0 w : World} (sid : Nat) (d : Bool) (h : NF w0 w) : NF w0 (closeTransport w sid d) := nf_closeTransportF _ sid d h

theorem nf_sendPacket {w0 w : World} (sid : Nat) (pk : Pkt) (cb : Option Nat) (h : NF w0 w) : NF w0 (sendPacket w sid pk cb) := by
  unfold sendPacket
  try dsimp only
  split
  · exact h
  · apply nf_flush; nf_auto

theorem nf_cbs {w0 w : World} (sid : Nat) (cbs : List Nat) (h : NF w0 w) : NF w0 (cbs.foldl (fun w id => w.sev sid (.cb id)) w) := by
  induction cbs generalizing w with
  | nil => exact h
  | cons id rest ih => simp only [List.foldl_cons]; exact ih (nf_sev _ _ h rfl)

theorem nf_sockOnDrain {w0 w : World} (sid : Nat) (h : NF w0 w) : NF w0 (sockOnDrain w sid) := by
  unfold sockOnDrain
  split
  · exact h
  · apply nf_cbs; nf_auto

theorem nf_trEmitDrain {w0 w : World} (ti : Nat) (h : NF w0 w) : NF w0 (trEmitDrain w ti) := by
  unfold trEmitDrain
  try dsimp only
  split
  · split
    · exact nf_wsCloseNow _ (nf_sockOnDrain _ h)
    · exact nf_sockOnDrain _ h
  · split
    · exact nf_wsCloseNow _ h
    · exact h

theorem nf_trEmitReady {w0 w : World} (ti : Nat) (h : NF w0 w) : NF w0 (trEmitReady w ti) := by
  unfold trEmitReady
  split
  · exact nf_flush _ h
  · exact h

theorem nf_doUpgrade {w0 w : World} (sid newTr : Nat) (h : NF w0 w) : NF w0 (doUpgrade w sid newTr) := by
  unfold doUpgrade
  try dsimp only
  have h1 := nf_candCleanup sid h
  generalize candCleanup w sid = wa at h1 ⊢
  have h2 : NF w0 (flush (((((clearTransport ((wa.setTr (wa.sock sid).tr fun t => { t with discarded := true }).setSock sid fun s => { s with upgraded := true }) sid).setSock sid
      fun s => { s with tr := newTr }).setTr newTr fun t => { t with role := .current sid })).sev sid .upgrade) sid) := by
    apply nf_flush; nf_auto
  split
  · exact nf_trClose _ _ h2
  · exact h2

theorem nf_candOnPacket {w0 w : World} (sid : Nat) (pk : Pkt) (h : NF w0 w) : NF w0 (candOnPacket w sid pk) := by
  unfold candOnPacket
  split
  · exact h
  · split
    · try dsimp only
      nf_auto
    · split
      · exact nf_doUpgrade _ _ h
      · nf_auto

theorem nf_sockOnPacket {w0 w : World} (sid : Nat) (pk : Pkt) (h : NF w0 w) : NF w0 (sockOnPacket w sid pk) := by
  unfold sockOnPacket
  try dsimp only
  split
  · exact h
  · split
    · split
      · nf_auto
      · refine nf_sev _ _ ?_ rfl; apply nf_sendPacket; nf_auto
    · split
      · nf_auto
      · nf_auto
    · nf_auto
    · nf_auto
    · nf_auto

theorem nf_trEmitPacket {w0 w : World} (ti : Nat) (pk : Pkt) (h : NF w0 w) : NF w0 (trEmitPacket w ti pk) := by
  unfold trEmitPacket
  split
  · exact nf_sockOnPacket _ _ h
  · exact nf_candOnPacket _ _ h
  · exact h

theorem nf_emitHeaders {w0 w : World} (ti r : Nat) (h : NF w0 w) : NF w0 (emitHeaders w ti r) := by
  unfold emitHeaders
  try dsimp only
  repeat (first | with_reducible assumption | with_reducible apply nf_ev | with_reducible apply nf_setReq | split)

theorem nf_rejectReq {w0 w : World} (r code : Nat) (msg : String) (h : NF w0 w) : NF w0 (rejectReq w r code msg) := by
  unfold rejectReq; nf_auto

theorem nf_wsSendLoop {w0 w : World} (ti : Nat) (batch : List Pkt) (h : NF w0 w) : NF w0 (wsSendLoop ti batch w) := by
  induction batch generalizing w with
  | nil => exact h
  | cons pk rest ih =>
    rw [wsSendLoop]
    try dsimp only
    split
    · apply ih; unfold wsPut; nf_auto
    · apply ih; nf_auto

theorem nf_pollDeliver {w0 w : World} (ti : Nat) (pkts : List Pkt) (h : NF w0 w) : NF w0 (pollDeliver ti pkts w) := by
  induction pkts generalizing w with
  | nil => simpa [pollDeliver] using h
  | cons pk rest ih =>
    rw [pollDeliver]
    split
    · exact nf_pollOnClose _ h
    · exact ih (nf_trEmitPacket _ _ h)

theorem nf_pollOnData {w0 w : World} (ti : Nat) (body : Bytes) (binary : Bool) (hb : binary = false) (h : NF w0 w) :
    NF w0 (pollOnData w ti body binary).1 := by
  unfold pollOnData
  have hd : ∃ pk, pollDecode (w.tr ti) body binary = .ok pk := by
    unfold pollDecode; subst hb; split
    · exact ⟨_, rfl⟩
    · exact ⟨_, rfl⟩
  obtain ⟨pk, hpk⟩ := hd
  rw [hpk]
  exact nf_pollDeliver _ _ h

theorem nf_postReq {w0 w : World} (sid : Nat) (binary declared : Bool) (body : Bytes) (vj : Bool) (hb : binary = false) (h : NF w0 w) :
    NF w0 (postReq w sid binary declared body vj) := by
  unfold postReq; try dsimp only
  repeat (first
    | with_reducible assumption
    | with_reducible apply nf_rejectReq | with_reducible apply nf_emitHeaders | (with_reducible refine nf_pollOnData _ _ _ hb ?_)
    | with_reducible apply nf_answer | with_reducible apply nf_trOnError | with_reducible apply nf_pushReq
    | with_reducible apply nf_setReq
    | with_reducible apply nf_setTr
    | dsimp only
    | split)

theorem nf_wsFrame {w0 w : World} (c : Nat) (m : Msg) (h : NF w0 w) : NF w0 (wsFrame w c m).1 := by
  unfold wsFrame
  try dsimp only
  split
  · exact h
  · split
    · exact h
    · split
      · dsimp only; nf_auto
      · dsimp only
        split <;> exact nf_trEmitPacket _ _ h

theorem nf_wsDrop {w0 w : World} (c : Nat) (h : NF w0 w) : NF w0 (wsDrop w c) := by
  unfold wsDrop
  try dsimp only
  split
  · nf_auto
  · split <;> (try split) <;> nf_auto

theorem nf_appClose {w0 w : World} (sid : Nat) (discard : Bool) (h : NF w0 w) : NF w0 (appClose w sid discard) := by
  unfold appClose
  try dsimp only
  split
  · exact nf_closeTransport _ _ h
  · split
    · exact h
    · split
      · nf_auto
      · exact nf_closeTransport _ _ (nf_setSock _ _ h)

theorem nf_shutdownFold {w0 w : World} (reg : List Nat) (h : NF w0 w) : NF w0 (reg.foldl (fun w sid => appClose w sid true) w) := by
  induction reg generalizing w with
  | nil => exact h
  | cons sid rest ih => simp only [List.foldl_cons]; exact ih (nf_appClose _ _ h)

theorem nf_appSend {w0 w : World} (sid : Nat) (m : Msg) (compress wantCb : Bool) (pre : Option Msg) (h : NF w0 w) :
    NF w0 (appSend w sid m compress wantCb pre) := by
  unfold appSend
  try dsimp only
  apply nf_sendPacket
  split
  · exact nf_fields _ h
  · exact h

theorem nf_fireTimer {w0 w : World} (id : TimerId) (h : NF w0 w) : NF w0 (fireTimer w id) := by
  cases id with
  | pingInterval sid => simp only [fireTimer]; apply nf_setSock; apply nf_sendPacket; nf_auto
  | pingTimeout sid =>
    simp only [fireTimer]
    split <;> nf_auto
  | closeTimer ti =>
    simp only [fireTimer]
    split <;> nf_auto
  | upgradeTimeout sid =>
    simp only [fireTimer]
    split
    · split <;> nf_auto
    · exact h
  | check sid =>
    simp only [fireTimer]
    split
    · split <;> nf_auto
    · exact h

theorem nf_advance {w0 w : World} (f target : Nat) (h : NF w0 w) : NF w0 (advance f w target) := by
  induction f generalizing w with
  | zero => simp only [advance]; exact nf_fields _ h
  | succ f ih =>
    rw [advance]
    split
    · exact ih (nf_fireTimer _ (nf_fields _ h))
    · exact nf_fields _ h

theorem nf_foldl {w0 w : World} (is : List Nat) (g : World → Nat → World)
    (hg : ∀ w i, NF w0 w → NF w0 (g w i)) (h : NF w0 w) : NF w0 (is.foldl g w) := by
  induction is generalizing w with
  | nil => exact h
  | cons i rest ih => simp only [List.foldl_cons]; exact ih (hg _ _ h)

theorem nf_observe {w0 w : World} (h : NF w0 w) : NF w0 (observe w) := by
  unfold observe
  try dsimp only
  apply nf_foldl
  · intro w i h; exact nf_setConn _ _ h
  · apply nf_foldl
    · intro w i h
      split
      · exact nf_setReq _ _ h
      · exact h
    · exact nf_fields _ h



theorem nf_onPollRequest {w0 w : World} (ti r : Nat) (h : NF w0 w) : NF w0 (onPollRequest w ti r) := by
  unfold onPollRequest
  try dsimp only
  split
  · nf_auto
  · split
    · apply nf_trSend; apply nf_trEmitReady; nf_auto
    · apply nf_trEmitReady; nf_auto

theorem nf_openPackets {w0 w : World} (sid : Nat) (nm : String) (h : NF w0 w) : NF w0 (openPackets w sid nm) := by
  unfold openPackets
  try dsimp only
  split
  · exact nf_sendPacket _ _ _ (nf_sendPacket _ _ _ h)
  · exact nf_sendPacket _ _ _ h

theorem nf_pollReq {w0 w : World} (sid : Nat) (ae : Bytes) (h : NF w0 w) : NF w0 (pollReq w sid ae) := by
  unfold pollReq
  try dsimp only
  split
  · exact nf_rejectReq _ _ _ (nf_pushReq _ h)
  · split
    · exact nf_rejectReq _ _ _ (nf_pushReq _ h)
    · exact nf_onPollRequest _ _ (nf_pushReq _ h)

theorem nf_abortReq {w0 w : World} (r : Nat) (h : NF w0 w) : NF w0 (abortReq w r) := by
  unfold abortReq
  try dsimp only
  split
  · exact h
  · split
    · split <;> nf_auto
    · nf_auto

theorem nf_wsCandidate {w0 w : World} (sid proto : Nat) (b64 : Bool) (h : NF w0 w) : NF w0 (wsCandidate w sid proto b64) := by
  unfold wsCandidate
  try dsimp only
  have h0 : NF w0 ({ w with conns := w.conns.push {} } : World) := nf_fields _ h
  split
  · nf_auto
  · split
    · nf_auto
    · split
      · nf_auto
      · apply nf_setSock
        exact nf_fields (w := ({ w with conns := w.conns.push {} } : World)) _ h0

theorem nf_wtCandidate {w0 w : World} (sid : Nat) (h : NF w0 w) : NF w0 (wtCandidate w sid) := by
  unfold wtCandidate
  try dsimp only
  have h0 : NF w0 ({ w with conns := w.conns.push { wt := true } } : World) := nf_fields _ h
  split
  · nf_auto
  · split
    · nf_auto
    · apply nf_setSock
      exact nf_fields (w := ({ w with conns := w.conns.push { wt := true } } : World)) _ h0

theorem nf_runPollSend {w0 w : World} (ti : Nat) (batch : List Pkt) (h : NF w0 w) : NF w0 (runPollSend w ti batch) := by
  unfold runPollSend
  try dsimp only
  have h1 : NF w0 (if (w.tr ti).shouldClose = true then
      pollOnClose (runCloseFn (w.setTr ti fun t => { t with shouldClose := false, closeTimerDue := none }) ti) ti else w) := by
    split
    · nf_auto
    · exact h
  generalize (if (w.tr ti).shouldClose = true then
      pollOnClose (runCloseFn (w.setTr ti fun t => { t with shouldClose := false, closeTimerDue := none }) ti) ti else w) = w1 at h1 ⊢
  split
  · nf_auto
  · apply nf_trEmitDrain; apply nf_answer; apply nf_emitHeaders; nf_auto

theorem nf_runWsSend {w0 w : World} (ti : Nat) (batch : List Pkt) (h : NF w0 w) : NF w0 (runWsSend w ti batch) := by
  unfold runWsSend
  try dsimp only
  exact nf_trEmitReady _ (nf_setTr _ _ (nf_trEmitDrain _ (nf_wsSendLoop ti batch h)))

theorem nf_settle {w0 w : World} (f : Nat) (h : NF w0 w) : NF w0 (settle f w) := by
  induction f generalizing w with
  | zero => exact h
  | succ f ih =>
    rw [settle]
    split
    · exact h
    · rename_i t rest _
      cases t with
      | pollSend ti b => exact ih (nf_runPollSend ti b (nf_fields _ h))
      | wsSend ti b => exact ih (nf_runWsSend ti b (nf_fields _ h))

/-- the step left `fault` as it was (no statement about the session table: for the handshakes) -/
def NFm (w w' : World) : Prop := w'.fault = w.fault

theorem NF.nfm {w w' : World} (h : NF w w') : NFm w w' := h.fault
theorem NFm.refl (w : World) : NFm w w := rfl
theorem NFm.trans {a b c : World} (h1 : NFm a b) (h2 : NFm b c) : NFm a c := Eq.trans h2 h1

theorem nfm_openSession (w : World) (ti proto : Nat) : NFm w (openSession w ti proto) := by
  unfold openSession
  try dsimp only
  generalize hcore : ((({ w with socks := w.socks.push { proto, tr := ti } } : World).setTr ti
      fun t => { t with role := .current w.socks.size, owner := w.socks.size }).setSock w.socks.size fun s => { s with rs := .open_ }) = wc
  have hf : wc.fault = w.fault := by rw [← hcore]; rfl
  have hc := (nf_openPackets w.socks.size (w.tr ti).name (NF.refl wc)).fault
  generalize openPackets wc w.socks.size (w.tr ti).name = wp at hc ⊢
  unfold openAnnounce
  try dsimp only
  unfold NFm
  rw [(nf_sev _ _ (NF.refl _) rfl).fault]
  exact hc.trans hf

theorem nfm_hsPolling (w : World) (proto : Nat) (b64 : Bool) (j : Option Bytes) : NFm w (hsPolling w proto b64 j) := by
  unfold hsPolling
  try dsimp only
  split
  · exact (nf_rejectReq _ _ _ (nf_pushReq _ (NF.refl w))).nfm
  · split
    · exact (nf_rejectReq _ _ _ (nf_pushReq _ (NF.refl w))).nfm
    · refine NFm.trans ?_ (nfm_openSession _ _ _)
      exact (nf_onPollRequest _ _ (nf_fields (w := ({ w with reqs := w.reqs.push { hasSid := false } } : World)) _ (nf_pushReq _ (NF.refl w)))).nfm

theorem nfm_hsWebsocket (w : World) (proto : Nat) (b64 : Bool) : NFm w (hsWebsocket w proto b64) := by
  unfold hsWebsocket
  try dsimp only
  split
  · exact (nf_setConn _ _ (nf_fields _ (NF.refl w))).nfm
  · split
    · exact (nf_setConn _ _ (nf_ev _ (nf_fields _ (NF.refl w)))).nfm
    · refine NFm.trans ?_ (nfm_openSession _ _ _)
      exact (nf_fields (w := ({ w with conns := w.conns.push {} } : World)) _ (nf_fields _ (NF.refl w))).nfm

theorem nfm_hsWt (w : World) : NFm w (hsWt w) := by
  unfold hsWt
  try dsimp only
  refine NFm.trans ?_ (nfm_openSession _ _ _)
  exact (nf_fields (w := ({ w with conns := w.conns.push { wt := true } } : World)) _ (nf_fields _ (NF.refl w))).nfm


end EIO.Ses
