import EIO.Model.WT
import EIO.Spec.WT
/- helper lemmas about the frame writer model -/
namespace EIO.WT
open EIO

theorem copyInto_fits (dst : Bytes) (a : Nat) (src : Bytes) (h : a + src.length ≤ dst.length) :
    (copyInto dst a src).1 = dst.take a ++ src ++ dst.drop (a + src.length) ∧
    (copyInto dst a src).2 = src.length := by
  unfold copyInto
  have hk : min (dst.length - a) src.length = src.length := by omega
  simp [hk]

theorem copyInto_length (dst : Bytes) (a : Nat) (src : Bytes) (ha : a ≤ dst.length) :
    (copyInto dst a src).1.length = dst.length := by
  unfold copyInto
  simp
  omega

theorem typeBit_text : typeBit .text = 0 := by decide
theorem typeBit_binary : typeBit .binary = 128 := by decide

theorem typeBit_eq (k : Kind) : typeBit k = Spec.kindBit k := by
  cases k <;> decide

theorem or_kindBit_small_aux : ∀ n, n < 128 →
    (UInt8.ofNat ((n % 256) ||| typeBit .text) = UInt8.ofNat (Spec.kindBit .text + n) ∧
     UInt8.ofNat ((n % 256) ||| typeBit .binary) = UInt8.ofNat (Spec.kindBit .binary + n)) := by
  decide

theorem or_kindBit_small (n : Nat) (h : n < 128) (k : Kind) :
    UInt8.ofNat ((n % 256) ||| typeBit k) = UInt8.ofNat (Spec.kindBit k + n) := by
  cases k
  · exact (or_kindBit_small_aux n h).1
  · exact (or_kindBit_small_aux n h).2

/-- the header area after `flushFrame` starts, from `framePos`, with exactly the
    specified header; the area keeps its size -/
theorem frameHeader_spec (hdr : Bytes) (k : Kind) (n : Nat) (h : hdr.length = 9) :
    (frameHeader hdr k n).1.drop (frameHeader hdr k n).2 = Spec.header k n ∧
    (frameHeader hdr k n).1.length = 9 := by
  unfold frameHeader Spec.header Spec.minimal
  simp only [thr64, thr16, pos16, pos8]
  by_cases h64 : n ≥ 65536
  · have h1 : ¬ n < 126 := by omega
    have h2 : ¬ n < 65536 := by omega
    simp only [h64, h1, h2, if_true, if_false, Spec.headerWith]
    have hf := copyInto_fits hdr 0 (UInt8.ofNat (127 ||| typeBit k) :: be 8 n) (by simp; omega)
    rw [hf.1]
    have hb : UInt8.ofNat (127 ||| typeBit k) = UInt8.ofNat (Spec.kindBit k + 127) := by
      cases k <;> decide
    simp [hb, h]
  · by_cases h16 : n > 125
    · have h1 : ¬ n < 126 := by omega
      have h2 : n < 65536 := by omega
      simp only [h64, h16, h1, h2, if_true, if_false, Spec.headerWith]
      have hf := copyInto_fits hdr 6 (UInt8.ofNat (126 ||| typeBit k) :: be 2 n) (by simp; omega)
      rw [hf.1]
      have hb : UInt8.ofNat (126 ||| typeBit k) = UInt8.ofNat (Spec.kindBit k + 126) := by
        cases k <;> decide
      have ht : (List.take 6 hdr).length = 6 := by simp; omega
      simp [hb, h, ht]
    · have h1 : n < 126 := by omega
      simp only [h64, h16, h1, if_true, if_false, Spec.headerWith]
      have hf := copyInto_fits hdr 8 [UInt8.ofNat ((n % 256) ||| typeBit k)] (by simp; omega)
      rw [hf.1]
      have hb := or_kindBit_small n (by omega) k
      have ht : (List.take 8 hdr).length = 8 := by simp; omega
      simp [hb, h, ht]

end EIO.WT

namespace EIO.WT
open EIO

/-- invariant of an open message writer: `data` is what has been buffered -/
structure MW.Inv (w : MW) (data : Bytes) : Prop where
  hdr : w.buf.hdr.length = 9
  le : w.p ≤ w.buf.body.length
  buffered : w.buf.body.take w.p = data

theorem MW.Inv.len {w : MW} {d : Bytes} (h : w.Inv d) : d.length = w.p := by
  have := congrArg List.length h.buffered
  simp at this
  have := h.le
  omega

/-- appending `src` at the write position, when it fits -/
theorem MW.Inv.append_fits {w : MW} {d : Bytes} (h : w.Inv d) (src : Bytes)
    (hfit : w.p + src.length ≤ w.buf.body.length) :
    MW.Inv { w with buf := { w.buf with body := (copyInto w.buf.body w.p src).1 },
                    p := w.p + src.length } (d ++ src) := by
  have hf := copyInto_fits w.buf.body w.p src hfit
  refine ⟨h.hdr, ?_, ?_⟩
  · show w.p + src.length ≤ (copyInto w.buf.body w.p src).1.length
    rw [copyInto_length _ _ _ h.le]; exact hfit
  · show List.take (w.p + src.length) (copyInto w.buf.body w.p src).1 = d ++ src
    rw [hf.1, ← h.buffered]
    have ht : (List.take w.p w.buf.body).length = w.p := by have := h.le; simp; omega
    rw [List.append_assoc, List.take_append, ht]
    simp [List.take_append, ht]
    have : List.take (w.p + src.length) (List.take w.p w.buf.body) = List.take w.p w.buf.body := by
      rw [List.take_take]; congr 1; omega
    rw [this]

theorem MW.grow_inv {w : MW} {d : Bytes} (h : w.Inv d) (n : Nat) :
    (w.grow n).Inv d ∧ (w.grow n).p = w.p ∧ (w.grow n).c = w.c ∧ (w.grow n).kind = w.kind ∧
    w.p + n ≤ (w.grow n).buf.body.length := by
  have hle := h.le
  have ht : (List.take w.p w.buf.body).length = w.p := by simp; omega
  refine ⟨⟨h.hdr, ?_, ?_⟩, rfl, rfl, rfl, ?_⟩
  · show w.p ≤ (List.take w.p w.buf.body ++ _).length
    simp; omega
  · show List.take w.p (List.take w.p w.buf.body ++ _) = d
    rw [List.take_append, ht]; simp [h.buffered]
    exact List.take_of_length_le (by rw [h.len]; exact Nat.le_refl _)
  · show w.p + n ≤ (List.take w.p w.buf.body ++ _).length
    simp only [List.length_append, ht, List.length_replicate, hdrMax]
    by_cases hc : 2 * (9 + List.length w.buf.body) < 9 + w.p + n <;> simp [hc] <;> omega

theorem MW.ncopy_spec {w : MW} {d : Bytes} (h : w.Inv d) (m : Nat) (hm : 0 < m) :
    (w.ncopy m).1.Inv d ∧ (w.ncopy m).1.p = w.p ∧ (w.ncopy m).1.c = w.c ∧
    (w.ncopy m).1.kind = w.kind ∧ 0 < (w.ncopy m).2 ∧ (w.ncopy m).2 ≤ m ∧
    w.p + (w.ncopy m).2 ≤ (w.ncopy m).1.buf.body.length := by
  unfold MW.ncopy
  by_cases hz : w.buf.body.length - w.p = 0
  · simp only [hz, if_true]
    obtain ⟨hi, hp, hc, hk, hl⟩ := MW.grow_inv h m
    refine ⟨hi, hp, hc, hk, ?_, ?_, ?_⟩ <;> (rw [hp]; split <;> omega)
  · simp only [hz, if_false]
    have := h.le
    refine ⟨h, trivial, trivial, trivial, ?_, ?_, ?_⟩ <;> (split <;> omega)

theorem MW.writeLoop_spec (fuel : Nat) : ∀ (w : MW) (p d : Bytes), p.length < fuel → w.Inv d →
    (MW.writeLoop fuel w p).Inv (d ++ p) ∧ (MW.writeLoop fuel w p).c = w.c ∧
    (MW.writeLoop fuel w p).kind = w.kind := by
  induction fuel with
  | zero => intro w p d h; omega
  | succ fuel ih =>
    intro w p d hf hi
    unfold MW.writeLoop
    by_cases hp : p.isEmpty
    · simp only [hp, if_true]
      have : p = [] := by simpa using hp
      subst this
      simpa using hi
    · simp only [hp]
      have hpl : 0 < p.length := by
        cases p with
        | nil => simp at hp
        | cons a t => simp
      obtain ⟨hi1, hp1, hc1, hk1, hn0, hnm, hfit⟩ := MW.ncopy_spec hi p.length hpl
      have hlen : (p.take (w.ncopy p.length).2).length = (w.ncopy p.length).2 := by
        simp; omega
      have hfit' : (w.ncopy p.length).1.p + (p.take (w.ncopy p.length).2).length ≤
          (w.ncopy p.length).1.buf.body.length := by rw [hlen, hp1]; exact hfit
      have hi2 := MW.Inv.append_fits hi1 (p.take (w.ncopy p.length).2) hfit'
      rw [hlen] at hi2
      have hdl : (p.drop (w.ncopy p.length).2).length < fuel := by simp; omega
      have := ih _ (p.drop (w.ncopy p.length).2) _ hdl hi2
      simp only [if_false, Bool.false_eq_true]
      refine ⟨?_, ?_, ?_⟩
      · have h1 := this.1
        rw [List.append_assoc, List.take_append_drop] at h1
        exact h1
      · rw [this.2.1]; exact hc1
      · rw [this.2.2]; exact hk1

theorem MW.write_spec {w : MW} {d : Bytes} (h : w.Inv d) (p : Bytes) :
    (w.write p).Inv (d ++ p) ∧ (w.write p).c = w.c ∧ (w.write p).kind = w.kind :=
  MW.writeLoop_spec _ w p d (by omega) h

theorem MW.writeAll_spec (chunks : List Bytes) : ∀ {w : MW} {d : Bytes}, w.Inv d →
    (chunks.foldl MW.write w).Inv (d ++ chunks.flatten) ∧ (chunks.foldl MW.write w).c = w.c ∧
    (chunks.foldl MW.write w).kind = w.kind := by
  induction chunks with
  | nil => intro w d h; simpa using h
  | cons ch rest ih =>
    intro w d h
    obtain ⟨h1, hc, hk⟩ := MW.write_spec h ch
    obtain ⟨h2, hc2, hk2⟩ := ih h1
    simp only [List.foldl_cons, List.flatten_cons]
    refine ⟨?_, ?_, ?_⟩
    · rw [← List.append_assoc]; exact h2
    · rw [hc2, hc]
    · rw [hk2, hk]

end EIO.WT

namespace EIO.WT
open EIO

/-- every buffer a connection owns (current or pooled) has a 9-byte header area -/
structure WConn.WF (c : WConn) : Prop where
  buf : ∀ b, c.buf = some b → b.hdr.length = 9
  pool : ∀ l, c.pool = some l → ∀ b ∈ l, b.hdr.length = 9

theorem WBuf.fresh_hdr (n : Nat) : (WBuf.fresh n).hdr.length = 9 := by
  simp [WBuf.fresh, hdrMax]

theorem WConn.new_wf (srv : Bool) (n : Nat) (pooled : Bool) (d : Nat) :
    (WConn.new srv n pooled d).WF := by
  unfold WConn.new
  constructor
  · intro b hb
    cases pooled <;> simp at hb
    subst hb; exact WBuf.fresh_hdr _
  · intro l hl
    cases pooled <;> simp at hl
    subst hl; simp

theorem beginMessage_spec (c : WConn) (k : Kind) (h : c.WF) :
    (beginMessage c k).Inv [] ∧ (beginMessage c k).kind = k ∧
    (beginMessage c k).c.out = c.out ∧ (beginMessage c k).c.WF ∧
    (beginMessage c k).c.isServer = c.isServer := by
  unfold beginMessage
  cases hb : c.buf with
  | some b =>
    simp only
    exact ⟨⟨h.buf b hb, Nat.zero_le _, by simp⟩, trivial, trivial, h, trivial⟩
  | none =>
    simp only
    cases hp : c.pool with
    | none =>
      simp only
      exact ⟨⟨WBuf.fresh_hdr _, Nat.zero_le _, by simp⟩, trivial, trivial, h, trivial⟩
    | some l =>
      cases l with
      | nil =>
        simp only
        exact ⟨⟨WBuf.fresh_hdr _, Nat.zero_le _, by simp⟩, trivial, trivial, h, trivial⟩
      | cons b rest =>
        simp only
        refine ⟨⟨h.pool _ hp b (by simp), Nat.zero_le _, by simp⟩, trivial, trivial, ?_, trivial⟩
        constructor
        · intro b' hb'; simp [hb] at hb'
        · intro l' hl' b' hb'
          simp at hl'; subst hl'
          exact h.pool _ hp b' (by simp [hb'])

theorem endMessage_spec (c : WConn) (b : WBuf) (h : c.WF) (hb : b.hdr.length = 9) :
    (endMessage c b).WF ∧ (endMessage c b).out = c.out ∧ (endMessage c b).isServer = c.isServer := by
  unfold endMessage
  cases hp : c.pool with
  | none =>
    simp only
    refine ⟨⟨?_, ?_⟩, trivial, trivial⟩
    · intro b' hb'; simp at hb'; subst hb'; exact hb
    · intro l hl; simp [hp] at hl
  | some l =>
    simp only
    refine ⟨⟨?_, ?_⟩, trivial, trivial⟩
    · intro b' hb'; simp at hb'
    · intro l' hl' b' hb'
      simp at hl'; subst hl'
      rcases List.mem_cons.mp hb' with rfl | hm
      · exact hb
      · exact h.pool _ hp b' hm

/-- what `Close` (or the one-shot path) puts on the wire: one spec frame -/
theorem MW.flushFinal_out {w : MW} {d : Bytes} (h : w.Inv d) (extra : Bytes) :
    (w.flushFinal extra).out =
      w.c.out ++ (Spec.header w.kind (d.length + extra.length) ++ d ++ extra) ∧
    (w.flushFinal extra).isServer = w.c.isServer := by
  unfold MW.flushFinal
  have hs := frameHeader_spec w.buf.hdr w.kind (w.p + extra.length) h.hdr
  simp only
  unfold endMessage
  rw [h.len]
  cases w.c.pool <;> simp [hs.1, h.buffered]

theorem MW.flushFinal_wf {w : MW} {d : Bytes} (h : w.Inv d) (extra : Bytes) (hc : w.c.WF) :
    (w.flushFinal extra).WF := by
  unfold MW.flushFinal
  have hs := frameHeader_spec w.buf.hdr w.kind (w.p + extra.length) h.hdr
  simp only
  unfold endMessage
  cases hp : w.c.pool with
  | none =>
    simp only
    constructor
    · intro b hb; simp at hb; subst hb; exact hs.2
    · intro l hl; simp [hp] at hl
  | some l =>
    simp only
    constructor
    · intro b hb; simp at hb
    · intro l' hl' b hb
      simp at hl'; subst hl'
      rcases List.mem_cons.mp hb with rfl | hm
      · exact hs.2
      · exact hc.pool _ hp b hm

end EIO.WT

namespace EIO.WT
open EIO

theorem totalLen_cons (ch : Bytes) (rest : List Bytes) :
    totalLen (ch :: rest) = ch.length + totalLen rest := by
  simp [totalLen]

theorem MW.readFromLoop_spec (fuel : Nat) : ∀ (w : MW) (chunks : List Bytes) (d : Bytes),
    totalLen chunks + chunks.length < fuel → w.Inv d →
    (MW.readFromLoop fuel w chunks).Inv (d ++ chunks.flatten) ∧
    (MW.readFromLoop fuel w chunks).c = w.c ∧ (MW.readFromLoop fuel w chunks).kind = w.kind := by
  induction fuel with
  | zero => intro w chunks d h; omega
  | succ fuel ih =>
    intro w chunks d hf hi
    cases chunks with
    | nil => unfold MW.readFromLoop; simpa using hi
    | cons ch rest =>
      unfold MW.readFromLoop
      rw [totalLen_cons] at hf
      simp only [List.length_cons] at hf
      -- the writer after the optional grow
      have hg : ∃ w1 : MW, w1 = (if w.p = w.buf.body.length then w.grow 1 else w) ∧ w1.Inv d ∧
          w1.p = w.p ∧ w1.c = w.c ∧ w1.kind = w.kind ∧ w1.p < w1.buf.body.length := by
        by_cases hfull : w.p = w.buf.body.length
        · obtain ⟨h1, h2, h3, h4, h5⟩ := MW.grow_inv hi 1
          exact ⟨w.grow 1, by simp [hfull], h1, h2, h3, h4, by omega⟩
        · have := hi.le
          exact ⟨w, by simp [hfull], hi, rfl, rfl, rfl, by omega⟩
      obtain ⟨w1, hw1, hi1, hp1, hc1, hk1, hlt⟩ := hg
      rw [← hw1]
      simp only
      have hnlen : (ch.take (min (w1.buf.body.length - w1.p) ch.length)).length =
          min (w1.buf.body.length - w1.p) ch.length := by simp
      have hfit : w1.p + (ch.take (min (w1.buf.body.length - w1.p) ch.length)).length ≤
          w1.buf.body.length := by rw [hnlen]; omega
      have hi2 := MW.Inv.append_fits hi1 _ hfit
      rw [hnlen] at hi2
      by_cases hall : ch.length ≤ min (w1.buf.body.length - w1.p) ch.length
      · simp only [hall, if_true]
        have htk : ch.take (min (w1.buf.body.length - w1.p) ch.length) = ch :=
          List.take_of_length_le hall
        have := ih _ rest _ (by omega) hi2
        have hd : d ++ List.take (min (w1.buf.body.length - w1.p) ch.length) ch ++ rest.flatten =
            d ++ (ch :: rest).flatten := by rw [htk]; simp
        refine ⟨?_, ?_, ?_⟩
        · have h1 := this.1
          rw [hd] at h1
          exact h1
        · rw [this.2.1]; exact hc1
        · rw [this.2.2]; exact hk1
      · simp only [hall, if_false]
        have hn1 : 0 < min (w1.buf.body.length - w1.p) ch.length := by omega
        have := ih _ (ch.drop (min (w1.buf.body.length - w1.p) ch.length) :: rest) _
          (by rw [totalLen_cons]; simp; omega) hi2
        refine ⟨?_, ?_, ?_⟩
        · have h1 := this.1
          simp only [List.flatten_cons] at h1 ⊢
          rw [List.append_assoc, ← List.append_assoc (List.take _ ch), List.take_append_drop] at h1
          exact h1
        · rw [this.2.1]; exact hc1
        · rw [this.2.2]; exact hk1

theorem MW.readFrom_spec {w : MW} {d : Bytes} (h : w.Inv d) (chunks : List Bytes) :
    (w.readFrom chunks).Inv (d ++ chunks.flatten) ∧ (w.readFrom chunks).c = w.c ∧
    (w.readFrom chunks).kind = w.kind :=
  MW.readFromLoop_spec _ w chunks d (by omega) h

end EIO.WT
