import EIO.Lemmas.Msg
/-
The size of delivered messages: every `message` entry a packet produces carries that packet's data, and a revision-4
decoder never hands out more data than it was given.
-/
namespace EIO.Ses
open EIO EIO.Codec

/-- a log entry that is no message, or a message of at most `n` bytes -/
def msgOK (n : Nat) : SEv → Prop
  | .message (some m) => m.data.length ≤ n
  | _ => True

/-- the step logged only entries that are `msgOK n` -/
def MB (n : Nat) (w w' : World) : Prop := ∃ added, w'.slog = w.slog ++ added ∧ ∀ e ∈ added, msgOK n e.2

theorem MB.refl (n : Nat) (w : World) : MB n w w := ⟨[], by simp, fun _ h => by cases h⟩
theorem MB.trans {n : Nat} {a b c : World} (h1 : MB n a b) (h2 : MB n b c) : MB n a c := by
  obtain ⟨x, hx, px⟩ := h1
  obtain ⟨y, hy, py⟩ := h2
  refine ⟨x ++ y, by rw [hy, hx, List.append_assoc], fun e he => ?_⟩
  rcases List.mem_append.mp he with h | h
  · exact px e h
  · exact py e h

theorem NM.mb {w w' : World} (n : Nat) (c : NM w w') : MB n w w' := by
  obtain ⟨added, hl, hn⟩ := c.log
  refine ⟨added, hl, fun e he => ?_⟩
  have := hn e he
  cases h : e.2 <;> simp [msgOK, SEv.isMessage, h] at this ⊢

theorem MB.mono {n m : Nat} {w w' : World} (h : MB n w w') (hnm : n ≤ m) : MB m w w' := by
  obtain ⟨added, hl, hn⟩ := h
  refine ⟨added, hl, fun e he => ?_⟩
  have := hn e he
  cases h2 : e.2 with
  | message mo =>
    cases mo with
    | none => simp [msgOK]
    | some mm => rw [h2] at this; exact Nat.le_trans this hnm
  | _ => simp [msgOK]

/-- a packet whose message data, if it is a message packet, has at most `n` bytes -/
def pktOK (n : Nat) (p : Pkt) : Prop := p.typ = .message → ∀ m, p.data = some m → m.data.length ≤ n

theorem mb_sockOnPacket {n : Nat} (w : World) (sid : Nat) (p : Pkt) (hp : pktOK n p) : MB n w (sockOnPacket w sid p) := by
  unfold sockOnPacket
  try dsimp only
  split
  · exact MB.refl _ _
  · have c0 : NM w (w.sev sid (.packet p.typ)) := nm_sev _ _ (NM.refl w) rfl
    split
    · split
      · exact (nm_sockOnClose _ _ _ c0).mb n
      · exact (nm_sev _ _ (nm_sendPacket _ _ _ (nm_setSock _ _ c0)) rfl).mb n
    · split
      · exact (nm_sockOnClose _ _ _ c0).mb n
      · exact (nm_sev _ _ (nm_setSock _ _ c0) rfl).mb n
    · exact (nm_sockOnClose _ _ _ c0).mb n
    · rename_i hty
      refine (c0.mb n).trans ⟨[(sid, .message p.data)], by simp, fun e he => ?_⟩
      have : e = (sid, .message p.data) := by simpa using he
      subst this
      cases hd : p.data with
      | none => simp [msgOK]
      | some m => exact hp hty m hd
    · exact c0.mb n

theorem mb_trEmitPacket {n : Nat} (w : World) (ti : Nat) (p : Pkt) (hp : pktOK n p) : MB n w (trEmitPacket w ti p) := by
  unfold trEmitPacket
  split
  · exact mb_sockOnPacket _ _ _ hp
  · exact (nm_candOnPacket _ _ (NM.refl w)).mb n
  · exact MB.refl _ _

theorem mb_pollDeliver {n : Nat} (ti : Nat) (pkts : List Pkt) (hp : ∀ p ∈ pkts, pktOK n p) (w : World) : MB n w (pollDeliver ti pkts w) := by
  induction pkts generalizing w with
  | nil => simpa [pollDeliver] using MB.refl n w
  | cons p rest ih =>
    rw [pollDeliver]
    split
    · exact (nm_pollOnClose _ (NM.refl w)).mb n
    · exact (mb_trEmitPacket w ti p (hp p List.mem_cons_self)).trans (ih (fun q hq => hp q (List.mem_cons_of_mem _ hq)) _)

/-! ### revision 4 never hands out more than it was given -/

theorem unb64_length : ∀ (k : Nat) (d : Bytes), d.length ≤ k → (unb64Std d).1.length ≤ d.length := by
  intro k
  induction k using Nat.strongRecOn with
  | _ k ih =>
    intro d hk
    match d with
    | [] => simp [unb64Std]
    | [_] => simp [unb64Std]
    | [_, _] => simp [unb64Std]
    | [_, _, _] => simp [unb64Std]
    | a :: b :: c :: e :: rest =>
      have hr := ih (k - 4) (by simp at hk; omega) rest (by simp at hk; omega)
      unfold unb64Std
      split
      · split
        · simp
        · split
          · split
            · simp
            · split
              · simp only [List.length_cons]; omega
              · simp
          · simp
      · simp

theorem decodePacketV4_ok (e : Enc) : pktOK e.data.length (decodePacketV4 e).1 := by
  obtain ⟨k, d⟩ := e
  intro hty m hm
  cases k with
  | binary =>
    simp [decodePacketV4] at hm
    subst hm; exact Nat.le_refl _
  | text =>
    cases d with
    | nil => simp [decodePacketV4, errorPkt] at hty
    | cons t d =>
      by_cases h98 : t = 98
      · by_cases hbad : (unb64Std d).2 = true
        · simp [decodePacketV4, h98, hbad, errorPkt] at hty
        · simp [decodePacketV4, h98, hbad] at hm
          subst hm
          have := unb64_length d.length d (Nat.le_refl _)
          simp only [List.length_cons]; omega
      · cases ho : PT.ofChar t with
        | none => simp [decodePacketV4, h98, ho, errorPkt] at hty
        | some ty =>
          simp [decodePacketV4, h98, ho] at hm
          subst hm; simp

theorem splitSep_length : ∀ (body : Bytes), ∀ t ∈ splitSep body, t.length ≤ body.length := by
  intro body
  induction body with
  | nil => intro t ht; simp [splitSep] at ht; subst ht; simp
  | cons b rest ih =>
    intro t ht
    unfold splitSep at ht
    split at ht
    · simp at ht; subst ht; simp
    · rename_i seg segs hs
      have hseg : seg.length ≤ rest.length := ih seg (by rw [hs]; exact List.mem_cons_self)
      have hsegs : ∀ x ∈ segs, x.length ≤ rest.length := fun x hx => ih x (by rw [hs]; exact List.mem_cons_of_mem _ hx)
      split at ht
      · rcases List.mem_cons.mp ht with h | h
        · subst h; simp
        · rcases List.mem_cons.mp h with h | h
          · subst h; simp only [List.length_cons]; omega
          · have := hsegs t h; simp only [List.length_cons]; omega
      · rcases List.mem_cons.mp ht with h | h
        · subst h; simp only [List.length_cons]; omega
        · have := hsegs t h; simp only [List.length_cons]; omega

theorem scanTokens_length (maxTok : Nat) (body : Bytes) : ∀ t ∈ scanTokens maxTok body, t.length ≤ body.length := by
  intro t ht
  unfold scanTokens at ht
  split at ht
  · cases ht
  · have h1 := (List.takeWhile_sublist _).subset ht
    split at h1
    · exact splitSep_length body t (List.dropLast_subset _ h1)
    · exact splitSep_length body t h1

theorem decodePayloadV4_go_ok (n : Nat) : ∀ (toks : List Bytes), (∀ t ∈ toks, t.length ≤ n) → ∀ p ∈ decodePayloadV4.go toks, pktOK n p := by
  intro toks
  induction toks with
  | nil => intro _ p hp; simp [decodePayloadV4.go] at hp
  | cons t rest ih =>
    intro hb p hp
    simp only [decodePayloadV4.go] at hp
    split at hp
    · rcases List.mem_cons.mp hp with h | h
      · subst h
        have := decodePacketV4_ok ⟨.text, t⟩
        intro hty m hm
        exact Nat.le_trans (this hty m hm) (hb t List.mem_cons_self)
      · exact ih (fun x hx => hb x (List.mem_cons_of_mem _ hx)) p h
    · cases hp

theorem decodePayloadV4_ok (body : Bytes) : ∀ p ∈ decodePayloadV4 body, pktOK body.length p :=
  decodePayloadV4_go_ok body.length _ (scanTokens_length 65536 body)

end EIO.Ses
