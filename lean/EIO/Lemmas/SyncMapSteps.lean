import EIO.Lemmas.SyncMapWF
/-! Internal steps of types/map.go: promotion, `missLocked`, unexpunge, `dirtyLocked`, a new entry -/
namespace EIO.SMap

/-- the dirty map becomes the read map (`missLocked` when the misses pay for it, `Range`) -/
def St.prom (s : St) : St := { s with read := s.dl, amended := false, dirty := none, misses := 0 }

theorem wf_prom {s : St} (h : WF s) : WF s.prom := by
  constructor
  · exact h.nofault
  · exact h.dnd
  · simp [St.prom, St.dl, ND]
  · intro k e hk; simp [St.prom, St.dl] at hk; exact h.bound k e (Or.inr hk)
  · intro k k' e h1 h2; simp [St.prom, St.dl] at h1 h2; exact h.inj k k' e (Or.inr h1) (Or.inr h2)
  · intro _; exact ⟨rfl, fun k e hk => h.dlive k e hk⟩
  · intro hh; simp [St.prom] at hh
  · intro _ k _; simp [St.prom, St.dl]
  · intro k e hk; simp [St.prom, St.dl] at hk

theorem abs_prom {s : St} (h : WF s) (hd : s.dirty ≠ none) (k : Int) : s.prom.abs k = s.abs k := by
  have e1 : s.prom.abs k = (lk s.dl k).bind s.eload := by
    unfold St.abs; simp only [St.prom]; split <;> simp_all [St.eload, St.slot]
  rw [e1]; unfold St.abs
  cases hr : lk s.read k with
  | some e =>
    simp only
    have hl := h.link hd k e hr
    by_cases hx : s.slot e = .expunged
    · rw [hl.1.1 hx]; simp [St.eload, hx, Slot.load]
    · cases hdk : lk s.dl k with
      | none => exact absurd (hl.1.2 hdk) hx
      | some e' => rw [hl.2 e' hdk]; rfl
  | none =>
    simp only
    by_cases ha : s.amended = true
    · simp [ha]
    · have ha' : s.amended = false := by simpa using ha
      rw [h.sub ha' k hr]; simp [ha']

theorem wf_misses {s : St} (h : WF s) (m : Nat) : WF { s with misses := m } :=
  ⟨h.nofault, h.rnd, h.dnd, h.bound, h.inj, h.nilDirty, h.link, h.sub, h.dlive⟩

theorem abs_misses (s : St) (m : Nat) (k : Int) : ({ s with misses := m } : St).abs k = s.abs k := rfl

theorem missLocked_cases (s : St) :
    s.missLocked = { s with misses := s.misses + 1 } ∨ s.missLocked = s.prom := by
  unfold St.missLocked; simp only; split
  · left; rfl
  · right; rfl

theorem wf_missLocked {s : St} (h : WF s) : WF s.missLocked := by
  rcases missLocked_cases s with e | e <;> rw [e]
  · exact wf_misses h _
  · exact wf_prom h

theorem abs_missLocked {s : St} (h : WF s) (hd : s.dirty ≠ none) (k : Int) : s.missLocked.abs k = s.abs k := by
  rcases missLocked_cases s with e | e <;> rw [e]
  · rfl
  · exact abs_prom h hd k

/-- `missLocked` does not touch the entries -/
theorem slot_missLocked (s : St) (i : Nat) : s.missLocked.slot i = s.slot i := by
  rcases missLocked_cases s with e | e <;> rw [e] <;> rfl

theorem eload_missLocked (s : St) (i : Nat) : s.missLocked.eload i = s.eload i := by
  unfold St.eload; rw [slot_missLocked]

/-- after `missLocked` a key of the dirty map is still reached through the same entry -/
theorem ent_missLocked {s : St} (ha : s.amended = true) {k : Int} (hr : lk s.read k = none) :
    s.missLocked.ent k = lk s.dl k := by
  rcases missLocked_cases s with e | e <;> rw [e]
  · unfold St.ent; simp [hr, ha, St.dl]
  · unfold St.ent St.prom; simp [St.dl]
    cases lk (s.dirty.getD []) k <;> rfl

/-! ### unexpunge: `e.unexpungeLocked()` succeeded, `m.dirty[key] = e` -/

def St.unexp (s : St) (k : Int) (e : Nat) : St := (s.setSlot e .nil).dirtyPut k e

theorem unexp_eq {s : St} {d : AL} (hd : s.dirty = some d) (k : Int) (e : Nat) :
    s.unexp k e = { s.setSlot e .nil with dirty := some (ins d k e) } := by
  unfold St.unexp St.dirtyPut; simp [St.setSlot, hd]

theorem unexp_core {s s' : St} (h : WF s) {k : Int} {e : Nat} {d : AL} (hr : lk s.read k = some e)
    (hx : s.slot e = .expunged) (hd : s.dirty = some d)
    (hrd : s'.read = s.read) (hdd : s'.dirty = some (ins d k e)) (ham : s'.amended = s.amended)
    (hnx : s'.next = s.next) (hft : s'.fault = s.fault)
    (hsl : ∀ i, s'.slot i = if i = e then .nil else s.slot i) :
    WF s' ∧ (∀ k', s'.abs k' = s.abs k') := by
  have hdn : s.dirty ≠ none := by simp [hd]
  have hdl : s.dl = d := by simp [St.dl, hd]
  have hl := h.link hdn
  rw [hdl] at hl
  have hdk : lk d k = none := (hl k e hr).1.1 hx
  have hdl' : s'.dl = ins d k e := by simp [St.dl, hdd]
  -- no other key of either map reaches e
  have hne : ∀ k' e', k' ≠ k → (lk s.read k' = some e' ∨ lk d k' = some e') → e' ≠ e := by
    intro k' e' hkk hh he; subst he
    exact hkk (h.inj k' k e' (by rw [hdl]; exact hh) (Or.inl hr))
  refine ⟨?_, ?_⟩
  · constructor
    · rw [hft]; exact h.nofault
    · rw [hrd]; exact h.rnd
    · rw [hdl']; exact nd_ins (hdl ▸ h.dnd) k e
    · intro k' e' hk
      rw [hdl', lk_ins, hrd] at hk; rw [hnx]
      rcases hk with hk | hk
      · exact h.bound k' e' (Or.inl hk)
      · split at hk
        · injection hk with hk; subst hk; exact h.bound k _ (Or.inl hr)
        · exact h.bound k' e' (Or.inr (hdl ▸ hk))
    · intro k1 k2 e' h1 h2
      rw [hdl', lk_ins, hrd] at h1 h2
      have conv : ∀ k0, (lk s.read k0 = some e' ∨ (if k = k0 then some e else lk d k0) = some e') →
          (k0 = k ∧ e' = e) ∨ (k0 ≠ k ∧ (lk s.read k0 = some e' ∨ lk d k0 = some e')) := by
        intro k0 hh
        by_cases hk0 : k0 = k
        · subst hk0; left; refine ⟨rfl, ?_⟩
          rcases hh with hh | hh
          · rw [hr] at hh; injection hh with hh; exact hh.symm
          · simp at hh; exact hh.symm
        · right; refine ⟨hk0, ?_⟩
          rcases hh with hh | hh
          · exact Or.inl hh
          · have : ¬ k = k0 := fun x => hk0 x.symm
            simp [this] at hh; exact Or.inr hh
      rcases conv k1 h1 with ⟨a, _⟩ | ⟨a, b⟩ <;> rcases conv k2 h2 with ⟨c, c'⟩ | ⟨c, c'⟩
      · rw [a, c]
      · rename_i he; exact absurd he (hne k2 e' c c')
      · exact absurd c' (hne k1 e' a b)
      · exact h.inj k1 k2 e' (hdl ▸ b) (hdl ▸ c')
    · intro hh; simp [hdd] at hh
    · intro _ k' e' hk
      rw [hrd] at hk
      rw [hdl', lk_ins, hsl]
      by_cases hkk : k = k'
      · subst hkk; rw [hr] at hk; injection hk with hk; subst hk; simp
      · have he : e' ≠ e := hne k' e' (fun x => hkk x.symm) (Or.inl hk)
        simp [hkk, he]; exact hl k' e' hk
    · intro ha k' hk
      rw [hrd] at hk; rw [ham] at ha
      rw [hdl', lk_ins]
      have hkk : ¬ k = k' := by intro x; subst x; rw [hr] at hk; cases hk
      simp [hkk]; exact hdl ▸ h.sub ha k' hk
    · intro k' e' hk
      rw [hdl', lk_ins] at hk; rw [hsl]
      by_cases hkk : k = k'
      · simp [hkk] at hk; subst hk; simp
      · simp [hkk] at hk
        have he : e' ≠ e := hne k' e' (fun x => hkk x.symm) (Or.inr hk)
        simp [he]; exact h.dlive k' e' (hdl ▸ hk)
  · intro k'
    unfold St.abs
    rw [hrd, ham, hdl', hdl]
    cases hk : lk s.read k' with
    | some e' =>
      simp only [St.eload, hsl]
      by_cases he : e' = e
      · subst he; simp [hx, Slot.load]
      · simp [he]
    | none =>
      simp only [lk_ins]
      have hkk : ¬ k = k' := by intro x; subst x; rw [hr] at hk; cases hk
      simp only [hkk, if_false]
      split
      · cases hdk' : lk d k' with
        | none => rfl
        | some e' =>
          have he : e' ≠ e := hne k' e' (fun x => hkk x.symm) (Or.inr hdk')
          simp [St.eload, hsl, he]
      · rfl

theorem wf_unexp {s : St} (h : WF s) {k : Int} {e : Nat} (hr : lk s.read k = some e)
    (hx : s.slot e = .expunged) :
    WF (s.unexp k e) ∧ (∀ k', (s.unexp k e).abs k' = s.abs k') ∧ (s.unexp k e).slot e = .nil
      ∧ (s.unexp k e).read = s.read ∧ (s.unexp k e).dirty ≠ none := by
  have hdn := h.dirty_of_expunged hr hx
  obtain ⟨d, hd⟩ := Option.ne_none_iff_exists'.1 hdn
  rw [unexp_eq hd]
  have := unexp_core (s' := { s.setSlot e .nil with dirty := some (ins d k e) }) h hr hx hd rfl rfl rfl rfl rfl
    (fun i => rfl)
  exact ⟨this.1, this.2, by simp [St.slot, St.setSlot], rfl, by simp⟩

/-! ### `dirtyLocked` on a nil dirty map, followed by `amended = true` -/

theorem amend_core {s s' : St} (h : WF s) (hd : s.dirty = none)
    (hrd : s'.read = s.read)
    (hdd : s'.dirty = some (s.read.filter fun p => match s.slot p.2 with | .val _ => true | _ => false))
    (ham : s'.amended = true) (hnx : s'.next = s.next) (hft : s'.fault = s.fault)
    (hsl : ∀ i, s'.slot i = if s.slot i = .nil ∧ s.read.any (fun p => p.2 = i) then .expunged else s.slot i) :
    WF s' ∧ (∀ k', s'.abs k' = s.abs k') ∧ (∀ k', lk s.read k' = none → lk s'.dl k' = none) := by
  have hnd := h.nilDirty hd
  have hdl' : ∀ k', lk s'.dl k' = match lk s.read k' with
      | some e => if (match s.slot e with | .val _ => true | _ => false) then some e else none
      | none => none := by
    intro k'; simp only [St.dl, hdd, Option.getD_some]; exact lk_filter h.rnd _ k'
  have hisr : ∀ k' e, lk s.read k' = some e → s.read.any (fun p => p.2 = e) = true := by
    intro k' e hk; exact List.any_eq_true.2 ⟨(k', e), lk_some_mem hk, by simp⟩
  have hdsub : ∀ k' e, lk s'.dl k' = some e → lk s.read k' = some e ∧ ∃ v, s.slot e = .val v := by
    intro k' e hk; rw [hdl'] at hk
    cases hr : lk s.read k' with
    | none => simp [hr] at hk
    | some e0 =>
      simp only [hr] at hk
      cases hs : s.slot e0 with
      | val v => simp [hs] at hk; subst hk; exact ⟨rfl, v, hs⟩
      | nil => simp [hs] at hk
      | expunged => simp [hs] at hk
  refine ⟨?_, ?_, ?_⟩
  · constructor
    · rw [hft]; exact h.nofault
    · rw [hrd]; exact h.rnd
    · simp only [St.dl, hdd, Option.getD_some]; exact nd_filter h.rnd _
    · intro k' e hk; rw [hnx]; rw [hrd] at hk
      rcases hk with hk | hk
      · exact h.bound k' e (Or.inl hk)
      · exact h.bound k' e (Or.inl (hdsub k' e hk).1)
    · intro k1 k2 e h1 h2; rw [hrd] at h1 h2
      have c1 : lk s.read k1 = some e := by rcases h1 with a | a; exact a; exact (hdsub k1 e a).1
      have c2 : lk s.read k2 = some e := by rcases h2 with a | a; exact a; exact (hdsub k2 e a).1
      exact h.inj k1 k2 e (Or.inl c1) (Or.inl c2)
    · intro hh; simp [hdd] at hh
    · intro _ k' e hk; rw [hrd] at hk
      have hx := hnd.2 k' e hk
      rw [hdl', hsl, hisr k' e hk]; simp only [hk]
      cases hs : s.slot e with
      | val v => simp
      | nil => simp
      | expunged => exact absurd hs hx
    · intro ha; rw [ham] at ha; cases ha
    · intro k' e hk
      obtain ⟨_, v, hv⟩ := hdsub k' e hk
      rw [hsl, hv]; simp
  · intro k'
    unfold St.abs; rw [hrd, ham, hnd.1]
    cases hk : lk s.read k' with
    | some e =>
      simp only [St.eload, hsl]
      split
      · rename_i hc; rw [hc.1]; rfl
      · rfl
    | none =>
      simp only [if_true]
      rw [hdl', hk]; rfl
  · intro k' hk; rw [hdl', hk]

/-- `if !read.amended { m.dirtyLocked(); m.read.Store(&readOnly{m: read.m, amended: true}) }` -/
def St.amend (s : St) : St := if ¬ s.amended then { s.dirtyLocked with amended := true } else s

theorem wf_amend {s : St} (h : WF s) :
    WF s.amend ∧ (∀ k', s.amend.abs k' = s.abs k') ∧ s.amend.read = s.read ∧ s.amend.amended = true
      ∧ s.amend.dirty ≠ none ∧ s.amend.next = s.next
      ∧ (∀ k', lk s.read k' = none → lk s.dl k' = none → lk s.amend.dl k' = none) := by
  by_cases ha : s.amended = true
  · have e : s.amend = s := by unfold St.amend; simp [ha]
    rw [e]
    exact ⟨h, fun _ => rfl, rfl, ha, h.dirty_of_amended ha, rfl, fun _ _ x => x⟩
  · have ha' : s.amended = false := by simpa using ha
    have e : s.amend = { s.dirtyLocked with amended := true } := by unfold St.amend; simp [ha']
    rw [e]
    cases hd : s.dirty with
    | some d =>
      have e1 : s.dirtyLocked = s := by unfold St.dirtyLocked; simp [hd]
      rw [e1]
      refine ⟨?_, ?_, rfl, rfl, by simp [hd], rfl, fun _ _ x => x⟩
      · exact { nofault := h.nofault, rnd := h.rnd, dnd := h.dnd, bound := h.bound, inj := h.inj,
                nilDirty := fun hh => absurd hh (by simp [hd]), link := h.link,
                sub := fun hh => Bool.noConfusion hh, dlive := h.dlive }
      · intro k'; unfold St.abs
        show (match lk s.read k' with | some e => _ | none => _) = _
        cases hk : lk s.read k' with
        | some e => rfl
        | none =>
          show (if true = true then (lk s.dl k').bind _ else none) = (if s.amended = true then _ else none)
          rw [h.sub ha' k' hk, ha']; rfl
    | none =>
      have c := amend_core (s' := { s.dirtyLocked with amended := true }) h hd
        (by unfold St.dirtyLocked; simp [hd]) (by unfold St.dirtyLocked; simp [hd]; rfl) rfl
        (by unfold St.dirtyLocked; simp [hd]) (by unfold St.dirtyLocked; simp [hd])
        (by intro i; unfold St.dirtyLocked; simp [hd, St.slot]; rfl)
      refine ⟨c.1, c.2.1, by unfold St.dirtyLocked; simp [hd], rfl, by unfold St.dirtyLocked; simp [hd],
        by unfold St.dirtyLocked; simp [hd], fun k' hk _ => c.2.2 k' hk⟩

/-! ### `m.dirty[key] = newEntry(value)` for a key in neither map -/

theorem put_core {s s' : St} (h : WF s) {k v : Int} {d : AL} (hd : s.dirty = some d)
    (ha : s.amended = true) (hr : lk s.read k = none) (hk : lk d k = none)
    (hrd : s'.read = s.read) (hdd : s'.dirty = some (ins d k s.next)) (ham : s'.amended = true)
    (hnx : s'.next = s.next + 1) (hft : s'.fault = s.fault)
    (hsl : ∀ i, s'.slot i = if i = s.next then .val v else s.slot i) :
    WF s' ∧ (∀ k', s'.abs k' = if k' = k then some v else s.abs k') := by
  have hdl : s.dl = d := by simp [St.dl, hd]
  have hdl' : s'.dl = ins d k s.next := by simp [St.dl, hdd]
  have hdn : s.dirty ≠ none := by simp [hd]
  have hlt : ∀ k' e, (lk s.read k' = some e ∨ lk d k' = some e) → e ≠ s.next := by
    intro k' e hh he; have := h.bound k' e (hdl ▸ hh); omega
  refine ⟨?_, ?_⟩
  · constructor
    · rw [hft]; exact h.nofault
    · rw [hrd]; exact h.rnd
    · rw [hdl']; exact nd_ins (hdl ▸ h.dnd) _ _
    · intro k' e hh; rw [hrd, hdl', lk_ins] at hh; rw [hnx]
      rcases hh with hh | hh
      · have := h.bound k' e (Or.inl hh); omega
      · split at hh
        · injection hh with hh; omega
        · have := h.bound k' e (Or.inr (hdl ▸ hh)); omega
    · intro k1 k2 e h1 h2
      rw [hrd, hdl', lk_ins] at h1 h2
      have conv : ∀ k0, (lk s.read k0 = some e ∨ (if k = k0 then some s.next else lk d k0) = some e) →
          (k0 = k ∧ e = s.next) ∨ (lk s.read k0 = some e ∨ lk d k0 = some e) := by
        intro k0 hh
        rcases hh with hh | hh
        · exact Or.inr (Or.inl hh)
        · split at hh
          · rename_i hkk; injection hh with hh; exact Or.inl ⟨hkk.symm, hh.symm⟩
          · exact Or.inr (Or.inr hh)
      rcases conv k1 h1 with ⟨a, a'⟩ | b <;> rcases conv k2 h2 with ⟨c, c'⟩ | c'
      · rw [a, c]
      · exact absurd a' (hlt k2 e c')
      · exact absurd c' (hlt k1 e b)
      · exact h.inj k1 k2 e (hdl ▸ b) (hdl ▸ c')
    · intro hh; simp [hdd] at hh
    · intro _ k' e hk'; rw [hrd] at hk'
      have hkk : ¬ k = k' := by intro x; subst x; rw [hr] at hk'; cases hk'
      have he := hlt k' e (Or.inl hk')
      rw [hdl', lk_ins, hsl]; simp only [hkk, he, if_false]
      exact hdl ▸ h.link hdn k' e hk'
    · intro hh; rw [ham] at hh; cases hh
    · intro k' e hh; rw [hdl', lk_ins] at hh; rw [hsl]
      split at hh
      · injection hh with hh; subst hh; simp
      · have he := hlt k' e (Or.inr hh)
        simp only [he, if_false]; exact h.dlive k' e (hdl ▸ hh)
  · intro k'
    unfold St.abs; rw [hrd, ham, hdl', ha, hdl]
    by_cases hkk : k' = k
    · subst hkk; simp [hr, lk_ins, St.eload, hsl, Slot.load]
    · simp only [hkk, if_false]
      cases hk' : lk s.read k' with
      | some e =>
        have he := hlt k' e (Or.inl hk')
        simp [St.eload, hsl, he]
      | none =>
        have : ¬ k = k' := fun x => hkk x.symm
        simp only [lk_ins, this, if_false, if_true]
        cases hk'' : lk d k' with
        | none => rfl
        | some e =>
          have he := hlt k' e (Or.inr hk'')
          simp [St.eload, hsl, he]

theorem wf_addNew {s : St} (h : WF s) {k : Int} (v : Int) (hr : lk s.read k = none) (hk : lk s.dl k = none) :
    WF (s.addNew k v) ∧ (∀ k', (s.addNew k v).abs k' = if k' = k then some v else s.abs k') := by
  obtain ⟨w, ab, rd, am, dn, nx, sb⟩ := wf_amend h
  obtain ⟨d, hd⟩ := Option.ne_none_iff_exists'.1 dn
  have hdl : s.amend.dl = d := by simp [St.dl, hd]
  have e1 : s.addNew k v = (s.amend.newEntry v).1.dirtyPut k (s.amend.newEntry v).2 := by
    unfold St.addNew St.amend; rfl
  have c := put_core (s' := (s.amend.newEntry v).1.dirtyPut k (s.amend.newEntry v).2) w (k := k) (v := v) hd am
    (rd ▸ hr) (hdl ▸ sb k hr hk)
    (by unfold St.newEntry St.dirtyPut; simp [hd])
    (by unfold St.newEntry St.dirtyPut; simp [hd])
    (by unfold St.newEntry St.dirtyPut; simp [hd, am])
    (by unfold St.newEntry St.dirtyPut; simp [hd])
    (by unfold St.newEntry St.dirtyPut; simp [hd])
    (by intro i; unfold St.newEntry St.dirtyPut; simp [hd, St.slot])
  rw [e1]
  exact ⟨c.1, fun k' => by rw [c.2 k', ab k']⟩

/-! ### `delete(m.dirty, key)` for a key the read map lacks -/

/-- some key of either map holds entry `e` -/
def St.has (s : St) (e : Nat) : Prop := ∃ k, lk s.read k = some e ∨ lk s.dl k = some e

theorem has_of_ent {s : St} {k : Int} {e : Nat} (h : s.ent k = some e) : s.has e := by
  unfold St.ent at h; split at h
  · exact ⟨k, Or.inl (by simp_all)⟩
  · split at h
    · exact ⟨k, Or.inr h⟩
    · cases h

theorem has_missLocked {s : St} {e : Nat} (h : s.missLocked.has e) : s.has e := by
  rcases missLocked_cases s with c | c <;> rw [c] at h
  · exact h
  · obtain ⟨k, hk⟩ := h
    simp [St.prom, St.dl] at hk
    exact ⟨k, Or.inr hk⟩

theorem abs_setSlot_nohas {s : St} {e : Nat} (ho : ¬ s.has e) (x : Slot) (k' : Int) :
    (s.setSlot e x).abs k' = s.abs k' :=
  abs_setSlot_orphan (fun _ hk => ho (has_of_ent hk)) x k'

def St.dirtyDel (s : St) (k : Int) : St := { s with dirty := s.dirty.map (del · k) }

theorem wf_dirtyDel {s : St} (h : WF s) {k : Int} (hr : lk s.read k = none) (ha : s.amended = true) :
    WF (s.dirtyDel k) ∧ (∀ k', (s.dirtyDel k).abs k' = if k' = k then none else s.abs k')
      ∧ (s.dirtyDel k).dirty ≠ none ∧ (∀ e, lk s.dl k = some e → ¬ (s.dirtyDel k).has e)
      ∧ (∀ i, (s.dirtyDel k).slot i = s.slot i) := by
  have hdn := h.dirty_of_amended ha
  obtain ⟨d, hd⟩ := Option.ne_none_iff_exists'.1 hdn
  have hdl : s.dl = d := by simp [St.dl, hd]
  have hdl' : (s.dirtyDel k).dl = del d k := by simp [St.dirtyDel, St.dl, hd]
  have hdd : (s.dirtyDel k).dirty = some (del d k) := by simp [St.dirtyDel, hd]
  have hrd : (s.dirtyDel k).read = s.read := rfl
  have ham : (s.dirtyDel k).amended = true := ha
  have hsl : ∀ i, (s.dirtyDel k).slot i = s.slot i := fun _ => rfl
  refine ⟨?_, ?_, by simp [hdd], ?_, hsl⟩
  · constructor
    · exact h.nofault
    · exact h.rnd
    · rw [hdl']; exact nd_del (hdl ▸ h.dnd) k
    · intro k' e hh; rw [hdl', lk_del, hrd] at hh
      rcases hh with hh | hh
      · exact h.bound k' e (Or.inl hh)
      · split at hh
        · cases hh
        · exact h.bound k' e (Or.inr (hdl ▸ hh))
    · intro k1 k2 e h1 h2; rw [hdl', lk_del, hrd] at h1 h2
      apply h.inj k1 k2 e
      · rcases h1 with a | a
        · exact Or.inl a
        · split at a
          · cases a
          · exact Or.inr (hdl ▸ a)
      · rcases h2 with a | a
        · exact Or.inl a
        · split at a
          · cases a
          · exact Or.inr (hdl ▸ a)
    · intro hh; simp [hdd] at hh
    · intro _ k' e hk; rw [hrd] at hk; rw [hdl', lk_del, hsl]
      have hkk : ¬ k = k' := by intro x; subst x; rw [hr] at hk; cases hk
      simp only [hkk, if_false]; exact hdl ▸ h.link hdn k' e hk
    · intro hh; rw [ham] at hh; cases hh
    · intro k' e hh; rw [hdl', lk_del] at hh; rw [hsl]
      split at hh
      · cases hh
      · exact h.dlive k' e (hdl ▸ hh)
  · intro k'
    unfold St.abs; rw [hrd, ham, hdl', ha, hdl]
    by_cases hkk : k' = k
    · subst hkk; simp [hr, lk_del]
    · simp only [hkk, if_false]
      cases hk' : lk s.read k' with
      | some e => rfl
      | none =>
        have : ¬ k = k' := fun x => hkk x.symm
        simp only [lk_del, this, if_false]; rfl
  · intro e he ⟨k', hk'⟩
    rw [hdl] at he
    rw [hrd, hdl', lk_del] at hk'
    rcases hk' with a | a
    · have := h.inj k' k e (Or.inl a) (Or.inr (hdl ▸ he)); subst this; rw [hr] at a; cases a
    · split at a
      · cases a
      · rename_i hkk
        exact hkk (h.inj k' k e (Or.inr (hdl ▸ a)) (Or.inr (hdl ▸ he))).symm

end EIO.SMap
