import EIO.Model.SyncMap
/-! Association-list lemmas for the model of types/map.go -/
namespace EIO.SMap

@[simp] theorem lk_nil (k : Int) : lk [] k = none := rfl
theorem lk_cons (k' : Int) (e : Nat) (l : AL) (k : Int) :
    lk ((k', e) :: l) k = if k' = k then some e else lk l k := rfl

theorem lk_del_self (l : AL) (k : Int) : lk (del l k) k = none := by
  induction l with
  | nil => rfl
  | cons p l ih =>
    obtain ⟨k', e⟩ := p
    by_cases h : k' = k
    · simp [del, h] ; simpa [del] using ih
    · simp [del, h, lk_cons]; simpa [del] using ih

theorem lk_del_ne (l : AL) {k k' : Int} (h : k' ≠ k) : lk (del l k') k = lk l k := by
  induction l with
  | nil => rfl
  | cons p l ih =>
    obtain ⟨k'', e⟩ := p
    by_cases h1 : k'' = k'
    · have : k'' ≠ k := by omega
      simp [del, h1, lk_cons] at *
      have h2 : ¬ k' = k := by omega
      simp [h2]; exact ih
    · simp [del, h1, lk_cons] at *
      rw [ih]

theorem lk_del (l : AL) (k k' : Int) : lk (del l k') k = if k' = k then none else lk l k := by
  by_cases h : k' = k
  · subst h; simp [lk_del_self]
  · simp [h, lk_del_ne l h]

theorem lk_ins (l : AL) (k' : Int) (e : Nat) (k : Int) :
    lk (ins l k' e) k = if k' = k then some e else lk l k := by
  unfold ins; rw [lk_cons, lk_del]; split <;> simp_all

theorem lk_some_mem {l : AL} {k : Int} {e : Nat} (h : lk l k = some e) : (k, e) ∈ l := by
  induction l with
  | nil => simp at h
  | cons p l ih =>
    obtain ⟨k', e'⟩ := p
    rw [lk_cons] at h
    split at h
    · simp_all
    · exact List.mem_cons_of_mem _ (ih h)

theorem lk_none_iff {l : AL} {k : Int} : lk l k = none ↔ ∀ e, (k, e) ∉ l := by
  induction l with
  | nil => simp
  | cons p l ih =>
    obtain ⟨k', e'⟩ := p
    rw [lk_cons]
    split
    · rename_i h; subst h
      constructor
      · intro h; cases h
      · intro hh; exact absurd List.mem_cons_self (hh e')
    · rename_i h; rw [ih]; constructor
      · intro hh e hm; rcases List.mem_cons.1 hm with h1 | h1
        · injection h1 with a b; exact h a.symm
        · exact hh e h1
      · intro hh e hm; exact hh e (List.mem_cons_of_mem _ hm)

/-- keys without repetition -/
def ND (l : AL) : Prop := (l.map Prod.fst).Nodup

theorem nd_mem_lk {l : AL} (h : ND l) {k : Int} {e : Nat} (hm : (k, e) ∈ l) : lk l k = some e := by
  induction l with
  | nil => simp at hm
  | cons p l ih =>
    obtain ⟨k', e'⟩ := p
    simp only [ND, List.map_cons, List.nodup_cons] at h
    rw [lk_cons]
    rcases List.mem_cons.1 hm with h1 | h1
    · injection h1 with a b; subst a; subst b; simp
    · have : k' ≠ k := by
        intro hk; subst hk; exact h.1 (List.mem_map.2 ⟨(k', e), h1, rfl⟩)
      simp [this]; exact ih h.2 h1

theorem nd_del {l : AL} (h : ND l) (k : Int) : ND (del l k) := by
  unfold ND del
  exact List.Nodup.sublist (List.Sublist.map _ List.filter_sublist) h

theorem nd_ins {l : AL} (h : ND l) (k : Int) (e : Nat) : ND (ins l k e) := by
  unfold ND ins
  simp only [List.map_cons, List.nodup_cons]
  refine ⟨?_, nd_del h k⟩
  intro hm
  obtain ⟨p, hp, hk⟩ := List.mem_map.1 hm
  have : lk (SMap.del l k) k = none := lk_del_self l k
  rw [lk_none_iff] at this
  obtain ⟨k', e'⟩ := p
  simp at hk; subst hk
  exact this e' hp

theorem nd_filter {l : AL} (h : ND l) (p : Int × Nat → Bool) : ND (l.filter p) := by
  unfold ND
  exact List.Nodup.sublist (List.Sublist.map _ List.filter_sublist) h

theorem lk_filter {l : AL} (h : ND l) (p : Int × Nat → Bool) (k : Int) :
    lk (l.filter p) k = match lk l k with
      | some e => if p (k, e) then some e else none
      | none => none := by
  cases hl : lk l k with
  | none =>
    simp only
    rw [lk_none_iff] at hl ⊢
    intro e hm; exact hl e (List.mem_filter.1 hm).1
  | some e =>
    simp only
    have hm := lk_some_mem hl
    split
    · rename_i hp
      exact nd_mem_lk (nd_filter h p) (List.mem_filter.2 ⟨hm, hp⟩)
    · rename_i hp
      rw [lk_none_iff]; intro e' hm'
      have hm'' := List.mem_filter.1 hm'
      have := nd_mem_lk h hm''.1
      rw [hl] at this; injection this with this; subst this
      exact hp hm''.2

theorem length_del_le (l : AL) (k : Int) : (del l k).length ≤ l.length := List.length_filter_le _ _

end EIO.SMap
