import EIO.Lemmas.MsgStep
/-
Who delivers messages, over whole histories. `NMsg w w'`: the step appended no `message` entry to the session log
(unlike `NM` it says nothing about the session table, so it also covers the handshakes). The `nm_*` lemmas of this
file are the twins of the `nc_*` lemmas of ConnStep.lean for the functions C10 did not need.
-/
namespace EIO.Ses
open EIO EIO.Codec

theorem nm_onPollRequest {w0 w : World} (ti r : Nat) (h : NM w0 w) : NM w0 (onPollRequest w ti r) := by
  unfold onPollRequest
  try dsimp only
  split
  · nm_auto
  · split
    · apply nm_trSend; apply nm_trEmitReady; nm_auto
    · apply nm_trEmitReady; nm_auto

theorem nm_openPackets {w0 w : World} (sid : Nat) (nm : String) (h : NM w0 w) : NM w0 (openPackets w sid nm) := by
  unfold openPackets
  try dsimp only
  split
  · exact nm_sendPacket _ _ _ (nm_sendPacket _ _ _ h)
  · exact nm_sendPacket _ _ _ h

theorem nm_pollReq {w0 w : World} (sid : Nat) (ae : Bytes) (h : NM w0 w) : NM w0 (pollReq w sid ae) := by
  unfold pollReq
  try dsimp only
  split
  · exact nm_rejectReq _ _ _ (nm_pushReq _ h)
  · split
    · exact nm_rejectReq _ _ _ (nm_pushReq _ h)
    · exact nm_onPollRequest _ _ (nm_pushReq _ h)

theorem nm_abortReq {w0 w : World} (r : Nat) (h : NM w0 w) : NM w0 (abortReq w r) := by
  unfold abortReq
  try dsimp only
  split
  · exact h
  · split
    · split <;> nm_auto
    · nm_auto

theorem nm_wsCandidate {w0 w : World} (sid proto : Nat) (b64 : Bool) (h : NM w0 w) : NM w0 (wsCandidate w sid proto b64) := by
  unfold wsCandidate
  try dsimp only
  have h0 : NM w0 ({ w with conns := w.conns.push {} } : World) := nm_fields _ h
  split
  · nm_auto
  · split
    · nm_auto
    · split
      · nm_auto
      · apply nm_setSock
        exact nm_fields (w := ({ w with conns := w.conns.push {} } : World)) _ h0

theorem nm_wtCandidate {w0 w : World} (sid : Nat) (h : NM w0 w) : NM w0 (wtCandidate w sid) := by
  unfold wtCandidate
  try dsimp only
  have h0 : NM w0 ({ w with conns := w.conns.push { wt := true } } : World) := nm_fields _ h
  split
  · nm_auto
  · split
    · nm_auto
    · apply nm_setSock
      exact nm_fields (w := ({ w with conns := w.conns.push { wt := true } } : World)) _ h0

theorem nm_runPollSend {w0 w : World} (ti : Nat) (batch : List Pkt) (h : NM w0 w) : NM w0 (runPollSend w ti batch) := by
  unfold runPollSend
  try dsimp only
  have h1 : NM w0 (if (w.tr ti).shouldClose = true then
      pollOnClose (runCloseFn (w.setTr ti fun t => { t with shouldClose := false, closeTimerDue := none }) ti) ti else w) := by
    split
    · nm_auto
    · exact h
  generalize (if (w.tr ti).shouldClose = true then
      pollOnClose (runCloseFn (w.setTr ti fun t => { t with shouldClose := false, closeTimerDue := none }) ti) ti else w) = w1 at h1 ⊢
  split
  · nm_auto
  · apply nm_trEmitDrain; apply nm_answer; apply nm_emitHeaders; nm_auto

theorem nm_runWsSend {w0 w : World} (ti : Nat) (batch : List Pkt) (h : NM w0 w) : NM w0 (runWsSend w ti batch) := by
  unfold runWsSend
  try dsimp only
  exact nm_trEmitReady _ (nm_setTr _ _ (nm_trEmitDrain _ (nm_wsSendLoop ti batch h)))

theorem nm_settle {w0 w : World} (f : Nat) (h : NM w0 w) : NM w0 (settle f w) := by
  induction f generalizing w with
  | zero => exact h
  | succ f ih =>
    rw [settle]
    split
    · exact h
    · rename_i t rest _
      cases t with
      | pollSend ti b => exact ih (nm_runPollSend ti b (nm_fields _ h))
      | wsSend ti b => exact ih (nm_runWsSend ti b (nm_fields _ h))


/-- the step appended no `message` entry to the session log -/
def NMsg (w w' : World) : Prop := ∃ added, w'.slog = w.slog ++ added ∧ ∀ e ∈ added, e.2.isMessage = false

theorem NM.nmsg {w w' : World} (h : NM w w') : NMsg w w' := h.log
theorem NMsg.refl (w : World) : NMsg w w := ⟨[], by simp, fun _ h => by cases h⟩
theorem NMsg.trans {a b c : World} (h1 : NMsg a b) (h2 : NMsg b c) : NMsg a c := by
  obtain ⟨x, hx, px⟩ := h1
  obtain ⟨y, hy, py⟩ := h2
  refine ⟨x ++ y, by rw [hy, hx, List.append_assoc], fun e he => ?_⟩
  rcases List.mem_append.mp he with h | h
  · exact px e h
  · exact py e h

/-- a new session: the open packet (and a configured initial packet) are *sent*, the session is announced;
    nothing is delivered to the application as a message -/
theorem nmsg_openSession (w : World) (ti proto : Nat) : NMsg w (openSession w ti proto) := by
  unfold openSession
  try dsimp only
  generalize hcore : ((({ w with socks := w.socks.push { proto, tr := ti } } : World).setTr ti
      fun t => { t with role := .current w.socks.size, owner := w.socks.size }).setSock w.socks.size fun s => { s with rs := .open_ }) = wc
  have hlg : wc.slog = w.slog := by rw [← hcore]; rfl
  have c := nm_openPackets w.socks.size (w.tr ti).name (NM.refl wc)
  obtain ⟨pre, hpre, hn⟩ := c.log
  generalize openPackets wc w.socks.size (w.tr ti).name = wp at hpre ⊢
  unfold openAnnounce
  try dsimp only
  refine ⟨pre ++ [(w.socks.size, ?e)], ?hl, ?hn⟩
  case hl =>
    rw [slog_sev]
    show wp.slog ++ _ = _
    rw [hpre, hlg, List.append_assoc]
  case hn =>
    intro e he
    rcases List.mem_append.mp he with h | h
    · exact hn e h
    · simp at h; subst h; rfl

theorem nmsg_hsPolling (w : World) (proto : Nat) (b64 : Bool) (j : Option Bytes) : NMsg w (hsPolling w proto b64 j) := by
  unfold hsPolling
  try dsimp only
  split
  · exact (nm_rejectReq _ _ _ (nm_pushReq _ (NM.refl w))).nmsg
  · split
    · exact (nm_rejectReq _ _ _ (nm_pushReq _ (NM.refl w))).nmsg
    · refine NMsg.trans ?_ (nmsg_openSession _ _ _)
      exact (nm_onPollRequest _ _ (nm_fields (w := ({ w with reqs := w.reqs.push { hasSid := false } } : World)) _ (nm_pushReq _ (NM.refl w)))).nmsg

theorem nmsg_hsWebsocket (w : World) (proto : Nat) (b64 : Bool) : NMsg w (hsWebsocket w proto b64) := by
  unfold hsWebsocket
  try dsimp only
  split
  · exact (nm_setConn _ _ (nm_fields _ (NM.refl w))).nmsg
  · split
    · exact (nm_setConn _ _ (nm_ev _ (nm_fields _ (NM.refl w)))).nmsg
    · refine NMsg.trans ?_ (nmsg_openSession _ _ _)
      exact (nm_fields (w := ({ w with conns := w.conns.push {} } : World)) _ (nm_fields _ (NM.refl w))).nmsg

theorem nmsg_hsWt (w : World) : NMsg w (hsWt w) := by
  unfold hsWt
  try dsimp only
  refine NMsg.trans ?_ (nmsg_openSession _ _ _)
  exact (nm_fields (w := ({ w with conns := w.conns.push { wt := true } } : World)) _ (nm_fields _ (NM.refl w))).nmsg

/-- the operations by which a client submits packets -/
def Op.submits : Op → Bool
  | .post .. => true
  | .frame .. => true
  | _ => false

/-- every operation that is not a client's data request or frame — handshakes, polls, aborts, upgrade
    candidates, connection drops, close frames, application sends and closes, shutdown, the clock, writer
    tasks — delivers no message -/
theorem nmsg_step (w : World) (op : Op) (h : op.submits = false) : NMsg w (step w op) := by
  unfold step
  split
  · exact NMsg.refl w
  · cases op with
    | hsPolling pr b j => exact nmsg_hsPolling _ _ _ _
    | hsWebsocket pr b => exact nmsg_hsWebsocket _ _ _
    | poll sid ae => exact (nm_pollReq _ _ (NM.refl w)).nmsg
    | post sid bin decl body vj => cases h
    | abort r => exact (nm_abortReq _ (NM.refl w)).nmsg
    | wsCandidate sid pr b => exact (nm_wsCandidate _ _ _ (NM.refl w)).nmsg
    | hsWt => exact nmsg_hsWt _
    | wtCandidate sid => exact (nm_wtCandidate _ (NM.refl w)).nmsg
    | frame c m => cases h
    | drop c => exact (nm_wsDrop _ (NM.refl w)).nmsg
    | closeFrame c code => exact (nm_wsDrop _ (nm_setConn _ _ (NM.refl w))).nmsg
    | send sid m c cb pre => exact (nm_appSend _ _ _ _ _ (NM.refl w)).nmsg
    | close sid d => exact (nm_appClose _ _ (NM.refl w)).nmsg
    | shutdown => exact (nm_shutdownFold _ (NM.refl w)).nmsg
    | adv d => exact (nm_advance _ _ (NM.refl w)).nmsg
    | settle => exact (nm_settle _ (NM.refl w)).nmsg
    | observe => exact (nm_observe (NM.refl w)).nmsg

end EIO.Ses
