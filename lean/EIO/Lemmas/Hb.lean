import EIO.Lemmas.SesOps
/-
The heartbeat timers of a session, as an invariant of every world:

  a closed session has no heartbeat timer;
  an announced session that is not closed and has never been upgraded has one pending
  (the upgrade cancels the deadline: the property excludes that window);
  no pending ping is further away than the ping interval, no deadline further than interval + timeout.
-/
namespace EIO.Ses
open EIO EIO.Codec

/-- the heartbeat condition of one session at instant `now` -/
structure HBS (lax : Prop) (o : Opts) (now : Nat) (s : Sock) : Prop where
  closed : s.rs = .closed → s.pingIntervalDue = none ∧ s.pingTimeoutDue = none
  pending : ¬ lax → s.announced = true → s.rs ≠ .closed → s.upgraded = false → s.pingIntervalDue.isSome ∨ s.pingTimeoutDue.isSome
  pingBound : ∀ d, s.pingIntervalDue = some d → d ≤ now + o.I
  deadBound : ∀ d, s.pingTimeoutDue = some d → d ≤ now + o.I + o.T

/-- `x`: the one session whose timers are being re-armed right now (between the two updates of a timer callback) -/
def HBX (n : Nat) (x : Option Nat) (w : World) : Prop := w.now = n ∧ ∀ sid, HBS (x = some sid) w.o w.now (w.sock sid)

/-- the heartbeat condition of every session -/
def HB (w : World) : Prop := ∀ sid, HBS False w.o w.now (w.sock sid)

variable {x : Option Nat} {n : Nat}

/-- nothing the heartbeat condition reads has changed -/
structure Still (w w' : World) : Prop where
  socks : w'.socks = w.socks
  now : w'.now = w.now
  o : w'.o = w.o

theorem Still.refl (w : World) : Still w w := ⟨rfl, rfl, rfl⟩
theorem Still.trans {a b c : World} (h1 : Still a b) (h2 : Still b c) : Still a c :=
  ⟨h2.socks.trans h1.socks, h2.now.trans h1.now, h2.o.trans h1.o⟩
theorem Still.sock {w w' : World} (q : Still w w') (j : Nat) : w'.sock j = w.sock j := by
  unfold World.sock; rw [q.socks]
theorem Still.hb {w w' : World} (q : Still w w') (h : HBX n x w) : HBX n x w' := ⟨q.now.trans h.1, fun sid => by
  rw [q.sock, q.now, q.o]; exact h.2 sid⟩

theorem q_setTr {w0 w : World} (i : Nat) (f : Tr → Tr) (h : Still w0 w) : Still w0 (w.setTr i f) := h.trans ⟨rfl, rfl, rfl⟩
theorem q_setReq {w0 w : World} (i : Nat) (f : Req → Req) (h : Still w0 w) : Still w0 (w.setReq i f) := h.trans ⟨rfl, rfl, rfl⟩
theorem q_setConn {w0 w : World} (i : Nat) (f : Conn → Conn) (h : Still w0 w) : Still w0 (w.setConn i f) := h.trans ⟨rfl, rfl, rfl⟩
theorem q_ev {w0 w : World} (s : String) (h : Still w0 w) : Still w0 (w.ev s) := h.trans ⟨rfl, rfl, rfl⟩
theorem q_trSend {w0 w : World} (ti : Nat) (b : List Pkt) (h : Still w0 w) : Still w0 (trSend w ti b) := h.trans ⟨rfl, rfl, rfl⟩
theorem q_sev {w0 w : World} (sid : Nat) (e : SEv) (h : Still w0 w) : Still w0 (w.sev sid e) := by
  refine h.trans ?_
  rcases sev_eq w sid e with e1 | e1 <;> rw [e1] <;> exact ⟨rfl, rfl, rfl⟩
theorem q_answer {w0 w : World} (r : Nat) (resp : Resp) (h : Still w0 w) : Still w0 (w.answer r resp) := by
  unfold World.answer; split
  · exact h
  · exact q_setReq _ _ (q_ev _ h)
theorem q_abortData {w0 w : World} (d : Option Nat) (h : Still w0 w) : Still w0 (abortData w d) := by
  unfold abortData; split
  · exact q_answer _ _ h
  · exact h
theorem q_fields {w0 w : World} (w' : World) (h : Still w0 w) (h1 : w'.socks = w.socks := by rfl)
    (h2 : w'.now = w.now := by rfl) (h3 : w'.o = w.o := by rfl) : Still w0 w' := h.trans ⟨h1, h2, h3⟩

/-! ### closing a transport nobody listens to touches no session -/

theorem q_trOnCloseBaseF_detached {w0 w : World} (f : Nat) (ti : Nat) (h : Still w0 w)
    (hr : (w.tr ti).role = .none) : Still w0 (trOnCloseBaseF f w ti) := by
  cases f with
  | zero => simpa [trOnCloseBaseF] using h
  | succ f =>
    rw [trOnCloseBaseF]
    split
    · exact h
    · rw [trEmitClose_detached]
      · exact q_setTr _ _ h
      · refine (tr_setTr_role _ _ _ _ ?_).trans hr; intro _; rfl

theorem q_pollOnCloseF_detached {w0 w : World} (f : Nat) (ti : Nat) (h : Still w0 w)
    (hr : (w.tr ti).role = .none) : Still w0 (pollOnCloseF f w ti) := by
  cases f with
  | zero => simpa [pollOnCloseF] using h
  | succ f =>
    rw [pollOnCloseF]
    apply q_trOnCloseBaseF_detached
    · split
      · exact q_trSend _ _ h
      · exact h
    · split
      · simp [hr]
      · exact hr

theorem q_runCloseFnF_nofn {w0 w : World} (f : Nat) (ti : Nat) (h : Still w0 w)
    (hfn : (w.tr ti).closeFn = none) : Still w0 (runCloseFnF f w ti) := by
  cases f with
  | zero => simpa [runCloseFnF] using h
  | succ f =>
    rw [runCloseFnF]
    simp only [hfn]
    exact q_setTr _ _ h

theorem q_wsCloseNowF_detached {w0 w : World} (f : Nat) (ti : Nat) (h : Still w0 w)
    (hr : (w.tr ti).role = .none) (hfn : (w.tr ti).closeFn = none) : Still w0 (wsCloseNowF f w ti) := by
  cases f with
  | zero => simpa [wsCloseNowF] using h
  | succ f =>
    rw [wsCloseNowF]
    have h1 : ((w.setTr ti fun t => { t with closeWait := false, closeTimerDue := none }).tr ti).closeFn = none := by
      refine (tr_setTr_closeFn _ _ _ _ ?_).trans hfn; intro _; rfl
    have h1r : ((w.setTr ti fun t => { t with closeWait := false, closeTimerDue := none }).tr ti).role = .none := by
      refine (tr_setTr_role _ _ _ _ ?_).trans hr; intro _; rfl
    apply q_trOnCloseBaseF_detached
    · exact q_setConn _ _ (q_runCloseFnF_nofn _ _ (q_setTr _ _ h) h1)
    · simp only [tr_setConn]
      rw [role_runCloseFnF_nofn _ _ _ h1]; exact h1r

theorem q_trCloseF_detached {w0 w : World} (f : Nat) (ti : Nat) (h : Still w0 w)
    (hr : (w.tr ti).role = .none) : Still w0 (trCloseF f w ti none) := by
  cases f with
  | zero => simpa [trCloseF] using h
  | succ f =>
    rw [trCloseF]
    try dsimp only
    split
    · exact h
    · have hfn1 : ((w.setTr ti fun t => { t with rs := .closing, closeFn := none }).tr ti).closeFn = none := by
        refine tr_setTr_closeFn_none _ _ _ ?_; intro _; rfl
      have hr1 : ((w.setTr ti fun t => { t with rs := .closing, closeFn := none }).tr ti).role = .none := by
        refine (tr_setTr_role _ _ _ _ ?_).trans hr; intro _; rfl
      have v1 : Still w0 (w.setTr ti fun t => { t with rs := .closing, closeFn := none }) := q_setTr _ _ h
      generalize (w.setTr ti fun t => { t with rs := .closing, closeFn := none }) = w1 at hfn1 hr1 v1 ⊢
      split
      · have v2 : Still w0 (abortData w1 (w.tr ti).dataReq) := q_abortData _ v1
        have hfn2 : ((abortData w1 (w.tr ti).dataReq).tr ti).closeFn = none := by
          unfold abortData; split <;> simp [hfn1]
        have hr2 : ((abortData w1 (w.tr ti).dataReq).tr ti).role = .none := by
          unfold abortData; split <;> simp [hr1]
        generalize abortData w1 (w.tr ti).dataReq = w2 at v2 hfn2 hr2 ⊢
        split
        · have hfn3 : ((trSend w2 ti [{ typ := .close }]).tr ti).closeFn = none := by simp [hfn2]
          apply q_pollOnCloseF_detached
          · exact q_runCloseFnF_nofn _ _ (q_trSend _ _ v2) hfn3
          · rw [role_runCloseFnF_nofn _ _ _ hfn3]; simp [hr2]
        · split
          · apply q_pollOnCloseF_detached
            · exact q_runCloseFnF_nofn _ _ v2 hfn2
            · rw [role_runCloseFnF_nofn _ _ _ hfn2]; exact hr2
          · exact q_setTr _ _ v2
      · split
        · exact q_wsCloseNowF_detached f ti v1 hr1 hfn1
        · exact q_setTr _ _ v1

/-! ### primitive steps -/

theorem HBS.same {lax : Prop} {o : Opts} {now : Nat} {s s' : Sock} (h : HBS lax o now s) (hrs : s'.rs = .closed ↔ s.rs = .closed)
    (ha : s'.announced = s.announced) (hu : s'.upgraded = s.upgraded)
    (hpi : s'.pingIntervalDue = s.pingIntervalDue) (hpt : s'.pingTimeoutDue = s.pingTimeoutDue) : HBS lax o now s' := by
  refine ⟨fun hc => ?_, fun hl a b c => ?_, fun d hd => ?_, fun d hd => ?_⟩
  · rw [hpi, hpt]; exact h.closed (hrs.mp hc)
  · rw [hpi, hpt]; exact h.pending hl (ha ▸ a) (fun x => b (hrs.mpr x)) (hu ▸ c)
  · exact h.pingBound d (hpi ▸ hd)
  · exact h.deadBound d (hpt ▸ hd)

theorem hb_setSock {w : World} (sid : Nat) (f : Sock → Sock)
    (hf : sid < w.socks.size → HBS (x = some sid) w.o w.now (w.sock sid) → HBS (x = some sid) w.o w.now (f (w.sock sid)))
    (h : HBX n x w) : HBX n x (w.setSock sid f) := by
  refine ⟨h.1, fun j => ?_⟩
  show HBS (x = some j) w.o w.now ((w.setSock sid f).sock j)
  rw [sock_setSock]
  split
  · rename_i e; obtain ⟨e, e2⟩ := e; subst e; exact hf e2 (h.2 _)
  · exact h.2 j

/-- an update of a session that keeps what the heartbeat condition reads -/
theorem hb_setSockSame {w : World} (sid : Nat) (f : Sock → Sock)
    (hf : ∀ s, ((f s).rs = .closed ↔ s.rs = .closed) ∧ (f s).announced = s.announced ∧ (f s).upgraded = s.upgraded ∧
      (f s).pingIntervalDue = s.pingIntervalDue ∧ (f s).pingTimeoutDue = s.pingTimeoutDue) (h : HBX n x w) : HBX n x (w.setSock sid f) :=
  hb_setSock sid f (fun _ hs => hs.same (hf _).1 (hf _).2.1 (hf _).2.2.1 (hf _).2.2.2.1 (hf _).2.2.2.2) h

theorem hb_setTr {w : World} (i : Nat) (f : Tr → Tr) (h : HBX n x w) : HBX n x (w.setTr i f) := (q_setTr i f (Still.refl w)).hb h
theorem hb_setReq {w : World} (i : Nat) (f : Req → Req) (h : HBX n x w) : HBX n x (w.setReq i f) := (q_setReq i f (Still.refl w)).hb h
theorem hb_setConn {w : World} (i : Nat) (f : Conn → Conn) (h : HBX n x w) : HBX n x (w.setConn i f) := (q_setConn i f (Still.refl w)).hb h
theorem hb_ev {w : World} (s : String) (h : HBX n x w) : HBX n x (w.ev s) := (q_ev s (Still.refl w)).hb h
theorem hb_sev {w : World} (sid : Nat) (e : SEv) (h : HBX n x w) : HBX n x (w.sev sid e) := (q_sev sid e (Still.refl w)).hb h
theorem hb_trSend {w : World} (ti : Nat) (b : List Pkt) (h : HBX n x w) : HBX n x (trSend w ti b) := (q_trSend ti b (Still.refl w)).hb h
theorem hb_answer {w : World} (r : Nat) (resp : Resp) (h : HBX n x w) : HBX n x (w.answer r resp) := (q_answer r resp (Still.refl w)).hb h
theorem hb_abortData {w : World} (d : Option Nat) (h : HBX n x w) : HBX n x (abortData w d) := (q_abortData d (Still.refl w)).hb h
theorem hb_fields {w : World} (w' : World) (h : HBX n x w) (h1 : w'.socks = w.socks := by rfl)
    (h2 : w'.now = w.now := by rfl) (h3 : w'.o = w.o := by rfl) : HBX n x w' := (q_fields w' (Still.refl w) h1 h2 h3).hb h

macro "hb_frame" : tactic => `(tactic| repeat (first
  | with_reducible assumption
  | with_reducible apply hb_ev | with_reducible apply hb_sev | with_reducible apply hb_answer
  | with_reducible apply hb_trSend | with_reducible apply hb_setConn | with_reducible apply hb_setReq
  | with_reducible apply hb_abortData | with_reducible apply hb_setTr
  | (with_reducible refine hb_setSockSame _ _ ?_ ?_; (intro s; exact ⟨Iff.rfl, rfl, rfl, rfl, rfl⟩))))

/-! ### the close paths -/

theorem hb_clearTransportF {w : World} (f : Nat) (sid : Nat) (h : HBX n x w)
    (hx : (w.sock sid).rs = .closed ∨ (w.sock sid).upgraded = true ∨ w.socks.size ≤ sid) : HBX n x (clearTransportF f w sid) := by
  cases f with
  | zero => simpa [clearTransportF] using h
  | succ f =>
    rw [clearTransportF]
    try dsimp only
    have q : Still w (trCloseF f (w.setTr (w.sock sid).tr fun t => { t with role := .none, silenced := true }) (w.sock sid).tr none) :=
      q_trCloseF_detached f _ (q_setTr _ _ (Still.refl w)) (tr_setTr_role_none _ _ _ (fun _ => rfl))
    have hs := q.sock sid
    have h1 := q.hb h
    generalize (trCloseF f (w.setTr (w.sock sid).tr fun t => { t with role := .none, silenced := true }) (w.sock sid).tr none) = w1 at *
    have hsz1 := q.socks
    refine hb_setSock sid _ (fun hlt hs1 => ?_) h1
    rw [hs] at hs1 ⊢
    refine ⟨fun hc => ⟨(hs1.closed hc).1, rfl⟩, fun _ a b c => ?_, hs1.pingBound, fun d hd => (by cases hd)⟩
    rcases hx with hx | hx | hx
    · exact absurd hx b
    · rw [hx] at c; cases c
    · rw [hsz1] at hlt; omega

theorem hb_candCleanup {w : World} (sid : Nat) (h : HBX n x w) : HBX n x (candCleanup w sid) := by
  unfold candCleanup
  split
  · exact h
  · hb_frame

theorem hb_candFail {w : World} (f : Nat) (sid : Nat) (h : HBX n x w) : HBX n x (candFail f w sid) := by
  cases f with
  | zero => simp only [candFail]; exact hb_candCleanup sid h
  | succ f =>
    rw [candFail]
    split
    · exact h
    · rename_i c hc
      refine (q_trCloseF_detached f c.tr (Still.refl _) ?_).hb (hb_candCleanup sid h)
      unfold candCleanup
      rw [hc]
      exact tr_setTr_role_none _ _ _ (fun _ => rfl)

theorem hb_sockOnClose {w : World} (f : Nat) (sid : Nat) (reason : String) (h : HBX n x w) : HBX n x (sockOnClose f w sid reason) := by
  cases f with
  | zero => simp only [sockOnClose]; exact h
  | succ f =>
    rw [sockOnClose]
    split
    · exact h
    · rename_i hg
      have hsz : sid < w.socks.size := Nat.lt_of_not_le (fun x => hg (Or.inr x))
      try dsimp only
      have h1 : HBX n x (w.setSock sid fun s =>
          { s with rs := .closed, pingIntervalDue := none, pingTimeoutDue := none, packetsFn := [], sentCb := [] }) := by
        refine hb_setSock sid _ (fun _ _ => ?_) h
        exact ⟨fun _ => ⟨rfl, rfl⟩, fun _ _ b _ => absurd rfl b, fun d hd => (by cases hd), fun d hd => (by cases hd)⟩
      have hc1 : ((w.setSock sid fun s =>
          { s with rs := .closed, pingIntervalDue := none, pingTimeoutDue := none, packetsFn := [], sentCb := [] }).sock sid).rs = .closed := by
        rw [sock_setSock]; simp [hsz]
      have h2 := hb_clearTransportF f sid h1 (Or.inl hc1)
      generalize clearTransportF f (w.setSock sid fun s =>
          { s with rs := .closed, pingIntervalDue := none, pingTimeoutDue := none, packetsFn := [], sentCb := [] }) sid = w2 at h2 ⊢
      have h3 : HBX n x ({ w2 with registry := w2.registry.filter (· ≠ sid) } : World) := hb_fields _ h2
      generalize ({ w2 with registry := w2.registry.filter (· ≠ sid) } : World) = w3 at h3 ⊢
      refine hb_setSockSame sid _ (fun s => ⟨Iff.rfl, rfl, rfl, rfl, rfl⟩) ?_
      exact hb_candFail f sid (hb_sev _ _ h3)

theorem hb_trEmitClose {w : World} (f : Nat) (ti : Nat) (h : HBX n x w) : HBX n x (trEmitClose f w ti) := by
  cases f with
  | zero => simp only [trEmitClose]; exact h
  | succ f =>
    rw [trEmitClose]
    split
    · exact hb_sockOnClose _ _ _ h
    · exact hb_candFail _ _ h
    · exact h

theorem hb_trOnErrorF {w : World} (f : Nat) (ti : Nat) (h : HBX n x w) : HBX n x (trOnErrorF f w ti) := by
  cases f with
  | zero => simp only [trOnErrorF]; exact h
  | succ f =>
    rw [trOnErrorF]
    split
    · exact hb_sockOnClose _ _ _ h
    · exact hb_candFail _ _ h
    · exact h

theorem hb_trOnCloseBaseF {w : World} (f : Nat) (ti : Nat) (h : HBX n x w) : HBX n x (trOnCloseBaseF f w ti) := by
  cases f with
  | zero => simp only [trOnCloseBaseF]; exact h
  | succ f =>
    rw [trOnCloseBaseF]
    split
    · exact h
    · exact hb_trEmitClose _ _ (hb_setTr _ _ h)

theorem hb_pollOnCloseF {w : World} (f : Nat) (ti : Nat) (h : HBX n x w) : HBX n x (pollOnCloseF f w ti) := by
  cases f with
  | zero => simp only [pollOnCloseF]; exact h
  | succ f =>
    rw [pollOnCloseF]
    apply hb_trOnCloseBaseF
    split
    · exact hb_trSend _ _ h
    · exact h

theorem hb_runCloseFnF {w : World} (f : Nat) (ti : Nat) (h : HBX n x w) : HBX n x (runCloseFnF f w ti) := by
  cases f with
  | zero => simp only [runCloseFnF]; exact h
  | succ f =>
    rw [runCloseFnF]
    try dsimp only
    split
    · exact hb_sockOnClose _ _ _ (hb_setTr _ _ h)
    · exact hb_setTr _ _ h

theorem hb_wsCloseNowF {w : World} (f : Nat) (ti : Nat) (h : HBX n x w) : HBX n x (wsCloseNowF f w ti) := by
  cases f with
  | zero => simp only [wsCloseNowF]; exact h
  | succ f =>
    rw [wsCloseNowF]
    try dsimp only
    exact hb_trOnCloseBaseF _ _ (hb_setConn _ _ (hb_runCloseFnF _ _ (hb_setTr _ _ h)))

theorem hb_trCloseF {w : World} (f : Nat) (ti : Nat) (fn : Option Nat) (h : HBX n x w) : HBX n x (trCloseF f w ti fn) := by
  cases f with
  | zero => simp only [trCloseF]; exact h
  | succ f =>
    rw [trCloseF]
    try dsimp only
    split
    · exact h
    · have h1 : HBX n x (w.setTr ti fun t => { t with rs := .closing, closeFn := fn }) := hb_setTr _ _ h
      split
      · have h2 : HBX n x (abortData (w.setTr ti fun t => { t with rs := .closing, closeFn := fn }) (w.tr ti).dataReq) := hb_abortData _ h1
        generalize abortData (w.setTr ti fun t => { t with rs := .closing, closeFn := fn }) (w.tr ti).dataReq = wa at h2 ⊢
        split
        · exact hb_pollOnCloseF _ _ (hb_runCloseFnF _ _ (hb_trSend _ _ h2))
        · split
          · exact hb_pollOnCloseF _ _ (hb_runCloseFnF _ _ h2)
          · exact hb_setTr _ _ h2
      · split
        · exact hb_wsCloseNowF _ _ h1
        · exact hb_setTr _ _ h1

theorem hb_trOnError {w : World} (ti : Nat) (h : HBX n x w) : HBX n x (trOnError w ti) := hb_trOnErrorF _ _ h
theorem hb_trOnCloseBase {w : World} (ti : Nat) (h : HBX n x w) : HBX n x (trOnCloseBase w ti) := hb_trOnCloseBaseF _ _ h
theorem hb_pollOnClose {w : World} (ti : Nat) (h : HBX n x w) : HBX n x (pollOnClose w ti) := hb_pollOnCloseF _ _ h
theorem hb_runCloseFn {w : World} (ti : Nat) (h : HBX n x w) : HBX n x (runCloseFn w ti) := hb_runCloseFnF _ _ h
theorem hb_wsCloseNow {w : World} (ti : Nat) (h : HBX n x w) : HBX n x (wsCloseNow w ti) := hb_wsCloseNowF _ _ h
theorem hb_trClose {w : World} (ti : Nat) (fn : Option Nat) (h : HBX n x w) : HBX n x (trClose w ti fn) := hb_trCloseF _ _ _ h

theorem hb_closeTransportF {w : World} (f : Nat) (sid : Nat) (d : Bool) (h : HBX n x w) : HBX n x (closeTransportF f w sid d) := by
  cases f with
  | zero => simpa [closeTransportF] using h
  | succ f =>
    rw [closeTransportF]
    try dsimp only
    have h1 : HBX n x (if d = true then w.setTr (w.sock sid).tr fun t => { t with discarded := true } else w) := by
      split
      · exact hb_setTr _ _ h
      · exact h
    generalize (if d = true then w.setTr (w.sock sid).tr fun t => { t with discarded := true } else w) = w1 at h1 ⊢
    split
    · exact hb_sockOnClose _ _ _ h1
    · exact hb_trClose _ _ h1

theorem hb_flushF {w : World} (f : Nat) (sid : Nat) (h : HBX n x w) : HBX n x (flushF f w sid) := by
  cases f with
  | zero => simpa [flushF] using h
  | succ f =>
    rw [flushF]
    try dsimp only
    split
    · exact h
    · apply hb_ev
      split
      · apply hb_closeTransportF
        hb_frame
      · hb_frame

theorem hb_flush {w : World} (sid : Nat) (h : HBX n x w) : HBX n x (flush w sid) := hb_flushF _ sid h
theorem hb_closeTransport {w : World} (sid : Nat) (d : Bool) (h : HBX n x w) : HBX n x (closeTransport w sid d) := hb_closeTransportF _ sid d h

theorem hb_sendPacket {w : World} (sid : Nat) (p : Pkt) (cb : Option Nat) (h : HBX n x w) : HBX n x (sendPacket w sid p cb) := by
  unfold sendPacket
  try dsimp only
  split
  · exact h
  · apply hb_flush
    hb_frame

end EIO.Ses
