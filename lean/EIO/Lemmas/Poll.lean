import EIO.Lemmas.LinkStep
/-
A closed polling transport never sits on an idle pending poll:

  P1  polling ∧ closed ∧ a poll is pending → not writable (a writer was started for it, or one was in flight);
  P2  closeWait (a frame transport waiting for its batch to drain before it closes) → not polling;
  P3  a pending poll → the transport is polling;
  T   every queued writer task is of its transport's kind.

`TrMono`: what the close paths may do to a transport — never its kind, never its pending poll, and `writable`
only ever from true to false.
-/
namespace EIO.Ses
open EIO EIO.Codec

structure PollT (t : Tr) : Prop where
  p1 : t.isPolling = true → t.rs = .closed → t.req.isSome → t.writable = false
  p2 : t.closeWait = true → t.isPolling = false
  p3 : t.req.isSome → t.isPolling = true

def taskKindOK (w : World) : Task → Prop
  | .wsSend ti _ => ti < w.trs.size ∧ (w.tr ti).isPolling = false
  | .pollSend ti _ => (w.tr ti).isPolling = true

structure PollX (w : World) : Prop where
  tr : ∀ ti, PollT (w.tr ti)
  tk : ∀ t ∈ w.tasks, taskKindOK w t

/-- the close paths: kind and pending poll of every transport untouched, `writable` only switched off -/
structure TrMono (w w' : World) : Prop where
  size : w'.trs.size = w.trs.size
  kind : ∀ j, (w'.tr j).isPolling = (w.tr j).isPolling
  req : ∀ j, (w'.tr j).req = (w.tr j).req
  wr : ∀ j, (w'.tr j).writable = true → (w.tr j).writable = true

theorem TrMono.refl (w : World) : TrMono w w := ⟨rfl, fun _ => rfl, fun _ => rfl, fun _ h => h⟩
theorem TrMono.trans {a b c : World} (h1 : TrMono a b) (h2 : TrMono b c) : TrMono a c :=
  ⟨h2.size.trans h1.size, fun j => (h2.kind j).trans (h1.kind j), fun j => (h2.req j).trans (h1.req j),
   fun j h => h1.wr j (h2.wr j h)⟩

theorem tm_setTr {w0 w : World} (i : Nat) (f : Tr → Tr) (h : TrMono w0 w)
    (hf : ∀ t, (f t).isPolling = t.isPolling ∧ (f t).req = t.req ∧ ((f t).writable = true → t.writable = true)) :
    TrMono w0 (w.setTr i f) := by
  refine h.trans ⟨by simp, fun j => ?_, fun j => ?_, fun j hw => ?_⟩
  · rw [tr_setTr]; split
    · exact (hf _).1
    · rfl
  · rw [tr_setTr]; split
    · exact (hf _).2.1
    · rfl
  · rw [tr_setTr] at hw; split at hw
    · exact (hf _).2.2 hw
    · exact hw

theorem tm_same {w0 w : World} (w' : World) (h : TrMono w0 w) (ht : w'.trs = w.trs) : TrMono w0 w' := by
  have e : ∀ j, w'.tr j = w.tr j := fun j => by unfold World.tr; rw [ht]
  exact h.trans ⟨by rw [ht], fun j => by rw [e], fun j => by rw [e], fun j hw => by rw [e] at hw; exact hw⟩

theorem tm_setSock {w0 w : World} (i : Nat) (f : Sock → Sock) (h : TrMono w0 w) : TrMono w0 (w.setSock i f) := tm_same _ h rfl
theorem tm_setConn {w0 w : World} (i : Nat) (f : Conn → Conn) (h : TrMono w0 w) : TrMono w0 (w.setConn i f) := tm_same _ h rfl
theorem tm_setReq {w0 w : World} (i : Nat) (f : Req → Req) (h : TrMono w0 w) : TrMono w0 (w.setReq i f) := tm_same _ h rfl
theorem tm_ev {w0 w : World} (s : String) (h : TrMono w0 w) : TrMono w0 (w.ev s) := tm_same _ h rfl
theorem tm_sev {w0 w : World} (sid : Nat) (e : SEv) (h : TrMono w0 w) : TrMono w0 (w.sev sid e) := by
  refine tm_same _ h ?_
  rcases sev_eq w sid e with e1 | e1 <;> rw [e1] <;> rfl
theorem tm_answer {w0 w : World} (r : Nat) (resp : Resp) (h : TrMono w0 w) : TrMono w0 (w.answer r resp) := by
  unfold World.answer; split
  · exact h
  · exact tm_setReq _ _ (tm_ev _ h)
theorem tm_abortData {w0 w : World} (d : Option Nat) (h : TrMono w0 w) : TrMono w0 (abortData w d) := by
  unfold abortData; split
  · exact tm_answer _ _ h
  · exact h
theorem tm_trSend {w0 w : World} (ti : Nat) (b : List Pkt) (h : TrMono w0 w) : TrMono w0 (trSend w ti b) := by
  unfold trSend
  exact tm_same _ (tm_setTr ti (fun t => { t with writable := false }) h (fun _ => ⟨rfl, rfl, fun hw => absurd hw (by simp)⟩)) rfl

macro "tm_prim" : tactic => `(tactic| repeat (first
  | with_reducible assumption
  | with_reducible apply tm_ev | with_reducible apply tm_sev | with_reducible apply tm_answer
  | with_reducible apply tm_trSend | with_reducible apply tm_setConn | with_reducible apply tm_setReq
  | with_reducible apply tm_abortData | with_reducible apply tm_setSock
  | (with_reducible refine tm_setTr _ _ ?_ (fun t => ⟨rfl, rfl, fun hw => hw⟩))))

/-! ### the close paths are monotone -/

theorem tm_candCleanup {w0 w : World} (sid : Nat) (h : TrMono w0 w) : TrMono w0 (candCleanup w sid) := by
  unfold candCleanup
  split
  · exact h
  · tm_prim

theorem tm_close_all (f : Nat) :
    (∀ w0 w ti, TrMono w0 w → TrMono w0 (trEmitClose f w ti)) ∧
    (∀ w0 w ti, TrMono w0 w → TrMono w0 (trOnErrorF f w ti)) ∧
    (∀ w0 w ti, TrMono w0 w → TrMono w0 (trOnCloseBaseF f w ti)) ∧
    (∀ w0 w ti, TrMono w0 w → TrMono w0 (pollOnCloseF f w ti)) ∧
    (∀ w0 w ti, TrMono w0 w → TrMono w0 (runCloseFnF f w ti)) ∧
    (∀ w0 w ti, TrMono w0 w → TrMono w0 (wsCloseNowF f w ti)) ∧
    (∀ w0 w ti fn, TrMono w0 w → TrMono w0 (trCloseF f w ti fn)) ∧
    (∀ w0 w sid, TrMono w0 w → TrMono w0 (clearTransportF f w sid)) ∧
    (∀ w0 w sid, TrMono w0 w → TrMono w0 (candFail f w sid)) ∧
    (∀ w0 w sid r, TrMono w0 w → TrMono w0 (sockOnClose f w sid r)) := by
  induction f with
  | zero =>
    refine ⟨?_, ?_, ?_, ?_, ?_, ?_, ?_, ?_, ?_, ?_⟩ <;> intros <;>
      first
      | (simp only [trEmitClose]; assumption) | (simp only [trOnErrorF]; assumption) | (simp only [trOnCloseBaseF]; assumption)
      | (simp only [pollOnCloseF]; assumption) | (simp only [runCloseFnF]; assumption) | (simp only [wsCloseNowF]; assumption)
      | (simp only [trCloseF]; assumption) | (simp only [clearTransportF]; assumption)
      | (simp only [candFail]; exact tm_candCleanup _ (by assumption)) | (simp only [sockOnClose]; assumption)
  | succ f ih =>
    obtain ⟨iEC, iOE, iCB, iPC, iRF, iWN, iTC, iCT, iCF, iSC⟩ := ih
    refine ⟨?_, ?_, ?_, ?_, ?_, ?_, ?_, ?_, ?_, ?_⟩
    · intro w0 w ti h
      rw [trEmitClose]; split
      · exact iSC _ _ _ _ h
      · exact iCF _ _ _ h
      · exact h
    · intro w0 w ti h
      rw [trOnErrorF]; split
      · exact iSC _ _ _ _ h
      · exact iCF _ _ _ h
      · exact h
    · intro w0 w ti h
      rw [trOnCloseBaseF]; split
      · exact h
      · apply iEC; tm_prim
    · intro w0 w ti h
      rw [pollOnCloseF]
      apply iCB
      split <;> tm_prim
    · intro w0 w ti h
      rw [runCloseFnF]
      try dsimp only
      split
      · apply iSC; tm_prim
      · tm_prim
    · intro w0 w ti h
      rw [wsCloseNowF]
      try dsimp only
      apply iCB; apply tm_setConn; apply iRF; tm_prim
    · intro w0 w ti fn h
      rw [trCloseF]
      try dsimp only
      split
      · exact h
      · have h1 : TrMono w0 (w.setTr ti fun t => { t with rs := .closing, closeFn := fn }) := by tm_prim
        split
        · have h2 := tm_abortData (w.tr ti).dataReq h1
          split
          · apply iPC; apply iRF; tm_prim
          · split
            · apply iPC; apply iRF; exact h2
            · tm_prim
        · split
          · exact iWN _ _ _ h1
          · tm_prim
    · intro w0 w sid h
      rw [clearTransportF]
      try dsimp only
      apply tm_setSock; apply iTC; tm_prim
    · intro w0 w sid h
      rw [candFail]
      split
      · exact h
      · apply iTC; exact tm_candCleanup _ h
    · intro w0 w sid r h
      rw [sockOnClose]
      split
      · exact h
      · try dsimp only
        apply tm_setSock; apply iCF; apply tm_sev
        refine tm_same _ (iCT _ _ _ (tm_setSock _ _ h)) rfl

/-! ### PollX: primitive steps -/

theorem polling_in_table (w : World) (ti : Nat) (h : (w.tr ti).isPolling = true) : ti < w.trs.size := by
  apply Nat.lt_of_not_le; intro hle
  rw [tr_oob w ti hle] at h; cases h

theorem writable_in_table (w : World) (ti : Nat) (h : (w.tr ti).writable = true) : ti < w.trs.size := by
  apply Nat.lt_of_not_le; intro hle
  rw [tr_oob w ti hle] at h; cases h

theorem taskKindOK_congr {w w' : World} (t : Task) (hsz : w'.trs.size = w.trs.size)
    (hk : ∀ j, (w'.tr j).isPolling = (w.tr j).isPolling) (h : taskKindOK w t) : taskKindOK w' t := by
  cases t with
  | wsSend ti b => exact ⟨by rw [hsz]; exact h.1, by rw [hk]; exact h.2⟩
  | pollSend ti b => show (w'.tr ti).isPolling = true; rw [hk]; exact h

/-- an update of one transport that keeps its kind -/
theorem px_setTr {w : World} (i : Nat) (f : Tr → Tr) (hk : ∀ t, (f t).isPolling = t.isPolling)
    (hf : PollT (w.tr i) → PollT (f (w.tr i))) (p : PollX w) : PollX (w.setTr i f) := by
  have hkk : ∀ j, ((w.setTr i f).tr j).isPolling = (w.tr j).isPolling := fun j => by
    rw [tr_setTr]; split
    · exact hk _
    · rfl
  refine ⟨fun j => ?_, fun t ht => taskKindOK_congr t (by simp) hkk (p.tk t ht)⟩
  rw [tr_setTr]; split
  · rename_i e; obtain ⟨e, _⟩ := e; subst e; exact hf (p.tr _)
  · exact p.tr j

/-- the transports and the queued writers are what they were -/
theorem px_same {w : World} (w' : World) (p : PollX w) (ht : w'.trs = w.trs) (hq : w'.tasks = w.tasks) : PollX w' := by
  have e : ∀ j, w'.tr j = w.tr j := fun j => by unfold World.tr; rw [ht]
  refine ⟨fun j => by rw [e]; exact p.tr j, fun t h => ?_⟩
  rw [hq] at h
  exact taskKindOK_congr t (by rw [ht]) (fun j => by rw [e]) (p.tk t h)

theorem px_setSock {w : World} (i : Nat) (f : Sock → Sock) (p : PollX w) : PollX (w.setSock i f) := px_same _ p rfl rfl
theorem px_setConn {w : World} (i : Nat) (f : Conn → Conn) (p : PollX w) : PollX (w.setConn i f) := px_same _ p rfl rfl
theorem px_setReq {w : World} (i : Nat) (f : Req → Req) (p : PollX w) : PollX (w.setReq i f) := px_same _ p rfl rfl
theorem px_ev {w : World} (s : String) (p : PollX w) : PollX (w.ev s) := px_same _ p rfl rfl
theorem px_sev {w : World} (sid : Nat) (e : SEv) (p : PollX w) : PollX (w.sev sid e) := by
  rcases sev_eq w sid e with e1 | e1 <;> rw [e1] <;> exact px_same _ p rfl rfl
theorem px_answer {w : World} (r : Nat) (resp : Resp) (p : PollX w) : PollX (w.answer r resp) := by
  unfold World.answer; split
  · exact p
  · exact px_setReq _ _ (px_ev _ p)
theorem px_abortData {w : World} (d : Option Nat) (p : PollX w) : PollX (abortData w d) := by
  unfold abortData; split
  · exact px_answer _ _ p
  · exact p

/-- a writer is started on a transport that exists -/
theorem px_trSend {w : World} (ti : Nat) (b : List Pkt) (hin : ti < w.trs.size) (p : PollX w) : PollX (trSend w ti b) := by
  unfold trSend
  have p1 : PollX (w.setTr ti fun t => { t with writable := false }) :=
    px_setTr ti _ (fun _ => rfl) (fun h => ⟨fun _ _ _ => rfl, h.p2, h.p3⟩) p
  have hin1 : ti < (w.setTr ti fun t => { t with writable := false }).trs.size := by simpa using hin
  generalize (w.setTr ti fun t => { t with writable := false }) = w1 at p1 hin1 ⊢
  have e : ∀ j, ({ w1 with tasks := w1.tasks ++ [if (w1.tr ti).isPolling = true then Task.pollSend ti b else Task.wsSend ti b] } : World).tr j = w1.tr j :=
    fun _ => rfl
  refine ⟨fun j => by rw [e]; exact p1.tr j, fun t ht => ?_⟩
  have ht : t ∈ w1.tasks ++ [if (w1.tr ti).isPolling = true then Task.pollSend ti b else Task.wsSend ti b] := ht
  rcases List.mem_append.mp ht with h | h
  · exact taskKindOK_congr t rfl (fun j => by rw [e]) (p1.tk t h)
  · have : t = (if (w1.tr ti).isPolling = true then Task.pollSend ti b else Task.wsSend ti b) := by simpa using h
    subst this
    by_cases hp : (w1.tr ti).isPolling = true
    · rw [if_pos hp]
      have : taskKindOK w1 (Task.pollSend ti b) := hp
      exact taskKindOK_congr _ rfl (fun j => by rw [e]) this
    · rw [if_neg hp]
      have : taskKindOK w1 (Task.wsSend ti b) := ⟨hin1, by simpa using hp⟩
      exact taskKindOK_congr _ rfl (fun j => by rw [e]) this

macro "px_prim" : tactic => `(tactic| repeat (first
  | with_reducible assumption
  | with_reducible apply px_ev | with_reducible apply px_sev | with_reducible apply px_answer
  | with_reducible apply px_setConn | with_reducible apply px_setReq
  | with_reducible apply px_abortData | with_reducible apply px_setSock))

/-- field updates of a transport that the poll condition does not read -/
theorem PollT.keep {t t' : Tr} (h : PollT t) (hk : t'.isPolling = t.isPolling) (hr : t'.rs = t.rs ∨ t'.rs ≠ .closed) (hq : t'.req = t.req)
    (hw : t'.writable = t.writable ∨ t'.writable = false) (hc : t'.closeWait = t.closeWait ∨ t'.closeWait = false) : PollT t' := by
  refine ⟨fun a b c => ?_, fun a => ?_, fun a => ?_⟩
  · rcases hw with hw | hw
    · rw [hw]
      rcases hr with hr | hr
      · exact h.p1 (hk ▸ a) (hr ▸ b) (hq ▸ c)
      · exact absurd b hr
    · exact hw
  · rcases hc with hc | hc
    · rw [hk]; exact h.p2 (hc ▸ a)
    · rw [hc] at a; cases a
  · rw [hk]; exact h.p3 (hq ▸ a)

macro "px_keep" : tactic => `(tactic|
  (with_reducible refine px_setTr _ _ (fun _ => rfl) (fun h => h.keep rfl (Or.inl rfl) rfl (Or.inl rfl) (Or.inl rfl)) ?_))

theorem px_candCleanup {w : World} (sid : Nat) (p : PollX w) : PollX (candCleanup w sid) := by
  unfold candCleanup
  split
  · exact p
  · px_keep; px_prim

theorem tr_abortData' (w : World) (d : Option Nat) (j : Nat) : (abortData w d).tr j = w.tr j := by
  unfold abortData; split <;> simp

/-! ### PollX through the close paths -/

theorem px_close_all (f : Nat) :
    (∀ w ti, PollX w → PollX (trEmitClose f w ti)) ∧
    (∀ w ti, PollX w → PollX (trOnErrorF f w ti)) ∧
    (∀ w ti, PollX w → ((w.tr ti).isPolling = true → (w.tr ti).req.isSome → (w.tr ti).writable = false) →
      PollX (trOnCloseBaseF f w ti)) ∧
    (∀ w ti, PollX w → PollX (pollOnCloseF f w ti)) ∧
    (∀ w ti, PollX w → PollX (runCloseFnF f w ti)) ∧
    (∀ w ti, PollX w → (w.tr ti).isPolling = false → PollX (wsCloseNowF f w ti)) ∧
    (∀ w ti fn, PollX w → PollX (trCloseF f w ti fn)) ∧
    (∀ w sid, PollX w → PollX (clearTransportF f w sid)) ∧
    (∀ w sid, PollX w → PollX (candFail f w sid)) ∧
    (∀ w sid r, PollX w → PollX (sockOnClose f w sid r)) := by
  induction f with
  | zero =>
    refine ⟨?_, ?_, ?_, ?_, ?_, ?_, ?_, ?_, ?_, ?_⟩ <;> intros <;>
      first
      | (simp only [trEmitClose]; assumption) | (simp only [trOnErrorF]; assumption) | (simp only [trOnCloseBaseF]; assumption)
      | (simp only [pollOnCloseF]; assumption) | (simp only [runCloseFnF]; assumption) | (simp only [wsCloseNowF]; assumption)
      | (simp only [trCloseF]; assumption) | (simp only [clearTransportF]; assumption)
      | (simp only [candFail]; exact px_candCleanup _ (by assumption)) | (simp only [sockOnClose]; assumption)
  | succ f ih =>
    obtain ⟨iEC, iOE, iCB, iPC, iRF, iWN, iTC, iCT, iCF, iSC⟩ := ih
    obtain ⟨_, _, _, _, mRF, _, _, _, _, _⟩ := tm_close_all f
    refine ⟨?_, ?_, ?_, ?_, ?_, ?_, ?_, ?_, ?_, ?_⟩
    · intro w ti p
      rw [trEmitClose]; split
      · exact iSC _ _ _ p
      · exact iCF _ _ p
      · exact p
    · intro w ti p
      rw [trOnErrorF]; split
      · exact iSC _ _ _ p
      · exact iCF _ _ p
      · exact p
    · intro w ti p hpre
      rw [trOnCloseBaseF]; split
      · exact p
      · apply iEC
        refine px_setTr ti _ (fun _ => rfl) (fun h => ⟨fun a _ c => hpre a c, h.p2, h.p3⟩) p
    · intro w ti p
      rw [pollOnCloseF]
      by_cases hw : (w.tr ti).writable = true
      · simp only [hw, if_true]
        have hin := writable_in_table w ti hw
        apply iCB _ _ (px_trSend ti _ hin p)
        intro _ _
        unfold trSend
        show ((w.setTr ti fun t => { t with writable := false }).tr ti).writable = false
        rw [tr_setTr]; simp [hin]
      · simp only [hw, if_false]
        exact iCB _ _ p (fun _ _ => by simpa using hw)
    · intro w ti p
      rw [runCloseFnF]
      try dsimp only
      split
      · apply iSC; px_keep; exact p
      · px_keep; exact p
    · intro w ti p hnp
      rw [wsCloseNowF]
      try dsimp only
      have p1 : PollX (w.setTr ti fun t => { t with closeWait := false, closeTimerDue := none }) :=
        px_setTr ti _ (fun _ => rfl) (fun h => h.keep rfl (Or.inl rfl) rfl (Or.inl rfl) (Or.inr rfl)) p
      have hk1 : ((w.setTr ti fun t => { t with closeWait := false, closeTimerDue := none }).tr ti).isPolling = false := by
        rw [tr_setTr]; split <;> exact hnp
      have m := mRF _ _ ti (TrMono.refl (w.setTr ti fun t => { t with closeWait := false, closeTimerDue := none }))
      have p2 := iRF _ ti p1
      have hk2 := (m.kind ti).trans hk1
      generalize runCloseFnF f (w.setTr ti fun t => { t with closeWait := false, closeTimerDue := none }) ti = w2 at p2 hk2 ⊢
      apply iCB _ _ (px_setConn _ _ p2)
      intro a _
      rw [tr_setConn, hk2] at a; cases a
    · intro w ti fn p
      rw [trCloseF]
      try dsimp only
      split
      · exact p
      · rename_i hcl
        have p1 : PollX (w.setTr ti fun t => { t with rs := .closing, closeFn := fn }) :=
          px_setTr ti _ (fun _ => rfl) (fun h => h.keep rfl (Or.inr (by simp)) rfl (Or.inl rfl) (Or.inl rfl)) p
        have hk1 : ((w.setTr ti fun t => { t with rs := .closing, closeFn := fn }).tr ti).isPolling = (w.tr ti).isPolling := by
          rw [tr_setTr]; split <;> rfl
        split
        · rename_i hpol
          have p2 := px_abortData (w.tr ti).dataReq p1
          have hk2 : ((abortData (w.setTr ti fun t => { t with rs := .closing, closeFn := fn }) (w.tr ti).dataReq).tr ti).isPolling = true := by
            rw [tr_abortData', hk1]; exact hpol
          generalize abortData (w.setTr ti fun t => { t with rs := .closing, closeFn := fn }) (w.tr ti).dataReq = w2 at p2 hk2 ⊢
          split
          · exact iPC _ _ (iRF _ _ (px_trSend ti _ (polling_in_table w2 ti hk2) p2))
          · split
            · exact iPC _ _ (iRF _ _ p2)
            · px_keep; exact p2
        · rename_i hnpol
          have hnp1 : ((w.setTr ti fun t => { t with rs := .closing, closeFn := fn }).tr ti).isPolling = false := by
            rw [hk1]; simpa using hnpol
          split
          · exact iWN _ _ p1 hnp1
          · refine px_setTr ti _ (fun _ => rfl) (fun h => ⟨h.p1, fun _ => hnp1, h.p3⟩) p1
    · intro w sid p
      rw [clearTransportF]
      try dsimp only
      apply px_setSock; apply iTC; px_keep; exact p
    · intro w sid p
      rw [candFail]
      split
      · exact p
      · apply iTC; exact px_candCleanup _ p
    · intro w sid r p
      rw [sockOnClose]
      split
      · exact p
      · try dsimp only
        apply px_setSock; apply iCF; apply px_sev
        refine px_same _ (iCT _ _ (px_setSock _ _ p)) rfl rfl

end EIO.Ses
