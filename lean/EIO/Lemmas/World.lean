import EIO.Model.Session
/- frame lemmas for the primitive updates of the session model's world -/
namespace EIO.Ses
open EIO

theorem getD_modify_self {α} (a : Array α) (i : Nat) (f : α → α) (d : α) (h : i < a.size) :
    (a.modify i f).getD i d = f (a.getD i d) := by
  simp [Array.getD, h, Array.getElem_modify]

theorem getD_modify_other {α} (a : Array α) (i j : Nat) (f : α → α) (d : α) (h : i ≠ j) :
    (a.modify i f).getD j d = a.getD j d := by
  simp only [Array.getD, Array.size_modify]
  split
  · simp [Array.getElem_modify, h]
  · rfl

theorem getD_modify_oob {α} (a : Array α) (i j : Nat) (f : α → α) (d : α) (h : a.size ≤ i) :
    (a.modify i f).getD j d = a.getD j d := by
  by_cases hij : i = j
  · subst hij
    simp only [Array.getD, Array.size_modify]
    have : ¬ i < a.size := by omega
    simp [this]
  · exact getD_modify_other a i j f d hij

theorem getD_push_lt {α} (a : Array α) (x d : α) (i : Nat) (h : i < a.size) : (a.push x).getD i d = a.getD i d := by
  rw [Array.getD_eq_getD_getElem?, Array.getD_eq_getD_getElem?, Array.getElem?_push_lt h]; simp [h]
theorem getD_push_eq {α} (a : Array α) (x d : α) : (a.push x).getD a.size d = x := by
  rw [Array.getD_eq_getD_getElem?]; simp
theorem getD_oob {α} (a : Array α) (d : α) (i : Nat) (h : a.size ≤ i) : a.getD i d = d := by
  rw [Array.getD_eq_getD_getElem?, Array.getElem?_eq_none h]; rfl

/-- reading a modified array: the modified slot (if it exists) or the old value -/
theorem getD_modify {α} (a : Array α) (i j : Nat) (f : α → α) (d : α) :
    (a.modify i f).getD j d = if i = j ∧ i < a.size then f (a.getD j d) else a.getD j d := by
  by_cases hij : i = j
  · subst hij
    by_cases hs : i < a.size
    · rw [getD_modify_self a i f d hs]; simp [hs]
    · simp [hs, getD_modify_oob a i i f d (by omega)]
  · simp [hij, getD_modify_other a i j f d hij]

@[simp] theorem sock_setSock (w : World) (i j : Nat) (f : Sock → Sock) :
    (w.setSock i f).sock j = if i = j ∧ i < w.socks.size then f (w.sock j) else w.sock j := by
  unfold World.setSock World.sock; exact getD_modify _ _ _ _ _

@[simp] theorem tr_setTr (w : World) (i j : Nat) (f : Tr → Tr) :
    (w.setTr i f).tr j = if i = j ∧ i < w.trs.size then f (w.tr j) else w.tr j := by
  unfold World.setTr World.tr; exact getD_modify _ _ _ _ _

@[simp] theorem sock_setTr (w : World) (i j : Nat) (f : Tr → Tr) : (w.setTr i f).sock j = w.sock j := rfl
@[simp] theorem tr_setSock (w : World) (i j : Nat) (f : Sock → Sock) : (w.setSock i f).tr j = w.tr j := rfl
@[simp] theorem sock_setReq (w : World) (i j : Nat) (f : Req → Req) : (w.setReq i f).sock j = w.sock j := rfl
@[simp] theorem tr_setReq (w : World) (i j : Nat) (f : Req → Req) : (w.setReq i f).tr j = w.tr j := rfl
@[simp] theorem sock_setConn (w : World) (i j : Nat) (f : Conn → Conn) : (w.setConn i f).sock j = w.sock j := rfl
@[simp] theorem tr_setConn (w : World) (i j : Nat) (f : Conn → Conn) : (w.setConn i f).tr j = w.tr j := rfl
@[simp] theorem sock_ev (w : World) (s : String) (j : Nat) : (w.ev s).sock j = w.sock j := rfl
@[simp] theorem tr_ev (w : World) (s : String) (j : Nat) : (w.ev s).tr j = w.tr j := rfl

@[simp] theorem socks_size_setSock (w : World) (i : Nat) (f : Sock → Sock) :
    (w.setSock i f).socks.size = w.socks.size := by unfold World.setSock; simp
@[simp] theorem socks_setTr (w : World) (i : Nat) (f : Tr → Tr) : (w.setTr i f).socks = w.socks := rfl
@[simp] theorem socks_setReq (w : World) (i : Nat) (f : Req → Req) : (w.setReq i f).socks = w.socks := rfl
@[simp] theorem socks_setConn (w : World) (i : Nat) (f : Conn → Conn) : (w.setConn i f).socks = w.socks := rfl
@[simp] theorem socks_ev (w : World) (s : String) : (w.ev s).socks = w.socks := rfl
@[simp] theorem trs_size_setTr (w : World) (i : Nat) (f : Tr → Tr) :
    (w.setTr i f).trs.size = w.trs.size := by unfold World.setTr; simp
@[simp] theorem trs_setSock (w : World) (i : Nat) (f : Sock → Sock) : (w.setSock i f).trs = w.trs := rfl
@[simp] theorem trs_setReq (w : World) (i : Nat) (f : Req → Req) : (w.setReq i f).trs = w.trs := rfl
@[simp] theorem trs_setConn (w : World) (i : Nat) (f : Conn → Conn) : (w.setConn i f).trs = w.trs := rfl
@[simp] theorem trs_ev (w : World) (s : String) : (w.ev s).trs = w.trs := rfl

@[simp] theorem reqs_setSock (w : World) (i : Nat) (f : Sock → Sock) : (w.setSock i f).reqs = w.reqs := rfl
@[simp] theorem reqs_setTr (w : World) (i : Nat) (f : Tr → Tr) : (w.setTr i f).reqs = w.reqs := rfl
@[simp] theorem reqs_setConn (w : World) (i : Nat) (f : Conn → Conn) : (w.setConn i f).reqs = w.reqs := rfl
@[simp] theorem reqs_ev (w : World) (s : String) : (w.ev s).reqs = w.reqs := rfl
theorem req_setReq (w : World) (i j : Nat) (f : Req → Req) :
    (w.setReq i f).reqs.getD j default = if i = j ∧ i < w.reqs.size then f (w.reqs.getD j default) else w.reqs.getD j default := by
  unfold World.setReq; exact getD_modify _ _ _ _ _

@[simp] theorem registry_setSock (w : World) (i : Nat) (f : Sock → Sock) : (w.setSock i f).registry = w.registry := rfl
@[simp] theorem registry_setTr (w : World) (i : Nat) (f : Tr → Tr) : (w.setTr i f).registry = w.registry := rfl
@[simp] theorem registry_setReq (w : World) (i : Nat) (f : Req → Req) : (w.setReq i f).registry = w.registry := rfl
@[simp] theorem registry_setConn (w : World) (i : Nat) (f : Conn → Conn) : (w.setConn i f).registry = w.registry := rfl
@[simp] theorem registry_ev (w : World) (s : String) : (w.ev s).registry = w.registry := rfl

@[simp] theorem slog_setSock (w : World) (i : Nat) (f : Sock → Sock) : (w.setSock i f).slog = w.slog := rfl
@[simp] theorem slog_setTr (w : World) (i : Nat) (f : Tr → Tr) : (w.setTr i f).slog = w.slog := rfl
@[simp] theorem slog_setReq (w : World) (i : Nat) (f : Req → Req) : (w.setReq i f).slog = w.slog := rfl
@[simp] theorem slog_setConn (w : World) (i : Nat) (f : Conn → Conn) : (w.setConn i f).slog = w.slog := rfl
@[simp] theorem slog_ev (w : World) (s : String) : (w.ev s).slog = w.slog := rfl

theorem sev_eq (w : World) (sid : Nat) (e : SEv) :
    w.sev sid e = { w with slog := w.slog ++ [(sid, e)] } ∨
    w.sev sid e = ({ w with slog := w.slog ++ [(sid, e)] } : World).ev s!"s{sid}:{e.render}" := by
  unfold World.sev; simp only []; split <;> simp

@[simp] theorem sock_sev (w : World) (sid : Nat) (e : SEv) (j : Nat) : (w.sev sid e).sock j = w.sock j := by
  rcases sev_eq w sid e with h | h <;> rw [h] <;> rfl
@[simp] theorem tr_sev (w : World) (sid : Nat) (e : SEv) (j : Nat) : (w.sev sid e).tr j = w.tr j := by
  rcases sev_eq w sid e with h | h <;> rw [h] <;> rfl
@[simp] theorem socks_sev (w : World) (sid : Nat) (e : SEv) : (w.sev sid e).socks = w.socks := by
  rcases sev_eq w sid e with h | h <;> rw [h] <;> rfl
@[simp] theorem trs_sev (w : World) (sid : Nat) (e : SEv) : (w.sev sid e).trs = w.trs := by
  rcases sev_eq w sid e with h | h <;> rw [h] <;> rfl
@[simp] theorem reqs_sev (w : World) (sid : Nat) (e : SEv) : (w.sev sid e).reqs = w.reqs := by
  rcases sev_eq w sid e with h | h <;> rw [h] <;> rfl
@[simp] theorem registry_sev (w : World) (sid : Nat) (e : SEv) : (w.sev sid e).registry = w.registry := by
  rcases sev_eq w sid e with h | h <;> rw [h] <;> rfl
@[simp] theorem slog_sev (w : World) (sid : Nat) (e : SEv) : (w.sev sid e).slog = w.slog ++ [(sid, e)] := by
  rcases sev_eq w sid e with h | h <;> rw [h] <;> rfl

theorem sock_oob (w : World) (i : Nat) (h : w.socks.size ≤ i) : w.sock i = default := by
  unfold World.sock Array.getD; simp [Nat.not_lt.mpr h]
theorem tr_oob (w : World) (i : Nat) (h : w.trs.size ≤ i) : w.tr i = default := by
  unfold World.tr Array.getD; simp [Nat.not_lt.mpr h]

end EIO.Ses
