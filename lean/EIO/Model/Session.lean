import EIO.Model.Codec
/-
Big-step ("quiescent") model of the session layer: engine/socket.go,
engine/base-server.go (Handshake), engine/server.go (HandleRequest /
HandleUpgrade / onWebSocket), transports/transport.go, polling.go,
polling-jsonp.go, websocket.go. One `step` = one entry-point call made by a
client or by the application, followed by every spawned writer task run to
completion in spawn order (the schedule the harness forces through the
`*.send.begin` yield points). Virtual time in milliseconds.

Observations are appended to `World.evs` as the same tokens the harness prints.
-/
namespace EIO.Ses
open EIO EIO.Codec

inductive RS where
  | opening | open_ | closing | closed
  deriving DecidableEq, Repr, Inhabited

def RS.name : RS → String
  | .opening => "opening" | .open_ => "open" | .closing => "closing" | .closed => "closed"

def RS.rank : RS → Nat
  | .opening => 0 | .open_ => 1 | .closing => 2 | .closed => 3

inductive TRS where
  | open_ | closing | closed
  deriving DecidableEq, Repr, Inhabited

/-- whose listeners a transport currently carries -/
inductive Role where
  | none | current (sid : Nat) | candidate (sid : Nat)
  deriving DecidableEq, Repr, Inhabited

structure Tr where
  isPolling : Bool
  proto : Nat
  b64 : Bool
  jsonp : Option Bytes := none
  rs : TRS := .open_
  writable : Bool := false
  discarded : Bool := false
  role : Role := .none
  silenced : Bool := false           -- the "error" silencer installed by clearTransport
  owner : Nat := 0                   -- the session whose Handshake created the "headers" listener
  -- polling
  req : Option Nat := none
  dataReq : Option Nat := none
  shouldClose : Bool := false
  -- websocket
  conn : Nat := 0
  closeWait : Bool := false          -- DoClose waits for the pending batch to drain
  wt : Bool := false                 -- a WebTransport session instead of a WebSocket connection
  -- both: the close timeout and the callback handed to Close (always OnClose("forced close") of a session)
  closeTimerDue : Option Nat := none
  closeFn : Option Nat := none
  deriving Repr, Inhabited

structure Cand where
  tr : Nat
  timeoutDue : Option Nat
  checkDue : Option Nat := none
  deriving Repr, Inhabited

structure Sock where
  proto : Nat
  rs : RS := .opening
  tr : Nat
  upgrading : Bool := false
  upgraded : Bool := false
  announced : Bool := false
  wbuf : List Pkt := []
  packetsFn : List Nat := []
  sentCb : List (List Nat) := []
  pingIntervalDue : Option Nat := none
  pingTimeoutDue : Option Nat := none
  drainClose : Option Bool := none     -- Close(false) waits for the "drain" event
  cand : Option Cand := none
  deriving Repr, Inhabited

structure Resp where
  status : Nat
  ct : String
  ce : String := "-"
  body : Bytes := []
  deriving Repr, Inhabited

structure Req where
  isPost : Bool := false
  done : Bool := false          -- the handler has returned
  resp : Option Resp := none
  reported : Bool := false
  consumed : Option Nat := none
  cookie : Option Bytes := none
  pollOf : Option Nat := none   -- the polling transport whose pending poll this is
  ae : Bytes := []              -- Accept-Encoding
  hasSid : Bool := true
  panicked : Bool := false
  deriving Repr, Inhabited

structure Conn where
  serverOpen : Bool := true
  clientOpen : Bool := true
  frames : List Msg := []
  ended : Option String := none
  endReported : Bool := false
  wt : Bool := false
  deriving Repr, Inhabited

structure Opts where
  I : Nat := 25000
  T : Nat := 20000
  U : Nat := 10000
  maxPayload : Nat := 1000000
  transports : List String := ["polling", "websocket"]
  upgrades : Bool := true
  eio3 : Bool := false
  initial : Option Bytes := none
  cookie : Bool := false
  thr : Nat := 1024
  hdr : Bool := false
  deriving Repr, Inhabited

inductive Task where
  | pollSend (tr : Nat) (batch : List Pkt)
  | wsSend (tr : Nat) (batch : List Pkt)
  deriving Repr, Inhabited

/-- the events of a session, as the application's listeners see them -/
inductive SEv where
  | connection (rs : RS) (trName : String) (proto : Nat)
  | close (reason : String) (rs : RS)
  | packetCreate (p : Pkt) (cb : Option Nat)      -- the packet, and the id of the callback handed to Send (not printed)
  | flush (batch : List Pkt) (cbs : List Nat)     -- the batch handed over, and the callbacks that travel with it (not printed)
  | drain
  | cb (id : Nat)
  | upgrading
  | upgrade
  | packet (t : PT)
  | heartbeat
  | message (m : Option Msg)
  deriving Repr, Inhabited

def SEv.isClose : SEv → Bool
  | .close _ _ => true
  | _ => false

structure World where
  o : Opts := {}
  now : Nat := 0
  trs : Array Tr := #[]
  socks : Array Sock := #[]
  reqs : Array Req := #[]
  conns : Array Conn := #[]
  registry : List Nat := []
  tasks : List Task := []
  evs : List String := []
  slog : List (Nat × SEv) := []      -- every session event so far, structured (what the theorems speak about)
  cbSeq : Nat := 0
  fault : Option String := none      -- the process hangs or dies: nothing is observed any more
  deriving Repr, Inhabited

abbrev closeTimeout : Nat := 30000
abbrev checkPeriod : Nat := 100

/-! ### small accessors -/

def World.tr (w : World) (i : Nat) : Tr := w.trs.getD i default
def World.sock (w : World) (i : Nat) : Sock := w.socks.getD i default
def World.setTr (w : World) (i : Nat) (f : Tr → Tr) : World := { w with trs := w.trs.modify i f }
def World.setSock (w : World) (i : Nat) (f : Sock → Sock) : World := { w with socks := w.socks.modify i f }
def World.setReq (w : World) (i : Nat) (f : Req → Req) : World := { w with reqs := w.reqs.modify i f }
def World.setConn (w : World) (i : Nat) (f : Conn → Conn) : World := { w with conns := w.conns.modify i f }

def World.ev (w : World) (s : String) : World := { w with evs := w.evs ++ [s!"E:{w.now}:{s}"] }

def pktChars (ps : List Pkt) : String :=
  if ps.isEmpty then "-" else String.ofList (ps.map fun p => Char.ofNat p.typ.char.toNat)

def hexDigitC (n : Nat) : Char := if n < 10 then Char.ofNat (48 + n) else Char.ofNat (87 + n)
def hexStr (bs : Bytes) : String :=
  if bs.isEmpty then "-" else
  String.ofList (bs.foldr (fun b acc => hexDigitC (b.toNat / 16) :: hexDigitC (b.toNat % 16) :: acc) [])

def kindStr : Kind → String | .text => "t" | .binary => "b"

/-- the token of a session event -/
def SEv.render : SEv → String
  | .connection rs trName proto => s!"connection:{rs.name}:{trName}:{proto}"
  | .close reason rs => s!"close:{reason}:{rs.name}"
  | .packetCreate p _ => s!"packetCreate:{p.typ.name}"
  | .flush batch _ => s!"flush:{pktChars batch}"
  | .drain => "drain"
  | .cb id => s!"cb:{id}"
  | .upgrading => "upgrading"
  | .upgrade => "upgrade"
  | .packet t => s!"packet:{t.name}"
  | .heartbeat => "heartbeat"
  | .message (some m) => s!"message:{kindStr m.kind}:{hexStr m.data}"
  | .message none => "message:t:-"

/-- an event of a session: logged always, printed (visible to the application's
    listeners) only once the session has been announced -/
def World.sev (w : World) (sid : Nat) (e : SEv) : World :=
  let w := { w with slog := w.slog ++ [(sid, e)] }
  if (w.sock sid).announced then w.ev s!"s{sid}:{e.render}" else w

/-- the 24-character stand-in for the random id of session `k` -/
def sidBytes (k : Nat) : Bytes :=
  List.replicate 20 126 ++ (natDigits (10000 + k)).drop 1

/-! ### transports -/

/-- `Transport.Name()` -/
def Tr.name (t : Tr) : String :=
  if t.isPolling then "polling" else if t.wt then "webtransport" else "websocket"

def supportsBinary (t : Tr) : Bool := !t.b64

def encodePacket (t : Tr) (p : Pkt) : Enc :=
  if t.proto = 3 then encodePacketV3 p (supportsBinary t) false else encodePacketV4 p (supportsBinary t)

def encodePayload (t : Tr) (ps : List Pkt) : Enc :=
  if t.proto = 3 then encodePayloadV3 ps (supportsBinary t) else encodePayloadV4 ps

/-- `Transport.Send`: the batch is handed to a writer goroutine -/
def trSend (w : World) (ti : Nat) (batch : List Pkt) : World :=
  let w := w.setTr ti fun t => { t with writable := false }
  { w with tasks := w.tasks ++ [if (w.tr ti).isPolling then .pollSend ti batch else .wsSend ti batch] }

/-- `acceptedEncoding` of transports/polling.go -/
def asciiLower (b : UInt8) : UInt8 := if 65 ≤ b ∧ b ≤ 90 then b + 32 else b
def trimSp (bs : Bytes) : Bytes :=
  let f := fun (l : Bytes) => l.dropWhile fun b => b = 32 ∨ b = 9 ∨ b = 10 ∨ b = 13
  (f (f bs).reverse).reverse
def splitOn (c : UInt8) : Bytes → List Bytes
  | [] => [[]]
  | b :: rest =>
    match splitOn c rest with
    | [] => [[b]]
    | seg :: segs => if b = c then [] :: seg :: segs else (b :: seg) :: segs

/-- does a `q=` parameter value parse (strconv.ParseFloat) to zero? only the
    plain decimal spellings of zero a header would carry are recognised -/
def isZeroQ (v : Bytes) : Bool :=
  let v := trimSp v
  let v := match v with | 43 :: r => r | 45 :: r => r | r => r
  !v.isEmpty ∧ v.all (fun b => b = 48 ∨ b = 46) ∧ v.any (· = 48) ∧ (v.filter (· = 46)).length ≤ 1

/-- the coding names an Accept-Encoding value offers: per comma-separated part,
    the token before any parameters, trimmed and lower-cased, unless it has q=0 -/
def namedCodings (header : Bytes) : List Bytes :=
  (splitOn 44 header).filterMap fun part =>
    match splitOn 59 part with
    | [] => none
    | nameB :: params =>
      let name := (trimSp nameB).map asciiLower
      if name.isEmpty then none else
      let refused := params.any fun p =>
        match splitOn 61 (trimSp p) with
        | k :: v :: rest => ((trimSp k).map asciiLower == [113]) ∧ isZeroQ (v ++ (rest.map (fun x => 61 :: x)).flatten)
        | _ => false
      if refused then none else some name

def supportedCodings : List String := ["gzip", "deflate", "br", "zstd"]

def acceptedEncoding (header : Bytes) : String :=
  (supportedCodings.find? fun c => (namedCodings header).contains c.toUTF8.toList).getD ""

/-! ### HTTP responses -/

/-- the handler writes the response of request `r` (`HttpContext.Write` refuses a second write) -/
def World.answer (w : World) (r : Nat) (resp : Resp) : World :=
  if (w.reqs.getD r default).resp.isSome then w else
  let w := w.ev s!"req:write:{r}"
  w.setReq r fun q => { q with resp := some resp, done := true }

/-- "aborting ongoing data request": `DoClose` answers a data request still being processed -/
def abortData (w : World) (d : Option Nat) : World :=
  match d with
  | some r => w.answer r { status := 429, ct := "-" }
  | none => w

/-- `MaybeUpgrade`'s cleanup -/
def candCleanup (w : World) (sid : Nat) : World :=
  match (w.sock sid).cand with
  | none => w
  | some c =>
    let w := w.setSock sid fun s => { s with upgrading := false, cand := none }
    w.setTr c.tr fun t => { t with role := .none }

/-- The close paths call each other (a session closing closes its transport,
    whose close event may close the session again, or a pending candidate …);
    the recursion is bounded by the number of objects involved, `fuel` makes it
    structural. `closeFuel` is far more than any chain needs. -/
abbrev closeFuel : Nat := 12

mutual
/-- the listeners of a transport's "close" event, by role -/
def trEmitClose : Nat → World → Nat → World
  | 0, w, _ => w
  | f + 1, w, ti =>
    match (w.tr ti).role with
    | .current sid => sockOnClose f w sid "transport_close"
    | .candidate sid => candFail f w sid
    | .none => w

/-- `transport.OnError`: delivered only when somebody listens -/
def trOnErrorF : Nat → World → Nat → World
  | 0, w, _ => w
  | f + 1, w, ti =>
    match (w.tr ti).role with
    | .current sid => sockOnClose f w sid "transport_error"     -- socket.onError (registered with Once)
    | .candidate sid => candFail f w sid
    | .none => w

/-- `transport.OnClose` (base) -/
def trOnCloseBaseF : Nat → World → Nat → World
  | 0, w, _ => w
  | f + 1, w, ti =>
    if (w.tr ti).rs = .closed then w else
    let w := w.setTr ti fun t => { t with rs := .closed }
    trEmitClose f w ti

/-- `polling.OnClose`: release a pending poll with a noop first -/
def pollOnCloseF : Nat → World → Nat → World
  | 0, w, _ => w
  | f + 1, w, ti =>
    let w := if (w.tr ti).writable then trSend w ti [{ typ := .noop }] else w
    trOnCloseBaseF f w ti

/-- the close callback handed to `Close` -/
def runCloseFnF : Nat → World → Nat → World
  | 0, w, _ => w
  | f + 1, w, ti =>
    let fn := (w.tr ti).closeFn
    let w := w.setTr ti fun t => { t with closeFn := none }
    match fn with
    | some sid => sockOnClose f w sid "forced_close"
    | none => w

/-- websocket `closeNow`: the callback, then the connection is closed -/
def wsCloseNowF : Nat → World → Nat → World
  | 0, w, _ => w
  | f + 1, w, ti =>
    let w := w.setTr ti fun t => { t with closeWait := false, closeTimerDue := none }
    let w := runCloseFnF f w ti
    let c := (w.tr ti).conn
    let w := w.setConn c fun x =>
      { x with serverOpen := false, ended := if x.ended.isNone ∧ x.clientOpen then some "close:1006:756e657870656374656420454f46" else x.ended }
    -- WebSocketConn.Close emits "close": websocket transport OnClose
    trOnCloseBaseF f w ti

/-- `transport.Close(fn)` → `DoClose(fn)` -/
def trCloseF : Nat → World → Nat → Option Nat → World
  | 0, w, _, _ => w
  | f + 1, w, ti, fn =>
    let t := w.tr ti
    if t.rs = .closed ∨ t.rs = .closing then w else
    let w := w.setTr ti fun t => { t with rs := .closing, closeFn := fn }
    if t.isPolling then
      -- "aborting ongoing data request"
      let w := abortData w t.dataReq
      if t.writable then
        let w := trSend w ti [{ typ := .close }]
        pollOnCloseF f (runCloseFnF f w ti) ti
      else if t.discarded then pollOnCloseF f (runCloseFnF f w ti) ti
      else w.setTr ti fun t => { t with closeTimerDue := some (w.now + closeTimeout), shouldClose := true }
    else
      if t.writable ∨ t.discarded then wsCloseNowF f w ti
      else w.setTr ti fun t => { t with closeTimerDue := some (w.now + closeTimeout), closeWait := true }

/-- `socket.clearTransport` -/
def clearTransportF : Nat → World → Nat → World
  | 0, w, _ => w
  | f + 1, w, sid =>
    let ti := (w.sock sid).tr
    let w := w.setTr ti fun t => { t with role := .none, silenced := true }
    let w := trCloseF f w ti none
    w.setSock sid fun s => { s with pingTimeoutDue := none }

/-- `MaybeUpgrade`'s onError / onTransportClose / onClose: give the candidate up -/
def candFail : Nat → World → Nat → World
  | 0, w, sid => candCleanup w sid
  | f + 1, w, sid =>
    match (w.sock sid).cand with
    | none => w
    | some c => trCloseF f (candCleanup w sid) c.tr none

/-- `socket.OnClose(reason)` -/
def sockOnClose : Nat → World → Nat → String → World
  | 0, w, _, _ => w
  | f + 1, w, sid, reason =>
    -- (sessions are indices here, pointers in the code: an index that names no session is a no-op)
    if (w.sock sid).rs = .closed ∨ w.socks.size ≤ sid then w else
    let w := w.setSock sid fun s =>
      { s with rs := .closed, pingIntervalDue := none, pingTimeoutDue := none, packetsFn := [], sentCb := [] }
    let w := clearTransportF f w sid
    -- listeners of the session's "close" event, in registration order:
    -- the server's registry entry, the application, a pending upgrade
    let w := { w with registry := w.registry.filter (· ≠ sid) }
    let w := w.sev sid (.close reason (w.sock sid).rs)
    let w := candFail f w sid
    w.setSock sid fun s => { s with wbuf := [] }
end

def trOnError (w : World) (ti : Nat) : World := trOnErrorF closeFuel w ti
def trOnCloseBase (w : World) (ti : Nat) : World := trOnCloseBaseF closeFuel w ti
def pollOnClose (w : World) (ti : Nat) : World := pollOnCloseF closeFuel w ti
def runCloseFn (w : World) (ti : Nat) : World := runCloseFnF closeFuel w ti
def wsCloseNow (w : World) (ti : Nat) : World := wsCloseNowF closeFuel w ti
def trClose (w : World) (ti : Nat) (fn : Option Nat) : World := trCloseF closeFuel w ti fn
def clearTransport (w : World) (sid : Nat) : World := clearTransportF closeFuel w sid

mutual
/-- `socket.flush`; `fuel` bounds the re-entry through Close(false)'s drain listener -/
def flushF : Nat → World → Nat → World
  | 0, w, _ => w
  | f + 1, w, sid =>
    let s := w.sock sid
    if s.rs = .closed ∨ ¬ (w.tr s.tr).writable ∨ s.wbuf.isEmpty then w else
    let batch := s.wbuf
    let w := w.setSock sid fun s => { s with wbuf := [], sentCb := s.sentCb ++ [s.packetsFn], packetsFn := [] }
    let w := w.sev sid (.flush batch s.packetsFn)
    let w := w.ev s!"srv:flush:s{sid}:{pktChars batch}"
    let w := trSend w s.tr batch
    let w := w.sev sid .drain
    -- Close(false) left a once-listener on "drain"
    let w := match (w.sock sid).drainClose with
      | some discard => closeTransportF f (w.setSock sid fun s => { s with drainClose := none }) sid discard
      | none => w
    w.ev s!"srv:drain:s{sid}"

/-- `socket.closeTransport(discard)` -/
def closeTransportF : Nat → World → Nat → Bool → World
  | 0, w, _, _ => w
  | _ + 1, w, sid, discard =>
    let ti := (w.sock sid).tr
    let w := if discard then w.setTr ti fun t => { t with discarded := true } else w
    -- an orderly close already buffered on the transport: discarding does not wait for it
    if discard ∧ (w.tr ti).rs = .closing then sockOnClose closeFuel w sid "forced_close"
    else trClose w ti (some sid)
end

def flush (w : World) (sid : Nat) : World := flushF 4 w sid
def closeTransport (w : World) (sid : Nat) (discard : Bool) : World := closeTransportF 4 w sid discard

/-- `socket.sendPacket` -/
def sendPacket (w : World) (sid : Nat) (p : Pkt) (cb : Option Nat) : World :=
  let s := w.sock sid
  -- (sessions are indices here: an index that names no session is a no-op, as in `sockOnClose`)
  if s.rs = .closing ∨ s.rs = .closed ∨ w.socks.size ≤ sid then w else
  let w := w.sev sid (.packetCreate p cb)
  let w := w.setSock sid fun s =>
    { s with wbuf := s.wbuf ++ [p], packetsFn := match cb with | some id => s.packetsFn ++ [id] | none => s.packetsFn }
  flush w sid

/-- `socket.onDrain`: the callbacks of the oldest handed-over batch -/
def sockOnDrain (w : World) (sid : Nat) : World :=
  match (w.sock sid).sentCb with
  | [] => w
  | cbs :: rest =>
    let w := w.setSock sid fun s => { s with sentCb := rest }
    cbs.foldl (fun w id => w.sev sid (.cb id)) w

/-- a transport's "drain" event -/
def trEmitDrain (w : World) (ti : Nat) : World :=
  let w := match (w.tr ti).role with
    | .current sid => sockOnDrain w sid
    | _ => w
  -- websocket DoClose waiting for the pending batch
  if (w.tr ti).closeWait then wsCloseNow w ti else w

/-- a transport's "ready" event -/
def trEmitReady (w : World) (ti : Nat) : World :=
  match (w.tr ti).role with
  | .current sid => flush w sid
  | _ => w

def probeBytes : Bytes := "probe".toUTF8.toList

/-- the probe ping a candidate opens with -/
def isProbe (p : Pkt) : Bool :=
  p.typ == .ping && (match p.data with | some m => m.data == probeBytes | none => false)

/-- `socket.setTransport` after an upgrade, and the rest of the UPGRADE branch -/
def doUpgrade (w : World) (sid : Nat) (newTr : Nat) : World :=
  let w := candCleanup w sid
  let old := (w.sock sid).tr
  let w := w.setTr old fun t => { t with discarded := true }
  let w := w.setSock sid fun s => { s with upgraded := true }
  let w := clearTransport w sid
  let w := w.setSock sid fun s => { s with tr := newTr }
  let w := w.setTr newTr fun t => { t with role := .current sid }
  let w := w.sev sid .upgrade
  let w := flush w sid
  if (w.sock sid).rs = .closing then trClose w newTr (some sid) else w

/-- `MaybeUpgrade`'s packet listener on the candidate -/
def candOnPacket (w : World) (sid : Nat) (p : Pkt) : World :=
  match (w.sock sid).cand with
  | none => w
  | some c =>
    if isProbe p then
      let w := trSend w c.tr [{ typ := .pong, data := some ⟨.text, probeBytes⟩ }]
      let w := w.sev sid .upgrading
      w.setSock sid fun s => { s with cand := some { c with checkDue := some (w.now + checkPeriod) } }
    else if p.typ = .upgrade ∧ (w.sock sid).rs ≠ .closed then doUpgrade w sid c.tr
    else trClose (candCleanup w sid) c.tr none

/-- `socket.onPacket` -/
def sockOnPacket (w : World) (sid : Nat) (p : Pkt) : World :=
  let s := w.sock sid
  if s.rs ≠ .open_ then w else
  let w := w.sev sid (.packet p.typ)
  match p.typ with
  | .ping =>
    if s.proto ≠ 3 then sockOnClose closeFuel w sid "transport_error" else
    let w := w.setSock sid fun s => { s with pingTimeoutDue := some (w.now + w.o.I + w.o.T) }
    let w := sendPacket w sid { typ := .pong, compress := true } none
    w.sev sid .heartbeat
  | .pong =>
    if s.proto = 3 then sockOnClose closeFuel w sid "transport_error" else
    let w := w.setSock sid fun s => { s with pingTimeoutDue := none, pingIntervalDue := some (w.now + w.o.I) }
    w.sev sid .heartbeat
  | .error => sockOnClose closeFuel w sid "parse_error"
  | .message =>
    w.sev sid (.message p.data)
  | _ => w

/-- a transport's "packet" event -/
def trEmitPacket (w : World) (ti : Nat) (p : Pkt) : World :=
  match (w.tr ti).role with
  | .current sid => sockOnPacket w sid p
  | .candidate sid => candOnPacket w sid p
  | .none => w

/-! ### HTTP responses -/

/-- the transport's "headers" event (Handshake's listener) -/
def emitHeaders (w : World) (ti : Nat) (r : Nat) : World :=
  let q := w.reqs.getD r default
  let w := if !q.hasSid then
      let w := if w.o.cookie then
          w.setReq r fun q => { q with cookie := some ("io=".toUTF8.toList ++ sidBytes (w.tr ti).owner ++ "; Path=/; HttpOnly".toUTF8.toList) }
        else w
      if w.o.hdr then w.ev s!"srv:initial_headers:{r}" else w
    else w
  if w.o.hdr then w.ev s!"srv:headers:{r}" else w

/-- the writer goroutine of the polling transport (`polling.send` … `DoWrite`) -/
def runPollSend (w : World) (ti : Nat) (batch : List Pkt) : World :=
  let t := w.tr ti
  -- a buffered orderly close rides on this payload
  let closing := t.shouldClose
  let w := if closing then
      pollOnClose (runCloseFn (w.setTr ti fun t => { t with shouldClose := false, closeTimerDue := none }) ti) ti
    else w
  let batch := if closing then batch ++ [{ typ := .close }] else batch
  let t := w.tr ti
  let payload := encodePayload t batch
  match t.req with
  | none => trOnError w ti                                   -- "polling write error"
  | some r =>
    let body := match t.jsonp with
      | some digits => jsonpBody digits payload.data
      | none => payload.data
    let isText := t.jsonp.isSome ∨ payload.kind = .text
    let q := w.reqs.getD r default
    let wantsCompress := batch.any (·.compress)
    let coding := if wantsCompress ∧ body.length ≥ w.o.thr then acceptedEncoding q.ae else ""
    let w := w.setTr ti fun t => { t with req := none }      -- ctx.Cleanup()
    let w := emitHeaders w ti r
    let w := w.answer r { status := 200, ct := if isText then "text" else "bin",
                          ce := if coding = "" then "-" else coding, body := body }
    trEmitDrain w ti

/-- can the server write on the connection of transport `ti`? a failed write raises the transport's error -/
def wsCanWrite (w : World) (ti : Nat) : Bool :=
  let cn := w.conns.getD (w.tr ti).conn default
  cn.serverOpen && cn.clientOpen

/-- one frame written on the connection of transport `ti` -/
def wsPut (w : World) (ti : Nat) (m : Msg) : World :=
  w.setConn (w.tr ti).conn fun x => { x with frames := x.frames ++ [m] }

/-- the frames of a batch, one write each -/
def wsSendLoop (ti : Nat) : List Pkt → World → World
  | [], w => w
  | p :: rest, w =>
    let frame : Msg := match p.pre with
      | some pre => pre
      | none => encodePacket (w.tr ti) p
    if wsCanWrite w ti then wsSendLoop ti rest (wsPut w ti frame) else wsSendLoop ti rest (trOnError w ti)

/-- the writer goroutine of the websocket transport -/
def runWsSend (w : World) (ti : Nat) (batch : List Pkt) : World :=
  let w := wsSendLoop ti batch w
  let w := trEmitDrain w ti
  let w := w.setTr ti fun t => { t with writable := true }
  trEmitReady w ti

def runTask (w : World) : Task → World
  | .pollSend ti batch => runPollSend w ti batch
  | .wsSend ti batch => runWsSend w ti batch

/-- run every spawned writer task to completion, oldest first -/
def settle : Nat → World → World
  | 0, w => w
  | fuel + 1, w =>
    match w.tasks with
    | [] => w
    | t :: rest => settle fuel (runTask { w with tasks := rest } t)

/-! ### entry points -/

def jsonOpen (w : World) (sid : Nat) (trName : String) : Bytes :=
  let ups : List String :=
    if w.o.upgrades ∧ trName = "polling" then
      (["websocket", "webtransport"].filter fun u => w.o.transports.contains u)
    else []
  let upsJ := "[" ++ ",".intercalate (ups.map fun u => "\"" ++ u ++ "\"") ++ "]"
  (s!"\{\"maxPayload\":{w.o.maxPayload},\"pingInterval\":{w.o.I},\"pingTimeout\":{w.o.T},\"sid\":\"").toUTF8.toList
    ++ sidBytes sid ++ ("\",\"upgrades\":" ++ upsJ ++ "}").toUTF8.toList

/-- `onOpen`: the open packet, then the configured initial packet -/
def openPackets (w : World) (sid : Nat) (trName : String) : World :=
  let w := sendPacket w sid { typ := .open, data := some ⟨.text, jsonOpen w sid trName⟩, compress := true } none
  match w.o.initial with
  | some d => sendPacket w sid { typ := .message, data := some ⟨.text, d⟩, compress := true } none
  | none => w

/-- the heartbeat timer, the registry entry, the "connection" event -/
def openAnnounce (w : World) (sid : Nat) (trName : String) (proto : Nat) : World :=
  let w := w.setSock sid fun s =>
    if proto = 3 then { s with pingTimeoutDue := some (w.now + w.o.I + w.o.T) }
    else { s with pingIntervalDue := some (w.now + w.o.I) }
  let w := ({ w with registry := w.registry ++ [sid] } : World).setSock sid fun s => { s with announced := true }
  w.sev sid (.connection (w.sock sid).rs trName proto)

/-- `NewSocket` … `onOpen`, registry, "connection" -/
def openSession (w : World) (ti : Nat) (proto : Nat) : World :=
  let sid := w.socks.size
  let trName := (w.tr ti).name
  let w := { w with socks := w.socks.push { proto, tr := ti } }
  let w := w.setTr ti fun t => { t with role := .current sid, owner := sid }
  let w := w.setSock sid fun s => { s with rs := .open_ }
  openAnnounce (openPackets w sid trName) sid trName proto

def jsonErr (code : Nat) (msg : String) : Bytes :=
  (s!"\{\"code\":{code},\"message\":\"{msg}\"}").toUTF8.toList

def rejectReq (w : World) (r : Nat) (code : Nat) (msg : String) : World :=
  let w := w.ev s!"srv:connection_error:{code}"
  w.answer r { status := 400, ct := "json", body := jsonErr code msg }

/-- `polling.onPollRequest` -/
def onPollRequest (w : World) (ti : Nat) (r : Nat) : World :=
  if (w.tr ti).req.isSome then
    let w := trOnError w ti                                  -- "overlap from client"
    w.answer r { status := 400, ct := "-" }
  else
    let w := w.setTr ti fun t => { t with req := some r, writable := true }
    let w := w.setReq r fun q => { q with pollOf := some ti }
    let w := trEmitReady w ti
    if (w.tr ti).writable ∧ (w.tr ti).shouldClose then trSend w ti [{ typ := .noop }] else w

/-- a polling handshake -/
def hsPolling (w : World) (proto : Nat) (b64 : Bool) (j : Option Bytes) : World :=
  let r := w.reqs.size
  let w := { w with reqs := w.reqs.push { hasSid := false } }
  if ¬ w.o.transports.contains "polling" then rejectReq w r 0 "Transport unknown" else
  if proto = 3 ∧ ¬ w.o.eio3 then rejectReq w r 5 "Unsupported protocol version" else
  let ti := w.trs.size
  let w := { w with trs := w.trs.push { isPolling := true, proto, b64, jsonp := j.map jsonpDigits } }
  let w := onPollRequest w ti r
  openSession w ti proto

/-- a WebSocket handshake (no sid) -/
def hsWebsocket (w : World) (proto : Nat) (b64 : Bool) : World :=
  let c := w.conns.size
  let w := { w with conns := w.conns.push {} }
  if ¬ w.o.transports.contains "websocket" then
    w.setConn c fun x => { x with serverOpen := false, clientOpen := false, ended := some "refused:501" }
  else if proto = 3 ∧ ¬ w.o.eio3 then
    let w := w.ev "srv:connection_error:5"
    w.setConn c fun x => { x with serverOpen := false, ended := some ("close:1000:" ++ hexStr "Unsupported protocol version".toUTF8.toList) }
  else
    let ti := w.trs.size
    let w := { w with trs := w.trs.push { isPolling := false, proto, b64, conn := c, writable := true } }
    openSession w ti proto

/-- `OnWebTransportSession`, first frame an open packet without data: a new session.
    The revision is forced to 4; `Verify` is not consulted on this path. -/
def hsWt (w : World) : World :=
  let c := w.conns.size
  let w := { w with conns := w.conns.push { wt := true } }
  let ti := w.trs.size
  let w := { w with trs := w.trs.push { isPolling := false, wt := true, proto := 4, b64 := false, conn := c, writable := true } }
  openSession w ti 4

/-- a request that names a session: `Verify` + dispatch -/
def lookup (w : World) (sid : Nat) : Option Sock :=
  if w.registry.contains sid then some (w.sock sid) else none

def pollReq (w : World) (sid : Nat) (ae : Bytes) : World :=
  let r := w.reqs.size
  let w := { w with reqs := w.reqs.push { ae } }
  match lookup w sid with
  | none => rejectReq w r 1 "Session ID unknown"
  | some s =>
    if ¬ (w.tr s.tr).isPolling then rejectReq w r 3 "Bad request" else onPollRequest w s.tr r

/-- what the parser makes of a request body -/
def pollDecode (t : Tr) (body : Bytes) (binary : Bool) : Decoded :=
  if t.proto = 4 then .ok (decodePayloadV4 body)
  else if binary then decodePayloadV3Binary (body.length + 1) body []
  else .ok (decodePayloadV3Text (body.length + 1) body)

/-- the packets of a payload, in order; a close packet ends the processing -/
def pollDeliver (ti : Nat) : List Pkt → World → World
  | [], w => w
  | p :: rest, w =>
    if p.typ = .close then pollOnClose w ti
    else pollDeliver ti rest (trEmitPacket w ti p)

/-- `polling.OnData` / `jsonp.OnData`; `false` when the decoder panicked -/
def pollOnData (w : World) (ti : Nat) (body : Bytes) (binary : Bool) : World × Bool :=
  match pollDecode (w.tr ti) body binary with
  | .ok pkts => (pollDeliver ti pkts w, true)
  | .panic => (w, false)
  | .spin => ({ w with fault := some "hang" }, true)

def postReq (w : World) (sid : Nat) (binary declared : Bool) (body : Bytes) (viaJsonp : Bool := false) : World :=
  let r := w.reqs.size
  let w := { w with reqs := w.reqs.push { isPost := true, consumed := some 0 } }
  match lookup w sid with
  | none => rejectReq w r 1 "Session ID unknown"
  | some s =>
    let ti := s.tr
    let t := w.tr ti
    if ¬ t.isPolling then rejectReq w r 3 "Bad request" else
    if binary ∧ t.proto = 4 then
      let w := trOnError w ti                                -- "invalid content"
      w.answer r { status := 400, ct := "-" }
    else if declared ∧ body.length > w.o.maxPayload then
      w.answer r { status := 413, ct := "-" }
    else
      let readN := min body.length (w.o.maxPayload + 1)
      let w := w.setReq r fun q => { q with consumed := some readN }
      if readN > w.o.maxPayload then w.answer r { status := 413, ct := "-" } else
      let w := w.setTr ti fun t => { t with dataReq := some r }
      let data : Option Bytes := if viaJsonp then (formFieldD body).map jsonpUnescape else some body
      let res : World × Bool := match data with
        | some d => pollOnData w ti d binary
        | none => (w, true)
      let w := res.1
      let ok := res.2
      let w := w.setTr ti fun t => { t with dataReq := none }
      if ¬ ok then
        -- the handler goroutine died: net/http drops the connection, the request's
        -- "close" listener reports "data request connection closed prematurely"
        let w := w.setReq r fun q => { q with done := true, panicked := true }
        trOnError w ti
      else
      let w := emitHeaders w ti r
      w.answer r { status := 200, ct := "html", body := "ok".toUTF8.toList }

/-- the client aborts a pending request -/
def abortReq (w : World) (r : Nat) : World :=
  let q := w.reqs.getD r default
  if q.done then w else
  let w := w.setReq r fun q => { q with done := true }
  match q.pollOf with
  | some ti =>
    if (w.tr ti).req = some r then
      let w := w.setTr ti fun t => { t with writable := false }
      trOnError w ti                                         -- "poll connection closed prematurely"
    else w
  | none => w

/-- a WebSocket connection that names a session: an upgrade candidate -/
def wsCandidate (w : World) (sid : Nat) (proto : Nat) (b64 : Bool) : World :=
  let c := w.conns.size
  let w := { w with conns := w.conns.push {} }
  let refuse (w : World) (how : String) :=
    w.setConn c fun x => { x with serverOpen := false, ended := some how }
  if ¬ w.o.transports.contains "websocket" then refuse (w.setConn c fun x => { x with clientOpen := false }) "refused:501" else
  match lookup w sid with
  | none =>
    let w := w.ev "srv:connection_error:1"
    refuse (w.setConn c fun x => { x with clientOpen := false }) "refused:400"
  | some s =>
    if s.upgrading ∨ s.upgraded then refuse w "close:1006:756e657870656374656420454f46" else
    let ti := w.trs.size
    let w := { w with trs := w.trs.push { isPolling := false, proto, b64, conn := c, writable := true, role := .candidate sid } }
    w.setSock sid fun s => { s with upgrading := true, cand := some { tr := ti, timeoutDue := some (w.now + w.o.U) } }

/-- `OnWebTransportSession`, first frame an open packet naming a session: an upgrade candidate;
    every refusal is a plain close of the WebTransport session (no `connection_error`) -/
def wtCandidate (w : World) (sid : Nat) : World :=
  let c := w.conns.size
  let w := { w with conns := w.conns.push { wt := true } }
  let refuse (w : World) :=
    w.setConn c fun x => { x with serverOpen := false, ended := some "closed" }
  match lookup w sid with
  | none => refuse w
  | some s =>
    if s.upgrading ∨ s.upgraded then refuse w else
    let ti := w.trs.size
    let w := { w with trs := w.trs.push { isPolling := false, wt := true, proto := 4, b64 := false, conn := c, writable := true, role := .candidate sid } }
    w.setSock sid fun s => { s with upgrading := true, cand := some { tr := ti, timeoutDue := some (w.now + w.o.U) } }

def trOfConn (w : World) (c : Nat) : Option Nat :=
  (List.range w.trs.size).find? fun i => ¬ (w.tr i).isPolling ∧ (w.tr i).conn = c

/-- the client sends a frame -/
def wsFrame (w : World) (c : Nat) (m : Msg) : World × Bool :=
  let cn := w.conns.getD c default
  if ¬ (cn.serverOpen ∧ cn.clientOpen) then (w, false) else
  match trOfConn w c with
  | none => (w, true)
  | some ti =>
    if m.data.length > w.o.maxPayload then
      -- gorilla's read limit: close frame 1009 to the peer, read error to the transport
      let w := w.setConn c fun x => { x with serverOpen := false, ended := some "close:1009:-" }
      (trOnError w ti, true)
    else
      let t := w.tr ti
      let (p, _) := if t.proto = 3 then decodePacketV3 m else decodePacketV4 m
      (trEmitPacket w ti p, true)

/-- the client's end of a connection disappears -/
def wsDrop (w : World) (c : Nat) : World :=
  let cn := w.conns.getD c default
  let w := w.setConn c fun x => { x with clientOpen := false, ended := if x.ended.isNone then some "error" else x.ended }
  if ¬ cn.serverOpen then w else
  let w := w.setConn c fun x => { x with serverOpen := false }
  match trOfConn w c with
  | some ti =>
    -- WebSocket: unexpected EOF is a close error (1006): the connection's "close". WebTransport: the peer's streams
    -- are reset (session gone), which the read loop reports as an error: the transport's "error"
    if (w.tr ti).wt then trOnError w ti else trOnCloseBase w ti
  | none => w

/-- the client closes the connection with a close frame carrying `code`: the server echoes the frame
    (the client reads `close:<code>:`), the read loop ends with a close error — the peer closed, whatever the code -/
def wsCloseFrame (w : World) (c : Nat) (code : Nat) : World :=
  wsDrop (w.setConn c fun x => { x with ended := if x.ended.isNone then some s!"close:{code}:-" else x.ended }) c

/-- `socket.Close(discard)` -/
def appClose (w : World) (sid : Nat) (discard : Bool) : World :=
  let s := w.sock sid
  if discard ∧ (s.rs = .open_ ∨ s.rs = .closing) then closeTransport w sid discard
  else if s.rs ≠ .open_ then w
  else
    let w := w.setSock sid fun s => { s with rs := .closing }
    if ¬ s.wbuf.isEmpty then w.setSock sid fun s => { s with drainClose := some discard }
    else closeTransport w sid discard

/-- `server.Close()`: every registered session, `Close(true)` -/
def shutdown (w : World) : World :=
  w.registry.foldl (fun w sid => appClose w sid true) w

/-! ### time -/

inductive TimerId where
  | pingInterval (sid : Nat) | pingTimeout (sid : Nat) | closeTimer (ti : Nat)
  | upgradeTimeout (sid : Nat) | check (sid : Nat)
  deriving Repr, DecidableEq

def dueTimers (w : World) : List (Nat × TimerId) :=
  let a := (List.range w.socks.size).flatMap fun i =>
    let s := w.sock i
    (match s.pingIntervalDue with | some d => [(d, TimerId.pingInterval i)] | none => []) ++
    (match s.pingTimeoutDue with | some d => [(d, TimerId.pingTimeout i)] | none => []) ++
    (match s.cand with
      | some c => (match c.checkDue with | some d => [(d, TimerId.check i)] | none => []) ++
                  (match c.timeoutDue with | some d => [(d, TimerId.upgradeTimeout i)] | none => [])
      | none => [])
  let b := (List.range w.trs.size).flatMap fun i =>
    match (w.tr i).closeTimerDue with | some d => [(d, TimerId.closeTimer i)] | none => []
  a ++ b

def earliest (l : List (Nat × TimerId)) (target : Nat) : Option (Nat × TimerId) :=
  l.foldl (fun best x => if x.1 ≤ target then
      match best with
      | some b => if x.1 < b.1 then some x else best
      | none => some x
    else best) none

def fireTimer (w : World) : TimerId → World
  | .pingInterval sid =>
    let w := w.setSock sid fun s => { s with pingIntervalDue := none }
    let w := sendPacket w sid { typ := .ping, compress := true } none
    w.setSock sid fun s => { s with pingTimeoutDue := some (w.now + (if s.proto = 3 then w.o.I + w.o.T else w.o.T)) }
  | .pingTimeout sid =>
    let w := w.setSock sid fun s => { s with pingTimeoutDue := none }
    if (w.sock sid).rs = .closed then w else sockOnClose closeFuel w sid "ping_timeout"
  | .closeTimer ti =>
    let w := w.setTr ti fun t => { t with closeTimerDue := none }
    if (w.tr ti).isPolling then
      -- (the buffered orderly close stays armed: a payload written later still carries the close packet)
      pollOnClose (runCloseFn w ti) ti
    else wsCloseNow w ti
  | .upgradeTimeout sid =>
    match (w.sock sid).cand with
    | some c =>
      let w := candCleanup w sid
      if (w.tr c.tr).rs = .open_ then trClose w c.tr none else w
    | none => w
  | .check sid =>
    match (w.sock sid).cand with
    | some c =>
      let w := w.setSock sid fun s => { s with cand := some { c with checkDue := some (w.now + checkPeriod) } }
      let cur := (w.sock sid).tr
      if (w.tr cur).isPolling ∧ (w.tr cur).writable then trSend w cur [{ typ := .noop }] else w
    | none => w

/-- let `d` ms pass: timers fire in order of their due instants; the writer
    tasks they spawn run once the sleeping caller looks again -/
def advance : Nat → World → Nat → World
  | 0, w, target => { w with now := target }
  | fuel + 1, w, target =>
    match earliest (dueTimers w) target with
    | some (d, id) => advance fuel (fireTimer { w with now := max w.now d } id) target
    | none => { w with now := target }

/-- how many timers `advance` fires (its fuel is used up when this equals the fuel) -/
def advanceUsed : Nat → World → Nat → Nat
  | 0, _, _ => 0
  | fuel + 1, w, target =>
    match earliest (dueTimers w) target with
    | some (d, id) => 1 + advanceUsed fuel (fireTimer { w with now := max w.now d } id) target
    | none => 0

/-- the application sends a message -/
def appSend (w : World) (sid : Nat) (m : Msg) (compress : Bool) (wantCb : Bool) (pre : Option Msg) : World :=
  let cb := if wantCb then some (w.cbSeq + 1) else none
  let w := if wantCb then { w with cbSeq := w.cbSeq + 1 } else w
  sendPacket w sid { typ := .message, data := some m, compress, pre } cb

/-! ### operations -/

/-- what the observer has seen is marked as reported; the printed event list and
    the delivered frames are consumed -/
def observe (w : World) : World :=
  let w := { w with evs := [] }
  let w := (List.range w.reqs.size).foldl (fun (w : World) i =>
    let q := w.reqs.getD i default
    if (q.panicked ∧ !q.reported) ∨ q.resp.isSome then w.setReq i fun q => { q with reported := true } else w) w
  (List.range w.conns.size).foldl (fun (w : World) i =>
    w.setConn i fun c => { c with frames := [], endReported := c.ended.isSome }) w

inductive Op where
  | hsPolling (proto : Nat) (b64 : Bool) (j : Option Bytes)
  | hsWebsocket (proto : Nat) (b64 : Bool)
  | poll (sid : Nat) (ae : Bytes)
  | post (sid : Nat) (binary declared : Bool) (body : Bytes) (viaJsonp : Bool)
  | abort (r : Nat)
  | wsCandidate (sid : Nat) (proto : Nat) (b64 : Bool)
  | hsWt
  | wtCandidate (sid : Nat)
  | frame (c : Nat) (m : Msg)
  | drop (c : Nat)
  | closeFrame (c : Nat) (code : Nat)
  | send (sid : Nat) (m : Msg) (compress wantCb : Bool) (pre : Option Msg)
  | close (sid : Nat) (discard : Bool)
  | shutdown
  | adv (d : Nat)
  | settle
  | observe
  deriving Repr, Inhabited

/-- one operation of a client, the application or the clock -/
def step (w : World) (op : Op) : World :=
  if w.fault.isSome then w else
  match op with
  | .hsPolling proto b64 j => hsPolling w proto b64 j
  | .hsWebsocket proto b64 => hsWebsocket w proto b64
  | .poll sid ae => pollReq w sid ae
  | .post sid binary declared body viaJsonp => postReq w sid binary declared body viaJsonp
  | .abort r => abortReq w r
  | .wsCandidate sid proto b64 => wsCandidate w sid proto b64
  | .hsWt => hsWt w
  | .wtCandidate sid => wtCandidate w sid
  | .frame c m =>
    let cn := w.conns.getD c default
    if (match cn.ended with | some how => how.startsWith "refused" | none => false) then w
    else (wsFrame w c m).1
  | .drop c => wsDrop w c
  | .closeFrame c code => wsCloseFrame w c code
  | .send sid m compress wantCb pre => appSend w sid m compress wantCb pre
  | .close sid discard => appClose w sid discard
  | .shutdown => shutdown w
  | .adv d => advance (d * 4 + 64) w (w.now + d)
  | .settle => settle 10000 w
  | .observe => observe w

def init (o : Opts) : World := { o }

def run (o : Opts) (ops : List Op) : World := ops.foldl step (init o)

end EIO.Ses
