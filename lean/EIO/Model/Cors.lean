/-
Model of types/cors.go: `MiddlewareWrapper` (defaults) and `CorsMiddleware`.
Regular expressions are not modelled: whether the request's origin matches a
pattern of the policy is an input (`reMatch`), the regexp library is trusted.
-/
namespace EIO.Cors

/-- an element of an origin policy -/
inductive Elem where
  | str (s : String)
  | re (idx : Nat)        -- the idx-th pattern of the policy
  | bool (b : Bool)
  deriving Repr, Inhabited

/-- `Cors.Origin`: a string ('*' or a fixed origin), or something the request's origin is tested against -/
inductive OriginPol where
  | star
  | fixed (s : String)
  | test (elems : List Elem)     -- a list, a single regexp or a bool
  deriving Repr, Inhabited

structure Opts where
  origin : OriginPol := .star
  methods : Option String := some "GET,HEAD,PUT,PATCH,POST,DELETE"   -- lists arrive joined by ","
  allowedHeaders : Option String := none                             -- none: reflect the request
  exposed : Option String := none
  maxAge : String := ""
  credentials : Bool := false
  preflightContinue : Bool := false
  status : Nat := 204
  deriving Repr, Inhabited

structure Req where
  method : String
  origin : String := ""          -- "" when the header is absent
  acrh : String := ""            -- Access-Control-Request-Headers
  reMatch : List Bool := []      -- per pattern of the policy: does the origin match
  deriving Repr, Inhabited

def allowedBy (r : Req) : Elem → Bool
  | .str s => r.origin == s
  | .re i => r.reMatch.getD i false
  | .bool b => b

def isOriginAllowed (r : Req) (elems : List Elem) : Bool := elems.any (allowedBy r)

structure Out where
  headers : List (String × String) := []
  varys : List String := []
  answered : Option Nat := none      -- the middleware wrote the response itself, with this status
  next : Bool := false               -- the request was passed on
  deriving Repr, Inhabited

def configureOrigin (o : Opts) (r : Req) (out : Out) : Out :=
  match o.origin with
  | .star => { out with headers := out.headers ++ [("Access-Control-Allow-Origin", "*")] }
  | .fixed s => { out with headers := out.headers ++ [("Access-Control-Allow-Origin", s)], varys := out.varys ++ ["Origin"] }
  | .test elems =>
    let v := if isOriginAllowed r elems then r.origin else "false"
    { out with headers := out.headers ++ [("Access-Control-Allow-Origin", v)], varys := out.varys ++ ["Origin"] }

def configureCredentials (o : Opts) (out : Out) : Out :=
  if o.credentials then { out with headers := out.headers ++ [("Access-Control-Allow-Credentials", "true")] } else out

def configureMethods (o : Opts) (out : Out) : Out :=
  match o.methods with
  | some m => { out with headers := out.headers ++ [("Access-Control-Allow-Methods", m)] }
  | none => out

def configureAllowedHeaders (o : Opts) (r : Req) (out : Out) : Out :=
  match o.allowedHeaders with
  | none =>
    if r.acrh ≠ "" then
      { out with headers := out.headers ++ [("Access-Control-Allow-Headers", r.acrh)],
                 varys := out.varys ++ ["Access-Control-Request-Headers"] }
    else out
  | some h => if h ≠ "" then { out with headers := out.headers ++ [("Access-Control-Allow-Headers", h)] } else out

def configureMaxAge (o : Opts) (out : Out) : Out :=
  if o.maxAge ≠ "" then { out with headers := out.headers ++ [("Access-Control-Max-Age", o.maxAge)] } else out

def configureExposed (o : Opts) (out : Out) : Out :=
  match o.exposed with
  | some h => if h ≠ "" then { out with headers := out.headers ++ [("Access-Control-Expose-Headers", h)] } else out
  | none => out

/-- `CorsMiddleware` -/
def middleware (o : Opts) (r : Req) : Out :=
  if r.method = "OPTIONS" then
    let out := configureExposed o (configureMaxAge o (configureAllowedHeaders o r (configureMethods o
      (configureCredentials o (configureOrigin o r {})))))
    if o.preflightContinue then { out with next := true }
    else { out with headers := out.headers ++ [("Content-Length", "0")], answered := some o.status }
  else
    let out := configureExposed o (configureCredentials o (configureOrigin o r {}))
    { out with next := true }

end EIO.Cors
