import EIO.Base.Bytes
/-
Model of utils/base64id.go (GenerateId) and utils/yeast.go (Encode, Decode,
Yeast). Go's base64.RawURLEncoding is transcribed (3 bytes -> 4 characters,
no padding); crypto/rand is an input.
-/
namespace EIO.Ids
open EIO

/-- the URL-safe base64 alphabet: A–Z a–z 0–9 - _ -/
def b64Alpha : List Char :=
  "ABCDEFGHIJKLMNOPQRSTUVWXYZabcdefghijklmnopqrstuvwxyz0123456789-_".toList

def b64Char (i : Nat) : Char := b64Alpha.getD i 'A'

def b64Index (c : Char) : Nat := (b64Alpha.idxOf c)

/-- one full group: 3 bytes -> 4 characters -/
def enc3 (a b c : UInt8) : List Char :=
  let n := a.toNat * 65536 + b.toNat * 256 + c.toNat
  [b64Char (n / 262144), b64Char (n / 4096 % 64), b64Char (n / 64 % 64), b64Char (n % 64)]

/-- `base64.RawURLEncoding.EncodeToString` -/
def b64Encode : Bytes → List Char
  | a :: b :: c :: rest => enc3 a b c ++ b64Encode rest
  | [a, b] =>
    let n := a.toNat * 65536 + b.toNat * 256
    [b64Char (n / 262144), b64Char (n / 4096 % 64), b64Char (n / 64 % 64)]
  | [a] =>
    let n := a.toNat * 65536
    [b64Char (n / 262144), b64Char (n / 4096 % 64)]
  | [] => []

/-- decoding of full groups only (all that the id layout needs) -/
def dec4 (w x y z : Char) : Bytes :=
  let n := b64Index w * 262144 + b64Index x * 4096 + b64Index y * 64 + b64Index z
  [UInt8.ofNat (n / 65536), UInt8.ofNat (n / 256 % 256), UInt8.ofNat (n % 256)]

def b64DecodeFull : List Char → Bytes
  | w :: x :: y :: z :: rest => dec4 w x y z ++ b64DecodeFull rest
  | _ => []

/-- `base64Id.GenerateId`: 18 bytes = the 10 random bytes the call obtained,
    then the 8-byte big-endian sequence number (`r[10:]` is overwritten) -/
def generateId (random10 : Bytes) (seq : Nat) : List Char :=
  b64Encode (random10 ++ be 8 seq)

/-! ### yeast -/

def yeastAlpha : List Char :=
  "0123456789ABCDEFGHIJKLMNOPQRSTUVWXYZabcdefghijklmnopqrstuvwxyz-_".toList

def yChar (i : Nat) : Char := yeastAlpha.getD i '0'
def yIndex (c : Char) : Nat := yeastAlpha.idxOf c

/-- the `for num > 0` loop of `Encode`, most significant digit first -/
def yEncodeLoop : Nat → Nat → List Char → List Char
  | 0, _, acc => acc
  | fuel + 1, n, acc => if n = 0 then acc else yEncodeLoop fuel (n / 64) (yChar (n % 64) :: acc)

/-- `Yeast.Encode` (non-negative numbers; the clock is after 1970) -/
def yEncode (n : Nat) : List Char :=
  if n = 0 then [yChar 0] else yEncodeLoop (n + 1) n []

/-- `Yeast.Decode` -/
def yDecode (s : List Char) : Nat := s.foldl (fun acc c => acc * 64 + yIndex c) 0

structure YState where
  prev : Option Nat := none    -- the millisecond whose encoding is stored in `prev`
  seed : Nat := 0
  deriving Repr, DecidableEq

/-- structured result of `Yeast()`: the millisecond and, when it repeats, the seed -/
structure YOut where
  ms : Nat
  seed : Option Nat
  deriving Repr, DecidableEq

/-- `Yeast.Yeast` at clock reading `ms` (runs under the mutex: one atomic step) -/
def yeastNext (s : YState) (ms : Nat) : YState × YOut :=
  if s.prev ≠ some ms then ({ prev := some ms, seed := 0 }, ⟨ms, none⟩)
  else ({ s with seed := s.seed + 1 }, ⟨ms, some s.seed⟩)

def YOut.render (o : YOut) : List Char :=
  match o.seed with
  | none => yEncode o.ms
  | some k => yEncode o.ms ++ '.' :: yEncode k

end EIO.Ids
