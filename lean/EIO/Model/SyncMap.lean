/-
Model of types/map.go (the port of Go's sync.Map): the read-only map, the
dirty map, the `amended` flag, the miss counter and the entries with their
three pointer states (a value, nil = deleted, expunged = deleted and absent
from the dirty map). Every exported method is a function of the state, written
branch for branch like the Go text, as one goroutine executes it (the atomic
loads, compare-and-swaps and the mutex are then plain reads and writes; a CAS
loop runs once). Keys and values: Int (the code is generic).

Entries are cells of a heap (`Nat → Slot`, index = identity of the `*entry`,
`next` = the number of entries allocated so far), so that "the same entry is in
both maps" is a statement about indices and not something the model takes for
granted. An assignment into the nil dirty map (a Go panic) sets `fault`.
-/
namespace EIO.SMap

/-- `entry.p`: a value, nil, or the entry's expunged marker -/
inductive Slot where
  | val (v : Int)
  | nil
  | expunged
  deriving DecidableEq, Repr, Inhabited

/-- association list `key ↦ entry index` (a Go map; iteration order is not modelled) -/
abbrev AL := List (Int × Nat)

def lk : AL → Int → Option Nat
  | [], _ => none
  | (k', e) :: rest, k => if k' = k then some e else lk rest k

def del (l : AL) (k : Int) : AL := l.filter (fun p => p.1 ≠ k)
def ins (l : AL) (k : Int) (e : Nat) : AL := (k, e) :: del l k

structure St where
  heap : Nat → Slot := fun _ => .nil
  next : Nat := 0
  read : AL := []
  amended : Bool := false
  /-- `none` = the nil map -/
  dirty : Option AL := none
  misses : Nat := 0
  /-- an assignment `m.dirty[key] = e` was executed while `m.dirty` was nil -/
  fault : Bool := false

def St.slot (s : St) (e : Nat) : Slot := s.heap e
def St.setSlot (s : St) (e : Nat) (x : Slot) : St := { s with heap := fun i => if i = e then x else s.heap i }
def St.dl (s : St) : AL := s.dirty.getD []
/-- `m.dirty[k] = e` -/
def St.dirtyPut (s : St) (k : Int) (e : Nat) : St :=
  match s.dirty with
  | some d => { s with dirty := some (ins d k e) }
  | none => { s with fault := true }

def Slot.load : Slot → Option Int
  | .val v => some v
  | _ => none

/-- `entry.load` -/
def St.eload (s : St) (e : Nat) : Option Int := (s.slot e).load

/-- `newEntry(v)` -/
def St.newEntry (s : St) (v : Int) : St × Nat :=
  ({ s with heap := fun i => if i = s.next then .val v else s.heap i, next := s.next + 1 }, s.next)

/-- `missLocked` -/
def St.missLocked (s : St) : St :=
  let m := s.misses + 1
  if m < s.dl.length then { s with misses := m }
  else { s with read := s.dl, amended := false, dirty := none, misses := 0 }

/-- `dirtyLocked`: when the dirty map is nil, copy the live entries of the read
    map into a new one, turning nil entries into expunged ones on the way
    (`tryExpungeLocked`). The loop visits each entry once and changes only that
    entry, so it is written here as its result. -/
def St.dirtyLocked (s : St) : St :=
  match s.dirty with
  | some _ => s
  | none =>
    let isRead (i : Nat) := s.read.any (fun p => p.2 = i)
    let heap' := fun i => if s.heap i = .nil ∧ isRead i then Slot.expunged else s.heap i
    let d := s.read.filter fun p => match s.slot p.2 with | .val _ => true | _ => false
    { s with heap := heap', dirty := some d }

/-- the slow-path tail shared by `Swap` and `LoadOrStore` when the key is in neither map -/
def St.addNew (s : St) (k v : Int) : St :=
  let s := if ¬ s.amended then { s.dirtyLocked with amended := true } else s
  let (s, e) := s.newEntry v
  s.dirtyPut k e

/-- `Load` -/
def St.load (s : St) (k : Int) : St × Option Int :=
  match lk s.read k with
  | some e => (s, s.eload e)
  | none =>
    if s.amended then
      let r := lk s.dl k
      let s' := s.missLocked
      (s', r.bind s'.eload)
    else (s, none)

/-- `Swap` (and `Store`, which discards the result) -/
def St.swap (s : St) (k v : Int) : St × Option Int :=
  let slow (s : St) : St × Option Int :=
    match lk s.read k with
    | some e =>
      -- unexpungeLocked: CAS(expunged, nil); on success the entry goes back into the dirty map
      let s := if s.slot e = .expunged then (s.setSlot e .nil).dirtyPut k e else s
      let prev := s.eload e
      (s.setSlot e (.val v), prev)
    | none =>
      match lk s.dl k with
      | some e => (s.setSlot e (.val v), s.eload e)
      | none => (s.addNew k v, none)
  match lk s.read k with
  | some e =>
    -- trySwap: fails only on an expunged entry
    if s.slot e = .expunged then slow s else (s.setSlot e (.val v), s.eload e)
  | none => slow s

/-- `tryLoadOrStore`: (actual, loaded, ok) -/
def St.tryLoadOrStore (s : St) (e : Nat) (v : Int) : St × Option (Int × Bool) :=
  match s.slot e with
  | .expunged => (s, none)
  | .val x => (s, some (x, true))
  | .nil => (s.setSlot e (.val v), some (v, false))

/-- `LoadOrStore` -/
def St.loadOrStore (s : St) (k v : Int) : St × (Int × Bool) :=
  let slow (s : St) : St × (Int × Bool) :=
    match lk s.read k with
    | some e =>
      let s := if s.slot e = .expunged then (s.setSlot e .nil).dirtyPut k e else s
      let (s, r) := s.tryLoadOrStore e v
      (s, r.getD (0, false))
    | none =>
      match lk s.dl k with
      | some e =>
        let (s, r) := s.tryLoadOrStore e v
        (s.missLocked, r.getD (0, false))
      | none => (s.addNew k v, (v, false))
  match lk s.read k with
  | some e =>
    match s.tryLoadOrStore e v with
    | (s', some r) => (s', r)
    | (_, none) => slow s
  | none => slow s

/-- `entry.delete` -/
def St.edelete (s : St) (e : Nat) : St × Option Int :=
  match s.slot e with
  | .val v => (s.setSlot e .nil, some v)
  | _ => (s, none)

/-- `LoadAndDelete` (and `Delete`) -/
def St.loadAndDelete (s : St) (k : Int) : St × Option Int :=
  match lk s.read k with
  | some e => s.edelete e
  | none =>
    if s.amended then
      let r := lk s.dl k
      let s' := { s with dirty := s.dirty.map (del · k) }.missLocked
      match r with
      | some e => s'.edelete e
      | none => (s', none)
    else (s, none)

/-- `tryCompareAndSwap` -/
def St.tryCas (s : St) (e : Nat) (old new : Int) : St × Bool :=
  match s.slot e with
  | .val x => if x = old then (s.setSlot e (.val new), true) else (s, false)
  | _ => (s, false)

/-- `CompareAndSwap` -/
def St.cas (s : St) (k old new : Int) : St × Bool :=
  match lk s.read k with
  | some e => s.tryCas e old new
  | none =>
    if ¬ s.amended then (s, false) else
    match lk s.dl k with
    | some e => let (s', r) := s.tryCas e old new; (s'.missLocked, r)
    | none => (s, false)

/-- the compare-and-delete loop at the end of `CompareAndDelete` -/
def St.cadFin (s : St) (e : Nat) (old : Int) : St × Bool :=
  match s.slot e with
  | .val x => if x = old then (s.setSlot e .nil, true) else (s, false)
  | _ => (s, false)

/-- `CompareAndDelete` -/
def St.cad (s : St) (k old : Int) : St × Bool :=
  match lk s.read k with
  | some e => s.cadFin e old
  | none =>
    if s.amended then
      match lk s.dl k with
      | some e => s.missLocked.cadFin e old
      | none => (s.missLocked, false)
    else (s, false)

/-- the promotion at the start of `Range` -/
def St.rangePromote (s : St) : St :=
  if s.amended then { s with read := s.dl, amended := false, dirty := none, misses := 0 } else s

/-- `Range`: the live (key, value) pairs of the read map after the promotion, in the map's own order -/
def St.range (s : St) : St × List (Int × Int) :=
  let s' := s.rangePromote
  (s', s'.read.filterMap fun p => (s'.eload p.2).map fun v => (p.1, v))

/-- `Clear` -/
def St.clear (s : St) : St :=
  if s.read.length = 0 ∧ ¬ s.amended then s
  else { s with read := [], amended := false, dirty := s.dirty.map (fun _ => []), misses := 0 }

/-- what the map holds for a key, as a reader sees it -/
def St.abs (s : St) (k : Int) : Option Int :=
  match lk s.read k with
  | some e => s.eload e
  | none => if s.amended then (lk s.dl k).bind s.eload else none

/-! ## calls and their results -/

inductive Op where
  | load (k : Int) | store (k v : Int) | loadOrStore (k v : Int) | loadAndDelete (k : Int) | delete (k : Int)
  | swap (k v : Int) | cas (k old new : Int) | cad (k old : Int) | range | clear
  deriving Repr, DecidableEq

inductive Res where
  | unit | val (o : Option Int) | pair (v : Int) (loaded : Bool) | flag (b : Bool) | pairs (l : List (Int × Int))
  deriving Repr, DecidableEq

def St.step (s : St) : Op → St × Res
  | .load k => let r := s.load k; (r.1, .val r.2)
  | .store k v => ((s.swap k v).1, .unit)
  | .loadOrStore k v => let r := s.loadOrStore k v; (r.1, .pair r.2.1 r.2.2)
  | .loadAndDelete k => let r := s.loadAndDelete k; (r.1, .val r.2)
  | .delete k => ((s.loadAndDelete k).1, .unit)
  | .swap k v => let r := s.swap k v; (r.1, .val r.2)
  | .cas k o n => let r := s.cas k o n; (r.1, .flag r.2)
  | .cad k o => let r := s.cad k o; (r.1, .flag r.2)
  | .range => let r := s.range; (r.1, .pairs r.2)
  | .clear => (s.clear, .unit)

/-- the calls with their results, from state `s` on -/
def St.trace (s : St) : List Op → List (Op × Res)
  | [] => []
  | op :: rest => let r := s.step op; (op, r.2) :: r.1.trace rest

def St.run (s : St) : List Op → St
  | [] => s
  | op :: rest => (s.step op).1.run rest

end EIO.SMap
