import EIO.Base.Bytes
/-
Model of utils/timer.go.

(1) `Tm`: one timer at quiescent points (every goroutine has run until it
blocks): the runtime timer is armed for an instant or idle, a waiter goroutine
sits in its select or not. Virtual time in ms.

(2) `TS`: the same timer under every interleaving of the Go runtime's clock,
the waiter goroutine and two concurrent `Stop` callers, split at the points
where the code can be preempted with respect to the shared state (the runtime
timer, `stopCh`, and `stopped` under `mu`).
-/
namespace EIO.Timer
open EIO

/-! ## (1) quiescent model -/

structure Tm where
  interval : Bool
  period : Nat
  due : Option Nat := none      -- the runtime timer is armed for this instant
  waiters : Nat := 0            -- goroutines of this timer blocked in `select`
  stopped : Bool := false
  deriving Repr, DecidableEq

/-- `SetTimeout(fn, period)` / `SetInterval(fn, period)` at time `now` -/
def Tm.start (interval : Bool) (period now : Nat) : Tm :=
  { interval, period, due := some (now + period), waiters := 1 }

/-- `Stop()` / `ClearTimeout` / `ClearInterval`: if the runtime timer was
    still active the waiter is released through `stopCh` -/
def Tm.stop (t : Tm) : Tm :=
  match t.due with
  | some _ => { t with due := none, waiters := t.waiters - 1, stopped := true }
  | none => { t with stopped := true }

/-- `Refresh()` at time `now` -/
def Tm.refresh (t : Tm) (now : Nat) : Tm :=
  match t.due with
  | some _ => { t with due := some (now + t.period), stopped := false }
  | none => { t with due := some (now + t.period), waiters := t.waiters + 1, stopped := false }

/-- the timer's due instant arrives and a waiter receives the tick: the callback
    starts at that instant; an interval re-arms one period later -/
def Tm.fire (t : Tm) (at_ : Nat) : Tm :=
  if t.interval then
    if t.stopped then { t with due := none, waiters := t.waiters - 1 }
    else { t with due := some (at_ + t.period) }
  else { t with due := none, waiters := t.waiters - 1 }

/-- let time pass until `target`: the instants at which the callback started -/
def Tm.advance : Nat → Tm → Nat → Tm × List Nat
  | 0, t, _ => (t, [])
  | fuel + 1, t, target =>
    match t.due with
    | some d =>
      if d ≤ target ∧ t.waiters > 0 then
        let (t', fs) := Tm.advance fuel (t.fire d) target
        (t', d :: fs)
      else (t, [])
    | none => (t, [])

/-! ## (2) all interleavings -/

inductive RTS where
  | armed | sent | idle      -- pending / fired, value not yet received / stopped or received
  deriving DecidableEq, Repr

inductive WPc where
  | selecting | gotTick | exited
  deriving DecidableEq, Repr

inductive SPc where
  | notCalled | sending | returned
  deriving DecidableEq, Repr

structure TS where
  interval : Bool
  rt : RTS := .armed
  w : WPc := .selecting
  s1 : SPc := .notCalled
  s2 : SPc := .notCalled
  stopped : Bool := false
  lateCallback : Bool := false   -- a callback started after some Stop had returned
  deriving DecidableEq, Repr

inductive Th where
  | clock | waiterTick | waiterStop1 | waiterStop2 | waiterRearm | stop1 | stop2
  deriving DecidableEq, Repr

def TS.someReturned (x : TS) : Bool := x.s1 == .returned || x.s2 == .returned

/-- the atomic part of `Stop`: `mu.Lock(); stopped = true; active := timer.Stop(); mu.Unlock()` -/
def TS.stopCall (x : TS) (first : Bool) : TS :=
  let active := x.rt != .idle
  let pc := if active then SPc.sending else SPc.returned
  let x := { x with stopped := true, rt := .idle }
  if first then { x with s1 := pc } else { x with s2 := pc }

def tstep (x : TS) : Th → Option TS
  | .clock => if x.rt = .armed then some { x with rt := .sent } else none
  | .waiterTick =>
    -- `case <-timer.C`
    if x.w = .selecting ∧ x.rt = .sent then
      if x.interval then some { x with rt := .idle, w := .gotTick }
      else some { x with rt := .idle, w := .exited, lateCallback := x.lateCallback || x.someReturned }
    else none
  | .waiterStop1 =>
    -- `case <-stopCh` meeting the first caller's send
    if x.w = .selecting ∧ x.s1 = .sending then some { x with w := .exited, s1 := .returned } else none
  | .waiterStop2 =>
    if x.w = .selecting ∧ x.s2 = .sending then some { x with w := .exited, s2 := .returned } else none
  | .waiterRearm =>
    -- interval: `mu.Lock(); if stopped {return}; Reset; mu.Unlock(); go fn()`
    if x.w = .gotTick then
      if x.stopped then some { x with w := .exited }
      else some { x with rt := .armed, w := .selecting, lateCallback := x.lateCallback || x.someReturned }
    else none
  | .stop1 => if x.s1 = .notCalled then some (x.stopCall true) else none
  | .stop2 => if x.s2 = .notCalled then some (x.stopCall false) else none

def TS.run (x : TS) : List Th → TS
  | [] => x
  | th :: rest => match tstep x th with
    | some x' => x'.run rest
    | none => x.run rest          -- a thread that is not enabled does not move

/-- what cancellation promises, in every state of every interleaving -/
def TS.Safe (x : TS) : Bool :=
  -- no callback starts after a Stop has returned
  !x.lateCallback &&
  -- a Stop blocked on `stopCh` always has a waiter that can still take it, one at a time
  (x.s1 != .sending || x.w != .exited) && (x.s2 != .sending || x.w != .exited) &&
  !(x.s1 == .sending && x.s2 == .sending) &&
  -- once a Stop has returned the timer is dead: not armed, and the waiter is gone,
  -- about to go, or about to be released by the other Stop
  (!x.someReturned ||
     (x.rt == .idle &&
      (x.w == .exited || (x.w == .gotTick && x.stopped) || x.s1 == .sending || x.s2 == .sending)))

end EIO.Timer
