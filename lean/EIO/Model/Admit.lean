import EIO.Base.Bytes
/-
Model of request admission: engine/base-server.go `Verify`, `Handshake`
(admission part), engine/server.go `ServeHTTP`, `HandleRequest`,
`HandleUpgrade`, `onWebSocket`, `abortRequest`, `abortUpgrade`.

A request is the tuple of everything these functions read: whether it is a
WebSocket upgrade, the method, *all* values of the `transport`, `sid` and `EIO`
query keys (`ParameterBag.Peek` takes the last one), and the bytes of the
`Origin` header. The configuration is what the options and the registry say.
-/
namespace EIO.Admit
open EIO

inductive ErrKind where
  | unknownTransport | unknownSid | badHandshakeMethod | badRequest | forbidden | unsupportedProtocol
  deriving DecidableEq, Repr, Inhabited

structure CodeMessage where
  code : Nat
  message : String
  deriving DecidableEq, Repr, Inhabited

/-- the six `CodeMessage` values of base-server.go, as extracted (`Facts`) -/
structure ErrTable where
  get : ErrKind → CodeMessage

structure Cfg where
  transports : List String            -- opts.Transports()
  allowEIO3 : Bool
  hookRefuses : Option String         -- AllowRequest returns this error text (none: no hook, or it allows)
  mwFails : Bool                      -- a middleware passes an error to its callback
  deriving Repr

structure Request where
  upgrade : Bool                      -- websocket.IsWebSocketUpgrade(r)
  method : String                     -- upper-cased method
  transport : List String             -- every value of the `transport` key
  sid : List String
  eio : List String
  origin : Bytes                      -- last `Origin` header value ("" when absent)
  deriving Repr

/-- what the registry knows about a session id -/
structure Client where
  transport : String                  -- socket.Transport().Name()
  upgrading : Bool
  upgraded : Bool
  deriving Repr, DecidableEq

abbrev Registry := String → Option Client

/-- `ParameterBag.Peek`: the last value, "" when absent -/
def peek (vs : List String) : String := vs.getLast?.getD ""

/-- `utils.CheckInvalidHeaderChar` -/
def invalidHeaderChar (v : Bytes) : Bool :=
  v.any fun b => (b.toNat < 32 ∨ b.toNat = 127) ∧ ¬ (b.toNat = 32 ∨ b.toNat = 9)

/-- `baseServer.Verify(ctx, upgrade)`: the failing check and, for the hook, its text -/
def verify (c : Cfg) (reg : Registry) (r : Request) : Option (ErrKind × Option String) :=
  let t := peek r.transport
  if ¬ c.transports.contains t ∨ t = "webtransport" then some (.unknownTransport, none)
  else if invalidHeaderChar r.origin then some (.badRequest, none)
  else
    let sid := peek r.sid
    if sid.length > 0 then
      match reg sid with
      | none => some (.unknownSid, none)
      | some cl => if ¬ r.upgrade ∧ cl.transport ≠ t then some (.badRequest, none) else none
    else if r.method ≠ "GET" then some (.badHandshakeMethod, none)
    else if t = "websocket" ∧ ¬ r.upgrade then some (.badRequest, none)
    else match c.hookRefuses with
      | some msg => some (.forbidden, some msg)
      | none => none

/-- protocol revision chosen by `Handshake` -/
def revision (r : Request) : Nat := if peek r.eio = "4" then 4 else 3

/-- admission part of `Handshake`: refuse revision 3 unless allowed
    (id generation and transport construction cannot fail for the built-in transports) -/
def handshakeRefusal (c : Cfg) (r : Request) : Option ErrKind :=
  if revision r = 3 ∧ ¬ c.allowEIO3 then some .unsupportedProtocol else none

inductive Outcome where
  /-- `abortRequest`: HTTP status, JSON `{code,message}`, number of `connection_error` events -/
  | reject (status code : Nat) (message : String) (events : Nat)
  /-- `abortUpgrade` on an accepted WebSocket: close message text, events -/
  | lateReject (closeText : String) (events : Nat)
  /-- handed to the session's transport (`OnRequest`) -/
  | dispatch (sid : String)
  /-- a new session on this transport and revision -/
  | handshake (transport : String) (revision : Nat)
  /-- `MaybeUpgrade` of that session with the new connection -/
  | candidate (sid : String)
  /-- the accepted WebSocket is closed without a message -/
  | silentClose
  /-- `http.Error(w, "Not Implemented", 501)` -/
  | notImplemented
  deriving DecidableEq, Repr

/-- `abortRequest` -/
def abort (tbl : ErrTable) (e : ErrKind) (ctxMsg : Option String) (events : Nat) : Outcome :=
  .reject (if e = .forbidden then 403 else 400) (tbl.get e).code (ctxMsg.getD (tbl.get e).message) events

/-- which built-in transports refuse upgraded connections (`HandlesUpgrades() == false`) -/
def handlesUpgrades (t : String) : Bool := t ≠ "polling"
def builtin (t : String) : Bool := t = "polling" ∨ t = "websocket" ∨ t = "webtransport"

/-- `server.ServeHTTP` and below: one request, one outcome -/
def serve (tbl : ErrTable) (c : Cfg) (reg : Registry) (r : Request) : Outcome :=
  if ¬ r.upgrade then
    -- HandleRequest
    if c.mwFails then abort tbl .badRequest none 1
    else match verify c reg r with
      | some (e, m) => abort tbl e m 1
      | none =>
        let sid := peek r.sid
        if sid ≠ "" then
          match reg sid with
          | some _ => .dispatch sid
          | none => abort tbl .unknownSid none 0
        else match handshakeRefusal c r with
          | some e => abort tbl e none 1
          | none => .handshake (peek r.transport) (revision r)
  else if ¬ c.transports.contains "websocket" then .notImplemented
  else
    -- HandleUpgrade
    if c.mwFails then abort tbl .badRequest none 1
    else match verify c reg r with
      | some (e, m) => abort tbl e m 1
      | none =>
        -- onWebSocket (the WebSocket handshake itself succeeds)
        let t := peek r.transport
        if builtin t ∧ ¬ handlesUpgrades t then .silentClose
        else
          let sid := peek r.sid
          if sid.length = 0 then
            match handshakeRefusal c r with
            | some e => .lateReject (tbl.get e).message 1
            | none => .handshake t (revision r)
          else match reg sid with
            | none => .silentClose
            | some cl => if cl.upgrading ∨ cl.upgraded then .silentClose else .candidate sid

end EIO.Admit
