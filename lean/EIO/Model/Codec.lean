import EIO.Base.Bytes
/-
Model of the packet and payload codecs the transports call
(engine.io-go-parser v1.3.2: parser-v4.go, parser-v3.go, utils/utf8.go),
of Go's base64.StdEncoding, of encoding/json's string escaping and of the
JSONP un-escaping in transports/polling-jsonp.go. These are *dependencies* of
/repo: transcribed as they behave (quirks included), validated by the
correspondence, listed as modelled-not-verified in the trusted base.
-/
namespace EIO.Codec
open EIO

inductive PT where
  | open | close | ping | pong | message | upgrade | noop | error
  deriving DecidableEq, Repr, Inhabited

def PT.char : PT → UInt8
  | .open => 48 | .close => 49 | .ping => 50 | .pong => 51 | .message => 52
  | .upgrade => 53 | .noop => 54 | .error => 63

def PT.ofChar (c : UInt8) : Option PT :=
  if c = 48 then some .open else if c = 49 then some .close else if c = 50 then some .ping
  else if c = 51 then some .pong else if c = 52 then some .message else if c = 53 then some .upgrade
  else if c = 54 then some .noop else none

def PT.name : PT → String
  | .open => "open" | .close => "close" | .ping => "ping" | .pong => "pong" | .message => "message"
  | .upgrade => "upgrade" | .noop => "noop" | .error => "error"

/-- a packet: `data = none` is a nil reader; text data is a StringBuffer /
    strings.Reader, binary data any other reader -/
structure Pkt where
  typ : PT
  data : Option Msg := none
  compress : Bool := false
  pre : Option Msg := none          -- Options.WsPreEncodedFrame
  deriving DecidableEq, Repr, Inhabited

/-- an encoded packet or payload: a StringBuffer (text) or a BytesBuffer -/
abbrev Enc := Msg

/-! ### base64.StdEncoding (with padding) -/

def stdAlpha : List Char :=
  "ABCDEFGHIJKLMNOPQRSTUVWXYZabcdefghijklmnopqrstuvwxyz0123456789+/".toList

def stdChar (i : Nat) : UInt8 := UInt8.ofNat (stdAlpha.getD i 'A').toNat
def stdIndex (b : UInt8) : Option Nat :=
  let i := stdAlpha.idxOf (Char.ofNat b.toNat)
  if i < 64 then some i else none

def b64Std : Bytes → Bytes
  | a :: b :: c :: rest =>
    let n := a.toNat * 65536 + b.toNat * 256 + c.toNat
    stdChar (n / 262144) :: stdChar (n / 4096 % 64) :: stdChar (n / 64 % 64) :: stdChar (n % 64) :: b64Std rest
  | [a, b] =>
    let n := a.toNat * 65536 + b.toNat * 256
    [stdChar (n / 262144), stdChar (n / 4096 % 64), stdChar (n / 64 % 64), 61]
  | [a] =>
    let n := a.toNat * 65536
    [stdChar (n / 262144), stdChar (n / 4096 % 64), 61, 61]
  | [] => []

/-- base64.NewDecoder(StdEncoding, r) read to the end: the bytes decoded before
    the first malformed quantum, and whether an error occurred -/
def unb64Std : Bytes → Bytes × Bool
  | [] => ([], false)
  | w :: x :: y :: z :: rest =>
    match stdIndex w, stdIndex x with
    | some a, some b =>
      if y = 61 ∧ z = 61 then
        ([UInt8.ofNat ((a * 64 + b) / 16)], !rest.isEmpty)
      else match stdIndex y with
        | some c =>
          if z = 61 then
            let n := a * 4096 + b * 64 + c
            ([UInt8.ofNat (n / 1024), UInt8.ofNat (n / 4 % 256)], !rest.isEmpty)
          else match stdIndex z with
            | some d =>
              let n := a * 262144 + b * 4096 + c * 64 + d
              let (more, e) := unb64Std rest
              (UInt8.ofNat (n / 65536) :: UInt8.ofNat (n / 256 % 256) :: UInt8.ofNat (n % 256) :: more, e)
            | none => ([], true)
        | none => ([], true)
    | _, _ => ([], true)
  | _ => ([], true)

/-! ### UTF-8 helpers of the dependency -/

def cont (b : UInt8) : Bool := b.toNat / 64 = 2
def lo3 (x : Nat) : Nat := if x = 0xE0 then 0xA0 else 0x80
def hi3 (x : Nat) : Nat := if x = 0xED then 0x9F else 0xBF
def lo4 (x : Nat) : Nat := if x = 0xF0 then 0x90 else 0x80
def hi4 (x : Nat) : Nat := if x = 0xF4 then 0x8F else 0xBF

def dr2 (x : Nat) : Bytes → Nat × Nat
  | b1 :: _ => if cont b1 then ((x % 32) * 64 + b1.toNat % 64, 2) else (0xFFFD, 1)
  | _ => (0xFFFD, 1)

def dr3 (x : Nat) : Bytes → Nat × Nat
  | b1 :: b2 :: _ =>
    if lo3 x ≤ b1.toNat ∧ b1.toNat ≤ hi3 x ∧ cont b2 then
      ((x % 16) * 4096 + (b1.toNat % 64) * 64 + b2.toNat % 64, 3)
    else (0xFFFD, 1)
  | _ => (0xFFFD, 1)

def dr4 (x : Nat) : Bytes → Nat × Nat
  | b1 :: b2 :: b3 :: _ =>
    if lo4 x ≤ b1.toNat ∧ b1.toNat ≤ hi4 x ∧ cont b2 ∧ cont b3 then
      ((x % 8) * 262144 + (b1.toNat % 64) * 4096 + (b2.toNat % 64) * 64 + b3.toNat % 64, 4)
    else (0xFFFD, 1)
  | _ => (0xFFFD, 1)

/-- `utf8.DecodeRune` on the head of a byte string: (code point, width); invalid
    input gives (U+FFFD, 1); empty gives (U+FFFD, 0) -/
def decodeRune : Bytes → Nat × Nat
  | [] => (0xFFFD, 0)
  | b0 :: rest =>
    let x := b0.toNat
    if x < 0x80 then (x, 1)
    else if x < 0xC2 then (0xFFFD, 1)
    else if x < 0xE0 then dr2 x rest
    else if x < 0xF0 then dr3 x rest
    else if x < 0xF5 then dr4 x rest
    else (0xFFFD, 1)

/-- `utf8.AppendRune` -/
def encodeRune (r : Nat) : Bytes :=
  let u (n : Nat) := UInt8.ofNat n
  if r < 0x80 then [u r]
  else if r < 0x800 then [u (0xC0 + r / 64), u (0x80 + r % 64)]
  else if r < 0x10000 then
    if 0xD800 ≤ r ∧ r < 0xE000 then [0xEF, 0xBF, 0xBD]
    else [u (0xE0 + r / 4096), u (0x80 + r / 64 % 64), u (0x80 + r % 64)]
  else if r < 0x110000 then [u (0xF0 + r / 262144), u (0x80 + r / 4096 % 64), u (0x80 + r / 64 % 64), u (0x80 + r % 64)]
  else [0xEF, 0xBF, 0xBD]

/-- `utils.Utf16Count`: JavaScript's string length of the text -/
def utf16Count : Nat → Bytes → Nat
  | 0, _ => 0
  | _ + 1, [] => 0
  | fuel + 1, bs =>
    let (r, w) := decodeRune bs
    (if r ≥ 0x10000 then 2 else 1) + utf16Count fuel (bs.drop (max w 1))

def utf16Len (bs : Bytes) : Nat := utf16Count (bs.length + 1) bs

/-- `utils.Utf8encodeBytes`: every byte taken as a Latin-1 character -/
def utf8encBytes (bs : Bytes) : Bytes := bs.flatMap fun b => encodeRune b.toNat

def natDigits (n : Nat) : Bytes := (toString n).toUTF8.toList

/-! ### revision 4 (parser-v4.go) -/

def encodePacketV4 (p : Pkt) (supportsBinary : Bool) : Enc :=
  match p.data with
  | some ⟨.text, d⟩ => ⟨.text, p.typ.char :: d⟩
  | some ⟨.binary, d⟩ => if supportsBinary then ⟨.binary, d⟩ else ⟨.text, 98 :: b64Std d⟩
  | none => ⟨.text, [p.typ.char]⟩

def errorPkt : Pkt := { typ := .error, data := some ⟨.text, "parser error".toUTF8.toList⟩ }

/-- `DecodePacket` of a text frame / payload part, or of a binary frame -/
def decodePacketV4 (e : Enc) : Pkt × Bool :=
  match e.kind, e.data with
  | .binary, d => ({ typ := .message, data := some ⟨.binary, d⟩ }, true)
  | .text, [] => (errorPkt, false)
  | .text, t :: d =>
    if t = 98 then
      let (dec, bad) := unb64Std d
      if bad then (errorPkt, false) else ({ typ := .message, data := some ⟨.binary, dec⟩ }, true)
    else match PT.ofChar t with
      | some ty => ({ typ := ty, data := some ⟨.text, d⟩ }, true)
      | none => (errorPkt, false)

def sep : UInt8 := 0x1e

def joinSep : List Bytes → Bytes
  | [] => []
  | [x] => x
  | x :: rest => x ++ sep :: joinSep rest

def encodePayloadV4 (ps : List Pkt) : Enc :=
  ⟨.text, joinSep (ps.map fun p => (encodePacketV4 p false).data)⟩

def splitSep : Bytes → List Bytes
  | [] => [[]]
  | b :: rest =>
    match splitSep rest with
    | [] => [[b]]
    | seg :: segs => if b = sep then [] :: seg :: segs else (b :: seg) :: segs

/-- `bufio.Scanner` with the separator split function: tokens between
    separators; nothing after a trailing separator; a token of `maxTok` bytes or
    more stops the scan (bufio.ErrTooLong) -/
def scanTokens (maxTok : Nat) (body : Bytes) : List Bytes :=
  if body.isEmpty then [] else
  let parts := splitSep body
  let parts := if body.getLast? = some sep then parts.dropLast else parts
  parts.takeWhile fun t => t.length < maxTok

/-- `DecodePayload` (v4): packets until the first one that does not decode -/
def decodePayloadV4 (body : Bytes) : List Pkt :=
  let rec go : List Bytes → List Pkt
    | [] => []
    | t :: rest =>
      let (p, ok) := decodePacketV4 ⟨.text, t⟩
      if ok then p :: go rest else []
  go (scanTokens 65536 body)

/-! ### revision 3 (parser-v3.go) -/

def encodePacketV3 (p : Pkt) (supportsBinary utf8encode : Bool) : Enc :=
  match p.data with
  | some ⟨.text, d⟩ => ⟨.text, p.typ.char :: (if utf8encode then utf8encBytes d else d)⟩
  | some ⟨.binary, d⟩ =>
    if supportsBinary then ⟨.binary, (p.typ.char - 48) :: d⟩
    else ⟨.text, 98 :: p.typ.char :: b64Std d⟩
  | none => ⟨.text, [p.typ.char]⟩

def hasBinary (ps : List Pkt) : Bool :=
  ps.any fun p => match p.data with | some ⟨.binary, _⟩ => true | _ => false

/-- `encodeOneBinaryPacket` (with the dependency's repeated UTF-8 encoding of text) -/
def encodeOneBinaryV3 (p : Pkt) : Bytes :=
  let e := encodePacketV3 p true true
  match e.kind with
  | .text =>
    0 :: (natDigits (utf16Len e.data)).map (· - 48) ++ 255 :: utf8encBytes e.data
  | .binary =>
    1 :: (natDigits e.data.length).map (· - 48) ++ 255 :: e.data

def encodePayloadV3 (ps : List Pkt) (supportsBinary : Bool) : Enc :=
  if supportsBinary ∧ hasBinary ps then ⟨.binary, (ps.map encodeOneBinaryV3).flatten⟩
  else if ps.isEmpty then ⟨.text, "0:".toUTF8.toList⟩
  else ⟨.text, (ps.map fun p =>
      let e := encodePacketV3 p supportsBinary false
      natDigits (utf16Len e.data) ++ 58 :: e.data).flatten⟩

/-- `DecodePacket` (v3) of a text or binary packet -/
def decodePacketV3 (e : Enc) : Pkt × Bool :=
  match e.kind, e.data with
  | _, [] => (errorPkt, false)
  | .text, t :: d =>
    if t = 98 then
      match d with
      | [] => (errorPkt, false)
      | t2 :: d2 =>
        match PT.ofChar t2 with
        | some ty =>
          let (dec, bad) := unb64Std d2
          if bad then (errorPkt, false) else ({ typ := ty, data := some ⟨.binary, dec⟩ }, true)
        | none => (errorPkt, false)
    else match PT.ofChar t with
      | some ty => ({ typ := ty, data := some ⟨.text, d⟩ }, true)
      | none => (errorPkt, false)
  | .binary, t :: d =>
    match PT.ofChar (t + 48) with
    | some ty => ({ typ := ty, data := some ⟨.binary, d⟩ }, true)
    | none => (errorPkt, false)

/-- `strconv.ParseInt(s, 10, 0)` for the length prefix: optional sign, digits,
    within int64 -/
def parseLen (s : Bytes) : Option Int :=
  let (neg, ds) := match s with
    | 45 :: r => (true, r)
    | 43 :: r => (false, r)
    | r => (false, r)
  if ds.isEmpty ∨ ds.any (fun d => d < 48 ∨ d > 57) then none else
  let n : Nat := ds.foldl (fun a d => a * 10 + (d.toNat - 48)) 0
  if n ≥ 2 ^ 63 then none else some (if neg then -(Int.ofNat n) else Int.ofNat n)

/-- read runes until `n` UTF-16 units are collected (`ReadRune` loop); `none`
    when the text ends first -/
def takeUnits : Nat → Nat → Bytes → Bytes → Option (Bytes × Bytes)
  | 0, _, acc, rest => some (acc, rest)
  | fuel + 1, need, acc, rest =>
    if need = 0 then some (acc, rest) else
    match rest with
    | [] => none
    | _ =>
      let (r, w) := decodeRune rest
      let w := max w 1
      let units := if r ≥ 0x10000 then 2 else 1
      takeUnits fuel (need - units) (acc ++ encodeRune r) (rest.drop w)

/-- `DecodePayload` (v3, text form `<length>:<packet>…`) -/
def decodePayloadV3Text : Nat → Bytes → List Pkt
  | 0, _ => []
  | fuel + 1, body =>
    if body.isEmpty then [] else
    match body.idxOf? 58 with
    | none => []
    | some i =>
      match parseLen (body.take i) with
      | none => []
      | some len =>
        let rest := body.drop (i + 1)
        if len ≤ 0 then decodePayloadV3Text fuel rest else
        match takeUnits (rest.length + 1) len.toNat [] rest with
        | none => []
        | some (msg, rest') =>
          if msg.isEmpty then decodePayloadV3Text fuel rest' else
          let (p, ok) := decodePacketV3 ⟨.text, msg⟩
          if ok then p :: decodePayloadV3Text fuel rest' else []

/-- outcome of decoding a client-controlled body: the packets, or a Go panic in
    the decoder, or a loop whose length the client chose (more than `spinLimit`
    iterations without consuming input) -/
inductive Decoded where
  | ok (ps : List Pkt)
  | panic
  | spin
  deriving Repr

def spinLimit : Nat := 10000000

/-- the string branch of `decodePayloadAsBinary`: collects text until `need`
    UTF-16 units are counted; `buf` holds up to four pending byte values -/
def v3BinStringLoop : Nat → Int → Bytes → Bytes → Bytes → Option (Bytes × Bytes × Bytes)
  | 0, _, _, _, _ => none
  | fuel + 1, need, buf, tail, data =>
    if need ≤ 0 then some (data, buf, tail) else
    -- refill `buf` up to four byte values, one rune of input each
    let rec fill : Nat → Bytes → Bytes → Bytes × Bytes
      | 0, buf, tail => (buf, tail)
      | f + 1, buf, tail =>
        if buf.length ≥ 4 then (buf, tail) else
        match tail with
        | [] => (buf, tail)
        | _ =>
          let (r, wd) := decodeRune tail
          fill f (buf ++ [UInt8.ofNat (r % 256)]) (tail.drop (max wd 1))
    let (buf, tail) := fill 4 buf tail
    let (r, l) := decodeRune buf
    let units : Int := if r ≥ 0x10000 then 2 else 1
    -- Utf8decodeBytes(buf[0:l]): each rune of those bytes, truncated to a byte
    let piece := buf.take l
    let dec : Bytes :=
      let rec runes : Nat → Bytes → Bytes
        | 0, _ => []
        | f + 1, bs => match bs with
          | [] => []
          | _ => let (r, wd) := decodeRune bs; UInt8.ofNat (r % 256) :: runes f (bs.drop (max wd 1))
      runes (piece.length + 1) piece
    v3BinStringLoop fuel (need - units) (buf.drop l) tail (data ++ dec)

/-- `decodePayloadAsBinary` (revision 3, `application/octet-stream` bodies) -/
def decodePayloadV3Binary : Nat → Bytes → List Pkt → Decoded
  | 0, _, acc => .ok acc
  | fuel + 1, tail, acc =>
    match tail with
    | [] => .ok acc
    | start :: rest =>
      match rest.idxOf? 255 with
      | none => .ok acc
      | some i =>
        let digits := (rest.take i).map (· + 48)
        let after := rest.drop (i + 1)
        match parseLen digits with
        | none => .ok acc
        | some n =>
          if start = 0 then
            -- a string packet: more units asked for than the body can supply makes the loop spin
            if n > (after.length : Int) + (spinLimit : Int) then .spin else
            match v3BinStringLoop (after.length + n.toNat + 8) n [] after [] with
            | none => .ok acc
            | some (data, buf, tail') =>
              -- un-read what is left in `buf` (its UTF-8 length)
              let back := (utf8encBytes buf).length
              let consumed := after.length - tail'.length
              let tail'' := after.drop (consumed - back)
              if data.isEmpty then decodePayloadV3Binary fuel tail'' acc else
              let (p, ok) := decodePacketV3 ⟨.text, data⟩
              if ok then decodePayloadV3Binary fuel tail'' (acc ++ [p]) else .ok acc
          else
            if n < 0 then .panic        -- Buffer.Next with a negative count: slice bounds out of range
            else
              let d := after.take n.toNat
              let tail' := after.drop n.toNat
              if d.isEmpty then decodePayloadV3Binary fuel tail' acc else
              let (p, ok) := decodePacketV3 ⟨.binary, d⟩
              if ok then decodePayloadV3Binary fuel tail' (acc ++ [p]) else .ok acc

/-! ### encoding/json string escaping (HTML-safe) and the JSONP body -/

def hexDigit (n : Nat) : UInt8 := if n < 10 then UInt8.ofNat (48 + n) else UInt8.ofNat (87 + n)

def u4esc (n : Nat) : Bytes :=
  [92, 117, hexDigit (n / 4096 % 16), hexDigit (n / 256 % 16), hexDigit (n / 16 % 16), hexDigit (n % 16)]

/-- how encoding/json (with HTML escaping) writes one ASCII byte of a string -/
def jsonEscAscii (b : UInt8) : Bytes :=
  if b = 34 then [92, 34] else if b = 92 then [92, 92]
  else if b = 10 then [92, 110] else if b = 13 then [92, 114] else if b = 9 then [92, 116]
  else if b = 8 then [92, 98] else if b = 12 then [92, 102]
  else if b.toNat < 0x20 ∨ b = 60 ∨ b = 62 ∨ b = 38 then u4esc b.toNat
  else [b]

def jsonEscLoop : Nat → Bytes → Bytes
  | 0, _ => []
  | _ + 1, [] => []
  | fuel + 1, b :: rest =>
    if b.toNat < 0x80 then jsonEscAscii b ++ jsonEscLoop fuel rest
    else
      let bs := b :: rest
      let rw := decodeRune bs
      if rw.1 = 0xFFFD ∧ rw.2 ≤ 1 then [92, 117, 102, 102, 102, 100] ++ jsonEscLoop fuel rest
      else if rw.1 = 0x2028 ∨ rw.1 = 0x2029 then u4esc rw.1 ++ jsonEscLoop fuel (bs.drop rw.2)
      else bs.take rw.2 ++ jsonEscLoop fuel (bs.drop rw.2)

/-- `json.NewEncoder(w).Encode(s)` without the trailing newline -/
def jsonString (s : Bytes) : Bytes := 34 :: jsonEscLoop (s.length + 1) s ++ [34]

/-- JSONP `DoWrite`: head ++ JSON string ++ foot -/
def jsonpBody (digits : Bytes) (payload : Bytes) : Bytes :=
  "___eio[".toUTF8.toList ++ digits ++ "](".toUTF8.toList ++ jsonString payload ++ ");".toUTF8.toList

/-- `rNumber.ReplaceAllString(j, "")`: keep the ASCII digits -/
def jsonpDigits (j : Bytes) : Bytes := j.filter fun b => 48 ≤ b ∧ b ≤ 57

/-- `jsonp.OnData`'s two regexp passes: `(\\)?\\n` → newline unless preceded by a
    backslash (then kept), then `\\\\n` → `\\n` -/
def jsonpUnescape1 : Bytes → Bytes
  | 92 :: 92 :: 110 :: rest => 92 :: 92 :: 110 :: jsonpUnescape1 rest
  | 92 :: 110 :: rest => 10 :: jsonpUnescape1 rest
  | b :: rest => b :: jsonpUnescape1 rest
  | [] => []

def jsonpUnescape2 : Bytes → Bytes
  | 92 :: 92 :: 110 :: rest => 92 :: 110 :: jsonpUnescape2 rest
  | b :: rest => b :: jsonpUnescape2 rest
  | [] => []

def jsonpUnescape (d : Bytes) : Bytes := jsonpUnescape2 (jsonpUnescape1 d)

/-- what a JSONP client does to the payload before putting it into the form
    field (engine.io-client): `\\n` for an escaped newline, `\n` for a newline -/
def jsonpClientEscape : Bytes → Bytes
  | 92 :: 110 :: rest => 92 :: 92 :: 110 :: jsonpClientEscape rest
  | 10 :: rest => 92 :: 110 :: jsonpClientEscape rest
  | b :: rest => b :: jsonpClientEscape rest
  | [] => []

/-- `url.QueryUnescape`: '+' is a space, %XX a byte (malformed escapes: kept as they are) -/
def hexVal (b : UInt8) : Option Nat :=
  if 48 ≤ b ∧ b ≤ 57 then some (b.toNat - 48) else if 97 ≤ b ∧ b ≤ 102 then some (b.toNat - 87)
  else if 65 ≤ b ∧ b ≤ 70 then some (b.toNat - 55) else none

def urlUnescape : Bytes → Bytes
  | 37 :: a :: b :: rest =>
    match hexVal a, hexVal b with
    | some x, some y => UInt8.ofNat (x * 16 + y) :: urlUnescape rest
    | _, _ => 37 :: urlUnescape (a :: b :: rest)
  | 43 :: rest => 32 :: urlUnescape rest
  | c :: rest => c :: urlUnescape rest
  | [] => []

def splitByte (c : UInt8) : Bytes → List Bytes
  | [] => [[]]
  | b :: rest =>
    match splitByte c rest with
    | [] => [[b]]
    | seg :: segs => if b = c then [] :: seg :: segs else (b :: seg) :: segs

/-- the `d` field of an `application/x-www-form-urlencoded` body (`url.ParseQuery`, first value) -/
def formFieldD (body : Bytes) : Option Bytes :=
  ((splitByte 38 body).filterMap fun kv =>
    match splitByte 61 kv with
    | k :: v => if urlUnescape k = [100] then some (urlUnescape ((v.map fun x => x).intersperse [61] |>.flatten)) else none
    | [] => none).head?

end EIO.Codec
