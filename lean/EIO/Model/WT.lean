import EIO.Base.Bytes
/-
Model of /repo/webtransport/conn.go and prepared.go (frame writer and reader).

Representation choices (see DESIGN.md section 4 and 7/C13):
* `c.writeBuf` is kept as two parts `hdr ++ body` with `hdr.length = 9`
  (`maxFrameHeaderSize`); the Go field `messageWriter.pos` is `9 + p` where `p`
  is the model's payload position. Stale bytes are kept (buffers are reused
  and pooled) so that "the emitted frame does not depend on earlier content"
  is a theorem and not an assumption.
* The byte stream under the reader is `input ++ tail` where `tail` says how
  the stream ends (clean EOF or a persistent stream error). `bufio.Reader` is
  trusted to deliver the concatenation of whatever fragments the stream
  yields; the correspondence check fragments the real stream adversarially.
* Every Go `panic` on this path is an explicit result (`Except`-like sum), not
  hidden by totality.
-/

namespace EIO.WT

open EIO

/-! ## constants of conn.go that the model hard-wires; `Props/WTFacts.lean`
     proves that the regenerated facts equal them -/
def hdrMax : Nat := 9
def thr16 : Nat := 125      -- `length > 125`  ⇒ 16-bit form
def thr64 : Nat := 65536    -- `length >= 65536` ⇒ 64-bit form
def pos16 : Nat := 6        -- `framePos += 6`
def pos8 : Nat := 8         -- `framePos += 8`
def textType : Nat := 1
def binaryType : Nat := 2
def errGuard : Nat := 1000  -- `readErrCount >= 1000` ⇒ panic

def _root_.EIO.Kind.frameType : Kind → Nat
  | .text => textType
  | .binary => binaryType

/-- `(byte(w.frameType) - 1) << 7` in byte arithmetic. -/
def typeBit (k : Kind) : Nat := ((k.frameType + 255) % 256 * 128) % 256

/-! ## writer -/

/-- Go `copy(dst[at:], src)`: returns the new `dst` and the number copied. -/
def copyInto (dst : Bytes) (at_ : Nat) (src : Bytes) : Bytes × Nat :=
  let k := min (dst.length - at_) src.length
  (dst.take at_ ++ src.take k ++ dst.drop (at_ + k), k)

structure WBuf where
  hdr : Bytes      -- writeBuf[0:9]
  body : Bytes     -- writeBuf[9:]
  deriving Repr, DecidableEq, Inhabited

def WBuf.fresh (payloadCap : Nat) : WBuf :=
  ⟨List.replicate hdrMax 0, List.replicate payloadCap 0⟩

structure WConn where
  isServer : Bool
  bufSize : Nat                 -- c.writeBufSize - 9
  buf : Option WBuf             -- c.writeBuf (none = nil)
  pool : Option (List WBuf)     -- none = no pool configured
  out : Bytes                   -- everything written to the stream so far
  deriving Repr, Inhabited

/-- `NewConn(nil, stream, isServer, _, writeBufferSize, pool, nil, nil)`;
    `defBuf` is `defaultWriteBufferSize`. -/
def WConn.new (isServer : Bool) (writeBufferSize : Nat) (pooled : Bool) (defBuf : Nat) : WConn :=
  let sz := if writeBufferSize = 0 then defBuf else writeBufferSize
  { isServer, bufSize := sz,
    buf := if pooled then none else some (WBuf.fresh sz),
    pool := if pooled then some [] else none,
    out := [] }

/-- state of one `messageWriter` -/
structure MW where
  c : WConn
  buf : WBuf       -- c.writeBuf while the message is open
  p : Nat          -- w.pos - 9
  kind : Kind
  deriving Repr, Inhabited

/-- `beginMessage` (data kinds only; the bad-opcode branch is unreachable from
    the transports, which pass Text/Binary constants). -/
def beginMessage (c : WConn) (k : Kind) : MW :=
  match c.buf with
  | some b => { c := c, buf := b, p := 0, kind := k }
  | none =>
    match c.pool with
    | some (b :: rest) => { c := { c with pool := some rest }, buf := b, p := 0, kind := k }
    | _ => { c := c, buf := WBuf.fresh c.bufSize, p := 0, kind := k }

/-- `messageWriter.grow(n)` -/
def MW.grow (w : MW) (n : Nat) : MW :=
  let len := hdrMax + w.buf.body.length
  let pos := hdrMax + w.p
  let size := if 2 * len < pos + n then pos + n else 2 * len
  { w with buf := { w.buf with body := w.buf.body.take w.p ++ List.replicate (size - pos) 0 } }

/-- `ncopy(max)`: returns the writer (possibly grown) and the count. -/
def MW.ncopy (w : MW) (max : Nat) : MW × Nat :=
  let w' := if w.buf.body.length - w.p = 0 then w.grow max else w
  let n := w'.buf.body.length - w'.p
  (w', if n > max then max else n)

/-- the `for len(p) > 0` loop of `Write` / `WriteString` -/
def MW.writeLoop : Nat → MW → Bytes → MW
  | 0, w, _ => w
  | fuel + 1, w, p =>
    if p.isEmpty then w else
      let w1 := (w.ncopy p.length).1
      let n := (w.ncopy p.length).2
      let body' := (copyInto w1.buf.body w1.p (p.take n)).1
      MW.writeLoop fuel { w1 with buf := { w1.buf with body := body' }, p := w1.p + n } (p.drop n)

def MW.write (w : MW) (p : Bytes) : MW := MW.writeLoop (p.length + 1) w p

/-- `ReadFrom(r)`: the source hands out its chunks one `Read` call at a time,
    never more than the space offered. -/
def MW.readFromLoop : Nat → MW → List Bytes → MW
  | 0, w, _ => w
  | _ + 1, w, [] => w                                   -- Read returns 0, io.EOF
  | fuel + 1, w, ch :: rest =>
    let w1 := if w.p = w.buf.body.length then w.grow 1 else w
    let avail := w1.buf.body.length - w1.p
    let n := min avail ch.length
    let (body', _) := copyInto w1.buf.body w1.p (ch.take n)
    let w2 := { w1 with buf := { w1.buf with body := body' }, p := w1.p + n }
    if ch.length ≤ n then MW.readFromLoop fuel w2 rest
    else MW.readFromLoop fuel w2 (ch.drop n :: rest)

def totalLen (chs : List Bytes) : Nat := (chs.map List.length).sum

def MW.readFrom (w : MW) (chunks : List Bytes) : MW :=
  MW.readFromLoop (totalLen chunks + chunks.length + 1) w chunks

/-- header bytes written by `flushFrame` into the 9-byte header area, and the
    `framePos` from which the buffer is sent -/
def frameHeader (hdr : Bytes) (k : Kind) (length : Nat) : Bytes × Nat :=
  let b0 := typeBit k
  if length ≥ thr64 then
    ((copyInto hdr 0 (UInt8.ofNat (127 ||| b0) :: be 8 length)).1, 0)
  else if length > thr16 then
    ((copyInto hdr pos16 (UInt8.ofNat (126 ||| b0) :: be 2 length)).1, pos16)
  else
    ((copyInto hdr pos8 [UInt8.ofNat ((length % 256) ||| b0)]).1, pos8)

/-- `endMessage`: hand the buffer back (to the pool when there is one) -/
def endMessage (c : WConn) (b : WBuf) : WConn :=
  match c.pool with
  | some l => { c with pool := some (b :: l), buf := none }
  | none => { c with buf := some b }

/-- `flushFrame(true, extra)` followed by `endMessage` -/
def MW.flushFinal (w : MW) (extra : Bytes) : WConn :=
  let length := w.p + extra.length
  let (hdr', framePos) := frameHeader w.buf.hdr w.kind length
  let frame := hdr'.drop framePos ++ w.buf.body.take w.p ++ extra
  let b' := { w.buf with hdr := hdr' }
  endMessage { w.c with out := w.c.out ++ frame } b'

/-- `NextWriter(k)`; `Write(chunk)` for each chunk; `Close()` -/
def writeStream (c : WConn) (k : Kind) (chunks : List Bytes) : WConn :=
  ((chunks.foldl MW.write (beginMessage c k)).flushFinal [])

/-- `NextWriter(k)`; `io.Copy(w, src)` (uses `ReadFrom`); `Close()` -/
def writeReadFrom (c : WConn) (k : Kind) (chunks : List Bytes) : WConn :=
  ((beginMessage c k).readFrom chunks).flushFinal []

/-- `Conn.WriteMessage` -/
def writeMessage (c : WConn) (m : Msg) : WConn :=
  if c.isServer then
    let w := beginMessage c m.kind
    let (body', n) := copyInto w.buf.body 0 m.data
    ({ w with buf := { w.buf with body := body' }, p := n }).flushFinal (m.data.drop n)
  else
    writeStream c m.kind [m.data]

/-- `PreparedMessage.frame(key)`: the bytes of `WriteMessage` on a scratch
    connection with a default-size buffer -/
def WConn.scratch (isServer : Bool) (defBuf : Nat) : WConn :=
  { isServer, bufSize := defBuf, buf := some (WBuf.fresh defBuf), pool := none, out := [] }

def preparedFrame (isServer : Bool) (defBuf : Nat) (m : Msg) : Bytes :=
  (writeMessage (WConn.scratch isServer defBuf) m).out

/-- `Conn.WritePreparedMessage` -/
def writePrepared (c : WConn) (defBuf : Nat) (m : Msg) : WConn :=
  { c with out := c.out ++ preparedFrame c.isServer defBuf m }

/-! ## reader -/

inductive StreamEnd where
  | eof | fail
  deriving DecidableEq, Repr, Inhabited

inductive RErr where
  | unexpectedEOF   -- errUnexpectedEOF (CloseError 1006)
  | eof             -- raw io.EOF
  | readLimit       -- ErrReadLimit
  | stream          -- the stream's own error
  | closeFailed     -- error returned by CloseWithError
  deriving DecidableEq, Repr, Inhabited

structure RConn where
  input : Bytes
  tail : StreamEnd
  rem : Nat := 0              -- readRemaining
  rlen : Nat := 0             -- readLength
  limit : Nat := 0            -- readLimit
  err : Option RErr := none   -- readErr
  errCount : Nat := 0
  cur : Bool := false         -- c.messageReader is the reader handed out last
  closes : List Nat := []     -- codes passed to CloseWithError
  closeFails : Bool := false  -- the session's CloseWithError returns an error
  deriving Repr, Inhabited, DecidableEq

def StreamEnd.peekErr : StreamEnd → RErr
  | .eof => .unexpectedEOF      -- `if err == io.EOF { err = errUnexpectedEOF }`
  | .fail => .stream

def StreamEnd.rawErr : StreamEnd → RErr
  | .eof => .eof
  | .fail => .stream

/-- `c.read(n)`: `Peek(n)` + `Discard` -/
def RConn.read (c : RConn) (n : Nat) : Except RErr (Bytes × RConn) :=
  if n ≤ c.input.length then .ok (c.input.take n, { c with input := c.input.drop n })
  else .error c.tail.peekErr

/-- the bytes `c.read(n)` consumed when it failed (everything that was left) -/
def RConn.readFailState (c : RConn) : RConn := { c with input := [] }

inductive Adv where
  | frame (k : Kind) (c : RConn)
  | fail (e : RErr) (c : RConn)
  deriving Repr

def kindOfByte (b : UInt8) : Kind := if b.toNat / 128 % 2 = 1 then .binary else .text

/-- `advanceFrame` step 1: skip the remainder of the previous frame (`io.CopyN`) -/
def RConn.skip (c : RConn) : Except (RErr × RConn) RConn :=
  if c.rem > 0 then
    if c.input.length < c.rem then .error (c.tail.rawErr, { c with input := [] })
    else .ok { c with input := c.input.drop c.rem }
  else .ok c

/-- `advanceFrame` steps 2 and 3: header byte and extended length -/
def RConn.header (c : RConn) : Except (RErr × RConn) (Kind × RConn) :=
  match c.read 1 with
  | .error e => .error (e, c.readFailState)
  | .ok (p, c) =>
    let b := p.headD 0
    let k := kindOfByte b
    let c := { c with rem := b.toNat % 128 }
    if c.rem = 126 then
      match c.read 2 with
      | .error e => .error (e, c.readFailState)
      | .ok (p, c) => .ok (k, { c with rem := unbe p })
    else if c.rem = 127 then
      match c.read 8 with
      | .error e => .error (e, c.readFailState)
      | .ok (p, c) =>
        if unbe p ≥ 2 ^ 63 then .error (.readLimit, c)   -- int64 cast negative
        else .ok (k, { c with rem := unbe p })
    else .ok (k, c)

/-- `advanceFrame` step 4: enforce the read limit -/
def RConn.checkLimit (k : Kind) (c : RConn) : Adv :=
  let c := { c with rlen := c.rlen + c.rem }
  if c.limit > 0 ∧ c.rlen > c.limit then
    let c := { c with closes := c.closes ++ [1009] }
    if c.closeFails then .fail .closeFailed c else .fail .readLimit c
  else .frame k c

/-- `advanceFrame` -/
def RConn.advanceFrame (c : RConn) : Adv :=
  match c.skip with
  | .error (e, c) => .fail e c
  | .ok c =>
    match c.header with
    | .error (e, c) => .fail e c
    | .ok (k, c) => c.checkLimit k

inductive Next where
  | reader (k : Kind) (c : RConn)
  | error (e : RErr) (c : RConn)
  | panic (c : RConn)            -- "repeated read on failed webtransport connection"
  deriving Repr

/-- `NextReader` -/
def RConn.nextReader (c : RConn) : Next :=
  let c := { c with cur := false, rlen := 0 }
  let fail (c : RConn) (e : RErr) : Next :=
    let c := { c with errCount := c.errCount + 1 }
    if c.errCount ≥ errGuard then .panic c else .error e c
  match c.err with
  | some e => fail c e
  | none =>
    match c.advanceFrame with
    | .frame k c => .reader k { c with cur := true }
    | .fail e c => fail { c with err := some e } e

/-- result of one `messageReader.Read(b)` with `len(b) = n > 0` -/
structure ReadRes where
  data : Bytes
  err : Option RErr       -- `none` = nil; `some .eof` = io.EOF (end of message)
  c : RConn
  deriving Repr

/-- `messageReader.Read` on the reader handed out by the last `nextReader`
    (`mine = false` models a stale reader object: `c.messageReader != r`) -/
def RConn.readMsg (c : RConn) (n : Nat) (mine : Bool := true) : ReadRes :=
  if ¬ (mine ∧ c.cur) then ⟨[], some .eof, c⟩ else
  match c.err with
  | some e => ⟨[], some (if e = .eof then .unexpectedEOF else e), c⟩
  | none =>
    if c.rem > 0 then
      let k := min n c.rem
      if c.input.isEmpty then
        -- br.Read returns 0 and the stream's end condition
        let e := c.tail.rawErr
        let e' := if e = .eof then .unexpectedEOF else e
        ⟨[], some e', { c with err := some e' }⟩
      else
        let got := c.input.take k
        ⟨got, none, { c with input := c.input.drop k, rem := c.rem - got.length }⟩
    else ⟨[], some .eof, { c with cur := false }⟩

/-- `io.ReadAll(reader)`; `chunk` is the size of the buffer offered per call
    (ReadAll uses growing buffers ≥ 512; any positive size gives the same
    result, which is a theorem below) -/
def RConn.readAllLoop : Nat → RConn → Nat → Bytes → Bytes × Option RErr × RConn
  | 0, c, _, acc => (acc, none, c)
  | fuel + 1, c, chunk, acc =>
    let r := c.readMsg chunk
    match r.err with
    | some .eof => (acc ++ r.data, none, r.c)
    | some e => (acc ++ r.data, some e, r.c)
    | none => RConn.readAllLoop fuel r.c chunk (acc ++ r.data)

def RConn.readAll (c : RConn) (chunk : Nat := 512) : Bytes × Option RErr × RConn :=
  RConn.readAllLoop (c.rem + 2) c chunk []

inductive MsgRes where
  | msg (m : Msg) (c : RConn)                       -- complete message
  | partialMsg (k : Kind) (d : Bytes) (e : RErr) (c : RConn)   -- reader failed mid-message
  | error (e : RErr) (c : RConn)
  | panic (c : RConn)
  deriving Repr

/-- `Conn.ReadMessage` -/
def RConn.readMessage (c : RConn) : MsgRes :=
  match c.nextReader with
  | .panic c => .panic c
  | .error e c => .error e c
  | .reader k c =>
    match c.readAll with
    | (d, none, c) => .msg ⟨k, d⟩ c
    | (d, some e, c) => .partialMsg k d e c

/-- the transport's read loop: `ReadMessage` until the first failure -/
def RConn.readMessages : Nat → RConn → List Msg → List Msg × Option RErr × RConn
  | 0, c, acc => (acc, none, c)
  | fuel + 1, c, acc =>
    match c.readMessage with
    | .msg m c => RConn.readMessages fuel c (acc ++ [m])
    | .partialMsg _ _ e c => (acc, some e, c)
    | .error e c => (acc, some e, c)
    | .panic c => (acc, none, c)

def readStream (input : Bytes) (tail : StreamEnd := .eof) (limit : Nat := 0) :
    List Msg × Option RErr × RConn :=
  RConn.readMessages (input.length + 1) { input, tail, limit } []

end EIO.WT
