import EIO.Base.Bytes
/-
Model of types/slice.go at the level of Go slices (a backing array with
spare capacity and a length), so that in-place appends and overlapping copies
are visible; of types/set.go; and of types/events.go (the emitter).
Element type: Int (the code is generic and never inspects elements).
-/
namespace EIO.Cont
open EIO

/-! ## Go slices -/

/-- a Go slice: backing array from the slice's first element to the end of its
    capacity, and its length; invariant `len ≤ arr.length` -/
structure GS where
  arr : List Int
  len : Nat
  deriving Repr, DecidableEq

def GS.cap (g : GS) : Nat := g.arr.length
def GS.view (g : GS) : List Int := g.arr.take g.len
def GS.WF (g : GS) : Prop := g.len ≤ g.arr.length
def GS.ofList (l : List Int) : GS := ⟨l, l.length⟩

/-- `append(g, xs...)`: in place when it fits, otherwise a new array
    (its capacity beyond the needed length is unobservable: exactly the needed one) -/
def GS.append (g : GS) (xs : List Int) : GS :=
  if g.len + xs.length ≤ g.arr.length then
    ⟨g.arr.take g.len ++ xs ++ g.arr.drop (g.len + xs.length), g.len + xs.length⟩
  else ⟨g.arr.take g.len ++ xs, g.len + xs.length⟩

/-- `g[:k]` (k ≤ cap) -/
def GS.upto (g : GS) (k : Nat) : GS := ⟨g.arr, k⟩
/-- `g[a:]` -/
def GS.from (g : GS) (a : Nat) : GS := ⟨g.arr.drop a, g.len - a⟩

inductive SErr where
  | empty | index | range
  deriving DecidableEq, Repr

/-- `NewSlice(elements...)` -/
def newSlice (xs : List Int) : GS := GS.ofList xs

/-- `Push` -/
def push (g : GS) (xs : List Int) : GS × Nat := let g' := g.append xs; (g', g'.len)

/-- `Unshift`: a fresh array, then the arguments, then the old elements -/
def unshift (g : GS) (xs : List Int) : GS × Nat :=
  let merged : GS := ⟨List.replicate (xs.length + g.len) 0, 0⟩
  let g' := (merged.append xs).append g.view
  (g', g'.len)

def pop (g : GS) : Except SErr (Int × GS) :=
  if g.len = 0 then .error .empty else .ok (g.arr.getD (g.len - 1) 0, g.upto (g.len - 1))

def shift (g : GS) : Except SErr (Int × GS) :=
  if g.len = 0 then .error .empty else .ok (g.arr.getD 0 0, g.from 1)

def get (g : GS) (i : Int) : Except SErr Int :=
  if i < 0 ∨ i ≥ g.len then .error .index else .ok (g.arr.getD i.toNat 0)

def set (g : GS) (i : Int) (v : Int) : Except SErr GS :=
  if i < 0 ∨ i ≥ g.len then .error .index else .ok { g with arr := g.arr.set i.toNat v }

/-- `Slice(start, end)`: a copy of `elements[start:end]` -/
def slice (g : GS) (a b : Int) : Except SErr (List Int) :=
  if a < 0 ∨ b > g.len ∨ a > b then .error .range
  else .ok ((g.arr.drop a.toNat).take (b.toNat - a.toNat))

/-- `splice(start, deleteCount, insert...)` -/
def splice (g : GS) (start del : Int) (ins : List Int) : Except SErr (List Int × GS) :=
  if start < 0 ∨ start > g.len then .error .index
  else if del < 0 then .error .range
  else
    let st := start.toNat
    let d := min del.toNat (g.len - st)
    let removed := (g.arr.drop st).take d
    -- `tail := append([]T(nil), s.elements[start+deleteCount:]...)`: copied before the overwrite
    let tail := (g.arr.take g.len).drop (st + d)
    .ok (removed, ((g.upto st).append ins).append tail)

/-- index of the first element satisfying `p` among the first `n` of `l` -/
def findIdx (p : Int → Bool) : List Int → Nat → Option Nat
  | [], _ => none
  | x :: rest, i => if p x then some i else findIdx p rest (i + 1)

/-- `Remove(cond)`: `append(s.elements[:i], s.elements[i+1:]...)` for the first
    match (an overlapping copy: Go copies as if through a temporary) -/
def remove (g : GS) (p : Int → Bool) : GS :=
  match findIdx p g.view 0 with
  | some i => (g.upto i).append (g.view.drop (i + 1))
  | none => g

/-- the loop of `RemoveAll`: `elements[n] = el; n++` for every kept element,
    reading the array as the loop goes -/
def removeAllLoop (p : Int → Bool) : Nat → Nat → Nat → List Int → Nat → List Int × Nat
  | 0, _, n, arr, _ => (arr, n)
  | fuel + 1, i, n, arr, len =>
    if i ≥ len then (arr, n)
    else
      let el := arr.getD i 0
      if ¬ p el then removeAllLoop p fuel (i + 1) (n + 1) (arr.set n el) len
      else removeAllLoop p fuel (i + 1) n arr len

def removeAll (g : GS) (p : Int → Bool) : GS :=
  let (arr, n) := removeAllLoop p (g.len + 1) 0 0 g.arr g.len
  ⟨arr, n⟩

def filter (g : GS) (p : Int → Bool) : List Int := g.view.filter p
def findIndex (g : GS) (p : Int → Bool) : Int :=
  match findIdx p g.view 0 with | some i => i | none => -1
def clear (g : GS) : GS := g.upto 0
def allAndClear (g : GS) : List Int × GS := (g.view, g.upto 0)

/-- `RangeAndSplice(f, reverse)` with `f(el, i) = (el == v, start, del, ins)` -/
def rangeAndSplice (g : GS) (hit : Int → Bool) (start del : Int) (ins : List Int) :
    Except SErr (List Int × GS) :=
  if g.view.any hit then splice g start del ins else .ok ([], g)

/-! ## storage ownership (what shares an array with what) -/

/-- where a slice header points: an array owned by the `Slice`, an array owned
    by the caller of a method, or a freshly made one -/
inductive Owner where
  | own | caller | fresh
  deriving DecidableEq, Repr

/-- a slice header for ownership tracking: who owns the array, length, capacity -/
structure Hdr where
  owner : Owner
  len : Nat
  cap : Nat
  deriving DecidableEq, Repr

/-- `append(a, b...)`: the result lives in `a`'s array when it fits (and that
    array is then written), otherwise in a fresh one -/
def Hdr.append (a : Hdr) (n : Nat) : Hdr × Option Owner :=
  if n = 0 then (a, none)
  else if a.len + n ≤ a.cap then ({ a with len := a.len + n }, some a.owner)
  else ({ owner := .fresh, len := a.len + n, cap := a.len + n }, some .fresh)

/-- the three methods that receive a caller-owned slice: the header `elements`
    ends up with, and the arrays written on the way -/
def pushOwn (s : Hdr) (caller : Hdr) : Hdr × List Owner :=
  let (r, w) := s.append caller.len
  (r, w.toList)

def unshiftOwn (s : Hdr) (caller : Hdr) : Hdr × List Owner :=
  let merged : Hdr := ⟨.fresh, 0, caller.len + s.len⟩
  let (m1, w1) := merged.append caller.len
  let (m2, w2) := m1.append s.len
  (m2, w1.toList ++ w2.toList)

def spliceOwn (s : Hdr) (start d : Nat) (caller : Hdr) : Hdr × List Owner :=
  let tail : Hdr := ⟨.fresh, s.len - (start + d), s.len - (start + d)⟩
  let (a1, w1) := ({ s with len := start } : Hdr).append caller.len
  let (a2, w2) := a1.append tail.len
  (a2, w1.toList ++ w2.toList)

/-! ## Set -/

/-- `types.Set`: the key set as a duplicate-free list -/
def setAdd (s : List Int) (ks : List Int) : List Int × Bool :=
  (ks.foldl (fun acc k => if acc.contains k then acc else acc ++ [k]) s, !ks.isEmpty)
def setDelete (s : List Int) (ks : List Int) : List Int × Bool :=
  (ks.foldl (fun acc k => acc.filter (· ≠ k)) s, !ks.isEmpty)
def setNew (ks : List Int) : List Int := (setAdd [] ks).1

/-! ## event emitter (one event name) -/

structure Entry where
  uid : Nat         -- identity of this registration (of its once-wrapper object)
  fn : Nat          -- identity of the listener function (its code pointer)
  once : Bool
  deriving DecidableEq, Repr

/-- a registration slot: `none` is the nil entry stored for a nil listener -/
abbrev Slots := List (Option Entry)

structure Em where
  slots : Slots := []
  spent : List Nat := []    -- once-wrappers whose sync.Once has fired
  next : Nat := 0           -- registrations made so far
  deriving Repr

def mkEntries : List (Option Nat) → Bool → Nat → Slots
  | [], _, _ => []
  | f :: rest, once, n => (f.map fun id => ⟨n, id, once⟩) :: mkEntries rest once (n + 1)

/-- `On` / `Once` with a list of listeners, nil ones included -/
def Em.add (e : Em) (fns : List (Option Nat)) (once : Bool) : Em :=
  { e with slots := e.slots ++ mkEntries fns once e.next, next := e.next + fns.length }

/-- `RemoveListener(evt, fn)`: removes the first non-nil entry with that pointer -/
def emRemove : Slots → Nat → Slots × Bool
  | [], _ => ([], false)
  | some e :: rest, f => if e.fn = f then (rest, true) else
      let (r, b) := emRemove rest f; (some e :: r, b)
  | none :: rest, f => let (r, b) := emRemove rest f; (none :: r, b)

def Em.remove (e : Em) (f : Nat) : Em × Bool :=
  let (s, b) := emRemove e.slots f; ({ e with slots := s }, b)

/-- one listener call made by `Emit`: which registration, which function -/
structure Call where
  uid : Nat
  fn : Nat
  deriving DecidableEq, Repr

/-- `Emit`: walks the snapshot taken at the start; a once-wrapper that has not
    fired yet fires, runs its function and then removes one registration of
    that function; `react` is what the called function itself does to the emitter -/
def emitLoop (react : Nat → Em → Em) : List (Option Entry) → Em → List Call → Em × List Call
  | [], cur, calls => (cur, calls)
  | none :: snap, cur, calls => emitLoop react snap cur calls
  | some e :: snap, cur, calls =>
    if e.once then
      if e.uid ∈ cur.spent then emitLoop react snap cur calls
      else
        let cur := { cur with spent := e.uid :: cur.spent }
        let cur := react e.fn cur
        emitLoop react snap (cur.remove e.fn).1 (calls ++ [⟨e.uid, e.fn⟩])
    else emitLoop react snap (react e.fn cur) (calls ++ [⟨e.uid, e.fn⟩])

def Em.emit (e : Em) (react : Nat → Em → Em := fun _ x => x) : Em × List Call :=
  emitLoop react e.slots e []

end EIO.Cont
