import EIO.Base.Bytes
/-
Model of routing: utils.CleanPath (Go's path.Clean plus trailing-slash
restoration), types/serve.go ServeMux (Handle / appendSorted / match) and
baseServer.ComputePath. Paths and patterns are byte strings; patterns are
assumed to start with '/' (no host patterns), as every pattern in this code
base does.
-/
namespace EIO.Route
open EIO

abbrev Path := Bytes

def slash : UInt8 := 47
def dot : UInt8 := 46

/-- `strings.Split(p, "/")` -/
def splitSlash : Path → List Path
  | [] => [[]]
  | b :: rest =>
    match splitSlash rest with
    | [] => [[b]]       -- unreachable: splitSlash never returns []
    | seg :: segs => if b = slash then [] :: seg :: segs else (b :: seg) :: segs

/-- the lexical processing of `path.Clean` on a rooted path: empty and "."
    segments vanish, ".." removes the segment before it (never the root) -/
def cleanSegs : List Path → List Path → List Path
  | [], st => st
  | seg :: rest, st =>
    if seg = [] ∨ seg = [dot] then cleanSegs rest st
    else if seg = [dot, dot] then cleanSegs rest st.dropLast
    else cleanSegs rest (st ++ [seg])

def joinSlash : List Path → Path
  | [] => []
  | [s] => s
  | s :: rest => s ++ slash :: joinSlash rest

/-- `utils.CleanPath` -/
def cleanPath (p0 : Path) : Path :=
  if p0 = [] then [slash] else
  let p := if p0.head? ≠ some slash then slash :: p0 else p0
  let np := slash :: joinSlash (cleanSegs (splitSlash p) [])
  if p.getLast? = some slash ∧ np ≠ [slash] then np ++ [slash] else np

structure Entry where
  pattern : Path
  h : Nat            -- handler identity
  deriving DecidableEq, Repr

def endsSlash (p : Path) : Bool := p.getLast? = some slash

/-- `appendSorted`: insert before the first entry whose pattern is shorter
    (`sort.Search` finds that index because the list is sorted, see
    `Props/C05Route.lean`, `es_sorted`) -/
def appendSorted : List Entry → Entry → List Entry
  | [], e => [e]
  | x :: xs, e => if x.pattern.length < e.pattern.length then e :: x :: xs else x :: appendSorted xs e

structure Mux where
  exact : List Entry := []   -- mux.m (patterns without trailing slash)
  es : List Entry := []      -- mux.es
  deriving Repr

def Mux.patterns (m : Mux) : List Path := (m.exact ++ m.es).map (·.pattern)

/-- `ServeMux.Handle`; `none` is the Go panic (empty or duplicate pattern) -/
def Mux.handle (m : Mux) (e : Entry) : Option Mux :=
  if e.pattern = [] ∨ e.pattern ∈ m.patterns then none
  else if endsSlash e.pattern then some { m with es := appendSorted m.es e }
  else some { m with exact := m.exact ++ [e] }

def Mux.handleAll (m : Mux) : List Entry → Option Mux
  | [] => some m
  | e :: rest => match m.handle e with
    | none => none
    | some m' => m'.handleAll rest

def matchEs : List Entry → Path → Option Entry
  | [], _ => none
  | e :: rest, p => if e.pattern.isPrefixOf p then some e else matchEs rest p

/-- `ServeMux.match` -/
def Mux.match (m : Mux) (p : Path) : Option Entry :=
  match m.exact.find? (·.pattern = p) with
  | some e => some e
  | none => matchEs m.es p

/-- `ServeMux.Handler`: clean, then match (CONNECT requests keep their host's port, their path is cleaned like any other);
    `none` = DefaultHandler -/
def Mux.route (m : Mux) (raw : Path) : Option Entry := m.match (cleanPath raw)

structure AttachOpts where
  path : Option Path := none            -- GetRawPath()
  addTrailingSlash : Option Bool := none
  deriving Repr

/-- `strings.TrimRight(p, "/")` -/
def trimRightSlash (p : Path) : Path := (p.reverse.dropWhile (· = slash)).reverse

/-- "/engine.io" -/
def defaultPath : Path := [47, 101, 110, 103, 105, 110, 101, 46, 105, 111]

/-- `baseServer.ComputePath` -/
def computePath (o : Option AttachOpts) : Path :=
  let base := match o with
    | some { path := some p, .. } => trimRightSlash p
    | _ => defaultPath
  let add := match o with
    | some { addTrailingSlash := some b, .. } => b
    | _ => true
  if add then base ++ [slash] else base

end EIO.Route
