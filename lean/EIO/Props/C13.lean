import EIO.Props.C14
/-
C13 — WebTransport framing round-trips every message on every write path.

In the model the wire is the byte string `WConn.out`; the reader sees
`input ++ tail`, i.e. only the concatenation of whatever fragments the stream
delivers (bufio is trusted for that and the correspondence check fragments the
real stream adversarially), so independence from fragmentation is built into
the statement: it holds for the concatenation, hence for every fragmentation.
-/
namespace EIO.WT
open EIO

theorem encodeAll_minimal (ms : List Msg) :
    Spec.encodeAll (ms.map fun m => (Spec.minimal m.data.length, m)) =
      (ms.map Spec.encode).flatten := by
  simp only [Spec.encodeAll, Spec.encodeWith, List.map_map, Function.comp_def]
  rfl

/-- **C13, full strength.** For every sequence of messages (any kinds, any
    payload lengths below 2^63 — Go slices cannot be longer), written through any
    mix of the four write APIs with any chunking of the writer input, on a
    server or client connection created with any write-buffer size (0 =
    default) and with or without a buffer pool, the peer reads exactly those
    messages, each once, in order, with the same kind and bytes. -/
theorem c13_roundtrip (defBuf : Nat) (srv : Bool) (wbuf : Nat) (pooled : Bool) (ops : List WriteOp)
    (hlen : ∀ o ∈ ops, o.msg.data.length < 2 ^ 63) :
    (readStream (ops.foldl (applyOp defBuf) (WConn.new srv wbuf pooled defBuf)).out).1 =
      ops.map (·.msg) := by
  rw [c14_encoder_conforms defBuf ops _ (WConn.new_wf srv wbuf pooled defBuf)]
  have hout : (WConn.new srv wbuf pooled defBuf).out = [] := by
    unfold WConn.new; rfl
  rw [hout, List.nil_append]
  have h := encodeAll_minimal (ops.map (·.msg))
  rw [List.map_map] at h
  have h2 : (ops.map fun o => Spec.encode o.msg) = (ops.map (·.msg)).map Spec.encode := by
    simp [List.map_map, Function.comp_def]
  rw [h2, ← h]
  have := c14_decoder_accepts ((ops.map (·.msg)).map fun m => (Spec.minimal m.data.length, m))
    (by
      intro fm hfm
      simp only [List.mem_map] at hfm
      obtain ⟨m, ⟨o, ho, rfl⟩, rfl⟩ := hfm
      exact Spec.minimal_fits _ (hlen o ho))
  rw [List.map_map] at this
  simpa [List.map_map, Function.comp_def] using this.1

/-- the round trip also holds across an already used connection: what has been
    written before (by the same theorem) only prefixes the stream -/
theorem c13_roundtrip_appended (defBuf : Nat) (c : WConn) (h : c.WF) (ops : List WriteOp) :
    (ops.foldl (applyOp defBuf) c).out = c.out ++ (ops.map fun o => Spec.encode o.msg).flatten :=
  c14_encoder_conforms defBuf ops c h

/-- non-vacuity: a 300-byte text message through the streaming writer of a
    client connection with a 16-byte buffer (it must grow), then an empty
    binary message through the one-shot path, read back as written -/
example :
    (readStream ([WriteOp.stream .text [List.replicate 200 65, List.replicate 100 66],
                  .message ⟨.binary, []⟩].foldl (applyOp 4096)
        (WConn.new false 16 false 4096)).out).1 =
      [⟨.text, List.replicate 200 65 ++ List.replicate 100 66⟩, ⟨.binary, []⟩] := by
  decide +kernel

end EIO.WT
