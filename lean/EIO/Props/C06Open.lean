import EIO.Lemmas.PC
import EIO.Lemmas.OptsConst
import EIO.Lemmas.HbStep
import EIO.Props.Session
/-
C06, "the first packet the client receives is an open packet whose JSON carries … ; a configured initial packet is
delivered as the first message right after it": the packets a new session *accepts* begin with the open packet built
from the configuration, followed by the configured initial packet and nothing else — for every model state
(`c06_open_packet_then_initial`); in every reachable world a new session's account starts empty, so these are its first
packets (`c06_first_packets_of_a_new_session`). With C01's whole-history theorems (what is handed to the transport is a
prefix of what was accepted, in order) the open packet is the first thing on the wire.
The upgrades list the open packet advertises: `c06_upgrades_*`.
-/
namespace EIO.Ses
open EIO EIO.Codec

theorem createdPkts_of_npc {w w' : World} (h : NPC w w') (sid : Nat) :
    createdPkts sid w'.slog = createdPkts sid w.slog := by
  obtain ⟨added, hl, hn⟩ := h.log
  rw [hl, proj_append]
  have : createdPkts sid added = [] := by
    unfold proj
    apply List.flatMap_eq_nil_iff.mpr
    intro e he
    have := hn e he
    split
    · cases hev : e.2 <;> simp_all [SEv.isPC, fCreatedPkt]
    · rfl
  rw [this, List.append_nil]

/-- `sendPacket` on a session that accepts packets: exactly one `packetCreate`, of that packet; no session record is
    created -/
theorem sendPacket_created (w : World) (sid : Nat) (p : Pkt) (cb : Option Nat)
    (h : ¬ ((w.sock sid).rs = .closing ∨ (w.sock sid).rs = .closed ∨ w.socks.size ≤ sid)) :
    createdPkts sid (sendPacket w sid p cb).slog = createdPkts sid w.slog ++ [p] ∧
    (sendPacket w sid p cb).socks.size = w.socks.size := by
  unfold sendPacket
  simp only [h, if_false]
  refine ⟨?_, ?_⟩
  · rw [createdPkts_of_npc (npc_flush _ (npc_setSock _ _ (NPC.refl (w.sev sid (.packetCreate p cb))))), slog_sev, proj_snoc]
    simp [fCreatedPkt]
  · rw [(npc_flush _ (npc_setSock _ _ (NPC.refl (w.sev sid (.packetCreate p cb))))).size]; simp

/-- the open packet of session `sid` on a transport named `nm` -/
def openPkt (w : World) (sid : Nat) (nm : String) : Pkt :=
  { typ := .open, data := some ⟨.text, jsonOpen w sid nm⟩, compress := true }

/-- the configured initial packet, as a message -/
def initialPkts (o : Opts) : List Pkt :=
  match o.initial with
  | some d => [{ typ := .message, data := some ⟨.text, d⟩, compress := true }]
  | none => []

/-- the configuration does not change under `sendPacket` -/
theorem sendPacket_o (w : World) (sid : Nat) (p : Pkt) (cb : Option Nat) : (sendPacket w sid p cb).o = w.o :=
  (no_sendPacket sid p cb (NO.refl w)).o

/-- `onOpen`: an open session that is not waiting to close accepts the open packet, then the configured initial
    packet, and nothing else -/
theorem c06_open_packet_then_initial (w : World) (sid : Nat) (nm : String)
    (ho : (w.sock sid).rs = .open_) (hs : sid < w.socks.size) (hd : (w.sock sid).drainClose = none) :
    createdPkts sid (openPackets w sid nm).slog =
      createdPkts sid w.slog ++ openPkt w sid nm :: initialPkts w.o := by
  rw [← sendPacket_o w sid (openPkt w sid nm) none]
  have h1 : ¬ ((w.sock sid).rs = .closing ∨ (w.sock sid).rs = .closed ∨ w.socks.size ≤ sid) := by
    simp [ho]; try omega
  obtain ⟨c1, z1⟩ := sendPacket_created w sid (openPkt w sid nm) none h1
  have k1 := sendPacket_keeps w sid (openPkt w sid nm) none hd sid
  unfold openPackets
  show createdPkts sid (match (sendPacket w sid (openPkt w sid nm) none).o.initial with
    | some d => sendPacket (sendPacket w sid (openPkt w sid nm) none) sid { typ := .message, data := some ⟨.text, d⟩, compress := true } none
    | none => sendPacket w sid (openPkt w sid nm) none).slog = _
  unfold initialPkts
  cases hi : (sendPacket w sid (openPkt w sid nm) none).o.initial with
  | none => simp only; rw [c1]
  | some d =>
    simp only
    have h2 : ¬ (((sendPacket w sid (openPkt w sid nm) none).sock sid).rs = .closing ∨
        ((sendPacket w sid (openPkt w sid nm) none).sock sid).rs = .closed ∨
        (sendPacket w sid (openPkt w sid nm) none).socks.size ≤ sid) := by
      simp [k1.1, ho, z1]; try omega
    rw [(sendPacket_created _ sid _ none h2).1, c1]
    simp

/-- a session record that has just been pushed, opened and attached to its transport -/
theorem c06_open_packets_of_openSession (w : World) (ti proto : Nat) :
    ∃ w1 : World, w1.slog = w.slog ∧ w1.socks.size = w.socks.size + 1 ∧
      createdPkts w.socks.size (openSession w ti proto).slog =
        createdPkts w.socks.size w.slog ++
          openPkt w1 w.socks.size (w.tr ti).name :: initialPkts w.o ∧ w1.o = w.o := by
  refine ⟨(({ w with socks := w.socks.push { proto, tr := ti } } : World).setTr ti
      fun t => { t with role := .current w.socks.size, owner := w.socks.size }).setSock w.socks.size fun s => { s with rs := .open_ }, rfl, by simp, ?_, rfl⟩
  unfold openSession
  try dsimp only
  generalize hcore : ((({ w with socks := w.socks.push { proto, tr := ti } } : World).setTr ti
      fun t => { t with role := .current w.socks.size, owner := w.socks.size }).setSock w.socks.size fun s => { s with rs := .open_ }) = wc
  have hsz : wc.socks.size = w.socks.size + 1 := by rw [← hcore]; simp
  have hlg : wc.slog = w.slog := by rw [← hcore]; rfl
  have hsock : wc.sock w.socks.size = { proto, tr := ti, rs := .open_ } := by
    rw [← hcore, sock_setSock, sock_setTr]
    have : (({ w with socks := w.socks.push { proto, tr := ti } } : World)).sock w.socks.size = { proto, tr := ti } := by
      unfold World.sock; exact getD_push_eq _ _ _
    simp [this]
  have hc := c06_open_packet_then_initial wc w.socks.size (w.tr ti).name (by rw [hsock]) (by omega) (by rw [hsock])
  unfold openAnnounce
  try dsimp only
  rw [slog_sev, proj_snoc]
  show createdPkts w.socks.size (openPackets wc w.socks.size (w.tr ti).name).slog ++ _ = _
  have hwo : wc.o = w.o := by rw [← hcore]; rfl
  rw [hc, hlg, hwo]
  simp [fCreatedPkt]

/-- in every reachable world a session that does not exist yet has no packets: the open packet (and the initial
    packet) are the first packets of a new session -/
theorem c06_first_packets_of_a_new_session (o : Opts) (ops : List Op) :
    createdPkts (run o ops).socks.size (run o ops).slog = [] := by
  have i := (reach_inv o ops).acc.fresh
  apply proj_empty_of_fresh
  · intro e he; exact (neutral_created e he).1
  · intro e he hn hs
    have := i e he hn
    omega

/-- the upgrades the open packet advertises: none on a transport that is not polling, none when upgrades are disabled -/
theorem c06_upgrades_empty (w : World) (sid : Nat) (nm : String) (h : ¬ (w.o.upgrades = true ∧ nm = "polling")) :
    jsonOpen w sid nm =
      (s!"\{\"maxPayload\":{w.o.maxPayload},\"pingInterval\":{w.o.I},\"pingTimeout\":{w.o.T},\"sid\":\"").toUTF8.toList
        ++ sidBytes sid ++ ("\",\"upgrades\":[]}").toUTF8.toList := by
  unfold jsonOpen
  simp only [h, if_false]
  rfl

/-- on polling with upgrades allowed: exactly the upgrade targets of polling that are enabled on the server -/
theorem c06_upgrades_of_polling (w : World) (sid : Nat) (h : w.o.upgrades = true) :
    jsonOpen w sid "polling" =
      (s!"\{\"maxPayload\":{w.o.maxPayload},\"pingInterval\":{w.o.I},\"pingTimeout\":{w.o.T},\"sid\":\"").toUTF8.toList
        ++ sidBytes sid ++ ("\",\"upgrades\":" ++ ("[" ++ ",".intercalate
          ((["websocket", "webtransport"].filter fun u => w.o.transports.contains u).map fun u => "\"" ++ u ++ "\"") ++ "]") ++ "}").toUTF8.toList := by
  unfold jsonOpen
  simp only [h, true_and, if_true]

/-- non-vacuity: a polling handshake with an initial packet configured: the new session's packets are the open packet
    and then the initial packet -/
example :
    let o : Opts := { initial := some "hello".toUTF8.toList }
    let w := run o [.hsPolling 4 false none]
    (createdPkts 0 w.slog).map (·.typ) = [.open, .message] := by
  decide +kernel

end EIO.Ses
