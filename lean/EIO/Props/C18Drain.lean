import EIO.Lemmas.SesOps
/-
C18 / C12, per model state:

  * a hand-off logs the flush entry (with exactly the buffered packets and callbacks) immediately followed by the
    drain entry of the same session, and nothing else (`c18_flush_then_drain`; a session waiting for this drain to
    close gracefully goes on to log its close after them);
  * when a polling transport closes with a poll pending and idle, a writer with a noop packet is started for it
    before the transport is marked closed: the poll is released (`c12_close_releases_pending_poll`); with a batch
    in flight the writer already running answers it.
-/
namespace EIO.Ses
open EIO EIO.Codec

theorem c18_flush_then_drain (f : Nat) (w : World) (sid : Nat) (hdc : (w.sock sid).drainClose = none)
    (hgo : ¬ ((w.sock sid).rs = .closed ∨ ¬ (w.tr (w.sock sid).tr).writable = true ∨ (w.sock sid).wbuf.isEmpty = true)) :
    (flushF (f + 1) w sid).slog =
      w.slog ++ [(sid, .flush (w.sock sid).wbuf (w.sock sid).packetsFn), (sid, .drain)] := by
  rw [flushF]
  simp only [hgo, if_false]
  generalize hw1 : ((((w.setSock sid fun s => { s with wbuf := [], sentCb := s.sentCb ++ [s.packetsFn], packetsFn := [] }).sev sid
      (.flush (w.sock sid).wbuf (w.sock sid).packetsFn)).ev s!"srv:flush:s{sid}:{pktChars (w.sock sid).wbuf}")) = w1
  have hl1 : w1.slog = w.slog ++ [(sid, .flush (w.sock sid).wbuf (w.sock sid).packetsFn)] := by
    rw [← hw1]; simp
  generalize hw2 : (trSend w1 (w.sock sid).tr (w.sock sid).wbuf).sev sid .drain = w2
  have hl2 : w2.slog = w.slog ++ [(sid, .flush (w.sock sid).wbuf (w.sock sid).packetsFn), (sid, .drain)] := by
    rw [← hw2, slog_sev]
    show w1.slog ++ _ = _
    rw [hl1]; simp
  have hd2 : (w2.sock sid).drainClose = none := by
    rw [← hw2, sock_sev, sock_trSend, ← hw1]
    simp only [sock_ev, sock_sev, sock_setSock]
    split <;> exact hdc
  split
  · rename_i d hd
    rw [hd2] at hd; cases hd
  · exact hl2

/-- a polling transport that closes while its poll is pending and idle first starts a writer with a noop packet -/
theorem c12_close_releases_pending_poll (f : Nat) (w : World) (ti : Nat) (hp : (w.tr ti).isPolling = true)
    (hw : (w.tr ti).writable = true) :
    ∃ w1, pollOnCloseF (f + 1) w ti = trOnCloseBaseF f w1 ti ∧ w1.tasks = w.tasks ++ [.pollSend ti [{ typ := .noop }]] ∧
      (w1.tr ti).writable = false := by
  refine ⟨trSend w ti [{ typ := .noop }], ?_, ?_, ?_⟩
  · rw [pollOnCloseF]; simp only [hw, if_true]
  · unfold trSend
    show w.tasks ++ [if ((w.setTr ti _).tr ti).isPolling = true then _ else _] = _
    have : ((w.setTr ti fun t => { t with writable := false }).tr ti).isPolling = true := by
      rw [tr_setTr]; split <;> exact hp
    rw [if_pos this]
  · unfold trSend
    show ((w.setTr ti fun t => { t with writable := false }).tr ti).writable = false
    rw [tr_setTr]
    split
    · rfl
    · rename_i h
      -- the transport does not exist: then it is not polling either
      exfalso
      have hoob : w.trs.size ≤ ti := Nat.le_of_not_lt (fun hh => h ⟨rfl, hh⟩)
      rw [tr_oob w ti hoob] at hp
      cases hp

end EIO.Ses
