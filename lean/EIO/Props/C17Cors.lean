import EIO.Model.Cors
/-
C17, the CORS half: for every policy and every request.
-/
namespace EIO.Cors

def acao (out : Out) : List String := (out.headers.filter (·.1 = "Access-Control-Allow-Origin")).map (·.2)

theorem acao_configureOrigin (o : Opts) (r : Req) :
    acao (configureOrigin o r {}) =
      match o.origin with
      | .star => ["*"]
      | .fixed s => [s]
      | .test elems => [if isOriginAllowed r elems then r.origin else "false"] := by
  unfold configureOrigin acao
  cases o.origin <;> simp

/-- the later stages add other headers only -/
theorem acao_stages (o : Opts) (r : Req) (out : Out) :
    acao (configureCredentials o out) = acao out ∧ acao (configureMethods o out) = acao out ∧
    acao (configureAllowedHeaders o r out) = acao out ∧ acao (configureMaxAge o out) = acao out ∧
    acao (configureExposed o out) = acao out := by
  refine ⟨?_, ?_, ?_, ?_, ?_⟩
  · unfold configureCredentials acao; split <;> simp
  · unfold configureMethods acao; split <;> simp
  · unfold configureAllowedHeaders acao; split <;> (try split) <;> simp
  · unfold configureMaxAge acao; split <;> simp
  · unfold configureExposed acao; split <;> (try split) <;> simp

/-- exactly one Access-Control-Allow-Origin, and it names the request's origin only when the policy allows that origin -/
theorem c17_allow_origin (o : Opts) (r : Req) :
    acao (middleware o r) =
      match o.origin with
      | .star => ["*"]
      | .fixed s => [s]
      | .test elems => [if isOriginAllowed r elems then r.origin else "false"] := by
  have h := acao_configureOrigin o r
  unfold middleware
  split
  · split
    · show acao (configureExposed o _) = _
      rw [(acao_stages o r _).2.2.2.2, (acao_stages o r _).2.2.2.1, (acao_stages o r _).2.2.1, (acao_stages o r _).2.1,
          (acao_stages o r _).1]; exact h
    · have : ∀ out : Out, acao { out with headers := out.headers ++ [("Content-Length", "0")], answered := some o.status } = acao out := by
        intro out; unfold acao; simp
      rw [this]
      rw [(acao_stages o r _).2.2.2.2, (acao_stages o r _).2.2.2.1, (acao_stages o r _).2.2.1, (acao_stages o r _).2.1,
          (acao_stages o r _).1]; exact h
  · show acao (configureExposed o _) = _
    rw [(acao_stages o r _).2.2.2.2, (acao_stages o r _).1]; exact h

/-- a refused origin is never named -/
theorem c17_refused_origin_not_named (o : Opts) (r : Req) (elems : List Elem) (ho : o.origin = .test elems)
    (hr : isOriginAllowed r elems = false) : acao (middleware o r) = ["false"] := by
  rw [c17_allow_origin, ho]; simp [hr]

theorem varys_stage_mono (o : Opts) (r : Req) (out : Out) (x : String) (h : x ∈ out.varys) :
    x ∈ (configureCredentials o out).varys ∧ x ∈ (configureMethods o out).varys ∧
    x ∈ (configureAllowedHeaders o r out).varys ∧ x ∈ (configureMaxAge o out).varys ∧ x ∈ (configureExposed o out).varys := by
  refine ⟨?_, ?_, ?_, ?_, ?_⟩
  · unfold configureCredentials; split <;> simp [h]
  · unfold configureMethods; split <;> simp [h]
  · unfold configureAllowedHeaders; split <;> (try split) <;> simp [h]
  · unfold configureMaxAge; split <;> simp [h]
  · unfold configureExposed; split <;> (try split) <;> simp [h]

/-- Vary: Origin whenever the Allow-Origin value is not the constant '*' -/
theorem c17_vary_origin (o : Opts) (r : Req) (h : o.origin ≠ .star) : "Origin" ∈ (middleware o r).varys := by
  have h0 : "Origin" ∈ (configureOrigin o r {}).varys := by
    unfold configureOrigin
    cases ho : o.origin with
    | star => exact absurd ho h
    | fixed s => simp
    | test e => simp
  unfold middleware
  split
  · have h1 := (varys_stage_mono o r _ "Origin" h0).1
    have h2 := (varys_stage_mono o r _ "Origin" h1).2.1
    have h3 := (varys_stage_mono o r _ "Origin" h2).2.2.1
    have h4 := (varys_stage_mono o r _ "Origin" h3).2.2.2.1
    have h5 := (varys_stage_mono o r _ "Origin" h4).2.2.2.2
    split <;> exact h5
  · have h1 := (varys_stage_mono o r _ "Origin" h0).1
    exact (varys_stage_mono o r _ "Origin" h1).2.2.2.2

def hasCred (out : Out) : Bool := out.headers.any (·.1 = "Access-Control-Allow-Credentials")

theorem cred_stages (o : Opts) (r : Req) (out : Out) :
    hasCred (configureMethods o out) = hasCred out ∧ hasCred (configureAllowedHeaders o r out) = hasCred out ∧
    hasCred (configureMaxAge o out) = hasCred out ∧ hasCred (configureExposed o out) = hasCred out := by
  refine ⟨?_, ?_, ?_, ?_⟩
  · unfold configureMethods hasCred; split <;> simp
  · unfold configureAllowedHeaders hasCred; split <;> (try split) <;> simp
  · unfold configureMaxAge hasCred; split <;> simp
  · unfold configureExposed hasCred; split <;> (try split) <;> simp

/-- the credentials header exactly when configured -/
theorem c17_credentials (o : Opts) (r : Req) : hasCred (middleware o r) = o.credentials := by
  have h0 : hasCred (configureCredentials o (configureOrigin o r {})) = o.credentials := by
    unfold configureCredentials configureOrigin hasCred
    cases o.origin <;> cases hc : o.credentials <;> simp
  unfold middleware
  split
  · have := cred_stages o r
    split
    · show hasCred (configureExposed o _) = _
      rw [(this _).2.2.2, (this _).2.2.1, (this _).2.1, (this _).1]; exact h0
    · have e : ∀ out : Out, hasCred { out with headers := out.headers ++ [("Content-Length", "0")], answered := some o.status } = hasCred out := by
        intro out; unfold hasCred; simp
      rw [e, (this _).2.2.2, (this _).2.2.1, (this _).2.1, (this _).1]; exact h0
  · show hasCred (configureExposed o _) = _
    rw [(cred_stages o r _).2.2.2]; exact h0

/-- a preflight is answered by the middleware itself with the configured status and is not passed on,
    unless the policy says to pass it on; every other request is passed on unanswered -/
theorem c17_preflight (o : Opts) (r : Req) :
    (r.method = "OPTIONS" → o.preflightContinue = false → (middleware o r).answered = some o.status ∧ (middleware o r).next = false) ∧
    (r.method = "OPTIONS" → o.preflightContinue = true → (middleware o r).answered = none ∧ (middleware o r).next = true) ∧
    (r.method ≠ "OPTIONS" → (middleware o r).answered = none ∧ (middleware o r).next = true) := by
  have keep : ∀ (out : Out), (configureCredentials o out).answered = out.answered ∧ (configureCredentials o out).next = out.next ∧
      (configureMethods o out).answered = out.answered ∧ (configureMethods o out).next = out.next ∧
      (configureAllowedHeaders o r out).answered = out.answered ∧ (configureAllowedHeaders o r out).next = out.next ∧
      (configureMaxAge o out).answered = out.answered ∧ (configureMaxAge o out).next = out.next ∧
      (configureExposed o out).answered = out.answered ∧ (configureExposed o out).next = out.next := by
    intro out
    refine ⟨?_, ?_, ?_, ?_, ?_, ?_, ?_, ?_, ?_, ?_⟩ <;>
      first
        | (unfold configureCredentials; split <;> rfl)
        | (unfold configureMethods; split <;> rfl)
        | (unfold configureAllowedHeaders; split <;> (try split) <;> rfl)
        | (unfold configureMaxAge; split <;> rfl)
        | (unfold configureExposed; split <;> (try split) <;> rfl)
  have orig : (configureOrigin o r {}).answered = none ∧ (configureOrigin o r {}).next = false := by
    unfold configureOrigin; cases o.origin <;> simp
  have chainA : (configureExposed o (configureMaxAge o (configureAllowedHeaders o r (configureMethods o
      (configureCredentials o (configureOrigin o r {})))))).answered = none := by
    rw [(keep _).2.2.2.2.2.2.2.2.1, (keep _).2.2.2.2.2.2.1, (keep _).2.2.2.2.1, (keep _).2.2.1, (keep _).1]; exact orig.1
  have chainN : (configureExposed o (configureMaxAge o (configureAllowedHeaders o r (configureMethods o
      (configureCredentials o (configureOrigin o r {})))))).next = false := by
    rw [(keep _).2.2.2.2.2.2.2.2.2, (keep _).2.2.2.2.2.2.2.1, (keep _).2.2.2.2.2.1, (keep _).2.2.2.1, (keep _).2.1]; exact orig.2
  have shortA : (configureExposed o (configureCredentials o (configureOrigin o r {}))).answered = none := by
    rw [(keep _).2.2.2.2.2.2.2.2.1, (keep _).1]; exact orig.1
  refine ⟨fun hm hp => ?_, fun hm hp => ?_, fun hm => ?_⟩
  · unfold middleware; simp [hm, hp, chainN]
  · unfold middleware; simp [hm, hp, chainA]
  · unfold middleware; simp [hm, shortA]

/-- non-vacuity: a list policy, an allowed and a refused origin -/
example : acao (middleware { origin := .test [.str "https://a.example", .re 0] } { method := "GET", origin := "https://a.example", reMatch := [false] }) = ["https://a.example"]
    ∧ acao (middleware { origin := .test [.str "https://a.example", .re 0] } { method := "GET", origin := "https://evil.example", reMatch := [false] }) = ["false"] := by
  decide

end EIO.Cors
