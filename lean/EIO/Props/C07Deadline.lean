import EIO.Lemmas.PTHist
import EIO.Lemmas.HbLog
/-
C07, "closes with reason ping timeout at that deadline and never before; a client that answers every ping in
time is never closed for ping timeout" — over whole histories:

* `c07_only_the_clock_times_out`: no operation other than the passing of time appends a `close ping_timeout` entry
  (handshakes, polls, data requests and frames of any content, aborts, candidates, drops, close frames, application
  sends and closes, shutdown, writer tasks), in any model state.
* inside `adv`, the clock fires a list of timers (`advFirings`); `c07_timeout_needs_its_deadline_timer`: if no
  deadline timer is among them, nobody is closed for ping timeout; `c07_deadline_timer_was_armed_and_due`: a deadline
  timer that is fired was armed for that session (`pingTimeoutDue = some t`), `t` is not after the target of the
  advance, and the clock at the firing is at or after `t` — exactly `t` unless the clock had passed it already.
  So a session whose deadline is cancelled by a pong (`c07_pong_rearms`) or lies beyond the target is not closed.
-/
namespace EIO.Ses
open EIO EIO.Codec

/-- the sessions closed for ping timeout, in log order -/
def ptCloses (l : List (Nat × SEv)) : List Nat := (l.filter fun e => e.2.isPT).map Prod.fst

theorem ptCloses_of_npm {w w' : World} (h : NPm w w') : ptCloses w'.slog = ptCloses w.slog := by
  obtain ⟨added, hl, hn⟩ := h
  have : added.filter (fun e => e.2.isPT) = [] := by
    apply List.filter_eq_nil_iff.2
    intro e he; simp [hn e he]
  simp [ptCloses, hl, List.filter_append, this]

/-- **only the clock closes a session for ping timeout** -/
theorem c07_only_the_clock_times_out (w : World) (op : Op) (h : ∀ d, op ≠ .adv d) :
    ptCloses (step w op).slog = ptCloses w.slog :=
  ptCloses_of_npm (npm_step w op h)

/-- **and the clock does it only by firing a deadline timer** -/
theorem c07_timeout_needs_its_deadline_timer (w : World) (fuel target : Nat)
    (h : ∀ x ∈ advFirings fuel w target, ∀ s, x.2.1 ≠ .pingTimeout s) :
    ptCloses (advance fuel w target).slog = ptCloses w.slog :=
  ptCloses_of_npm (npm_advance fuel w w target (NP.refl w) h).npm

theorem mem_dueTimers_pingTimeout (w : World) (d sid : Nat) (h : (d, TimerId.pingTimeout sid) ∈ dueTimers w) :
    (w.sock sid).pingTimeoutDue = some d := by
  unfold dueTimers at h
  simp only [List.mem_append, List.mem_flatMap, List.mem_range] at h
  rcases h with ⟨i, hi, h⟩ | ⟨i, hi, h⟩
  · rcases h with (h | h) | h
    · split at h <;> simp at h
    · split at h
      · rename_i d' hd
        simp at h
        obtain ⟨rfl, rfl⟩ := h
        exact hd
      · cases h
    · split at h
      · rcases List.mem_append.mp h with h | h <;> (split at h <;> simp at h)
      · cases h
  · split at h <;> simp at h

/-- **never before the deadline**: every timer the clock fires was due by the target and is fired with the clock at or
    after its due instant -/
theorem c07_fired_timers_were_due (w : World) (fuel target : Nat) :
    ∀ x ∈ advFirings fuel w target, x.1 ≤ target ∧ x.1 ≤ x.2.2.now :=
  advFirings_due fuel w target

/-- the first timer the clock fires: it was pending in the world the advance started from; a deadline timer among
    them was armed for that session with exactly that due instant, and the clock it is fired at is that instant
    unless the clock had passed it already -/
theorem c07_deadline_timer_was_armed_and_due (w w' : World) (fuel target t sid : Nat)
    (rest : List (Nat × TimerId × World))
    (h : advFirings fuel w target = (t, .pingTimeout sid, w') :: rest) :
    (w.sock sid).pingTimeoutDue = some t ∧ t ≤ target ∧ w'.now = max w.now t := by
  obtain ⟨hm, hw⟩ := advFirings_head_pending fuel w target t _ w' rest h
  refine ⟨mem_dueTimers_pingTimeout w t sid hm, ?_, by rw [hw]⟩
  have := advFirings_due fuel w target (t, .pingTimeout sid, w') (by rw [h]; exact List.mem_cons_self)
  exact this.1

/-- the firing list of an advance is the first firing followed by the firing list of the rest of the advance: so the
    statement about the first firing speaks about every firing, each from the world it happens in -/
theorem advFirings_cons (fuel : Nat) (w : World) (target d : Nat) (id : TimerId)
    (h : earliest (dueTimers w) target = some (d, id)) :
    advFirings (fuel + 1) w target =
      (d, id, { w with now := max w.now d }) :: advFirings fuel (fireTimer { w with now := max w.now d } id) target := by
  rw [advFirings, h]

/-- the operations that carry packets a client sends -/
def Op.fromClient : Op → Bool
  | .post .. => true
  | .frame .. => true
  | _ => false

/-- **a heartbeat is accepted only from a packet the client sent**: no other operation — the clock with all its
    timers, polls, handshakes, candidates, drops, application calls, writer tasks — logs a `heartbeat` entry; in
    particular the server's own ping does not count as the peer's answer -/
theorem c07_heartbeat_only_from_client_packets (w : World) (op : Op) (h : op.fromClient = false) :
    (step w op).slog.filter (fun e => e.2.isHb) = w.slog.filter (fun e => e.2.isHb) := by
  have hm : NHm w (step w op) := by
    unfold step
    split
    · exact NHm.refl w
    · cases op with
      | hsPolling pr b j => exact nhm_hsPolling _ _ _ _
      | hsWebsocket pr b => exact nhm_hsWebsocket _ _ _
      | poll sid ae => exact (nh_pollReq _ _ (NH.refl w)).nhm
      | post sid bin decl body vj => cases h
      | abort r => exact (nh_abortReq _ (NH.refl w)).nhm
      | wsCandidate sid pr b => exact (nh_wsCandidate _ _ _ (NH.refl w)).nhm
      | hsWt => exact nhm_hsWt _
      | wtCandidate sid => exact (nh_wtCandidate _ (NH.refl w)).nhm
      | frame c m => cases h
      | drop c => exact (nh_wsDrop _ (NH.refl w)).nhm
      | closeFrame c code => exact (nh_wsDrop _ (nh_setConn _ _ (NH.refl w))).nhm
      | send sid m c cb pre => exact (nh_appSend _ _ _ _ _ (NH.refl w)).nhm
      | close sid d => exact (nh_appClose _ _ (NH.refl w)).nhm
      | shutdown => exact (nh_shutdownFold _ (NH.refl w)).nhm
      | adv d => exact (nh_advance _ _ (NH.refl w)).nhm
      | settle => exact (nh_settle _ (NH.refl w)).nhm
      | observe => exact (nh_observe (NH.refl w)).nhm
  obtain ⟨added, hl, hn⟩ := hm
  have : added.filter (fun e => e.2.isHb) = [] := by
    apply List.filter_eq_nil_iff.2
    intro e he; simp [hn e he]
  rw [hl, List.filter_append, this, List.append_nil]

/-- the pending timers do not depend on the clock -/
theorem dueTimers_now (w : World) (n : Nat) : dueTimers ({ w with now := n } : World) = dueTimers w := rfl

/-- **every timer due by the target fires, unless the fuel of `advance` was used up**: if `advance` fired fewer timers
    than its fuel allows, no pending timer is due at or before the clock it leaves behind. (The driver evaluates the
    conclusion in every world the correspondence visits — token `LATE!` — so an exhausted fuel cannot pass unnoticed.) -/
theorem c07_every_due_timer_fired_unless_fuel_ran_out (fuel : Nat) : ∀ (w : World) (target : Nat),
    advanceUsed fuel w target < fuel →
    earliest (dueTimers (advance fuel w target)) target = none ∧ (advance fuel w target).now = target := by
  induction fuel with
  | zero => intro w target h; exact absurd h (Nat.not_lt_zero _)
  | succ f ih =>
    intro w target h
    rw [advance]
    rw [advanceUsed] at h
    cases he : earliest (dueTimers w) target with
    | none => exact ⟨by rw [dueTimers_now]; exact he, rfl⟩
    | some r =>
      obtain ⟨d, id⟩ := r
      rw [he] at h
      simp only at h ⊢
      exact ih _ _ (by omega)

/-- the number of firings is the length of the firing list -/
theorem advanceUsed_eq_firings (fuel : Nat) : ∀ (w : World) (target : Nat),
    advanceUsed fuel w target = (advFirings fuel w target).length := by
  induction fuel with
  | zero => intro w target; rfl
  | succ f ih =>
    intro w target
    rw [advanceUsed, advFirings]
    cases he : earliest (dueTimers w) target with
    | none => rfl
    | some r =>
      obtain ⟨d, id⟩ := r
      simp only [List.length_cons]
      rw [ih]; omega

/-- non-vacuity: a silent revision-4 websocket session: the first advance fires the ping, the second the deadline
    timer — at 25000 + 20000 exactly — and the session is closed for ping timeout then, not before -/
example :
    let w := run {} [.hsWebsocket 4 false, .settle, .adv 25000, .settle]
    ptCloses w.slog = [] ∧ (w.sock 0).pingTimeoutDue = some 45000 ∧
    ptCloses (step w (.adv 19999)).slog = [] ∧
    ptCloses (step w (.adv 20000)).slog = [0] ∧
    (advFirings 64 w 45000).map (fun x => (x.1, x.2.2.now)) = [(45000, 45000)] := by
  decide +kernel

end EIO.Ses
