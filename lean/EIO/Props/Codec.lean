import EIO.Model.Codec
/-
Codec theorems used by C01, C02 and C16: whatever the transports hand to the
codecs comes back unchanged on the other side, for every packet list.
-/
namespace EIO.Codec
open EIO

/-! ### base64.StdEncoding -/

theorem stdIndex_char : ∀ i, i < 64 → stdIndex (stdChar i) = some i := by decide +kernel

theorem stdChar_ne_pad : ∀ i, i < 64 → stdChar i ≠ 61 := by decide +kernel

/-- decoding inverts encoding, for every byte string (all three padding cases) -/
theorem unb64_b64 : ∀ (n : Nat) (d : Bytes), d.length ≤ n → unb64Std (b64Std d) = (d, false) := by
  intro n
  induction n using Nat.strongRecOn with
  | _ n ih =>
    intro d hn
    match d, hn with
    | [], _ => simp [b64Std, unb64Std]
    | [a], _ =>
      have ha := a.toNat_lt
      simp only [b64Std, unb64Std]
      have h0 : a.toNat * 65536 / 262144 < 64 := by omega
      have h1 : a.toNat * 65536 / 4096 % 64 < 64 := by omega
      rw [stdIndex_char _ h0, stdIndex_char _ h1]
      simp only [and_self, if_true]
      have : (a.toNat * 65536 / 262144 * 64 + a.toNat * 65536 / 4096 % 64) / 16 = a.toNat := by omega
      simp [this]
    | [a, b], _ =>
      have ha := a.toNat_lt; have hb := b.toNat_lt
      simp only [b64Std, unb64Std]
      have h0 : (a.toNat * 65536 + b.toNat * 256) / 262144 < 64 := by omega
      have h1 : (a.toNat * 65536 + b.toNat * 256) / 4096 % 64 < 64 := by omega
      have h2 : (a.toNat * 65536 + b.toNat * 256) / 64 % 64 < 64 := by omega
      rw [stdIndex_char _ h0, stdIndex_char _ h1]
      have hp := stdChar_ne_pad _ h2
      simp only [hp, false_and, if_false, stdIndex_char _ h2, if_true]
      have e1 : ((a.toNat * 65536 + b.toNat * 256) / 262144 * 4096 + (a.toNat * 65536 + b.toNat * 256) / 4096 % 64 * 64 +
          (a.toNat * 65536 + b.toNat * 256) / 64 % 64) / 1024 = a.toNat := by omega
      have e2 : ((a.toNat * 65536 + b.toNat * 256) / 262144 * 4096 + (a.toNat * 65536 + b.toNat * 256) / 4096 % 64 * 64 +
          (a.toNat * 65536 + b.toNat * 256) / 64 % 64) / 4 % 256 = b.toNat := by omega
      simp [e1, e2]
    | a :: b :: c :: rest, hn =>
      have ha := a.toNat_lt; have hb := b.toNat_lt; have hc := c.toNat_lt
      simp only [b64Std, unb64Std]
      have h0 : (a.toNat * 65536 + b.toNat * 256 + c.toNat) / 262144 < 64 := by omega
      have h1 : (a.toNat * 65536 + b.toNat * 256 + c.toNat) / 4096 % 64 < 64 := by omega
      have h2 : (a.toNat * 65536 + b.toNat * 256 + c.toNat) / 64 % 64 < 64 := by omega
      have h3 : (a.toNat * 65536 + b.toNat * 256 + c.toNat) % 64 < 64 := by omega
      rw [stdIndex_char _ h0, stdIndex_char _ h1]
      have hp2 := stdChar_ne_pad _ h2
      have hp3 := stdChar_ne_pad _ h3
      simp only [hp2, false_and, if_false, stdIndex_char _ h2, hp3, stdIndex_char _ h3]
      have hrest := ih (n - 3) (by simp at hn; omega) rest (by simp at hn; omega)
      rw [hrest]
      have e1 : ((a.toNat * 65536 + b.toNat * 256 + c.toNat) / 262144 * 262144 +
          (a.toNat * 65536 + b.toNat * 256 + c.toNat) / 4096 % 64 * 4096 +
          (a.toNat * 65536 + b.toNat * 256 + c.toNat) / 64 % 64 * 64 +
          (a.toNat * 65536 + b.toNat * 256 + c.toNat) % 64) = a.toNat * 65536 + b.toNat * 256 + c.toNat := by omega
      rw [e1]
      have f1 : (a.toNat * 65536 + b.toNat * 256 + c.toNat) / 65536 = a.toNat := by omega
      have f2 : (a.toNat * 65536 + b.toNat * 256 + c.toNat) / 256 % 256 = b.toNat := by omega
      have f3 : (a.toNat * 65536 + b.toNat * 256 + c.toNat) % 256 = c.toNat := by omega
      simp [f1, f2, f3]

theorem b64_roundtrip (d : Bytes) : unb64Std (b64Std d) = (d, false) := unb64_b64 d.length d (Nat.le_refl _)

/-! ### revision 4 -/

/-- a message packet survives `EncodePacket` / `DecodePacket` on a frame
    transport: same kind, same bytes — text, binary, and binary over a
    connection that asked for base64 -/
theorem v4_packet_roundtrip (m : Msg) (supportsBinary : Bool) :
    decodePacketV4 (encodePacketV4 { typ := .message, data := some m } supportsBinary) =
      ({ typ := .message, data := some m }, true) := by
  obtain ⟨k, d⟩ := m
  cases k
  · simp [encodePacketV4, decodePacketV4, PT.char, PT.ofChar]
  · cases supportsBinary
    · simp [encodePacketV4, decodePacketV4, b64_roundtrip]
    · simp [encodePacketV4, decodePacketV4]

theorem splitSep_ne_nil (l : Bytes) : splitSep l ≠ [] := by
  cases l with
  | nil => simp [splitSep]
  | cons b rest =>
    unfold splitSep
    cases splitSep rest with
    | nil => simp
    | cons s ss => simp only; split <;> simp

/-- a separator-free prefix stays glued to the first segment of what follows -/
theorem splitSep_prefix : ∀ (x tl : Bytes), sep ∉ x →
    ∃ s ss, splitSep tl = s :: ss ∧ splitSep (x ++ tl) = (x ++ s) :: ss := by
  intro x
  induction x with
  | nil =>
    intro tl _
    cases h : splitSep tl with
    | nil => exact absurd h (splitSep_ne_nil tl)
    | cons s ss => exact ⟨s, ss, rfl, by simpa using h⟩
  | cons b bs ihx =>
    intro tl hb
    have hb1 : b ≠ sep := fun e => hb (by simp [e])
    have hb2 : sep ∉ bs := fun e => hb (by simp [e])
    obtain ⟨s, ss, h1, h2⟩ := ihx tl hb2
    refine ⟨s, ss, h1, ?_⟩
    simp only [List.cons_append, splitSep, h2, hb1, if_false]

theorem splitSep_joinSep : ∀ (parts : List Bytes), parts ≠ [] → (∀ p ∈ parts, sep ∉ p) →
    splitSep (joinSep parts) = parts := by
  intro parts
  induction parts with
  | nil => intro h; exact absurd rfl h
  | cons x rest ih =>
    intro _ hall
    have hx : sep ∉ x := hall x (by simp)
    cases rest with
    | nil =>
      simp only [joinSep]
      obtain ⟨s, ss, h1, h2⟩ := splitSep_prefix x [] hx
      simp [splitSep] at h1
      obtain ⟨rfl, rfl⟩ := h1
      simpa using h2
    | cons y ys =>
      simp only [joinSep]
      have hrest := ih (by simp) (fun p hp => hall p (List.mem_cons_of_mem _ hp))
      obtain ⟨s, ss, h1, h2⟩ := splitSep_prefix x (sep :: joinSep (y :: ys)) hx
      rw [h2]
      simp only [splitSep, hrest, if_true] at h1
      obtain ⟨rfl, rfl⟩ := List.cons.inj h1
      simp

theorem joinSep_getLast (parts : List Bytes) (h : parts ≠ []) (hne : ∀ p ∈ parts, p ≠ []) :
    (joinSep parts).getLast? = (parts.getLast h).getLast? := by
  induction parts with
  | nil => exact absurd rfl h
  | cons x rest ih =>
    cases rest with
    | nil => simp [joinSep]
    | cons y ys =>
      have hrec := ih (by simp) (fun p hp => hne p (List.mem_cons_of_mem _ hp))
      have hy : joinSep (y :: ys) ≠ [] := by
        have := hne y (by simp)
        cases ys with
        | nil => simpa [joinSep] using this
        | cons z zs => simp [joinSep]
      simp only [joinSep, List.getLast_cons (by simp : y :: ys ≠ [])]
      rw [← hrec, List.getLast?_append]
      cases hj : joinSep (y :: ys) with
      | nil => exact absurd hj hy
      | cons a t =>
        have : (sep :: a :: t).getLast? = (a :: t).getLast? := by simp [List.getLast?_cons_cons]
        rw [this]
        cases hl : (a :: t).getLast? with
        | none => simp at hl
        | some v => simp

theorem takeWhile_all {α : Type} (p : α → Bool) (l : List α) (h : ∀ x ∈ l, p x = true) :
    l.takeWhile p = l := by
  induction l with
  | nil => rfl
  | cons a rest ih =>
    simp only [List.takeWhile, h a (by simp)]
    rw [ih (fun x hx => h x (List.mem_cons_of_mem _ hx))]

/-- well-formedness of a batch for the revision-4 payload format: no packet
    contains the record separator and every encoded packet fits a scanner token
    (the 64 KiB limit is the dependency's: see the known finding for C02) -/
def WFv4 (ps : List Pkt) : Prop :=
  ∀ p ∈ ps, sep ∉ (encodePacketV4 p false).data ∧ (encodePacketV4 p false).data.length < 65536 ∧
    (decodePacketV4 ⟨.text, (encodePacketV4 p false).data⟩).2 = true

theorem encodePacketV4_nonempty (p : Pkt) (b : Bool) : (encodePacketV4 p b).kind = .text → (encodePacketV4 p b).data ≠ [] := by
  unfold encodePacketV4
  cases p.data with
  | none => simp
  | some m => obtain ⟨k, d⟩ := m; cases k <;> cases b <;> simp

theorem decodeGo_all (toks : List Bytes) (h : ∀ t ∈ toks, (decodePacketV4 ⟨.text, t⟩).2 = true) :
    decodePayloadV4.go toks = toks.map fun t => (decodePacketV4 ⟨.text, t⟩).1 := by
  induction toks with
  | nil => simp [decodePayloadV4.go]
  | cons t rest ih =>
    have ht := h t (by simp)
    simp only [decodePayloadV4.go, ht, if_true, List.map_cons]
    rw [ih (fun x hx => h x (List.mem_cons_of_mem _ hx))]

/-- **the revision-4 payload format round-trips every well-formed batch**: what
    `DecodePayload` returns for `EncodePayload ps` is, packet by packet, what
    decoding each encoded packet alone returns -/
theorem v4_payload_roundtrip (ps : List Pkt) (h : WFv4 ps) :
    decodePayloadV4 (encodePayloadV4 ps).data =
      ps.map fun p => (decodePacketV4 ⟨.text, (encodePacketV4 p false).data⟩).1 := by
  cases hps : ps with
  | nil => simp [encodePayloadV4, decodePayloadV4, joinSep, scanTokens, decodePayloadV4.go]
  | cons p0 rest =>
    rw [← hps]
    have hne : ps.map (fun p => (encodePacketV4 p false).data) ≠ [] := by rw [hps]; simp
    have hnosep : ∀ t ∈ ps.map (fun p => (encodePacketV4 p false).data), sep ∉ t := by
      intro t ht; obtain ⟨p, hp, rfl⟩ := List.mem_map.mp ht; exact (h p hp).1
    have hnonempty : ∀ t ∈ ps.map (fun p => (encodePacketV4 p false).data), t ≠ [] := by
      intro t ht; obtain ⟨p, hp, rfl⟩ := List.mem_map.mp ht
      apply encodePacketV4_nonempty
      unfold encodePacketV4
      cases p.data with
      | none => rfl
      | some m => obtain ⟨k, d⟩ := m; cases k <;> rfl
    unfold decodePayloadV4 encodePayloadV4 scanTokens
    simp only
    have hbody : joinSep (ps.map fun p => (encodePacketV4 p false).data) ≠ [] := by
      rw [hps]; simp only [List.map_cons]
      have := hnonempty _ (by rw [hps]; simp : (encodePacketV4 p0 false).data ∈ ps.map fun p => (encodePacketV4 p false).data)
      cases rest <;> simp [joinSep] <;> exact this
    have hemp : (joinSep (ps.map fun p => (encodePacketV4 p false).data)).isEmpty = false := by
      cases hj : joinSep (ps.map fun p => (encodePacketV4 p false).data) with
      | nil => exact absurd hj hbody
      | cons a t => rfl
    simp only [hemp, Bool.false_eq_true, if_false]
    rw [splitSep_joinSep _ hne hnosep]
    -- the body does not end with a separator: its last packet is non-empty and has none
    have hlast : (joinSep (ps.map fun p => (encodePacketV4 p false).data)).getLast? ≠ some sep := by
      rw [joinSep_getLast _ hne hnonempty]
      intro hl
      have hmem := List.getLast_mem hne
      have := hnosep _ hmem
      exact this (List.mem_of_getLast? hl)
    simp only [hlast, if_false]
    have htw : (ps.map fun p => (encodePacketV4 p false).data).takeWhile (fun t => decide (t.length < 65536)) =
        ps.map fun p => (encodePacketV4 p false).data := by
      apply takeWhile_all
      intro t ht; obtain ⟨p, hp, rfl⟩ := List.mem_map.mp ht; simpa using (h p hp).2.1
    rw [htw, decodeGo_all _ (by
      intro t ht; obtain ⟨p, hp, rfl⟩ := List.mem_map.mp ht; exact (h p hp).2.2)]
    simp [List.map_map, Function.comp_def]

/-- for message packets the per-packet decoding is the packet itself -/
theorem v4_payload_message (m : Msg) :
    (decodePacketV4 ⟨.text, (encodePacketV4 { typ := .message, data := some m } false).data⟩).1 =
      { typ := .message, data := some m } := by
  have := v4_packet_roundtrip m false
  obtain ⟨k, d⟩ := m
  cases k
  · simp [encodePacketV4, decodePacketV4, PT.char, PT.ofChar]
  · simp [encodePacketV4, decodePacketV4, b64_roundtrip]

/-- the scanner limit is real: a separator-free token of `maxTok` bytes or more
    is dropped by the decoder (and everything after it), although the data
    request is acknowledged. With the dependency's constant, 65536 (known
    finding for C02). -/
theorem v4_token_limit (maxTok : Nat) (tok : Bytes) (hlen : maxTok ≤ tok.length) (hs : sep ∉ tok)
    (hne : tok ≠ []) : scanTokens maxTok tok = [] := by
  unfold scanTokens
  have hemp : tok.isEmpty = false := by cases tok <;> simp_all
  simp only [hemp, Bool.false_eq_true, if_false]
  have hsplit : splitSep tok = [tok] := by
    have := splitSep_joinSep [tok] (by simp) (by simpa using hs)
    simpa [joinSep] using this
  rw [hsplit]
  have hlast : tok.getLast? ≠ some sep := fun hl => hs (List.mem_of_getLast? hl)
  simp only [hlast, if_false]
  have : ¬ tok.length < maxTok := by omega
  simp [List.takeWhile, this]

end EIO.Codec
