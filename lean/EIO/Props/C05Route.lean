import EIO.Model.Route
/-
C05 (routing half) — a request reaches the engine exactly when its cleaned path
matches the attached engine pattern most specifically; everything else goes to
the application's handlers untouched. For every registration sequence (any
number of application patterns, registered before or after the engine), every
attach option combination and every path.
-/
namespace EIO.Route
open EIO

/-- `mux.es` is sorted from longest to shortest -/
def SortedDesc (es : List Entry) : Prop :=
  es.Pairwise fun a b => b.pattern.length ≤ a.pattern.length

theorem mem_appendSorted (es : List Entry) (e x : Entry) :
    x ∈ appendSorted es e ↔ x = e ∨ x ∈ es := by
  induction es with
  | nil => simp [appendSorted]
  | cons a rest ih =>
    unfold appendSorted
    split
    · simp
    · simp only [List.mem_cons, ih]
      constructor
      · rintro (h | h | h) <;> simp [h]
      · rintro (h | h | h) <;> simp [h]

theorem appendSorted_sorted (es : List Entry) (e : Entry) (h : SortedDesc es) :
    SortedDesc (appendSorted es e) := by
  induction es with
  | nil => simp [appendSorted, SortedDesc]
  | cons a rest ih =>
    unfold appendSorted
    have hrest : SortedDesc rest := (List.pairwise_cons.mp h).2
    have ha := (List.pairwise_cons.mp h).1
    split
    · rename_i hlt
      refine List.pairwise_cons.mpr ⟨?_, h⟩
      intro b hb
      rcases List.mem_cons.mp hb with rfl | hb
      · omega
      · have := ha b hb; omega
    · rename_i hge
      refine List.pairwise_cons.mpr ⟨?_, ih hrest⟩
      intro b hb
      rcases (mem_appendSorted rest e b).mp hb with rfl | hb
      · omega
      · exact ha b hb

/-- invariant of a mux built by `Handle` calls from the registration list `regs` -/
structure Mux.Inv (m : Mux) (regs : List Entry) : Prop where
  sorted : SortedDesc m.es
  exact_iff : ∀ e, e ∈ m.exact ↔ (e ∈ regs ∧ endsSlash e.pattern = false)
  es_iff : ∀ e, e ∈ m.es ↔ (e ∈ regs ∧ endsSlash e.pattern = true)
  distinct : (regs.map (·.pattern)).Nodup

theorem Mux.empty_inv : ({} : Mux).Inv [] :=
  ⟨by simp [SortedDesc], by simp, by simp, by simp⟩

theorem Mux.handle_inv (m m' : Mux) (regs : List Entry) (e : Entry) (h : m.Inv regs)
    (hh : m.handle e = some m') : m'.Inv (regs ++ [e]) := by
  unfold Mux.handle at hh
  split at hh
  · simp at hh
  · rename_i hok
    have hnew : e.pattern ∉ regs.map (·.pattern) := by
      intro hin
      apply hok; right
      obtain ⟨x, hx, hxe⟩ := List.mem_map.mp hin
      unfold Mux.patterns
      apply List.mem_map.mpr
      refine ⟨x, ?_, hxe⟩
      cases hs : endsSlash x.pattern
      · exact List.mem_append_left _ ((h.exact_iff x).mpr ⟨hx, hs⟩)
      · exact List.mem_append_right _ ((h.es_iff x).mpr ⟨hx, hs⟩)
    have hdist : ((regs ++ [e]).map (·.pattern)).Nodup := by
      simp only [List.map_append, List.map_cons, List.map_nil]
      refine List.nodup_append.mpr ⟨h.distinct, by simp, ?_⟩
      intro a ha b hb hab
      simp at hb; subst hb; subst hab; exact hnew ha
    split at hh
    · rename_i hsl
      simp at hh; subst hh
      refine ⟨appendSorted_sorted _ _ h.sorted, ?_, ?_, hdist⟩
      · intro x
        simp only [List.mem_append, List.mem_singleton]
        rw [h.exact_iff x]
        constructor
        · rintro ⟨h1, h2⟩; exact ⟨Or.inl h1, h2⟩
        · rintro ⟨h1 | h1, h2⟩
          · exact ⟨h1, h2⟩
          · subst h1; simp [hsl] at h2
      · intro x
        simp only [mem_appendSorted, List.mem_append, List.mem_singleton]
        rw [h.es_iff x]
        constructor
        · rintro (rfl | ⟨h1, h2⟩)
          · exact ⟨Or.inr rfl, hsl⟩
          · exact ⟨Or.inl h1, h2⟩
        · rintro ⟨h1 | h1, h2⟩
          · exact Or.inr ⟨h1, h2⟩
          · exact Or.inl h1
    · rename_i hsl
      simp at hh; subst hh
      have hsl' : endsSlash e.pattern = false := by simpa using hsl
      refine ⟨h.sorted, ?_, ?_, hdist⟩
      · intro x
        simp only [List.mem_append, List.mem_singleton]
        rw [h.exact_iff x]
        constructor
        · rintro (⟨h1, h2⟩ | rfl)
          · exact ⟨Or.inl h1, h2⟩
          · exact ⟨Or.inr rfl, hsl'⟩
        · rintro ⟨h1 | h1, h2⟩
          · exact Or.inl ⟨h1, h2⟩
          · exact Or.inr h1
      · intro x
        simp only [List.mem_append, List.mem_singleton]
        rw [h.es_iff x]
        constructor
        · rintro ⟨h1, h2⟩; exact ⟨Or.inl h1, h2⟩
        · rintro ⟨h1 | h1, h2⟩
          · exact ⟨h1, h2⟩
          · subst h1; simp [hsl'] at h2

/-- **every registration sequence** that `Handle` accepts yields a mux whose
    prefix list is sorted longest first and holds exactly the registered
    patterns -/
theorem Mux.handleAll_inv (regs : List Entry) : ∀ (m m' : Mux) (done : List Entry),
    m.Inv done → m.handleAll regs = some m' → m'.Inv (done ++ regs) := by
  induction regs with
  | nil => intro m m' done h hh; simp [Mux.handleAll] at hh; subst hh; simpa using h
  | cons e rest ih =>
    intro m m' done h hh
    unfold Mux.handleAll at hh
    split at hh
    · simp at hh
    · rename_i m1 h1
      have := ih m1 m' (done ++ [e]) (Mux.handle_inv m m1 done e h h1) hh
      simpa [List.append_assoc] using this

theorem matchEs_spec (es : List Entry) (p : Path) (hs : SortedDesc es) :
    (∀ e, matchEs es p = some e → e ∈ es ∧ e.pattern.isPrefixOf p = true ∧
        ∀ e' ∈ es, e'.pattern.isPrefixOf p = true → e'.pattern.length ≤ e.pattern.length) ∧
    (matchEs es p = none → ∀ e' ∈ es, e'.pattern.isPrefixOf p = false) := by
  induction es with
  | nil => simp [matchEs]
  | cons a rest ih =>
    have hrest : SortedDesc rest := (List.pairwise_cons.mp hs).2
    have ha := (List.pairwise_cons.mp hs).1
    unfold matchEs
    by_cases hp : a.pattern.isPrefixOf p = true
    · simp only [hp, if_true]
      constructor
      · intro e he
        simp at he; subst he
        refine ⟨by simp, hp, ?_⟩
        intro e' he' _
        rcases List.mem_cons.mp he' with rfl | he'
        · exact Nat.le_refl _
        · exact ha e' he'
      · intro h; simp at h
    · simp only [hp, Bool.false_eq_true, if_false]
      obtain ⟨ih1, ih2⟩ := ih hrest
      constructor
      · intro e he
        obtain ⟨h1, h2, h3⟩ := ih1 e he
        refine ⟨List.mem_cons_of_mem _ h1, h2, ?_⟩
        intro e' he' hpre
        rcases List.mem_cons.mp he' with rfl | he'
        · exact absurd hpre hp
        · exact h3 e' he' hpre
      · intro hn e' he'
        rcases List.mem_cons.mp he' with rfl | he'
        · exact Bool.eq_false_iff.mpr hp
        · exact ih2 hn e' he'

/-- **C05 routing: most specific registered pattern wins.** For a mux built by
    any accepted registration sequence `regs` and any (cleaned) path `p`:
    the request is served by entry `e` iff `e` is registered and either its
    pattern is exactly `p` (no trailing slash), or `p` is not registered exactly
    and `e` is a trailing-slash pattern prefixing `p` that no registered
    trailing-slash prefix of `p` is longer than; it goes to the default handler
    iff nothing registered matches. -/
theorem c05_route (regs : List Entry) (m : Mux) (hm : ({} : Mux).handleAll regs = some m) (p : Path) :
    (∀ e, m.match p = some e →
        e ∈ regs ∧
        ((endsSlash e.pattern = false ∧ e.pattern = p) ∨
         (endsSlash e.pattern = true ∧ e.pattern.isPrefixOf p = true ∧
          (∀ x ∈ regs, endsSlash x.pattern = false → x.pattern ≠ p) ∧
          ∀ x ∈ regs, endsSlash x.pattern = true → x.pattern.isPrefixOf p = true →
            x.pattern.length ≤ e.pattern.length))) ∧
    (m.match p = none →
        (∀ x ∈ regs, endsSlash x.pattern = false → x.pattern ≠ p) ∧
        ∀ x ∈ regs, endsSlash x.pattern = true → x.pattern.isPrefixOf p = false) := by
  have inv := Mux.handleAll_inv regs {} m [] Mux.empty_inv hm
  simp only [List.nil_append] at inv
  have hnoexact : m.exact.find? (·.pattern = p) = none →
      ∀ x ∈ regs, endsSlash x.pattern = false → x.pattern ≠ p := by
    intro hnone x hx hsl heq
    have := List.find?_eq_none.mp hnone x ((inv.exact_iff x).mpr ⟨hx, hsl⟩)
    simp [heq] at this
  obtain ⟨hes1, hes2⟩ := matchEs_spec m.es p inv.sorted
  unfold Mux.match
  constructor
  · intro e he
    cases hf : m.exact.find? (·.pattern = p) with
    | some e0 =>
      simp only [hf, Option.some.injEq] at he
      subst he
      have hmem := List.mem_of_find?_eq_some hf
      have hpat := List.find?_some hf
      simp only [decide_eq_true_eq] at hpat
      obtain ⟨h1, h2⟩ := (inv.exact_iff e0).mp hmem
      exact ⟨h1, Or.inl ⟨h2, hpat⟩⟩
    | none =>
      simp only [hf] at he
      obtain ⟨h1, h2, h3⟩ := hes1 e he
      obtain ⟨hr, hsl⟩ := (inv.es_iff e).mp h1
      refine ⟨hr, Or.inr ⟨hsl, h2, hnoexact hf, ?_⟩⟩
      intro x hx hxs hxp
      exact h3 x ((inv.es_iff x).mpr ⟨hx, hxs⟩) hxp
  · intro hn
    cases hf : m.exact.find? (·.pattern = p) with
    | some e0 => simp [hf] at hn
    | none =>
      simp only [hf] at hn
      refine ⟨hnoexact hf, ?_⟩
      intro x hx hxs
      exact hes2 hn x ((inv.es_iff x).mpr ⟨hx, hxs⟩)

/-- the pattern an entry is served under is unique: two registered
    trailing-slash prefixes of one path with the same length are the same
    pattern, so "no longer prefix" determines the winner -/
theorem prefix_same_length_eq (a b p : Path) (ha : a.isPrefixOf p = true) (hb : b.isPrefixOf p = true)
    (hl : a.length = b.length) : a = b := by
  have ha' := List.isPrefixOf_iff_prefix.mp ha
  have hb' := List.isPrefixOf_iff_prefix.mp hb
  obtain ⟨ta, hta⟩ := ha'
  obtain ⟨tb, htb⟩ := hb'
  have : a ++ ta = b ++ tb := by rw [hta, htb]
  exact (List.append_inj this hl).1

/-- **default mount**: with no attach options, with server-only options (which
    carry no attach options), and with attach options that set nothing, the
    engine is mounted on "/engine.io/" -/
theorem c05_default_mount :
    computePath none = defaultPath ++ [slash] ∧
    computePath (some {}) = defaultPath ++ [slash] ∧
    computePath (some { addTrailingSlash := some true }) = defaultPath ++ [slash] ∧
    computePath (some { addTrailingSlash := some false }) = defaultPath := by
  decide

/-- a configured path is mounted with exactly one trailing slash unless the
    option turns it off, whatever slashes the configured path ends with -/
theorem c05_mount_configured (p : Path) (b : Option Bool) :
    computePath (some { path := some p, addTrailingSlash := b }) =
      if b = some false then trimRightSlash p else trimRightSlash p ++ [slash] := by
  unfold computePath
  cases b with
  | none => simp
  | some v => cases v <;> simp

theorem defaultPath_is : String.fromUTF8? ⟨defaultPath.toArray⟩ = some "/engine.io" := by decide +kernel

/-- non-vacuity: application patterns "/" and "/engine.io/admin/" registered
    after the engine; "/engine.io/x" reaches the engine (id 0), "/engine.io/admin/y"
    the admin handler (id 2), "/other" the root handler (id 1) -/
example :
    let e (s : String) (h : Nat) : Entry := ⟨s.toUTF8.toList, h⟩
    let m := (({} : Mux).handleAll [e "/engine.io/" 0, e "/" 1, e "/engine.io/admin/" 2])
    (m.bind fun m => (m.route "/engine.io//x".toUTF8.toList).map (·.h)) = some 0 ∧
    (m.bind fun m => (m.route "/engine.io/admin/y".toUTF8.toList).map (·.h)) = some 2 ∧
    (m.bind fun m => (m.route "/a/../other".toUTF8.toList).map (·.h)) = some 1 := by
  decide +kernel

end EIO.Route
