import EIO.Lemmas.LinkStep
import EIO.Lemmas.RegSub
import EIO.Props.C12Close
/-
C12, for every history and without a hypothesis about the state:

* the linkage between sessions and transports holds in every reachable world (`reach_link`), so the
  hypothesis `LinkOK` of `c12_discard_closes_partial` is discharged (`c12_discard_closes`);
* `Server.Close` closes every registered session and leaves the client table empty (`c12_shutdown`),
  each session with exactly one close event (`c12_shutdown_one_close_event`, from `LogOK`).
-/
namespace EIO.Ses
open EIO EIO.Codec

/-- invariant and linkage together, in every reachable world -/
theorem reach_inv_link (o : Opts) (ops : List Op) : Inv (run o ops) ∧ Link (run o ops) := by
  unfold run
  generalize hw : init o = w
  have hi : Inv w ∧ Link w := hw ▸ ⟨inv_init o, link_init o⟩
  clear hw
  induction ops generalizing w with
  | nil => exact hi
  | cons op rest ih =>
    exact ih _ ⟨(step_pres w op hi.1).1, step_link w op (fun s hs => (hi.1.regLive s hs).2.1) hi.2⟩

/-- the linkage holds in every reachable world -/
theorem reach_link (o : Opts) (ops : List Op) : Link (run o ops) := (reach_inv_link o ops).2

/-- in every reachable world, the current transport of a session that is not closed exists and is not closed -/
theorem reach_linkOK (o : Opts) (ops : List Op) (sid : Nat) (hsz : sid < (run o ops).socks.size)
    (hnc : ((run o ops).sock sid).rs ≠ .closed) : LinkOK (run o ops) sid :=
  (reach_link o ops).linkOK sid hsz hnc

/-- C12 (Close(true)): in every reachable world, `Close(true)` on a registered session closes it at once and
    takes it out of the client table -/
theorem c12_discard_closes (o : Opts) (ops : List Op) (sid : Nat)
    (hlive : (run o ops).fault = none) (hreg : sid ∈ (run o ops).registry) :
    ((run o (ops ++ [.close sid true])).sock sid).rs = .closed ∧ sid ∉ (run o (ops ++ [.close sid true])).registry := by
  obtain ⟨hnc, hsz, _⟩ := (reach_inv o ops).regLive sid hreg
  exact c12_discard_closes_partial o ops sid hlive hreg (reach_linkOK o ops sid hsz hnc)

theorem closed_of_ext {w w' : World} (e : Ext w w') (sid : Nat) (h : (w.sock sid).rs = .closed) : (w'.sock sid).rs = .closed := by
  have := e.rank sid
  rw [h] at this
  cases hr : (w'.sock sid).rs <;> simp [hr, RS.rank] at this ⊢

/-- `Close(true)` on an announced session: closed afterwards, whatever its state was -/
theorem appClose_announced_closes (w : World) (sid : Nat) (i : Inv w) (l : Link w) (ha : (w.sock sid).announced = true) :
    ((appClose w sid true).sock sid).rs = .closed := by
  rcases i.annReg sid ha with hreg | hc
  · obtain ⟨hnc, hsz, _⟩ := i.regLive sid hreg
    have hl : (w.sock sid).rs = .open_ ∨ (w.sock sid).rs = .closing := by
      unfold closedW at hnc
      cases h : (w.sock sid).rs with
      | opening => exact absurd h (i.regOpen sid hreg)
      | open_ => exact Or.inl rfl
      | closing => exact Or.inr rfl
      | closed => exact absurd h hnc
    exact appClose_discard_closes w sid i hsz hl (l.linkOK sid hsz hnc)
  · exact closed_of_ext ((pr_appClose sid true (Pres.refl w)) i).2 sid hc

/-- the loop of `Server.Close` -/
theorem shutdownFold_closes (reg : List Nat) (w : World) (i : Inv w) (l : Link w)
    (ha : ∀ sid ∈ reg, (w.sock sid).announced = true) :
    Inv (reg.foldl (fun w sid => appClose w sid true) w) ∧ Ext w (reg.foldl (fun w sid => appClose w sid true) w) ∧
    RegSub w (reg.foldl (fun w sid => appClose w sid true) w) ∧
    ∀ sid ∈ reg, ((reg.foldl (fun w sid => appClose w sid true) w).sock sid).rs = .closed := by
  induction reg generalizing w with
  | nil => exact ⟨i, Ext.refl w, RegSub.refl w, fun _ h => by cases h⟩
  | cons sid rest ih =>
    simp only [List.foldl_cons]
    obtain ⟨i1, e1⟩ := (pr_appClose sid true (Pres.refl w)) i
    have l1 := lk_appClose sid true l
    have hc := appClose_announced_closes w sid i l (ha sid (List.mem_cons_self))
    obtain ⟨i2, e2, r2, c2⟩ := ih (appClose w sid true) i1 l1
      (fun s hs => e1.ann s (ha s (List.mem_cons_of_mem _ hs)))
    refine ⟨i2, e1.trans e2, (rs_appClose w sid true).trans r2, fun s hs => ?_⟩
    rcases List.mem_cons.mp hs with h | h
    · subst h; exact closed_of_ext e2 s hc
    · exact c2 s h

/-- C12 (shutdown): `Server.Close` leaves the client table empty and every session that was in it closed;
    this is `C12_shutdown_statement` for every world in which the model has not given up (`fault = none`) -/
theorem c12_shutdown (o : Opts) (ops : List Op) (hlive : (run o ops).fault = none) :
    (run o (ops ++ [.shutdown])).registry = [] ∧
    ∀ sid ∈ (run o ops).registry, ((run o (ops ++ [.shutdown])).sock sid).rs = .closed := by
  obtain ⟨i, l⟩ := reach_inv_link o ops
  have hstep : run o (ops ++ [.shutdown]) = shutdown (run o ops) := by
    rw [run_append]
    show step (run o ops) .shutdown = _
    unfold step
    simp only [hlive, Option.isSome_none, Bool.false_eq_true, if_false]
  rw [hstep]
  unfold shutdown
  obtain ⟨i2, _, r2, c2⟩ := shutdownFold_closes (run o ops).registry (run o ops) i l (fun s hs => (i.regLive s hs).2.2)
  refine ⟨?_, c2⟩
  apply List.eq_nil_iff_forall_not_mem.mpr
  intro s hs
  exact (i2.regLive s hs).1 (c2 s (r2 s hs))

/-- C12 (shutdown, events): after `Server.Close` the log holds exactly one close event of every session that was registered -/
theorem c12_shutdown_one_close_event (o : Opts) (ops : List Op) (hlive : (run o ops).fault = none)
    (sid : Nat) (hreg : sid ∈ (run o ops).registry) :
    ((run o (ops ++ [.shutdown])).slog.filter fun e => e.1 == sid && e.2.isClose).length = 1 := by
  have hle := c03_at_most_one_close o (ops ++ [.shutdown]) sid
  have hc := (c12_shutdown o ops hlive).2 sid hreg
  obtain ⟨e, he, h1, h2⟩ := (c03_closed_iff_close_event o (ops ++ [.shutdown]) sid).mp hc
  have hm : e ∈ (run o (ops ++ [.shutdown])).slog.filter fun e => e.1 == sid && e.2.isClose :=
    List.mem_filter.mpr ⟨he, by simp [h1, h2]⟩
  have hpos := List.length_pos_of_mem hm
  omega

/-- non-vacuity: three sessions (websocket, polling, one mid-upgrade), then `Server.Close` -/
example :
    let ops := [.hsWebsocket 4 false, .hsPolling 4 false none, .hsPolling 4 true none, .wsCandidate 1 4 false, .settle]
    (run {} ops).fault = none ∧ (run {} ops).registry = [0, 1, 2] ∧ (run {} (ops ++ [.shutdown])).registry = [] := by
  decide +kernel

end EIO.Ses
