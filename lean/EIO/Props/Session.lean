import EIO.Lemmas.SesOps
/-
Whole-history theorems of the session model: they hold after every sequence of
operations (`run o ops`), for every configuration `o`, with no bound on the
number of operations, sessions, requests or connections.
-/
namespace EIO.Ses
open EIO EIO.Codec

theorem inv_init (o : Opts) : Inv (init o) := by
  have hs : ∀ sid, (init o).sock sid = default := fun sid => by
    unfold World.sock init; simp [Array.getD]
  refine ⟨logOK_nil, ?_, ?_, ?_, ?_, ?_, ?_, ?_, fun sid h => (by cases h)⟩
  · intro sid h; exact absurd h (closeIn_nil sid)
  · intro sid h; unfold closedW at h; rw [hs] at h; cases h
  · intro sid; rw [hs]
    refine ⟨fun h => ?_, fun h => ?_, fun h => ?_⟩
    · cases h
    · cases h
    · cases h
  · intro sid h; cases h
  · exact List.nodup_nil
  · intro sid h; rw [hs] at h; cases h
  · refine ⟨fun sid => ?_, fun e he => (by cases he), logHist_nil, flushTight_nil⟩
    rw [hs]
    exact ⟨⟨[], rfl, fun _ => rfl⟩, ⟨[], rfl, fun _ => rfl⟩, ⟨[], rfl, fun _ => rfl⟩, rfl⟩

/-- the invariant holds in every reachable world -/
theorem reach_inv (o : Opts) (ops : List Op) : Inv (run o ops) := by
  unfold run
  generalize hw : init o = w
  have hi : Inv w := hw ▸ inv_init o
  clear hw
  induction ops generalizing w with
  | nil => exact hi
  | cons op rest ih => exact ih _ (step_pres w op hi).1

theorem run_append (o : Opts) (ops ops' : List Op) : run o (ops ++ ops') = ops'.foldl step (run o ops) := by
  unfold run; rw [List.foldl_append]

theorem foldl_ext (w : World) (hi : Inv w) (ops : List Op) : Inv (ops.foldl step w) ∧ Ext w (ops.foldl step w) := by
  induction ops generalizing w with
  | nil => exact ⟨hi, Ext.refl w⟩
  | cons op rest ih =>
    obtain ⟨i1, e1⟩ := step_pres w op hi
    obtain ⟨i2, e2⟩ := ih _ i1
    exact ⟨i2, e1.trans e2⟩

/-- a later world extends an earlier one -/
theorem run_ext (o : Opts) (ops ops' : List Op) : Ext (run o ops) (run o (ops ++ ops')) := by
  rw [run_append]; exact (foldl_ext _ (reach_inv o ops) ops').2

/-! ### C03 -/

/-- forward only: no operation ever moves a session's ready state backwards -/
theorem c03_state_forward (o : Opts) (ops ops' : List Op) (sid : Nat) :
    ((run o ops).sock sid).rs.rank ≤ ((run o (ops ++ ops')).sock sid).rs.rank :=
  (run_ext o ops ops').rank sid

/-- a session is closed exactly when its close event has been emitted -/
theorem c03_closed_iff_close_event (o : Opts) (ops : List Op) (sid : Nat) :
    ((run o ops).sock sid).rs = .closed ↔ closeIn sid (run o ops).slog :=
  ⟨(reach_inv o ops).closedLog sid, (reach_inv o ops).logClosed sid⟩

/-- silence after the close event: in the log of every reachable world, no message, packet,
    heartbeat, upgrade, flush, drain, packetCreate, callback or second close entry of a session
    follows that session's close entry -/
theorem c03_close_is_final (o : Opts) (ops : List Op) (pre : List (Nat × SEv)) (e : Nat × SEv)
    (post : List (Nat × SEv)) (h : (run o ops).slog = pre ++ e :: post) (hf : e.2.final = true) :
    ¬ closeIn e.1 pre :=
  (reach_inv o ops).logOK pre e post h hf

/-- at most one close event per session -/
theorem logOK_one_close (sid : Nat) : ∀ (l : List (Nat × SEv)), LogOK l →
    (l.filter fun e => e.1 == sid && e.2.isClose).length ≤ 1 := by
  intro l
  induction l using snoc_induction with
  | nil => intro _; simp
  | snoc l x ih =>
    intro h
    have hl := ih (logOK_prefix l [x] h)
    rw [List.filter_append, List.length_append]
    by_cases hx : (x.1 == sid && x.2.isClose) = true
    · have hx' : x.1 = sid ∧ x.2.isClose = true := by simpa using hx
      have hfin : x.2.final = true := by
        cases hx2 : x.2 <;> simp [SEv.final]
        rw [hx2] at hx'; simp [SEv.isClose] at hx'
      have hno := h l x [] rfl hfin
      have : l.filter (fun e => e.1 == sid && e.2.isClose) = [] := by
        apply List.filter_eq_nil_iff.mpr
        intro e he hc
        have hc' : e.1 = sid ∧ e.2.isClose = true := by simpa using hc
        exact hno ⟨e, he, by rw [hc'.1, hx'.1], hc'.2⟩
      rw [this]; simp [List.filter, hx]
    · have : [x].filter (fun e => e.1 == sid && e.2.isClose) = [] := by simp [List.filter, hx]
      rw [this]; simpa using hl

theorem c03_at_most_one_close (o : Opts) (ops : List Op) (sid : Nat) :
    ((run o ops).slog.filter fun e => e.1 == sid && e.2.isClose).length ≤ 1 :=
  logOK_one_close sid _ (reach_inv o ops).logOK

/-- whatever happens after a session closed, nothing of that session is logged any more -/
theorem c03_silence_after_close (o : Opts) (ops ops' : List Op) (sid : Nat)
    (hc : ((run o ops).sock sid).rs = .closed) (added : List (Nat × SEv))
    (hadd : (run o (ops ++ ops')).slog = (run o ops).slog ++ added) :
    ∀ x ∈ added, x.2.final = true → x.1 ≠ sid :=
  Inv.silent_after_close (reach_inv o ops) (reach_inv o (ops ++ ops')) (run_ext o ops ops') sid hc added hadd

/-- the log only grows -/
theorem c03_log_grows (o : Opts) (ops ops' : List Op) :
    ∃ added, (run o (ops ++ ops')).slog = (run o ops).slog ++ added := (run_ext o ops ops').log

/-! ### C04 -/

/-- the client table is exactly the set of sessions that were announced and have not closed -/
theorem c04_registry_is_live_sessions (o : Opts) (ops : List Op) (sid : Nat) :
    sid ∈ (run o ops).registry ↔ ((run o ops).sock sid).announced = true ∧ ((run o ops).sock sid).rs ≠ .closed := by
  have i := reach_inv o ops
  constructor
  · intro h
    obtain ⟨a, _, c⟩ := i.regLive sid h
    exact ⟨c, a⟩
  · rintro ⟨a, b⟩
    rcases i.annReg sid a with r | r
    · exact r
    · exact absurd r b

/-- no session is counted twice: the count is the number of live sessions -/
theorem c04_registry_nodup (o : Opts) (ops : List Op) : (run o ops).registry.Nodup := (reach_inv o ops).regNodup

/-- a request naming a closed session is answered "Session ID unknown" -/
theorem c04_closed_session_unknown (o : Opts) (ops : List Op) (sid : Nat)
    (hc : ((run o ops).sock sid).rs = .closed) : lookup (run o ops) sid = none := by
  unfold lookup
  have : sid ∉ (run o ops).registry := fun h => ((reach_inv o ops).regLive sid h).1 hc
  simp [this]

/-- a session enters the table only when it is created: an announced session never re-enters -/
theorem c04_no_reentry (o : Opts) (ops ops' : List Op) (sid : Nat)
    (ha : ((run o ops).sock sid).announced = true) (hn : sid ∉ (run o ops).registry) :
    sid ∉ (run o (ops ++ ops')).registry := by
  intro h
  rcases (run_ext o ops ops').reg sid h with r | r
  · exact hn r
  · rw [ha] at r; cases r

/-- sessions are never renumbered or reused: the table of sessions only grows and a session keeps its revision -/
theorem c04_sessions_persist (o : Opts) (ops ops' : List Op) :
    (run o ops).socks.size ≤ (run o (ops ++ ops')).socks.size ∧
    ∀ sid, sid < (run o ops).socks.size → ((run o (ops ++ ops')).sock sid).proto = ((run o ops).sock sid).proto :=
  ⟨(run_ext o ops ops').size, (run_ext o ops ops').proto⟩

/-! ### C11 -/

/-- a response, once written, is never replaced or written again -/
theorem c11_response_write_once (o : Opts) (ops ops' : List Op) (r : Nat) (x : Resp)
    (h : ((run o ops).reqs.getD r default).resp = some x) :
    ((run o (ops ++ ops')).reqs.getD r default).resp = some x :=
  (run_ext o ops ops').reqs.2 r x h

/-! ### C01 / C18: the accounts of the write path

`createdPkts sid l` are the packets `sendPacket` accepted for session `sid` (its packetCreate entries),
`flushedPkts sid l` the packets `flush` handed to a transport (the batches of its flush entries, concatenated),
`createdCbs` / `flushedCbs` / `ranCbs` the send callbacks accepted, handed over with a batch, and run.
A prefix `pre` of the log is the log as it stood at some earlier moment. -/

/-- at every moment of every history, what has been handed to a transport is a prefix of what was accepted:
    packets are flushed in the order of their sends, each at most once, never before its packetCreate event -/
theorem c01_flushed_is_prefix_of_accepted (o : Opts) (ops : List Op) (sid : Nat) (pre : List (Nat × SEv))
    (hp : pre <+: (run o ops).slog) : flushedPkts sid pre <+: createdPkts sid pre :=
  ((reach_inv o ops).acc.hist pre hp sid).1

/-- nothing accepted is lost while the session lives: accepted = handed over ++ still buffered -/
theorem c01_accepted_is_flushed_or_buffered (o : Opts) (ops : List Op) (sid : Nat)
    (hn : ((run o ops).sock sid).rs ≠ .closed) :
    createdPkts sid (run o ops).slog = flushedPkts sid (run o ops).slog ++ ((run o ops).sock sid).wbuf := by
  obtain ⟨rest, e, i⟩ := ((reach_inv o ops).acc.ses sid).pk
  rw [e, i hn]

/-- a flush hands over everything accepted so far, packets and callbacks: right after a flush entry both
    queues are empty, so the flush event carries exactly the packets accepted since the previous flush -/
theorem c18_flush_carries_everything_buffered (o : Opts) (ops : List Op) (pre : List (Nat × SEv)) (sid : Nat)
    (b : List Pkt) (c : List Nat) (hp : pre ++ [(sid, SEv.flush b c)] <+: (run o ops).slog) :
    createdPkts sid (pre ++ [(sid, SEv.flush b c)]) = flushedPkts sid (pre ++ [(sid, SEv.flush b c)]) ∧
    createdCbs sid (pre ++ [(sid, SEv.flush b c)]) = flushedCbs sid (pre ++ [(sid, SEv.flush b c)]) :=
  (reach_inv o ops).acc.tight pre sid b c hp

/-- at every moment of every history: the callbacks that have run are a prefix of the callbacks whose batch
    has been flushed, which are a prefix of the callbacks handed to Send — callbacks run in the order of their
    sends, each at most once, and never before the flush event of the batch that contains their packet -/
theorem c18_callbacks_in_order_after_their_flush (o : Opts) (ops : List Op) (sid : Nat) (pre : List (Nat × SEv))
    (hp : pre <+: (run o ops).slog) :
    ranCbs sid pre <+: flushedCbs sid pre ∧ flushedCbs sid pre <+: createdCbs sid pre :=
  ⟨((reach_inv o ops).acc.hist pre hp sid).2.2.1, ((reach_inv o ops).acc.hist pre hp sid).2.1⟩

/-- while the session lives, the callbacks of flushed batches that have not run yet are exactly the queued groups -/
theorem c18_pending_callbacks_are_queued (o : Opts) (ops : List Op) (sid : Nat)
    (hn : ((run o ops).sock sid).rs ≠ .closed) :
    flushedCbs sid (run o ops).slog = ranCbs sid (run o ops).slog ++ ((run o ops).sock sid).sentCb.flatten := by
  obtain ⟨rest, e, i⟩ := ((reach_inv o ops).acc.ses sid).run
  rw [e, i hn]

/-- callbacks of a session that closes first are dropped: nothing of the session is logged after its close
    entry (`c03_close_is_final`), callbacks included -/
theorem c18_no_callback_after_close (o : Opts) (ops : List Op) (pre : List (Nat × SEv)) (sid id : Nat)
    (post : List (Nat × SEv)) (h : (run o ops).slog = pre ++ (sid, SEv.cb id) :: post) : ¬ closeIn sid pre :=
  (reach_inv o ops).logOK pre (sid, SEv.cb id) post h rfl

/-! ### C08: the switch happens at most once -/

/-- at every moment of every history a session has at most one `upgrade` entry -/
theorem c08_at_most_one_upgrade (o : Opts) (ops : List Op) (sid : Nat) (pre : List (Nat × SEv))
    (hp : pre <+: (run o ops).slog) : upgradeCount sid pre ≤ 1 :=
  ((reach_inv o ops).acc.hist pre hp sid).2.2.2

/-- the `upgraded` flag says exactly whether the `upgrade` entry has been logged -/
theorem c08_upgraded_iff_upgrade_event (o : Opts) (ops : List Op) (sid : Nat) :
    upgradeCount sid (run o ops).slog = (if ((run o ops).sock sid).upgraded then 1 else 0) :=
  ((reach_inv o ops).acc.ses sid).up

/-- a session that entertains a candidate has not been upgraded -/
theorem c08_candidate_only_before_upgrade (o : Opts) (ops : List Op) (sid : Nat)
    (h : ((run o ops).sock sid).cand.isSome) : ((run o ops).sock sid).upgraded = false :=
  ((reach_inv o ops).sockOK sid).cu h

/-! ### non-vacuity: a concrete history that meets the hypotheses -/

/-- handshake, application close with discard: the session is closed, the log ends with its one close event -/
example :
    let w := run {} [.hsPolling 4 false none, .settle, .close 0 true, .settle]
    (w.sock 0).rs = .closed ∧ w.registry = [] ∧
    (w.slog.filter fun e => e.1 == 0 && e.2.isClose).length = 1 := by decide +kernel

/-- two sends (one with a callback) while no poll is pending, a poll, then the upgrade of the session:
    two packetCreate entries, one flush carrying both, the callback run once, one upgrade entry -/
example :
    let w := run {} [.hsPolling 4 false none, .settle, .send 0 ⟨.text, [104]⟩ false true none,
      .send 0 ⟨.binary, [1, 2]⟩ false false none, .poll 0 [], .settle, .wsCandidate 0 4 false,
      .frame 0 ⟨.text, [50, 112, 114, 111, 98, 101]⟩, .frame 0 ⟨.text, [53]⟩, .settle]
    (createdPkts 0 w.slog).length = 3 ∧ flushedPkts 0 w.slog = createdPkts 0 w.slog ∧
    createdCbs 0 w.slog = [1] ∧ ranCbs 0 w.slog = [1] ∧ upgradeCount 0 w.slog = 1 ∧ (w.sock 0).upgraded = true := by
  decide +kernel

end EIO.Ses
