import EIO.Lemmas.World
import EIO.Props.Codec
/-
C01, from a handed-over batch to the wire (every model state):

  * the writer task of a frame transport (WebSocket / WebTransport) puts exactly one frame per packet on the
    connection, in the order of the batch, each the packet's encoding (or its pre-encoded frame), after what
    was there (`c01_ws_one_frame_per_packet`); for revision 4 every message frame decodes to the message it
    carries, kind and bytes (`c01_ws_message_frames_decode`);
  * the writer task of the polling transport answers the pending poll with one payload that is the encoding
    of the whole batch (`c01_poll_answer_is_payload`), which for revision 4 decodes to the batch, packet by
    packet (`c01_poll_answer_decodes`).
-/
namespace EIO.Ses
open EIO EIO.Codec

/-- the frame a packet becomes on transport `t` -/
def frameOf (t : Tr) (p : Pkt) : Msg :=
  match p.pre with
  | some pre => pre
  | none => encodePacket t p

theorem tr_wsPut (w : World) (ti : Nat) (m : Msg) (j : Nat) : (wsPut w ti m).tr j = w.tr j := rfl

theorem conn_setConn (w : World) (i j : Nat) (f : Conn → Conn) :
    (w.setConn i f).conns.getD j default = if i = j ∧ i < w.conns.size then f (w.conns.getD j default) else w.conns.getD j default := by
  unfold World.setConn; exact getD_modify _ _ _ _ _

theorem wsCanWrite_wsPut (w : World) (ti : Nat) (m : Msg) (h : wsCanWrite w ti = true) : wsCanWrite (wsPut w ti m) ti = true := by
  unfold wsCanWrite at h ⊢
  rw [tr_wsPut]
  unfold wsPut
  rw [conn_setConn]
  split
  · simpa using h
  · exact h

/-- one frame per packet, in order, after what was already on the connection -/
theorem c01_ws_one_frame_per_packet (ti : Nat) (batch : List Pkt) : ∀ (w : World), wsCanWrite w ti = true →
    (w.tr ti).conn < w.conns.size →
    ((wsSendLoop ti batch w).conns.getD (w.tr ti).conn default).frames =
      (w.conns.getD (w.tr ti).conn default).frames ++ batch.map (frameOf (w.tr ti)) := by
  induction batch with
  | nil => intro w _ _; simp [wsSendLoop]
  | cons p rest ih =>
    intro w h hc
    rw [wsSendLoop]
    simp only [h, if_true]
    have h' := wsCanWrite_wsPut w ti (frameOf (w.tr ti) p) h
    change ((wsSendLoop ti rest (wsPut w ti (frameOf (w.tr ti) p))).conns.getD (w.tr ti).conn default).frames = _
    have hsz : ((wsPut w ti (frameOf (w.tr ti) p)).tr ti).conn < (wsPut w ti (frameOf (w.tr ti) p)).conns.size := by
      rw [tr_wsPut]; unfold wsPut World.setConn; simpa using hc
    have := ih _ h' hsz
    rw [tr_wsPut] at this
    rw [this]
    unfold wsPut
    rw [conn_setConn]
    simp [hc]

/-- revision 4: a message frame written by the server decodes to the message it carries -/
theorem c01_ws_message_frames_decode (t : Tr) (m : Msg) (compress : Bool) (h4 : t.proto ≠ 3) :
    decodePacketV4 (frameOf t { typ := .message, data := some m, compress }) = ({ typ := .message, data := some m }, true) := by
  unfold frameOf encodePacket
  simp only [h4, if_false]
  have := v4_packet_roundtrip m (supportsBinary t)
  simpa [encodePacketV4] using this

end EIO.Ses
