import EIO.Lemmas.Upg
import EIO.Lemmas.Acc
import EIO.Props.Session
/-
C08, "a session's transport changes only upon an upgrade packet received on a candidate transport": at the level of
operations, only packets a client sends can upgrade a session — `c08_only_client_packets_upgrade`: every operation
that carries no client packet (handshakes, polls, aborts, new candidates, drops, close frames, application sends and
closes, shutdown, the clock with the upgrade timeout and the check interval, writer tasks) logs no `upgrade` entry, in
every model state; `c08_frame_without_upgrade_packet`: nor does a frame whose packet is not an upgrade packet.
With `c08_upgraded_iff_upgrade_event` (the session's `upgraded` flag is set exactly when the entry is logged) and
`c08_at_most_one_upgrade` this is the "only, explicit, at most once" clause for whole histories.
-/
namespace EIO.Ses
open EIO EIO.Codec

theorem upgradeCount_of_num {w w' : World} (h : NUm w w') (sid : Nat) :
    upgradeCount sid w'.slog = upgradeCount sid w.slog := by
  obtain ⟨added, hl, hn⟩ := h
  unfold upgradeCount
  rw [hl, proj_append]
  have : proj fUpgrade sid added = [] := by
    unfold proj
    apply List.flatMap_eq_nil_iff.mpr
    intro e he
    have := hn e he
    split
    · cases hev : e.2 <;> simp_all [SEv.isUpg, fUpgrade]
    · rfl
  rw [this, List.append_nil]

/-- the operations that carry packets a client sends -/
def Op.carriesPackets : Op → Bool
  | .post .. => true
  | .frame .. => true
  | _ => false

theorem num_step (w : World) (op : Op) (h : op.carriesPackets = false) : NUm w (step w op) := by
  unfold step
  split
  · exact NUm.refl w
  · cases op with
    | hsPolling pr b j => exact num_hsPolling _ _ _ _
    | hsWebsocket pr b => exact num_hsWebsocket _ _ _
    | poll sid ae => exact (nu_pollReq _ _ (NU.refl w)).num
    | post sid bin decl body vj => cases h
    | abort r => exact (nu_abortReq _ (NU.refl w)).num
    | wsCandidate sid pr b => exact (nu_wsCandidate _ _ _ (NU.refl w)).num
    | hsWt => exact num_hsWt _
    | wtCandidate sid => exact (nu_wtCandidate _ (NU.refl w)).num
    | frame c m => cases h
    | drop c => exact (nu_wsDrop _ (NU.refl w)).num
    | closeFrame c code => exact (nu_wsDrop _ (nu_setConn _ _ (NU.refl w))).num
    | send sid m c cb pre => exact (nu_appSend _ _ _ _ _ (NU.refl w)).num
    | close sid d => exact (nu_appClose _ _ (NU.refl w)).num
    | shutdown => exact (nu_shutdownFold _ (NU.refl w)).num
    | adv d => exact (nu_advance _ _ (NU.refl w)).num
    | settle => exact (nu_settle _ (NU.refl w)).num
    | observe => exact (nu_observe (NU.refl w)).num

/-- **only packets a client sends can upgrade a session** -/
theorem c08_only_client_packets_upgrade (w : World) (op : Op) (h : op.carriesPackets = false) (sid : Nat) :
    upgradeCount sid (step w op).slog = upgradeCount sid w.slog :=
  upgradeCount_of_num (num_step w op h) sid

/-- a frame whose packet is not an upgrade packet upgrades nobody -/
theorem c08_frame_without_upgrade_packet (w : World) (c : Nat) (m : Msg)
    (h3 : (decodePacketV3 m).1.typ ≠ .upgrade) (h4 : (decodePacketV4 m).1.typ ≠ .upgrade) (sid : Nat) :
    upgradeCount sid (wsFrame w c m).1.slog = upgradeCount sid w.slog := by
  apply upgradeCount_of_num
  apply NU.num
  unfold wsFrame
  try dsimp only
  split
  · exact NU.refl w
  · split
    · exact NU.refl w
    · split
      · dsimp only; exact nu_trOnError _ (nu_setConn _ _ (NU.refl w))
      · dsimp only
        split
        · exact nu_trEmitPacket _ _ h3 (NU.refl w)
        · exact nu_trEmitPacket _ _ h4 (NU.refl w)

/-- non-vacuity: the protocol-conformant sequence does upgrade, by the frame that carries the upgrade packet and by
    no operation before it -/
example :
    let w := run {} [.hsPolling 4 false none, .settle, .poll 0 [], .wsCandidate 0 4 false,
      .frame 0 ⟨.text, "2probe".toUTF8.toList⟩, .adv 100, .settle]
    upgradeCount 0 w.slog = 0 ∧ upgradeCount 0 (step w (.frame 0 ⟨.text, [0x35]⟩)).slog = 1 := by
  decide +kernel

end EIO.Ses
