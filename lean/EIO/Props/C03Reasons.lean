import EIO.Lemmas.Doc
import EIO.Props.Session
/-
C03, "a session stops being open only for a documented cause … and then emits exactly one close event carrying that
cause's reason": for every configuration and every finite operation sequence, every close event of the log carries one
of the documented reasons — the peer closed the transport, a transport error, the heartbeat deadline, an undecodable
packet, a close by the application or the server (`c03_close_reasons_are_documented`). Which cause produces which
reason: `ping_timeout` only the deadline timer (`Props/C07Deadline.lean`); the others are compared event by event
with the implementation (the reason is part of the printed close token).
-/
namespace EIO.Ses
open EIO EIO.Codec

theorem foldl_doc (w : World) (ops : List Op) (h : ∀ e ∈ w.slog, e.2.isUndoc = false) :
    ∀ e ∈ (ops.foldl step w).slog, e.2.isUndoc = false := by
  induction ops generalizing w with
  | nil => exact h
  | cons op rest ih =>
    rw [List.foldl_cons]
    apply ih
    obtain ⟨added, hl, hn⟩ := ndm_step w op
    intro e he
    rw [hl] at he
    rcases List.mem_append.mp he with h1 | h1
    · exact h e h1
    · exact hn e h1

/-- **every close event carries a documented reason**, in every history -/
theorem c03_close_reasons_are_documented (o : Opts) (ops : List Op) (sid : Nat) (r : String) (rs : RS)
    (h : (sid, SEv.close r rs) ∈ (run o ops).slog) : r ∈ docReasons := by
  have := foldl_doc (init o) ops (by intro e he; simp [init] at he) (sid, SEv.close r rs) h
  simpa [SEv.isUndoc] using this

/-- non-vacuity: five sessions closed for the five causes -/
example :
    let w := run { I := 300, T := 200 } [.hsPolling 4 false none, .hsWebsocket 4 false, .hsWebsocket 4 false, .hsWebsocket 4 false,
      .hsWebsocket 4 false, .settle, .close 0 true, .drop 0, .frame 1 ⟨.text, [0x7a]⟩, .frame 2 ⟨.text, [0x32]⟩, .adv 600]
    (w.slog.filterMap fun e => match e.2 with | .close r _ => some (e.1, r) | _ => none) =
      [(0, "forced_close"), (1, "transport_close"), (2, "parse_error"), (3, "transport_error"), (4, "ping_timeout")] := by
  decide +kernel

end EIO.Ses
