import EIO.Props.C12Close
/-
C07: the heartbeat rules of the model, stated outright (every model state that
meets the stated guard; `I` = ping interval, `T` = ping timeout, `now` = the
virtual instant of the call).
-/
namespace EIO.Ses
open EIO EIO.Codec

/-- sending a packet on a session that is not waiting for a drain to close touches no heartbeat timer -/
theorem flushF_timers (f : Nat) (w : World) (sid : Nat) (hdc : (w.sock sid).drainClose = none) (j : Nat) :
    ((flushF f w sid).sock j).pingTimeoutDue = (w.sock j).pingTimeoutDue ∧
    ((flushF f w sid).sock j).pingIntervalDue = (w.sock j).pingIntervalDue := by
  cases f with
  | zero => simp [flushF]
  | succ f =>
    rw [flushF]
    try dsimp only
    split
    · exact ⟨rfl, rfl⟩
    · split
      · rename_i d hd
        simp [hdc] at hd
      · constructor <;> (simp; split <;> simp)

@[simp] theorem now_setSock (w : World) (i : Nat) (f : Sock → Sock) : (w.setSock i f).now = w.now := rfl
@[simp] theorem o_setSock (w : World) (i : Nat) (f : Sock → Sock) : (w.setSock i f).o = w.o := rfl
@[simp] theorem now_trSend (w : World) (ti : Nat) (b : List Pkt) : (trSend w ti b).now = w.now := rfl
@[simp] theorem o_trSend (w : World) (ti : Nat) (b : List Pkt) : (trSend w ti b).o = w.o := rfl
@[simp] theorem now_ev (w : World) (s : String) : (w.ev s).now = w.now := rfl
@[simp] theorem o_ev (w : World) (s : String) : (w.ev s).o = w.o := rfl

@[simp] theorem now_sev (w : World) (sid : Nat) (e : SEv) : (w.sev sid e).now = w.now := by
  rcases sev_eq w sid e with h | h <;> rw [h] <;> rfl
@[simp] theorem o_sev (w : World) (sid : Nat) (e : SEv) : (w.sev sid e).o = w.o := by
  rcases sev_eq w sid e with h | h <;> rw [h] <;> rfl

/-- … nor the clock, the options or a session's revision -/
theorem flushF_clock (f : Nat) (w : World) (sid : Nat) (hdc : (w.sock sid).drainClose = none) :
    (flushF f w sid).now = w.now ∧ (flushF f w sid).o = w.o ∧ ∀ j, ((flushF f w sid).sock j).proto = (w.sock j).proto := by
  cases f with
  | zero => simp [flushF]
  | succ f =>
    rw [flushF]
    try dsimp only
    split
    · exact ⟨rfl, rfl, fun _ => rfl⟩
    · split
      · rename_i d hd
        simp [hdc] at hd
      · refine ⟨by simp, by simp, fun j => ?_⟩
        simp

theorem sendPacket_clock (w : World) (sid : Nat) (p : Pkt) (cb : Option Nat) (hdc : (w.sock sid).drainClose = none) :
    (sendPacket w sid p cb).now = w.now ∧ (sendPacket w sid p cb).o = w.o ∧
    ∀ j, ((sendPacket w sid p cb).sock j).proto = (w.sock j).proto := by
  unfold sendPacket
  try dsimp only
  split
  · exact ⟨rfl, rfl, fun _ => rfl⟩
  · have h := flushF_clock 4 ((w.sev sid (.packetCreate p cb)).setSock sid fun s =>
        { s with wbuf := s.wbuf ++ [p], packetsFn := match cb with | some id => s.packetsFn ++ [id] | none => s.packetsFn })
        sid (by rw [sock_setSock]; split <;> simp [hdc])
    unfold flush
    refine ⟨h.1.trans (by simp), h.2.1.trans (by simp), fun j => (h.2.2 j).trans ?_⟩
    rw [sock_setSock]; split <;> simp

theorem sendPacket_timers (w : World) (sid : Nat) (p : Pkt) (cb : Option Nat) (hdc : (w.sock sid).drainClose = none) (j : Nat) :
    ((sendPacket w sid p cb).sock j).pingTimeoutDue = (w.sock j).pingTimeoutDue ∧
    ((sendPacket w sid p cb).sock j).pingIntervalDue = (w.sock j).pingIntervalDue := by
  unfold sendPacket
  try dsimp only
  split
  · exact ⟨rfl, rfl⟩
  · have h := flushF_timers 4 ((w.sev sid (.packetCreate p cb)).setSock sid fun s =>
        { s with wbuf := s.wbuf ++ [p], packetsFn := match cb with | some id => s.packetsFn ++ [id] | none => s.packetsFn })
        sid (by rw [sock_setSock]; split <;> simp [hdc]) j
    unfold flush
    refine ⟨h.1.trans ?_, h.2.trans ?_⟩ <;> (rw [sock_setSock]; split <;> simp)

/-- revision 4: an accepted pong cancels the deadline and schedules the next ping one interval later -/
theorem c07_pong_rearms (w : World) (sid : Nat) (hsz : sid < w.socks.size)
    (hopen : (w.sock sid).rs = .open_) (hv4 : (w.sock sid).proto ≠ 3) :
    ((sockOnPacket w sid { typ := .pong }).sock sid).pingTimeoutDue = none ∧
    ((sockOnPacket w sid { typ := .pong }).sock sid).pingIntervalDue = some (w.now + w.o.I) ∧
    ((sockOnPacket w sid { typ := .pong }).sock sid).rs = .open_ ∧
    (sockOnPacket w sid { typ := .pong }).slog = w.slog ++ [(sid, .packet .pong), (sid, .heartbeat)] := by
  unfold sockOnPacket
  simp only [hopen, hv4, ne_eq, not_true_eq_false, if_false]
  rw [sock_sev, sock_setSock, slog_sev, slog_setSock, slog_sev]
  simp [hsz, hopen]

/-- revision 4: a ping from the client is a heartbeat in the wrong direction: the session closes -/
theorem c07_wrong_direction_v4 (w : World) (sid : Nat) (hsz : sid < w.socks.size)
    (hopen : (w.sock sid).rs = .open_) (hv4 : (w.sock sid).proto ≠ 3) :
    ((sockOnPacket w sid { typ := .ping }).sock sid).rs = .closed := by
  unfold sockOnPacket
  simp only [hopen, hv4, ne_eq, not_true_eq_false, if_false, not_false_eq_true, if_true]
  exact sockOnClose_closed _ _ sid _ (by rw [sock_sev, hopen]; simp) (by simpa using hsz)

/-- revision 3: a pong from the client is a heartbeat in the wrong direction: the session closes -/
theorem c07_wrong_direction_v3 (w : World) (sid : Nat) (hsz : sid < w.socks.size)
    (hopen : (w.sock sid).rs = .open_) (hv3 : (w.sock sid).proto = 3) :
    ((sockOnPacket w sid { typ := .pong }).sock sid).rs = .closed := by
  unfold sockOnPacket
  simp only [hopen, hv3, ne_eq, not_true_eq_false, if_false, if_true]
  exact sockOnClose_closed _ _ sid _ (by rw [sock_sev, hopen]; simp) (by simpa using hsz)

/-- revision 3: a ping from the client moves the deadline to interval + timeout from now -/
theorem c07_v3_ping_moves_deadline (w : World) (sid : Nat) (hsz : sid < w.socks.size)
    (hopen : (w.sock sid).rs = .open_) (hv3 : (w.sock sid).proto = 3) (hdc : (w.sock sid).drainClose = none) :
    ((sockOnPacket w sid { typ := .ping }).sock sid).pingTimeoutDue = some (w.now + w.o.I + w.o.T) := by
  unfold sockOnPacket
  simp only [hopen, hv3, ne_eq, not_true_eq_false, if_false]
  rw [sock_sev]
  have h := sendPacket_timers ((w.sev sid (.packet .ping)).setSock sid fun s =>
      { s with pingTimeoutDue := some ((w.sev sid (.packet .ping)).now + (w.sev sid (.packet .ping)).o.I + (w.sev sid (.packet .ping)).o.T) })
      sid { typ := .pong, compress := true } none (by rw [sock_setSock]; split <;> simp [hdc]) sid
  rw [h.1, sock_setSock]
  simp [hsz]

/-- the ping timer fires on a live session: the pong is due one timeout from now (revision 3: interval + timeout),
    and no further ping is scheduled until a pong arrives -/
theorem c07_ping_sets_deadline (w : World) (sid : Nat) (hsz : sid < w.socks.size)
    (hdc : (w.sock sid).drainClose = none) :
    ((fireTimer w (.pingInterval sid)).sock sid).pingTimeoutDue =
      some (w.now + (if (w.sock sid).proto = 3 then w.o.I + w.o.T else w.o.T)) ∧
    ((fireTimer w (.pingInterval sid)).sock sid).pingIntervalDue = none := by
  simp only [fireTimer]
  have q := sendPacket_quiet (w.setSock sid fun s => { s with pingIntervalDue := none }) sid { typ := .ping, compress := true } none
    (by rw [sock_setSock]; split <;> simp [hdc])
  have t := sendPacket_timers (w.setSock sid fun s => { s with pingIntervalDue := none }) sid { typ := .ping, compress := true } none
    (by rw [sock_setSock]; split <;> simp [hdc]) sid
  have hz : sid < (sendPacket (w.setSock sid fun s => { s with pingIntervalDue := none }) sid { typ := .ping, compress := true } none).socks.size := by
    rw [q.size]; simpa using hsz
  rw [sock_setSock]
  simp only [hz, and_self, if_true]
  have c := sendPacket_clock (w.setSock sid fun s => { s with pingIntervalDue := none }) sid { typ := .ping, compress := true } none
    (by rw [sock_setSock]; split <;> simp [hdc])
  refine ⟨?_, ?_⟩
  · show some (_ + _) = _
    rw [c.1, c.2.1, c.2.2 sid, sock_setSock]
    simp [hsz]
  · show ((sendPacket _ sid _ none).sock sid).pingIntervalDue = none
    rw [t.2, sock_setSock]; simp [hsz]

/-- the deadline passes on a live session: it closes -/
theorem c07_timeout_closes (w : World) (sid : Nat) (hsz : sid < w.socks.size) (hnc : (w.sock sid).rs ≠ .closed) :
    ((fireTimer w (.pingTimeout sid)).sock sid).rs = .closed := by
  simp only [fireTimer]
  have h1 : ((w.setSock sid fun s => { s with pingTimeoutDue := none }).sock sid).rs ≠ .closed := by
    rw [sock_setSock]; split <;> simpa using hnc
  simp only [h1, if_false]
  exact sockOnClose_closed _ _ sid _ h1 (by simpa using hsz)

end EIO.Ses
