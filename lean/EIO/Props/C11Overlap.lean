import EIO.Props.C12Close
/-
C11: a second poll while one is outstanding is answered 400 and closes the
session with a transport error — every model state.
-/
namespace EIO.Ses
open EIO EIO.Codec

/-- an overlapping poll: the transport reports an error and the new request is answered 400 -/
theorem c11_overlapping_poll_refused (w : World) (ti r : Nat) (h : (w.tr ti).req.isSome) :
    onPollRequest w ti r = (trOnError w ti).answer r { status := 400, ct := "-" } := by
  unfold onPollRequest; simp [h]

/-- … and the session that owns the transport is closed when the request returns -/
theorem c11_overlapping_poll_closes_session (w : World) (ti r sid : Nat) (h : (w.tr ti).req.isSome)
    (hrole : (w.tr ti).role = .current sid) (hnc : (w.sock sid).rs ≠ .closed) (hsz : sid < w.socks.size) :
    ((onPollRequest w ti r).sock sid).rs = .closed := by
  rw [c11_overlapping_poll_refused w ti r h, sock_answer]
  unfold trOnError closeFuel
  rw [trOnErrorF]
  simp only [hrole]
  exact sockOnClose_closed _ w sid _ hnc hsz

/-- the 400 is the response of the new request, whatever happened to the session -/
theorem c11_overlapping_poll_answer (w : World) (ti r : Nat) (h : (w.tr ti).req.isSome)
    (hr : r < (trOnError w ti).reqs.size) (hfresh : ((trOnError w ti).reqs.getD r default).resp = none) :
    ((onPollRequest w ti r).reqs.getD r default).resp = some { status := 400, ct := "-" } := by
  rw [c11_overlapping_poll_refused w ti r h]
  unfold World.answer
  simp only [hfresh, Option.isSome_none, Bool.false_eq_true, if_false]
  rw [req_setReq]
  simp [hr]

end EIO.Ses
