import EIO.Lemmas.SesOps
import EIO.Props.SessionLocal
import EIO.Props.C01Wire
/-
C01 on the polling transport (every model state that satisfies the invariant): the writer task answers the
pending poll with one payload, the encoding of the whole batch; for revision 4 that payload decodes to the
batch, packet by packet.
-/
namespace EIO.Ses
open EIO EIO.Codec

/-- the body of the poll response that carries `batch` on transport `t` -/
def pollBody (t : Tr) (batch : List Pkt) : Bytes :=
  match t.jsonp with
  | some digits => jsonpBody digits (encodePayload t batch).data
  | none => (encodePayload t batch).data

theorem emitHeaders_resp (w : World) (ti r j : Nat) :
    ((emitHeaders w ti r).reqs.getD j default).resp = (w.reqs.getD j default).resp ∧ (emitHeaders w ti r).reqs.size = w.reqs.size := by
  unfold emitHeaders
  try dsimp only
  constructor
  · repeat (first | rfl | split | (rw [req_setReq]; split <;> rfl) | (simp only [World.ev]))
  · repeat (first | rfl | split | simp [World.ev, World.setReq])

/-- the pending poll is answered with the payload of the whole batch -/
theorem c01_poll_answer_is_payload (w : World) (ti r : Nat) (batch : List Pkt) (i : Inv w)
    (hsc : (w.tr ti).shouldClose = false) (hreq : (w.tr ti).req = some r) (hr : r < w.reqs.size)
    (hun : (w.reqs.getD r default).resp = none) :
    ∃ resp, ((runPollSend w ti batch).reqs.getD r default).resp = some resp ∧ resp.status = 200 ∧
      resp.body = pollBody (w.tr ti) batch := by
  unfold runPollSend
  simp only [hsc, Bool.false_eq_true, if_false, hreq]
  refine ⟨?resp, ?h1, ?h2, ?h3⟩
  case h1 =>
    refine ((pr_trEmitDrain ti (Pres.refl _)) ?_).2.reqs.2 r _ ?_
    · exact ((pr_answer _ _ (pr_emitHeaders _ _ (pr_setTr _ _ (Pres.refl w)))) i).1
    · refine c11_answer_records _ r _ ?_ ?_
      · rw [(emitHeaders_resp _ ti r r).2]; exact hr
      · rw [(emitHeaders_resp _ ti r r).1]; exact hun
  case h2 => rfl
  case h3 => rfl

/-- revision 4, plain polling: the payload decodes to the batch, packet by packet -/
theorem c01_poll_answer_decodes (t : Tr) (batch : List Pkt) (h4 : t.proto ≠ 3) (hj : t.jsonp = none) (hwf : WFv4 batch) :
    decodePayloadV4 (pollBody t batch) = batch.map fun p => (decodePacketV4 ⟨.text, (encodePacketV4 p false).data⟩).1 := by
  unfold pollBody encodePayload
  simp only [hj, h4, if_false]
  exact v4_payload_roundtrip batch hwf

/-- … and a batch of messages decodes to exactly those messages -/
theorem c01_poll_messages_decode (t : Tr) (ms : List Msg) (h4 : t.proto ≠ 3) (hj : t.jsonp = none)
    (hwf : WFv4 (ms.map fun m => { typ := .message, data := some m })) :
    decodePayloadV4 (pollBody t (ms.map fun m => { typ := .message, data := some m })) =
      ms.map fun m => { typ := .message, data := some m } := by
  rw [c01_poll_answer_decodes t _ h4 hj hwf, List.map_map]
  apply List.map_congr_left
  intro m _
  exact v4_payload_message m

end EIO.Ses
