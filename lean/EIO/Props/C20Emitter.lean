import EIO.Model.Containers
/-
C20 (event emitter, Set): Emit calls every listener registered when the call
starts, in registration order, exactly once per emit; a Once listener runs at
most once overall; removing a listener removes exactly one registration of that
function (the first) and never panics, nil listeners included.
-/
namespace EIO.Cont
open EIO

/-! ### RemoveListener -/

/-- `RemoveListener` is total (nil slots are skipped, not dereferenced) and
    removes exactly the first registration of the function, if there is one -/
theorem c20_remove_exactly_one (s : Slots) (f : Nat) :
    ((∃ e, some e ∈ s ∧ e.fn = f) →
      (emRemove s f).2 = true ∧
      ∃ pre e post, s = pre ++ some e :: post ∧ e.fn = f ∧
        (∀ e', some e' ∈ pre → e'.fn ≠ f) ∧ (emRemove s f).1 = pre ++ post) ∧
    ((¬ ∃ e, some e ∈ s ∧ e.fn = f) → emRemove s f = (s, false)) := by
  induction s with
  | nil => simp [emRemove]
  | cons x rest ih =>
    obtain ⟨ih1, ih2⟩ := ih
    cases x with
    | none =>
      constructor
      · rintro ⟨e, he, hf⟩
        have he' : some e ∈ rest := by simpa using he
        obtain ⟨hb, pre, e0, post, hs, hf0, hpre, hr⟩ := ih1 ⟨e, he', hf⟩
        refine ⟨by simp [emRemove, hb], none :: pre, e0, post, by simp [hs], hf0, ?_, by simp [emRemove, hr]⟩
        intro e' he'; exact hpre e' (by simpa using he')
      · intro hn
        have : ¬ ∃ e, some e ∈ rest ∧ e.fn = f := fun ⟨e, he, hf⟩ => hn ⟨e, by simp [he], hf⟩
        simp [emRemove, ih2 this]
    | some e =>
      by_cases hef : e.fn = f
      · constructor
        · intro _
          refine ⟨by simp [emRemove, hef], [], e, rest, rfl, hef, by simp, by simp [emRemove, hef]⟩
        · intro hn; exact absurd ⟨e, by simp, hef⟩ hn
      · constructor
        · rintro ⟨e1, he1, hf1⟩
          have he' : some e1 ∈ rest := by
            rcases List.mem_cons.mp he1 with h | h
            · injection h with h; subst h; exact absurd hf1 hef
            · exact h
          obtain ⟨hb, pre, e0, post, hs, hf0, hpre, hr⟩ := ih1 ⟨e1, he', hf1⟩
          refine ⟨by simp [emRemove, hef, hb], some e :: pre, e0, post, by simp [hs], hf0, ?_,
            by simp [emRemove, hef, hr]⟩
          intro e' he'
          rcases List.mem_cons.mp he' with h | h
          · injection h with h; subst h; exact hef
          · exact hpre e' h
        · intro hn
          have : ¬ ∃ e, some e ∈ rest ∧ e.fn = f := fun ⟨e1, he1, hf1⟩ => hn ⟨e1, by simp [he1], hf1⟩
          simp [emRemove, hef, ih2 this]

theorem emRemove_length (s : Slots) (f : Nat) :
    ((emRemove s f).2 = true → (emRemove s f).1.length + 1 = s.length) ∧
    ((emRemove s f).2 = false → (emRemove s f).1.length = s.length) := by
  induction s with
  | nil => simp [emRemove]
  | cons x rest ih =>
    cases x with
    | none =>
      simp only [emRemove, List.length_cons]
      exact ⟨fun h => by have := ih.1 h; omega, fun h => by have := ih.2 h; omega⟩
    | some e =>
      by_cases hef : e.fn = f
      · simp [emRemove, hef]
      · simp only [emRemove, hef, if_false, List.length_cons]
        exact ⟨fun h => by have := ih.1 h; omega, fun h => by have := ih.2 h; omega⟩

theorem filterMap_congr' {α β : Type} (f g : α → Option β) (l : List α)
    (h : ∀ x ∈ l, f x = g x) : l.filterMap f = l.filterMap g := by
  induction l with
  | nil => rfl
  | cons a rest ih =>
    simp only [List.filterMap_cons, h a (by simp)]
    rw [ih (fun x hx => h x (List.mem_cons_of_mem _ hx))]

/-! ### Emit -/

/-- the call an entry of the snapshot gives rise to, given which once-wrappers
    had fired before the emit started -/
def callOf (spent : List Nat) : Option Entry → Option Call
  | none => none
  | some e => if e.once ∧ e.uid ∈ spent then none else some ⟨e.uid, e.fn⟩

def uids (s : List (Option Entry)) : List Nat := s.filterMap fun o => o.map (·.uid)

theorem emitLoop_calls (snap : List (Option Entry)) : ∀ (cur : Em) (calls : List Call),
    (uids snap).Nodup →
    (emitLoop (fun _ x => x) snap cur calls).2 = calls ++ snap.filterMap (callOf cur.spent) ∧
    (∀ u, u ∈ (emitLoop (fun _ x => x) snap cur calls).1.spent ↔
       u ∈ cur.spent ∨ ∃ e, some e ∈ snap ∧ e.once ∧ e.uid = u) := by
  induction snap with
  | nil => intro cur calls _; simp [emitLoop]
  | cons x rest ih =>
    intro cur calls hnd
    cases x with
    | none =>
      have hnd' : (uids rest).Nodup := by simpa [uids] using hnd
      obtain ⟨h1, h2⟩ := ih cur calls hnd'
      simp only [emitLoop, List.filterMap_cons, callOf]
      refine ⟨h1, ?_⟩
      intro u; rw [h2 u]; simp
    | some e =>
      have hnd' : (uids rest).Nodup := by
        simp only [uids, List.filterMap_cons, Option.map_some] at hnd
        exact (List.nodup_cons.mp hnd).2
      have hfresh : e.uid ∉ uids rest := by
        simp only [uids, List.filterMap_cons, Option.map_some] at hnd
        exact (List.nodup_cons.mp hnd).1
      -- firing e does not change what later entries see: their uids differ
      have hcongr : ∀ sp, rest.filterMap (callOf (e.uid :: sp)) = rest.filterMap (callOf sp) := by
        intro sp
        apply filterMap_congr'
        intro o ho
        cases o with
        | none => rfl
        | some e' =>
          have : e'.uid ≠ e.uid := by
            intro heq; apply hfresh
            simp only [uids, List.mem_filterMap]
            exact ⟨some e', ho, by simp [heq]⟩
          simp [callOf, this]
      unfold emitLoop
      by_cases honce : e.once = true
      · simp only [honce, if_true]
        by_cases hsp : e.uid ∈ cur.spent
        · simp only [hsp, if_true]
          obtain ⟨h1, h2⟩ := ih cur calls hnd'
          refine ⟨?_, ?_⟩
          · rw [h1]; simp [callOf, honce, hsp]
          · intro u; rw [h2 u]
            constructor
            · rintro (h | ⟨e', he', ho', hu'⟩)
              · exact Or.inl h
              · exact Or.inr ⟨e', by simp [he'], ho', hu'⟩
            · rintro (h | ⟨e', he', ho', hu'⟩)
              · exact Or.inl h
              · rcases List.mem_cons.mp he' with hh | hh
                · injection hh with hh; subst hh; subst hu'; exact Or.inl hsp
                · exact Or.inr ⟨e', hh, ho', hu'⟩
        · simp only [hsp, if_false]
          obtain ⟨h1, h2⟩ := ih (({ cur with spent := e.uid :: cur.spent } : Em).remove e.fn).1
            (calls ++ [⟨e.uid, e.fn⟩]) hnd'
          have hspent : (({ cur with spent := e.uid :: cur.spent } : Em).remove e.fn).1.spent =
              e.uid :: cur.spent := by simp [Em.remove]
          refine ⟨?_, ?_⟩
          · rw [h1, hspent, hcongr]; simp [callOf, honce, hsp]
          · intro u; rw [h2 u, hspent]
            constructor
            · rintro (h | ⟨e', he', ho', hu'⟩)
              · rcases List.mem_cons.mp h with hh | hh
                · exact Or.inr ⟨e, by simp, honce, hh.symm⟩
                · exact Or.inl hh
              · exact Or.inr ⟨e', by simp [he'], ho', hu'⟩
            · rintro (h | ⟨e', he', ho', hu'⟩)
              · exact Or.inl (List.mem_cons_of_mem _ h)
              · rcases List.mem_cons.mp he' with hh | hh
                · injection hh with hh; subst hh; subst hu'; exact Or.inl (by simp)
                · exact Or.inr ⟨e', hh, ho', hu'⟩
      · simp only [honce, Bool.false_eq_true, if_false]
        obtain ⟨h1, h2⟩ := ih cur (calls ++ [⟨e.uid, e.fn⟩]) hnd'
        refine ⟨?_, ?_⟩
        · rw [h1]; simp [callOf, honce]
        · intro u; rw [h2 u]
          constructor
          · rintro (h | ⟨e', he', ho', hu'⟩)
            · exact Or.inl h
            · exact Or.inr ⟨e', by simp [he'], ho', hu'⟩
          · rintro (h | ⟨e', he', ho', hu'⟩)
            · exact Or.inl h
            · rcases List.mem_cons.mp he' with hh | hh
              · injection hh with hh; subst hh; exact absurd ho' honce
              · exact Or.inr ⟨e', hh, ho', hu'⟩

/-- **Emit calls every listener registered when the call starts, in
    registration order, exactly once** (nil slots skipped; a once-wrapper only
    if it has not fired before), whatever the removals the once-wrappers perform
    on the live list during the emit -/
theorem c20_emit_snapshot_order_once (e : Em) (h : (uids e.slots).Nodup) :
    (e.emit).2 = e.slots.filterMap (callOf e.spent) := by
  have := (emitLoop_calls e.slots e [] h).1
  simpa [Em.emit] using this

theorem uid_unique (s : List (Option Entry)) (h : (uids s).Nodup) (x y : Entry)
    (hx : some x ∈ s) (hy : some y ∈ s) (hu : y.uid = x.uid) : y = x := by
  induction s with
  | nil => simp at hx
  | cons o rest ih =>
    cases o with
    | none =>
      have h' : (uids rest).Nodup := by simpa [uids] using h
      exact ih h' (by simpa using hx) (by simpa using hy)
    | some e =>
      simp only [uids, List.filterMap_cons, Option.map_some] at h
      obtain ⟨hfresh, h'⟩ := List.nodup_cons.mp h
      have inrest : ∀ z : Entry, some z ∈ rest → z.uid ∈ rest.filterMap (fun o => o.map (·.uid)) := by
        intro z hz; exact List.mem_filterMap.mpr ⟨some z, hz, rfl⟩
      rcases List.mem_cons.mp hx with hx1 | hx2
      · rcases List.mem_cons.mp hy with hy1 | hy2
        · injection hx1 with hx1; injection hy1 with hy1; rw [hx1, hy1]
        · injection hx1 with hx1; subst hx1
          exact absurd (hu ▸ inrest y hy2) hfresh
      · rcases List.mem_cons.mp hy with hy1 | hy2
        · injection hy1 with hy1; subst hy1
          exact absurd (hu ▸ inrest x hx2) hfresh
        · exact ih h' hx2 hy2

/-- **a Once listener runs at most once overall**: it is called in an emit only
    if it had not fired before, and from then on it counts as fired -/
theorem c20_once_at_most_once (e : Em) (h : (uids e.slots).Nodup) (x : Entry)
    (hx : some x ∈ e.slots) (ho : x.once = true) :
    (⟨x.uid, x.fn⟩ ∈ (e.emit).2 → x.uid ∉ e.spent) ∧ x.uid ∈ (e.emit).1.spent := by
  constructor
  · intro hc hs
    rw [c20_emit_snapshot_order_once e h] at hc
    obtain ⟨o, hmem, hco⟩ := List.mem_filterMap.mp hc
    cases o with
    | none => simp [callOf] at hco
    | some y =>
      simp only [callOf] at hco
      split at hco
      · simp at hco
      · rename_i hn
        simp at hco
        obtain ⟨hu, _⟩ := hco
        have hyx : y = x := uid_unique e.slots h x y hx hmem hu
        subst hyx
        exact hn ⟨ho, hs⟩
  · have := (emitLoop_calls e.slots e [] h).2 x.uid
    show x.uid ∈ (emitLoop (fun _ x => x) e.slots e []).1.spent
    rw [this]
    exact Or.inr ⟨x, hx, ho, rfl⟩

/-- registrations made through `On`/`Once` always carry distinct identities -/
theorem mkEntries_uids (fns : List (Option Nat)) (once : Bool) : ∀ n,
    (∀ u ∈ uids (mkEntries fns once n), n ≤ u ∧ u < n + fns.length) ∧ (uids (mkEntries fns once n)).Nodup := by
  induction fns with
  | nil => intro n; simp [mkEntries, uids]
  | cons f rest ih =>
    intro n
    obtain ⟨h1, h2⟩ := ih (n + 1)
    cases f with
    | none =>
      simp only [mkEntries, uids, Option.map_none, List.filterMap_cons, List.length_cons] at *
      exact ⟨fun u hu => by have := h1 u hu; omega, h2⟩
    | some id =>
      simp only [mkEntries, uids, Option.map_some, List.filterMap_cons, List.length_cons,
        List.mem_cons, List.nodup_cons] at *
      refine ⟨?_, ?_, h2⟩
      · rintro u (rfl | hu)
        · omega
        · have := h1 u hu; omega
      · intro hin; have := h1 n hin; omega

/-- the invariant `c20_emit_snapshot_order_once` needs holds for every emitter
    reached by any sequence of On / Once / RemoveListener / Emit calls -/
def Em.Inv (e : Em) : Prop := (uids e.slots).Nodup ∧ ∀ u ∈ uids e.slots, u < e.next

theorem Em.inv_init : ({} : Em).Inv := by simp [Em.Inv, uids]

theorem Em.inv_add (e : Em) (fns : List (Option Nat)) (once : Bool) (h : e.Inv) : (e.add fns once).Inv := by
  obtain ⟨h1, h2⟩ := h
  obtain ⟨m1, m2⟩ := mkEntries_uids fns once e.next
  unfold Em.add Em.Inv
  simp only [uids, List.filterMap_append] at *
  refine ⟨List.nodup_append.mpr ⟨h1, m2, ?_⟩, ?_⟩
  · intro a ha b hb hab
    have := h2 a ha; have := (m1 b hb).1; omega
  · intro u hu
    rcases List.mem_append.mp hu with hu | hu
    · have := h2 u hu; omega
    · exact (m1 u hu).2

/-- non-vacuity: On f0, Once f1, nil, On f0; the second emit no longer calls f1;
    removing f0 takes the first registration only -/
example :
    let e0 := (((({} : Em).add [some 0] false).add [some 1] true).add [none, some 0] false)
    let (e1, c1) := e0.emit
    let (e2, c2) := e1.emit
    (c1.map (·.fn), c2.map (·.fn), (e2.remove 0).1.slots.length, (e2.remove 0).2) =
      ([0, 1, 0], [0, 0], 2, true) := by decide +kernel

end EIO.Cont
