import EIO.Props.C06Open
/-
C18, "packetCreate fires exactly once for every accepted Send before the packet is buffered": for every model state,
`Send` on a session that accepts packets logs exactly one `packetCreate` entry, carrying that message, whatever the
flush it triggers goes on to do (close paths, drain callbacks, writer hand-off: the `NPC` chain); `Send` on a session
that is closing or closed logs none and changes nothing (C03: silently discarded).
-/
namespace EIO.Ses
open EIO EIO.Codec

theorem c18_send_one_packetCreate (w : World) (sid : Nat) (m : Msg) (compress wantCb : Bool) (pre : Option Msg)
    (h : ¬ ((w.sock sid).rs = .closing ∨ (w.sock sid).rs = .closed ∨ w.socks.size ≤ sid)) :
    createdPkts sid (appSend w sid m compress wantCb pre).slog =
      createdPkts sid w.slog ++ [{ typ := .message, data := some m, compress, pre }] := by
  unfold appSend
  try dsimp only
  split
  · exact (sendPacket_created ({ w with cbSeq := w.cbSeq + 1 } : World) sid _ _ h).1
  · exact (sendPacket_created _ sid _ _ h).1

theorem c18_send_discarded_when_not_open (w : World) (sid : Nat) (m : Msg) (compress : Bool) (pre : Option Msg)
    (h : (w.sock sid).rs = .closing ∨ (w.sock sid).rs = .closed) :
    appSend w sid m compress false pre = w := by
  unfold appSend sendPacket
  simp only [Bool.false_eq_true, if_false]
  rw [if_pos]
  rcases h with h | h
  · exact Or.inl h
  · exact Or.inr (Or.inl h)

end EIO.Ses
