import EIO.Lemmas.MsgHist
import EIO.Lemmas.SesOps
import EIO.Props.Session
import EIO.Props.C02Deliver
/-
C02 over whole histories: the `message` entries of the session log — what the application was handed — are, in
order, exactly what the client's data requests and frames delivered at the moment each was submitted. No other
operation (handshake, poll, abort, upgrade candidate, connection drop, close frame, application send or close,
server shutdown, the clock with all its timers, the writer tasks) ever delivers a message
(`c02_only_submissions_deliver`), for every configuration and every finite operation sequence
(`c02_messages_are_submissions`). What one submission delivers is the subject of `Props/C02Deliver.lean` (every payload,
every model state); what a closed session delivers (nothing) of `c03_silence_after_close`.
-/
namespace EIO.Ses
open EIO EIO.Codec

/-- the messages handed to the application, with the session they were handed to -/
def msgsOf (l : List (Nat × SEv)) : List (Nat × Option Msg) :=
  l.filterMap fun e => match e.2 with | .message m => some (e.1, m) | _ => none

theorem msgsOf_append (a b : List (Nat × SEv)) : msgsOf (a ++ b) = msgsOf a ++ msgsOf b := by
  simp [msgsOf, List.filterMap_append]

theorem msgsOf_none (l : List (Nat × SEv)) (h : ∀ e ∈ l, e.2.isMessage = false) : msgsOf l = [] := by
  induction l with
  | nil => rfl
  | cons e rest ih =>
    have he := h e (List.mem_cons_self)
    have hr := ih (fun x hx => h x (List.mem_cons_of_mem _ hx))
    unfold msgsOf at hr ⊢
    rw [List.filterMap_cons]
    cases hev : e.2 with
    | message m => rw [hev] at he; cases he
    | _ => simp only []; exact hr

/-- **"anything else never delivers"**: an operation that is not a data request or a frame adds no message -/
theorem c02_only_submissions_deliver (w : World) (op : Op) (h : op.submits = false) :
    msgsOf (step w op).slog = msgsOf w.slog := by
  obtain ⟨added, hl, hn⟩ := nmsg_step w op h
  rw [hl, msgsOf_append, msgsOf_none added hn, List.append_nil]

/-- what one operation handed to the application, seen from the world it ran in -/
def deliveredBy (w : World) (op : Op) : List (Nat × Option Msg) :=
  msgsOf ((step w op).slog.drop w.slog.length)

/-- the deliveries of the client's submissions along a history -/
def deliveredAll (w : World) : List Op → List (Nat × Option Msg)
  | [] => []
  | op :: rest => (if op.submits then deliveredBy w op else []) ++ deliveredAll (step w op) rest

theorem foldl_messages (w : World) (hi : Inv w) (ops : List Op) :
    msgsOf (ops.foldl step w).slog = msgsOf w.slog ++ deliveredAll w ops := by
  induction ops generalizing w with
  | nil => simp [deliveredAll]
  | cons op rest ih =>
    have hp := step_pres w op hi
    rw [List.foldl_cons, ih _ hp.1, deliveredAll]
    obtain ⟨added, hl⟩ := hp.2.log
    by_cases hs : op.submits = true
    · simp only [hs, if_true, deliveredBy]
      rw [hl, msgsOf_append, List.drop_left, List.append_assoc]
    · have hs' : op.submits = false := by simpa using hs
      rw [c02_only_submissions_deliver w op hs']
      simp [hs']

/-- **C02, whole histories**: for every configuration and every finite sequence of operations, the messages the
    application has been handed are, in order, exactly the deliveries of the client's data requests and frames,
    each made by the operation that submitted it. -/
theorem c02_messages_are_submissions (o : Opts) (ops : List Op) :
    msgsOf (run o ops).slog = deliveredAll (init o) ops := by
  have := foldl_messages (init o) (inv_init o) ops
  unfold run
  rw [this]
  simp [msgsOf, init]

/-- the two statements together on a concrete history: two messages in one body, a poll, an application send,
    a clock advance past the first ping, a third message — three deliveries, in that order -/
example :
    let m (s : String) : Msg := { kind := .text, data := s.toUTF8.toList }
    let body := (encodePayloadV4 [msgPkt (m "a"), msgPkt (m "b")]).data
    let ops := [Op.hsPolling 4 false none, .settle, .post 0 false true body false, .poll 0 [], .send 0 (m "x") true false none,
                .settle, .adv 30000, .post 0 false true (encodePayloadV4 [msgPkt (m "c")]).data false]
    msgsOf (run {} ops).slog = [(0, some (m "a")), (0, some (m "b")), (0, some (m "c"))] := by
  decide +kernel

end EIO.Ses
