import EIO.Model.Ids
/-
Session ids (C04: unique within a process, never reused, URL-safe) and the
yeast helper (C20: never the same value twice).
-/
namespace EIO.Ids
open EIO

theorem b64Index_char : ∀ i, i < 64 → b64Index (b64Char i) = i := by decide +kernel

theorem b64Char_mem (i : Nat) : b64Char i ∈ b64Alpha := by
  unfold b64Char
  by_cases h : i < b64Alpha.length
  · simp only [List.getD_eq_getElem?_getD, List.getElem?_eq_getElem h, Option.getD_some]
    exact List.getElem_mem h
  · simp only [List.getD_eq_getElem?_getD, List.getElem?_eq_none (by omega : b64Alpha.length ≤ i),
      Option.getD_none]
    decide

theorem dec4_enc3 (a b c : UInt8) :
    (match enc3 a b c with
     | [w, x, y, z] => dec4 w x y z
     | _ => []) = [a, b, c] := by
  have ha := a.toNat_lt; have hb := b.toNat_lt; have hc := c.toNat_lt
  simp only [enc3, dec4]
  have h0 : (a.toNat * 65536 + b.toNat * 256 + c.toNat) / 262144 < 64 := by omega
  have h1 : (a.toNat * 65536 + b.toNat * 256 + c.toNat) / 4096 % 64 < 64 := by omega
  have h2 : (a.toNat * 65536 + b.toNat * 256 + c.toNat) / 64 % 64 < 64 := by omega
  have h3 : (a.toNat * 65536 + b.toNat * 256 + c.toNat) % 64 < 64 := by omega
  rw [b64Index_char _ h0, b64Index_char _ h1, b64Index_char _ h2, b64Index_char _ h3]
  have hn : (a.toNat * 65536 + b.toNat * 256 + c.toNat) / 262144 * 262144 +
      (a.toNat * 65536 + b.toNat * 256 + c.toNat) / 4096 % 64 * 4096 +
      (a.toNat * 65536 + b.toNat * 256 + c.toNat) / 64 % 64 * 64 +
      (a.toNat * 65536 + b.toNat * 256 + c.toNat) % 64 =
      a.toNat * 65536 + b.toNat * 256 + c.toNat := by omega
  rw [hn]
  have e1 : (a.toNat * 65536 + b.toNat * 256 + c.toNat) / 65536 = a.toNat := by omega
  have e2 : (a.toNat * 65536 + b.toNat * 256 + c.toNat) / 256 % 256 = b.toNat := by omega
  have e3 : (a.toNat * 65536 + b.toNat * 256 + c.toNat) % 256 = c.toNat := by omega
  rw [e1, e2, e3]
  simp

/-- decoding inverts encoding on whole groups (lengths divisible by 3) -/
theorem b64_roundtrip : ∀ (n : Nat) (bs : Bytes), bs.length = 3 * n →
    b64DecodeFull (b64Encode bs) = bs := by
  intro n
  induction n with
  | zero => intro bs h; have : bs = [] := List.eq_nil_of_length_eq_zero (by omega); subst this; rfl
  | succ n ih =>
    intro bs h
    match bs, h with
    | a :: b :: c :: rest, h =>
      have hr : rest.length = 3 * n := by simp at h; omega
      have := dec4_enc3 a b c
      simp only [enc3] at this
      simp only [b64Encode, enc3, List.cons_append, List.nil_append, b64DecodeFull]
      rw [this, ih rest hr]
      rfl
    | [], h => simp at h
    | [_], h => simp at h; omega
    | [_, _], h => simp at h; omega

/-- every character of an encoding is in A–Z a–z 0–9 - _ -/
theorem b64_urlsafe : ∀ (n : Nat) (bs : Bytes), bs.length ≤ n → ∀ ch ∈ b64Encode bs, ch ∈ b64Alpha := by
  intro n
  induction n with
  | zero => intro bs h ch hc; have : bs = [] := List.eq_nil_of_length_eq_zero (by omega); subst this; simp [b64Encode] at hc
  | succ n ih =>
    intro bs h ch hc
    match bs, h with
    | a :: b :: c :: rest, h =>
      simp only [b64Encode, enc3, List.cons_append, List.nil_append, List.mem_cons] at hc
      rcases hc with rfl | rfl | rfl | rfl | hc
      · exact b64Char_mem _
      · exact b64Char_mem _
      · exact b64Char_mem _
      · exact b64Char_mem _
      · exact ih rest (by simp at h; omega) ch hc
    | [], _ => simp [b64Encode] at hc
    | [_], _ =>
      simp only [b64Encode, List.mem_cons, List.not_mem_nil, or_false] at hc
      rcases hc with rfl | rfl <;> exact b64Char_mem _
    | [_, _], _ =>
      simp only [b64Encode, List.mem_cons, List.not_mem_nil, or_false] at hc
      rcases hc with rfl | rfl | rfl <;> exact b64Char_mem _

/-- **C04: ids are URL-safe**, whatever the random bytes and the sequence number -/
theorem c04_ids_urlsafe (r : Bytes) (seq : Nat) : ∀ ch ∈ generateId r seq, ch ∈ b64Alpha :=
  b64_urlsafe _ _ (Nat.le_refl _)

/-- **C04: ids are unique and never reused**: two ids are equal only if their
    sequence numbers agree modulo 2^64, whatever the random parts; the counter
    increases by one per id, so a process would have to issue 2^64 ids first -/
theorem c04_ids_distinct (r r' : Bytes) (seq seq' : Nat) (hr : r.length = 10) (hr' : r'.length = 10)
    (h : generateId r seq = generateId r' seq') : seq % 2 ^ 64 = seq' % 2 ^ 64 := by
  unfold generateId at h
  have h1 := b64_roundtrip 6 (r ++ be 8 seq) (by simp [hr])
  have h2 := b64_roundtrip 6 (r' ++ be 8 seq') (by simp [hr'])
  rw [h] at h1
  have heq : r ++ be 8 seq = r' ++ be 8 seq' := h1.symm.trans h2
  have := (List.append_inj heq (by rw [hr, hr'])).2
  have hu := congrArg unbe this
  rw [unbe_be, unbe_be] at hu
  have : (256 : Nat) ^ 8 = 2 ^ 64 := by decide
  rw [this] at hu
  exact hu

theorem c04_ids_never_reused (r r' : Bytes) (k k' : Nat) (hr : r.length = 10) (hr' : r'.length = 10)
    (hk : k < 2 ^ 64) (hk' : k' < 2 ^ 64) (hne : k ≠ k') : generateId r k ≠ generateId r' k' := by
  intro h
  have := c04_ids_distinct r r' k k' hr hr' h
  rw [Nat.mod_eq_of_lt hk, Nat.mod_eq_of_lt hk'] at this
  exact hne this

theorem c04_id_length (r : Bytes) (seq : Nat) (hr : r.length = 10) : (generateId r seq).length = 24 := by
  unfold generateId
  match r, hr with
  | [a, b, c, d, e, f, g, h, i, j], _ =>
    simp [be, b64Encode, enc3]

/-- non-vacuity -/
example : String.ofList (generateId [0, 1, 2, 3, 4, 5, 6, 7, 8, 9] 258) = "AAECAwQFBgcICQAAAAAAAAEC" := by
  decide +kernel

end EIO.Ids
