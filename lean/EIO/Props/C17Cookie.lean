import EIO.Lemmas.World
/-
C17, cookie and header events (every model state): the transport's "headers" event as `Handshake` wires it.

  * a response to a request that names no session (the handshake) gets the cookie `io=<sid>; Path=/; HttpOnly`
    of the session that owns the transport, when a cookie is configured (`c17_cookie_on_handshake`);
  * a response to a request that names a session, or any response when no cookie is configured, gets none
    (`c17_no_cookie_otherwise`);
  * with header listeners registered, `initial_headers` is emitted for the handshake response only, right before
    `headers`, and `headers` for every response (`c17_header_events_handshake`, `c17_header_events_later`).
-/
namespace EIO.Ses
open EIO EIO.Codec

theorem c17_cookie_on_handshake (w : World) (ti r : Nat) (hr : r < w.reqs.size)
    (hs : (w.reqs.getD r default).hasSid = false) (hc : w.o.cookie = true) :
    ((emitHeaders w ti r).reqs.getD r default).cookie =
      some ("io=".toUTF8.toList ++ sidBytes (w.tr ti).owner ++ "; Path=/; HttpOnly".toUTF8.toList) := by
  unfold emitHeaders
  simp only [hs, hc, Bool.not_false, if_true]
  have h1 : ((w.setReq r fun q => { q with cookie := some ("io=".toUTF8.toList ++ sidBytes (w.tr ti).owner ++ "; Path=/; HttpOnly".toUTF8.toList) }).reqs.getD r default).cookie =
      some ("io=".toUTF8.toList ++ sidBytes (w.tr ti).owner ++ "; Path=/; HttpOnly".toUTF8.toList) := by
    rw [req_setReq]; simp [hr]
  repeat (first | exact h1 | split | (simp only [World.ev]))

theorem c17_no_cookie_otherwise (w : World) (ti r j : Nat)
    (h : (w.reqs.getD r default).hasSid = true ∨ w.o.cookie = false) :
    ((emitHeaders w ti r).reqs.getD j default).cookie = (w.reqs.getD j default).cookie := by
  unfold emitHeaders
  rcases h with h | h
  · simp only [h, Bool.not_true, Bool.false_eq_true, if_false]
    split <;> rfl
  · simp only [h, Bool.false_eq_true, if_false]
    repeat (first | rfl | split | (simp only [World.ev]))

@[simp] theorem o_setReq' (w : World) (i : Nat) (f : Req → Req) : (w.setReq i f).o = w.o := rfl
@[simp] theorem o_ev' (w : World) (s : String) : (w.ev s).o = w.o := rfl
@[simp] theorem evs_setReq' (w : World) (i : Nat) (f : Req → Req) : (w.setReq i f).evs = w.evs := rfl

/-- the handshake response: `initial_headers`, then `headers` -/
theorem c17_header_events_handshake (w : World) (ti r : Nat)
    (hs : (w.reqs.getD r default).hasSid = false) (hh : w.o.hdr = true) :
    (emitHeaders w ti r).evs = ((w.ev s!"srv:initial_headers:{r}").ev s!"srv:headers:{r}").evs := by
  unfold emitHeaders
  simp only [hs, Bool.not_false, if_true]
  by_cases hc : w.o.cookie = true
  · simp only [hc, if_true, o_setReq', o_ev', hh]
    rfl
  · have hc : w.o.cookie = false := by simpa using hc
    simp only [hc, Bool.false_eq_true, if_false, o_ev', hh, if_true]

/-- every later response: `headers` only -/
theorem c17_header_events_later (w : World) (ti r : Nat)
    (hs : (w.reqs.getD r default).hasSid = true) (hh : w.o.hdr = true) :
    (emitHeaders w ti r).evs = (w.ev s!"srv:headers:{r}").evs := by
  unfold emitHeaders
  simp only [hs, Bool.not_true, Bool.false_eq_true, if_false, hh, if_true]

/-- no listeners registered: no header event at all -/
theorem c17_no_header_events (w : World) (ti r : Nat) (hh : w.o.hdr = false) :
    (emitHeaders w ti r).evs = w.evs := by
  unfold emitHeaders
  by_cases hs : (w.reqs.getD r default).hasSid = true
  · simp only [hs, Bool.not_true, Bool.false_eq_true, if_false, hh]
  · have hs : (w.reqs.getD r default).hasSid = false := by simpa using hs
    simp only [hs, Bool.not_false, if_true]
    by_cases hc : w.o.cookie = true
    · simp only [hc, if_true, o_setReq', hh, Bool.false_eq_true, if_false, evs_setReq']
    · have hc : w.o.cookie = false := by simpa using hc
      simp only [hc, Bool.false_eq_true, if_false, hh]

end EIO.Ses
