import EIO.Model.Timer
/-
C19 — timers fire exactly once when due, never after cancellation, refresh
re-arms, an interval runs once per period until cancelled; cancellation returns
promptly, no callback starts after it returns and no goroutine is left behind.
Part A: every interleaving of clock, waiter goroutine and two concurrent Stop
callers. Part B: timing laws at quiescent points for every period and instant.
-/
namespace EIO.Timer
open EIO

/-! ### Part A: all interleavings -/

def allTh : List Th := [.clock, .waiterTick, .waiterStop1, .waiterStop2, .waiterRearm, .stop1, .stop2]

theorem allTh_complete (th : Th) : th ∈ allTh := by cases th <;> simp [allTh]

def expand (xs : List TS) : List TS :=
  (xs.flatMap fun x => allTh.filterMap (tstep x)).foldl (fun acc y => if acc.contains y then acc else acc ++ [y]) xs

def iterate : Nat → List TS → List TS
  | 0, xs => xs
  | n + 1, xs => iterate n (expand xs)

/-- the states reachable from a freshly started timer (computed; its closure
    under every step is checked by the kernel below) -/
def reach (interval : Bool) : List TS := iterate 12 [{ interval }]

def closedB (l : List TS) : Bool :=
  l.all fun x => allTh.all fun th => match tstep x th with
    | some x' => l.contains x'
    | none => true

theorem reach_closedB : closedB (reach true) = true ∧ closedB (reach false) = true := by
  decide +kernel

theorem reach_safeB : (reach true).all TS.Safe = true ∧ (reach false).all TS.Safe = true := by
  decide +kernel

theorem reach_init (i : Bool) : ({ interval := i } : TS) ∈ reach i := by
  cases i <;> decide +kernel

theorem reach_closed (i : Bool) (x x' : TS) (th : Th) (hx : x ∈ reach i) (hs : tstep x th = some x') :
    x' ∈ reach i := by
  have hc : closedB (reach i) = true := by cases i; exact reach_closedB.2; exact reach_closedB.1
  unfold closedB at hc
  have h1 := List.all_eq_true.mp hc x hx
  have h2 := List.all_eq_true.mp h1 th (allTh_complete th)
  rw [hs] at h2
  simpa using h2

theorem run_in_reach (i : Bool) (sched : List Th) : ∀ x, x ∈ reach i → x.run sched ∈ reach i := by
  induction sched with
  | nil => intro x hx; exact hx
  | cons th rest ih =>
    intro x hx
    unfold TS.run
    cases hs : tstep x th with
    | none => exact ih x hx
    | some x' => exact ih x' (reach_closed i x x' th hx hs)

/-- **C19, every schedule.** For a timeout and for an interval, under every
    interleaving (of any length) of the clock, the waiter goroutine and two
    concurrent cancellations: no callback starts after a `Stop` has returned; a
    `Stop` waiting on `stopCh` always has a live waiter to take its signal, so it
    returns; and once a `Stop` has returned the runtime timer is not armed and the
    waiter goroutine has exited or is about to. -/
theorem c19_cancel_all_interleavings (interval : Bool) (sched : List Th) :
    (({ interval } : TS).run sched).Safe = true := by
  have hin := run_in_reach interval sched _ (reach_init interval)
  have hs : (reach interval).all TS.Safe = true := by
    cases interval; exact reach_safeB.2; exact reach_safeB.1
  exact List.all_eq_true.mp hs _ hin

/-- the defect this guards against (the code before commit 15f4c8d): without the
    `stopped` check under `mu`, an interval that receives a tick, is cancelled,
    and then re-arms keeps ticking although `Stop` has returned -/
def tstepOld (x : TS) : Th → Option TS
  | .waiterRearm =>
    if x.w = .gotTick then
      some { x with rt := .armed, w := .selecting, lateCallback := x.lateCallback || x.someReturned }
    else none
  | th => tstep x th

theorem c19_interval_cancel_window_counterexample :
    let run := fun (x : TS) (ths : List Th) => ths.foldl (fun x th => (tstepOld x th).getD x) x
    let x := run { interval := true } [.clock, .waiterTick, .stop1, .waiterRearm]
    x.s1 = .returned ∧ x.rt = .armed ∧ x.w = .selecting ∧ x.lateCallback = true := by
  decide

/-! ### Part B: timing at quiescent points -/

/-- the bookkeeping invariant: a waiter goroutine exists exactly while the
    runtime timer is armed -/
def Tm.Inv (t : Tm) : Prop := t.waiters = (if t.due.isSome then 1 else 0) ∧ (t.stopped → t.due = none)

theorem Tm.start_inv (i : Bool) (p now : Nat) : (Tm.start i p now).Inv := by
  simp [Tm.start, Tm.Inv]

theorem Tm.stop_inv (t : Tm) (h : t.Inv) : t.stop.Inv ∧ t.stop.due = none ∧ t.stop.waiters = 0 := by
  unfold Tm.stop Tm.Inv at *
  cases hd : t.due with
  | none => simp_all
  | some d => simp_all

theorem Tm.refresh_inv (t : Tm) (now : Nat) (h : t.Inv) :
    (t.refresh now).Inv ∧ (t.refresh now).due = some (now + t.period) ∧ (t.refresh now).waiters = 1 := by
  unfold Tm.refresh Tm.Inv at *
  cases hd : t.due with
  | none => simp [hd] at h ⊢; omega
  | some d => simp [hd] at h ⊢; exact h.1

theorem Tm.fire_inv (t : Tm) (d : Nat) (h : t.Inv) (hd : t.due = some d) : (t.fire d).Inv := by
  unfold Tm.fire Tm.Inv at *
  simp [hd] at h
  have hns : t.stopped = false := h.2
  by_cases hi : t.interval = true
  · simp [hi, hns, h.1]
  · simp [hi, h.1, hns]

theorem Tm.advance_inv (fuel : Nat) : ∀ (t : Tm) (target : Nat), t.Inv → (Tm.advance fuel t target).1.Inv := by
  induction fuel with
  | zero => intro t target h; exact h
  | succ fuel ih =>
    intro t target h
    unfold Tm.advance
    cases hd : t.due with
    | none => exact h
    | some d =>
      simp only
      split
      · exact ih _ _ (Tm.fire_inv t d h hd)
      · exact h

/-- **a timeout's callback runs exactly once, at its due time**: started at
    `t0`, left alone until any `target ≥ t0 + period`: one callback, stamped
    `t0 + period`; afterwards nothing is armed and no goroutine remains; letting
    more time pass starts nothing -/
theorem c19_timeout_once_when_due (period t0 target later fuel fuel' : Nat) (hf : fuel ≥ 2)
    (ht : t0 + period ≤ target) :
    Tm.advance fuel (Tm.start false period t0) target =
      ({ interval := false, period, due := none, waiters := 0 }, [t0 + period]) ∧
    (Tm.advance fuel' { interval := false, period, due := none, waiters := 0 } later).2 = [] := by
  constructor
  · match fuel, hf with
    | f + 2, _ =>
      simp [Tm.advance, Tm.start, Tm.fire, ht]
  · cases fuel' <;> simp [Tm.advance]

/-- not before: until its due instant nothing happens -/
theorem c19_timeout_not_early (i : Bool) (period t0 target fuel : Nat) (ht : target < t0 + period) :
    Tm.advance fuel (Tm.start i period t0) target = (Tm.start i period t0, []) := by
  cases fuel with
  | zero => rfl
  | succ f =>
    have : ¬ (t0 + period ≤ target) := by omega
    simp [Tm.advance, Tm.start, this]

/-- **cancelled before it is due, it never runs**, and nothing is left behind -/
theorem c19_cancel_before_due_never_runs (i : Bool) (period t0 later fuel : Nat) :
    let t := (Tm.start i period t0).stop
    t.due = none ∧ t.waiters = 0 ∧ (Tm.advance fuel t later).2 = [] := by
  simp only [Tm.start, Tm.stop]
  refine ⟨trivial, trivial, ?_⟩
  cases fuel <;> simp [Tm.advance]

/-- **refresh re-arms for one full period**, whether the timer is still pending,
    has fired, or was cancelled: the next callback is stamped `now + period` -/
theorem c19_refresh_rearms (t : Tm) (now target fuel : Nat) (h : t.Inv) (hf : fuel ≥ 1)
    (ht : now + t.period ≤ target) :
    (t.refresh now).due = some (now + t.period) ∧
    (Tm.advance fuel (t.refresh now) target).2.head? = some (now + t.period) := by
  obtain ⟨_, hd, hw⟩ := Tm.refresh_inv t now h
  refine ⟨hd, ?_⟩
  match fuel, hf with
  | f + 1, _ =>
    unfold Tm.advance
    simp [hd, hw, ht]

/-- **an interval runs once per period**: the `n` first callbacks are stamped
    `t0 + period, t0 + 2·period, …` -/
theorem c19_interval_each_period (period : Nat) (hp : 0 < period) (n : Nat) :
    ∀ (t0 : Nat), Tm.advance (n + 1) (Tm.start true period t0) (t0 + n * period) =
      ({ interval := true, period, due := some (t0 + (n + 1) * period), waiters := 1 },
       (List.range n).map fun k => t0 + (k + 1) * period) := by
  induction n with
  | zero =>
    intro t0
    have : ¬ (t0 + period ≤ t0) := by omega
    simp [Tm.advance, Tm.start, this]
  | succ n ih =>
    intro t0
    unfold Tm.advance
    have hle : t0 + period ≤ t0 + (n + 1) * period := by
      have : period ≤ (n + 1) * period := Nat.le_mul_of_pos_left _ (by omega)
      omega
    simp only [Tm.start, hle, true_and, Nat.lt_irrefl, Nat.zero_lt_one, if_true, Tm.fire]
    have hih := ih (t0 + period)
    simp only [Tm.start] at hih
    have e1 : t0 + period + n * period = t0 + (n + 1) * period := by
      rw [Nat.add_mul]; omega
    rw [e1] at hih
    simp only [Bool.false_eq_true, if_false]
    rw [hih]
    have e2 : t0 + period + (n + 1) * period = t0 + (n + 1 + 1) * period := by
      rw [Nat.add_mul (n + 1) 1]; omega
    simp only [e2, Prod.mk.injEq, true_and]
    rw [List.range_succ_eq_map, List.map_cons, List.map_map]
    simp only [Nat.zero_add, Nat.one_mul, List.cons.injEq, true_and]
    apply List.map_congr_left
    intro k _
    simp only [Function.comp]
    rw [Nat.add_mul (k + 1) 1]; omega

/-- non-vacuity / concrete instances -/
example : (Tm.advance 10 (Tm.start true 10 0) 35).2 = [10, 20, 30] := by decide
example : (Tm.advance 10 ((Tm.start true 10 0).stop) 35).2 = [] := by decide

end EIO.Timer
