import EIO.Lemmas.SyncMapSteps
/-!
C20, `types.Map` (the port of sync.Map): executed by one goroutine at a time,
every method behaves like the same method of an ordinary map, for every
history. `St.abs` is the ordinary map a state stands for; each theorem says
that a method returns what the ordinary map returns, leaves the state standing
for the updated ordinary map, and keeps the invariant `WF` (which contains
"no assignment into the nil dirty map", the one Go panic the code can reach).
`reach_wf` lifts this to every sequence of calls.
-/
namespace EIO.SMap

theorem load_refines {s : St} (h : WF s) (k : Int) :
    WF (s.load k).1 ∧ (s.load k).2 = s.abs k ∧ ∀ k', (s.load k).1.abs k' = s.abs k' := by
  unfold St.load
  cases hr : lk s.read k with
  | some e => simp only; exact ⟨h, by simp [St.abs, hr], by intros; first | rfl | trivial⟩
  | none =>
    simp only
    by_cases ha : s.amended = true
    · simp only [ha, if_true]
      refine ⟨wf_missLocked h, ?_, abs_missLocked h (h.dirty_of_amended ha)⟩
      simp only [St.abs, hr, ha, if_true]
      cases lk s.dl k with
      | none => rfl
      | some e => simp [eload_missLocked]
    · have ha' : s.amended = false := by simpa using ha
      simp only [ha', Bool.false_eq_true, if_false]
      exact ⟨h, by simp [St.abs, hr, ha'], by intros; first | rfl | trivial⟩

/-- the ordinary map after `m[k] = v` -/
def upd (f : Int → Option Int) (k : Int) (x : Option Int) : Int → Option Int :=
  fun k' => if k' = k then x else f k'

theorem ent_of_read {s : St} {k : Int} {e : Nat} (hr : lk s.read k = some e) : s.ent k = some e := by
  simp [St.ent, hr]

theorem ent_of_dirty {s : St} {k : Int} {e : Nat} (hr : lk s.read k = none) (ha : s.amended = true)
    (hd : lk s.dl k = some e) : s.ent k = some e := by
  simp [St.ent, hr, ha, hd]

theorem WF.amended_of_dirty {s : St} (h : WF s) {k : Int} {e : Nat} (hr : lk s.read k = none)
    (hd : lk s.dl k = some e) : s.amended = true := by
  cases ha : s.amended with
  | true => rfl
  | false => have := h.sub ha k hr; rw [hd] at this; cases this

theorem abs_of_ent {s : St} {k : Int} {e : Nat} (he : s.ent k = some e) : s.abs k = s.eload e := by
  rw [abs_eq, he]; rfl

theorem abs_none_of_miss {s : St} {k : Int} (hr : lk s.read k = none) (hd : lk s.dl k = none) : s.abs k = none := by
  unfold St.abs; rw [hr]; simp only; split
  · rw [hd]; rfl
  · rfl

/-- the slow path of `Swap`, `LoadOrStore` for an expunged read entry, up to the write -/
theorem swap_refines {s : St} (h : WF s) (k v : Int) :
    WF (s.swap k v).1 ∧ (s.swap k v).2 = s.abs k ∧ ∀ k', (s.swap k v).1.abs k' = upd s.abs k (some v) k' := by
  unfold St.swap
  cases hr : lk s.read k with
  | some e =>
    simp only
    have he := ent_of_read hr
    by_cases hx : s.slot e = .expunged
    · simp only [hx, if_true, hr]
      have ue : (s.setSlot e .nil).dirtyPut k e = s.unexp k e := rfl
      rw [ue]
      obtain ⟨w, ab, sl, rd, _⟩ := wf_unexp h hr hx
      have he' : (s.unexp k e).ent k = some e := ent_of_read (rd ▸ hr)
      refine ⟨wf_setSlot w (by rw [sl]; simp) (by simp), ?_, ?_⟩
      · rw [abs_of_ent he]; simp [St.eload, sl, hx, Slot.load]
      · intro k'; rw [abs_setSlot w he']; unfold upd; split
        · rfl
        · exact ab k'
    · simp only [hx, if_false]
      refine ⟨wf_setSlot h hx (by simp), (abs_of_ent he).symm, ?_⟩
      intro k'; rw [abs_setSlot h he]; rfl
  | none =>
    simp only [hr]
    cases hd : lk s.dl k with
    | some e =>
      simp only
      have ha := h.amended_of_dirty hr hd
      have he := ent_of_dirty hr ha hd
      refine ⟨wf_setSlot h (h.dlive k e hd) (by simp), (abs_of_ent he).symm, ?_⟩
      intro k'; rw [abs_setSlot h he]; rfl
    | none =>
      simp only
      obtain ⟨w, ab⟩ := wf_addNew h v hr hd
      exact ⟨w, (abs_none_of_miss hr hd).symm, ab⟩

/-- `Store` is `Swap` without its result -/
theorem store_refines {s : St} (h : WF s) (k v : Int) :
    WF (s.swap k v).1 ∧ ∀ k', (s.swap k v).1.abs k' = upd s.abs k (some v) k' :=
  ⟨(swap_refines h k v).1, (swap_refines h k v).2.2⟩

theorem tryLoadOrStore_live {s : St} (h : WF s) {k : Int} {e : Nat} (he : s.ent k = some e)
    (hx : s.slot e ≠ .expunged) (v : Int) :
    WF (s.tryLoadOrStore e v).1 ∧
    (s.tryLoadOrStore e v).2 = some (match s.abs k with | some x => (x, true) | none => (v, false)) ∧
    (∀ k', (s.tryLoadOrStore e v).1.abs k' =
      match s.abs k with | some _ => s.abs k' | none => upd s.abs k (some v) k') := by
  have ha := abs_of_ent he
  unfold St.tryLoadOrStore
  cases hs : s.slot e with
  | expunged => exact absurd hs hx
  | val x =>
    have : s.abs k = some x := by rw [ha]; simp [St.eload, hs, Slot.load]
    simp only [this]; exact ⟨h, by first | rfl | trivial, by intros; first | rfl | trivial⟩
  | nil =>
    have : s.abs k = none := by rw [ha]; simp [St.eload, hs, Slot.load]
    simp only [this]
    refine ⟨wf_setSlot h hx (by simp), by first | rfl | trivial, ?_⟩
    intro k'; rw [abs_setSlot h he]; rfl

theorem loadOrStore_refines {s : St} (h : WF s) (k v : Int) :
    WF (s.loadOrStore k v).1 ∧
    (s.loadOrStore k v).2 = (match s.abs k with | some x => (x, true) | none => (v, false)) ∧
    (∀ k', (s.loadOrStore k v).1.abs k' =
      match s.abs k with | some _ => s.abs k' | none => upd s.abs k (some v) k') := by
  unfold St.loadOrStore
  cases hr : lk s.read k with
  | some e =>
    simp only
    have he := ent_of_read hr
    by_cases hx : s.slot e = .expunged
    · have e1 : s.tryLoadOrStore e v = (s, none) := by unfold St.tryLoadOrStore; simp [hx]
      simp only [e1, hr, hx, if_true]
      have ue : (s.setSlot e .nil).dirtyPut k e = s.unexp k e := rfl
      rw [ue]
      obtain ⟨w, ab, sl, rd, _⟩ := wf_unexp h hr hx
      have he' : (s.unexp k e).ent k = some e := ent_of_read (rd ▸ hr)
      have c := tryLoadOrStore_live w he' (by rw [sl]; simp) v
      have hab : (s.unexp k e).abs k = s.abs k := ab k
      rw [hab] at c
      refine ⟨c.1, ?_, ?_⟩
      · show ((s.unexp k e).tryLoadOrStore e v).2.getD (0, false) = _
        rw [c.2.1]; rfl
      · intro k'; rw [show ((s.unexp k e).tryLoadOrStore e v).1.abs k' = _ from c.2.2 k']
        cases s.abs k with
        | some _ => exact ab k'
        | none => simp only [upd]; split; rfl; exact ab k'
    · have c := tryLoadOrStore_live h he hx v
      cases ht : s.tryLoadOrStore e v with
      | mk s' r =>
        rw [ht] at c
        cases r with
        | none => simp at c
        | some r =>
          simp only
          have := c.2.1; simp only [Option.some.injEq] at this
          exact ⟨c.1, this, c.2.2⟩
  | none =>
    simp only [hr]
    cases hd : lk s.dl k with
    | some e =>
      simp only
      have ha := h.amended_of_dirty hr hd
      have he := ent_of_dirty hr ha hd
      have c := tryLoadOrStore_live h he (h.dlive k e hd) v
      have hdn : (s.tryLoadOrStore e v).1.dirty ≠ none := by
        unfold St.tryLoadOrStore; split <;> exact h.dirty_of_amended ha
      refine ⟨wf_missLocked c.1, ?_, ?_⟩
      · rw [c.2.1]; rfl
      · intro k'; rw [abs_missLocked c.1 hdn]; exact c.2.2 k'
    | none =>
      simp only
      obtain ⟨w, ab⟩ := wf_addNew h v hr hd
      have : s.abs k = none := abs_none_of_miss hr hd
      simp only [this]
      exact ⟨w, by first | rfl | trivial, ab⟩

theorem edelete_ent {s : St} (h : WF s) {k : Int} {e : Nat} (he : s.ent k = some e)
    (_hx : True) :
    WF (s.edelete e).1 ∧ (s.edelete e).2 = s.abs k ∧ ∀ k', (s.edelete e).1.abs k' = upd s.abs k none k' := by
  have ha := abs_of_ent he
  unfold St.edelete
  cases hs : s.slot e with
  | val x =>
    simp only
    refine ⟨wf_setSlot h (by rw [hs]; simp) (by simp), by rw [ha]; simp [St.eload, hs, Slot.load], ?_⟩
    intro k'; rw [abs_setSlot h he]; rfl
  | nil =>
    simp only
    have : s.abs k = none := by rw [ha]; simp [St.eload, hs, Slot.load]
    refine ⟨h, this.symm, ?_⟩
    intro k'; unfold upd; split
    · rename_i hk; subst hk; exact this
    · rfl
  | expunged =>
    simp only
    have : s.abs k = none := by rw [ha]; simp [St.eload, hs, Slot.load]
    refine ⟨h, this.symm, ?_⟩
    intro k'; unfold upd; split
    · rename_i hk; subst hk; exact this
    · rfl

theorem loadAndDelete_refines {s : St} (h : WF s) (k : Int) :
    WF (s.loadAndDelete k).1 ∧ (s.loadAndDelete k).2 = s.abs k ∧
      ∀ k', (s.loadAndDelete k).1.abs k' = upd s.abs k none k' := by
  unfold St.loadAndDelete
  cases hr : lk s.read k with
  | some e => simp only; exact edelete_ent h (ent_of_read hr) trivial
  | none =>
    simp only
    by_cases ha : s.amended = true
    · rw [if_pos ha]
      have de : ({ s with dirty := s.dirty.map (del · k) } : St) = s.dirtyDel k := rfl
      rw [de]
      obtain ⟨w, ab, dn, nh, sl⟩ := wf_dirtyDel h hr ha
      have w' := wf_missLocked w
      have ab' : ∀ k', (s.dirtyDel k).missLocked.abs k' = upd s.abs k none k' := by
        intro k'; rw [abs_missLocked w dn]; exact ab k'
      cases hd : lk s.dl k with
      | none =>
        simp only
        refine ⟨w', ?_, ab'⟩
        simp [St.abs, hr, ha, hd]
      | some e =>
        simp only
        have nh' : ¬ (s.dirtyDel k).missLocked.has e := fun x => nh e hd (has_missLocked x)
        have hs : (s.dirtyDel k).missLocked.slot e = s.slot e := by rw [slot_missLocked, sl]
        have habs : s.abs k = s.eload e := abs_of_ent (ent_of_dirty hr ha hd)
        unfold St.edelete
        rw [hs]
        cases hse : s.slot e with
        | val x =>
          simp only
          refine ⟨wf_setSlot w' (by rw [hs, hse]; simp) (by simp), ?_, ?_⟩
          · rw [habs]; simp [St.eload, hse, Slot.load]
          · intro k'; rw [abs_setSlot_nohas nh']; exact ab' k'
        | nil => simp only; exact ⟨w', by rw [habs]; simp [St.eload, hse, Slot.load], ab'⟩
        | expunged => simp only; exact ⟨w', by rw [habs]; simp [St.eload, hse, Slot.load], ab'⟩
    · have ha' : s.amended = false := by simpa using ha
      simp only [ha', Bool.false_eq_true, if_false]
      have : s.abs k = none := by simp [St.abs, hr, ha']
      refine ⟨h, this.symm, ?_⟩
      intro k'; unfold upd; split
      · rename_i hk; subst hk; exact this
      · rfl

theorem tryCas_ent {s : St} (h : WF s) {k : Int} {e : Nat} (he : s.ent k = some e) (old new : Int) :
    WF (s.tryCas e old new).1 ∧ (s.tryCas e old new).2 = decide (s.abs k = some old) ∧
      ∀ k', (s.tryCas e old new).1.abs k' =
        if s.abs k = some old then upd s.abs k (some new) k' else s.abs k' := by
  have ha := abs_of_ent he
  unfold St.tryCas
  cases hs : s.slot e with
  | val x =>
    have hv : s.abs k = some x := by rw [ha]; simp [St.eload, hs, Slot.load]
    simp only [hv, Option.some.injEq]
    by_cases hxo : x = old
    · simp only [hxo, if_true]
      refine ⟨wf_setSlot h (by rw [hs]; simp) (by simp), by simp, ?_⟩
      intro k'; rw [abs_setSlot h he]; rfl
    · simp only [hxo, if_false]; exact ⟨h, by simp [hxo], by intros; first | rfl | trivial⟩
  | nil =>
    have hv : s.abs k = none := by rw [ha]; simp [St.eload, hs, Slot.load]
    simp only [hv]; exact ⟨h, by simp, by intro k'; simp⟩
  | expunged =>
    have hv : s.abs k = none := by rw [ha]; simp [St.eload, hs, Slot.load]
    simp only [hv]; exact ⟨h, by simp, by intro k'; simp⟩

theorem cas_refines {s : St} (h : WF s) (k old new : Int) :
    WF (s.cas k old new).1 ∧ (s.cas k old new).2 = decide (s.abs k = some old) ∧
      ∀ k', (s.cas k old new).1.abs k' =
        if s.abs k = some old then upd s.abs k (some new) k' else s.abs k' := by
  unfold St.cas
  cases hr : lk s.read k with
  | some e => simp only; exact tryCas_ent h (ent_of_read hr) old new
  | none =>
    simp only
    by_cases ha : s.amended = true
    · simp only [ha, not_true_eq_false, if_false]
      cases hd : lk s.dl k with
      | some e =>
        simp only
        have c := tryCas_ent h (ent_of_dirty hr ha hd) old new
        have hdn : (s.tryCas e old new).1.dirty ≠ none := by
          unfold St.tryCas; split
          · split <;> exact h.dirty_of_amended ha
          · exact h.dirty_of_amended ha
        refine ⟨wf_missLocked c.1, c.2.1, ?_⟩
        intro k'; rw [abs_missLocked c.1 hdn]; exact c.2.2 k'
      | none =>
        simp only
        have : s.abs k = none := abs_none_of_miss hr hd
        simp only [this]; exact ⟨h, by simp, by intro k'; simp⟩
    · have ha' : s.amended = false := by simpa using ha
      simp only [ha', Bool.false_eq_true, not_false_eq_true, if_true]
      have : s.abs k = none := by simp [St.abs, hr, ha']
      simp only [this]; exact ⟨h, by simp, by intro k'; simp⟩

theorem cadFin_ent {s : St} (h : WF s) {k : Int} {e : Nat} (he : s.ent k = some e) (old : Int) :
    WF (s.cadFin e old).1 ∧ (s.cadFin e old).2 = decide (s.abs k = some old) ∧
      ∀ k', (s.cadFin e old).1.abs k' = if s.abs k = some old then upd s.abs k none k' else s.abs k' := by
  have ha := abs_of_ent he
  unfold St.cadFin
  cases hs : s.slot e with
  | val x =>
    have hv : s.abs k = some x := by rw [ha]; simp [St.eload, hs, Slot.load]
    simp only [hv, Option.some.injEq]
    by_cases hxo : x = old
    · simp only [hxo, if_true]
      refine ⟨wf_setSlot h (by rw [hs]; simp) (by simp), by simp, ?_⟩
      intro k'; rw [abs_setSlot h he]; rfl
    · simp only [hxo, if_false]; exact ⟨h, by simp [hxo], by intros; first | rfl | trivial⟩
  | nil =>
    have hv : s.abs k = none := by rw [ha]; simp [St.eload, hs, Slot.load]
    simp only [hv]; exact ⟨h, by simp, by intro k'; simp⟩
  | expunged =>
    have hv : s.abs k = none := by rw [ha]; simp [St.eload, hs, Slot.load]
    simp only [hv]; exact ⟨h, by simp, by intro k'; simp⟩

theorem cad_refines {s : St} (h : WF s) (k old : Int) :
    WF (s.cad k old).1 ∧ (s.cad k old).2 = decide (s.abs k = some old) ∧
      ∀ k', (s.cad k old).1.abs k' = if s.abs k = some old then upd s.abs k none k' else s.abs k' := by
  unfold St.cad
  cases hr : lk s.read k with
  | some e => simp only; exact cadFin_ent h (ent_of_read hr) old
  | none =>
    simp only
    by_cases ha : s.amended = true
    · simp only [ha, if_true]
      have hdn := h.dirty_of_amended ha
      have w := wf_missLocked h
      have hab : ∀ k', s.missLocked.abs k' = s.abs k' := abs_missLocked h hdn
      cases hd : lk s.dl k with
      | some e =>
        simp only
        have he : s.missLocked.ent k = some e := by rw [ent_missLocked ha hr]; exact hd
        have c := cadFin_ent w he old
        have hf : upd s.missLocked.abs k none = upd s.abs k none := by
          funext k'; simp only [upd, hab]
        simp only [hab, hf] at c
        exact c
      | none =>
        simp only
        have : s.abs k = none := abs_none_of_miss hr hd
        simp only [this]; exact ⟨w, by simp, by intro k'; simp [hab]⟩
    · have ha' : s.amended = false := by simpa using ha
      simp only [ha', Bool.false_eq_true, if_false]
      have : s.abs k = none := by simp [St.abs, hr, ha']
      simp only [this]; exact ⟨h, by simp, by intro k'; simp⟩

theorem rangePromote_refines {s : St} (h : WF s) :
    WF s.rangePromote ∧ s.rangePromote.amended = false ∧ ∀ k', s.rangePromote.abs k' = s.abs k' := by
  unfold St.rangePromote
  by_cases ha : s.amended = true
  · simp only [ha, if_true]
    exact ⟨wf_prom h, by first | rfl | trivial, abs_prom h (h.dirty_of_amended ha)⟩
  · have ha' : s.amended = false := by simpa using ha
    simp only [ha', Bool.false_eq_true, if_false]
    exact ⟨h, by first | exact ha' | trivial, by intros; first | rfl | trivial⟩

/-- `Range` (hence `Len`, `Keys`, `Values`) visits exactly the pairs of the ordinary map, each key once -/
theorem range_refines {s : St} (h : WF s) :
    WF (s.range).1 ∧ (∀ k', (s.range).1.abs k' = s.abs k') ∧
      (∀ k v, (k, v) ∈ (s.range).2 ↔ s.abs k = some v) ∧ ((s.range).2.map Prod.fst).Nodup := by
  obtain ⟨w, na, ab⟩ := rangePromote_refines h
  unfold St.range
  simp only
  generalize s.rangePromote = t at w na ab
  refine ⟨w, ab, ?_, ?_⟩
  · intro k v
    rw [← ab k]
    simp only [List.mem_filterMap, Option.map_eq_some_iff]
    constructor
    · rintro ⟨⟨k0, e⟩, hm, v0, hv, heq⟩
      simp only [Prod.mk.injEq] at heq
      obtain ⟨rfl, rfl⟩ := heq
      have := nd_mem_lk w.rnd hm
      simp [St.abs, this, hv]
    · intro hv
      unfold St.abs at hv
      cases hr : lk t.read k with
      | some e =>
        rw [hr] at hv; simp only at hv
        exact ⟨(k, e), lk_some_mem hr, v, hv, rfl⟩
      | none => rw [hr] at hv; simp [na] at hv
  · have : ∀ l : AL, ND l →
        ((l.filterMap fun p => (t.eload p.2).map fun v => (p.1, v)).map Prod.fst).Nodup := by
      intro l hl
      have hsub : List.Sublist
          ((l.filterMap fun p => (t.eload p.2).map fun v => (p.1, v)).map Prod.fst) (l.map Prod.fst) := by
        induction l with
        | nil => simp
        | cons p l ih =>
          have hl' : ND l := by unfold ND at hl ⊢; simp at hl; exact hl.2
          simp only [List.filterMap_cons, List.map_cons]
          cases t.eload p.2 with
          | none => simp only [Option.map_none]; exact List.Sublist.cons _ (ih hl')
          | some v => simp only [Option.map_some, List.map_cons]; exact List.Sublist.cons_cons _ (ih hl')
      exact List.Nodup.sublist hsub hl
    exact this t.read w.rnd

theorem clear_refines {s : St} (h : WF s) : WF s.clear ∧ ∀ k', s.clear.abs k' = none := by
  unfold St.clear
  split
  · rename_i hc
    refine ⟨h, ?_⟩
    intro k'
    have hr : s.read = [] := List.eq_nil_of_length_eq_zero hc.1
    have ha : s.amended = false := by simpa using hc.2
    simp [St.abs, hr, ha]
  · refine ⟨?_, ?_⟩
    · constructor
      · exact h.nofault
      · simp [ND]
      · cases hd : s.dirty <;> simp [St.dl, hd, ND]
      · intro k e hh; cases hd : s.dirty <;> simp [St.dl, hd] at hh
      · intro k k' e hh; cases hd : s.dirty <;> simp [St.dl, hd] at hh
      · intro _; exact ⟨rfl, by intro k e hh; simp at hh⟩
      · intro _ k e hh; simp at hh
      · intro _ k _; cases hd : s.dirty <;> simp [St.dl, hd]
      · intro k e hh; cases hd : s.dirty <;> simp [St.dl, hd] at hh
    · intro k'; simp [St.abs]

/-! ## every history -/

/-- the ordinary map after a call -/
def specNext (f : Int → Option Int) : Op → (Int → Option Int)
  | .load _ => f
  | .store k v => upd f k (some v)
  | .loadOrStore k v => match f k with | some _ => f | none => upd f k (some v)
  | .loadAndDelete k => upd f k none
  | .delete k => upd f k none
  | .swap k v => upd f k (some v)
  | .cas k o n => if f k = some o then upd f k (some n) else f
  | .cad k o => if f k = some o then upd f k none else f
  | .range => f
  | .clear => fun _ => none

/-- the result an ordinary map `f` gives to a call (for `Range`: the visited pairs are
    exactly the pairs of `f`, each key once; the order is the map's own business) -/
def agrees (f : Int → Option Int) : Op → Res → Prop
  | .load k, .val o => o = f k
  | .store _ _, .unit => True
  | .loadOrStore k v, .pair x l => (x, l) = (match f k with | some y => (y, true) | none => (v, false))
  | .loadAndDelete k, .val o => o = f k
  | .delete _, .unit => True
  | .swap k _, .val o => o = f k
  | .cas k o _, .flag b => b = decide (f k = some o)
  | .cad k o, .flag b => b = decide (f k = some o)
  | .range, .pairs l => (∀ k v, (k, v) ∈ l ↔ f k = some v) ∧ (l.map Prod.fst).Nodup
  | .clear, .unit => True
  | _, _ => False

theorem step_refines {s : St} (h : WF s) (op : Op) :
    WF (s.step op).1 ∧ agrees s.abs op (s.step op).2 ∧ (s.step op).1.abs = specNext s.abs op := by
  cases op with
  | load k => obtain ⟨a, b, c⟩ := load_refines h k; exact ⟨a, b, funext c⟩
  | store k v => obtain ⟨a, c⟩ := store_refines h k v; exact ⟨a, trivial, funext c⟩
  | loadOrStore k v =>
    obtain ⟨a, b, c⟩ := loadOrStore_refines h k v
    refine ⟨a, b, funext fun k' => ?_⟩
    rw [show (s.step (.loadOrStore k v)).1.abs k' = _ from c k']
    simp only [specNext]; cases s.abs k <;> rfl
  | loadAndDelete k => obtain ⟨a, b, c⟩ := loadAndDelete_refines h k; exact ⟨a, b, funext c⟩
  | delete k => obtain ⟨a, _, c⟩ := loadAndDelete_refines h k; exact ⟨a, trivial, funext c⟩
  | swap k v => obtain ⟨a, b, c⟩ := swap_refines h k v; exact ⟨a, b, funext c⟩
  | cas k o n =>
    obtain ⟨a, b, c⟩ := cas_refines h k o n
    refine ⟨a, b, funext fun k' => ?_⟩
    rw [show (s.step (.cas k o n)).1.abs k' = _ from c k']
    simp only [specNext]; split <;> rfl
  | cad k o =>
    obtain ⟨a, b, c⟩ := cad_refines h k o
    refine ⟨a, b, funext fun k' => ?_⟩
    rw [show (s.step (.cad k o)).1.abs k' = _ from c k']
    simp only [specNext]; split <;> rfl
  | range => obtain ⟨a, b, c, d⟩ := range_refines h; exact ⟨a, ⟨c, d⟩, funext b⟩
  | clear => obtain ⟨a, b⟩ := clear_refines h; exact ⟨a, trivial, funext b⟩

/-- every call of a history got the answer of the ordinary map -/
def Agree : (Int → Option Int) → List (Op × Res) → Prop
  | _, [] => True
  | f, (op, r) :: rest => agrees f op r ∧ Agree (specNext f op) rest

theorem trace_refines {s : St} (h : WF s) (ops : List Op) :
    Agree s.abs (s.trace ops) ∧ WF (s.run ops) := by
  induction ops generalizing s with
  | nil => exact ⟨trivial, h⟩
  | cons op rest ih =>
    obtain ⟨a, b, c⟩ := step_refines h op
    have := ih a
    rw [c] at this
    exact ⟨⟨b, this.1⟩, this.2⟩

/-- **C20, Map, one goroutine at a time**: starting from the zero Map, whatever methods are
    called in whatever order with whatever arguments, every call returns what an ordinary map
    returns, and no call assigns into the nil dirty map (the panic the code could reach). -/
theorem c20_map_sequential (ops : List Op) :
    Agree (fun _ => none) (({} : St).trace ops) ∧ (({} : St).run ops).fault = false := by
  have h := trace_refines wf_init ops
  have e : ({} : St).abs = fun _ => none := by funext k; rfl
  rw [e] at h
  exact ⟨h.1, h.2.nofault⟩

/-- the internal contract of the code's comments, in every reachable state -/
theorem c20_map_invariant (ops : List Op) : WF (({} : St).run ops) := (trace_refines wf_init ops).2

/-- the hypotheses are met by a history that goes through promotion, expunging and unexpunging -/
example :
    let s := ({} : St).run [.store 1 1, .load 1, .store 2 2, .delete 1, .range, .store 3 3, .store 1 5, .load 9]
    s.abs 1 = some 5 ∧ s.abs 2 = some 2 ∧ s.abs 3 = some 3 ∧ s.amended = true ∧ s.fault = false := by
  decide

end EIO.SMap
