import EIO.Model.Ids
/-
C20 (yeast): Encode/Decode round-trip, and `Yeast()` never returns the same
value twice for any number of calls on a clock that does not run backwards
(the call is one atomic step: the implementation holds a mutex).
-/
namespace EIO.Ids
open EIO

theorem yIndex_char : ∀ i, i < 64 → yIndex (yChar i) = i := by decide +kernel

theorem yChar_mem (i : Nat) : yChar i ∈ yeastAlpha := by
  unfold yChar
  by_cases h : i < yeastAlpha.length
  · simp only [List.getD_eq_getElem?_getD, List.getElem?_eq_getElem h, Option.getD_some]
    exact List.getElem_mem h
  · simp only [List.getD_eq_getElem?_getD, List.getElem?_eq_none (by omega : yeastAlpha.length ≤ i),
      Option.getD_none]
    decide

theorem yDecode_foldl (a : Nat) (s : List Char) :
    s.foldl (fun acc c => acc * 64 + yIndex c) a = a * 64 ^ s.length + yDecode s := by
  induction s generalizing a with
  | nil => simp [yDecode]
  | cons c rest ih =>
    simp only [List.foldl_cons, List.length_cons, yDecode]
    rw [ih (a * 64 + yIndex c), ih (0 * 64 + yIndex c)]
    simp only [Nat.zero_mul, Nat.zero_add, Nat.pow_succ]
    rw [Nat.add_mul, Nat.mul_assoc, Nat.mul_comm 64 (64 ^ rest.length), Nat.add_assoc]

theorem yDecode_cons (c : Char) (s : List Char) :
    yDecode (c :: s) = yIndex c * 64 ^ s.length + yDecode s := by
  unfold yDecode
  simp only [List.foldl_cons, Nat.zero_mul, Nat.zero_add]
  exact yDecode_foldl (yIndex c) s

theorem yEncodeLoop_decode (fuel : Nat) : ∀ (n : Nat) (acc : List Char), n < fuel →
    yDecode (yEncodeLoop fuel n acc) = n * 64 ^ acc.length + yDecode acc := by
  induction fuel with
  | zero => intro n acc h; omega
  | succ fuel ih =>
    intro n acc h
    unfold yEncodeLoop
    by_cases hn : n = 0
    · simp [hn]
    · simp only [hn, if_false]
      rw [ih (n / 64) _ (by omega), yDecode_cons, yIndex_char _ (Nat.mod_lt _ (by omega))]
      simp only [List.length_cons, Nat.pow_succ]
      have hdm : n = 64 * (n / 64) + n % 64 := (Nat.div_add_mod n 64).symm
      have : n * 64 ^ acc.length = (64 * (n / 64) + n % 64) * 64 ^ acc.length := by rw [← hdm]
      rw [this, Nat.add_mul, Nat.mul_comm (64 ^ acc.length) 64, ← Nat.mul_assoc,
        Nat.mul_comm (n / 64) 64, Nat.add_assoc]

/-- **Decode inverts Encode** for every non-negative number -/
theorem c20_yeast_decode_encode (n : Nat) : yDecode (yEncode n) = n := by
  unfold yEncode
  by_cases hn : n = 0
  · subst hn; simp [yDecode, yIndex_char 0 (by omega)]
  · simp only [hn, if_false]
    rw [yEncodeLoop_decode (n + 1) n [] (by omega)]
    simp [yDecode]

theorem yEncode_injective (a b : Nat) (h : yEncode a = yEncode b) : a = b := by
  have := congrArg yDecode h
  rwa [c20_yeast_decode_encode, c20_yeast_decode_encode] at this

theorem yEncodeLoop_alpha (fuel : Nat) : ∀ (n : Nat) (acc : List Char),
    (∀ c ∈ acc, c ∈ yeastAlpha) → ∀ c ∈ yEncodeLoop fuel n acc, c ∈ yeastAlpha := by
  induction fuel with
  | zero => intro n acc h; simpa [yEncodeLoop] using h
  | succ fuel ih =>
    intro n acc h
    unfold yEncodeLoop
    split
    · exact h
    · apply ih
      intro c hc
      rcases List.mem_cons.mp hc with rfl | hc
      · exact yChar_mem _
      · exact h c hc

theorem yEncode_alpha (n : Nat) : ∀ c ∈ yEncode n, c ∈ yeastAlpha := by
  unfold yEncode
  split
  · intro c hc; simp at hc; subst hc; exact yChar_mem _
  · exact yEncodeLoop_alpha _ _ _ (by simp)

theorem dot_not_alpha : '.' ∉ yeastAlpha := by decide

theorem yEncode_no_dot (n : Nat) : '.' ∉ yEncode n :=
  fun h => dot_not_alpha (yEncode_alpha n '.' h)

theorem split_at_sep {α : Type} (x : α) : ∀ (a a' b b' : List α), x ∉ a → x ∉ a' →
    a ++ x :: b = a' ++ x :: b' → a = a' ∧ b = b' := by
  intro a
  induction a with
  | nil =>
    intro a' b b' _ ha' h
    cases a' with
    | nil => simp at h; exact ⟨rfl, h⟩
    | cons y t => simp at h; exact absurd (h.1 ▸ List.mem_cons_self) ha'
  | cons y t ih =>
    intro a' b b' ha ha' h
    cases a' with
    | nil => simp at h; exact absurd (h.1 ▸ List.mem_cons_self) ha
    | cons y' t' =>
      simp only [List.cons_append, List.cons.injEq] at h
      obtain ⟨rfl, h2⟩ := h
      have := ih t' b b' (fun hx => ha (List.mem_cons_of_mem _ hx))
        (fun hx => ha' (List.mem_cons_of_mem _ hx)) h2
      exact ⟨by rw [this.1], this.2⟩

/-- two results render to the same string only if they are the same result -/
theorem render_injective (o o' : YOut) (h : o.render = o'.render) : o = o' := by
  obtain ⟨m, s⟩ := o
  obtain ⟨m', s'⟩ := o'
  cases s with
  | none =>
    cases s' with
    | none => simp only [YOut.render] at h; rw [yEncode_injective _ _ h]
    | some k' =>
      simp only [YOut.render] at h
      exact absurd (h ▸ (by simp : '.' ∈ yEncode m' ++ '.' :: yEncode k')) (yEncode_no_dot m)
  | some k =>
    cases s' with
    | none =>
      simp only [YOut.render] at h
      exact absurd (h.symm ▸ (by simp : '.' ∈ yEncode m ++ '.' :: yEncode k)) (yEncode_no_dot m')
    | some k' =>
      simp only [YOut.render] at h
      obtain ⟨h1, h2⟩ := split_at_sep '.' _ _ _ _ (yEncode_no_dot m) (yEncode_no_dot m') h
      rw [yEncode_injective _ _ h1, yEncode_injective _ _ h2]

/-- all results of successive calls at the given clock readings -/
def yeastRun : YState → List Nat → List YOut
  | _, [] => []
  | s, ms :: rest => (yeastNext s ms).2 :: yeastRun (yeastNext s ms).1 rest

/-- order of results: by millisecond, then bare before `.0` before `.1` … -/
def YOut.rank (o : YOut) : Nat := match o.seed with | none => 0 | some k => k + 1
def YOut.lt (a b : YOut) : Prop := a.ms < b.ms ∨ (a.ms = b.ms ∧ a.rank < b.rank)

theorem YOut.lt_trans {a b c : YOut} (h1 : a.lt b) (h2 : b.lt c) : a.lt c := by
  unfold YOut.lt at *
  omega

theorem YOut.lt_ne {a b : YOut} (h : a.lt b) : a ≠ b := by
  intro e; subst e; unfold YOut.lt at h; omega

/-- the results come out strictly increasing on a clock that never runs backwards -/
theorem yeastRun_increasing : ∀ (mss : List Nat) (s : YState),
    mss.Pairwise (· ≤ ·) → (∀ p, s.prev = some p → ∀ m ∈ mss, p ≤ m) →
    (yeastRun s mss).Pairwise YOut.lt ∧
    ∀ o ∈ yeastRun s mss, ∀ p, s.prev = some p → (p < o.ms ∨ (p = o.ms ∧ s.seed < o.rank)) := by
  intro mss
  induction mss with
  | nil => intro s _ _; simp [yeastRun]
  | cons m rest ih =>
    intro s hs hp
    have hrest : rest.Pairwise (· ≤ ·) := (List.pairwise_cons.mp hs).2
    have hm := (List.pairwise_cons.mp hs).1
    simp only [yeastRun]
    by_cases hprev : s.prev = some m
    · -- same millisecond: dotted with the current seed, seed grows
      have hnext : yeastNext s m = ({ s with seed := s.seed + 1 }, ⟨m, some s.seed⟩) := by
        simp [yeastNext, hprev]
      rw [hnext]
      obtain ⟨ih1, ih2⟩ := ih { s with seed := s.seed + 1 } hrest
        (by intro p hp' x hx; simp at hp'; rw [hprev] at hp'; injection hp' with e; subst e; exact hm x hx)
      refine ⟨List.pairwise_cons.mpr ⟨?_, ih1⟩, ?_⟩
      · intro o ho
        have := ih2 o ho m (by simpa using hprev)
        simp only [YOut.lt, YOut.rank] at this ⊢
        omega
      · intro o ho p hp'
        rw [hprev] at hp'; injection hp' with e; subst e
        rcases List.mem_cons.mp ho with rfl | ho
        · right; simp [YOut.rank]
        · have := ih2 o ho m (by simpa using hprev)
          simp only at this; omega
    · have hnext : yeastNext s m = ({ prev := some m, seed := 0 }, ⟨m, none⟩) := by
        simp [yeastNext, hprev]
      rw [hnext]
      obtain ⟨ih1, ih2⟩ := ih { prev := some m, seed := 0 } hrest
        (by intro p hp' x hx; simp at hp'; subst hp'; exact hm x hx)
      refine ⟨List.pairwise_cons.mpr ⟨?_, ih1⟩, ?_⟩
      · intro o ho
        have := ih2 o ho m rfl
        simp only [YOut.lt, YOut.rank] at this ⊢
        omega
      · intro o ho p hp'
        have hpm : p ≤ m := hp p hp' m List.mem_cons_self
        have hne : p ≠ m := fun e => hprev (e ▸ hp')
        rcases List.mem_cons.mp ho with rfl | ho
        · left; simp; omega
        · have := ih2 o ho m rfl
          simp only at this; omega

/-- **C20 (yeast, sequential / mutex-serialised): no value is returned twice.**
    For any number of calls, at any clock readings that never decrease, the
    rendered ids are pairwise different. -/
theorem c20_yeast_unique (mss : List Nat) (h : mss.Pairwise (· ≤ ·)) :
    ((yeastRun {} mss).map YOut.render).Pairwise (· ≠ ·) := by
  have := (yeastRun_increasing mss {} h (by intro p hp; simp at hp)).1
  rw [List.pairwise_map]
  exact this.imp fun hlt heq => YOut.lt_ne hlt (render_injective _ _ heq)

/-- non-vacuity: three calls in one millisecond, then the next millisecond -/
example : ((yeastRun {} [946684800000, 946684800000, 946684800000, 946684800001]).map
    fun o => String.ofList o.render) = ["Dngpwm0", "Dngpwm0.0", "Dngpwm0.1", "Dngpwm1"] := by
  decide +kernel

end EIO.Ids
