import EIO.Lemmas.ConnStep
import EIO.Props.Session
/-
C06: "an admitted handshake creates exactly one session and announces it with exactly one connection event".

For every history: the session log holds at most one `connection` entry per session, and every `connection` entry
names an existing session (`c06_at_most_one_connection_event`, `c06_connection_event_names_a_session`); only a
handshake writes one (`step_conn`: every other operation is an `NC` step — no new record, no `connection` entry).
For every model state: an admitted WebSocket handshake creates exactly one session record, number `socks.size`,
and logs exactly one `connection` entry, for that session (`c06_ws_handshake_one_session_one_event`).
-/
namespace EIO.Ses
open EIO EIO.Codec

theorem reach_conn (o : Opts) (ops : List Op) : ConnInv (run o ops) := by
  unfold run
  generalize hw : init o = w
  have hi : ConnInv w := hw ▸ conn_init o
  clear hw
  induction ops generalizing w with
  | nil => exact hi
  | cons op rest ih => exact ih _ (step_conn w op hi)

/-- C06: at most one connection event per session, in any history -/
theorem c06_at_most_one_connection_event (o : Opts) (ops : List Op) (sid : Nat) :
    (connEntries sid (run o ops).slog).length ≤ 1 := (reach_conn o ops).once sid

/-- C06: a connection event names a session that exists -/
theorem c06_connection_event_names_a_session (o : Opts) (ops : List Op) (e : Nat × SEv)
    (h : e ∈ (run o ops).slog) (hc : e.2.isConnection = true) : e.1 < (run o ops).socks.size :=
  (reach_conn o ops).named e h hc

/-- C06: an admitted WebSocket handshake creates exactly one session record and logs exactly one connection entry,
    that session's -/
theorem c06_ws_handshake_one_session_one_event (w : World) (proto : Nat) (b64 : Bool)
    (ht : w.o.transports.contains "websocket" = true) (hp : ¬ (proto = 3 ∧ ¬ w.o.eio3 = true)) :
    (hsWebsocket w proto b64).socks.size = w.socks.size + 1 ∧
    ∃ pre e, (hsWebsocket w proto b64).slog = w.slog ++ pre ++ [(w.socks.size, e)] ∧ e.isConnection = true ∧
      ∀ x ∈ pre, x.2.isConnection = false := by
  unfold hsWebsocket
  simp only [ht, not_true_eq_false, if_false, hp]
  exact openSession_log _ _ _

/-- the same for a polling handshake -/
theorem c06_polling_handshake_one_session_one_event (w : World) (proto : Nat) (b64 : Bool) (j : Option Bytes)
    (ht : w.o.transports.contains "polling" = true) (hp : ¬ (proto = 3 ∧ ¬ w.o.eio3 = true)) :
    (hsPolling w proto b64 j).socks.size = w.socks.size + 1 ∧
    ∃ pre e, (hsPolling w proto b64 j).slog = w.slog ++ pre ++ [(w.socks.size, e)] ∧ e.isConnection = true ∧
      ∀ x ∈ pre, x.2.isConnection = false := by
  unfold hsPolling
  simp only [ht, not_true_eq_false, if_false, hp]
  have c := nc_onPollRequest w.trs.size w.reqs.size (NC.refl ({ ({ w with reqs := w.reqs.push { hasSid := false } } : World) with
      trs := w.trs.push { isPolling := true, proto, b64, jsonp := j.map jsonpDigits } } : World))
  obtain ⟨hsz, pre, e, hl, he, hn⟩ := openSession_log (onPollRequest ({ ({ w with reqs := w.reqs.push { hasSid := false } } : World) with
      trs := w.trs.push { isPolling := true, proto, b64, jsonp := j.map jsonpDigits } } : World) w.trs.size w.reqs.size) w.trs.size proto
  obtain ⟨pre0, hl0, hn0⟩ := c.log
  have hs0 := c.size
  refine ⟨by rw [hsz, hs0], pre0 ++ pre, e, ?_, he, fun x hx => ?_⟩
  · rw [hl, hl0, hs0]
    simp [List.append_assoc]
  · rcases List.mem_append.mp hx with h | h
    · exact hn0 x h
    · exact hn x h

/-- non-vacuity: two handshakes, one connection entry each -/
example :
    let w := run {} [.hsWebsocket 4 false, .hsPolling 4 false none, .settle]
    (connEntries 0 w.slog).length = 1 ∧ (connEntries 1 w.slog).length = 1 ∧ w.socks.size = 2 := by decide +kernel

end EIO.Ses
