import EIO.Lemmas.World
import EIO.Props.SessionLocal
/-
C10 on the polling transport (every model state): a request body longer than the limit is refused with 413
whether or not its length was declared, nothing of it reaches the application (the session log is unchanged),
no session or transport is touched, and the server has read at most limit + 1 bytes of it.
-/
namespace EIO.Ses
open EIO EIO.Codec

theorem slog_answer (w : World) (r : Nat) (resp : Resp) : (w.answer r resp).slog = w.slog := by
  unfold World.answer; split <;> rfl

theorem socks_answer (w : World) (r : Nat) (resp : Resp) : (w.answer r resp).socks = w.socks := by
  unfold World.answer; split <;> rfl

theorem trs_answer (w : World) (r : Nat) (resp : Resp) : (w.answer r resp).trs = w.trs := by
  unfold World.answer; split <;> rfl

/-- what a refused body leaves behind: log, sessions and transports as they were, the request (number `w.reqs.size`)
    answered 413, at most limit + 1 bytes of it read -/
def BodyRefused (w w' : World) : Prop :=
  w'.slog = w.slog ∧ w'.socks = w.socks ∧ w'.trs = w.trs ∧
  (w'.reqs.getD w.reqs.size default).resp = some { status := 413, ct := "-" } ∧
  (∀ n, (w'.reqs.getD w.reqs.size default).consumed = some n → n ≤ w.o.maxPayload + 1)

/-- an oversized body on a registered polling session: 413, nothing delivered, nothing else touched -/
theorem c10_oversized_body_refused (w : World) (sid : Nat) (binary declared : Bool) (body : Bytes) (vj : Bool)
    (hreg : w.registry.contains sid = true) (hpoll : (w.tr (w.sock sid).tr).isPolling = true)
    (hbin : ¬ (binary = true ∧ (w.tr (w.sock sid).tr).proto = 4))
    (hbig : body.length > w.o.maxPayload) : BodyRefused w (postReq w sid binary declared body vj) := by
  have hr : w.reqs.size < ({ w with reqs := w.reqs.push { isPost := true, consumed := some 0 } } : World).reqs.size := by
    show _ < (w.reqs.push _).size; simp
  have hun : (({ w with reqs := w.reqs.push { isPost := true, consumed := some 0 } } : World).reqs.getD w.reqs.size default).resp = none := by
    show ((w.reqs.push _).getD w.reqs.size default).resp = none
    simp
  have hcons0 : (({ w with reqs := w.reqs.push { isPost := true, consumed := some 0 } } : World).reqs.getD w.reqs.size default).consumed = some 0 := by
    show ((w.reqs.push _).getD w.reqs.size default).consumed = some 0
    simp
  unfold postReq lookup
  have hreg' : ({ w with reqs := w.reqs.push { isPost := true, consumed := some 0 } } : World).registry.contains sid = true := hreg
  simp only [hreg', if_true]
  have hp' : (({ w with reqs := w.reqs.push { isPost := true, consumed := some 0 } } : World).tr
      (({ w with reqs := w.reqs.push { isPost := true, consumed := some 0 } } : World).sock sid).tr).isPolling = true := hpoll
  have hb' : ¬ (binary = true ∧ (({ w with reqs := w.reqs.push { isPost := true, consumed := some 0 } } : World).tr
      (({ w with reqs := w.reqs.push { isPost := true, consumed := some 0 } } : World).sock sid).tr).proto = 4) := hbin
  have hbig' : body.length > ({ w with reqs := w.reqs.push { isPost := true, consumed := some 0 } } : World).o.maxPayload := hbig
  have hmin : min body.length (w.o.maxPayload + 1) = w.o.maxPayload + 1 := by omega
  simp only [hp', not_true_eq_false, if_false, hb']
  by_cases hd : declared = true
  · simp only [hd, hbig', and_self, if_true]
    refine ⟨slog_answer _ _ _, socks_answer _ _ _, trs_answer _ _ _, c11_answer_records _ _ _ hr hun, fun n hn => ?_⟩
    unfold World.answer at hn
    rw [if_neg (by rw [hun]; simp)] at hn
    rw [req_setReq] at hn
    have : n = 0 := by
      simp only [hr, World.ev, and_self, if_true] at hn
      have := hcons0
      simp_all
    omega
  · have hd' : declared = false := by simpa using hd
    simp only [hd', Bool.false_eq_true, false_and, if_false]
    simp only [hmin]
    have o_setReq'' : ∀ (u : World) (i : Nat) (f : Req → Req), (u.setReq i f).o = u.o := fun _ _ _ => rfl
    simp only [o_setReq'']
    rw [if_pos (show w.o.maxPayload + 1 > w.o.maxPayload from Nat.lt_succ_self _)]
    have hr2 : w.reqs.size < (({ w with reqs := w.reqs.push { isPost := true, consumed := some 0 } } : World).setReq w.reqs.size
        fun q => { q with consumed := some (w.o.maxPayload + 1) }).reqs.size := by
      unfold World.setReq; simpa using hr
    have hun2 : ((({ w with reqs := w.reqs.push { isPost := true, consumed := some 0 } } : World).setReq w.reqs.size
        fun q => { q with consumed := some (w.o.maxPayload + 1) }).reqs.getD w.reqs.size default).resp = none := by
      rw [req_setReq, if_pos ⟨rfl, hr⟩]; exact hun
    refine ⟨(slog_answer _ _ _).trans rfl, (socks_answer _ _ _).trans rfl, (trs_answer _ _ _).trans rfl,
      c11_answer_records _ _ _ hr2 hun2, fun n hn => ?_⟩
    unfold World.answer at hn
    rw [if_neg (by rw [hun2]; simp)] at hn
    rw [req_setReq, if_pos ⟨rfl, hr2⟩] at hn
    have e : ((({ w with reqs := w.reqs.push { isPost := true, consumed := some 0 } } : World).setReq w.reqs.size
        fun q => { q with consumed := some (w.o.maxPayload + 1) }).ev s!"req:write:{w.reqs.size}").reqs.getD w.reqs.size default =
        ((({ w with reqs := w.reqs.push { isPost := true, consumed := some 0 } } : World).setReq w.reqs.size
        fun q => { q with consumed := some (w.o.maxPayload + 1) })).reqs.getD w.reqs.size default := rfl
    rw [e, req_setReq, if_pos ⟨rfl, hr⟩] at hn
    have : n = w.o.maxPayload + 1 := by simpa using hn.symm
    omega

end EIO.Ses
