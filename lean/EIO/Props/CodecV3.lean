import EIO.Props.Codec
import EIO.Lemmas.World
import EIO.Model.Session
/-
Revision 3 on frame transports (WebSocket): a message packet survives `EncodePacket` / `DecodePacket` — same
kind, same bytes — as text, as binary, and as binary over a connection that asked for base64. (The revision-3
*payload* format of the polling transport counts UTF-16 units and re-encodes text; its round trip is compared
with the implementation, not proved, and fails for binary payloads with non-ASCII text: known finding.)
-/
namespace EIO.Codec
open EIO

theorem v3_packet_roundtrip (m : Msg) (supportsBinary : Bool) :
    decodePacketV3 (encodePacketV3 { typ := .message, data := some m } supportsBinary false) =
      ({ typ := .message, data := some m }, true) := by
  obtain ⟨k, d⟩ := m
  cases k
  · simp [encodePacketV3, decodePacketV3, PT.char, PT.ofChar]
  · cases supportsBinary
    · simp [encodePacketV3, decodePacketV3, PT.char, PT.ofChar, b64_roundtrip]
    · simp [encodePacketV3, decodePacketV3, PT.char, PT.ofChar]

/-- the same for every packet type without data (ping, pong, upgrade, noop, close) -/
theorem v3_bare_packet_roundtrip (t : PT) (supportsBinary : Bool) (ht : t ≠ .error) :
    decodePacketV3 (encodePacketV3 { typ := t, data := none } supportsBinary false) =
      ({ typ := t, data := some ⟨.text, []⟩ }, true) := by
  cases t <;> first | exact absurd rfl ht | simp [encodePacketV3, decodePacketV3, PT.char, PT.ofChar]

end EIO.Codec

namespace EIO.Ses
open EIO EIO.Codec

/-- C02, revision 3 on a frame transport: the message a client framed reaches the application of an open session
    as one packet and one message event, kind and bytes intact (with or without base64) -/
theorem c02_frame_delivered_v3 (w : World) (ti sid : Nat) (m : Msg) (b64 : Bool)
    (hr : (w.tr ti).role = .current sid) (ho : (w.sock sid).rs = .open_) :
    (trEmitPacket w ti (decodePacketV3 (encodePacketV3 { typ := .message, data := some m } b64 false)).1).slog =
      w.slog ++ [(sid, .packet .message), (sid, .message (some m))] := by
  rw [v3_packet_roundtrip]
  unfold trEmitPacket; simp only [hr]
  unfold sockOnPacket
  simp [ho]

end EIO.Ses
