import EIO.Lemmas.WTReader
/-
C15 — the WebTransport reader is total: no panic (apart from the documented
thousand-repeat guard), never more payload than declared or supplied, read
limit enforced (limit error + session close), truncation is an error, errors
are sticky. All statements quantify over every byte stream, every limit, every
way the stream ends (clean EOF / stream error) and every consumption pattern.

In the model a Go panic is the explicit constructor `Next.panic`; `readMsg`,
`readAll` and `advanceFrame` have no panic outcome at all because the Go code
they mirror contains no index expression, type assertion or nil dereference
whose operand depends on stream bytes beyond what `Peek` returned (census in
`Generated/Facts.lean`, obligation `wt_reader_panic_sites`).
-/
namespace EIO.WT
open EIO

/-! ### the documented guard is the only panic -/

theorem c15_no_panic_before_guard (c : RConn) (h : c.errCount + 1 < errGuard) :
    ∀ c', c.nextReader ≠ .panic c' := by
  intro c' hp
  unfold RConn.nextReader at hp
  have hn : ¬ (c.errCount + 1 ≥ errGuard) := by omega
  cases he : c.err with
  | some e => simp [he, hn] at hp
  | none =>
    simp only [he] at hp
    split at hp
    · simp at hp
    · rename_i e c1 hadv
      -- advanceFrame never touches errCount
      have hc : c1.errCount = c.errCount :=
        ((RConn.advanceFrame_cfg _).2 e c1 hadv).1.errCount
      simp [hc, hn] at hp

theorem c15_panic_only_on_failed_connection (c c' : RConn) (h : c.nextReader = .panic c') :
    c'.err ≠ none ∧ c'.errCount ≥ errGuard := by
  unfold RConn.nextReader at h
  cases he : c.err with
  | some e =>
    simp only [he] at h
    split at h
    · rename_i hg; simp at h; subst h; simp [he]; exact hg
    · simp at h
  | none =>
    simp only [he] at h
    split at h
    · simp at h
    · split at h
      · rename_i hg; simp at h; subst h; simp; exact hg
      · simp at h

theorem c15_reader_means_no_error (c c' : RConn) (k : Kind) (h : c.nextReader = .reader k c') :
    c.err = none ∧ c'.cur = true := by
  unfold RConn.nextReader at h
  cases he : c.err with
  | some e => simp only [he] at h; split at h <;> simp at h
  | none =>
    simp only [he] at h
    split at h
    · simp at h; obtain ⟨_, rfl⟩ := h; simp
    · split at h <;> simp at h

/-! ### errors are sticky -/

theorem c15_error_is_recorded (c c' : RConn) (e : RErr) (h : c.nextReader = .error e c') :
    c'.err = some e := by
  unfold RConn.nextReader at h
  cases he : c.err with
  | some e0 =>
    simp only [he] at h
    split at h
    · simp at h
    · simp at h; obtain ⟨rfl, rfl⟩ := h; simp [he]
  | none =>
    simp only [he] at h
    split at h
    · simp at h
    · split at h
      · simp at h
      · simp at h; obtain ⟨rfl, rfl⟩ := h; simp

/-- once a read has failed, every later `NextReader` reports the same failure
    (until the documented guard trips) and the failure stays recorded -/
theorem c15_sticky_next (c : RConn) (e : RErr) (h : c.err = some e) (hg : c.errCount + 1 < errGuard) :
    ∃ c', c.nextReader = .error e c' ∧ c'.err = some e ∧ c'.errCount = c.errCount + 1 := by
  unfold RConn.nextReader
  have hn : ¬ (c.errCount + 1 ≥ errGuard) := by omega
  simp [h, hn]

/-- `Read` on any reader object never clears a recorded failure and reports it -/
theorem c15_sticky_read (c : RConn) (e : RErr) (n : Nat) (mine : Bool) (h : c.err = some e) :
    (c.readMsg n mine).c.err = some e ∧ (c.readMsg n mine).data = [] ∧
    (c.readMsg n mine).err ≠ none := by
  unfold RConn.readMsg
  by_cases h1 : (mine = true ∧ c.cur = true)
  · simp [h1, h]
  · simp [h1, h]

/-! ### never more payload than declared or supplied -/

/-- one `Read`: at most `n` bytes, at most what the header still allows, and
    exactly the next bytes of the stream -/
theorem c15_read_bounded (c : RConn) (n : Nat) (mine : Bool) :
    (c.readMsg n mine).data.length ≤ n ∧ (c.readMsg n mine).data.length ≤ c.rem ∧
    (c.readMsg n mine).data = c.input.take (c.readMsg n mine).data.length :=
  ⟨(RConn.readMsg_bounded c n mine).1, (RConn.readMsg_bounded c n mine).2.1,
   (RConn.readMsg_bounded c n mine).2.2.1⟩

/-- a whole `ReadAll`: never more than the declared length -/
theorem c15_readAll_bounded (c : RConn) : c.readAll.1.length ≤ c.rem :=
  (RConn.readAll_bounded c).1

/-! ### the read limit -/

/-- a frame is handed to the application only if its declared length is
    within a positive limit -/
theorem c15_advance_within_limit (c c' : RConn) (k : Kind) (hl : c.limit > 0) (h0 : c.rlen = 0)
    (h : c.advanceFrame = .frame k c') : c'.rem ≤ c.limit := by
  obtain ⟨_, _, hlim, hr⟩ := (RConn.advanceFrame_cfg c).1 k c' h
  have := hlim hl
  omega

/-- **no message longer than a positive read limit is ever delivered**, complete
    or partial, whatever the stream contains -/
theorem c15_limit (c : RConn) (hl : c.limit > 0) :
    (∀ m c', c.readMessage = .msg m c' → m.data.length ≤ c.limit) ∧
    (∀ k d e c', c.readMessage = .partialMsg k d e c' → d.length ≤ c.limit) := by
  have key : ∀ k c1, c.nextReader = .reader k c1 → c1.readAll.1.length ≤ c.limit := by
    intro k c1 h
    unfold RConn.nextReader at h
    cases he : c.err with
    | some e => simp only [he] at h; split at h <;> simp at h
    | none =>
      simp only [he] at h
      split at h
      · rename_i k' c2 hadv
        simp at h
        obtain ⟨_, rfl⟩ := h
        have h1 := c15_advance_within_limit _ c2 k' (by exact hl) rfl hadv
        have h2 := RConn.readAll_bounded { c2 with cur := true }
        simp only at h1 h2
        omega
      · split at h <;> simp at h
  constructor
  · intro m c' h
    unfold RConn.readMessage at h
    split at h
    · simp at h
    · simp at h
    · rename_i k c1 hn
      have := key k c1 hn
      split at h
      · rename_i d c2 hra; simp at h; obtain ⟨rfl, _⟩ := h; simpa [hra] using this
      · simp at h
  · intro k d e c' h
    unfold RConn.readMessage at h
    split at h
    · simp at h
    · simp at h
    · rename_i k1 c1 hn
      have := key k1 c1 hn
      split at h
      · simp at h
      · rename_i d1 e1 c2 hra; simp at h; obtain ⟨_, rfl, _, _⟩ := h; simpa [hra] using this

/-- an oversized frame (any length form) is refused with the limit error and
    the session is closed with the message-too-big code -/
theorem c15_limit_closes_session (c : RConn) (f : Spec.LenForm) (k : Kind) (n : Nat) (rest : Bytes)
    (hrem : c.rem = 0) (hlen : c.rlen = 0) (hin : c.input = Spec.headerWith f k n ++ rest)
    (hfit : f.fits n) (hl : c.limit > 0) (hover : n > c.limit) :
    ∃ c', c.advanceFrame = .fail (if c.closeFails then .closeFailed else .readLimit) c' ∧
      c'.closes = c.closes ++ [1009] := by
  exact ⟨_, RConn.advanceFrame_over c f k n rest hrem hlen hin hfit hl hover, rfl⟩

/-! ### truncation is an error, never a message -/

/-- the stream ends inside a payload: the partial bytes come with an error
    (unexpected EOF for a clean end), never as a complete message -/
theorem c15_truncated_payload (c : RConn) (f : Spec.LenForm) (m : Msg) (j : Nat)
    (herr : c.err = none) (hrem : c.rem = 0) (hj : j < m.data.length)
    (hin : c.input = Spec.headerWith f m.kind m.data.length ++ m.data.take j)
    (hfit : f.fits m.data.length) (hlim : c.limit = 0 ∨ m.data.length ≤ c.limit) :
    ∃ c', c.readMessage = .partialMsg m.kind (m.data.take j)
      (if c.tail.rawErr = .eof then .unexpectedEOF else c.tail.rawErr) c' := by
  obtain ⟨input, tail, rem, rlen, limit, err, errCount, cur, closes, closeFails⟩ := c
  simp only at herr hrem hin hlim
  subst herr hrem hin
  unfold RConn.readMessage RConn.nextReader
  simp only
  have hadv := RConn.advanceFrame_ok
    { input := Spec.headerWith f m.kind m.data.length ++ m.data.take j, tail, rem := 0, rlen := 0,
      limit, err := none, errCount, cur := false, closes, closeFails } f m.kind m.data.length
    (m.data.take j) rfl rfl rfl hfit hlim
  rw [hadv]
  simp only
  have hs := RConn.readAll_short
    { input := m.data.take j, tail, rem := m.data.length, rlen := m.data.length, limit, err := none,
      errCount, cur := true, closes, closeFails } rfl rfl (by simp; omega)
  simp only at hs
  generalize hra : RConn.readAll _ = ra at hs
  obtain ⟨d, e, c2⟩ := ra
  simp only at hs
  obtain ⟨rfl, rfl⟩ := hs
  exact ⟨c2, rfl⟩

/-- a 64-bit length with the most significant bit set is rejected -/
theorem c15_msb_length (c : RConn) (k : Kind) (v : Nat) (rest : Bytes)
    (hrem : c.rem = 0) (hv : 2 ^ 63 ≤ v) (hv2 : v < 2 ^ 64)
    (hin : c.input = UInt8.ofNat (Spec.kindBit k + 127) :: (be 8 v ++ rest)) :
    ∃ c', c.advanceFrame = .fail .readLimit c' := by
  unfold RConn.advanceFrame
  rw [RConn.skip_none c hrem]
  simp only
  unfold RConn.header
  have hr := RConn.read_ok c [UInt8.ofNat (Spec.kindBit k + 127)] (be 8 v ++ rest) (by simpa using hin)
  simp only [List.length_singleton] at hr
  rw [hr]
  obtain ⟨hk, hb⟩ := header_byte k 127 (by omega)
  have h126 : ¬ (127 : Nat) = 126 := by omega
  simp only [List.headD_cons, hk, hb, h126, if_true, if_false]
  have hr2 := RConn.read_ok { c with input := be 8 v ++ rest, rem := 127 } (be 8 v) rest rfl
  simp only [be_length] at hr2
  rw [hr2]
  have hu : unbe (be 8 v) = v := unbe_be_of_lt 8 v (by
    have : (2:Nat) ^ 64 = 256 ^ 8 := by decide
    omega)
  have hm : v ≥ 2 ^ 63 := hv
  simp [hu, hm]

/-- non-vacuity / concrete instances: a stream cut inside a 16-bit header, a
    frame declaring 2^63 bytes, and a 3-byte frame under limit 2 -/
example : (readStream [126, 0]).2.1 = some .unexpectedEOF ∧ (readStream [126, 0]).1 = [] := by
  decide +kernel
example : (readStream (255 :: be 8 (2 ^ 63) ++ [1, 2, 3])).2.1 = some .readLimit := by
  decide +kernel
example : (readStream [3, 1, 2, 3] .eof 2).2.1 = some .readLimit ∧
    (readStream [3, 1, 2, 3] .eof 2).2.2.closes = [1009] ∧ (readStream [3, 1, 2, 3] .eof 2).1 = [] := by
  decide +kernel

end EIO.WT
