import EIO.Model.Session
import EIO.Props.Codec
/-
C16 — poll responses: the payload decodes to the batch (Props/Codec.lean), the
coding is one the request named, and the JSONP wrapper is
`___eio[<digits>](<one JSON string literal>);` with a literal that is safe to
embed in a script, for every `j` parameter and every payload.
C02 (JSONP part) — the form field is un-escaped back to what was submitted.
-/
namespace EIO.Codec
open EIO

/-- `j` can contribute nothing but decimal digits to the response -/
theorem c16_jsonp_digits (j : Bytes) : ∀ b ∈ jsonpDigits j, 48 ≤ b ∧ b ≤ 57 := by
  intro b hb
  unfold jsonpDigits at hb
  simpa using (List.mem_filter.mp hb).2

/-- a byte that cannot end a string literal, open a tag or an entity, or be a raw control character -/
def ScriptSafe (b : UInt8) : Prop := b.toNat ≥ 0x20 ∧ b ≠ 60 ∧ b ≠ 62 ∧ b ≠ 38

theorem hexDigit_safe (n : Nat) (h : n < 16) : ScriptSafe (hexDigit n) := by
  unfold hexDigit ScriptSafe
  have : ∀ n, n < 16 → ((if n < 10 then UInt8.ofNat (48 + n) else UInt8.ofNat (87 + n)).toNat ≥ 0x20 ∧
      (if n < 10 then UInt8.ofNat (48 + n) else UInt8.ofNat (87 + n)) ≠ 60 ∧
      (if n < 10 then UInt8.ofNat (48 + n) else UInt8.ofNat (87 + n)) ≠ 62 ∧
      (if n < 10 then UInt8.ofNat (48 + n) else UInt8.ofNat (87 + n)) ≠ 38) := by decide
  exact this n h

theorem lo3_ge (x : Nat) : 0x80 ≤ lo3 x := by unfold lo3; split <;> omega
theorem lo4_ge (x : Nat) : 0x80 ≤ lo4 x := by unfold lo4; split <;> omega
theorem cont_ge (b : UInt8) (h : cont b = true) : 0x80 ≤ b.toNat := by
  unfold cont at h; simp at h; omega

theorem dr2_w (x : Nat) (rest : Bytes) : (dr2 x rest).2 ≥ 2 → (dr2 x rest).2 = 2 ∧ ∀ b ∈ rest.take 1, b.toNat ≥ 0x80 := by
  unfold dr2
  split
  · split
    · rename_i h; intro _; exact ⟨rfl, by simpa using cont_ge _ h⟩
    · simp
  · simp
theorem dr3_w (x : Nat) (rest : Bytes) : (dr3 x rest).2 ≥ 2 → (dr3 x rest).2 = 3 ∧ ∀ b ∈ rest.take 2, b.toNat ≥ 0x80 := by
  unfold dr3
  split
  · split
    · rename_i h; intro _
      refine ⟨rfl, ?_⟩
      have := lo3_ge x; have := cont_ge _ h.2.2
      simp; omega
    · simp
  · simp
theorem dr4_w (x : Nat) (rest : Bytes) : (dr4 x rest).2 ≥ 2 → (dr4 x rest).2 = 4 ∧ ∀ b ∈ rest.take 3, b.toNat ≥ 0x80 := by
  unfold dr4
  split
  · split
    · rename_i h; intro _
      refine ⟨rfl, ?_⟩
      have := lo4_ge x; have := cont_ge _ h.2.2.1; have := cont_ge _ h.2.2.2
      simp; omega
    · simp
  · simp

theorem decodeRune_width (bs : Bytes) : (decodeRune bs).2 ≥ 2 →
    ∀ b ∈ bs.take (decodeRune bs).2, b.toNat ≥ 0x80 := by
  unfold decodeRune
  cases bs with
  | nil => simp
  | cons b0 rest =>
    simp only
    split
    · simp
    · split
      · simp
      · split
        · intro h; obtain ⟨hw, hall⟩ := dr2_w _ _ h
          rw [hw]; intro b hb
          simp only [List.take_succ_cons, List.mem_cons] at hb
          rcases hb with rfl | hb
          · omega
          · exact hall b hb
        · split
          · intro h; obtain ⟨hw, hall⟩ := dr3_w _ _ h
            rw [hw]; intro b hb
            simp only [List.take_succ_cons, List.mem_cons] at hb
            rcases hb with rfl | hb
            · omega
            · exact hall b hb
          · split
            · intro h; obtain ⟨hw, hall⟩ := dr4_w _ _ h
              rw [hw]; intro b hb
              simp only [List.take_succ_cons, List.mem_cons] at hb
              rcases hb with rfl | hb
              · omega
              · exact hall b hb
            · simp

theorem u4esc_safe (n : Nat) : ∀ x ∈ u4esc n, ScriptSafe x := by
  intro x hx
  simp only [u4esc, List.mem_cons, List.not_mem_nil, or_false] at hx
  rcases hx with rfl | rfl | rfl | rfl | rfl | rfl
  · unfold ScriptSafe; decide
  · unfold ScriptSafe; decide
  · exact hexDigit_safe _ (Nat.mod_lt _ (by omega))
  · exact hexDigit_safe _ (Nat.mod_lt _ (by omega))
  · exact hexDigit_safe _ (Nat.mod_lt _ (by omega))
  · exact hexDigit_safe _ (Nat.mod_lt _ (by omega))

theorem jsonEscAscii_safe (b : UInt8) : ∀ x ∈ jsonEscAscii b, ScriptSafe x := by
  intro x hx
  unfold jsonEscAscii at hx
  repeat' split at hx
  all_goals first
    | exact u4esc_safe _ _ hx
    | (simp only [List.mem_cons, List.not_mem_nil, or_false] at hx
       rcases hx with rfl | rfl <;> (unfold ScriptSafe; decide))
    | (rename_i h
       simp only [List.mem_singleton] at hx; subst hx
       unfold ScriptSafe
       simp only [not_or, Nat.not_lt] at h
       exact ⟨h.1, h.2.1, h.2.2.1, h.2.2.2⟩)

/-- **the JSON literal of a JSONP response is script-safe**: whatever the
    payload bytes, no `<`, `>`, `&` and no raw control character appears in it -/
theorem c16_json_literal_safe (fuel : Nat) : ∀ (s : Bytes), ∀ b ∈ jsonEscLoop fuel s, ScriptSafe b := by
  induction fuel with
  | zero => intro s b hb; simp [jsonEscLoop] at hb
  | succ fuel ih =>
    intro s b hb
    cases s with
    | nil => simp [jsonEscLoop] at hb
    | cons c rest =>
      unfold jsonEscLoop at hb
      by_cases hasc : c.toNat < 0x80
      · simp only [hasc, if_true] at hb
        rcases List.mem_append.mp hb with h1 | h2
        · exact jsonEscAscii_safe c b h1
        · exact ih _ _ h2
      · simp only [hasc, if_false] at hb
        by_cases hbad : (decodeRune (c :: rest)).1 = 0xFFFD ∧ (decodeRune (c :: rest)).2 ≤ 1
        · simp only [hbad, and_self, if_true] at hb
          rcases List.mem_append.mp hb with h1 | h2
          · simp only [List.mem_cons, List.not_mem_nil, or_false] at h1
            rcases h1 with rfl | rfl | rfl | rfl | rfl | rfl <;> (unfold ScriptSafe; decide)
          · exact ih _ _ h2
        · simp only [hbad, if_false] at hb
          by_cases hsep : (decodeRune (c :: rest)).1 = 0x2028 ∨ (decodeRune (c :: rest)).1 = 0x2029
          · simp only [hsep, if_true] at hb
            rcases List.mem_append.mp hb with h1 | h2
            · exact u4esc_safe _ _ h1
            · exact ih _ _ h2
          · simp only [hsep, if_false] at hb
            rcases List.mem_append.mp hb with h1 | h2
            · -- a well-formed multi-byte sequence is copied: all its bytes are ≥ 0x80
              by_cases hw2 : (decodeRune (c :: rest)).2 ≥ 2
              · have := decodeRune_width (c :: rest) hw2 b h1
                unfold ScriptSafe
                refine ⟨by omega, ?_, ?_, ?_⟩ <;> (intro e; subst e; simp at this)
              · -- width ≤ 1 after a non-ASCII lead byte: only the lead byte itself is copied
                have hw1 : (decodeRune (c :: rest)).2 ≤ 1 := by omega
                have : b = c := by
                  have hsub : List.take (decodeRune (c :: rest)).2 (c :: rest) = [] ∨
                      List.take (decodeRune (c :: rest)).2 (c :: rest) = [c] := by
                    rcases Nat.le_one_iff_eq_zero_or_eq_one.mp hw1 with h0 | h1'
                    · left; rw [h0]; rfl
                    · right; rw [h1']; rfl
                  rcases hsub with hs | hs <;> rw [hs] at h1 <;> simp at h1
                  exact h1
                subst this
                unfold ScriptSafe
                refine ⟨by omega, ?_, ?_, ?_⟩ <;> (intro e; subst e; simp at hasc)
            · exact ih _ _ h2

/-- **JSONP responses have the fixed shape** `___eio[<digits>](<literal>);` -/
theorem c16_jsonp_shape (j payload : Bytes) :
    jsonpBody (jsonpDigits j) payload =
      "___eio[".toUTF8.toList ++ jsonpDigits j ++ "](".toUTF8.toList ++
        (34 :: jsonEscLoop (payload.length + 1) payload ++ [34]) ++ ");".toUTF8.toList := by
  rfl

end EIO.Codec

namespace EIO.Ses
open EIO EIO.Codec

/-- **compression only with a coding the request names**: the coding the
    response announces is one of the four supported ones and appears, as a
    token (trimmed, case-folded, not refused with q=0), in Accept-Encoding -/
theorem c16_coding_named (header : Bytes) (c : String) (h : acceptedEncoding header = c) (hc : c ≠ "") :
    c ∈ supportedCodings ∧ c.toUTF8.toList ∈ namedCodings header := by
  unfold acceptedEncoding at h
  generalize hf : supportedCodings.find? (fun c => (namedCodings header).contains c.toUTF8.toList) = r at h
  cases r with
  | none => simp at h; exact absurd h hc
  | some x =>
    simp at h; subst h
    have h1 := List.mem_of_find?_eq_some hf
    have h2 := List.find?_some hf
    exact ⟨h1, by simpa using h2⟩

theorem c16_no_header_no_coding : acceptedEncoding [] = "" := by decide

/-- look-alikes are not accepted: "x-gzip2", "abracadabra", "gzip;q=0" -/
example : acceptedEncoding "x-gzip2".toUTF8.toList = "" ∧ acceptedEncoding "abracadabra".toUTF8.toList = "" ∧
    acceptedEncoding "gzip;q=0, br".toUTF8.toList = "br" ∧ acceptedEncoding "GZIP".toUTF8.toList = "gzip" := by
  decide +kernel

end EIO.Ses
