import EIO.Lemmas.HbStep
import EIO.Props.C07Heartbeat
/-
C07, for every history: the heartbeat timers of a session are an invariant of every reachable world.

  * a session that has been announced, is not closed and has never been upgraded always has a heartbeat
    timer pending (the next ping or the deadline of the last one): a silent peer cannot leave a session
    without a clock (`c07_timer_always_pending`). After an upgrade the pending deadline is cancelled by
    design until the next pong/ping (the property excludes that window).
  * a closed session has no heartbeat timer (`c07_closed_has_no_timer`): nothing fires after close.
  * a pending ping is never further away than the ping interval, a pending deadline never further than
    ping interval + ping timeout (`c07_ping_within_interval`, `c07_deadline_within_bound`); with
    `c07_timeout_closes` (the deadline closes the session when it fires) a silent peer is closed no later
    than that.
-/
namespace EIO.Ses
open EIO EIO.Codec

/-- invariant and heartbeat condition together, in every reachable world -/
theorem reach_inv_hb (o : Opts) (ops : List Op) : Inv (run o ops) ∧ HB (run o ops) := by
  unfold run
  generalize hw : init o = w
  have hi : Inv w ∧ HB w := hw ▸ ⟨inv_init o, hb_init o⟩
  clear hw
  induction ops generalizing w with
  | nil => exact hi
  | cons op rest ih => exact ih _ ⟨(step_pres w op hi.1).1, step_hb w op hi.1 hi.2⟩

theorem reach_hb (o : Opts) (ops : List Op) : HB (run o ops) := (reach_inv_hb o ops).2

/-- C07: a live session that has never been upgraded always has a heartbeat timer pending -/
theorem c07_timer_always_pending (o : Opts) (ops : List Op) (sid : Nat)
    (ha : ((run o ops).sock sid).announced = true) (hnc : ((run o ops).sock sid).rs ≠ .closed)
    (hu : ((run o ops).sock sid).upgraded = false) :
    ((run o ops).sock sid).pingIntervalDue.isSome ∨ ((run o ops).sock sid).pingTimeoutDue.isSome :=
  (reach_hb o ops sid).pending (fun f => f) ha hnc hu

/-- C07: a closed session has no heartbeat timer left -/
theorem c07_closed_has_no_timer (o : Opts) (ops : List Op) (sid : Nat) (hc : ((run o ops).sock sid).rs = .closed) :
    ((run o ops).sock sid).pingIntervalDue = none ∧ ((run o ops).sock sid).pingTimeoutDue = none :=
  (reach_hb o ops sid).closed hc

/-- C07: the next ping is never further away than one ping interval -/
theorem c07_ping_within_interval (o : Opts) (ops : List Op) (sid d : Nat)
    (h : ((run o ops).sock sid).pingIntervalDue = some d) : d ≤ (run o ops).now + (run o ops).o.I :=
  (reach_hb o ops sid).pingBound d h

/-- C07: a pending deadline is never further away than ping interval + ping timeout -/
theorem c07_deadline_within_bound (o : Opts) (ops : List Op) (sid d : Nat)
    (h : ((run o ops).sock sid).pingTimeoutDue = some d) : d ≤ (run o ops).now + (run o ops).o.I + (run o ops).o.T :=
  (reach_hb o ops sid).deadBound d h

/-- non-vacuity: a revision-4 websocket session after its first ping, a polling session before it -/
example :
    let w := run {} [.hsWebsocket 4 false, .settle, .adv 25000, .settle, .hsPolling 4 false none, .settle]
    (w.sock 0).announced = true ∧ (w.sock 0).rs = .open_ ∧ (w.sock 0).upgraded = false ∧
    (w.sock 0).pingIntervalDue = none ∧ (w.sock 0).pingTimeoutDue = some 45000 ∧
    (w.sock 1).pingIntervalDue = some 50000 ∧ (w.sock 1).pingTimeoutDue = none := by decide +kernel

end EIO.Ses
