import EIO.Lemmas.Hb
/-
C08, "failures never cost the session" (every model state): whatever ends a candidate other than the
upgrade packet — an unexpected packet, its connection closing or failing, the upgrade timeout — leaves
every session record exactly as it was, except that the session is no longer marked as upgrading and has
no candidate: same transport, same ready state, same write buffer, same timers; other sessions untouched.
-/
namespace EIO.Ses
open EIO EIO.Codec

/-- the session records after a candidate was given up -/
def afterCandidateFailure (w : World) (sid : Nat) (j : Nat) : Sock :=
  if j = sid then { (w.sock sid) with upgrading := false, cand := none } else w.sock j

theorem candCleanup_socks_after (w : World) (sid : Nat) (c : Cand) (hc : (w.sock sid).cand = some c) (j : Nat) :
    (candCleanup w sid).sock j = afterCandidateFailure w sid j := by
  have hsz : sid < w.socks.size := by
    apply Nat.lt_of_not_le; intro hle
    rw [sock_oob w sid hle] at hc; cases hc
  unfold candCleanup afterCandidateFailure
  rw [hc]
  simp only [sock_setTr, sock_setSock]
  by_cases h : j = sid
  · subst h; simp [hsz]
  · simp [h, Ne.symm h]

theorem candCleanup_role (w : World) (sid : Nat) (c : Cand) (hc : (w.sock sid).cand = some c) :
    ((candCleanup w sid).tr c.tr).role = .none := by
  unfold candCleanup
  rw [hc]
  exact tr_setTr_role_none _ _ _ (fun _ => rfl)

/-- the candidate's error / close / transport-close listener -/
theorem c08_candidate_failure_costs_nothing (f : Nat) (w : World) (sid : Nat) (c : Cand)
    (hc : (w.sock sid).cand = some c) (j : Nat) :
    (candFail f w sid).sock j = afterCandidateFailure w sid j := by
  cases f with
  | zero => simp only [candFail]; exact candCleanup_socks_after w sid c hc j
  | succ f =>
    rw [candFail]
    simp only [hc]
    rw [(q_trCloseF_detached f c.tr (Still.refl _) (candCleanup_role w sid c hc)).sock j]
    exact candCleanup_socks_after w sid c hc j

/-- a packet on the candidate that is neither the probe nor the upgrade packet -/
theorem c08_unexpected_packet_costs_nothing (w : World) (sid : Nat) (c : Cand) (p : Pkt)
    (hc : (w.sock sid).cand = some c) (hp : isProbe p = false) (hu : p.typ ≠ .upgrade) (j : Nat) :
    (candOnPacket w sid p).sock j = afterCandidateFailure w sid j := by
  unfold candOnPacket
  simp only [hc, hp, Bool.false_eq_true, if_false, hu, false_and]
  unfold trClose
  rw [(q_trCloseF_detached _ c.tr (Still.refl _) (candCleanup_role w sid c hc)).sock j]
  exact candCleanup_socks_after w sid c hc j

/-- the upgrade timeout -/
theorem c08_upgrade_timeout_costs_nothing (w : World) (sid : Nat) (c : Cand)
    (hc : (w.sock sid).cand = some c) (j : Nat) :
    (fireTimer w (.upgradeTimeout sid)).sock j = afterCandidateFailure w sid j := by
  simp only [fireTimer, hc]
  split
  · unfold trClose
    rw [(q_trCloseF_detached _ c.tr (Still.refl _) (candCleanup_role w sid c hc)).sock j]
    exact candCleanup_socks_after w sid c hc j
  · exact candCleanup_socks_after w sid c hc j

/-- the candidate's connection goes away (transport "close" event with the candidate's listeners) -/
theorem c08_candidate_close_costs_nothing (f : Nat) (w : World) (ti sid : Nat) (c : Cand)
    (hr : (w.tr ti).role = .candidate sid) (hc : (w.sock sid).cand = some c) (j : Nat) :
    (trEmitClose (f + 1) w ti).sock j = afterCandidateFailure w sid j := by
  rw [trEmitClose]
  simp only [hr]
  exact c08_candidate_failure_costs_nothing f w sid c hc j

/-- a candidate for a session that is upgrading or already upgraded is closed, nothing else happens to the session -/
theorem c08_late_candidate_refused (w : World) (sid proto : Nat) (b64 : Bool)
    (hreg : w.registry.contains sid = true) (hu : (w.sock sid).upgrading = true ∨ (w.sock sid).upgraded = true) :
    (wsCandidate w sid proto b64).socks = w.socks ∧ (wsCandidate w sid proto b64).trs = w.trs := by
  unfold wsCandidate lookup
  try dsimp only
  split
  · exact ⟨rfl, rfl⟩
  · have hreg' : ({ w with conns := w.conns.push {} } : World).registry.contains sid = true := hreg
    simp only [hreg', if_true]
    have hu' : (({ w with conns := w.conns.push {} } : World).sock sid).upgrading = true ∨
        (({ w with conns := w.conns.push {} } : World).sock sid).upgraded = true := hu
    simp only [hu', if_true]
    exact ⟨rfl, rfl⟩

end EIO.Ses
