import EIO.Lemmas.World
import EIO.Props.Codec
/-
C02, the delivery half: the message packets a client submits on the session's
current transport while the session is open are delivered to the application
once each, in submission order, intact — for every payload, of any length.
-/
namespace EIO.Ses
open EIO EIO.Codec

def msgPkt (m : Msg) : Pkt := { typ := .message, data := some m }

/-- what the application sees of a sequence of messages: per message one `packet`
    event and one `message` event carrying it -/
def msgEvents (sid : Nat) (ms : List Msg) : List (Nat × SEv) :=
  ms.flatMap fun m => [(sid, SEv.packet .message), (sid, SEv.message (some m))]

/-- one message packet arriving for an open session -/
theorem sockOnPacket_message (w : World) (sid : Nat) (m : Msg) (hopen : (w.sock sid).rs = .open_) :
    sockOnPacket w sid (msgPkt m) = (w.sev sid (.packet .message)).sev sid (.message (some m)) := by
  unfold sockOnPacket msgPkt
  simp [hopen]

/-- `polling.OnData` on the packets of a payload: every message is delivered, in order, once;
    the session is still open and still listens on this transport afterwards -/
theorem c02_deliver_in_order (ti sid : Nat) (ms : List Msg) : ∀ (w : World),
    (w.tr ti).role = .current sid → (w.sock sid).rs = .open_ →
    (pollDeliver ti (ms.map msgPkt) w).slog = w.slog ++ msgEvents sid ms ∧
    ((pollDeliver ti (ms.map msgPkt) w).sock sid).rs = .open_ ∧
    ((pollDeliver ti (ms.map msgPkt) w).tr ti).role = .current sid := by
  induction ms with
  | nil => intro w hr ho; simp [pollDeliver, msgEvents, hr, ho]
  | cons m rest ih =>
    intro w hr ho
    have hstep : trEmitPacket w ti (msgPkt m) = (w.sev sid (.packet .message)).sev sid (.message (some m)) := by
      unfold trEmitPacket; simp only [hr]; exact sockOnPacket_message w sid m ho
    have hne : (msgPkt m).typ ≠ .close := by simp [msgPkt]
    rw [List.map_cons, pollDeliver]
    simp only [hne, if_false, hstep]
    obtain ⟨h1, h2, h3⟩ := ih ((w.sev sid (.packet .message)).sev sid (.message (some m)))
      (by rw [tr_sev, tr_sev]; exact hr) (by rw [sock_sev, sock_sev]; exact ho)
    refine ⟨?_, h2, h3⟩
    rw [h1, slog_sev, slog_sev]
    simp [msgEvents, List.append_assoc]

/-- end to end on a revision-4 polling transport: the body a conformant client builds for a list of
    messages (any kinds, any sizes the scanner admits) is decoded to those messages and they are
    delivered in submission order, each once, with their bytes and kind -/
theorem c02_payload_delivered_in_order (w : World) (ti sid : Nat) (ms : List Msg)
    (hproto : (w.tr ti).proto = 4) (hwf : WFv4 (ms.map msgPkt))
    (hr : (w.tr ti).role = .current sid) (ho : (w.sock sid).rs = .open_) :
    (pollOnData w ti (encodePayloadV4 (ms.map msgPkt)).data false).1.slog = w.slog ++ msgEvents sid ms ∧
    (pollOnData w ti (encodePayloadV4 (ms.map msgPkt)).data false).2 = true := by
  have hdec : decodePayloadV4 (encodePayloadV4 (ms.map msgPkt)).data = ms.map msgPkt := by
    rw [v4_payload_roundtrip _ hwf, List.map_map]
    apply List.map_congr_left
    intro m _
    exact v4_payload_message m
  unfold pollOnData pollDecode
  simp only [hproto, if_true, hdec]
  exact ⟨(c02_deliver_in_order ti sid ms w hr ho).1, trivial⟩

/-- a WebSocket / WebTransport frame carrying one message, for an open session on that connection's transport -/
theorem c02_frame_delivered (w : World) (ti sid : Nat) (m : Msg) (b64 : Bool)
    (hr : (w.tr ti).role = .current sid) (ho : (w.sock sid).rs = .open_) :
    (trEmitPacket w ti (decodePacketV4 (encodePacketV4 (msgPkt m) b64)).1).slog = w.slog ++ msgEvents sid [m] := by
  have : (decodePacketV4 (encodePacketV4 (msgPkt m) b64)).1 = msgPkt m := by
    unfold msgPkt; rw [v4_packet_roundtrip]
  rw [this]
  unfold trEmitPacket; simp only [hr]
  rw [sockOnPacket_message w sid m ho, slog_sev, slog_sev]
  simp [msgEvents, List.append_assoc]

/-- non-vacuity: a two-message payload on a fresh polling session -/
example :
    let w := run {} [.hsPolling 4 false none, .settle]
    (w.tr 0).role = .current 0 ∧ (w.sock 0).rs = .open_ ∧ (w.tr 0).proto = 4 := by decide +kernel

end EIO.Ses
