import EIO.Lemmas.PollStep
import EIO.Lemmas.PendStep
import EIO.Props.C12Shutdown
/-
C11 / C12, for every history: a polling transport that has closed never sits on an idle pending poll.

In every reachable world, if a polling transport is closed and a poll is still registered on it, the transport is
not writable: a writer was started for that poll when the transport closed (`c12_close_releases_pending_poll`) or a
batch was already on its way to it; the writer task answers the poll when it runs (`c01_poll_answer_is_payload`).
Also for every history: only polling transports hold polls, a transport waiting for its batch to drain before it
closes is a frame transport, and every queued writer is of its transport's kind.
-/
namespace EIO.Ses
open EIO EIO.Codec

theorem reach_inv_link_px (o : Opts) (ops : List Op) : Inv (run o ops) ∧ Link (run o ops) ∧ PollX (run o ops) := by
  unfold run
  generalize hw : init o = w
  have hi : Inv w ∧ Link w ∧ PollX w := hw ▸ ⟨inv_init o, link_init o, px_init o⟩
  clear hw
  induction ops generalizing w with
  | nil => exact hi
  | cons op rest ih =>
    exact ih _ ⟨(step_pres w op hi.1).1, step_link w op (fun s hs => (hi.1.regLive s hs).2.1) hi.2.1,
      step_px w op hi.1 hi.2.1 hi.2.2⟩

theorem reach_px (o : Opts) (ops : List Op) : PollX (run o ops) := (reach_inv_link_px o ops).2.2

/-- C11/C12: a closed polling transport holds no idle pending poll -/
theorem c11_closed_transport_holds_no_idle_poll (o : Opts) (ops : List Op) (ti : Nat)
    (hp : ((run o ops).tr ti).isPolling = true) (hc : ((run o ops).tr ti).rs = .closed)
    (hq : ((run o ops).tr ti).req.isSome) : ((run o ops).tr ti).writable = false :=
  ((reach_px o ops).tr ti).p1 hp hc hq

/-- C11: only a polling transport ever holds a poll -/
theorem c11_only_polling_transports_hold_polls (o : Opts) (ops : List Op) (ti : Nat)
    (hq : ((run o ops).tr ti).req.isSome) : ((run o ops).tr ti).isPolling = true :=
  ((reach_px o ops).tr ti).p3 hq

/-- every queued writer task is of its transport's kind (a polling writer never runs on a frame transport) -/
theorem c01_writer_tasks_match_their_transport (o : Opts) (ops : List Op) (t : Task) (h : t ∈ (run o ops).tasks) :
    taskKindOK (run o ops) t :=
  (reach_px o ops).tk t h

/-- a pending poll is never forgotten, in any reachable world -/
theorem reach_pd (o : Opts) (ops : List Op) : PendX none (run o ops) := by
  unfold run
  generalize hw : init o = w
  have hi : PendX none w := hw ▸ pd_init o
  clear hw
  induction ops generalizing w with
  | nil => exact hi
  | cons op rest ih => exact ih _ (step_pd w op hi)

/-- C11: in every reachable world, a poll registered on a polling transport that is not writable has a writer task
    queued for it, or its request is already finished (the client gave it up) -/
theorem c11_pending_poll_has_a_writer (o : Opts) (ops : List Op) (ti r : Nat)
    (hp : ((run o ops).tr ti).isPolling = true) (hq : ((run o ops).tr ti).req = some r)
    (hw : ((run o ops).tr ti).writable = false) :
    (∃ b, Task.pollSend ti b ∈ (run o ops).tasks) ∨ reqDone (run o ops) r :=
  (reach_pd o ops).p4 ti r (by simp) hp hq hw

/-- C11/C12 ("never none", "a pending poll is answered at the latest when the session closes"): in every reachable
    world, a poll still registered on a closed polling transport has a writer task queued for it — which answers it
    when it runs — or was given up by the client -/
theorem c11_poll_on_closed_transport_is_being_answered (o : Opts) (ops : List Op) (ti r : Nat)
    (hp : ((run o ops).tr ti).isPolling = true) (hc : ((run o ops).tr ti).rs = .closed)
    (hq : ((run o ops).tr ti).req = some r) :
    (∃ b, Task.pollSend ti b ∈ (run o ops).tasks) ∨ reqDone (run o ops) r :=
  c11_pending_poll_has_a_writer o ops ti r hp hq
    (c11_closed_transport_holds_no_idle_poll o ops ti hp hc (by rw [hq]; rfl))

/-- … hence, once the writer tasks have run (no task queued), a closed polling transport holds no poll other than
    one the client itself gave up -/
theorem c11_no_forgotten_poll_at_quiescence (o : Opts) (ops : List Op) (ti r : Nat)
    (hidle : (run o ops).tasks = [])
    (hp : ((run o ops).tr ti).isPolling = true) (hc : ((run o ops).tr ti).rs = .closed)
    (hq : ((run o ops).tr ti).req = some r) : reqDone (run o ops) r := by
  rcases c11_poll_on_closed_transport_is_being_answered o ops ti r hp hc hq with ⟨b, hb⟩ | h
  · rw [hidle] at hb; cases hb
  · exact h

/-- non-vacuity: a polling session with a poll pending is closed by the application; before the writer task runs
    the transport is closed, holds the poll and is not writable, a writer is queued; after it ran the poll is gone -/
example :
    let w := run {} [.hsPolling 4 false none, .settle, .poll 0 [], .settle]
    let w1 := step w (.close 0 true)
    (w1.tr 0).isPolling = true ∧ (w1.tr 0).rs = .closed ∧ (w1.tr 0).req.isSome = true ∧ (w1.tr 0).writable = false ∧
    w1.tasks.length = 1 ∧ ((step w1 .settle).tr 0).req = none := by decide +kernel

end EIO.Ses
