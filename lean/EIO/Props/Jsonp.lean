import EIO.Model.Codec
/-
C02 (JSONP form bodies): what a JSONP client escapes, the server un-escapes.
Full strength fails on the current tree and in the protocol as deployed: a
backslash immediately before a newline cannot be told from an escaped
newline (counterexample below, replayed on the implementation by the
`ses-resp` family; recorded as a known finding). Proved for every payload
without a backslash.
-/
namespace EIO.Codec
open EIO

theorem unescape1_cons_ne (b : UInt8) (rest : Bytes) (h : b ≠ 92) :
    jsonpUnescape1 (b :: rest) = b :: jsonpUnescape1 rest := by
  rw [jsonpUnescape1] <;> (intros; simp_all)

theorem unescape2_cons_ne (b : UInt8) (rest : Bytes) (h : b ≠ 92) :
    jsonpUnescape2 (b :: rest) = b :: jsonpUnescape2 rest := by
  rw [jsonpUnescape2] <;> (intros; simp_all)

theorem clientEscape_cons_other (b : UInt8) (rest : Bytes) (h92 : b ≠ 92) (h10 : b ≠ 10) :
    jsonpClientEscape (b :: rest) = b :: jsonpClientEscape rest := by
  rw [jsonpClientEscape] <;> (intros; simp_all)

theorem clientEscape_cons_nl (rest : Bytes) :
    jsonpClientEscape (10 :: rest) = 92 :: 110 :: jsonpClientEscape rest := by
  rw [jsonpClientEscape]

theorem unescape1_esc_nl (rest : Bytes) :
    jsonpUnescape1 (92 :: 110 :: rest) = 10 :: jsonpUnescape1 rest := by
  rw [jsonpUnescape1]

theorem unescape1_clientEscape (s : Bytes) (h : 92 ∉ s) : jsonpUnescape1 (jsonpClientEscape s) = s := by
  induction s with
  | nil => simp [jsonpClientEscape, jsonpUnescape1]
  | cons b rest ih =>
    have hb : b ≠ 92 := fun e => h (by simp [e])
    have hr : 92 ∉ rest := fun e => h (by simp [e])
    by_cases h10 : b = 10
    · subst h10
      rw [clientEscape_cons_nl, unescape1_esc_nl, ih hr]
    · rw [clientEscape_cons_other b rest hb h10, unescape1_cons_ne b _ hb, ih hr]

theorem unescape2_id (s : Bytes) (h : 92 ∉ s) : jsonpUnescape2 s = s := by
  induction s with
  | nil => simp [jsonpUnescape2]
  | cons b rest ih =>
    have hb : b ≠ 92 := fun e => h (by simp [e])
    have hr : 92 ∉ rest := fun e => h (by simp [e])
    rw [unescape2_cons_ne b rest hb, ih hr]

/-- **C02 (JSONP), partial**: every payload without a backslash — newlines,
    quotes, any UTF-8 — comes out of the form field exactly as submitted -/
theorem c02_jsonp_unescape_partial (s : Bytes) (h : 92 ∉ s) :
    jsonpUnescape (jsonpClientEscape s) = s := by
  unfold jsonpUnescape
  rw [unescape1_clientEscape s h, unescape2_id s h]

/-- escaped newlines written by the application (`\\n`, two characters) do survive -/
example : jsonpUnescape (jsonpClientEscape [97, 92, 110, 98, 10, 99]) = [97, 92, 110, 98, 10, 99] := by decide

/-- **counterexample to the full statement** (the code as it is, and the
    deployed protocol): a backslash directly before a newline comes back as
    backslash + 'n' -/
theorem c02_jsonp_backslash_newline_counterexample :
    jsonpUnescape (jsonpClientEscape [92, 10]) = [92, 110] := by decide

end EIO.Codec
