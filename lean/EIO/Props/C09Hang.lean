import EIO.Lemmas.Fault
import EIO.Props.Session
/-
C09, "no sequence of client-controlled inputs can make the process … hang": the model records a hang of the process
(`World.fault`) in one place only, `pollOnData`, when the revision-3 *binary* payload decoder of the parser dependency
spins (known finding `C09/hang/v3-binary-body/…`, reproduced by the model and the implementation alike).
`c09_only_a_binary_body_can_hang`: every other operation — handshakes, polls, data requests with text content of any
bytes whatsoever, frames of any content, aborts, upgrade candidates, drops, close frames, application sends and
closes, shutdown, the clock, writer tasks — leaves `fault` as it was, in every model state; hence
(`c09_no_hang_without_a_binary_body`) a history without a binary data request never hangs the model, whatever else the
clients send. (A binary data request on a revision-4 session is refused before it is decoded; the model state it
reaches is that of `c11`'s 400 answer.)
-/
namespace EIO.Ses
open EIO EIO.Codec

/-- a data request whose content type is binary -/
def Op.binaryPost : Op → Bool
  | .post _ binary _ _ _ => binary
  | _ => false

theorem c09_only_a_binary_body_can_hang (w : World) (op : Op) (h : op.binaryPost = false) :
    (step w op).fault = w.fault := by
  unfold step
  split
  · rfl
  · cases op with
    | hsPolling pr b j => exact nfm_hsPolling _ _ _ _
    | hsWebsocket pr b => exact nfm_hsWebsocket _ _ _
    | poll sid ae => exact (nf_pollReq _ _ (NF.refl w)).fault
    | post sid bin decl body vj => exact (nf_postReq _ _ _ _ _ (by simpa [Op.binaryPost] using h) (NF.refl w)).fault
    | abort r => exact (nf_abortReq _ (NF.refl w)).fault
    | wsCandidate sid pr b => exact (nf_wsCandidate _ _ _ (NF.refl w)).fault
    | hsWt => exact nfm_hsWt _
    | wtCandidate sid => exact (nf_wtCandidate _ (NF.refl w)).fault
    | frame c m =>
      dsimp only
      repeat (first | rfl | exact (nf_wsFrame _ _ (NF.refl w)).fault | split)
    | drop c => exact (nf_wsDrop _ (NF.refl w)).fault
    | closeFrame c code => exact (nf_wsDrop _ (nf_setConn _ _ (NF.refl w))).fault
    | send sid m c cb pre => exact (nf_appSend _ _ _ _ _ (NF.refl w)).fault
    | close sid d => exact (nf_appClose _ _ (NF.refl w)).fault
    | shutdown => exact (nf_shutdownFold _ (NF.refl w)).fault
    | adv d => exact (nf_advance _ _ (NF.refl w)).fault
    | settle => exact (nf_settle _ (NF.refl w)).fault
    | observe => exact (nf_observe (NF.refl w)).fault

/-- **no binary data request, no hang**: whatever else the clients, the application and the clock do -/
theorem c09_no_hang_without_a_binary_body (o : Opts) (ops : List Op) (h : ∀ op ∈ ops, op.binaryPost = false) :
    (run o ops).fault = none := by
  unfold run
  have : ∀ (w : World), w.fault = none → (∀ op ∈ ops, op.binaryPost = false) → (ops.foldl step w).fault = none := by
    induction ops with
    | nil => intro w hw _; exact hw
    | cons op rest ih =>
      intro w hw hall
      rw [List.foldl_cons]
      apply ih (fun op' hm => h op' (List.mem_cons_of_mem _ hm))
      · rw [c09_only_a_binary_body_can_hang w op (hall op List.mem_cons_self)]; exact hw
      · intro op' hm; exact hall op' (List.mem_cons_of_mem _ hm)
  exact this (init o) rfl h

/-- a binary data request on a revision-4 session is refused before anything is decoded: it cannot hang the model either -/
theorem c09_binary_body_on_v4_is_refused_undecoded (w : World) (sid : Nat) (declared : Bool) (body : Bytes) (vj : Bool)
    (h4 : (w.tr (w.sock sid).tr).proto = 4) :
    (postReq w sid true declared body vj).fault = w.fault := by
  unfold postReq lookup
  try dsimp only
  have c0 : NF w ({ w with reqs := w.reqs.push { isPost := true, consumed := some 0 } } : World) := nf_pushReq _ (NF.refl w)
  split
  · exact (nf_rejectReq _ _ _ c0).fault
  · rename_i s hl
    have hs : s = w.sock sid := by
      split at hl
      · cases hl; rfl
      · cases hl
    subst hs
    split
    · exact (nf_rejectReq _ _ _ c0).fault
    · have hp : (({ w with reqs := w.reqs.push { isPost := true, consumed := some 0 } } : World).tr (w.sock sid).tr).proto = 4 := h4
      simp only [hp, and_self, if_true]
      exact (nf_answer _ _ (nf_trOnError _ c0)).fault

/-- the finding itself, on the model: the 14-byte revision-3 binary body with a 12-digit length prefix -/
example :
    (run { eio3 := true } [.hsPolling 3 false none, .settle,
      .post 0 true true [0x00, 9, 9, 9, 9, 9, 9, 9, 9, 9, 9, 9, 9, 0xff] false]).fault = some "hang" := by
  decide +kernel

end EIO.Ses
