import EIO.Model.Session
import EIO.Lemmas.World
/-
Guard theorems of the session model: what each entry point does (nothing) once
a session is closing or closed, what a request naming a dead session gets, the
payload limit, the response discipline. Each holds for every world state.
-/
namespace EIO.Ses
open EIO EIO.Codec

/-! ### C03: after the close, silence -/

/-- a second close cause finds the session closed and does nothing at all:
    no second close event, no state change -/
theorem c03_second_close_is_noop (f : Nat) (w : World) (sid : Nat) (reason : String)
    (h : (w.sock sid).rs = .closed) : sockOnClose f w sid reason = w := by
  cases f with
  | zero => simp [sockOnClose]
  | succ f => unfold sockOnClose; simp [h]

/-- `Send` after close (or while closing) is silently discarded -/
theorem c03_send_after_close_discarded (w : World) (sid : Nat) (p : Pkt) (cb : Option Nat)
    (h : (w.sock sid).rs = .closing ∨ (w.sock sid).rs = .closed) : sendPacket w sid p cb = w := by
  unfold sendPacket
  rcases h with h | h <;> simp [h]

/-- a packet arriving for a session that is not open is ignored: no packet,
    message or heartbeat event, no timer change -/
theorem c03_packet_when_not_open_ignored (w : World) (sid : Nat) (p : Pkt)
    (h : (w.sock sid).rs ≠ .open_) : sockOnPacket w sid p = w := by
  unfold sockOnPacket; simp [h]

/-- nothing is flushed (no flush / drain event) for a closed session -/
theorem c03_flush_when_closed (f : Nat) (w : World) (sid : Nat)
    (h : (w.sock sid).rs = .closed) : flushF f w sid = w := by
  cases f with
  | zero => simp [flushF]
  | succ f => unfold flushF; simp [h]

/-- a transport whose listeners were removed (a discarded or failed candidate,
    the old transport after an upgrade) delivers nothing to any session -/
theorem c03_detached_transport_is_mute (w : World) (ti : Nat) (p : Pkt)
    (h : (w.tr ti).role = .none) :
    trEmitPacket w ti p = w ∧ trEmitReady w ti = w ∧ trOnErrorF closeFuel w ti = w := by
  refine ⟨?_, ?_, ?_⟩
  · unfold trEmitPacket; simp [h]
  · unfold trEmitReady; simp [h]
  · unfold trOnErrorF closeFuel; simp [h]

/-! ### C04: a request naming a session that is not registered -/

theorem c04_unknown_sid_poll (w : World) (sid : Nat) (ae : Bytes) (h : sid ∉ w.registry) :
    pollReq w sid ae = rejectReq { w with reqs := w.reqs.push { ae } } w.reqs.size 1 "Session ID unknown" := by
  unfold pollReq lookup
  simp [h]

theorem c04_unknown_sid_post (w : World) (sid : Nat) (b d : Bool) (body : Bytes) (h : sid ∉ w.registry) :
    postReq w sid b d body =
      rejectReq { w with reqs := w.reqs.push { isPost := true, consumed := some 0 } } w.reqs.size 1 "Session ID unknown" := by
  unfold postReq lookup
  simp [h]

/-! ### C11: one response per request -/

/-- once a request has been answered, a later attempt to answer it changes
    nothing (`HttpContext.Write` refuses the second write) -/
theorem c11_second_answer_is_noop (w : World) (r : Nat) (resp : Resp)
    (h : (w.reqs.getD r default).resp.isSome) : w.answer r resp = w := by
  unfold World.answer; rw [if_pos h]

theorem c11_answer_records (w : World) (r : Nat) (resp : Resp) (hr : r < w.reqs.size)
    (h : (w.reqs.getD r default).resp = none) :
    ((w.answer r resp).reqs.getD r default).resp = some resp := by
  unfold World.answer
  rw [if_neg (by rw [h]; simp)]
  rw [req_setReq]
  simp [World.ev, hr]

/-- a second poll while one is pending: transport error for the session and
    status 400 for the newcomer -/
theorem c11_overlapping_poll (w : World) (ti r : Nat) (h : (w.tr ti).req.isSome) :
    onPollRequest w ti r = (trOnError w ti).answer r { status := 400, ct := "-" } := by
  unfold onPollRequest; simp [h]

/-! ### C10: the payload limit -/

/-- a frame above the limit is never decoded into a packet event -/
theorem c10_oversized_frame_not_delivered (w : World) (c ti : Nat) (m : Msg)
    (hopen : (w.conns.getD c default).serverOpen ∧ (w.conns.getD c default).clientOpen)
    (htr : trOfConn w c = some ti) (hbig : m.data.length > w.o.maxPayload) :
    (wsFrame w c m).1 =
      trOnError (w.setConn c fun x => { x with serverOpen := false, ended := some "close:1009:-" }) ti := by
  unfold wsFrame
  rw [if_neg (by rw [hopen.1, hopen.2]; simp)]
  simp [htr, hbig]

/-! ### C12: a close that cannot be completed at once is bounded by the close timeout -/

theorem c12_polling_close_buffered (f : Nat) (w : World) (ti : Nat) (fn : Option Nat)
    (hrs : (w.tr ti).rs = .open_) (hp : (w.tr ti).isPolling = true) (hd : (w.tr ti).dataReq = none)
    (hw : (w.tr ti).writable = false) (hdis : (w.tr ti).discarded = false) :
    trCloseF (f + 1) w ti fn =
      (w.setTr ti fun t => { t with rs := .closing, closeFn := fn }).setTr ti fun t =>
        { t with closeTimerDue := some (w.now + closeTimeout), shouldClose := true } := by
  unfold trCloseF
  simp [hrs, hp, hd, hw, hdis]
  rfl

theorem c12_ws_close_waits_for_batch (f : Nat) (w : World) (ti : Nat) (fn : Option Nat)
    (hrs : (w.tr ti).rs = .open_) (hp : (w.tr ti).isPolling = false)
    (hw : (w.tr ti).writable = false) (hdis : (w.tr ti).discarded = false) :
    trCloseF (f + 1) w ti fn =
      (w.setTr ti fun t => { t with rs := .closing, closeFn := fn }).setTr ti fun t =>
        { t with closeTimerDue := some (w.now + closeTimeout), closeWait := true } := by
  unfold trCloseF
  simp [hrs, hp, hw, hdis]
  rfl

/-- a graceful close with packets still buffered waits for the drain event -/
theorem c12_graceful_close_waits (w : World) (sid : Nat) (h : (w.sock sid).rs = .open_)
    (hb : (w.sock sid).wbuf ≠ []) :
    appClose w sid false =
      (w.setSock sid fun s => { s with rs := .closing }).setSock sid fun s => { s with drainClose := some false } := by
  unfold appClose
  have : ¬ (w.sock sid).wbuf.isEmpty = true := by simpa using hb
  simp [h, this]

/-! ### C18: callbacks are consumed one hand-off at a time -/

theorem c18_no_group_no_callback (w : World) (sid : Nat) (h : (w.sock sid).sentCb = []) :
    sockOnDrain w sid = w := by
  unfold sockOnDrain; simp [h]

end EIO.Ses
