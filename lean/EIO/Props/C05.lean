import EIO.Spec.Admit
/-
C05 (admission half) — every request that reaches the engine is admitted or
rejected by the fixed precedence of checks, and a rejected request gets
exactly the documented answer and exactly one connection_error event.
Quantified over every request tuple (arbitrary strings and bytes, repeated
query keys), every configuration and every registry content.
-/
namespace EIO.Admit
open EIO

theorem length_pos_iff_ne_empty (s : String) : s.length > 0 ↔ s ≠ "" := by
  constructor
  · intro h hs; subst hs; simp at h
  · intro h
    cases hl : s.length with
    | zero => exact absurd (String.length_eq_zero_iff.mp hl) h
    | succ n => omega

theorem invalidHeaderChar_iff (v : Bytes) : invalidHeaderChar v = true ↔ ¬ Spec.originWellFormed v := by
  unfold invalidHeaderChar Spec.originWellFormed
  simp only [List.any_eq_true, decide_eq_true_eq]
  constructor
  · rintro ⟨b, hb, h1, h2⟩ hall
    exact hall b hb ⟨h1, by omega⟩
  · intro h
    obtain ⟨b, hb⟩ := Classical.not_forall.mp h
    obtain ⟨hbv, hc⟩ := Classical.not_imp.mp hb
    obtain ⟨h1, h2⟩ := Classical.not_not.mp hc
    exact ⟨b, hbv, h1, by omega⟩

/-- **C05 precedence + error table, plain HTTP requests.** For every request
    tuple, configuration and registry: if some check of the documented
    precedence list fails, the answer is the documented status / code / message
    of the *first* failing check with exactly one connection_error; otherwise
    the request is handed to its session or starts a handshake. Holds for any
    extracted error table equal to the documented one. -/
theorem c05_precedence_http (tbl : ErrTable) (htbl : tbl.get = Spec.documented)
    (c : Cfg) (reg : Registry) (r : Request) (hup : r.upgrade = false) :
    serve tbl c reg r =
      match Spec.firstFailing (Spec.checks c reg r) with
      | some ch => .reject (Spec.answer ch).1 (Spec.answer ch).2.1 (Spec.answer ch).2.2 1
      | none => if peek r.sid ≠ "" then .dispatch (peek r.sid)
                else .handshake (peek r.transport) (revision r) := by
  unfold serve Spec.checks Spec.requestChecks Spec.revisionCheck
  simp only [List.cons_append, List.nil_append, hup, Bool.false_eq_true, not_false_eq_true, if_true,
    Spec.firstFailing, abort, htbl, Spec.answer]
  by_cases hmw : c.mwFails = true
  · simp [hmw, Spec.documented]
  · simp only [hmw, Bool.false_eq_true, if_false, decide_eq_true_eq]
    unfold verify
    simp only
    by_cases ht : ¬ c.transports.contains (peek r.transport) = true ∨ peek r.transport = "webtransport"
    · have ht' : ¬ peek r.transport ∈ c.transports ∨ peek r.transport = "webtransport" := by
        simpa using ht
      simp [ht, ht', Spec.documented]
    · have ht' : ¬ (¬ peek r.transport ∈ c.transports ∨ peek r.transport = "webtransport") := by
        simpa using ht
      simp only [ht, if_false, ht', decide_false, Bool.false_eq_true]
      by_cases ho : invalidHeaderChar r.origin = true
      · have := (invalidHeaderChar_iff r.origin).mp ho
        simp [ho, this, Spec.documented]
      · have hw : Spec.originWellFormed r.origin := by
          exact Classical.not_not.mp ((not_congr (invalidHeaderChar_iff r.origin)).mp ho)
        simp only [ho, Bool.false_eq_true, if_false, hw, not_true_eq_false, decide_false]
        by_cases hs : peek r.sid = ""
        · have hl : ¬ (peek r.sid).length > 0 := by simp [hs]
          simp only [hl, if_false, hs, ne_eq, not_true_eq_false, false_and, decide_false,
            Bool.false_eq_true, not_false_eq_true, true_and, if_true]
          by_cases hm : r.method = "GET"
          · simp only [hm, ne_eq, not_true_eq_false, if_false, decide_false, Bool.false_eq_true]
            by_cases hws : peek r.transport = "websocket"
            · simp [hws, hup, Spec.documented]
            · simp only [hws, false_and, if_false, decide_false, Bool.false_eq_true]
              cases hh : c.hookRefuses with
              | some msg => simp [Spec.documented]
              | none =>
                simp only [Option.isSome_none, Bool.false_eq_true, decide_false, if_false,
                  handshakeRefusal, revision]
                by_cases he : peek r.eio = "4"
                · simp [he]
                · cases ha : c.allowEIO3 <;> simp [he, ha, Spec.documented]
          · simp [hm, Spec.documented]
        · have hl : (peek r.sid).length > 0 := (length_pos_iff_ne_empty _).mpr hs
          simp only [hl, if_true, ne_eq, hs, not_false_eq_true, true_and, hup, Bool.false_eq_true,
            not_true_eq_false, false_and, decide_false, if_false]
          cases hreg : reg (peek r.sid) with
          | none => simp [Spec.documented]
          | some cl =>
            by_cases hmis : cl.transport = peek r.transport
            · simp [hmis]
            · simp [hmis, Spec.documented]


/-- **C05 precedence, WebSocket upgrade requests** (websocket transport
    enabled): the request-level checks are answered over HTTP exactly as above;
    a request that passes them is upgraded and then either closed without a
    message (a transport that cannot be a WebSocket, an unknown / upgrading /
    upgraded session), refused late with a close message carrying the documented
    text and one connection_error (revision not allowed), admitted as a new
    session, or entertained as the session's upgrade candidate. -/
theorem c05_precedence_upgrade (tbl : ErrTable) (htbl : tbl.get = Spec.documented)
    (c : Cfg) (reg : Registry) (r : Request) (hup : r.upgrade = true)
    (hws : c.transports.contains "websocket" = true) :
    serve tbl c reg r =
      match Spec.firstFailing (Spec.requestChecks c reg r) with
      | some ch => .reject (Spec.answer ch).1 (Spec.answer ch).2.1 (Spec.answer ch).2.2 1
      | none =>
        if peek r.transport = "polling" then .silentClose
        else if peek r.sid = "" then
          (if (Spec.revisionCheck c r).fails then
             .lateReject (Spec.documented .unsupportedProtocol).message 1
           else .handshake (peek r.transport) (revision r))
        else match reg (peek r.sid) with
          | none => .silentClose
          | some cl => if cl.upgrading ∨ cl.upgraded then .silentClose else .candidate (peek r.sid) := by
  unfold serve Spec.requestChecks Spec.revisionCheck
  simp only [hup, not_true_eq_false, if_false, hws, Spec.firstFailing, abort, htbl, Spec.answer]
  by_cases hmw : c.mwFails = true
  · simp [hmw, Spec.documented]
  · simp only [hmw, Bool.false_eq_true, if_false, decide_eq_true_eq]
    unfold verify
    simp only
    by_cases ht : ¬ c.transports.contains (peek r.transport) = true ∨ peek r.transport = "webtransport"
    · have ht' : ¬ peek r.transport ∈ c.transports ∨ peek r.transport = "webtransport" := by
        simpa using ht
      simp [ht, ht', Spec.documented]
    · have ht' : ¬ (¬ peek r.transport ∈ c.transports ∨ peek r.transport = "webtransport") := by
        simpa using ht
      have hnwt : ¬ peek r.transport = "webtransport" := fun h => ht (Or.inr h)
      simp only [ht, if_false, ht', decide_false, Bool.false_eq_true]
      by_cases ho : invalidHeaderChar r.origin = true
      · have := (invalidHeaderChar_iff r.origin).mp ho
        simp [ho, this, Spec.documented]
      · have hw : Spec.originWellFormed r.origin :=
          Classical.not_not.mp ((not_congr (invalidHeaderChar_iff r.origin)).mp ho)
        simp only [ho, Bool.false_eq_true, if_false, hw, not_true_eq_false, decide_false]
        have hb : (builtin (peek r.transport) = true ∧ ¬ handlesUpgrades (peek r.transport) = true) ↔
            peek r.transport = "polling" := by
          unfold builtin handlesUpgrades
          by_cases hp : peek r.transport = "polling" <;> simp [hp]
        by_cases hs : peek r.sid = ""
        · have hl : ¬ (peek r.sid).length > 0 := by simp [hs]
          have hl0 : (peek r.sid).length = 0 := by simp [hs]
          simp only [hl, if_false, hs, ne_eq, not_true_eq_false, false_and, decide_false,
            Bool.false_eq_true, not_false_eq_true, true_and, if_true, hup]
          by_cases hm : r.method = "GET"
          · simp only [hm, ne_eq, not_true_eq_false, if_false, decide_false, Bool.false_eq_true,
              and_false]
            cases hh : c.hookRefuses with
            | some msg => simp [Spec.documented]
            | none =>
              simp only [Option.isSome_none, Bool.false_eq_true, decide_false, if_false, hb]
              by_cases hp : peek r.transport = "polling"
              · simp [hp]
              · simp only [hp, if_false, String.length_empty, if_true, handshakeRefusal, revision]
                by_cases he : peek r.eio = "4"
                · simp [he]
                · cases ha : c.allowEIO3 <;> simp [he, ha, Spec.documented, htbl]
          · simp [hm, Spec.documented]
        · have hl : (peek r.sid).length > 0 := (length_pos_iff_ne_empty _).mpr hs
          have hl0 : ¬ (peek r.sid).length = 0 := by omega
          simp only [hl, if_true, ne_eq, hs, not_false_eq_true, true_and, hup, not_true_eq_false,
            false_and, decide_false, Bool.false_eq_true, if_false, and_false]
          cases hreg : reg (peek r.sid) with
          | none => simp [Spec.documented]
          | some cl =>
            simp only [reduceCtorEq, decide_false, Bool.false_eq_true, if_false, hb]
            by_cases hp : peek r.transport = "polling"
            · simp [hp]
            · simp [hp, hl0]

/-! ### corollaries in the property's own words -/

theorem firstFailing_mem (l : List Spec.Check) (ch : Spec.Check)
    (h : Spec.firstFailing l = some ch) : ch ∈ l ∧ ch.fails = true := by
  induction l with
  | nil => simp [Spec.firstFailing] at h
  | cons a rest ih =>
    unfold Spec.firstFailing at h
    by_cases ha : a.fails = true
    · simp only [ha, if_true, Option.some.injEq] at h
      subst h; exact ⟨by simp, ha⟩
    · simp only [ha, Bool.false_eq_true, if_false] at h
      exact ⟨List.mem_cons_of_mem _ (ih h).1, (ih h).2⟩

/-- every refusal over HTTP carries a documented (code, message) pair, the
    hook's own text for code 4, status 403 exactly for the hook's refusal, and
    exactly one connection_error -/
theorem c05_error_table (tbl : ErrTable) (htbl : tbl.get = Spec.documented)
    (c : Cfg) (reg : Registry) (r : Request) (hup : r.upgrade = false)
    (st code ev : Nat) (msg : String) (h : serve tbl c reg r = .reject st code msg ev) :
    ev = 1 ∧ ∃ e : ErrKind, code = (Spec.documented e).code ∧
      (st = 403 ↔ e = .forbidden) ∧ (st = 400 ∨ st = 403) ∧
      (e ≠ .forbidden → msg = (Spec.documented e).message) ∧
      (e = .forbidden → some msg = c.hookRefuses) := by
  rw [c05_precedence_http tbl htbl c reg r hup] at h
  split at h
  · rename_i ch hff
    simp only [Outcome.reject.injEq, Spec.answer] at h
    obtain ⟨h1, h2, h3, h4⟩ := h
    obtain ⟨hmem, hfail⟩ := firstFailing_mem _ _ hff
    refine ⟨h4.symm, ch.err, h2.symm, ?_, ?_, ?_, ?_⟩
    · rw [← h1]; by_cases hf : ch.err = .forbidden <;> simp [hf]
    · rw [← h1]; by_cases hf : ch.err = .forbidden <;> simp [hf]
    · intro hne
      have : ch.text = none := by
        unfold Spec.checks Spec.requestChecks Spec.revisionCheck at hmem
        simp only [List.cons_append, List.nil_append, List.mem_cons, List.not_mem_nil, or_false] at hmem
        rcases hmem with rfl | rfl | rfl | rfl | rfl | rfl | rfl | rfl | rfl <;>
          first | rfl | (exfalso; exact hne rfl)
      rw [← h3, this]; rfl
    · intro hfb
      unfold Spec.checks Spec.requestChecks Spec.revisionCheck at hmem
      simp only [List.cons_append, List.nil_append, List.mem_cons, List.not_mem_nil, or_false] at hmem
      rcases hmem with rfl | rfl | rfl | rfl | rfl | rfl | rfl | rfl | rfl <;> simp at hfb
      simp only [decide_eq_true_eq] at hfail
      cases hh : c.hookRefuses with
      | none => simp [hh] at hfail
      | some m => rw [← h3]; simp [hh]
  · split at h <;> simp at h

/-- non-vacuity: a POST handshake with an unknown transport is refused for the
    transport (check 2), not for the method (check 6) -/
example : serve ⟨Spec.documented⟩ ⟨["polling", "websocket"], false, none, false⟩ (fun _ => none)
    ⟨false, "POST", ["flashsocket"], [], ["3"], []⟩ = .reject 400 0 "Transport unknown" 1 := by
  decide +kernel

/-- a revision-3 handshake with revision 3 not allowed and a refusing hook is
    refused by the hook (403, its own text), because the hook ranks first -/
example : serve ⟨Spec.documented⟩ ⟨["polling"], false, some "not today", false⟩ (fun _ => none)
    ⟨false, "GET", ["polling"], [], [], []⟩ = .reject 403 4 "not today" 1 := by
  decide +kernel

end EIO.Admit
